import DdoModel.Examples.PspProofs
/-! `MergeOk` for the psp example.  Under the triangle inequality a state with pointwise earlier pending due dates (and a
    `next` that is no worse up to a debt `δ`) is worth at least as much (`bestRem_mono`): its plan follows the plan of the
    other state and idles whenever the other one produces a unit it does not owe.  Hence `mergeOk_partial`: `MergeOkStmt`
    for every horizon `≤ 2^63` (the merge starts from `isize::MAX`).  Without the inequality the statement is false
    (`mergeOk_fails_without_triangle`, finding D15). -/
namespace Ddo.Examples.PspModel
open Ddo Ddo.Examples Ddo.Examples.Util

def qq (I : Psp.Inst) (a b : Nat) : Int := (I.q.getD a []).getD b 0

theorem chgTo_item (I : Psp.Inst) (b c : Nat) : chgTo I (b : Int) c = qq I c b := by
  have : ¬ ((b : Int) = -1) := by omega
  simp [chgTo, this, qq]

theorem chgTo_none (I : Psp.Inst) (c : Nat) : chgTo I (-1) c = 0 := by simp [chgTo]

theorem getD_nonneg {l : List Int} (h : ∀ x ∈ l, 0 ≤ x) (i : Nat) : 0 ≤ l.getD i 0 := by
  rw [List.getD_eq_getElem?_getD]
  by_cases hi : i < l.length
  · rw [List.getElem?_eq_getElem hi]; exact h _ (List.getElem_mem hi)
  · rw [List.getElem?_eq_none (Nat.le_of_not_lt hi)]; exact Int.le_refl _

section
variable {I : Psp.Inst} (hI : InstOk I)
include hI

theorem qq_nonneg (a b : Nat) : 0 ≤ qq I a b := by
  unfold qq
  apply getD_nonneg
  rw [List.getD_eq_getElem?_getD]
  by_cases ha : a < I.q.length
  · rw [List.getElem?_eq_getElem ha]; exact (hI.qrows.2 _ (List.getElem_mem ha)).2
  · rw [List.getElem?_eq_none (Nat.le_of_not_lt ha)]; intro x hx; cases hx

theorem stkOf_nonneg (i : Nat) : 0 ≤ stkOf I i := getD_nonneg hI.hrow.2 i

theorem chgTo_nonneg (nx : Int) (c : Nat) : 0 ≤ chgTo I nx c := by
  unfold chgTo
  split
  · exact Int.le_refl _
  · exact qq_nonneg hI _ _

omit hI in
theorem triangle (htri : triangleB (tabOf I) = true) {a b c : Nat} (ha : a < I.n) (hb : b < I.n) (hc : c < I.n) :
    qq I a c ≤ qq I a b + qq I b c := by
  unfold triangleB at htri
  simp only [List.all_eq_true, List.mem_range, decide_eq_true_eq] at htri
  exact htri a ha b hb c hc

theorem rem_le_of_pd_le {u m : St} (hle : ∀ i, i < I.n → pdAt m i ≤ pdAt u i) : rem I m ≤ rem I u :=
  sumTo_le (fun i hi => contrib_mono hI i (hle i hi))

/-- `m.next` is no worse than `u.next` up to the debt `δ` -/
def RelN (I : Psp.Inst) (bu bm : Int) (δ : Int) : Prop := 0 ≤ δ ∧ ∀ c, c < I.n → chgTo I bm c ≤ chgTo I bu c + δ

/-- **monotonicity of the value-to-go** under the triangle inequality -/
theorem bestRem_mono (htri : triangleB (tabOf I) = true) : ∀ (k : Nat) (u m : St) (δ h : Int), u.time = k → m.time = k →
    Ok I u → Ok I m → NextOk I u → NextOk I m → (∀ i, i < I.n → pdAt m i ≤ pdAt u i) → RelN I u.next m.next δ →
    bestRem (tabOf I) u = some h → ∃ h', bestRem (tabOf I) m = some h' ∧ h - δ ≤ h' := by
  intro k
  induction k with
  | zero =>
    intro u m δ h hu hm _ _ _ _ _ hrel hh
    rw [bestRem_zero _ hu] at hh
    cases hh
    exact ⟨0, bestRem_zero _ hm, by have := hrel.1; omega⟩
  | succ k ih =>
    intro u m δ h hu hm hou hom hnu hnm hle hrel hh
    have htu : u.time ≠ 0 := by omega
    have htm : m.time ≠ 0 := by omega
    have hxu : u.time - 1 = k := by omega
    have hxm : m.time - 1 = k := by omega
    obtain ⟨d, hd, h1, hh1, hcost⟩ := bestRem_att hI hou htu hh
    rw [hxu] at hd hh1 hcost
    obtain ⟨hrem, hcase⟩ := domain_cases hI hou htu hd
    have hremle := rem_le_of_pd_le hI hle
    -- what `m` gains from a decision `dm` of its domain
    have key : ∀ (dm : Int) (h2 : Int), dm ∈ domain (tabOf I) k m →
        bestRem (tabOf I) (trans (tabOf I) m ⟨k, dm⟩) = some h2 →
        ∃ h', bestRem (tabOf I) m = some h' ∧ h2 + cost (tabOf I) m ⟨k, dm⟩ ≤ h' := by
      intro dm h2 hdm hb
      have := bestRem_ge hI hom htm (d := dm) (by rw [hxm]; exact hdm)
      rw [hxm, hb] at this
      cases hbm : bestRem (tabOf I) m with
      | none => rw [hbm] at this; exact absurd this (by simp [EInt.addI])
      | some h' => rw [hbm] at this; exact ⟨h', rfl, by simpa [EInt.addI] using this⟩
    rcases hcase with ⟨rfl, hlt, htr⟩ | ⟨i, hi, rfl, hp, htr⟩
    · -- `u` idles: so does `m`
      have hdm : (-1 : Int) ∈ domain (tabOf I) k m := (mem_domain hI hom k (-1)).mpr ⟨by omega, Or.inl ⟨rfl, by omega⟩⟩
      rw [htr] at hh1
      obtain ⟨h2, hb2, hle2⟩ := ih (idle u) (idle m) δ h1 (by simp [idle]; omega) (by simp [idle]; omega) (ok_idle hou)
        (ok_idle hom) hnu hnm hle hrel hh1
      obtain ⟨h', hb, hle'⟩ := key (-1) h2 hdm (by rw [trans_idle' htm]; exact hb2)
      rw [cost_idle] at hcost hle'
      exact ⟨h', hb, by omega⟩
    · rw [htr] at hh1
      have hpu : 0 ≤ pdAt u i := by omega
      rw [cost_item hI hou hnu k hi] at hcost
      by_cases heq : pdAt m i = pdAt u i
      · -- `m` owes the same unit: it produces it too
        have hdm : (i : Int) ∈ domain (tabOf I) k m :=
          (mem_domain hI hom k i).mpr ⟨by omega, Or.inr ⟨i, hi, rfl, by omega⟩⟩
        have hle' : ∀ j, j < I.n → pdAt (produce I m i) j ≤ pdAt (produce I u i) j := by
          intro j hj
          rw [pdAt_produce hom hi, pdAt_produce hou hi]
          split
          · rw [heq]; exact Int.le_refl _
          · exact hle j hj
        obtain ⟨h2, hb2, hle2⟩ := ih (produce I u i) (produce I m i) 0 h1 (by simp [produce]; omega)
          (by simp [produce]; omega) (ok_produce hou hi) (ok_produce hom hi) (Or.inr ⟨by simp [produce], by simp [produce]; omega⟩)
          (Or.inr ⟨by simp [produce], by simp [produce]; omega⟩) hle' ⟨Int.le_refl _, fun c _ => by simp [produce]⟩ hh1
        obtain ⟨h', hb, hle3⟩ := key i h2 hdm (by rw [trans_item' hI hom htm k hi (by omega)]; exact hb2)
        refine ⟨h', hb, ?_⟩
        rw [cost_item hI hom hnm k hi, heq] at hle3
        have := hrel.2 i hi
        omega
      · -- `m` does not owe that unit: it idles
        have hlt : pdAt m i < pdAt u i := by have := hle i hi; omega
        have hle' : ∀ j, j < I.n → pdAt (idle m) j ≤ pdAt (produce I u i) j := by
          intro j hj
          rw [pdAt_produce hou hi]
          split
          · next hji =>
            subst hji
            show pdAt m j ≤ _
            rcases hom.due j hj with hm1 | ⟨hm0, hm1⟩
            · rw [hm1]; exact (prevF_lt _ _).1
            · have := prevF_latest (rowOf I j) (pdAt u j).toNat (pdAt m j).toNat (by omega) hm1
              omega
          · exact hle j hj
        have hrem' : rem I m ≤ rem I u - 1 := by
          rw [← rem_produce hI hou hi hpu]
          exact rem_le_of_pd_le hI hle'
        have hdm : (-1 : Int) ∈ domain (tabOf I) k m := (mem_domain hI hom k (-1)).mpr ⟨by omega, Or.inl ⟨rfl, by omega⟩⟩
        have hc0 := chgTo_nonneg hI u.next i
        have hrel' : RelN I (produce I u i).next (idle m).next (δ + chgTo I u.next i) := by
          refine ⟨by have := hrel.1; omega, ?_⟩
          intro c hc
          show chgTo I m.next c ≤ chgTo I (i : Int) c + _
          have h1 := hrel.2 c hc
          rw [chgTo_item]
          have h2 : chgTo I u.next c ≤ qq I c i + chgTo I u.next i := by
            rcases hnu with hn | ⟨hn0, hn1⟩
            · rw [hn, chgTo_none, chgTo_none]; have := qq_nonneg hI c i; omega
            · obtain ⟨b, hb⟩ : ∃ b : Nat, u.next = (b : Int) := ⟨u.next.toNat, by omega⟩
              rw [hb, chgTo_item, chgTo_item]
              exact triangle htri hc hi (by omega)
          omega
        obtain ⟨h2, hb2, hle2⟩ := ih (produce I u i) (idle m) (δ + chgTo I u.next i) h1 (by simp [produce]; omega)
          (by simp [idle]; omega) (ok_produce hou hi) (ok_idle hom) (Or.inr ⟨by simp [produce], by simp [produce]; omega⟩)
          hnm hle' hrel' hh1
        obtain ⟨h', hb, hle3⟩ := key (-1) h2 hdm (by rw [trans_idle' htm]; exact hb2)
        rw [cost_idle] at hle3
        refine ⟨h', hb, ?_⟩
        have hs0 : 0 ≤ stkOf I i * (pdAt u i - (k : Int)) := Int.mul_nonneg (stkOf_nonneg hI i) (by omega)
        omega

end

-- ------------------------------------------------------------------------------------------------------------------
-- the merged state

theorem minZip_getD_mem : ∀ (acc y : List Int) (i : Nat) (dflt : Int), i < acc.length → i < y.length →
    (minZip acc y).getD i dflt = acc.getD i dflt ∨ (minZip acc y).getD i dflt = y.getD i dflt := by
  intro acc
  induction acc with
  | nil => intro y i dflt h; simp at h
  | cons a r ih =>
    intro y i dflt h1 h2
    cases y with
    | nil => simp at h2
    | cons b bs =>
      cases i with
      | zero => simp [minZip]; omega
      | succ j =>
        simp only [minZip, List.getD_cons_succ]
        exact ih bs j dflt (by simpa using h1) (by simpa using h2)

theorem foldl_minZip_mem (X : List St) (i : Nat) (dflt : Int) (hX : ∀ w ∈ X, i < w.pd.length) : ∀ (acc : List Int),
    i < acc.length →
    (X.foldl (fun a s => minZip a s.pd) acc).getD i dflt = acc.getD i dflt ∨
    ∃ w ∈ X, (X.foldl (fun a s => minZip a s.pd) acc).getD i dflt = w.pd.getD i dflt := by
  induction X with
  | nil => intro acc _; left; rfl
  | cons a r ih =>
    intro acc hacc
    simp only [List.foldl_cons]
    have hl := minZip_length acc a.pd
    rcases ih (fun w hw => hX w (List.mem_cons_of_mem _ hw)) (minZip acc a.pd) (by omega) with h | ⟨w, hw, h⟩
    · rcases minZip_getD_mem acc a.pd i dflt hacc (hX a List.mem_cons_self) with h2 | h2
      · left; rw [h, h2]
      · right; exact ⟨a, List.mem_cons_self, by rw [h, h2]⟩
    · right; exact ⟨w, List.mem_cons_of_mem _ hw, h⟩

theorem foldl_min_ge (X : List St) (t : Nat) (hX : ∀ w ∈ X, t ≤ w.time) : ∀ t0 : Nat, t ≤ t0 →
    t ≤ X.foldl (fun t s => min t s.time) t0 := by
  induction X with
  | nil => intro t0 h; exact h
  | cons a r ih =>
    intro t0 h
    simp only [List.foldl_cons]
    have := hX a List.mem_cons_self
    exact ih (fun w hw => hX w (List.mem_cons_of_mem _ hw)) _ (by omega)

section
variable {I : Psp.Inst} (hI : InstOk I)
include hI

/-- the merged state of states a compilation can build (same `time`, horizon `≤ 2^63`): `time` kept, nothing produced next,
    pointwise least pending due dates, each of them the pending due date of a merged state -/
theorem merge_spec (hT : (I.T : Int) ≤ isizeMax + 1) {X : List St} {u : St} (hu : u ∈ X)
    (hX : ∀ w ∈ X, Ok I w ∧ w.time = u.time) (hut : u.time ≤ I.T) :
    (mergeStates (tabOf I) X).time = u.time ∧ (mergeStates (tabOf I) X).next = -1 ∧ Ok I (mergeStates (tabOf I) X) ∧
    (∀ w ∈ X, ∀ i, i < I.n → pdAt (mergeStates (tabOf I) X) i ≤ pdAt w i) ∧
    (∀ i, i < I.n → ∃ w ∈ X, pdAt (mergeStates (tabOf I) X) i = pdAt w i) := by
  have hn : (tabOf I).n = I.n := rfl
  have hH : (tabOf I).H = I.T := rfl
  have hle : ∀ w ∈ X, ∀ i, i < I.n → pdAt (mergeStates (tabOf I) X) i ≤ pdAt w i := by
    intro w hw i hi
    exact (merge_pd_le (tabOf I) X i hi).2 w hw (by rw [(hX w hw).1.len]; exact hi)
  have hmem : ∀ i, i < I.n → ∃ w ∈ X, pdAt (mergeStates (tabOf I) X) i = pdAt w i := by
    intro i hi
    rcases foldl_minZip_mem X i (-1) (fun w hw => by rw [(hX w hw).1.len]; exact hi) (List.replicate (tabOf I).n isizeMax)
      (by simp [hn, hi]) with h | h
    · refine ⟨u, hu, ?_⟩
      have h1 : pdAt (mergeStates (tabOf I) X) i = isizeMax := by
        show (X.foldl (fun a s => minZip a s.pd) (List.replicate (tabOf I).n isizeMax)).getD i (-1) = _
        rw [h]; simp [List.getD_eq_getElem?_getD, hn, hi]
      have h2 := hle u hu i hi
      have h3 := (hX u hu).1.lt_T hI hi
      omega
    · exact h
  refine ⟨?_, rfl, ⟨?_, ?_⟩, hle, hmem⟩
  · have h1 := (merge_time_le (tabOf I) X).2 u hu
    have h2 : u.time ≤ (mergeStates (tabOf I) X).time :=
      foldl_min_ge X u.time (fun w hw => by rw [(hX w hw).2]; exact Nat.le_refl _) (tabOf I).H (by rw [hH]; exact hut)
    omega
  · have := (foldl_minZip X (List.replicate (tabOf I).n isizeMax) 0 (-1)).1
    simp only [List.length_replicate] at this
    exact this
  · intro i hi
    obtain ⟨w, hw, he⟩ := hmem i hi
    rw [he]
    exact (hX w hw).1.due i hi

end

-- ------------------------------------------------------------------------------------------------------------------
-- `MergeOkStmt`

theorem StOk.ok {I : Psp.Inst} {s : St} (h : StOk I s) : Ok I s := ⟨h.1, h.2.2.2.1⟩
theorem StOk.nextOk {I : Psp.Inst} {s : St} (h : StOk I s) : NextOk I s := h.2.2.1
theorem StOk.time_le {I : Psp.Inst} {s : St} (h : StOk I s) : s.time ≤ I.T := h.2.1
theorem StOk.valid {I : Psp.Inst} {s : St} (h : StOk I s) : validB (tabOf I) s = true := h.2.2.2.2

/-- **`MergeOkStmt` for every horizon `≤ 2^63`**, under the triangle inequality.  What is missing from the full statement: the
    merge starts from `isize::MAX`, so for a horizon beyond `2^63` (no such `Vec` exists) the merged entry of an item whose
    pending due dates all exceed `isize::MAX` is `isize::MAX` itself, which need not be a due date of the item. -/
theorem mergeOk_partial (I : Psp.Inst) (hT : (I.T : Int) ≤ isizeMax + 1) : MergeOkStmt I := by
  intro hI htri X u h hu hX hh
  obtain ⟨hmt, hmn, hmo, hmle, _⟩ := merge_spec hI hT hu (fun w hw => ⟨(hX w hw).1.ok, (hX w hw).2⟩) (hX u hu).1.time_le
  obtain ⟨h', hb, hle⟩ := bestRem_mono hI htri u.time u (mergeStates (tabOf I) X) 0 h rfl hmt (hX u hu).1.ok hmo
    (hX u hu).1.nextOk (Or.inl hmn) (hmle u hu) ⟨Int.le_refl _, fun c _ => by
      rw [hmn, chgTo_none]; have := chgTo_nonneg hI u.next c; omega⟩ hh
  exact ⟨h', hb, by omega⟩

/-- the witness of finding D15: `T = 6`, 3 items, `q[0][1] = 50 > q[0][2] + q[2][1] = 0 + 1` -/
def witI : Psp.Inst :=
  { T := 6, n := 3, q := [[0, 50, 0], [50, 0, 1], [1, 1, 0]], h := [0, 1, 1],
    d := [[0, 0, 0, 1, 0, 1], [0, 0, 0, 1, 0, 0], [0, 0, 0, 0, 1, 1]] }
/-- reached by producing item 2 in period 5 and item 0 in period 4 -/
def witU : St := { time := 4, next := 0, pd := [3, 3, 4] }
/-- reached by producing item 2 in periods 5 and 4 -/
def witW : St := { time := 4, next := 2, pd := [5, 3, -1] }

theorem witI_ok : InstOk witI := ⟨by decide, by decide, by decide⟩
theorem witU_ok : StOk witI witU := by unfold StOk; decide
theorem witW_ok : StOk witI witW := by unfold StOk; decide
theorem wit_merge : mergeStates (tabOf witI) [witU, witW] = { time := 4, next := -1, pd := [3, 3, -1] } := by decide
theorem witU_val : bestRem (tabOf witI) witU = some (-6) := by decide +kernel
theorem witM_val : bestRem (tabOf witI) (mergeStates (tabOf witI) [witU, witW]) = some (-50) := by decide +kernel

/-- **finding D15, kernel-checked**: WITHOUT the triangle inequality `MergeOkStmt` is false — an instance of the format whose
    changeover costs violate the inequality, two states a compilation builds (width 1 merges them), the first worth `-6`,
    the merged state only `-50` -/
theorem mergeOk_fails_without_triangle :
    ∃ I : Psp.Inst, InstOk I ∧ triangleB (tabOf I) = false ∧
      ¬ (∀ (X : List St) (u : St) (h : Int), u ∈ X → (∀ w ∈ X, StOk I w ∧ w.time = u.time) → bestRem (tabOf I) u = some h →
          ∃ h', bestRem (tabOf I) (mergeStates (tabOf I) X) = some h' ∧ h ≤ h') := by
  refine ⟨witI, witI_ok, by decide, ?_⟩
  intro hall
  obtain ⟨h', hb, hle⟩ := hall [witU, witW] witU (-6) List.mem_cons_self
    (by intro w hw
        rcases List.mem_cons.mp hw with rfl | hw
        · exact ⟨witU_ok, rfl⟩
        · rcases List.mem_cons.mp hw with rfl | hw
          · exact ⟨witW_ok, rfl⟩
          · cases hw) witU_val
  rw [witM_val] at hb
  cases hb
  omega

/-- the two states of the witness are built by a compilation from the root: decisions of the domains, two layers down -/
theorem wit_reached :
    (2 : Int) ∈ domain (tabOf witI) 5 (initSt (tabOf witI)) ∧
    (0 : Int) ∈ domain (tabOf witI) 4 (trans (tabOf witI) (initSt (tabOf witI)) ⟨5, 2⟩) ∧
    trans (tabOf witI) (trans (tabOf witI) (initSt (tabOf witI)) ⟨5, 2⟩) ⟨4, 0⟩ = witU ∧
    (2 : Int) ∈ domain (tabOf witI) 4 (trans (tabOf witI) (initSt (tabOf witI)) ⟨5, 2⟩) ∧
    trans (tabOf witI) (trans (tabOf witI) (initSt (tabOf witI)) ⟨5, 2⟩) ⟨4, 2⟩ = witW := by decide

#print axioms bestRem_mono
#print axioms mergeOk_partial
#print axioms mergeOk_fails_without_triangle

end Ddo.Examples.PspModel
