import DdoModel.Examples.AlpProofsSim
/-! alp example, main results.

* `best_mono`: a state that relaxes another (`Relaxes`) has a best completion worth at least as much;
* `mergeOkValid : MergeOkValidStmt I` and `domAdmissibleValid : DomAdmissibleValidStmt I` (**proved**, every instance of the
  input domain): `MergeOk` and the admissibility of the dominance rule on VALID states (`StValid`: `StOk`, every runway
  time `≥ 0`, every runway class `-1` or a class of the instance — what every state the model produces satisfies);
* `mergeOkStmt_false`, `domAdmissibleStmt_false` (**kernel-checked counter-examples**): the statements of `AlpModel.lean`
  as first written (`StOk` states only) are FALSE — on states NO run can build (a runway whose class is not a class of
  the instance reads a separation 0, below `min_separation_to`; a runway with a negative time differs from `(0, -1)`, the
  empty runway).  Not a defect of the example: a gap in the hypothesis `StOk`. -/
namespace Ddo.Examples.AlpModel
open Ddo Ddo.Examples Ddo.Examples.Util

variable (I : Inst)

theorem best_mono (hD : InDom I) {m t : St} (hWm : StW I m) (hWt : StW I t) (hrel : Relaxes I m t) :
    best I t ≤ best I m :=
  sim I hD _ t hWt (Nat.le_refl _) _ m hWm (Nat.le_refl _) hrel

private theorem foldl_minN_le {α : Type} (f : α → Nat) (l : List α) (init : Nat) :
    l.foldl (fun m s => min m (f s)) init ≤ init ∧ ∀ t ∈ l, l.foldl (fun m s => min m (f s)) init ≤ f t := by
  induction l generalizing init with
  | nil => exact ⟨Nat.le_refl _, fun _ h => by cases h⟩
  | cons x r ih =>
    simp only [List.foldl_cons]
    have h := ih (min init (f x))
    refine ⟨by have := h.1; omega, fun t ht => ?_⟩
    rcases List.mem_cons.mp ht with rfl | ht
    · have := h.1; omega
    · exact h.2 t ht

private theorem foldl_minI_le {α : Type} (f : α → Int) (l : List α) (init : Int) :
    l.foldl (fun m s => min m (f s)) init ≤ init ∧ (∀ t ∈ l, l.foldl (fun m s => min m (f s)) init ≤ f t) ∧
      ((0 ≤ init ∧ ∀ t ∈ l, 0 ≤ f t) → 0 ≤ l.foldl (fun m s => min m (f s)) init) := by
  induction l generalizing init with
  | nil => exact ⟨Int.le_refl _, (fun _ h => by cases h), fun h => h.1⟩
  | cons x r ih =>
    simp only [List.foldl_cons]
    have h := ih (min init (f x))
    refine ⟨by have := h.1; omega, fun t ht => ?_, fun h0 => ?_⟩
    · rcases List.mem_cons.mp ht with rfl | ht
      · have := h.1; omega
      · exact h.2.1 t ht
    · apply h.2.2
      have := h0.2 x (List.mem_cons_self ..)
      exact ⟨by have := h0.1; omega, fun t ht => h0.2 t (List.mem_cons_of_mem _ ht)⟩

theorem rwOk_getD {s : St} (h : ∀ p ∈ s.2, RwOk I p) (r : Nat) : 0 ≤ ((s.2[r]?).getD (0, -1)).1 := by
  cases e : s.2[r]? with
  | none => simp
  | some p => exact (h p (List.mem_of_getElem? e)).1

/-- the merged state is a valid runway configuration -/
theorem stW_merge {ts : List St} (h : ∀ u ∈ ts, StW I u) : StW I (mergeStates I ts) := by
  refine ⟨by simp [mergeStates], by simp [mergeStates], ?_⟩
  intro p hp
  simp only [mergeStates, List.mem_map, List.mem_range] at hp
  obtain ⟨r, _, rfl⟩ := hp
  refine ⟨?_, by simp only; omega, by simp only; omega⟩
  exact (foldl_minI_le (fun s : St => ((s.2[r]?).getD (0, -1)).1) ts iMax).2.2
    ⟨by unfold iMax; omega, fun u hu => rwOk_getD I (h u hu).2.2 r⟩

/-- the merged state relaxes every merged-away state -/
theorem relaxes_merge {ts : List St} (h : ∀ u ∈ ts, StW I u) {t : St} (ht : t ∈ ts) :
    Relaxes I (mergeStates I ts) t := by
  have hWt := h t ht
  refine ⟨?_, ?_⟩
  · intro c hc
    have e : ((mergeStates I ts).1[c]?).getD 0 = ts.foldl (fun m s => min m ((s.1[c]?).getD 0)) uMax := by
      simp [mergeStates, hc]
    rw [e]
    exact (foldl_minN_le (fun s : St => (s.1[c]?).getD 0) ts uMax).2 t ht
  · apply Matching.of_forall
    · rw [(stW_merge I h).2.1, hWt.2.1]
    · intro i h1 h2
      have hi : i < I.nbRunways := by rw [← hWt.2.1]; exact h2
      have e : (mergeStates I ts).2[i]
          = (ts.foldl (fun m s => min m ((s.2[i]?).getD (0, -1)).1) iMax, (-1 : Int)) := by
        simp [mergeStates]
      rw [e]
      have hf := foldl_minI_le (fun s : St => ((s.2[i]?).getD (0, -1)).1) ts iMax
      have h3 := hf.2.1 t ht
      simp only [List.getElem?_eq_getElem h2, Option.getD_some] at h3
      exact rwDom_unknown I (hf.2.2 ⟨by unfold iMax; omega, fun u hu => rwOk_getD I (h u hu).2.2 i⟩) h3
        (hWt.2.2 _ (List.getElem_mem h2))

/-- **`MergeOk`** of the shipped alp example, on the states the model can produce -/
theorem mergeOkValid : MergeOkValidStmt I := by
  intro hdom ts t hts ht
  have hD := inDom_of I hdom
  have hW : ∀ u ∈ ts, StW I u := fun u hu => (hts u hu).toW
  exact best_mono I hD (stW_merge I hW) (hW t ht) (relaxes_merge I hW ht)

/-- what the driver evaluates on every merge event (`mergeOkAt`, `relax` leaves the arc cost unchanged: `delta = 0`) holds
    on valid states -/
theorem mergeOkAt_merge (hdom : I.inDomain = true) {ts : List St} {t : St} (hts : ∀ u ∈ ts, StValid I u) (ht : t ∈ ts) :
    mergeOkAt I t (mergeStates I ts) 0 = true := by
  unfold mergeOkAt
  apply decide_eq_true
  have h := mergeOkValid I hdom ts t hts ht
  cases hb : best I (mergeStates I ts) with
  | none => rw [hb] at h; exact h
  | some x => rw [hb] at h; show best I t ≤ some (x + 0); rw [Int.add_zero]; exact h

/-- **admissibility of the dominance rule** of the shipped alp example, on the states the model can produce -/
theorem domAdmissibleValid : DomAdmissibleValidStmt I := by
  intro hdom a b ha hb hkey hcoord
  have hD := inDom_of I hdom
  have hWa := ha.toW
  have hWb := hb.toW
  have hkey' : (a.1, a.2.map (·.2)) = (b.1, b.2.map (·.2)) := hkey
  obtain ⟨hk1, hk2⟩ := Prod.mk.inj hkey'
  refine best_mono I hD hWa hWb ⟨fun c _ => by rw [hk1]; exact Nat.le_refl _, ?_⟩
  apply Matching.of_forall
  · rw [hWa.2.1, hWb.2.1]
  · intro i h1 h2
    have hi : i < I.nbRunways := by rw [← hWb.2.1]; exact h2
    have hc := hcoord i hi
    simp only [domRule, List.getElem?_eq_getElem h1, List.getElem?_eq_getElem h2, Option.getD_some] at hc
    have hcl : (a.2[i]).2 = (b.2[i]).2 := by
      have := congrArg (fun l => l[i]?) hk2
      simpa [List.getElem?_map, List.getElem?_eq_getElem h1, List.getElem?_eq_getElem h2] using this
    have h0 := (hWa.2.2 _ (List.getElem_mem h1)).1
    have e1 : a.2[i] = ((a.2[i]).1, (b.2[i]).2) := by rw [← hcl]
    have e2 : b.2[i] = ((b.2[i]).1, (b.2[i]).2) := rfl
    rw [e1, e2]
    exact rwDom_same I h0 (by omega)

-- ------------------------------------------------------------------------------------------------------------------
-- the statements on `StOk` states are false

/-- one aircraft (target 0, latest 3), one class (separation 5), one runway -/
def cexInst : Inst :=
  { nbClasses := 1, nbAircraft := 1, nbRunways := 1, classes := [0], target := [0], latest := [3], sep := [[5]] }

/-- `MergeOkStmt` fails on an `StOk` state whose runway carries class `7` (no such class: the separation reads `0`, the
    merged runway — class unknown — uses `min_separation_to = 5`): merging the singleton `[t]` loses the only completion -/
theorem mergeOkStmt_false : ¬ MergeOkStmt cexInst := by
  intro h
  have := h (by decide) [([1], [(1, 7)])] ([1], [(1, 7)])
    (by intro u hu; rw [List.mem_singleton.mp hu]; exact ⟨rfl, rfl, rfl⟩) (List.mem_cons_self ..)
  revert this
  decide

/-- the same with classes of the instance only but a NEGATIVE time: `(0, -1)` is the empty runway, `(-1, -1)` is not -/
theorem mergeOkStmt_false' : ¬ MergeOkStmt cexInst := by
  intro h
  have := h (by decide) [([1], [(0, -1)]), ([1], [(-1, 0)])] ([1], [(0, -1)])
    (by
      intro u hu
      rcases List.mem_cons.mp hu with rfl | hu
      · exact ⟨rfl, rfl, rfl⟩
      · rw [List.mem_singleton.mp hu]; exact ⟨rfl, rfl, rfl⟩)
    (List.mem_cons_self ..)
  revert this
  decide

/-- `DomAdmissibleStmt` fails on `StOk` states with a negative time: `a = (-1, -1)` is "earlier" than the empty runway
    `b = (0, -1)`, but the aircraft lands at `max 0 (-1 + 5) = 4 > 3` after it -/
theorem domAdmissibleStmt_false : ¬ DomAdmissibleStmt cexInst := by
  intro h
  have := h (by decide) ([1], [(-1, -1)]) ([1], [(0, -1)]) ⟨rfl, rfl, rfl⟩ ⟨rfl, rfl, rfl⟩ rfl
    (by intro i hi; have : i = 0 := by simp only [cexInst] at hi; omega
        subst this; decide)
  revert this
  decide

#print axioms best_mono
#print axioms mergeOkValid
#print axioms domAdmissibleValid
#print axioms mergeOkAt_merge
#print axioms mergeOkStmt_false
#print axioms mergeOkStmt_false'
#print axioms domAdmissibleStmt_false

end Ddo.Examples.AlpModel
