import DdoModel.Proofs.MddCoverRel
import DdoModel.Proofs.Closed
import DdoModel.Examples.SrflpProofsWf
import DdoModel.Examples.SrflpProofsExact
import DdoModel.Examples.SrflpProofsRubMerged
/-! The closed corollary for the shipped srflp example, against the independent specification `Srflp.spec`, through
    `Ddo.CoverRel.relaxed_ub_rel_valid` (hypotheses restricted to the VALID states): first conditional on `RubHyp T` (the rough
    bound dominates the value-to-go of every good state: `srflp_relaxed_ub_of_rub`), then CLOSED with `rubHyp`
    (`SrflpProofsRubMerged.lean`): `srflp_relaxed_ub`, `srflp_relaxed_ub_tabOf`, non-vacuity `Demo.demo_closed`.

    The srflp transition cost is `-(Σ cuts + sum of the least cuts) · length`: it is bounded only when the cuts are, and the
    validity predicate `V T k s := Good T s ∧ s.depth = k` of `SrflpProofsWf.lean` does not bound them.  Here:
    * `SmallInst T`: every length and every flow is at most `2^20 = 1048576`;
    * `Vb T k s := V T k s ∧ every cut of a member of must ∪ maybe is ≤ depth · 2^20`, closed under what a compilation does
      (`vb_init`, `vb_step`, `vb_merge`);
    * `wfRelV_of_rub`: `WfRelV` for `Vb` from `wfRel_of_rub`;
    * `noClampRel`: transition costs (valid states, decisions of the domain) within `2^52`, `relax` is the identity,
      `(n + 2) · 2^52 ≤ 2^62` for `n ≤ 64`;
    * `srflp_relaxed_ub_of_rub`: the value reported by a relaxed compilation from the root, printed as the example prints it
      (`-best + root_value()`, twice that is `root2 T - 2 · bv`), is at most `Srflp.spec`. -/
namespace Ddo.Examples.SrflpModel
open Ddo Ddo.Examples Ddo.Examples.Util Ddo.SpecUtil

variable (T : Tab)

/-- the size condition on the instance: lengths and flows at most `2^20` -/
structure SmallInst : Prop where
  len_le : ∀ i, i < T.n → lenOf T i ≤ 1048576
  flow_le : ∀ i, i < T.n → ∀ j, j < T.n → flow T i j ≤ 1048576

/-- layer validity with bounded cuts: after `depth` placements a cut is a sum of `depth` flows -/
def Vb : Nat → St → Prop := fun k s =>
  V T k s ∧ ∀ i, i ∈ s.must ∨ i ∈ mbOf s → cutAt s i ≤ (s.depth : Int) * 1048576

theorem vb_init : Vb T 0 (initSt T) := by
  refine ⟨⟨good_init T, rfl⟩, ?_⟩
  intro i _
  rw [cutAt_init]
  show (0 : Int) ≤ ((0 : Nat) : Int) * 1048576
  omega

theorem vb_step (h64 : T.n ≤ 64) (hI : Inst T) (hS : SmallInst T) {k : Nat} {s : St} (hV : Vb T k s) {x : Nat} {d : Int}
    (hd : d ∈ domain T s) : Vb T (k + 1) (trans T s ⟨x, d⟩) := by
  refine ⟨valid_step T h64 hI hV.1 hd, ?_⟩
  obtain ⟨⟨hG, hk⟩, hc⟩ := hV
  obtain ⟨i, rfl, _⟩ := (mem_domain T hG d).mp hd
  have hin := (domain_lt T hG hd).1
  rw [trans_nat T s x i (by rw [hG.cut_len]; exact hin) (by omega)]
  intro j hj
  rw [mbOf_stepSt] at hj
  simp only [stepSt_must, List.mem_filter, decide_eq_true_eq] at hj
  have hj' : (j ∈ s.must ∨ j ∈ mbOf s) ∧ j ≠ i := by
    rcases hj with hj | hj
    · exact ⟨Or.inl hj.1, hj.2⟩
    · exact ⟨Or.inr hj.1, hj.2⟩
  rw [cutAt_step T hG, if_neg hj'.2, if_pos hj'.1, stepSt_depth]
  have h1 := hc j hj'.1
  have h2 := hS.flow_le i hin j (hG.lt j hj'.1)
  omega

theorem vb_merge {k : Nat} {X : List St} (hne : X ≠ []) (hV : ∀ u ∈ X, Vb T k u) : Vb T k (mergeStates T X) := by
  have hVm := valid_merge T hne (fun u hu => (hV u hu).1)
  refine ⟨hVm, ?_⟩
  intro i hi
  rw [merge_must_nil] at hi
  rcases hi with hi | hi
  · cases hi
  · obtain ⟨w, hw, hiw⟩ := (mem_mbOf_merge T X i).mp hi
    have hs := sim_merge T X w hw (fun u hu => (hV u hu).1.1) (fun u hu => by rw [(hV u hu).1.2, (hV w hw).1.2])
    have h1 := hs.cut i hiw
    have h2 := (hV w hw).2 i hiw
    have h3 := hs.depth
    rw [h3]
    omega

/-- **`WfRelV` of the srflp example for the validity predicate with bounded cuts, given the admissibility of the bound** -/
theorem wfRelV_of_rub (h64 : T.n ≤ 64) (hT : InstOk T) (hS : SmallInst T) (hR : RubHyp T) :
    WfRelV (problem T) (relaxation T) (H T) (Vb T) := by
  have W := wfRel_of_rub T h64 hT hR
  have hI := inst_of_instOk T hT
  exact {
    vstep := fun k L x s d _ hL hs hd => vb_step T h64 hI hS (hL s hs) hd
    vstepMerge := fun k L x X d _ hL hne hsub hd =>
      vb_step T h64 hI hS (vb_merge T hne (fun u hu => hL u (hsub u hu))) hd
    vmerge := fun k X hne hV => vb_merge T hne hV
    att := fun k L x s h hnv hL hs hH => W.att k L x s h hnv hs (hL s hs).1 hH
    attMerge := fun k L x X h hnv hL hne hsub hH =>
      W.attMerge k L x X h hnv hne hsub (fun u hu => (hL u (hsub u hu)).1) hH
    term := fun k L s h hnv hL hs hH => W.term k L s h hnv hs (hL s hs).1 hH
    rub := fun k s h hV hH => W.rub k s h hV.1 hH
    merge := fun k X u src d c h hu hV hH => W.merge k X u src d c h hu (fun w hw => (hV w hw).1) hH }

/-! ### the bound on the transition costs -/

theorem sum_bounds : ∀ (L : List Int), (∀ x ∈ L, 0 ≤ x ∧ x ≤ 67108864) →
    0 ≤ L.sum ∧ L.sum ≤ (L.length : Int) * 67108864 := by
  intro L
  induction L with
  | nil => intro _; simp
  | cons a r ih =>
    intro h
    have h1 := h a List.mem_cons_self
    have h2 := ih (fun x hx => h x (List.mem_cons_of_mem _ hx))
    simp only [List.sum_cons, List.length_cons]
    omega

theorem leastSum_bounds (r : Nat) (L : List Int) (h : ∀ x ∈ L, 0 ≤ x ∧ x ≤ 67108864) :
    0 ≤ leastSum r L ∧ leastSum r L ≤ (r : Int) * 67108864 := by
  unfold leastSum
  rw [sum_eq]
  have hm : ∀ x ∈ (sortInts L).take r, 0 ≤ x ∧ x ≤ 67108864 := by
    intro x hx
    have hx' := List.mem_of_mem_take hx
    unfold sortInts at hx'
    exact h x ((List.mergeSort_perm L _).mem_iff.mp hx')
  have h1 := sum_bounds _ hm
  have hl : ((sortInts L).take r).length ≤ r := by rw [List.length_take]; omega
  omega

/-- the transition cost of a decision of the domain from a state with bounded cuts is within `2^52` (and `≤ 0`) -/
theorem cost_bounds (h64 : T.n ≤ 64) (hI : Inst T) (hS : SmallInst T) {k : Nat} {s : St} (hV : Vb T k s) {d : Int}
    (hd : d ∈ domain T s) (x : Nat) : -4503599627370496 ≤ cost T s ⟨x, d⟩ ∧ cost T s ⟨x, d⟩ ≤ 0 := by
  obtain ⟨⟨hG, hk⟩, hc⟩ := hV
  obtain ⟨i, rfl, _⟩ := (mem_domain T hG d).mp hd
  obtain ⟨hin, hdp⟩ := domain_lt T hG hd
  have hgs := (good_step T hI hG hd).must_le
  simp only [stepSt_must, stepSt_depth] at hgs
  rw [cost_nat T hI hG hd]
  have hcut : ∀ j, j ∈ s.must ∨ j ∈ mbOf s → 0 ≤ cutAt s j ∧ cutAt s j ≤ 67108864 := by
    intro j hj
    have h1 := hG.cut_nonneg j hj
    have h2 := hc j hj
    omega
  have hA := sum_bounds ((s.must.filter (· ≠ i)).map (cutAt s)) (by
    intro y hy
    obtain ⟨j, hj, rfl⟩ := List.mem_map.mp hy
    exact hcut j (Or.inl (List.mem_filter.mp hj).1))
  have hB := leastSum_bounds (T.n - (s.depth + 1) - (s.must.filter (· ≠ i)).length) (((mbOf s).filter (· ≠ i)).map (cutAt s)) (by
    intro y hy
    obtain ⟨j, hj, rfl⟩ := List.mem_map.mp hy
    exact hcut j (Or.inr (List.mem_filter.mp hj).1))
  rw [List.length_map] at hA
  rw [sum_eq]
  generalize ((s.must.filter (· ≠ i)).map (cutAt s)).sum = S1 at hA ⊢
  generalize leastSum (T.n - (s.depth + 1) - (s.must.filter (· ≠ i)).length) (((mbOf s).filter (· ≠ i)).map (cutAt s)) = S2 at hB ⊢
  have hl0 := hI.len_pos i hin
  have hl1 := hS.len_le i hin
  have hS0 : 0 ≤ S1 + S2 := by omega
  have hS1 : S1 + S2 ≤ 4294967296 := by omega
  have hp0 : 0 ≤ (S1 + S2) * lenOf T i := Int.mul_nonneg hS0 (Int.le_of_lt hl0)
  have hp1 : (S1 + S2) * lenOf T i ≤ 4294967296 * 1048576 :=
    Int.mul_le_mul hS1 hl1 (Int.le_of_lt hl0) (by omega)
  rw [Int.neg_mul]
  omega

/-- **no saturation on the valid states**: costs within `2^52`, `relax` is the identity -/
theorem noClampRel (h64 : T.n ≤ 64) (hT : InstOk T) (hS : SmallInst T) :
    NoClampRel (problem T) (relaxation T) (Vb T) 0 4503599627370496 4503599627370496 where
  nonneg := by omega
  le := by omega
  root := by omega
  cost := by
    intro k L x s d _ _ hV hd
    have := cost_bounds T h64 (inst_of_instOk T hT) hS hV hd x
    show -4503599627370496 ≤ cost T s ⟨x, d⟩ ∧ cost T s ⟨x, d⟩ ≤ 4503599627370496
    omega
  relax := by
    intro k X u src d c _ _ hc
    exact hc
  small := by
    show ((T.n : Int) + 2) * 4503599627370496 ≤ 4611686018427387904
    omega

/-- the value-to-go of the root is the `o` with `root2 - 2 o = Srflp.spec` -/
theorem root_opt (h64 : T.n ≤ 64) (hT : InstOk T) (o : Int)
    (ho : root2 T - 2 * o = Srflp.spec T.n (lenOf T) (flow T)) : bestRem T (initSt T) = some o := by
  have hI := inst_of_instOk T hT
  obtain ⟨q0, _, hbest⟩ := bestRemF_attained T hI h64 T.n (initSt T) (good_init T) rfl (by simp [initSt])
  have hB : bestRem T (initSt T) = some (runCost T (initSt T) q0) := hbest
  have hD := dpExact_partial T h64 hT
  rw [hB] at hD
  have hs := spec_eq_table T
  rw [← hD] at hs
  simp only [printed2, Option.map_some, Option.getD_some] at hs
  rw [hB]
  congr 1
  omega

/-- the `o` of the theorems below exists: the model's optimum (`root2 T - Srflp.spec` is even) -/
theorem root_opt_exists (h64 : T.n ≤ 64) (hT : InstOk T) :
    ∃ o : Int, root2 T - 2 * o = Srflp.spec T.n (lenOf T) (flow T) := by
  have hI := inst_of_instOk T hT
  obtain ⟨q0, _, hbest⟩ := bestRemF_attained T hI h64 T.n (initSt T) (good_init T) rfl (by simp [initSt])
  have hB : bestRem T (initSt T) = some (runCost T (initSt T) q0) := hbest
  have hD := dpExact_partial T h64 hT
  rw [hB] at hD
  have hs := spec_eq_table T
  rw [← hD] at hs
  simp only [printed2, Option.map_some, Option.getD_some] at hs
  exact ⟨runCost T (initSt T) q0, by omega⟩

/-- **The shipped srflp example, given the admissibility of its rough bound**: a relaxed compilation of its model from the root
    (layer by layer, no cache, no dominance checker, width ≥ 1, any incumbent `lb` that the optimum beats) reports a best value
    `bv` whose printed objective (`-bv + root_value()`, here twice that) is at most `Srflp.spec` — for every instance of the
    domain with at most 64 departments, lengths and flows at most `2^20`. -/
theorem srflp_relaxed_ub_of_rub {K : Type} [DecidableEq K] (T : Tab) (h64 : T.n ≤ 64) (hT : InstOk T) (hS : SmallInst T)
    (hRub : RubHyp T)
    (cfg : Cfg St K) (cache : Cache St) (store : DomStore St K) (polls : Nat)
    (hP : cfg.P = problem T) (hR : cfg.R = relaxation T)
    (hrs : cfg.root.state = initSt T) (hrv : cfg.root.value = 0) (hrd : cfg.root.depth = 0)
    (hrel : cfg.ctype = .relaxed) (hcache : cfg.useCache = false) (hdom : cfg.dom = none) (hW : 1 ≤ cfg.width)
    (hlb : InI cfg.lb)
    (o : Int) (ho : root2 T - 2 * o = Srflp.spec T.n (lenOf T) (flow T)) (hgt : o > cfg.lb)
    (hO : o ≤ iMax ∨ cfg.lb < iMax) :
    (compile cfg cache store polls none).1 = .ok →
    ∃ bv, (compile cfg cache store polls none).2.1.bestValue = some bv ∧
      root2 T - 2 * bv ≤ Srflp.spec T.n (lenOf T) (flow T) := by
  intro hok
  have hroot := root_opt T h64 hT o ho
  have key := CoverRel.relaxed_ub_rel_valid cfg (H T) (Vb T) 4503599627370496 4503599627370496 cache store polls
    hrel hcache hdom hW
    (by rw [hP, hR]; exact wfRelV_of_rub T h64 hT hS hRub)
    (by rw [hrd, hrs]; exact vb_init T)
    (by rw [hP, hR, hrv]; exact noClampRel T h64 hT hS)
    hlb o
    (by
      unfold optOf
      rw [hrd, hrs, hrv]
      show (bestRem T (initSt T)).addI 0 = some o
      rw [hroot]
      simp [EInt.addI])
    hgt hO hok
  obtain ⟨bv, hbv, hle⟩ := key
  exact ⟨bv, hbv, by omega⟩

/-- `next_variable` answers `None` from depth `n` on -/
theorem nvBound : Closed.NvBound (problem T) := by
  intro k L hk
  have hk' : T.n ≤ k := hk
  show nextVar T k = none
  unfold nextVar
  rw [if_neg (by omega)]

/-- the same without the premise `.ok`: such a compilation (no cache, no dominance checker, width ≥ 1, no cutoff) always
    ends normally (`Ddo.Closed.compile_no_crash`) -/
theorem srflp_relaxed_ub_of_rub' {K : Type} [DecidableEq K] (T : Tab) (h64 : T.n ≤ 64) (hT : InstOk T) (hS : SmallInst T)
    (hRub : RubHyp T)
    (cfg : Cfg St K) (cache : Cache St) (store : DomStore St K) (polls : Nat)
    (hP : cfg.P = problem T) (hR : cfg.R = relaxation T)
    (hrs : cfg.root.state = initSt T) (hrv : cfg.root.value = 0) (hrd : cfg.root.depth = 0)
    (hrel : cfg.ctype = .relaxed) (hcache : cfg.useCache = false) (hdom : cfg.dom = none) (hW : 1 ≤ cfg.width)
    (hlb : InI cfg.lb)
    (o : Int) (ho : root2 T - 2 * o = Srflp.spec T.n (lenOf T) (flow T)) (hgt : o > cfg.lb)
    (hO : o ≤ iMax ∨ cfg.lb < iMax) :
    (compile cfg cache store polls none).1 = .ok ∧
    ∃ bv, (compile cfg cache store polls none).2.1.bestValue = some bv ∧
      root2 T - 2 * bv ≤ Srflp.spec T.n (lenOf T) (flow T) := by
  have hok : (compile cfg cache store polls none).1 = .ok :=
    Closed.compile_no_crash cfg cache store polls hcache hdom hW (by rw [hP]; exact nvBound T) (by rw [hrd]; omega)
  exact ⟨hok, srflp_relaxed_ub_of_rub T h64 hT hS hRub cfg cache store polls hP hR hrs hrv hrd hrel hcache hdom hW hlb o ho
    hgt hO hok⟩

/-- **The shipped srflp example (repaired rough bound)**: a relaxed compilation of its model from the root (layer by layer, no
    cache, no dominance checker, width ≥ 1, any incumbent `lb` that the optimum `o` of the model beats) ends normally and reports
    a best value `bv` whose printed objective `-bv + root_value()` (twice: `root2 T - 2 bv`) is at most the least cost
    `Srflp.spec` over all orders of the departments — for every instance of the domain with at most 64 departments, lengths and
    flows at most `2^20`, and the tables `Srflp::new` builds.  No hypothesis is left about the model. -/
theorem srflp_relaxed_ub {K : Type} [DecidableEq K] (T : Tab) (h64 : T.n ≤ 64) (hTS : TabSorted T) (hT : InstOk T)
    (hS : SmallInst T)
    (cfg : Cfg St K) (cache : Cache St) (store : DomStore St K) (polls : Nat)
    (hP : cfg.P = problem T) (hR : cfg.R = relaxation T)
    (hrs : cfg.root.state = initSt T) (hrv : cfg.root.value = 0) (hrd : cfg.root.depth = 0)
    (hrel : cfg.ctype = .relaxed) (hcache : cfg.useCache = false) (hdom : cfg.dom = none) (hW : 1 ≤ cfg.width)
    (hlb : InI cfg.lb)
    (o : Int) (ho : root2 T - 2 * o = Srflp.spec T.n (lenOf T) (flow T)) (hgt : o > cfg.lb)
    (hO : o ≤ iMax ∨ cfg.lb < iMax) :
    (compile cfg cache store polls none).1 = .ok ∧
    ∃ bv, (compile cfg cache store polls none).2.1.bestValue = some bv ∧
      root2 T - 2 * bv ≤ Srflp.spec T.n (lenOf T) (flow T) :=
  srflp_relaxed_ub_of_rub' T h64 hT hS (rubHyp T h64 hTS hT) cfg cache store polls hP hR hrs hrv hrd hrel hcache hdom hW hlb
    o ho hgt hO

/-- the same for the tables the reader and `Srflp::new` build from an instance file (`tabOf`) -/
theorem srflp_relaxed_ub_tabOf {K : Type} [DecidableEq K] (n : Nat) (lens : List Int) (flows : List (List Int)) (clear : Bool)
    (h64 : n ≤ 64) (hT : InstOk (tabOf n lens flows clear)) (hS : SmallInst (tabOf n lens flows clear))
    (cfg : Cfg St K) (cache : Cache St) (store : DomStore St K) (polls : Nat)
    (hP : cfg.P = problem (tabOf n lens flows clear)) (hR : cfg.R = relaxation (tabOf n lens flows clear))
    (hrs : cfg.root.state = initSt (tabOf n lens flows clear)) (hrv : cfg.root.value = 0) (hrd : cfg.root.depth = 0)
    (hrel : cfg.ctype = .relaxed) (hcache : cfg.useCache = false) (hdom : cfg.dom = none) (hW : 1 ≤ cfg.width)
    (hlb : InI cfg.lb)
    (o : Int)
    (ho : root2 (tabOf n lens flows clear) - 2 * o
      = Srflp.spec n (lenOf (tabOf n lens flows clear)) (flow (tabOf n lens flows clear)))
    (hgt : o > cfg.lb) (hO : o ≤ iMax ∨ cfg.lb < iMax) :
    (compile cfg cache store polls none).1 = .ok ∧
    ∃ bv, (compile cfg cache store polls none).2.1.bestValue = some bv ∧
      root2 (tabOf n lens flows clear) - 2 * bv
        ≤ Srflp.spec n (lenOf (tabOf n lens flows clear)) (flow (tabOf n lens flows clear)) :=
  srflp_relaxed_ub (tabOf n lens flows clear) h64 (tabSorted_tabOf n lens flows clear) hT hS cfg cache store polls hP hR hrs hrv
    hrd hrel hcache hdom hW hlb o ho hgt hO

/-! ## non-vacuity: 4 departments (lengths `1 2 3 4`, flows `1 … 6`), width 1: every layer after the first is merged into one
    node.  The optimum of the model is `-27` (`root2 = 118`, `Srflp.spec = 172 = 118 + 54`); the compiled evaluation of the
    relaxed compilation (`#eval`) reports `-14`, i.e. the printed bound `118 + 28 = 146 ≤ 172`.  The compilation itself is NOT
    evaluated in the kernel (`List.merge` / `List.mergeSort` — the cuts of `maybe_place` in the transition cost, the ratios of
    the rough bound, the tables of `tabOf` — are defined by well-founded recursion, which `decide +kernel` cannot unfold): `ok`
    comes from the general no-crash theorem instead. -/
namespace Demo

def Td : Tab := tabOf 4 [1, 2, 3, 4] [[0, 1, 2, 3], [1, 0, 4, 5], [2, 4, 0, 6], [3, 5, 6, 0]] false

def cfg : Cfg St Unit :=
  { P := problem Td, R := relaxation Td, rank := ⟨rankCmp⟩, dom := none,
    useCache := false, kind := .lel, ctype := .relaxed, width := 1, root := ⟨initSt Td, 0, [], iMax, 0⟩, lb := -1000000 }

theorem n_Td : Td.n = 4 := rfl
set_option maxRecDepth 100000 in
theorem spec_Td : Srflp.spec Td.n (lenOf Td) (flow Td) = 172 := by decide +kernel
set_option maxRecDepth 100000 in
theorem root2_Td : root2 Td = 118 := by decide +kernel
theorem instOk_Td : InstOk Td := by unfold InstOk; decide +kernel
theorem small_Td : SmallInst Td := ⟨by decide +kernel, by decide +kernel⟩

theorem ok : (compile cfg (Cache.init 4) (DomStore.init 4) 0 none).1 = .ok :=
  Closed.compile_no_crash cfg (Cache.init 4) (DomStore.init 4) 0 rfl rfl (by decide) (nvBound Td) (by decide)

/-- the closed corollary applies to this instance (given the admissibility of its rough bound) -/
theorem demo (hRub : RubHyp Td) :
    ∃ bv, (compile cfg (Cache.init 4) (DomStore.init 4) 0 none).2.1.bestValue = some bv ∧ 118 - 2 * bv ≤ 172 := by
  have h := srflp_relaxed_ub_of_rub Td (by decide) instOk_Td small_Td hRub cfg (Cache.init 4) (DomStore.init 4) 0
    rfl rfl rfl rfl rfl rfl rfl rfl (by decide) (by decide) (-27) (by rw [spec_Td, root2_Td]; decide) (by decide)
    (by decide) ok
  rw [spec_Td, root2_Td] at h
  exact h

/-- **non-vacuity of `srflp_relaxed_ub`**: nothing is assumed -/
theorem demo_closed :
    ∃ bv, (compile cfg (Cache.init 4) (DomStore.init 4) 0 none).2.1.bestValue = some bv ∧ 118 - 2 * bv ≤ 172 :=
  demo (rubHyp Td (by decide) (tabSorted_tabOf _ _ _ _) instOk_Td)

-- expected: `(Ddo.Outcome.ok, some (-14))`
#eval ((compile cfg (Cache.init 4) (DomStore.init 4) 0 none).1, (compile cfg (Cache.init 4) (DomStore.init 4) 0 none).2.1.bestValue)

end Demo

#print axioms wfRelV_of_rub
#print axioms noClampRel
#print axioms srflp_relaxed_ub_of_rub
#print axioms srflp_relaxed_ub_of_rub'
#print axioms Demo.ok
#print axioms Demo.demo
#print axioms srflp_relaxed_ub
#print axioms srflp_relaxed_ub_tabOf
#print axioms Demo.demo_closed
#print axioms root_opt_exists

end Ddo.Examples.SrflpModel
