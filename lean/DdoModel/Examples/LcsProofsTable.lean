import DdoModel.Examples.LcsDp
/-! The 2-string table `lcsTable` of the lcs example is the table of the longest common subsequences of the suffixes:
    shape, upper-bound direction (the entry dominates every common subsequence) and attainment. -/
namespace Ddo.Examples.LcsModel

/-- the specification of one entry, by structural recursion -/
def lcs2 : List Nat → List Nat → Int
  | [], _ => 0
  | _ :: _, [] => 0
  | x :: xs, y :: ys =>
    max (max (lcs2 xs (y :: ys)) (lcs2 (x :: xs) ys)) (lcs2 xs ys + (if x = y then 1 else 0))

/-- the row of `a`: the entries for `b`, `b.tail`, …, `[]` -/
def rowOf (a : List Nat) : List Nat → List Int
  | [] => [lcs2 a []]
  | y :: ys => lcs2 a (y :: ys) :: rowOf a ys

theorem lcs2_nil_left (b : List Nat) : lcs2 [] b = 0 := by
  cases b <;> simp [lcs2]

theorem lcs2_nil_right (a : List Nat) : lcs2 a [] = 0 := by
  cases a <;> simp [lcs2]

theorem rowOf_headD (a b : List Nat) : (rowOf a b).headD 0 = lcs2 a b := by
  cases b <;> simp [rowOf]

theorem rowOf_length (a b : List Nat) : (rowOf a b).length = b.length + 1 := by
  induction b with
  | nil => simp [rowOf]
  | cons y ys ih => simp [rowOf, ih]

theorem rowOf_nil (b : List Nat) : rowOf [] b = List.replicate (b.length + 1) 0 := by
  induction b with
  | nil => simp [rowOf, lcs2_nil_left]
  | cons y ys ih => simp [rowOf, ih, lcs2_nil_left, List.replicate_succ]

theorem lcsRow_rowOf (ai : Nat) (ar b : List Nat) : lcsRow ai b (rowOf ar b) = rowOf (ai :: ar) b := by
  induction b with
  | nil => simp [lcsRow, rowOf, lcs2]
  | cons y ys ih =>
    simp only [lcsRow, rowOf, List.tail_cons, List.headD_cons, ih, rowOf_headD, lcs2]

theorem rowOf_get (a b : List Nat) (q : Nat) (hq : q ≤ b.length) :
    (rowOf a b)[q]? = some (lcs2 a (b.drop q)) := by
  induction b generalizing q with
  | nil =>
    have : q = 0 := by simpa using hq
    subst this; simp [rowOf]
  | cons y ys ih =>
    cases q with
    | zero => simp [rowOf]
    | succ q =>
      simp only [rowOf, List.getElem?_cons_succ, List.drop_succ_cons]
      exact ih q (by simpa using hq)

theorem lcsTable_headD (b a : List Nat) : (lcsTable b a).headD [] = rowOf a b := by
  induction a with
  | nil => simp [lcsTable, rowOf_nil]
  | cons x xs ih => simp only [lcsTable, List.headD_cons, ih, lcsRow_rowOf]

theorem lcsTable_get (b a : List Nat) (p : Nat) (hp : p ≤ a.length) :
    (lcsTable b a)[p]? = some (rowOf (a.drop p) b) := by
  induction a generalizing p with
  | nil =>
    have : p = 0 := by simpa using hp
    subst this; simp [lcsTable, rowOf_nil]
  | cons x xs ih =>
    cases p with
    | zero =>
      simp only [lcsTable, List.getElem?_cons_zero, List.drop_zero, lcsTable_headD, lcsRow_rowOf]
    | succ p =>
      simp only [lcsTable, List.getElem?_cons_succ, List.drop_succ_cons]
      exact ih p (by simpa using hp)

/-- shape -/
theorem lcsTable_length (b a : List Nat) : (lcsTable b a).length = a.length + 1 := by
  induction a with
  | nil => simp [lcsTable]
  | cons x xs ih => simp [lcsTable, ih]

theorem lcsTable_row (b a : List Nat) (p : Nat) (hp : p ≤ a.length) :
    ∃ row, (lcsTable b a)[p]? = some row ∧ row.length = b.length + 1 :=
  ⟨_, lcsTable_get b a p hp, rowOf_length _ _⟩

theorem lcs2_nonneg (a b : List Nat) : 0 ≤ lcs2 a b := by
  fun_induction lcs2 a b with
  | case1 => omega
  | case2 => omega
  | case3 x xs y ys ih1 ih2 ih3 => omega

/-- every common subsequence is at most `lcs2` long -/
theorem lcs2_ub (a b c : List Nat) (ha : c.Sublist a) (hb : c.Sublist b) : (c.length : Int) ≤ lcs2 a b := by
  fun_induction lcs2 a b generalizing c with
  | case1 b =>
    have : c = [] := by simpa using ha
    subst this; simp
  | case2 x xs =>
    have : c = [] := by simpa using hb
    subst this; simp
  | case3 x xs y ys ih1 ih2 ih3 =>
    rcases List.sublist_cons_iff.mp ha with h1 | ⟨r, hr, h1⟩
    · have := ih1 c h1 hb
      omega
    · rcases List.sublist_cons_iff.mp hb with h2 | ⟨r', hr', h2⟩
      · have := ih2 c ha h2
        omega
      · subst hr
        have hxy : x = y ∧ r = r' := by simpa using hr'
        obtain ⟨hxy, hrr⟩ := hxy
        subst hrr
        have := ih3 r h1 h2
        simp only [hxy, if_true, List.length_cons, Int.natCast_succ] at *
        omega

/-- `lcs2` is the length of a common subsequence -/
theorem lcs2_attained (a b : List Nat) : ∃ c : List Nat, c.Sublist a ∧ c.Sublist b ∧ lcs2 a b = (c.length : Int) := by
  fun_induction lcs2 a b with
  | case1 b => exact ⟨[], List.nil_sublist _, List.nil_sublist _, by simp⟩
  | case2 x xs => exact ⟨[], List.nil_sublist _, List.nil_sublist _, by simp⟩
  | case3 x xs y ys ih1 ih2 ih3 =>
    obtain ⟨c1, h1a, h1b, h1⟩ := ih1
    obtain ⟨c2, h2a, h2b, h2⟩ := ih2
    obtain ⟨c3, h3a, h3b, h3⟩ := ih3
    by_cases hxy : x = y
    · subst hxy
      simp only [if_true]
      by_cases hm : max (lcs2 xs (x :: ys)) (lcs2 (x :: xs) ys) ≤ lcs2 xs ys + 1
      · refine ⟨x :: c3, h3a.cons_cons _, h3b.cons_cons _, ?_⟩
        simp only [List.length_cons, Int.natCast_succ]
        omega
      · by_cases hm2 : lcs2 (x :: xs) ys ≤ lcs2 xs (x :: ys)
        · exact ⟨c1, List.Sublist.cons _ h1a, h1b, by omega⟩
        · exact ⟨c2, h2a, List.Sublist.cons _ h2b, by omega⟩
    · simp only [hxy, if_false]
      by_cases hm : max (lcs2 xs (y :: ys)) (lcs2 (x :: xs) ys) ≤ lcs2 xs ys + 0
      · exact ⟨c3, List.Sublist.cons _ h3a, List.Sublist.cons _ h3b, by omega⟩
      · by_cases hm2 : lcs2 (x :: xs) ys ≤ lcs2 xs (y :: ys)
        · exact ⟨c1, List.Sublist.cons _ h1a, h1b, by omega⟩
        · exact ⟨c2, h2a, List.Sublist.cons _ h2b, by omega⟩

/-- PRIORITY 1 — upper-bound direction: the entry dominates every common subsequence of the two suffixes -/
theorem lcsTable_ub (b a : List Nat) (p q : Nat) (hp : p ≤ a.length) (hq : q ≤ b.length) (c : List Nat)
    (ha : c.Sublist (a.drop p)) (hb : c.Sublist (b.drop q)) :
    ∃ row x, (lcsTable b a)[p]? = some row ∧ row[q]? = some x ∧ (c.length : Int) ≤ x :=
  ⟨_, _, lcsTable_get b a p hp, rowOf_get _ b q hq, lcs2_ub _ _ c ha hb⟩

/-- PRIORITY 2 — the entry is attained by a common subsequence -/
theorem lcsTable_attained (b a : List Nat) (p q : Nat) (hp : p ≤ a.length) (hq : q ≤ b.length) :
    ∃ (row : List Int) (x : Int) (c : List Nat), (lcsTable b a)[p]? = some row ∧ row[q]? = some x ∧ c.Sublist (a.drop p) ∧ c.Sublist (b.drop q) ∧
      x = (c.length : Int) := by
  obtain ⟨c, h1, h2, h3⟩ := lcs2_attained (a.drop p) (b.drop q)
  exact ⟨_, _, c, lcsTable_get b a p hp, rowOf_get _ b q hq, h1, h2, h3⟩

#print axioms lcsTable_length
#print axioms lcsTable_row
#print axioms lcsTable_ub
#print axioms lcsTable_attained

end Ddo.Examples.LcsModel
