import DdoModel.Examples.SrflpProofsRubDefs
/-! The two table walks of the srflp rough bound on EXACT states (`maybe_place = None`): `lengthsLoop` returns the lengths of
    the free departments and `flowsLoop` the flows between them, both sorted increasingly. -/
namespace Ddo.Examples.SrflpModel
open Ddo Ddo.Examples Ddo.Examples.Util Ddo.SpecUtil

/-! ### a fold that keeps `g e` for the entries with `p e` and stops at `ca` kept entries -/

def stopStep {α β : Type} (p : α → Bool) (g : α → β) (ca : Nat) (acc : List β × Bool) (e : α) : List β × Bool :=
  if acc.2 then acc else
    ((if p e then acc.1 ++ [g e] else acc.1), decide ((if p e then acc.1 ++ [g e] else acc.1).length = ca))

theorem stopFold_stopped {α β : Type} (p : α → Bool) (g : α → β) (ca : Nat) (l : List α) (ls : List β) :
    l.foldl (stopStep p g ca) (ls, true) = (ls, true) := by
  induction l with
  | nil => rfl
  | cons e l ih => simp only [List.foldl_cons]; exact ih

theorem stopFold_spec {α β : Type} (p : α → Bool) (g : α → β) (ca : Nat) (l : List α) :
    ∀ init : List β, ∃ X Y, (l.filter p).map g = X ++ Y ∧
      (l.foldl (stopStep p g ca) (init, false)).1 = init ++ X ∧ (Y = [] ∨ (init ++ X).length = ca) := by
  induction l with
  | nil => intro init; exact ⟨[], [], by simp⟩
  | cons e l ih =>
    intro init
    simp only [List.foldl_cons]
    cases hp : p e with
    | true =>
      by_cases hc : (init ++ [g e]).length = ca
      · have e1 : stopStep p g ca (init, false) e = (init ++ [g e], true) := by
          simp [stopStep, hp, hc]
        rw [e1, stopFold_stopped]
        refine ⟨[g e], (l.filter p).map g, by simp [hp], rfl, Or.inr hc⟩
      · have e1 : stopStep p g ca (init, false) e = (init ++ [g e], false) := by
          simpa [stopStep, hp] using hc
        rw [e1]
        obtain ⟨X, Y, h1, h2, h3⟩ := ih (init ++ [g e])
        refine ⟨g e :: X, Y, by simp [hp, h1], by simp [h2], ?_⟩
        rcases h3 with h3 | h3
        · exact Or.inl h3
        · right; simpa using h3
    | false =>
      by_cases hc : init.length = ca
      · have e1 : stopStep p g ca (init, false) e = (init, true) := by
          simp [stopStep, hp, hc]
        rw [e1, stopFold_stopped]
        refine ⟨[], ((e :: l).filter p).map g, by simp, by simp, Or.inr (by simpa using hc)⟩
      · have e1 : stopStep p g ca (init, false) e = (init, false) := by
          simp [stopStep, hp, hc]
        rw [e1]
        obtain ⟨X, Y, h1, h2, h3⟩ := ih init
        exact ⟨X, Y, by simp [hp, h1], h2, h3⟩

theorem stopFold_all {α β : Type} (p : α → Bool) (g : α → β) (ca : Nat) (l : List α)
    (h : ((l.filter p).map g).length = ca) :
    (l.foldl (stopStep p g ca) ([], false)).1 = (l.filter p).map g := by
  obtain ⟨X, Y, h1, h2, h3⟩ := stopFold_spec p g ca l []
  rw [h2, h1]
  have hY : Y = [] := by
    rcases h3 with h3 | h3
    · exact h3
    · rw [h1] at h
      simp only [List.nil_append, List.length_append] at h3 h
      exact List.eq_nil_of_length_eq_zero (by omega)
  simp [hY]

/-! ### the orders of the tables -/

theorem le2_iff (a b : Int × Nat) : le2 a b = true ↔ (a.1 < b.1 ∨ (a.1 = b.1 ∧ a.2 ≤ b.2)) := by
  simp [le2]

theorem le3_iff (a b : Int × Nat × Nat) :
    le3 a b = true ↔ (a.1 < b.1 ∨ (a.1 = b.1 ∧ (a.2.1 < b.2.1 ∨ (a.2.1 = b.2.1 ∧ a.2.2 ≤ b.2.2)))) := by
  simp [le3]

theorem le2_trans (a b c : Int × Nat) (h1 : le2 a b = true) (h2 : le2 b c = true) : le2 a c = true := by
  rw [le2_iff] at *; omega

theorem le2_total (a b : Int × Nat) : (le2 a b || le2 b a) = true := by
  rw [Bool.or_eq_true, le2_iff, le2_iff]; omega

theorem le3_trans (a b c : Int × Nat × Nat) (h1 : le3 a b = true) (h2 : le3 b c = true) : le3 a c = true := by
  rw [le3_iff] at *; omega

theorem le3_total (a b : Int × Nat × Nat) : (le3 a b || le3 b a) = true := by
  rw [Bool.or_eq_true, le3_iff, le3_iff]; omega

/-! ### increasing lists -/

theorem sorted_ext : ∀ {l₁ l₂ : List Nat}, l₁.Pairwise (· < ·) → l₂.Pairwise (· < ·) → (∀ a, a ∈ l₁ ↔ a ∈ l₂) → l₁ = l₂
  | [], [], _, _, _ => rfl
  | [], b :: r, _, _, h => absurd ((h b).2 (by simp)) (by simp)
  | a :: r, [], _, _, h => absurd ((h a).1 (by simp)) (by simp)
  | a :: r, b :: r', h1, h2, h => by
    rw [List.pairwise_cons] at h1 h2
    have hab : a = b := by
      have x1 := (h a).1 (by simp)
      have x2 := (h b).2 (by simp)
      simp only [List.mem_cons] at x1 x2
      rcases x1 with x1 | x1
      · exact x1
      · rcases x2 with x2 | x2
        · exact x2.symm
        · have := h1.1 b x2; have := h2.1 a x1; omega
    subst hab
    have : r = r' := by
      apply sorted_ext h1.2 h2.2
      intro x
      constructor
      · intro hx
        have y := (h x).1 (List.mem_cons_of_mem _ hx)
        simp only [List.mem_cons] at y
        rcases y with y | y
        · have := h1.1 x hx; omega
        · exact y
      · intro hx
        have y := (h x).2 (List.mem_cons_of_mem _ hx)
        simp only [List.mem_cons] at y
        rcases y with y | y
        · have := h2.1 x hx; omega
        · exact y
    rw [this]

theorem range_filter_contains {n : Nat} {m : List Nat} (hs : m.Pairwise (· < ·)) (hl : ∀ i ∈ m, i < n) :
    (List.range n).filter (fun i => m.contains i) = m := by
  apply sorted_ext (List.pairwise_lt_range.filter _) hs
  intro a
  simp only [List.mem_filter, List.mem_range, List.contains_iff_mem]
  exact ⟨fun h => h.2, fun h => ⟨hl a h, h⟩⟩

theorem flatMap_congr' {α β : Type} {l : List α} {f g : α → List β} (h : ∀ a ∈ l, f a = g a) :
    l.flatMap f = l.flatMap g := by
  induction l with
  | nil => rfl
  | cons a l ih =>
    simp only [List.flatMap_cons]
    rw [h a (by simp), ih (fun x hx => h x (List.mem_cons_of_mem _ hx))]

theorem flatMap_if {α β : Type} (q : α → Bool) (G : α → List β) (l : List α) :
    l.flatMap (fun i => if q i then G i else []) = (l.filter q).flatMap G := by
  induction l with
  | nil => rfl
  | cons a l ih =>
    simp only [List.flatMap_cons, List.filter_cons]
    cases hq : q a <;> simp [ih]

theorem pairFlows_eq_flatMap (f : Nat → Nat → Int) : ∀ {m : List Nat}, m.Pairwise (· < ·) →
    pairFlows f m = m.flatMap (fun i => (m.filter (fun j => decide (i < j))).map (f i))
  | [], _ => rfl
  | a :: r, h => by
    rw [List.pairwise_cons] at h
    rw [pairFlows, pairFlows_eq_flatMap f h.2, List.flatMap_cons]
    have e1 : (a :: r).filter (fun j => decide (a < j)) = r := by
      rw [List.filter_cons]
      simp only [Nat.lt_irrefl, decide_false, Bool.false_eq_true, if_false]
      rw [List.filter_eq_self]
      intro x hx; simpa using h.1 x hx
    rw [e1]
    congr 1
    apply flatMap_congr'
    intro i hi
    have : ¬ i < a := by have := h.1 i hi; omega
    rw [List.filter_cons]
    simp [this]

theorem length_pairFlows (f : Nat → Nat → Int) (l : List Nat) :
    (pairFlows f l).length = l.length * (l.length - 1) / 2 := by
  induction l with
  | nil => rfl
  | cons a r ih =>
    rw [pairFlows, List.length_append, List.length_map, ih, List.length_cons]
    cases hk : r.length with
    | zero => rfl
    | succ j =>
      have e : (j + 1 + 1) * (j + 1 + 1 - 1) = (j + 1) * (j + 1 - 1) + 2 * (j + 1) := by
        simp only [Nat.add_sub_cancel]
        rw [Nat.succ_mul (j + 1) (j + 1), Nat.mul_succ (j + 1) j]
        omega
      rw [e]
      omega

/-- the flows of the table between the members of an increasing set -/
theorem tableFlows_eq (f : Nat → Nat → Int) {n : Nat} {m : List Nat} (hs : m.Pairwise (· < ·)) (hl : ∀ i ∈ m, i < n) :
    ((((List.range n).flatMap (fun i => ((List.range n).filter (fun j => decide (i < j))).map (fun j => (f i j, i, j)))).filter
        (fun e => m.contains e.2.1 && m.contains e.2.2)).map (fun e => e.1)) = pairFlows f m := by
  rw [pairFlows_eq_flatMap f hs, List.filter_flatMap, List.map_flatMap]
  have e1 : ∀ i ∈ List.range n,
      ((((List.range n).filter (fun j => decide (i < j))).map (fun j => (f i j, i, j))).filter
        (fun e => m.contains e.2.1 && m.contains e.2.2)).map (fun e => e.1)
      = if m.contains i then (m.filter (fun j => decide (i < j))).map (f i) else [] := by
    intro i _
    rw [List.filter_map, List.map_map]
    cases hc : m.contains i with
    | false =>
      simp only [Bool.false_eq_true, if_false, List.map_eq_nil_iff, List.filter_eq_nil_iff]
      intro a _
      have hc' : i ∉ m := by simpa using hc
      simp [hc']
    | true =>
      simp only [if_true]
      conv => rhs; rw [← range_filter_contains hs hl]
      rw [List.filter_filter, List.filter_filter]
      have : ∀ l : List Nat, (l.filter (fun a => ((fun e : Int × Nat × Nat => m.contains e.2.1 && m.contains e.2.2) ∘
            (fun j => (f i j, i, j))) a && decide (i < a))) = l.filter (fun a => decide (i < a) && m.contains a) := by
        intro l
        apply List.filter_congr
        intro x _
        simp only [Function.comp, hc, Bool.true_and]
        exact Bool.and_comm _ _
      rw [this]
      rfl
  rw [flatMap_congr' e1, flatMap_if, range_filter_contains hs hl]

variable (T : Tab)

/-! ### the loops on exact states -/

theorem lengthsLoop_none {s : St} (hm : s.maybe = none) (ca q0 : Nat) :
    (lengthsLoop T s ca q0).1 =
      (T.sl.foldl (stopStep (fun e : Int × Nat => s.must.contains e.2) (fun e => e.1) ca) ([], false)).1 := by
  obtain ⟨d, must, mb, cut⟩ := s
  simp only at hm
  subst hm
  unfold lengthsLoop
  simp only
  have key : ∀ (l : List (Int × Nat)) (ls ms : List Int) (q : Nat) (b : Bool),
      l.foldl (fun (acc : List Int × List Int × Nat × Bool) (e : Int × Nat) =>
        if acc.2.2.2 then acc else
        ((if must.contains e.2 then (acc.1 ++ [e.1], acc.2.1, acc.2.2.1) else (acc.1, acc.2.1, acc.2.2.1)).1,
         (if must.contains e.2 then (acc.1 ++ [e.1], acc.2.1, acc.2.2.1) else (acc.1, acc.2.1, acc.2.2.1)).2.1,
         (if must.contains e.2 then (acc.1 ++ [e.1], acc.2.1, acc.2.2.1) else (acc.1, acc.2.1, acc.2.2.1)).2.2,
         decide ((if must.contains e.2 then (acc.1 ++ [e.1], acc.2.1, acc.2.2.1) else (acc.1, acc.2.1, acc.2.2.1)).1.length = ca)))
        (ls, ms, q, b)
      = ((l.foldl (stopStep (fun e : Int × Nat => must.contains e.2) (fun e => e.1) ca) (ls, b)).1, ms, q,
         (l.foldl (stopStep (fun e : Int × Nat => must.contains e.2) (fun e => e.1) ca) (ls, b)).2) := by
    intro l
    induction l with
    | nil => intros; rfl
    | cons e l ih =>
      intro ls ms q b
      simp only [List.foldl_cons]
      cases b with
      | true => simp only [if_true]; rw [ih]; simp [stopStep]
      | false =>
        simp only [Bool.false_eq_true, if_false]; rw [ih]
        by_cases hp : e.2 ∈ must <;> simp [stopStep, hp]
  exact congrArg (·.1) (key T.sl [] [] q0 false)

theorem flowsLoop_none {s : St} (hm : s.maybe = none) (nF q1 q2 : Nat) :
    flowsLoop T s nF q1 q2 =
      (T.sf.foldl (stopStep (fun e : Int × Nat × Nat => s.must.contains e.2.1 && s.must.contains e.2.2) (fun e => e.1) nF)
        ([], false)).1 := by
  obtain ⟨d, must, mb, cut⟩ := s
  simp only at hm
  subst hm
  unfold flowsLoop
  simp only
  have key : ∀ (l : List (Int × Nat × Nat)) (fs : List Int) (a c : Nat) (b : Bool),
      l.foldl (fun (acc : List Int × Nat × Nat × Bool) (e : Int × Nat × Nat) =>
        if acc.2.2.2 then acc else
        ((if must.contains e.2.1 ∧ must.contains e.2.2 then (acc.1 ++ [e.1], acc.2.1, acc.2.2.1) else (acc.1, acc.2.1, acc.2.2.1)).1,
         (if must.contains e.2.1 ∧ must.contains e.2.2 then (acc.1 ++ [e.1], acc.2.1, acc.2.2.1) else (acc.1, acc.2.1, acc.2.2.1)).2.1,
         (if must.contains e.2.1 ∧ must.contains e.2.2 then (acc.1 ++ [e.1], acc.2.1, acc.2.2.1) else (acc.1, acc.2.1, acc.2.2.1)).2.2,
         decide ((if must.contains e.2.1 ∧ must.contains e.2.2 then (acc.1 ++ [e.1], acc.2.1, acc.2.2.1)
            else (acc.1, acc.2.1, acc.2.2.1)).1.length = nF)))
        (fs, a, c, b)
      = ((l.foldl (stopStep (fun e : Int × Nat × Nat => must.contains e.2.1 && must.contains e.2.2) (fun e => e.1) nF) (fs, b)).1,
         a, c,
         (l.foldl (stopStep (fun e : Int × Nat × Nat => must.contains e.2.1 && must.contains e.2.2) (fun e => e.1) nF) (fs, b)).2) := by
    intro l
    induction l with
    | nil => intros; rfl
    | cons e l ih =>
      intro fs a c b
      simp only [List.foldl_cons]
      cases b with
      | true => simp only [if_true]; rw [ih]; simp [stopStep]
      | false =>
        simp only [Bool.false_eq_true, if_false]; rw [ih]
        by_cases hp : e.2.1 ∈ must <;> by_cases hp2 : e.2.2 ∈ must <;> simp [stopStep, hp, hp2]
  exact congrArg (·.1) (key T.sf [] q1 q2 false)

theorem must_length_exact_loops {s : St} (hG : Good T s) (hm : s.maybe = none) : s.must.length = T.n - s.depth := by
  have h1 := hG.must_le
  have h2 := hG.fill
  have : mbOf s = [] := by simp [mbOf, hm]
  rw [this] at h2
  simp only [List.length_nil] at h2
  omega

/-- on an exact state the first loop returns the lengths of the free departments, sorted -/
theorem lengthsLoop_exact (hS : TabSorted T) {s : St} (hG : Good T s) (hm : s.maybe = none) (q0 : Nat) :
    (lengthsLoop T s (T.n - s.depth) q0).1.Perm (s.must.map (lenOf T)) ∧
    (lengthsLoop T s (T.n - s.depth) q0).1.Pairwise (· ≤ ·) := by
  have hlt : ∀ i ∈ s.must, i < T.n := fun i hi => hG.lt i (Or.inl hi)
  have hperm : ((T.sl.filter (fun e : Int × Nat => s.must.contains e.2)).map (fun e => e.1)).Perm (s.must.map (lenOf T)) := by
    have p1 : T.sl.Perm ((List.range T.n).map (fun i => (lenOf T i, i))) := by
      rw [hS.sl]; exact List.mergeSort_perm _ _
    refine ((p1.filter _).map _).trans ?_
    rw [List.filter_map, List.map_map]
    have : (List.range T.n).filter ((fun e : Int × Nat => s.must.contains e.2) ∘ fun i => (lenOf T i, i)) = s.must :=
      range_filter_contains hG.must_sorted hlt
    rw [this]
    exact List.Perm.of_eq rfl
  have hlen : ((T.sl.filter (fun e : Int × Nat => s.must.contains e.2)).map (fun e => e.1)).length = T.n - s.depth := by
    rw [hperm.length_eq, List.length_map, must_length_exact_loops T hG hm]
  rw [lengthsLoop_none T hm, stopFold_all _ _ _ _ hlen]
  refine ⟨hperm, ?_⟩
  have hs : T.sl.Pairwise (fun a b => le2 a b = true) := by
    rw [hS.sl]; exact List.pairwise_mergeSort le2_trans le2_total _
  rw [List.pairwise_map]
  refine (hs.filter _).imp ?_
  intro a b hab
  rw [le2_iff] at hab
  omega

/-- on an exact state the second loop returns the flows between the free departments, sorted -/
theorem flowsLoop_exact (hS : TabSorted T) {s : St} (hG : Good T s) (hm : s.maybe = none) (q1 q2 : Nat) :
    (flowsLoop T s ((T.n - s.depth) * (T.n - s.depth - 1) / 2) q1 q2).Perm (pairFlows (flow T) s.must) ∧
    (flowsLoop T s ((T.n - s.depth) * (T.n - s.depth - 1) / 2) q1 q2).Pairwise (· ≤ ·) := by
  have hlt : ∀ i ∈ s.must, i < T.n := fun i hi => hG.lt i (Or.inl hi)
  have hperm : ((T.sf.filter (fun e : Int × Nat × Nat => s.must.contains e.2.1 && s.must.contains e.2.2)).map (fun e => e.1)).Perm
      (pairFlows (flow T) s.must) := by
    have p1 := hS.sf ▸ List.mergeSort_perm ((List.range T.n).flatMap (fun i =>
        ((List.range T.n).filter (fun j => decide (i < j))).map (fun j => (flow T i j, i, j)))) le3
    refine ((p1.filter _).map _).trans ?_
    rw [tableFlows_eq (flow T) hG.must_sorted hlt]
  have hlen : ((T.sf.filter (fun e : Int × Nat × Nat => s.must.contains e.2.1 && s.must.contains e.2.2)).map (fun e => e.1)).length
      = (T.n - s.depth) * (T.n - s.depth - 1) / 2 := by
    rw [hperm.length_eq, length_pairFlows, must_length_exact_loops T hG hm]
  rw [flowsLoop_none T hm, stopFold_all _ _ _ _ hlen]
  refine ⟨hperm, ?_⟩
  have hs : T.sf.Pairwise (fun a b => le3 a b = true) := by
    rw [hS.sf]; exact List.pairwise_mergeSort le3_trans le3_total _
  rw [List.pairwise_map]
  refine (hs.filter _).imp ?_
  intro a b hab
  rw [le3_iff] at hab
  omega

#print axioms lengthsLoop_exact
#print axioms flowsLoop_exact
#print axioms length_pairFlows

end Ddo.Examples.SrflpModel
