import DdoModel.Examples.SrflpDp
/-! Statements about the Lean model of the srflp example (`SrflpDp.lean`).  Proved here: the specification table the driver
    uses gives `Srflp.spec` at the root (`spec_eq_table`); the merge operator as shipped ALWAYS returns an empty `must_place`
    (`merge_must_nil`: the accumulator of the intersection starts empty), is at least as deep as every merged state
    (`merge_depth_ge`), keeps every department of every merged state in `maybe_place` (`merge_maybe_mem`), never leaves
    `maybe_place = Some(empty)` (`merge_maybe_ne_nil`); `relax` leaves the cost alone (`relax_id`); terminal states are worth `0`
    (`bestRem_terminal`); the variable order is the identity (`nextVar_eq`), every variable impacts every state
    (`impacted_true`), the ranking compares depths (`rank_eq`), the width is the product (`maxWidth_eq`).
    Stated, not proved (`def … : Prop`; the driver checks them pointwise on every generated case): `RubAdmissibleStmt` (for
    small ratios only: the bound as shipped is not admissible when two ratios collide as `f32`, `RubF32CounterexampleStmt`),
    `RubAdmissibleExactRatioStmt`, `MergeOkStmt`, `DpExactStmt`, `DpExactPrefixStmt`.
    PROVED SINCE (`SrflpProofs*.lean`, summary in `SrflpProofsMain.lean`), each in a clearly named restricted form:
    `mergeOk_partial` (`MergeOkStmt` for `n ≤ 64` and sets listed increasingly), `dpExact_partial` / `dpExactPrefix_partial`
    (`DpExactStmt` / `DpExactPrefixStmt` for `n ≤ 64`), `rubAdmissible_exact_partial` (`RubAdmissibleExactRatioStmt` on exact
    states, tables as `Srflp::new` builds them, `n ≤ 64`, sets listed increasingly), Smith's rule standalone
    (`smith_rule_optimal`, `wct_swap_eq`), `wfRel_of_rub`; then (`SrflpProofsRubMerged*.lean`) `rubAdmissible_exactRatio`:
    `RubAdmissibleExactRatioStmt` on ALL such states, merged states (with a `maybe_place`) included, hence `rubHyp`,
    `srflp_wfRel` (`WfRel` of the example) and the closed `srflp_relaxed_ub` (`SrflpProofsClosed.lean`).  The statements below are NOT theorems as written: `InstOk` bounds
    neither `n ≤ 64` (`trans?` answers `none` for a department `≥ 64`, `trans` then leaves the state alone: with 65 departments
    the root can "place" department 64 for ever at cost 0) nor ties `sl` / `sf` to the instance (`rubAdmissible_needs_tabSorted`,
    kernel-checked), and `validB` accepts lists with repeated members (`must = [2, 2, 2]`), for which `MergeOkStmt` fails
    (evaluated, `SrflpProofsMain.lean`).  None of this is reachable by the example (`Set64`, `Srflp::new`). -/
namespace Ddo.Examples.SrflpModel
open Ddo Ddo.Examples Ddo.Examples.Util

variable (T : Tab)

/-- at the root the driver's table gives `Srflp.spec`: the least `cost2` over all orders -/
theorem spec_eq_table : Srflp.spec T.n (lenOf T) (flow T) = (specBestExt (specTable T) []).getD (-2) := by
  have hfilter : (specTable T).filter (fun e => e.1.take (([] : List Int).map Int.toNat).length == ([] : List Int).map Int.toNat) = specTable T := by
    apply List.filter_eq_self.mpr
    intro e _
    simp
  unfold specBestExt
  simp only [List.any_nil, Bool.false_eq_true, if_false]
  rw [hfilter]
  unfold Srflp.spec specTable
  simp only [List.map_map]
  congr 1

/-- `SrflpRelax::relax` leaves the cost of the arc alone -/
theorem relax_id (a b c : St) (d : Dec) (x : Int) : (relaxation T).relax a b c d x = x := rfl
/-- `SrflpRanking::compare` compares the depths -/
theorem rank_eq (a b : St) : rankCmp a b = compare a.depth b.depth := rfl
/-- `SrflpWidth::max_width` -/
theorem maxWidth_eq (nb f : Nat) : maxWidth nb f = nb * f := rfl
/-- the default `is_impacted_by` -/
theorem impacted_true (x : Nat) (s : St) : (problem T).impacted x s = true := rfl
/-- variable `k` is decided at depth `k` -/
theorem nextVar_eq (k : Nat) (L : List St) : (problem T).nextVar k L = if k < T.n then some k else none := rfl

theorem foldl_inter_nil (X : List St) : X.foldl (fun m s => interSet m s.must) [] = [] := by
  induction X with
  | nil => rfl
  | cons a r ih => simpa [List.foldl_cons, interSet] using ih

/-- `SrflpRelax::merge` as shipped: the merged `must_place` is ALWAYS empty (the intersection is accumulated from
    `Set64::empty()`), whatever the states — even for a single state, even when all states agree -/
theorem merge_must_nil (X : List St) : (mergeStates T X).must = [] := by
  unfold mergeStates
  exact foldl_inter_nil X

theorem foldl_max_depth (X : List St) : ∀ d0 : Nat,
    d0 ≤ X.foldl (fun d s => max d s.depth) d0 ∧ ∀ u ∈ X, u.depth ≤ X.foldl (fun d s => max d s.depth) d0 := by
  induction X with
  | nil => intro d0; simp
  | cons a r ih =>
    intro d0
    have h := ih (max d0 a.depth)
    refine ⟨by simp only [List.foldl_cons]; omega, ?_⟩
    intro u hu
    simp only [List.foldl_cons]
    rcases List.mem_cons.mp hu with rfl | hu
    · omega
    · exact h.2 u hu

/-- the merged state is at least as deep as every merged state -/
theorem merge_depth_ge (X : List St) : ∀ u ∈ X, u.depth ≤ (mergeStates T X).depth :=
  (foldl_max_depth X 0).2

theorem mem_insSet (x y : Nat) : ∀ l : List Nat, y ∈ insSet x l ↔ y = x ∨ y ∈ l := by
  intro l
  induction l with
  | nil => simp [insSet]
  | cons a r ih =>
    unfold insSet
    by_cases h1 : x < a
    · simp [h1]
    · by_cases h2 : x = a
      · subst h2; simp
      · simp only [h1, h2, if_false, List.mem_cons, ih]
        constructor
        · rintro (h | h | h) <;> simp [h]
        · rintro (h | h | h) <;> simp [h]

theorem mem_unionSet (y : Nat) : ∀ (b a : List Nat), y ∈ unionSet a b ↔ y ∈ a ∨ y ∈ b := by
  intro b
  induction b with
  | nil => intro a; simp [unionSet]
  | cons x r ih =>
    intro a
    have h := ih (insSet x a)
    unfold unionSet at h ⊢
    simp only [List.foldl_cons]
    rw [h, mem_insSet]
    simp only [List.mem_cons]
    constructor
    · rintro ((h | h) | h) <;> simp [h]
    · rintro (h | h | h) <;> simp [h]

theorem foldl_union_mem (y : Nat) (X : List St) : ∀ u0 : List Nat,
    y ∈ X.foldl (fun u s => unionSet (unionSet u s.must) (s.maybe.getD [])) u0 ↔
      y ∈ u0 ∨ ∃ s ∈ X, y ∈ s.must ∨ y ∈ s.maybe.getD [] := by
  induction X with
  | nil => intro u0; simp
  | cons a r ih =>
    intro u0
    simp only [List.foldl_cons]
    rw [ih, mem_unionSet, mem_unionSet]
    simp only [List.mem_cons, exists_eq_or_imp]
    constructor
    · rintro (((h | h) | h) | h)
      · exact Or.inl h
      · exact Or.inr (Or.inl (Or.inl h))
      · exact Or.inr (Or.inl (Or.inr h))
      · exact Or.inr (Or.inr h)
    · rintro (h | (h | h) | h)
      · exact Or.inl (Or.inl (Or.inl h))
      · exact Or.inl (Or.inl (Or.inr h))
      · exact Or.inl (Or.inr h)
      · exact Or.inr h

/-- the departments the merged state may place are exactly those some merged state must or may place (nothing is lost:
    every completion of a merged state starts with a department the merged state offers, as long as it offers `maybe_place`) -/
theorem merge_maybe_mem (X : List St) (y : Nat) :
    y ∈ (mergeStates T X).maybe.getD [] ↔ ∃ s ∈ X, y ∈ s.must ∨ y ∈ s.maybe.getD [] := by
  have hm : (X.foldl (fun m s => interSet m s.must) []) = [] := foldl_inter_nil X
  have hd : ∀ l : List Nat, diffSet l [] = l := by
    intro l; unfold diffSet; simp
  unfold mergeStates
  simp only [hm, hd]
  have h := foldl_union_mem y X []
  simp only [List.not_mem_nil, false_or] at h
  by_cases he : (X.foldl (fun u s => unionSet (unionSet u s.must) (s.maybe.getD [])) []).isEmpty = true
  · simp only [he, if_true, Option.getD_none, List.not_mem_nil, false_iff]
    rw [← h]
    rw [List.isEmpty_iff] at he
    simp [he]
  · simp only [he, Bool.false_eq_true, if_false, Option.getD_some]
    exact h

/-- `merge` never returns `maybe_place = Some(empty)` -/
theorem merge_maybe_ne_nil (X : List St) : (mergeStates T X).maybe ≠ some [] := by
  unfold mergeStates
  simp only
  split
  · simp
  · rename_i h
    intro hc
    apply h
    have := Option.some.inj hc
    rw [this]
    rfl

/-- a terminal state is worth `0` -/
theorem bestRem_terminal (s : St) (h : T.n ≤ s.depth) : bestRem T s = some 0 := by
  unfold bestRem
  have : T.n - s.depth = 0 := by omega
  rw [this]
  rfl

-- ------------------------------------------------------------------------------------------------------------------
-- stated, not proved: what the driver checks pointwise

/-- the instances of the example's domain: one positive length per department, a square symmetric matrix of non-negative flows -/
def InstOk : Prop := inDomainB T = true

/-- the states a compilation can build (`validB`: not terminal, disjoint sets of departments, `must_place` fits in the free
    positions and the two sets fill them, non-negative cuts) -/
def StOk (s : St) : Prop := validB T s = true

/-- the ratios `cut / length` of the state are small enough for `f32` to order them like the exact ratios: two different ratios
    differ by at least `1 / (cut · length)` relatively, three roundings of relative size `2^-24` cannot swap them -/
def SmallRatios (s : St) : Prop :=
  ∀ i ∈ s.must ++ s.maybe.getD [], ∀ j, j < T.n → s.cut.getD i 0 * lenOf T j < 2 ^ 22

/-- `RubOk`: the rough upper bound dominates the value-to-go of every such state — FOR SMALL RATIOS.  Without `SmallRatios` the
    statement is false (`RubF32CounterexampleStmt`; the driver's `srflp-rub-f32`). -/
def RubAdmissibleStmt : Prop :=
  InstOk T → ∀ s r, StOk T s → SmallRatios T s → rubF32? T s = some r → bestRem T s ≤ (some r : EInt)

/-- the bound with EXACTLY compared ratios (the repair: compare `c l' ` with `c' l` in integers) is admissible without
    any size hypothesis -/
def RubAdmissibleExactRatioStmt : Prop :=
  InstOk T → ∀ s r, StOk T s → rubExactRatio? T s = some r → bestRem T s ≤ (some r : EInt)

/-- the bound as shipped is NOT admissible on the whole domain: the witness the driver replays in every run (`corpus` case of
    the family; 5 departments, lengths `13 7 7 9 9`, department 0 exchanges `1835012` with 1 and 2, `2359301` with 3 and 4), the
    state reached by placing department 0 first: the code answers `-100139225`, the best completion is worth `-100139221` -/
def RubF32CounterexampleStmt : Prop :=
  let Tw := tabOf 5 [13, 7, 7, 9, 9]
    [[0, 1835012, 1835012, 2359301, 2359301], [1835012, 0, 0, 0, 0], [1835012, 0, 0, 0, 0], [2359301, 0, 0, 0, 0], [2359301, 0, 0, 0, 0]] false
  let sw : St := { depth := 1, must := [1, 2, 3, 4], maybe := none, cut := [0, 1835012, 1835012, 2359301, 2359301] }
  inDomainB Tw = true ∧ validB Tw sw = true ∧ rubF32? Tw sw = some (-100139225) ∧ bestRem Tw sw = some (-100139221)

/-- `MergeOk` (potential form; `relax` is the identity): the merged state is worth at least as much as every merged state
    (states of one depth, valid or terminal) -/
def MergeOkStmt : Prop :=
  InstOk T →
  ∀ (X : List St) (u : St) (h : Int), u ∈ X → (∀ w ∈ X, (StOk T w ∨ w.depth = T.n) ∧ w.depth = u.depth) → bestRem T u = some h →
    ∃ h', bestRem T (mergeStates T X) = some h' ∧ h ≤ h'

/-- the DP model is exact and the printed objective is the specification's: twice (`root_value()` minus the value-to-go of
    the root) is the least `cost2` over all orders, i.e. `Srflp.spec` (`spec_eq_table`) -/
def DpExactStmt : Prop :=
  InstOk T → printed2 T 0 (bestRem T (initSt T)) = specBestExt (specTable T) []

/-- the same along every path of the model: after the decisions `decs` (value `v`, state `s`) twice the best objective still
    reachable is the least `cost2` among the orders that begin with `decs` -/
def DpExactPrefixStmt : Prop :=
  InstOk T → ∀ (decs : List Int) (s : St) (v : Int) (k : Nat),
    evalFrom (problem T) 0 (initSt T) 0 ((List.range decs.length).zipWith (fun (k : Nat) (x : Int) => (⟨k, x⟩ : Dec)) decs) = some (s, v, k) →
    printed2 T v (bestRem T s) = specBestExt (specTable T) decs

end Ddo.Examples.SrflpModel
