import DdoModel.WfRel
import DdoModel.Props.C06
import DdoModel.Examples.PspProofsRub
/-! The shipped psp example is well-formed (`wfRel`) under the triangle inequality (and a horizon `≤ 2^63`), relative to the
    layer validity "a state a compilation can build (`StOk`) with `time = horizon - depth`", with the value-to-go as
    potential; hence a relaxed compilation of its model from the root reports at least the value-to-go of the root
    (`psp_relaxed_ub_bestRem`). -/
namespace Ddo.Examples.PspModel
open Ddo Ddo.Examples Ddo.Examples.Util

/-- the potential: the value-to-go of the state, whatever the layer -/
def Hpot (I : Psp.Inst) (_ : Nat) (s : St) : EInt := bestRem (tabOf I) s
/-- layer validity -/
def V (I : Psp.Inst) (k : Nat) (s : St) : Prop := StOk I s ∧ s.time + k = I.T

theorem nextVar_some {I : Psp.Inst} {k x : Nat} {L : List St} (h : (problem (tabOf I)).nextVar k L = some x) :
    k < I.T ∧ x = I.T - k - 1 := by
  simp only [problem, nextVar] at h
  split at h
  · next hk => exact ⟨hk, by cases h; rfl⟩
  · cases h

theorem nextVar_none {I : Psp.Inst} {k : Nat} {L : List St} (h : (problem (tabOf I)).nextVar k L = none) : ¬ k < I.T := by
  simp only [problem, nextVar] at h
  split at h
  · cases h
  · next hk => exact hk

section
variable {I : Psp.Inst} (hI : InstOk I)
include hI

theorem validB_iff {s : St} (hs : Ok I s) : validB (tabOf I) s = true ↔ rem I s ≤ (s.time : Int) := by
  unfold validB
  rw [remOf?_eq hI hs]
  simp

theorem stOk_of {s : St} (hs : Ok I s) (ht : s.time ≤ I.T) (hnx : NextOk I s) (hrem : rem I s ≤ (s.time : Int)) : StOk I s :=
  ⟨hs.len, ht, hnx, hs.due, (validB_iff hI hs).mpr hrem⟩

theorem stOk_trans {s : St} (hs : StOk I s) (ht : s.time ≠ 0) {d : Int} (hd : d ∈ domain (tabOf I) (s.time - 1) s) :
    StOk I (trans (tabOf I) s ⟨s.time - 1, d⟩) ∧ (trans (tabOf I) s ⟨s.time - 1, d⟩).time = s.time - 1 := by
  have hx : ((s.time - 1 : Nat) : Int) = (s.time : Int) - 1 := by omega
  have hrem := (validB_iff hI hs.ok).mp hs.valid
  have htl := hs.time_le
  obtain ⟨hr, hcase⟩ := domain_cases hI hs.ok ht hd
  rcases hcase with ⟨_, hlt, htr⟩ | ⟨i, hi, _, hp, htr⟩
  · rw [htr]
    refine ⟨stOk_of hI (ok_idle hs.ok) (by simp [idle]; omega) hs.nextOk ?_, rfl⟩
    rw [rem_idle]; simp only [idle]; omega
  · rw [htr]
    refine ⟨stOk_of hI (ok_produce hs.ok hi) (by simp [produce]; omega) (Or.inr ⟨by simp [produce], by simp [produce]; omega⟩) ?_, rfl⟩
    rw [rem_produce hI hs.ok hi (by omega)]; simp only [produce]; omega

theorem vstepV {k : Nat} {s : St} (hV : V I k s) (hk : k < I.T) {d : Int} (hd : d ∈ domain (tabOf I) (I.T - k - 1) s) :
    V I (k + 1) (trans (tabOf I) s ⟨I.T - k - 1, d⟩) := by
  have hx : I.T - k - 1 = s.time - 1 := by have := hV.2; omega
  rw [hx] at hd ⊢
  obtain ⟨h1, h2⟩ := stOk_trans hI hV.1 (by have := hV.2; omega) hd
  exact ⟨h1, by rw [h2]; have := hV.2; omega⟩

theorem vmergeV (hT : (I.T : Int) ≤ isizeMax + 1) {k : Nat} {X : List St} (hne : X ≠ []) (hX : ∀ u ∈ X, V I k u) :
    V I k (mergeStates (tabOf I) X) := by
  obtain ⟨u, hu⟩ := List.exists_mem_of_ne_nil _ hne
  have hXt : ∀ w ∈ X, Ok I w ∧ w.time = u.time := fun w hw =>
    ⟨(hX w hw).1.ok, by have := (hX w hw).2; have := (hX u hu).2; omega⟩
  obtain ⟨hmt, hmn, hmo, hmle, _⟩ := merge_spec hI hT hu hXt (hX u hu).1.time_le
  refine ⟨stOk_of hI hmo (by rw [hmt]; exact (hX u hu).1.time_le) (Or.inl hmn) ?_, by rw [hmt]; exact (hX u hu).2⟩
  have h1 := rem_le_of_pd_le hI (hmle u hu)
  have h2 := (validB_iff hI (hX u hu).1.ok).mp (hX u hu).1.valid
  rw [hmt]; omega

theorem attV {k : Nat} {s : St} (hV : V I k s) (hk : k < I.T) {h : Int} (hh : bestRem (tabOf I) s = some h) :
    ∃ d ∈ domain (tabOf I) (I.T - k - 1) s, ∃ h', bestRem (tabOf I) (trans (tabOf I) s ⟨I.T - k - 1, d⟩) = some h' ∧
      h ≤ cost (tabOf I) s ⟨I.T - k - 1, d⟩ + h' := by
  have hx : I.T - k - 1 = s.time - 1 := by have := hV.2; omega
  rw [hx]
  obtain ⟨d, hd, h', hb, he⟩ := bestRem_att hI hV.1.ok (by have := hV.2; omega) hh
  exact ⟨d, hd, h', hb, by omega⟩

/-- the value-to-go of a state a compilation can build is never positive (costs are paid, never earned) -/
theorem bestRem_nonpos {s : St} (hs : StOk I s) {h : Int} (hh : bestRem (tabOf I) s = some h) : h ≤ 0 := by
  obtain ⟨W, _, _, hW⟩ := bestRem_walk hI s.time s h rfl hs.ok hs.nextOk ((validB_iff hI hs.ok).mp hs.valid) hh
  have := wc_nonneg (c := fun a b => qq I b a) (fun x y => qq_nonneg hI y x) (walkOf s.next W)
  omega

theorem rubV {s : St} (hs : StOk I s) {h : Int} (hh : bestRem (tabOf I) s = some h) : h ≤ (relaxation (tabOf I)).rub s := by
  show h ≤ (rub? (tabOf I) s).getD 0
  cases hr : rub? (tabOf I) s with
  | none => exact bestRem_nonpos hI hs hh
  | some r =>
    have := rubAdmissible I hI s r hs hr
    rw [hh] at this
    exact this

end

/-- **the psp model is well-formed relative to `V`** under the triangle inequality, with the value-to-go as potential -/
theorem wfRel {I : Psp.Inst} (hI : InstOk I) (htri : triangleB (tabOf I) = true) (hT : (I.T : Int) ≤ isizeMax + 1) :
    WfRel (problem (tabOf I)) (relaxation (tabOf I)) (Hpot I) (V I) where
  vstep := by
    intro k L x s d hx _ hV hd
    obtain ⟨hk, rfl⟩ := nextVar_some hx
    exact vstepV hI hV hk hd
  vstepMerge := by
    intro k L x X d hx hne _ hX hd
    obtain ⟨hk, rfl⟩ := nextVar_some hx
    exact vstepV hI (vmergeV hI hT hne hX) hk hd
  vmerge := fun k X hne hX => vmergeV hI hT hne hX
  att := by
    intro k L x s h hx _ hV hh
    obtain ⟨hk, rfl⟩ := nextVar_some hx
    exact attV hI hV hk hh
  attMerge := by
    intro k L x X h hx hne _ hX hh
    obtain ⟨hk, rfl⟩ := nextVar_some hx
    exact attV hI (vmergeV hI hT hne hX) hk hh
  term := by
    intro k L s h hx _ hV hh
    have hk := nextVar_none hx
    have ht : s.time = 0 := by have := hV.2; omega
    have hh' : bestRem (tabOf I) s = some h := hh
    rw [bestRem_zero _ ht] at hh'
    cases hh'
    exact Int.le_refl _
  rub := fun k s h hV hh => rubV hI hV.1 hh
  merge := by
    intro k X u src d c h hu hX hh
    obtain ⟨h', hb, hle⟩ := mergeOk_partial I hT hI htri X u h hu
      (fun w hw => ⟨(hX w hw).1, by have := (hX w hw).2; have := (hX u hu).2; omega⟩) hh
    refine ⟨h', hb, ?_⟩
    show c + h ≤ c + h'
    omega

-- ------------------------------------------------------------------------------------------------------------------
-- no `isize` saturation: the costs of the decisions of the domain are bounded, on EVERY state

theorem mapM_some_mem {α β : Type} (f : α → Option β) : ∀ (l : List α) (r : List β), l.mapM f = some r →
    ∀ x ∈ l, ∃ y, f x = some y := by
  intro l
  induction l with
  | nil => intro r _ x hx; cases hx
  | cons a t ih =>
    intro r h x hx
    rw [List.mapM_cons] at h
    cases ha : f a with
    | none => rw [ha] at h; cases h
    | some b =>
      rw [ha] at h
      cases ht : t.mapM f with
      | none => rw [ht] at h; cases h
      | some bs =>
        rcases List.mem_cons.mp hx with rfl | hx
        · exact ⟨b, ha⟩
        · exact ih bs ht x hx

/-- a decision of the domain of ANY state: idle, or an item whose pending due date is a period of the horizon, not before
    the period decided -/
theorem domain_any (I : Psp.Inst) {x : Nat} {s : St} {d : Int} (hd : d ∈ domain (tabOf I) x s) :
    d = -1 ∨ ∃ i : Nat, i < I.n ∧ d = (i : Int) ∧ i < s.pd.length ∧ (x : Int) ≤ pdAt s i ∧ pdAt s i < (I.T : Int) := by
  unfold domain domain? at hd
  have hn : (tabOf I).n = I.n := rfl
  cases hrem : remOf? (tabOf I) s with
  | none => rw [hrem] at hd; simp at hd
  | some rm =>
    rw [hrem] at hd
    simp only [Option.bind_eq_bind, Option.bind_some, Option.pure_def, hn] at hd
    split at hd
    · simp at hd
    · simp only [Option.getD_some, List.mem_append, List.mem_map, List.mem_filter, List.mem_range] at hd
      rcases hd with ⟨i, ⟨hi, hp⟩, rfl⟩ | hd
      · right
        have hp : (x : Int) ≤ pdAt s i := by simpa [pdAt] using hp
        have hlen : i < s.pd.length := by
          apply Classical.byContradiction
          intro hnl
          have : pdAt s i = -1 := by
            simp [pdAt, List.getD_eq_getElem?_getD, List.getElem?_eq_none (Nat.le_of_not_lt hnl)]
          omega
        refine ⟨i, hi, rfl, hlen, hp, ?_⟩
        unfold remOf? at hrem
        rw [hn] at hrem
        cases hm : ((List.range I.n).filter (fun i => decide (s.pd.getD i (-1) ≥ 0))).mapM
            (fun i => ((tabOf I).remD.getD i [])[(s.pd.getD i 0).toNat]?) with
        | none => rw [hm] at hrem; simp at hrem
        | some rems =>
          obtain ⟨y, hy⟩ := mapM_some_mem _ _ _ hm i (by
            rw [List.mem_filter, List.mem_range]
            exact ⟨hi, by have : 0 ≤ pdAt s i := by omega
                          simpa [pdAt] using this⟩)
          rw [tab_remD I hi] at hy
          have hlt : (s.pd.getD i 0).toNat < ((List.range I.T).map (fun t => remF (rowOf I i) (t + 1))).length := by
            apply Classical.byContradiction
            intro hnl
            rw [List.getElem?_eq_none (Nat.le_of_not_lt hnl)] at hy
            cases hy
          simp only [List.length_map, List.length_range] at hlt
          have he : s.pd.getD i 0 = pdAt s i := by
            simp [pdAt, List.getD_eq_getElem?_getD, List.getElem?_eq_getElem hlen]
          rw [he] at hlt
          omega
      · left
        split at hd
        · simpa using hd
        · cases hd

theorem mem_of_getD_ne {l : List Int} {i : Nat} {c : Int} (h : l[i]? = some c) : c ∈ l := List.mem_of_getElem? h

theorem cost_bound {I : Psp.Inst} (hI : InstOk I) (qmax hmax : Int) (hq : ∀ r ∈ I.q, ∀ v ∈ r, v ≤ qmax)
    (hh : ∀ v ∈ I.h, v ≤ hmax) (hq0 : 0 ≤ qmax) (hh0 : 0 ≤ hmax) {x : Nat} {s : St} {d : Int}
    (hd : d ∈ domain (tabOf I) x s) :
    -(qmax + hmax * (I.T : Int)) ≤ cost (tabOf I) s ⟨x, d⟩ ∧ cost (tabOf I) s ⟨x, d⟩ ≤ 0 := by
  have hB : 0 ≤ hmax * (I.T : Int) := Int.mul_nonneg hh0 (by omega)
  rcases domain_any I hd with rfl | ⟨i, hi, rfl, hlen, hp, hlt⟩
  · rw [cost_idle]; omega
  · have h1 : ¬ ((i : Int) = -1) := by omega
    have h2 : ¬ ((i : Int) < 0) := by omega
    have h3 : s.pd[i]? = some (pdAt s i) := by
      simp [pdAt, List.getD_eq_getElem?_getD, List.getElem?_eq_getElem hlen]
    have hhl : i < I.h.length := by rw [hI.hrow.1]; exact hi
    have h4 : (tabOf I).stk[i]? = some (stkOf I i) := by
      show I.h[i]? = _
      simp [stkOf, List.getD_eq_getElem?_getD, List.getElem?_eq_getElem hhl]
    have hs0 := stkOf_nonneg hI i
    have hs1 : stkOf I i ≤ hmax := by
      unfold stkOf
      rw [List.getD_eq_getElem?_getD, List.getElem?_eq_getElem hhl]
      exact hh _ (List.getElem_mem hhl)
    have hst0 : 0 ≤ stkOf I i * (pdAt s i - (x : Int)) := Int.mul_nonneg hs0 (by omega)
    have hst1 : stkOf I i * (pdAt s i - (x : Int)) ≤ hmax * (I.T : Int) :=
      Int.mul_le_mul hs1 (by omega) (by omega) hh0
    simp only [cost, cost?, h1, h2, if_false, Int.toNat_natCast, h3, h4]
    split
    · simp only [Option.getD_some]; omega
    · split
      · simp only [Option.getD_none]; omega
      · split
        · next c hc =>
          have hq' : i < I.q.length := by rw [hI.qrows.1]; exact hi
          have hrow : (tabOf I).chg.getD i [] = I.q[i] := by
            show I.q.getD i [] = _
            rw [List.getD_eq_getElem?_getD, List.getElem?_eq_getElem hq']; rfl
          rw [hrow] at hc
          have hcm := List.mem_of_getElem? hc
          have hc0 := (hI.qrows.2 _ (List.getElem_mem hq')).2 c hcm
          have hc1 := hq _ (List.getElem_mem hq') c hcm
          simp only [Option.getD_some]; omega
        · simp only [Option.getD_none]; omega

theorem noClampDom {I : Psp.Inst} (hI : InstOk I) (qmax hmax : Int) (hq : ∀ r ∈ I.q, ∀ v ∈ r, v ≤ qmax)
    (hh : ∀ v ∈ I.h, v ≤ hmax) (hq0 : 0 ≤ qmax) (hh0 : 0 ≤ hmax)
    (hsmall : ((I.T : Int) + 2) * (qmax + hmax * (I.T : Int)) ≤ 4611686018427387904) :
    NoClampDom (problem (tabOf I)) (relaxation (tabOf I)) 0 (qmax + hmax * (I.T : Int)) where
  nonneg := by have : 0 ≤ hmax * (I.T : Int) := Int.mul_nonneg hh0 (by omega)
               omega
  root := by have : 0 ≤ hmax * (I.T : Int) := Int.mul_nonneg hh0 (by omega)
             omega
  cost := by
    intro x s d hd
    have := cost_bound hI qmax hmax hq hh hq0 hh0 hd
    have h0 : 0 ≤ hmax * (I.T : Int) := Int.mul_nonneg hh0 (by omega)
    show -(qmax + hmax * (I.T : Int)) ≤ cost (tabOf I) s ⟨x, d⟩ ∧ cost (tabOf I) s ⟨x, d⟩ ≤ qmax + hmax * (I.T : Int)
    omega
  relax := fun _ _ _ _ _ hc => hc
  small := hsmall

/-- the root is valid as soon as it has a completion -/
theorem valid_init {I : Psp.Inst} (hI : InstOk I) {o : Int} (ho : bestRem (tabOf I) (initSt (tabOf I)) = some o) :
    V I 0 (initSt (tabOf I)) := by
  have hok : Ok I (initSt (tabOf I)) := by
    have hpd : ∀ i, i < I.n → pdAt (initSt (tabOf I)) i = prevF (rowOf I i) I.T := by
      intro i hi
      show ((List.range I.n).map (fun i => ((tabOf I).prevD.getD i []).getD I.T (-1))).getD i (-1) = _
      rw [List.getD_eq_getElem?_getD, List.getElem?_map, List.getElem?_range hi]
      simp only [Option.map_some, Option.getD_some]
      rw [tab_prevD I hi]
      simp [List.getD_eq_getElem?_getD]
    refine ⟨by simp [initSt, tabOf], ?_⟩
    intro i hi
    rw [hpd i hi]
    exact prevF_due _ _
  refine ⟨stOk_of hI hok (Nat.le_refl _) (Or.inl rfl) ?_, rfl⟩
  show rem I (initSt (tabOf I)) ≤ (I.T : Int)
  by_cases hT : I.T = 0
  · -- no period: nothing is due
    have ht : (initSt (tabOf I)).time = 0 := hT
    apply Classical.byContradiction
    intro hgt
    have hpos : 0 < rem I (initSt (tabOf I)) := by omega
    -- some item has a pending unit, due in a period `< 0`
    have : ∀ i, i < I.n → contrib (rowOf I i) (pdAt (initSt (tabOf I)) i) = 0 := by
      intro i hi
      have h1 := hok.lt_T hI hi
      unfold contrib
      rw [if_neg (by omega)]
    have h0 : rem I (initSt (tabOf I)) = 0 := by
      unfold rem
      rw [sumTo_congr (g := fun _ => 0) this, sumTo_zero]
    omega
  · obtain ⟨d, hd, _⟩ := bestRem_att hI hok (show (initSt (tabOf I)).time ≠ 0 from hT) ho
    have := (domain_cases hI hok (show (initSt (tabOf I)).time ≠ 0 from hT) hd).1
    have ht : (initSt (tabOf I)).time = I.T := rfl
    rw [ht] at this
    omega

/-- **a relaxed compilation of the psp model from the root reports at least the value-to-go of the root** (layer by layer, no
    cache, no dominance checker, width ≥ 1, any incumbent `lb` that the optimum beats), for every instance of the format whose
    changeover costs satisfy the triangle inequality, with costs small enough for `isize` and a horizon `≤ 2^63`.  The value
    reported is minus a cost: the cost `-bv` it stands for is at most the least cost `-o`. -/
theorem psp_relaxed_ub_bestRem {K : Type} [DecidableEq K] {I : Psp.Inst} (hI : InstOk I) (htri : triangleB (tabOf I) = true)
    (cfg : Cfg St K) (cache : Cache St) (store : DomStore St K) (polls : Nat)
    (hP : cfg.P = problem (tabOf I)) (hR : cfg.R = relaxation (tabOf I))
    (hrs : cfg.root.state = initSt (tabOf I)) (hrv : cfg.root.value = 0) (hrd : cfg.root.depth = 0)
    (hrel : cfg.ctype = .relaxed) (hcache : cfg.useCache = false) (hdom : cfg.dom = none) (hW : 1 ≤ cfg.width)
    (qmax hmax : Int) (hq : ∀ r ∈ I.q, ∀ v ∈ r, v ≤ qmax) (hh : ∀ v ∈ I.h, v ≤ hmax) (hq0 : 0 ≤ qmax) (hh0 : 0 ≤ hmax)
    (hsmall : ((I.T : Int) + 2) * (qmax + hmax * (I.T : Int)) ≤ 4611686018427387904)
    (hT : (I.T : Int) ≤ isizeMax + 1)
    (o : Int) (ho : bestRem (tabOf I) (initSt (tabOf I)) = some o) (hlb : InI cfg.lb) (hgt : o > cfg.lb) :
    (compile cfg cache store polls none).1 = .ok →
    ∃ bv, (compile cfg cache store polls none).2.1.bestValue = some bv ∧ o ≤ bv := by
  have hVi := valid_init hI ho
  have hO : o ≤ iMax := by
    have := bestRem_nonpos hI hVi.1 ho
    simp only [iMax]
    omega
  refine C06.relaxed_ub_rel_dom cfg (Hpot I) (V I) (qmax + hmax * (I.T : Int)) cache store polls hrel hcache hdom hW ?_ ?_ ?_
    hlb o ?_ hgt (Or.inl hO)
  · rw [hP, hR]; exact wfRel hI htri hT
  · rw [hrd, hrs]; exact hVi
  · rw [hP, hR, hrv]; exact noClampDom hI qmax hmax hq hh hq0 hh0 hsmall
  · unfold optOf
    rw [hrd, hrs, hrv]
    show (bestRem (tabOf I) (initSt (tabOf I))).addI 0 = some o
    rw [ho]
    simp [EInt.addI]

/-! ## non-vacuity: a concrete instance (3 items, 5 periods, metric changeover costs; width 1: every layer is merged) -/
namespace Demo

def inst : Psp.Inst :=
  { T := 5, n := 3, q := [[0, 2, 3], [2, 0, 2], [3, 2, 0]], h := [1, 2, 1],
    d := [[0, 0, 1, 0, 1], [0, 1, 0, 0, 0], [0, 0, 0, 1, 0]] }

theorem instOk : InstOk inst := ⟨by decide, by decide, by decide⟩

def cfg : Cfg St Unit :=
  { P := problem (tabOf inst), R := relaxation (tabOf inst), rank := ⟨rankCmp⟩, dom := none,
    useCache := false, kind := .lel, ctype := .relaxed, width := 1, root := ⟨initSt (tabOf inst), 0, [], iMax, 0⟩, lb := -100 }

theorem root_val : bestRem (tabOf inst) (initSt (tabOf inst)) = some (-7) := by decide +kernel

example : ∃ bv, (compile cfg (Cache.init 5) (DomStore.init 5) 0 none).2.1.bestValue = some bv ∧ -7 ≤ bv :=
  psp_relaxed_ub_bestRem instOk (by decide) cfg (Cache.init 5) (DomStore.init 5) 0 rfl rfl rfl rfl rfl rfl rfl rfl (by decide)
    3 2 (by decide) (by decide) (by decide) (by decide) (by decide) (by decide) (-7) root_val (by decide) (by decide)
    (by decide +kernel)

end Demo

/-! ## `DpExactStmt`: still stated only.  Kernel-checked on two instances (pointwise evidence, NOT the general theorem): the
    instance above and the witness of finding D15 (whose costs violate the triangle inequality: the exact DP does not need
    it, only the merge operator does). -/
theorem dpExact_demo : DpExactStmt Demo.inst := by intro _; decide +kernel
theorem dpExact_witI : DpExactStmt witI := by intro _; decide +kernel

#print axioms wfRel
#print axioms noClampDom
#print axioms psp_relaxed_ub_bestRem

end Ddo.Examples.PspModel
