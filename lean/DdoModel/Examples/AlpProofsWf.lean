import DdoModel.Examples.AlpProofsMain
import DdoModel.WfRel
import DdoModel.Props.C06
/-! alp example: the `WfRel` instance (`wfRel`: potential = `best`, the best completion under the model's own domains
    and costs; layer validity = `StW`, the shape of the states, independent of the depth), and what stands between it and
    an unconditional `alp_relaxed_ub`:

* `noClampDom_false` (**finding about the generic hypothesis, not about the example**): `NoClampDom.cost` bounds the cost
  of the decisions of the domain of EVERY state, also states no run can build; on an ill-shaped state (more `rem` entries
  / runways than the instance has classes / runways) a decision of the domain decodes to another (class, runway) pair than
  the one tested against the latest time, and its cost is unbounded.  So `NoClampDom (problem I) …` is false whatever the
  bound; the generic theorem needs the clause relative to the validity predicate `V` (as `WfRel` is);
* `alp_relaxed_ub_partial`: the corollary of `C06.relaxed_ub_rel_dom`, CONDITIONAL on that hypothesis (plumbing only). -/
namespace Ddo.Examples.AlpModel
open Ddo Ddo.Examples Ddo.Examples.Util

variable (I : Inst)

def H (_ : Nat) (s : St) : EInt := best I s
def V (_ : Nat) (s : St) : Prop := StW I s

theorem trans_neg_one (s : St) : trans? I s (-1) = some s := by
  unfold trans?; simp

theorem cost_neg_one (s : St) : cost? I s (-1) = some 0 := by
  unfold cost?; simp

theorem emax_cases (a b : EInt) : EInt.max a b = a ∨ EInt.max a b = b := by
  cases a with
  | none => exact Or.inr rfl
  | some x =>
    cases b with
    | none => exact Or.inl rfl
    | some y =>
      by_cases h : x ≤ y
      · right; show some (max x y) = some y; rw [Int.max_eq_right h]
      · left; show some (max x y) = some x; rw [Int.max_eq_left (by omega)]

theorem foldl_emax_attained {α : Type} (g : α → EInt) (l : List α) (acc : EInt) (h : Int)
    (hh : l.foldl (fun acc v => EInt.max acc (g v)) acc = some h) : acc = some h ∨ ∃ v ∈ l, g v = some h := by
  induction l generalizing acc with
  | nil => exact Or.inl hh
  | cons x r ih =>
    simp only [List.foldl_cons] at hh
    rcases ih _ hh with e | ⟨v, hv, e⟩
    · rcases emax_cases acc (g x) with e' | e'
      · exact Or.inl (by rw [← e', e])
      · exact Or.inr ⟨x, List.mem_cons_self .., by rw [← e', e]⟩
    · exact Or.inr ⟨v, List.mem_cons_of_mem _ hv, e⟩

/-- what a decision of the domain does to a well-shaped state with aircraft left -/
theorem domain_step {s : St} (hs : s.1.length = I.nbClasses) (hr : s.2.length = I.nbRunways) (htot : 0 < totRem s)
    {v : Int} (hv : v ∈ domain I s) :
    (trans? I s v = none) ∨ ∃ c r a k', s.1[c]? = some (k' + 1) ∧ (I.nextTab c)[k' + 1]? = some a ∧ r < I.nbRunways ∧
      arrP I (rwAt s r) a ≤ I.lat a ∧ trans? I s v = some (land I s c r a k') ∧
      cost? I s v = some (-(arrP I (rwAt s r) a - I.tgt a)) := by
  obtain ⟨c, k, r, hk, hpos, hr', e, hl⟩ := mem_domain I htot hv
  have hc : c < I.nbClasses := by rw [← hs]; exact lt_of_getElem?_some hk
  subst e
  cases ha : (I.nextTab c)[k]? with
  | none => exact Or.inl (trans_toDecision_none I hc hk ha)
  | some a =>
    right
    obtain ⟨k', rfl⟩ : ∃ k', k = k' + 1 := ⟨k - 1, by omega⟩
    rw [acOf_some I ha] at hl
    obtain ⟨h1, h2⟩ := trans_toDecision I hc hk ha (r := r) (by rw [hr]; exact hr')
    exact ⟨c, r, a, k', hk, ha, hr', hl, h1, h2⟩

theorem stW_trans (hD : InDom I) {s : St} (hW : StW I s) {d : Int} (hd : d ∈ domain I s) (x : Nat) :
    StW I ((problem I).trans s ⟨x, d⟩) := by
  show StW I ((trans? I s d).getD s)
  by_cases htot : totRem s = 0
  · rw [domain_zero I htot] at hd
    rw [List.mem_singleton.mp hd, trans_neg_one]
    exact hW
  · rcases domain_step I hW.1 hW.2.1 (by omega) hd with e | ⟨c, r, a, k', hk, ha, _, _, e, _⟩
    · rw [e]; exact hW
    · rw [e]; exact stW_land I hD hW hk ha

/-- some decision of the domain keeps the potential -/
theorem att (s : St) (hW : StW I s) (x : Nat) {h : Int} (hh : best I s = some h) :
    ∃ d ∈ (problem I).domain x s, ∃ h', best I ((problem I).trans s ⟨x, d⟩) = some h' ∧
      h ≤ (problem I).cost s ((problem I).trans s ⟨x, d⟩) ⟨x, d⟩ + h' := by
  by_cases htot : totRem s = 0
  · refine ⟨-1, by show (-1 : Int) ∈ domain I s; rw [domain_zero I htot]; exact List.mem_cons_self .., h, ?_, ?_⟩
    · show best I ((trans? I s (-1)).getD s) = some h
      rw [trans_neg_one]; exact hh
    · show h ≤ (cost? I s (-1)).getD 0 + h
      rw [cost_neg_one]; simp
  · obtain ⟨f, hf⟩ : ∃ f, totRem s = f + 1 := ⟨totRem s - 1, by omega⟩
    unfold best at hh
    rw [hf, bestRem_succ, domain_ne I (by omega)] at hh
    simp only [Bool.false_eq_true, if_false] at hh
    rcases foldl_emax_attained _ _ _ _ hh with e | ⟨v, hv, e⟩
    · cases e
    · rcases domain_step I hW.1 hW.2.1 (by omega) hv with e' | ⟨c, r, a, k', hk, _, _, _, e1, e2⟩
      · unfold moveVal at e; rw [e'] at e; cases e
      · unfold moveVal at e
        rw [e1, e2] at e
        replace e : (bestRem I f (land I s c r a k')).addI (-(arrP I (rwAt s r) a - I.tgt a)) = some h := e
        have htl := totRem_land I s r a hk
        cases hb : bestRem I f (land I s c r a k') with
        | none => rw [hb] at e; cases e
        | some h' =>
          rw [hb] at e
          have e' : h' + -(arrP I (rwAt s r) a - I.tgt a) = h := by simpa [EInt.addI] using e
          refine ⟨v, hv, h', ?_, ?_⟩
          · show best I ((trans? I s v).getD s) = some h'
            rw [e1]
            show bestRem I (totRem (land I s c r a k')) (land I s c r a k') = some h'
            rw [show totRem (land I s c r a k') = f by omega]
            exact hb
          · show h ≤ (cost? I s v).getD 0 + h'
            rw [e2]
            simp only [Option.getD_some]
            omega

theorem stW_init : StW I (initState I) := by
  refine ⟨by simp [initState], by simp [initState], ?_⟩
  intro p hp
  simp only [initState] at hp
  rw [(List.mem_replicate.mp hp).2]
  exact ⟨by simp, by simp, by simp only; omega⟩

/-- **the shipped alp model is well formed** (relative to the shape of its states), on every instance of the input domain:
    potential = best completion under the model's own domains and costs -/
theorem wfRel (hdom : I.inDomain = true) : WfRel (problem I) (relaxation I) (H I) (V I) where
  vstep := fun _ _ x _ _ _ _ hV hd => stW_trans I (inDom_of I hdom) hV hd x
  vstepMerge := fun _ _ x X _ _ _ _ hX hd =>
    stW_trans I (inDom_of I hdom) (stW_merge I (fun u hu => hX u hu)) hd x
  vmerge := fun _ X _ hX => stW_merge I (fun u hu => hX u hu)
  att := fun _ _ x s _ _ _ hV hh => att I s hV x hh
  attMerge := fun _ _ x X _ _ _ _ hX hh => att I _ (stW_merge I (fun u hu => hX u hu)) x hh
  term := by
    intro _ _ s h _ _ _ hh
    have := rub_admissible I (totRem s) s
    unfold H best at hh
    rw [hh] at this
    exact (EInt.some_le_some _ _).mp this
  rub := by
    intro _ s h _ hh
    have := rub_admissible I (totRem s) s
    unfold H best at hh
    rw [hh] at this
    exact (EInt.some_le_some _ _).mp this
  merge := by
    intro _ X u _ _ c h hu hX hh
    have hm := best_mono I (inDom_of I hdom) (stW_merge I (fun w hw => hX w hw)) (hX u hu)
      (relaxes_merge I (fun w hw => hX w hw) hu)
    unfold H at hh
    rw [hh] at hm
    cases hb : best I (mergeStates I X) with
    | none => rw [hb] at hm; exact absurd hm (by simp)
    | some h' =>
      rw [hb] at hm
      have := (EInt.some_le_some _ _).mp hm
      exact ⟨h', hb, by show c + h ≤ c + h'; omega⟩

/-- **finding** (about the hypothesis of the generic theorems): `NoClampDom.cost` quantifies over every state; on the
    ill-shaped state `([1, 1], [(0, -1), (2^62, 0)])` of the one-aircraft instance `cexInst` (one class, one runway) the
    decision `1` of the domain (class 1 on runway 0, accepted) decodes to class 0 on runway 1 and costs `-(2^62 + 5)` -/
theorem noClampDom_false (rv B : Int) : ¬ NoClampDom (problem cexInst) (relaxation cexInst) rv B := by
  intro h
  have hc := (h.cost 0 ([1, 1], [(0, -1), (4611686018427387904, 0)]) 1 (by decide)).1
  have hs := h.small
  have e1 : (problem cexInst).cost ([1, 1], [(0, -1), (4611686018427387904, 0)])
      ((problem cexInst).trans ([1, 1], [(0, -1), (4611686018427387904, 0)]) ⟨0, 1⟩) ⟨0, 1⟩ = -4611686018427387909 := by
    decide
  have e2 : ((problem cexInst).nbVars : Int) = 1 := rfl
  rw [e1] at hc
  rw [e2] at hs
  omega

/-- the corollary as far as the generic theorem allows: **conditional on `NoClampDom`** (see `noClampDom_false`).  A relaxed
    compilation of the model from the root (layer by layer, no cache, no dominance checker, width ≥ 1) reports at least
    the value `o` of the best completion of the root. -/
theorem alp_relaxed_ub_partial {K : Type} [DecidableEq K] (cfg : Cfg St K) (B : Int)
    (cache : Cache St) (store : DomStore St K) (polls : Nat) (hdomI : I.inDomain = true)
    (hP : cfg.P = problem I) (hR : cfg.R = relaxation I)
    (hrs : cfg.root.state = initState I) (hrv : cfg.root.value = 0) (hrd : cfg.root.depth = 0)
    (hrel : cfg.ctype = .relaxed) (hcache : cfg.useCache = false) (hdom : cfg.dom = none) (hW : 1 ≤ cfg.width)
    (hB : NoClampDom (problem I) (relaxation I) 0 B)
    (hlb : InI cfg.lb) (o : Int) (ho : best I (initState I) = some o) (hgt : o > cfg.lb) :
    (compile cfg cache store polls none).1 = .ok →
    ∃ bv, (compile cfg cache store polls none).2.1.bestValue = some bv ∧ o ≤ bv := by
  have hO : o ≤ iMax := by
    have := rub_admissible I (totRem (initState I)) (initState I)
    unfold best at ho
    rw [ho] at this
    have := (EInt.some_le_some _ _).mp this
    unfold iMax; omega
  refine C06.relaxed_ub_rel_dom cfg (H I) (V I) B cache store polls hrel hcache hdom hW ?_ ?_ ?_ hlb o ?_ hgt (Or.inl hO)
  · rw [hP, hR]; exact wfRel I hdomI
  · rw [hrd, hrs]; exact stW_init I
  · rw [hP, hR, hrv]; exact hB
  · unfold optOf
    rw [hrd, hrs, hrv]
    show (best I (initState I)).addI 0 = some o
    rw [ho]
    simp [EInt.addI]

#print axioms wfRel
#print axioms noClampDom_false
#print axioms alp_relaxed_ub_partial

end Ddo.Examples.AlpModel
