import DdoModel.Examples.AlpProofsDom
/-! alp example, proofs (3): the simulation.  A state `m` RELAXES a state `t` when it has at most as many aircraft left in
    every class and its runways can be matched one to one with those of `t` so that every aircraft would land no later on
    the runway of `m` than on its match (`rwDom`).  Then the best completion of `m` is worth at least the best completion
    of `t` (`best_mono`): `m` answers a landing of `t` by the same landing on the matched runway when it has the same
    aircraft of the class left, and by nothing otherwise (the aircraft `t` lands is then one `m` has not: by the triangle
    inequality the runway of `t` only gets later).  `MergeOk` and the admissibility of the dominance rule are instances. -/
namespace Ddo.Examples.AlpModel
open Ddo Ddo.Examples Ddo.Examples.Util

variable (I : Inst)

/-- every aircraft lands no later after `p` than after `q` -/
def rwDom (p q : Rw) : Prop := ∀ a, a < I.nbAircraft → arrP I p a ≤ arrP I q a

def Relaxes (m t : St) : Prop :=
  (∀ c, c < I.nbClasses → (m.1[c]?).getD 0 ≤ (t.1[c]?).getD 0) ∧ Matching (rwDom I) m.2 t.2

/-- same class, no later -/
theorem rwDom_same {x y c : Int} (hx : 0 ≤ x) (h : x ≤ y) : rwDom I (x, c) (y, c) := by
  intro a _
  by_cases hc : c = -1
  · subst hc
    unfold arrP
    simp only [and_true, if_true]
    by_cases h0 : x = 0
    · simp only [h0, if_true]
      split
      · exact Int.le_refl _
      · exact Int.le_max_left _ _
    · have h1 : y ≠ 0 := by omega
      simp only [h0, h1, if_false]
      omega
  · exact arrP_mono I hc h a

/-- unknown class, no later: `min_separation_to` is a lower bound of the column -/
theorem rwDom_unknown {x : Int} {q : Rw} (hx : 0 ≤ x) (h : x ≤ q.1) (hq : RwOk I q) : rwDom I (x, -1) q := by
  obtain ⟨q1, q2⟩ := q
  obtain ⟨_, hq2, hq3⟩ := hq
  simp only at h hq2 hq3
  by_cases hc : q2 = -1
  · subst hc
    exact rwDom_same I hx h
  · intro a _
    have hlt : q2.toNat < I.nbClasses := by omega
    have h1 := minSepTo_le I (I.cls a) hlt
    unfold arrP
    simp only [and_true, if_true, hc, and_false, if_false]
    by_cases h0 : x = 0
    · simp only [h0, if_true]
      exact Int.le_max_left _ _
    · simp only [h0, if_false]
      omega

theorem addI_mono {a b : EInt} {x y : Int} (h : a ≤ b) (hxy : x ≤ y) : a.addI x ≤ b.addI y := by
  cases a <;> cases b <;> simp_all [EInt.addI] <;> omega

theorem addI_le_self {a : EInt} {x : Int} (hx : x ≤ 0) : a.addI x ≤ a := by
  cases a <;> simp_all [EInt.addI] <;> omega

theorem rwDom_same_known {x y : Int} {c : Nat} (h : x ≤ y) : rwDom I (x, (c : Int)) (y, (c : Int)) :=
  fun a _ => arrP_mono I (by omega) h a

theorem totRem_zero_of_relaxes {m t : St} (hWm : StW I m) (hrel : Relaxes I m t) (ht0 : totRem t = 0) : totRem m = 0 := by
  rw [totRem_zero_iff]
  intro k hk
  obtain ⟨c, hc, e⟩ := List.mem_iff_getElem.mp hk
  have h1 := hrel.1 c (by rw [← hWm.1]; exact hc)
  rw [List.getElem?_eq_getElem hc, e] at h1
  rw [totRem_zero_iff] at ht0
  cases h2 : t.1[c]? with
  | none => rw [h2] at h1; simpa using h1
  | some k2 =>
    rw [h2] at h1
    have := ht0 k2 (List.mem_of_getElem? h2)
    simp only [Option.getD_some] at h1
    omega

/-- the simulation -/
theorem sim (hD : InDom I) : ∀ (ft : Nat) (t : St), StW I t → totRem t ≤ ft → ∀ (fm : Nat) (m : St), StW I m →
    totRem m ≤ fm → Relaxes I m t → bestRem I ft t ≤ bestRem I fm m := by
  intro ft
  induction ft with
  | zero =>
    intro t _ hft fm m hWm _ hrel
    have ht0 : totRem t = 0 := by omega
    have hm0 : totRem m = 0 := totRem_zero_of_relaxes I hWm hrel ht0
    rw [bestRem_zero_tot I ht0, bestRem_zero_tot I hm0]
    exact EInt.le_refl _
  | succ ft ih =>
    intro t hWt hft fm m hWm hfm hrel
    by_cases ht0 : totRem t = 0
    · have hm0 : totRem m = 0 := totRem_zero_of_relaxes I hWm hrel ht0
      rw [bestRem_zero_tot I ht0, bestRem_zero_tot I hm0]
      exact EInt.le_refl _
    · apply bestRem_le_of_moves I hWt.1 hWt.2.1 (by omega)
      intro c i a k' hk ha hi hl
      have hc : c < I.nbClasses := by rw [← hWt.1]; exact lt_of_getElem?_some hk
      obtain ⟨han, hcls⟩ := nextTab_succ I ha
      have hit : i < t.2.length := by rw [hWt.2.1]; exact hi
      obtain ⟨j, hj, hdom, hset⟩ := hrel.2.set i hit
      have hjr : j < I.nbRunways := by rw [← hWm.2.1]; exact hj
      have eti : rwAt t i = t.2[i] := by unfold rwAt; rw [List.getElem?_eq_getElem hit]; rfl
      have emj : rwAt m j = m.2[j] := by unfold rwAt; rw [List.getElem?_eq_getElem hj]; rfl
      rw [← eti, ← emj] at hdom
      have harr : arrP I (rwAt m j) a ≤ arrP I (rwAt t i) a := hdom a han
      have hcm : c < m.1.length := by rw [hWm.1]; exact hc
      have hrc := hrel.1 c hc
      rw [hk, List.getElem?_eq_getElem hcm] at hrc
      simp only [Option.getD_some] at hrc
      have htl := totRem_land I t i a hk
      by_cases hsame : m.1[c] = k' + 1
      · -- `m` lands the same aircraft on the matched runway
        have hkm : m.1[c]? = some (k' + 1) := by rw [List.getElem?_eq_getElem hcm, hsame]
        have hmtot := totRem_pos_of hkm (Nat.succ_pos _)
        obtain ⟨fm', rfl⟩ : ∃ fm', fm = fm' + 1 := ⟨fm - 1, by omega⟩
        have hml := totRem_land I m j a hkm
        have h1 := bestRem_ge_move I hD hWm hkm ha hjr (by omega) fm' hfm
        have hrel' : Relaxes I (land I m c j a k') (land I t c i a k') := by
          refine ⟨?_, ?_⟩
          · intro c' hc'
            show ((m.1.set c k')[c']?).getD 0 ≤ ((t.1.set c k')[c']?).getD 0
            by_cases e : c = c'
            · subst e
              rw [List.getElem?_set_self hcm, List.getElem?_set_self (lt_of_getElem?_some hk)]
              exact Nat.le_refl _
            · rw [List.getElem?_set_ne e, List.getElem?_set_ne e]
              exact hrel.1 c' hc'
          · have h2 := hset (arrP I (rwAt m j) a, (c : Int)) (arrP I (rwAt t i) a, (c : Int))
              (rwDom_same_known I harr)
            exact h2.perm (sortRw_perm _).symm (sortRw_perm _).symm
        have h3 := ih _ (stW_land I hD hWt hk ha) (by omega) fm' _ (stW_land I hD hWm hkm ha) (by omega) hrel'
        exact EInt.le_trans (addI_mono h3 (by omega)) h1
      · -- `m` has not this aircraft: it does nothing
        have hrel' : Relaxes I m (land I t c i a k') := by
          refine ⟨?_, ?_⟩
          · intro c' hc'
            show (m.1[c']?).getD 0 ≤ ((t.1.set c k')[c']?).getD 0
            by_cases e : c = c'
            · subst e
              rw [List.getElem?_set_self (lt_of_getElem?_some hk), List.getElem?_eq_getElem hcm]
              simp only [Option.getD_some]
              omega
            · rw [List.getElem?_set_ne e]
              exact hrel.1 c' hc'
          · have hrw : RwOk I (rwAt m j) := hWm.2.2 _ (rwAt_mem hj)
            have h2 := hset m.2[j] (arrP I (rwAt t i) a, (c : Int)) (by
              rw [← emj]
              intro b hb
              have s1 := arrP_skip I hD hrw han hb
              rw [hcls] at s1
              have s2 := arrP_mono I (c := (c : Int)) (by omega) harr b
              omega)
            rw [List.set_getElem_self] at h2
            exact h2.perm (List.Perm.refl _) (sortRw_perm _).symm
        have h3 := ih _ (stW_land I hD hWt hk ha) (by omega) fm m hWm hfm hrel'
        have hcost : -(arrP I (rwAt t i) a - I.tgt a) ≤ 0 := by
          have := tgt_le_arrP I (rwAt t i) a
          omega
        exact EInt.le_trans (addI_le_self hcost) h3

end Ddo.Examples.AlpModel
