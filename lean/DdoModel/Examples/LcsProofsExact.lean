import DdoModel.Examples.LcsProofsRub
import DdoModel.Examples.LcsProofsSpec
/-! Exactness of the DP model of the shipped lcs example against the specification `Lcs.lean` (`dpExact`). -/
namespace Ddo.Examples.LcsModel
open Ddo Ddo.Examples Ddo.Examples.Util

/-- the characters (ranks) a list of decisions takes, in order -/
def valsOf (ds : List (Nat × Int)) : List Nat := ds.filterMap fun (_, v) => if v < 0 then none else some v.toNat

/-- the characters `pre` taken so far and the state `s` reached: a string that begins with `pre` is a common subsequence of
    the strings iff what follows `pre` is a common subsequence of the suffixes `s` points at -/
def Inv (ws : List (List Nat)) (s : St) (pre : List Nat) : Prop :=
  ∀ t : List Nat, (∀ i, i < ws.length → (pre ++ t).Sublist (str ws i)) ↔ CS ws s t

section
variable {J : Inst} {ws : List (List Nat)} (hB : Built J ws) (hsm : ∀ i, i < ws.length → ∀ x ∈ str ws i, x < J.nChars)
include hB hsm

omit hB hsm in
theorem cs_cons_iff {s : St} {c : Nat} {t : List Nat} (hc : common ws s c = true) :
    CS ws s (c :: t) ↔ CS ws (step ws s c) t := by
  constructor
  · exact cs_step
  · intro h i hi
    refine cons_sublist_of_first (common_iff.mp hc i hi) ?_
    rw [← suf_step hi]
    exact h i hi

omit hsm in
theorem cs_len_iff {t : List Nat} : CS ws J.len t ↔ t = [] := by
  have h0 : 0 < ws.length := List.length_pos_iff.mpr hB.ne
  constructor
  · intro h
    have := h 0 h0
    have he : suf ws J.len 0 = [] := by simp [suf, pos, str, hB.len, h0]
    rw [he] at this
    exact List.sublist_nil.mp this
  · rintro rfl i _; exact List.nil_sublist _

omit hB in
theorem cs_nil_of_no_chars {s : St} (hemp : (chars J ws s).isEmpty = true) {t : List Nat} (h : CS ws s t) (h0 : 0 < ws.length) :
    t = [] := by
  cases t with
  | nil => rfl
  | cons x r =>
    have hx : x ∈ str ws 0 := (List.drop_sublist _ _).subset ((h 0 h0).subset List.mem_cons_self)
    have : (x : Int) ∈ chars J ws s := mem_chars.mpr ⟨x, hsm 0 h0 x hx, common_of_cs h, rfl⟩
    rw [List.isEmpty_iff.mp hemp] at this
    cases this

theorem replay_inv : ∀ (ds : List (Nat × Int)) (s : St) (v : Int) (last : Option Nat) (s' : St) (v' : Int) (pre : List Nat),
    Valid ws s → Inv ws s pre → v = (pre.length : Int) → replayFrom J s v last ds = some (s', v') →
    Valid ws s' ∧ Inv ws s' (pre ++ valsOf ds) ∧ v' = ((pre ++ valsOf ds).length : Int) ∧ ∀ x ∈ valsOf ds, x ∈ str ws 0 := by
  have h0 : 0 < ws.length := List.length_pos_iff.mpr hB.ne
  intro ds
  induction ds with
  | nil =>
    intro s v last s' v' pre hV hI hv h
    simp only [replayFrom, Option.some.injEq, Prod.mk.injEq] at h
    obtain ⟨rfl, rfl⟩ := h
    simp only [valsOf, List.filterMap_nil, List.append_nil]
    exact ⟨hV, hI, hv, fun x hx => by cases hx⟩
  | cons d r ih =>
    intro s v last s' v' pre hV hI hv h
    obtain ⟨x, val⟩ := d
    simp only [replayFrom] at h
    have key : val ∈ domain J s ∧ replayFrom J (trans J s ⟨x, val⟩) (v + cost val) (some x) r = some (s', v') := by
      cases last <;> dsimp only at h <;> split at h
      · next hc => simp only [Bool.and_eq_true, List.contains_iff_mem] at hc; exact ⟨hc.2, h⟩
      · cases h
      · next hc => simp only [Bool.and_eq_true, List.contains_iff_mem] at hc; exact ⟨hc.2, h⟩
      · cases h
    clear h
    obtain ⟨hmem, h⟩ := key
    · rw [domain_eq hB hV] at hmem
      by_cases hemp : (chars J ws s).isEmpty = true
      · rw [if_pos hemp] at hmem
        have hval : val = -1 := by simpa using hmem
        subst hval
        rw [trans_end] at h
        have hI' : Inv ws J.len pre := by
          intro t
          rw [hI t, cs_len_iff hB]
          constructor
          · exact fun h => cs_nil_of_no_chars hsm hemp h h0
          · rintro rfl i _; exact List.nil_sublist _
        have := ih J.len _ (some x) s' v' pre (valid_len hB) hI' (by simp [cost]; exact hv) h
        simpa [valsOf] using this
      · rw [if_neg hemp] at hmem
        obtain ⟨c, hc, hcm, rfl⟩ := mem_chars.mp hmem
        rw [trans_char hB hV hc] at h
        have hI' : Inv ws (step ws s c) (pre ++ [c]) := by
          intro t
          rw [← cs_cons_iff hcm, ← hI (c :: t)]
          simp
        have hne : ¬ ((c : Int) = -1) := by omega
        have := ih (step ws s c) _ (some x) s' v' (pre ++ [c]) (valid_step hV hcm) hI'
          (by simp [cost, hne]; omega) h
        have hv : valsOf ((x, (c : Int)) :: r) = c :: valsOf r := by
          have : ¬ ((c : Int) < 0) := by omega
          simp [valsOf, this]
        rw [hv]
        simp only [List.append_assoc, List.singleton_append] at this
        refine ⟨this.1, this.2.1, this.2.2.1, ?_⟩
        intro y hy
        rcases List.mem_cons.mp hy with rfl | hy
        · exact (List.drop_sublist _ _).subset (common_iff.mp hcm 0 h0)
        · exact this.2.2.2 y hy

omit hsm in
theorem inv_init : Inv ws (initSt J) [] := by
  intro t
  have : ∀ i, i < ws.length → suf ws (initSt J) i = str ws i := by
    intro i hi
    simp [suf, pos, initSt, hB.nStrings, hi]
  simp only [List.nil_append, CS]
  constructor
  · intro h i hi; rw [this i hi]; exact h i hi
  · intro h i hi; rw [← this i hi]; exact h i hi

/-- **exactness on the mapped strings**: along any path of the model from the root, value + value-to-go is the length `M` of a
    longest common subsequence of the strings among those that begin with the characters taken -/
theorem replay_exact {ds : List (Nat × Int)} {s : St} {v : Int} (h : replay J ds = some (s, v)) :
    (∀ x ∈ valsOf ds, x ∈ str ws 0) ∧
    ∃ M : Nat, (bestRem J s).addI v = some (M : Int) ∧
      (∃ c : List Nat, (∀ w ∈ ws, c.Sublist w) ∧ valsOf ds <+: c ∧ c.length = M) ∧
      (∀ c : List Nat, (∀ w ∈ ws, c.Sublist w) → valsOf ds <+: c → c.length ≤ M) := by
  have h0 : 0 < ws.length := List.length_pos_iff.mpr hB.ne
  obtain ⟨hV, hI, hv, hx⟩ := replay_inv hB hsm ds (initSt J) 0 none s v [] (valid_init hB) (inv_init hB) rfl h
  simp only [List.nil_append] at hI hv
  obtain ⟨c, hc, h1, h2, h3⟩ := bestRem_spec hB hV
  have hiff : ∀ c : List Nat, (∀ w ∈ ws, c.Sublist w) ↔ ∀ i, i < ws.length → c.Sublist (str ws i) := by
    intro c
    constructor
    · intro h i hi
      have : str ws i = ws[i] := by simp [str, hi]
      rw [this]; exact h _ (List.getElem_mem hi)
    · intro h w hw
      obtain ⟨i, hi, rfl⟩ := List.getElem_of_mem hw
      have : str ws i = ws[i] := by simp [str, hi]
      rw [← this]; exact h i hi
  refine ⟨hx, (valsOf ds).length + c.length, ?_, ⟨valsOf ds ++ c, ?_, List.prefix_append _ _, by simp⟩, ?_⟩
  · rw [hc, hv]; simp [EInt.addI]; omega
  · exact (hiff _).mpr ((hI c).mpr h1)
  · intro c' hc' hpre
    obtain ⟨t, rfl⟩ := hpre
    have hcs : CS ws s t := (hI t).mp ((hiff _).mp hc')
    have ht : ∀ y ∈ t, y < J.nChars := by
      intro y hy
      exact hsm 0 h0 y ((List.drop_sublist _ _).subset ((hcs 0 h0).subset hy))
    have := h3 t ht hcs
    simp only [List.length_append]
    omega

end

theorem prefixOf_spec {J : Inst} {lines : List (List Int)} (hchars : J.chars = alphabetOf lines) :
    ∀ ds : List (Nat × Int), (∀ x ∈ valsOf ds, x < (alphabetOf lines).length) →
      (prefixOf J ds).map (rankOf (alphabetOf lines)) = valsOf ds ∧ ∀ y ∈ prefixOf J ds, y ∈ alphabetOf lines := by
  intro ds
  induction ds with
  | nil => intro _; exact ⟨rfl, fun y hy => by cases hy⟩
  | cons d r ih =>
    obtain ⟨x, v⟩ := d
    intro h
    by_cases hv : v < 0
    · have e1 : valsOf ((x, v) :: r) = valsOf r := by simp [valsOf, hv]
      have e2 : prefixOf J ((x, v) :: r) = prefixOf J r := by simp [prefixOf, hv]
      rw [e1] at h
      rw [e1, e2]
      exact ih h
    · have e1 : valsOf ((x, v) :: r) = v.toNat :: valsOf r := by simp [valsOf, hv]
      rw [e1] at h
      have hlt : v.toNat < (alphabetOf lines).length := h _ List.mem_cons_self
      have e2 : prefixOf J ((x, v) :: r) = (alphabetOf lines)[v.toNat] :: prefixOf J r := by
        simp [prefixOf, hv, hchars, hlt]
      obtain ⟨h1, h2⟩ := ih (fun y hy => h y (List.mem_cons_of_mem _ hy))
      rw [e1, e2, List.map_cons, rankOf_getElem lines _ hlt, h1]
      refine ⟨rfl, ?_⟩
      intro y hy
      rcases List.mem_cons.mp hy with rfl | hy
      · exact List.getElem_mem _
      · exact h2 y hy

/-- **`DpExactStmt` holds** -/
theorem dpExact : DpExactStmt := by
  intro k declared lines J hJ ds s v h
  have hB := built_of_instOk hJ
  obtain ⟨hne, hchars, hnC, hal, hmemws⟩ := instOk_fields hJ
  have hsm' : ∀ i, i < (J.strings.take J.nStrings).length → ∀ x ∈ str (J.strings.take J.nStrings) i,
      x < (alphabetOf lines).length := by
    intro i hi x hx
    have e : str (J.strings.take J.nStrings) i = (J.strings.take J.nStrings)[i] := by
      unfold str; rw [List.getElem?_eq_getElem hi]; rfl
    rw [e] at hx
    obtain ⟨l, hl, hl'⟩ := List.mem_map.mp ((hmemws _).mp (List.getElem_mem hi))
    rw [← hl'] at hx
    obtain ⟨y, hy, rfl⟩ := List.mem_map.mp hx
    exact rankOf_lt _ y (mem_alphabetOf lines l hl y hy)
  have h0 : 0 < (J.strings.take J.nStrings).length := List.length_pos_iff.mpr hB.ne
  obtain ⟨hx, M, hval, hatt, hmax⟩ := replay_exact hB (fun i hi x hx => Nat.lt_of_lt_of_le (hsm' i hi x hx) hal) h
  obtain ⟨hp1, hp2⟩ := prefixOf_spec hchars ds (fun x hx' => hsm' 0 h0 x (hx x hx'))
  rw [hval]
  exact (spec_transfer hJ (prefixOf J ds) hp2 M (by rw [hp1]; exact hatt) (by rw [hp1]; exact hmax)).symm

#print axioms dpExact

end Ddo.Examples.LcsModel
