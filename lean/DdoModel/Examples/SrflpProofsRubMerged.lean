import DdoModel.Examples.SrflpProofsRubMergedPath
import DdoModel.Examples.SrflpProofsRubMergedCut
import DdoModel.Examples.SrflpProofsRubMergedEdge
import DdoModel.Examples.SrflpProofsRubMergedLoops
import DdoModel.Examples.SrflpProofsMain
/-! The srflp rough bound (repaired: exactly compared ratios) is admissible on ALL good states — merged states (states with a
    `maybe_place`) and their descendants included.  `SrflpProofsRubMerged*.lean`:

* `…Defs`  : the lower-bound functionals `GG` (cost of a path with FIXED weights), `EE` (one `GG` per placed department, with
  its row of flows as weights), the consistent virtual weights `vrow`;
* `…Path`  : the completions `VPath` of any good state, `bestRemF_le_vpaths`, superadditivity of "the sum of the `r` least"
  (`leastSum_add_le`), hence `pathCost_le_GG_EE`: a completion costs at least `GG l cut + EE l flow`  (ingredient 1);
* `…Vrow`  : `vrow_sum`, `GG_eq_aftV`, `vrow_perm` — "the `r` least weights of what is left of `Y`" is a sum of per-position
  virtual weights which, as a multiset, are the weights of `r` DISTINCT members of `Y` (an exchange argument); `dot_le_of_cntDom`:
  counting domination of two lists of flows gives the rearrangement bound  (ingredient 2, consistent virtual flows);
* `…Cut`   : `cut_part` — `GG l cut` is at least the weighted completion time of SOME order of the jobs of the bound (the least
  lengths of `maybe_place` replace the real ones: a prefix-sum — Abel — argument), Smith's rule then applies  (ingredient 3);
* `…Edge`  : `edge_part` — the last loop of the bound, on the flows the second loop keeps, is at most `EE l flow` (the virtual
  flows are flows of distinct pairs: for every threshold they are at most as many below it as the flows of the bound);
* `…Loops` : `lengthsLoop_merged`, `flowsLoop_merged` — what the two table walks with quotas return on any good state;
* here     : `rub_good_some` (the bound unfolded), `cum_le_merged`, `pathCost_le_rub_good`, and the results
  `rubAdmissible_good`, `rubAdmissible_exactRatio` (`RubAdmissibleExactRatioStmt` for `n ≤ 64`, `TabSorted`, `SetSt` — the
  restriction `maybe_place = None` of `rubAdmissible_exact_partial` is gone), `rubHyp` (`RubHyp`), `srflp_wfRel` (`WfRel`). -/
namespace Ddo.Examples.SrflpModel
open Ddo Ddo.Examples Ddo.Examples.Util Ddo.SpecUtil

variable (T : Tab)

theorem mapM_option_some {α β : Type} (f : α → Option β) (g : α → β) : ∀ l : List α, (∀ a ∈ l, f a = some (g a)) →
    l.mapM f = some (l.map g) := by
  intro l
  induction l with
  | nil => intro _; rfl
  | cons a l ih =>
    intro h
    rw [List.mapM_cons, h a List.mem_cons_self, ih (fun b hb => h b (List.mem_cons_of_mem _ hb))]
    rfl

theorem getElem?_eq_some_getD (L : List Int) (a : Nat) (h : a < L.length) : L[a]? = some (L.getD a 0) := by
  rw [List.getD_eq_getElem?_getD, List.getElem?_eq_getElem h]
  rfl

/-- the jobs of the optional picks: the `i`-th least length of `maybe_place` with the `(r-1-i)`-th least cut -/
def optJobs (s : St) (Lm : List Int) (r : Nat) : List ((Int × Int × Int) × Int × Int) :=
  (List.range r).map (fun i =>
    (ratioKey ((sortInts ((mbOf s).map (cutAt s))).getD (r - 1 - i) 0) (Lm.getD i 0), Lm.getD i 0,
      (sortInts ((mbOf s).map (cutAt s))).getD (r - 1 - i) 0))

/-- the bound of a good non-terminal state, unfolded -/
theorem rub_good_some {s : St} (hG : Good T s) (hd : s.depth < T.n)
    (hLm : (lengthsLoop T s (T.n - s.depth) (T.n - s.depth - s.must.length)).2.length = T.n - s.depth - s.must.length)
    (eb : Int)
    (he : edgeBound? (flowsLoop T s ((T.n - s.depth) * (T.n - s.depth - 1) / 2) (s.must.length * (T.n - s.depth - s.must.length))
              ((T.n - s.depth - s.must.length) * (T.n - s.depth - s.must.length - 1) / 2))
            (lengthsLoop T s (T.n - s.depth) (T.n - s.depth - s.must.length)).1
            ((T.n - s.depth) * (T.n - s.depth - 1) / 2) (T.n - s.depth) = some eb) :
    rubExactRatio? T s =
      some (-(((((s.must.map (fun i => (ratioKey (cutAt s i) (lenOf T i), lenOf T i, cutAt s i))) ++
                optJobs s (lengthsLoop T s (T.n - s.depth) (T.n - s.depth - s.must.length)).2
                  (T.n - s.depth - s.must.length)).mergeSort
              (fun a b => leRatioExact b a)).foldl
                (fun (acc : Int × Int) r => (acc.1 + acc.2 * r.2.2, acc.2 + r.2.1)) (0, 0)).1 + eb)) := by
  have hml := hG.must_le
  have hfill := hG.fill
  unfold rubExactRatio? rubWith?
  have h1 : ¬ T.n < s.depth := by omega
  have h2 : ¬ T.n - s.depth = 0 := by omega
  have h3 : ¬ T.n - s.depth < s.must.length := by omega
  cases hm : s.maybe with
  | none =>
    have hr0 : T.n - s.depth - s.must.length = 0 := by
      simp only [mbOf, hm, Option.getD_none, List.length_nil] at hfill
      omega
    simp only [h1, h2, h3, if_false, Option.pure_def, Option.bind_eq_bind, Option.bind_some, List.append_nil]
    rw [he]
    simp only [optJobs, hr0, List.range_zero, List.map_nil, List.append_nil]
    rfl
  | some mb =>
    have hmb : mbOf s = mb := by simp [mbOf, hm]
    have hrl : T.n - s.depth - s.must.length ≤ (sortInts (mb.map (fun i => s.cut.getD i 0))).length := by
      unfold sortInts
      rw [List.length_mergeSort, List.length_map, ← hmb]
      omega
    simp only [h1, h2, h3, if_false, Option.pure_def, Option.bind_eq_bind]
    rw [mapM_option_some _ (fun i =>
        (ratioKey ((sortInts (mb.map (fun i => s.cut.getD i 0))).getD (T.n - s.depth - s.must.length - 1 - i) 0)
            ((lengthsLoop T s (T.n - s.depth) (T.n - s.depth - s.must.length)).2.getD i 0),
          (lengthsLoop T s (T.n - s.depth) (T.n - s.depth - s.must.length)).2.getD i 0,
          (sortInts (mb.map (fun i => s.cut.getD i 0))).getD (T.n - s.depth - s.must.length - 1 - i) 0))]
    · simp only [Option.bind_some]
      rw [he]
      simp only [Option.bind_some, optJobs, hmb, cutAt]
      rfl
    · intro a ha
      have ha' : a < T.n - s.depth - s.must.length := List.mem_range.mp ha
      rw [getElem?_eq_some_getD _ a (by omega), getElem?_eq_some_getD _ _ (by omega)]
      rfl

/-! ### the least lengths of the bound never exceed the lengths of a completion -/

theorem sum_filter_partition (p : Nat → Bool) (g : Nat → Int) : ∀ A : List Nat,
    (A.map g).sum = ((A.filter p).map g).sum + ((A.filter (fun i => !p i)).map g).sum := by
  intro A
  induction A with
  | nil => rfl
  | cons a A ih =>
    simp only [List.filter_cons]
    cases h : p a <;> simp [ih] <;> omega

theorem sortInts_map' (B : List Nat) (f : Nat → Int) :
    sortInts (B.map f) = (B.mergeSort (fun a b => decide (f a ≤ f b))).map f := by
  unfold sortInts
  rw [List.map_mergeSort]
  intros; rfl

set_option linter.unusedVariables false in
theorem cum_le_merged (l : Nat → Int) (M Y q : List Nat) (rr : Nat) (hq : q.Nodup) (hM : M.Nodup) (hY : Y.Nodup)
    (hdisj : ∀ i ∈ M, i ∉ Y) (hqMY : ∀ i ∈ q, i ∈ M ∨ i ∈ Y) (hnon : nonM M q = rr) (hrY : rr ≤ Y.length)
    (Ls : List Int) (hLp : Ls.Perm (M.map l ++ (sortInts (Y.map l)).take rr)) (hLs : Ls.Pairwise (· ≤ ·))
    (A : List Nat) (hA : A.Sublist q) : (Ls.take A.length).sum ≤ (A.map l).sum := by
  -- the index list of the `rr` least lengths of `Y`
  obtain ⟨Ys, hYsdef⟩ : ∃ Ys, Ys = Y.mergeSort (fun a b => decide (l a ≤ l b)) := ⟨_, rfl⟩
  have hYsp : Ys.Perm Y := hYsdef ▸ List.mergeSort_perm Y _
  have hYl : (sortInts (Y.map l)).take rr = (Ys.take rr).map l := by
    rw [sortInts_map', List.map_take, hYsdef]
  have hLp' : Ls.Perm ((M ++ Ys.take rr).map l) := by
    rw [List.map_append, ← hYl]; exact hLp
  have hsort : sortInts ((M ++ Ys.take rr).map l) = Ls := eq_sortInts hLp' hLs
  -- split `A`
  let AM := A.filter (fun i => M.contains i)
  let AS := A.filter (fun i => !M.contains i)
  have hAn : A.Nodup := List.Nodup.sublist hA hq
  have hASlen : AS.length ≤ rr := by
    rw [← hnon]
    exact (hA.filter _).length_le
  have hASY : ∀ a ∈ AS, a ∈ Y := by
    intro a ha
    have := List.mem_filter.mp ha
    rcases hqMY a (hA.subset this.1) with h | h
    · simp [h] at this
    · exact h
  have hlen : A.length = AM.length + AS.length := length_eq_filter_add_nonM M A
  have hsum : (A.map l).sum = (AM.map l).sum + (AS.map l).sum := sum_filter_partition (fun i => M.contains i) l A
  -- the replacement choice
  have hYsn : Ys.Nodup := hYsp.nodup_iff.mpr hY
  have hA'n : (AM ++ Ys.take AS.length).Nodup := by
    rw [List.nodup_append]
    refine ⟨hAn.filter _, List.Nodup.sublist (List.take_sublist _ _) hYsn, ?_⟩
    intro a ha b hb e
    subst e
    have h1 : a ∈ M := by simpa using (List.mem_filter.mp ha).2
    have h2 : a ∈ Y := hYsp.mem_iff.mp (List.mem_of_mem_take hb)
    exact hdisj a h1 h2
  have hA's : ∀ a ∈ AM ++ Ys.take AS.length, a ∈ M ++ Ys.take rr := by
    intro a ha
    rcases List.mem_append.mp ha with h | h
    · exact List.mem_append_left _ (by simpa using (List.mem_filter.mp h).2)
    · refine List.mem_append_right _ ?_
      have : Ys.take AS.length = (Ys.take rr).take AS.length := by
        rw [List.take_take, Nat.min_eq_left hASlen]
      rw [this] at h
      exact List.mem_of_mem_take h
  have h1 := leastSum_le_choice (AM ++ Ys.take AS.length) (M ++ Ys.take rr) l l hA'n hA's (fun _ _ => Int.le_refl _)
  have hA'len : (AM ++ Ys.take AS.length).length = A.length := by
    rw [List.length_append, List.length_take, hYsp.length_eq]
    omega
  rw [hA'len] at h1
  unfold leastSum at h1
  rw [hsort, sum_eq, sum_eq, List.map_append, List.sum_append] at h1
  -- the least lengths of `Y` against the optional picks of `A`
  have h2 := leastSum_le_choice AS Y l l (hAn.filter _) hASY (fun _ _ => Int.le_refl _)
  unfold leastSum at h2
  rw [sortInts_map', ← hYsdef, ← List.map_take, sum_eq, sum_eq] at h2
  omega

/-! ### the bound against a completion -/

/-- every completion of a good non-terminal state costs at least the bound, which is defined -/
theorem pathCost_le_rub_good (hS : TabSorted T) (hI : Inst T) {s : St} (hG : Good T s) (hd : s.depth < T.n)
    (q : List Nat) (hp : VPath T s q) :
    ∃ r, rubExactRatio? T s = some r ∧ pathCost T s q ≤ r := by
  obtain ⟨hL2, hL1p, hL1s⟩ := lengthsLoop_merged T hS hG hd
  obtain ⟨hFp, hFs⟩ := flowsLoop_merged T hS hI hG hd
  have hml := hG.must_le
  have hfill := hG.fill
  have hnon := vpath_nonM T hG hp
  have hMn := pairwise_lt_nodup hG.must_sorted
  have hYn := pairwise_lt_nodup hG.maybe_sorted
  have hlpos : ∀ i, i ∈ s.must ∨ i ∈ mbOf s → 0 < lenOf T i := fun i hi => hI.len_pos i (hG.lt i hi)
  have hsl : (sortInts ((mbOf s).map (lenOf T))).length = (mbOf s).length := by
    unfold sortInts; rw [List.length_mergeSort, List.length_map]
  have hrY : (T.n - s.depth - s.must.length) ≤ (mbOf s).length := by omega
  have hLmpos : ∀ x ∈ (sortInts ((mbOf s).map (lenOf T))).take (T.n - s.depth - s.must.length), 0 < x := by
    intro x hx
    have h1 : x ∈ sortInts ((mbOf s).map (lenOf T)) := List.mem_of_mem_take hx
    unfold sortInts at h1
    obtain ⟨i, hi, rfl⟩ := List.mem_map.mp ((List.mergeSort_perm _ _).mem_iff.mp h1)
    exact hlpos i (Or.inr hi)
  have hLmget : ∀ i, i < T.n - s.depth - s.must.length →
      0 < ((sortInts ((mbOf s).map (lenOf T))).take (T.n - s.depth - s.must.length)).getD i 0 := by
    intro i hi
    apply hLmpos
    rw [List.getD_eq_getElem?_getD, List.getElem?_eq_getElem (by rw [List.length_take, hsl]; omega)]
    exact List.getElem_mem _
  -- cut part
  obtain ⟨js, hjp, hjw⟩ := cut_part (lenOf T) (cutAt s) s.must (mbOf s) q hp.nodup hMn hYn hp.must hp.mem hG.disj
    (fun i hi => Int.le_of_lt (hlpos i hi)) hG.cut_nonneg ((sortInts ((mbOf s).map (lenOf T))).take (T.n - s.depth - s.must.length))
    (by rw [List.length_take, hsl, hnon]; omega)
    (by
      intro A hAn hAs hAl
      rw [hnon] at hAl
      rw [List.take_take, Nat.min_eq_left hAl]
      have := leastSum_le_choice A (mbOf s) (lenOf T) (lenOf T) hAn hAs (fun _ _ => Int.le_refl _)
      unfold leastSum at this
      rw [sum_eq, sum_eq] at this
      exact this)
  rw [hnon] at hjp
  -- edge part
  obtain ⟨eb, heb, hebl⟩ := edge_part (lenOf T) (flow T) s.must (mbOf s) q hp.nodup hMn hYn hp.must hp.mem hG.disj
    (by rw [hp.len]; omega) (fun i hi => Int.le_of_lt (hlpos i hi))
    (fun i j hi hj => hI.flow_nonneg i j (hG.lt i hi) (hG.lt j hj))
    (fun i j hi hj => hI.flow_symm i j (hG.lt i hi) (hG.lt j hj))
    (lengthsLoop T s (T.n - s.depth) (T.n - s.depth - s.must.length)).1
    (by rw [hL1p.length_eq, List.length_append, List.length_map, List.length_take, hsl, hp.len]; omega)
    (by
      intro x hx
      rcases List.mem_append.mp (hL1p.mem_iff.mp hx) with h | h
      · obtain ⟨i, hi, rfl⟩ := List.mem_map.mp h
        exact Int.le_of_lt (hlpos i (Or.inl hi))
      · exact Int.le_of_lt (hLmpos x h))
    (fun A hA => cum_le_merged (lenOf T) s.must (mbOf s) q (T.n - s.depth - s.must.length) hp.nodup hMn hYn hG.disj hp.mem hnon hrY _ hL1p hL1s A hA)
    _ hFs (by rw [hnon]; exact hFp)
  rw [hp.len] at heb
  have hrub := rub_good_some T hG hd (by rw [hL2, List.length_take, hsl]; omega) eb heb
  refine ⟨_, hrub, ?_⟩
  -- Smith's rule
  have hcut := cutBound_le
    ((s.must.map (fun i => (ratioKey (cutAt s i) (lenOf T i), lenOf T i, cutAt s i))) ++
      optJobs s (lengthsLoop T s (T.n - s.depth) (T.n - s.depth - s.must.length)).2 (T.n - s.depth - s.must.length))
    (by
      intro x hx
      rcases List.mem_append.mp hx with h | h
      · obtain ⟨i, hi, rfl⟩ := List.mem_map.mp h
        exact hlpos i (Or.inl hi)
      · unfold optJobs at h
        obtain ⟨i, hi, rfl⟩ := List.mem_map.mp h
        have hi' := List.mem_range.mp hi
        rw [hL2]
        exact hLmget i hi')
    js (by
      rw [hL2]
      refine hjp.trans (List.Perm.of_eq ?_)
      simp only [optJobs, List.map_append, List.map_map]
      rfl)
  have hmain := pathCost_le_GG_EE T hI q s hG hp
  omega

/-! ### admissibility -/

/-- a good non-terminal state has a completion -/
theorem exists_vpath {s : St} (hG : Good T s) : VPath T s (s.must ++ (mbOf s).take (T.n - s.depth - s.must.length)) := by
  have hml := hG.must_le
  have hfill := hG.fill
  refine ⟨?_, ?_, ?_, ?_⟩
  · rw [List.nodup_append]
    refine ⟨pairwise_lt_nodup hG.must_sorted,
      List.Nodup.sublist (List.take_sublist _ _) (pairwise_lt_nodup hG.maybe_sorted), ?_⟩
    intro a ha b hb e
    subst e
    exact hG.disj a ha (List.mem_of_mem_take hb)
  · intro i hi; exact List.mem_append_left _ hi
  · intro i hi
    rcases List.mem_append.mp hi with h | h
    · exact Or.inl h
    · exact Or.inr (List.mem_of_mem_take h)
  · rw [List.length_append, List.length_take]; omega

/-- **the repaired rough bound is admissible on EVERY good non-terminal state** (merged states and their descendants included) -/
theorem rubAdmissible_good (h64 : T.n ≤ 64) (hS : TabSorted T) (hI : Inst T) {s : St} (hG : Good T s) (hd : s.depth < T.n)
    (r : Int) (h : rubExactRatio? T s = some r) : bestRem T s ≤ (some r : EInt) := by
  unfold bestRem
  apply bestRemF_le_vpaths T h64 hI _ s r hG rfl
  intro q hq
  obtain ⟨r', hr', hle⟩ := pathCost_le_rub_good T hS hI hG hd q hq
  rw [h] at hr'
  have := Option.some.inj hr'
  omega

/-- the bound of a good non-terminal state is defined (no panic) -/
theorem rub_good_defined (hS : TabSorted T) (hI : Inst T) {s : St} (hG : Good T s) (hd : s.depth < T.n) :
    ∃ r, rubExactRatio? T s = some r := by
  obtain ⟨r, hr, _⟩ := pathCost_le_rub_good T hS hI hG hd _ (exists_vpath T hG)
  exact ⟨r, hr⟩

/-- **`RubAdmissibleExactRatioStmt` in full on the states with sets listed increasingly** (what `Set64` iterates), for tables
    built as `Srflp::new` builds them (`TabSorted`: false without it, `rubAdmissible_needs_tabSorted`) and at most 64
    departments: the restriction `maybe_place = None` of `rubAdmissible_exact_partial` is gone. -/
theorem rubAdmissible_exactRatio (h64 : T.n ≤ 64) (hS : TabSorted T) (hT : InstOk T) (s : St) (r : Int) (hs : StOk T s)
    (hset : SetSt s) (h : rubExactRatio? T s = some r) : bestRem T s ≤ (some r : EInt) := by
  have hI := inst_of_instOk T hT
  have hG := good_of_stOk T hs hset.1 hset.2
  have hd : s.depth < T.n := by
    unfold StOk validB at hs
    simp only [Bool.and_eq_true, decide_eq_true_eq] at hs
    exact hs.1.1.1.1.1
  exact rubAdmissible_good T h64 hS hI hG hd r h

/-- the same for `rub?` (the shipped, repaired `fast_upper_bound`) -/
theorem rubAdmissible_rub (h64 : T.n ≤ 64) (hS : TabSorted T) (hT : InstOk T) (s : St) (r : Int) (hs : StOk T s)
    (hset : SetSt s) (h : rub? T s = some r) : bestRem T s ≤ (some r : EInt) :=
  rubAdmissible_exactRatio T h64 hS hT s r hs hset h

/-- **`RubHyp`**: the hypothesis `wfRel_of_rub` was waiting for -/
theorem rubHyp (h64 : T.n ≤ 64) (hS : TabSorted T) (hT : InstOk T) : RubHyp T := by
  intro s h hG hb
  have hI := inst_of_instOk T hT
  by_cases hd : s.depth < T.n
  · obtain ⟨r, hr⟩ := rub_good_defined T hS hI hG hd
    have hle := rubAdmissible_good T h64 hS hI hG hd r hr
    rw [hb] at hle
    have hr' : rub? T s = some r := hr
    rw [hr']
    exact hle
  · have hn : T.n ≤ s.depth := by omega
    have h0 := bestRem_terminal T s hn
    rw [hb] at h0
    have hh : h = 0 := Option.some.inj h0
    have hnone : rub? T s = none := by
      have hle := hG.depth_le
      unfold rub? rubExactRatio? rubWith?
      have h1 : ¬ T.n < s.depth := by omega
      have h2 : T.n - s.depth = 0 := by omega
      simp [h1, h2]
    rw [hnone, hh]
    exact Int.le_refl _

/-- **`WfRel` of the srflp example**, no hypothesis left about the rough bound -/
theorem srflp_wfRel (h64 : T.n ≤ 64) (hS : TabSorted T) (hT : InstOk T) :
    WfRel (problem T) (relaxation T) (H T) (V T) :=
  wfRel_of_rub T h64 hT (rubHyp T h64 hS hT)

/-- for the tables the reader and `Srflp::new` build (`tabOf`) nothing is assumed about the tables -/
theorem rubAdmissible_tabOf (n : Nat) (lens : List Int) (flows : List (List Int)) (clear : Bool) (h64 : n ≤ 64)
    (hT : InstOk (tabOf n lens flows clear)) (s : St) (r : Int) (hs : StOk (tabOf n lens flows clear) s) (hset : SetSt s)
    (h : rub? (tabOf n lens flows clear) s = some r) : bestRem (tabOf n lens flows clear) s ≤ (some r : EInt) :=
  rubAdmissible_rub _ h64 (tabSorted_tabOf n lens flows clear) hT s r hs hset h

#print axioms pathCost_le_rub_good
#print axioms rubAdmissible_good
#print axioms rubAdmissible_exactRatio
#print axioms rubAdmissible_tabOf
#print axioms rubHyp
#print axioms srflp_wfRel

end Ddo.Examples.SrflpModel
