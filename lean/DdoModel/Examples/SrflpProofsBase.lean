import DdoModel.Examples.SrflpModel
import DdoModel.Proofs.SpecUtil
/-! Base lemmas about the Lean model of the srflp example: the structural validity predicate `Good` (the sets are increasing
    lists — `validB` does not say so —, one cut per department, …), closed forms of `domain`, `trans`, `cost` on good states
    (`mem_domain`, `trans_nat`, `cost_nat`, `cutAt_step`), preservation of `Good` (`good_init`, `good_step`), the recursion of
    `bestRemF` and the `EInt` fold lemmas. -/
namespace Ddo.Examples.SrflpModel
open Ddo Ddo.Examples Ddo.Examples.Util Ddo.SpecUtil

/-! ### `EInt` folds -/

theorem emax_ge_left (a b : EInt) : a ≤ EInt.max a b := by
  cases a <;> cases b <;> simp [EInt.max] <;> omega
theorem emax_ge_right (a b : EInt) : b ≤ EInt.max a b := by
  cases a <;> cases b <;> simp [EInt.max] <;> omega
theorem emax_le {a b c : EInt} (ha : a ≤ c) (hb : b ≤ c) : EInt.max a b ≤ c := by
  cases a <;> cases b <;> cases c <;> simp_all [EInt.max] <;> omega
theorem addI_mono {a b : EInt} {c c' : Int} (h : a ≤ b) (hc : c ≤ c') : a.addI c ≤ b.addI c' := by
  cases a <;> cases b <;> simp_all [EInt.addI] <;> omega

theorem foldl_emax_ge {α : Type} (f : α → EInt) : ∀ (l : List α) (init : EInt),
    init ≤ l.foldl (fun acc v => EInt.max acc (f v)) init ∧
    ∀ v ∈ l, f v ≤ l.foldl (fun acc v => EInt.max acc (f v)) init := by
  intro l
  induction l with
  | nil => intro init; exact ⟨EInt.le_refl _, fun v hv => by cases hv⟩
  | cons x l ih =>
    intro init
    rw [List.foldl_cons]
    obtain ⟨h1, h2⟩ := ih (EInt.max init (f x))
    refine ⟨EInt.le_trans (emax_ge_left _ _) h1, fun v hv => ?_⟩
    rcases List.mem_cons.mp hv with rfl | hv
    · exact EInt.le_trans (emax_ge_right _ _) h1
    · exact h2 v hv

theorem foldl_emax_le {α : Type} (f : α → EInt) (B : EInt) : ∀ (l : List α) (init : EInt),
    init ≤ B → (∀ v ∈ l, f v ≤ B) → l.foldl (fun acc v => EInt.max acc (f v)) init ≤ B := by
  intro l
  induction l with
  | nil => intro init h _; exact h
  | cons x l ih =>
    intro init h hl
    rw [List.foldl_cons]
    exact ih _ (emax_le h (hl x List.mem_cons_self)) fun v hv => hl v (List.mem_cons_of_mem _ hv)

/-- the maximum is attained -/
theorem foldl_emax_attained {α : Type} (f : α → EInt) : ∀ (l : List α) (init : EInt),
    l.foldl (fun acc v => EInt.max acc (f v)) init = init ∨
    ∃ v ∈ l, l.foldl (fun acc v => EInt.max acc (f v)) init = f v := by
  intro l
  induction l with
  | nil => intro init; exact Or.inl rfl
  | cons x l ih =>
    intro init
    rw [List.foldl_cons]
    rcases ih (EInt.max init (f x)) with h | ⟨v, hv, h⟩
    · rw [h]
      have : EInt.max init (f x) = init ∨ EInt.max init (f x) = f x := by
        cases init <;> cases hfx : f x <;> simp [EInt.max] <;> omega
      rcases this with e | e
      · exact Or.inl e
      · exact Or.inr ⟨x, List.mem_cons_self, e⟩
    · exact Or.inr ⟨v, List.mem_cons_of_mem _ hv, h⟩

variable (T : Tab)

/-! ### the states -/

/-- `cut[i]` -/
def cutAt (s : St) (i : Nat) : Int := s.cut.getD i 0
/-- `maybe_place` as a list (`None` = empty) -/
def mbOf (s : St) : List Nat := s.maybe.getD []
/-- the sum of the `r` least values -/
def leastSum (r : Nat) (L : List Int) : Int := sum ((sortInts L).take r)

/-- structural validity: like `validB` (terminal states included, without the `2^62` bound on the cuts) PLUS: the two sets
    are increasing lists (`validB` does not say so; `Set64` iterates in increasing order) -/
structure Good (s : St) : Prop where
  depth_le : s.depth ≤ T.n
  cut_len : s.cut.length = T.n
  must_sorted : s.must.Pairwise (· < ·)
  maybe_sorted : (mbOf s).Pairwise (· < ·)
  lt : ∀ i, i ∈ s.must ∨ i ∈ mbOf s → i < T.n
  cut_nonneg : ∀ i, i ∈ s.must ∨ i ∈ mbOf s → 0 ≤ cutAt s i
  disj : ∀ i ∈ s.must, i ∉ mbOf s
  must_le : s.must.length ≤ T.n - s.depth
  fill : T.n - s.depth ≤ s.must.length + (mbOf s).length

/-- the instance facts used by the proofs -/
structure Inst : Prop where
  len_len : T.len.length = T.n
  len_pos : ∀ i, i < T.n → 0 < lenOf T i
  flow_nonneg : ∀ i j, i < T.n → j < T.n → 0 ≤ flow T i j
  flow_symm : ∀ i j, i < T.n → j < T.n → flow T i j = flow T j i

theorem inst_of_instOk (h : InstOk T) : Inst T := by
  unfold InstOk inDomainB at h
  simp only [Bool.and_eq_true, beq_iff_eq, List.all_eq_true, decide_eq_true_eq, List.mem_range, Bool.or_eq_true] at h
  obtain ⟨⟨⟨⟨h1, h2⟩, _⟩, _⟩, h5⟩ := h
  refine ⟨h1, ?_, ?_, ?_⟩
  · intro i hi
    unfold lenOf
    rw [List.getD_eq_getElem?_getD, List.getElem?_eq_getElem (by omega)]
    exact h2 _ (List.getElem_mem _)
  · intro i j hi hj; exact (h5 i hi j hj).1
  · intro i j hi hj
    rcases (h5 i hi j hj).2 with e | e
    · rw [e]
    · exact e

theorem pairwise_lt_nodup {l : List Nat} (h : l.Pairwise (· < ·)) : l.Nodup :=
  h.imp (fun hab => Nat.ne_of_lt hab)

theorem good_of_stOk {s : St} (h : StOk T s) (hm : s.must.Pairwise (· < ·)) (hy : (mbOf s).Pairwise (· < ·)) : Good T s := by
  unfold StOk validB at h
  simp only [Bool.and_eq_true, beq_iff_eq, List.all_eq_true, decide_eq_true_eq, List.mem_append, Bool.not_eq_true',
    List.contains_eq_mem, decide_eq_false_iff_not] at h
  obtain ⟨⟨⟨⟨⟨h1, h2⟩, h3⟩, h4⟩, h5⟩, h6⟩ := h
  exact ⟨by omega, h2, hm, hy, fun i hi => (h3 i hi).1.1, fun i hi => (h3 i hi).1.2, fun i hi => h4 i hi, h5, h6⟩

theorem good_init : Good T (initSt T) := by
  refine ⟨Nat.zero_le _, by simp [initSt], ?_, by simp [initSt, mbOf], ?_, ?_, ?_, by simp [initSt], by simp [initSt]⟩
  · simp only [initSt]
    exact List.pairwise_lt_range
  · intro i hi
    simp only [initSt, mbOf, Option.getD_none, List.not_mem_nil, or_false, List.mem_range] at hi
    exact hi
  · intro i _
    simp only [cutAt, initSt, List.getD_eq_getElem?_getD, List.getElem?_replicate]
    split <;> simp
  · intro i _
    simp [initSt, mbOf]

/-! ### `domain` -/

theorem mem_domain {s : St} (hG : Good T s) (v : Int) :
    v ∈ domain T s ↔ ∃ i : Nat, v = (i : Int) ∧ (i ∈ s.must ∨ (s.must.length < T.n - s.depth ∧ i ∈ mbOf s)) := by
  have h1 := hG.depth_le
  have h2 := hG.must_le
  unfold domain domain?
  rw [if_neg (by omega)]
  simp only
  rw [if_neg (by omega)]
  by_cases hr : T.n - s.depth - s.must.length > 0
  · rw [if_pos hr]
    cases hm : s.maybe with
    | none =>
      simp only [Option.getD_some, List.mem_map, mbOf, hm, Option.getD_none, List.not_mem_nil, and_false, or_false]
      constructor
      · rintro ⟨i, hi, rfl⟩; exact ⟨i, rfl, hi⟩
      · rintro ⟨i, rfl, hi⟩; exact ⟨i, hi, rfl⟩
    | some mb =>
      simp only [Option.getD_some, List.mem_append, List.mem_map, mbOf, hm]
      constructor
      · rintro (⟨i, hi, rfl⟩ | ⟨i, hi, rfl⟩)
        · exact ⟨i, rfl, Or.inl hi⟩
        · exact ⟨i, rfl, Or.inr ⟨by omega, hi⟩⟩
      · rintro ⟨i, rfl, hi | ⟨_, hi⟩⟩
        · exact Or.inl ⟨i, hi, rfl⟩
        · exact Or.inr ⟨i, hi, rfl⟩
  · rw [if_neg hr]
    simp only [Option.getD_some, List.mem_map]
    constructor
    · rintro ⟨i, hi, rfl⟩; exact ⟨i, rfl, Or.inl hi⟩
    · rintro ⟨i, rfl, hi | ⟨hlt, _⟩⟩
      · exact ⟨i, hi, rfl⟩
      · omega

/-- a decision of the domain of a good state is a department, and a position is left -/
theorem domain_lt {s : St} (hG : Good T s) {i : Nat} (hi : (i : Int) ∈ domain T s) : i < T.n ∧ s.depth < T.n := by
  obtain ⟨j, hj, h⟩ := (mem_domain T hG _).mp hi
  have : i = j := by omega
  subst this
  have h2 := hG.must_le
  rcases h with h | ⟨h1, h⟩
  · refine ⟨hG.lt _ (Or.inl h), ?_⟩
    have : 0 < s.must.length := List.length_pos_of_mem h
    omega
  · exact ⟨hG.lt _ (Or.inr h), by omega⟩

/-! ### `transition` -/

theorem length_addRow (d : Nat) : ∀ (members : List Nat) (cut : List Int), (addRow T d members cut).length = cut.length := by
  intro members
  induction members with
  | nil => intro cut; rfl
  | cons a r ih => intro cut; unfold addRow at ih ⊢; rw [List.foldl_cons, ih]; simp

theorem getD_addRow (d : Nat) : ∀ (members : List Nat) (cut : List Int) (j : Nat), members.Nodup → (∀ i ∈ members, i < cut.length) →
    (addRow T d members cut).getD j 0 = if j ∈ members then cut.getD j 0 + flow T d j else cut.getD j 0 := by
  intro members
  induction members with
  | nil => intro cut j _ _; simp [addRow]
  | cons a r ih =>
    intro cut j hnd hlt
    have hnd' := List.nodup_cons.mp hnd
    have ha : a < cut.length := hlt a List.mem_cons_self
    unfold addRow at ih ⊢
    rw [List.foldl_cons, ih _ j hnd'.2 (by intro i hi; simpa using hlt i (List.mem_cons_of_mem _ hi))]
    simp only [List.getD_eq_getElem?_getD, List.getElem?_set, List.mem_cons]
    by_cases hja : j = a
    · subst hja
      simp [hnd'.1, ha]
    · have : ¬ a = j := fun e => hja e.symm
      simp [hja, this]

/-- the state after placing department `i` -/
def stepSt (s : St) (i : Nat) : St :=
  let remaining := s.must.filter (· ≠ i)
  let maybes : Option (List Nat) := match s.maybe with
    | some mb => let mb' := mb.filter (· ≠ i); if mb'.isEmpty then none else some mb'
    | none => none
  { depth := s.depth + 1, must := remaining, maybe := maybes,
    cut := addRow T i (maybes.getD []) (addRow T i remaining (s.cut.set i 0)) }

theorem trans_nat (s : St) (x i : Nat) (hi : i < s.cut.length) (h64 : i < 64) : trans T s ⟨x, (i : Int)⟩ = stepSt T s i := by
  unfold trans trans?
  simp only [Int.toNat_natCast]
  rw [if_neg (by omega), if_neg (by omega)]
  rfl

@[simp] theorem stepSt_depth (s : St) (i : Nat) : (stepSt T s i).depth = s.depth + 1 := rfl
@[simp] theorem stepSt_must (s : St) (i : Nat) : (stepSt T s i).must = s.must.filter (· ≠ i) := rfl

theorem mbOf_stepSt (s : St) (i : Nat) : mbOf (stepSt T s i) = (mbOf s).filter (· ≠ i) := by
  unfold mbOf stepSt
  cases hm : s.maybe with
  | none => simp
  | some mb =>
    simp only [Option.getD_some]
    split
    · rename_i h
      rw [List.isEmpty_iff] at h
      simp only [Option.getD_none]
      exact h.symm
    · rfl

theorem length_cut_stepSt (s : St) (i : Nat) : (stepSt T s i).cut.length = s.cut.length := by
  unfold stepSt
  simp only [length_addRow, List.length_set]

theorem cutAt_step {s : St} (hG : Good T s) (i : Nat) (j : Nat) :
    cutAt (stepSt T s i) j =
      if j = i then 0 else if j ∈ s.must ∨ j ∈ mbOf s then cutAt s j + flow T i j else cutAt s j := by
  have hmb := mbOf_stepSt T s i
  have e : (stepSt T s i).cut = addRow T i (mbOf (stepSt T s i)) (addRow T i (s.must.filter (· ≠ i)) (s.cut.set i 0)) := rfl
  unfold cutAt
  rw [e, hmb]
  have hnd1 : (s.must.filter (· ≠ i)).Nodup := (pairwise_lt_nodup hG.must_sorted).filter _
  have hnd2 : ((mbOf s).filter (· ≠ i)).Nodup := (pairwise_lt_nodup hG.maybe_sorted).filter _
  rw [getD_addRow T i _ _ j hnd2 (by
      intro k hk
      rw [length_addRow, List.length_set, hG.cut_len]
      exact hG.lt k (Or.inr (List.mem_filter.mp hk).1)),
    getD_addRow T i _ _ j hnd1 (by
      intro k hk
      rw [List.length_set, hG.cut_len]
      exact hG.lt k (Or.inl (List.mem_filter.mp hk).1))]
  simp only [List.mem_filter, decide_eq_true_eq, List.getD_eq_getElem?_getD, List.getElem?_set]
  by_cases hji : j = i
  · subst hji
    simp
    split <;> simp
  · have hij : ¬ i = j := fun e => hji e.symm
    by_cases h1 : j ∈ s.must
    · have h2 : j ∉ mbOf s := hG.disj j h1
      simp [h1, h2, hji, hij]
    · simp [h1, hji, hij]

theorem good_step (hI : Inst T) {s : St} (hG : Good T s) {i : Nat} (hi : (i : Int) ∈ domain T s) : Good T (stepSt T s i) := by
  obtain ⟨hin, hd⟩ := domain_lt T hG hi
  obtain ⟨j, hj, hmem⟩ := (mem_domain T hG _).mp hi
  have : i = j := by omega
  subst this
  have hm := mbOf_stepSt T s i
  refine ⟨by simp; omega, by rw [length_cut_stepSt]; exact hG.cut_len, ?_, ?_, ?_, ?_, ?_, ?_, ?_⟩
  · exact hG.must_sorted.filter _
  · rw [hm]; exact hG.maybe_sorted.filter _
  · intro k hk
    rw [hm] at hk
    simp only [stepSt_must, List.mem_filter] at hk
    rcases hk with hk | hk
    · exact hG.lt k (Or.inl hk.1)
    · exact hG.lt k (Or.inr hk.1)
  · intro k hk
    rw [hm] at hk
    simp only [stepSt_must, List.mem_filter, decide_eq_true_eq] at hk
    have hk' : (k ∈ s.must ∨ k ∈ mbOf s) ∧ k ≠ i := by
      rcases hk with hk | hk
      · exact ⟨Or.inl hk.1, hk.2⟩
      · exact ⟨Or.inr hk.1, hk.2⟩
    rw [cutAt_step T hG, if_neg hk'.2, if_pos hk'.1]
    have := hG.cut_nonneg k hk'.1
    have := hI.flow_nonneg i k hin (hG.lt k hk'.1)
    omega
  · intro k hk
    rw [hm]
    simp only [stepSt_must, List.mem_filter] at hk
    intro hc
    exact hG.disj k hk.1 (List.mem_filter.mp hc).1
  · simp only [stepSt_must, stepSt_depth]
    have h1 := hG.must_le
    rcases hmem with h | ⟨h, _⟩
    · have := List.length_filter_lt_length_iff_exists (l := s.must) (p := fun x => decide (x ≠ i)) |>.mpr ⟨i, h, by simp⟩
      omega
    · have := List.length_filter_le (fun x => decide (x ≠ i)) s.must
      omega
  · rw [hm]
    simp only [stepSt_must, stepSt_depth]
    have h1 := hG.fill
    have e1 : ∀ l : List Nat, l.Nodup → (l.filter (· ≠ i)).length = l.length - (if i ∈ l then 1 else 0) := by
      intro l hl
      have : l.filter (· ≠ i) = l.erase i := by
        rw [hl.erase_eq_filter]
        apply List.filter_congr
        intro x _
        by_cases hx : x = i <;> simp [hx]
      rw [this, List.length_erase]
      split <;> simp
    rw [e1 _ (pairwise_lt_nodup hG.must_sorted), e1 _ (pairwise_lt_nodup hG.maybe_sorted)]
    rcases hmem with h | ⟨h0, h⟩
    · have hn : i ∉ mbOf s := hG.disj i h
      have : 0 < s.must.length := List.length_pos_of_mem h
      rw [if_pos h, if_neg hn]; omega
    · have hn : i ∉ s.must := fun hc => hG.disj i hc h
      have : 0 < (mbOf s).length := List.length_pos_of_mem h
      rw [if_pos h, if_neg hn]; omega

/-! ### `transition_cost` -/

theorem cost_nat (hI : Inst T) {s : St} (hG : Good T s) {i : Nat} (hi : (i : Int) ∈ domain T s) (x : Nat) :
    cost T s ⟨x, (i : Int)⟩ =
      -(sum ((s.must.filter (· ≠ i)).map (cutAt s)) +
        leastSum (T.n - (s.depth + 1) - (s.must.filter (· ≠ i)).length) (((mbOf s).filter (· ≠ i)).map (cutAt s))) * lenOf T i := by
  obtain ⟨hin, hd⟩ := domain_lt T hG hi
  have hgs := (good_step T hI hG hi).must_le
  simp only [stepSt_must, stepSt_depth] at hgs
  unfold cost cost?
  simp only [Int.toNat_natCast]
  rw [if_neg (by omega)]
  have hl : T.len[i]? = some (lenOf T i) := by
    unfold lenOf
    rw [List.getD_eq_getElem?_getD, List.getElem?_eq_getElem (by rw [hI.len_len]; exact hin)]
    rfl
  rw [hl]
  simp only
  rw [if_neg (by omega), if_neg (by omega)]
  simp only [Option.getD_some]
  congr 2
  congr 1
  unfold leastSum mbOf cutAt
  by_cases hr : T.n - (s.depth + 1) - (s.must.filter (· ≠ i)).length > 0
  · rw [if_pos hr]
    cases s.maybe with
    | none => simp [sortInts, sum]
    | some mb => rfl
  · rw [if_neg hr]
    have : T.n - (s.depth + 1) - (s.must.filter (· ≠ i)).length = 0 := by omega
    rw [this]
    simp [sum]

/-! ### `bestRemF` -/

theorem bestRemF_succ (fuel : Nat) (s : St) (h : s.depth < T.n) :
    bestRemF T (fuel + 1) s =
      (domain T s).foldl (fun acc v => EInt.max acc ((bestRemF T fuel (trans T s ⟨s.depth, v⟩)).addI (cost T s ⟨s.depth, v⟩))) none := by
  rw [bestRemF, if_neg (by omega)]

theorem bestRemF_terminal (fuel : Nat) (s : St) (h : T.n ≤ s.depth) : bestRemF T fuel s = some 0 := by
  cases fuel with
  | zero => rfl
  | succ f => rw [bestRemF, if_pos h]

end Ddo.Examples.SrflpModel
