import DdoModel.Examples.Util
/-! Specification of the lcs example (`ddo/examples/lcs`): LONGEST COMMON SUBSEQUENCE of `k ≥ 1` strings.
    A subsequence of a string is obtained by deleting any characters (order kept); the program prints the
    length of the longest string that is a subsequence of EVERY input string (`Objective: <len>`; `0` when the
    strings share no character; the `-1` of `best_value.unwrap_or(-1)` never shows up).
    Instance file: first line `<k> <alphabet size>`, then exactly `k` lines `<length> <string>` (no blank
    line; the length field is informative; strings are non-empty; the characters are mapped to `0..` in
    sorted order, the declared alphabet size must be at least the number of distinct characters).
    By exhaustive enumeration of all `2^len` subsequences of the first string, independently of the DP model. -/
namespace Ddo.Examples.Lcs
open Ddo.Examples.Util

/-- `isSubseq xs ys`: can `xs` be obtained from `ys` by deleting characters? -/
def isSubseq : List Int → List Int → Bool
  | [], _ => true
  | _ :: _, [] => false
  | x :: xs, y :: ys => if x = y then isSubseq xs ys else isSubseq (x :: xs) ys

def best : List (List Int) → Option Int
  | [] => none
  | first :: others =>
    maxOf <| (sublists first).filterMap fun c =>
      if others.all (isSubseq c) then some (c.length : Int) else none

/-- reads `k` groups `len c_1 … c_len` -/
def strings? : Nat → List Int → Option (List (List Int))
  | 0, [] => some []
  | 0, _ :: _ => none
  | _ + 1, [] => none
  | k + 1, len :: rest =>
    if len < 0 ∨ rest.length < len.toNat then none
    else (strings? k (rest.drop len.toNat)).map ((rest.take len.toNat) :: ·)

/-- tokens: `k alphabet (len c_1 … c_len)*k`, characters as integers -/
def specFromTokens : List Int → Option Int
  | k :: _alphabet :: rest => if k < 1 then none else (strings? k.toNat rest).bind best
  | _ => none

end Ddo.Examples.Lcs
