import DdoModel.Examples.GolombDp
/-! Statements about the Lean model of the golomb example (`GolombDp.lean`).
    Proved here: `relax` leaves the cost alone; the merged state holds only marks / distances that every merged state holds,
    and its `number_of_marks` / `last_mark` are at most those of every merged state (`merge_marks_subset`, `merge_dists_subset`,
    `merge_nm_le`, `merge_last_le`); what a transition does to `number_of_marks` and `last_mark` (`trans_nm_last`); the costs
    telescope (`cost_eq`); the inner loop of the domain is a plain membership test when nothing panics (`blocked_eq`) and is
    monotone in the two sets (`blocked_mono`: a position that a merged state forbids is forbidden in every merged-away state —
    the step the absolute form of `MergeOk` rests on); the POTENTIAL form of `MergeOk` (`Wf.lean`) is FALSE for this model
    (`merge_arc_form_fails`: two reachable states of `n = 4`, by evaluation), and on the same pair the absolute form holds
    (`merge_abs_form_example`); for `n ≤ 3` the model is exact at the root (`dp_exact_small`, by evaluation).
    Stated, not proved (`def … : Prop`; the driver checks them pointwise on every generated case): `RubAdmissibleStmt`,
    `MergeAbsOkStmt`, `DpExactStmt`, `BestRemBBStmt`. -/
namespace Ddo.Examples.GolombModel
open Ddo Ddo.Examples

/-- `GolombRelax::relax` leaves the cost of the arc alone -/
theorem relax_id (n : Nat) (a b c : St) (d : Dec) (x : Int) : (relaxation n).relax a b c d x = x := rfl

theorem mem_inter {a b : List Nat} {x : Nat} : x ∈ inter a b ↔ x ∈ a ∧ x ∈ b := by
  simp [inter, List.mem_filter]

/-- the fold of `merge`, from any accumulator: the result holds only what the accumulator and every state hold, and its
    numbers are at most those of the accumulator and of every state -/
theorem foldl_merge (X : List St) : ∀ acc : St,
    let r := X.foldl (fun (acc : St) (s : St) =>
      ({ marks := inter acc.marks s.marks, dists := inter acc.dists s.dists, nm := min acc.nm s.nm, last := min acc.last s.last } : St)) acc
    (∀ x ∈ r.marks, x ∈ acc.marks ∧ ∀ u ∈ X, x ∈ u.marks) ∧ (∀ x ∈ r.dists, x ∈ acc.dists ∧ ∀ u ∈ X, x ∈ u.dists) ∧
    (r.nm ≤ acc.nm ∧ ∀ u ∈ X, r.nm ≤ u.nm) ∧ (r.last ≤ acc.last ∧ ∀ u ∈ X, r.last ≤ u.last) := by
  induction X with
  | nil => intro acc; simp
  | cons a rest ih =>
    intro acc
    have h := ih ({ marks := inter acc.marks a.marks, dists := inter acc.dists a.dists, nm := min acc.nm a.nm, last := min acc.last a.last } : St)
    simp only [List.foldl_cons]
    dsimp only at h ⊢
    obtain ⟨hm, hd, hn, hl⟩ := h
    refine ⟨?_, ?_, ?_, ?_⟩
    · intro x hx
      have := hm x hx
      have h1 := mem_inter.mp this.1
      refine ⟨h1.1, ?_⟩
      intro u hu
      rcases List.mem_cons.mp hu with rfl | hu
      · exact h1.2
      · exact this.2 u hu
    · intro x hx
      have := hd x hx
      have h1 := mem_inter.mp this.1
      refine ⟨h1.1, ?_⟩
      intro u hu
      rcases List.mem_cons.mp hu with rfl | hu
      · exact h1.2
      · exact this.2 u hu
    · refine ⟨by omega, ?_⟩
      intro u hu
      rcases List.mem_cons.mp hu with rfl | hu
      · omega
      · exact hn.2 u hu
    · refine ⟨by omega, ?_⟩
      intro u hu
      rcases List.mem_cons.mp hu with rfl | hu
      · omega
      · exact hl.2 u hu

/-- every mark of the merged state is a mark of every merged state -/
theorem merge_marks_subset (X : List St) (u : St) (hu : u ∈ X) : ∀ x ∈ (mergeStates X).marks, x ∈ u.marks :=
  fun x hx => ((foldl_merge X _).1 x hx).2 u hu
/-- every distance of the merged state is a distance of every merged state -/
theorem merge_dists_subset (X : List St) (u : St) (hu : u ∈ X) : ∀ x ∈ (mergeStates X).dists, x ∈ u.dists :=
  fun x hx => ((foldl_merge X _).2.1 x hx).2 u hu
theorem merge_nm_le (X : List St) (u : St) (hu : u ∈ X) : (mergeStates X).nm ≤ u.nm :=
  (foldl_merge X _).2.2.1.2 u hu
/-- the merged state takes the LEAST last mark -/
theorem merge_last_le (X : List St) (u : St) (hu : u ∈ X) : (mergeStates X).last ≤ u.last :=
  (foldl_merge X _).2.2.2.2 u hu

/-- what a transition does to the two numbers of the state -/
theorem trans_nm_last (s s' : St) (d : Dec) (h : trans? s d = some s') : s'.nm = s.nm + 1 ∧ (s'.last : Int) = d.val := by
  unfold trans? at h
  split at h
  · cases h
  · next hneg =>
    dsimp only at h
    split at h
    · cases h
    · split at h
      · cases h
      · split at h
        · cases h
        · simp only [Option.some.injEq] at h
          rw [← h]
          dsimp only
          exact ⟨rfl, by omega⟩

/-- the cost of a decision is minus the step from the last mark: along a path the costs telescope to `-last_mark` -/
theorem cost_eq (s : St) (d : Dec) (h : s.last < 9223372036854775808) : cost s d = (s.last : Int) - d.val := by
  simp only [cost, asIsize, h, if_true]
  omega

/-- when nothing panics (every mark is at most the position, the differences fit the set) the inner loop of the domain is a
    membership test -/
theorem blocked_eq (D : List Nat) (i : Nat) : ∀ js : List Nat, (∀ j ∈ js, j ≤ i ∧ i - j < setCap) →
    blocked? D i js = some (js.any (fun j => D.contains (i - j))) := by
  intro js
  induction js with
  | nil => intro _; rfl
  | cons j r ih =>
    intro h
    have hj := h j List.mem_cons_self
    have hr := ih (fun j' hj' => h j' (List.mem_cons_of_mem _ hj'))
    unfold blocked?
    have h1 : ¬ i < j := by omega
    have h2 : ¬ setCap ≤ i - j := by omega
    simp only [h1, h2, if_false]
    by_cases hc : i - j ∈ D
    · simp [hc]
    · have hr' := hr
      simp [hc] at hr' ⊢
      exact hr'

/-- a position that the smaller state (fewer marks, fewer distances) forbids is forbidden in the larger one: the completions
    of a merged-away state, in ABSOLUTE positions, are completions of the merged state -/
theorem blocked_mono (Dm Du : List Nat) (i : Nat) (Mm Mu : List Nat)
    (hM : ∀ x ∈ Mm, x ∈ Mu) (hD : ∀ x ∈ Dm, x ∈ Du) (hu : ∀ j ∈ Mu, j ≤ i ∧ i - j < setCap)
    (hb : blocked? Dm i Mm = some true) : blocked? Du i Mu = some true := by
  rw [blocked_eq Dm i Mm (fun j hj => hu j (hM j hj))] at hb
  rw [blocked_eq Du i Mu hu]
  simp only [Option.some.injEq, List.any_eq_true, List.contains_iff_mem] at hb ⊢
  obtain ⟨j, hj, hd⟩ := hb
  exact ⟨j, hM j hj, hD _ hd⟩

-- ------------------------------------------------------------------------------------------------------------------
-- the potential form of `MergeOk` fails for this model

/-- two states of the third layer of `n = 4`, both reached from the root through decisions of the domain -/
def exU : St := { marks := [0, 2, 5], dists := [2, 3, 5], nm := 3, last := 5 }
def exU' : St := { marks := [0, 2, 3], dists := [1, 2, 3], nm := 3, last := 3 }

theorem exU_reached : 2 ∈ domain 4 0 initSt ∧ trans initSt ⟨0, 2⟩ = { marks := [0, 2], dists := [2], nm := 2, last := 2 } ∧
    5 ∈ domain 4 1 (trans initSt ⟨0, 2⟩) ∧ trans (trans initSt ⟨0, 2⟩) ⟨1, 5⟩ = exU ∧
    3 ∈ domain 4 1 (trans initSt ⟨0, 2⟩) ∧ trans (trans initSt ⟨0, 2⟩) ⟨1, 3⟩ = exU' := by decide

/-- The POTENTIAL form of `MergeOk` (`Wf.lean`: `c + H(u) ≤ relax(c) + H(merge X)`, `relax` = the identity) is false for the
    golomb model, whatever potential `H` is chosen between the true value-to-go on exact states and the model's value-to-go on
    merged states: `{0,2,5}` completes with the mark 6 (worth −1, the optimal ruler `0 2 5 6`), the merged state
    `({0,2}, {2,3}, 3, last 3)` of `{0,2,3}` and `{0,2,5}` needs the mark 6 as well — worth −3 from ITS last mark. -/
theorem merge_arc_form_fails :
    bestRem 4 exU = some (-1) ∧ mergeStates [exU', exU] = { marks := [0, 2], dists := [2, 3], nm := 3, last := 3 } ∧
    bestRem 4 (mergeStates [exU', exU]) = some (-3) ∧
    mergeOkAt (bestRem 4 exU) (bestRem 4 (mergeStates [exU', exU])) (-3) ((relaxation 4).relax (trans initSt ⟨0, 2⟩) exU (mergeStates [exU', exU]) ⟨1, 5⟩ (-3)) = false := by
  decide

/-- on the same pair the absolute form holds: both reach the mark 6 -/
theorem merge_abs_form_example :
    mergeAbsOkAt exU (mergeStates [exU', exU]) (bestRem 4 exU) (bestRem 4 (mergeStates [exU', exU])) (-3) (-3) = true := by
  decide

/-- for the smallest sizes the DP model is exact at the root, by evaluation: minus the value-to-go of the root is the length
    of the shortest ruler of the specification -/
theorem dp_exact_small : ∀ n ∈ [1, 2, 3], bestRem n initSt = (Golomb.shortest n).map (fun L => -(L : Int)) := by
  decide

-- ------------------------------------------------------------------------------------------------------------------
-- stated, not proved: checked pointwise by the driver on every generated case

/-- the states a compilation can build: increasing lists, every mark at most the last mark, mark 0 present, at most `n` marks
    placed, everything inside the 256 bits -/
def StOk (n : Nat) (s : St) : Prop :=
  1 ≤ s.nm ∧ s.nm ≤ n ∧ 0 ∈ s.marks ∧ (∀ x ∈ s.marks, x ≤ s.last) ∧ (∀ x ∈ s.dists, x ≤ s.last) ∧ s.last + (n * n + 1) < setCap

/-- `RubOk`: the rough upper bound dominates the value-to-go of every such state (merged ones included: the marks still to
    place form a ruler of `n - number_of_marks` marks by themselves, whatever was forgotten) -/
def RubAdmissibleStmt (n : Nat) : Prop :=
  1 ≤ n → n ≤ 15 → ∀ s r, StOk n s → rub? n s = some r → bestRem n s ≤ (some r : EInt)

/-- `MergeOk` in ABSOLUTE positions (`relax` is the identity): whatever mark a merged-away state can end on, the merged state
    can end on it or before.  The potential form is false (`merge_arc_form_fails`). -/
def MergeAbsOkStmt (n : Nat) : Prop :=
  ∀ (X : List St) (u : St) (h : Int), u ∈ X → (∀ w ∈ X, StOk n w ∧ w.nm = u.nm) → bestRem n u = some h →
    ∃ h', bestRem n (mergeStates X) = some h' ∧ h - (u.last : Int) ≤ h' - ((mergeStates X).last : Int)

/-- the DP model is exact: minus the value-to-go of the root is the length of the shortest Golomb ruler with `n` marks -/
def DpExactStmt (n : Nat) : Prop :=
  1 ≤ n → n ≤ 15 → bestRem n initSt = (Golomb.shortest n).map (fun L => -(L : Int))

/-- the enumeration with the cut that the driver uses is the plain one -/
def BestRemBBStmt (n : Nat) : Prop := ∀ s, StOk n s → bestRemBB n s = bestRem n s

end Ddo.Examples.GolombModel
