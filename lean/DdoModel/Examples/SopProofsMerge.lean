import DdoModel.Examples.SopProofsStep
/-! `MergeOkStmt` for the repaired sop example (`canSchedule?`, `trans?`): the merged state simulates every merged-away state.

`Sim a b`: same depth, every previous job of `a` is a previous job of `b`, every mandatory job of `b` is mandatory in `a`,
every pending job of `a` is pending in `b`.  With the invariant `Inv` (`must` and `maybe` disjoint; at least as many jobs
pending as positions left) on both sides, `b` allows every job `a` allows (`inDom_sim`: the repaired `can_schedule` counts
the optional jobs that are no predecessors), the successors are again in simulation (`sim_succ`: the repaired `transition`
removes the predecessors of the job from `maybe`) and the arc of `b` is at least as good (`mdist_anti`); hence
`sim_le : bestRemF fuel a ≤ bestRemF fuel b`.  `merge X` simulates each of its members of the same depth (`sim_merge`). -/
namespace Ddo.Examples.SopModel
open Ddo Ddo.Examples Ddo.Examples.Util

variable {T : Tab}

structure Sim (a b : St) : Prop where
  depth : a.depth = b.depth
  prev : ∀ p, isPrev a p → isPrev b p
  must : ∀ x, b.must.testBit x = true → a.must.testBit x = true
  pend : ∀ x, a.must.testBit x = true ∨ (mb a).testBit x = true → b.must.testBit x = true ∨ (mb b).testBit x = true

theorem mdist_anti (hT : TabOk T) {a b : St} (h : Sim a b) (ha : Inv T a) (hb : Inv T b) {j : Nat} (hj : j < T.n) :
    mdist T b j ≤ mdist T a j := by
  obtain ⟨_, _, _, h4⟩ := mdist_spec hT ha.prev_lt hj
  obtain ⟨_, g2, g3, _⟩ := mdist_spec hT hb.prev_lt hj
  rcases h4 with h4 | ⟨p, hp, hne, h4⟩
  · rw [h4]; exact g2
  · have := g3 p (h.prev p hp)
    unfold dI at this
    rw [if_neg hne] at this
    rw [h4]; exact this

/-- the merged side allows every job the merged-away side allows -/
theorem inDom_sim {a b : St} (h : Sim a b) (ha : Inv T a) {j : Nat} (hj : InDom T a j) : InDom T b j := by
  unfold InDom at hj ⊢
  rw [← h.depth]
  split
  · rename_i hl; rw [if_pos hl] at hj; exact hj
  · rename_i hl
    rw [if_neg hl] at hj
    obtain ⟨hmem, hcan⟩ := hj
    obtain ⟨hc1, hc2⟩ := (canB_iff a j).mp hcan
    refine ⟨h.pend j hmem, (canB_iff b j).mpr ⟨?_, ?_⟩⟩
    · intro x hx
      cases hbx : b.must.testBit x with
      | false => rfl
      | true => exact absurd (h.must x hbx) (by rw [hc1 x hx]; simp)
    · intro y hy
      have hyb : mb b = y := by simp [mb, hy]
      -- the pending jobs of `a` that are no predecessors of `j`
      have hA : nv T - a.depth ≤ card a.must + card (diff (mb a) (predOf T j)) := by
        cases hm : a.maybe with
        | none =>
          have h0 : mb a = 0 := by simp [mb, hm]
          have hc := ha.count
          rw [h0, card_zero] at hc
          omega
        | some ya =>
          have : mb a = ya := by simp [mb, hm]
          rw [this]
          exact hc2 ya hm
      have hdisj : card (a.must ||| diff (mb a) (predOf T j)) = card a.must + card (diff (mb a) (predOf T j)) := by
        apply card_union_disj
        intro x hx
        rw [testBit_diff, ha.disj x hx]; rfl
      have hsub : card (a.must ||| diff (mb a) (predOf T j)) ≤ card (b.must ||| diff y (predOf T j)) := by
        apply card_mono
        intro x hx
        rw [Nat.testBit_or, Bool.or_eq_true] at hx ⊢
        have hxp : (predOf T j).testBit x = false := by
          rcases hx with hx | hx
          · cases hp : (predOf T j).testBit x with
            | false => rfl
            | true => rw [hc1 x hp] at hx; cases hx
          · rw [testBit_diff] at hx; simp at hx; exact hx.2
        have hpend : b.must.testBit x = true ∨ (mb b).testBit x = true := by
          apply h.pend
          rcases hx with hx | hx
          · exact Or.inl hx
          · rw [testBit_diff] at hx; simp at hx; exact Or.inr hx.1
        rcases hpend with hp | hp
        · exact Or.inl hp
        · right; rw [testBit_diff, ← hyb, hp, hxp]; rfl
      have hle := card_union_le b.must (diff y (predOf T j))
      rw [← h.depth]
      omega

/-- the successors by an allowed job (not the last variable) are again in simulation -/
theorem sim_succ {a b : St} (h : Sim a b) {j : Nat} (hcan : canB T a j = true) : Sim (succSt T a j) (succSt T b j) := by
  obtain ⟨hc1, _⟩ := (canB_iff a j).mp hcan
  refine ⟨?_, ?_, ?_, ?_⟩
  · show a.depth + 1 = b.depth + 1
    rw [h.depth]
  · intro p hp; exact hp
  · intro x hx
    have hx' : (diff b.must (single j)).testBit x = true := hx
    show (diff a.must (single j)).testBit x = true
    rw [testBit_diff] at hx' ⊢
    simp at hx' ⊢
    exact ⟨h.must x hx'.1, hx'.2⟩
  · intro x hx
    rw [mb_succSt] at hx ⊢
    show (diff b.must (single j)).testBit x = true ∨ _
    have hx' : (diff a.must (single j)).testBit x = true ∨
        (diff (diff (mb a) (single j)) (predOf T j)).testBit x = true := hx
    simp only [testBit_diff, testBit_single] at hx' ⊢
    simp at hx' ⊢
    rcases hx' with ⟨h1, h2⟩ | ⟨⟨h1, h2⟩, h3⟩
    · have hxp : (predOf T j).testBit x = false := by
        cases hp : (predOf T j).testBit x with
        | false => rfl
        | true => rw [hc1 x hp] at h1; cases h1
      rcases h.pend x (Or.inl h1) with hp | hp
      · exact Or.inl ⟨hp, h2⟩
      · exact Or.inr ⟨⟨hp, h2⟩, hxp⟩
    · rcases h.pend x (Or.inr h1) with hp | hp
      · exact Or.inl ⟨hp, h2⟩
      · exact Or.inr ⟨⟨hp, h2⟩, h3⟩

/-- **simulation**: the value-to-go of the simulating state is at least as good -/
theorem sim_le (hT : TabOk T) : ∀ (fuel : Nat) (a b : St), Inv T a → Inv T b → Sim a b →
    bestRemF T .code fuel a ≤ bestRemF T .code fuel b := by
  intro fuel
  induction fuel with
  | zero => intro a b _ _ _; exact EInt.le_refl _
  | succ fuel ih =>
    intro a b ha hb h
    by_cases hd : nv T ≤ a.depth
    · rw [bestRemF_done _ a hd, bestRemF_done _ b (by rw [← h.depth]; exact hd)]
      exact EInt.le_refl _
    · have hda : a.depth < nv T := by omega
      have hdb : b.depth < nv T := by rw [← h.depth]; exact hda
      cases hv : bestRemF T .code (fuel + 1) a with
      | none => exact EInt.none_le _
      | some g =>
        obtain ⟨j, hj, g', hg', hg⟩ := bestRemF_att hT ha hda fuel hv
        have hjb := inDom_sim h ha hj
        have hjn := hj.lt hT ha
        have hmd := mdist_anti hT h ha hb hjn
        have hge := bestRemF_ge hT hb hdb fuel hjb
        have hstep : (some g' : EInt) ≤ bestRemF T .code fuel (succSt T b j) := by
          by_cases hl : a.depth = T.n - 2
          · have : nv T ≤ (succSt T a j).depth := by rw [succSt_depth]; unfold nv at *; omega
            rw [bestRemF_done _ _ this] at hg'
            have : nv T ≤ (succSt T b j).depth := by rw [succSt_depth, ← h.depth]; unfold nv at *; omega
            rw [bestRemF_done _ _ this, ← hg']
            exact EInt.le_refl _
          · have hcan : canB T a j = true := by
              unfold InDom at hj
              rw [if_neg hl] at hj
              exact hj.2
            rw [← hg']
            exact ih _ _ (inv_succ hT ha hda hj) (inv_succ hT hb hdb hjb) (sim_succ h hcan)
        cases hb' : bestRemF T .code fuel (succSt T b j) with
        | none => rw [hb'] at hstep; exact absurd hstep (by simp)
        | some g'' =>
          rw [hb'] at hstep hge
          have h1 : g' ≤ g'' := hstep
          refine EInt.le_trans ?_ hge
          show g ≤ g'' + -mdist T b j
          omega

-- ------------------------------------------------------------------------------------------------------------------
-- `validB` gives `Inv`

theorem inv_of_validB (hT : TabOk T) {s : St} (h : validB T s = true) : Inv T s := by
  unfold validB at h
  simp only [Bool.and_eq_true, decide_eq_true_eq, beq_iff_eq] at h
  obtain ⟨⟨⟨⟨⟨⟨h1, h2⟩, h3⟩, h4⟩, _⟩, _⟩, h7⟩ := h
  have hall : ∀ x, (s.must ||| mb s).testBit x = true → 0 < x ∧ x < T.n := by
    intro x hx
    have := testBit_of_eq_zero h2 x
    rw [testBit_diff] at this
    have hx' : (s.must ||| s.maybe.getD 0).testBit x = true := hx
    rw [hx'] at this
    have h5 : (allJobs T.n).testBit x = true := by
      cases hA : (allJobs T.n).testBit x with
      | true => rfl
      | false =>
        unfold allJobs at hA
        rw [hA] at this
        exact absurd this (by decide)
    rw [testBit_allJobs] at h5
    simpa using h5
  refine ⟨h1, ?_, ?_, ?_, ?_, ?_⟩
  · intro x hx; exact hall x (by rw [Nat.testBit_or, hx]; rfl)
  · intro x hx; exact hall x (by rw [Nat.testBit_or, hx]; simp)
  · intro x hx; exact and_eq_zero_iff.mp h3 x hx
  · intro p hp
    cases hpv : s.prev with
    | job i =>
      rw [hpv] at h4
      have : p = i := by simpa [isPrev, hpv] using hp
      simp at h4
      omega
    | virt c =>
      rw [hpv] at h4
      have hpc : c.testBit p = true := by simpa [isPrev, hpv] using hp
      simp only [Bool.and_eq_true, beq_iff_eq] at h4
      have := testBit_of_eq_zero h4.1.2 p
      rw [testBit_diff, hpc] at this
      have h5 : (ofList ((List.range T.n).drop 1) ||| 1).testBit p = true := by
        cases hA : (ofList ((List.range T.n).drop 1) ||| 1).testBit p with
        | true => rfl
        | false =>
          rw [hA] at this
          exact absurd this (by decide)
      rw [Nat.testBit_or, Bool.or_eq_true] at h5
      rcases h5 with h5 | h5
      · have h6 : (allJobs T.n).testBit p = true := h5
        rw [testBit_allJobs] at h6
        have : 0 < p ∧ p < T.n := by simpa using h6
        exact this.2
      · have := Nat.testBit_one_eq_true_iff_self_eq_zero.mp h5
        have := hT.n_pos
        omega
  · have := card_union_le s.must (mb s)
    have h7' : nv T - s.depth ≤ card (s.must ||| mb s) := h7
    omega

-- ------------------------------------------------------------------------------------------------------------------
-- the merged state

theorem foldl_depth_eq (d : Nat) : ∀ (X : List St) (a : Nat), (∀ s ∈ X, s.depth = d) → a ≤ d → (X ≠ [] ∨ a = d) →
    X.foldl (fun a s => max a s.depth) a = d := by
  intro X
  induction X with
  | nil => intro a _ _ h; rcases h with h | h; exact absurd rfl h; exact h
  | cons x t ih =>
    intro a hX ha _
    simp only [List.foldl_cons]
    have hx := hX x List.mem_cons_self
    exact ih _ (fun s hs => hX s (List.mem_cons_of_mem _ hs)) (by omega) (Or.inr (by omega))

theorem foldl_prev (X : List St) : ∀ (a p : Nat),
    (X.foldl (fun a s => match s.prev with | .job x => a ||| single x | .virt xs => a ||| xs) a).testBit p = true ↔
      (a.testBit p = true ∨ ∃ s ∈ X, isPrev s p) := by
  induction X with
  | nil => intro a p; simp
  | cons x t ih =>
    intro a p
    simp only [List.foldl_cons]
    rw [ih]
    have hx : (match x.prev with | .job y => a ||| single y | .virt xs => a ||| xs).testBit p = true ↔
        (a.testBit p = true ∨ isPrev x p) := by
      unfold isPrev
      cases x.prev with
      | job i =>
        simp only [Nat.testBit_or, testBit_single, Bool.or_eq_true, decide_eq_true_eq]
        constructor
        · rintro (h | h); exact Or.inl h; exact Or.inr h.symm
        · rintro (h | h); exact Or.inl h; exact Or.inr h.symm
      | virt c => simp only [Nat.testBit_or, Bool.or_eq_true]
    rw [hx]
    constructor
    · rintro ((h | h) | ⟨s, hs, h⟩)
      · exact Or.inl h
      · exact Or.inr ⟨x, List.mem_cons_self, h⟩
      · exact Or.inr ⟨s, List.mem_cons_of_mem _ hs, h⟩
    · rintro (h | ⟨s, hs, h⟩)
      · exact Or.inl (Or.inl h)
      · rcases List.mem_cons.mp hs with rfl | hs
        · exact Or.inl (Or.inr h)
        · exact Or.inr ⟨s, hs, h⟩

theorem foldl_and (X : List St) : ∀ (a x : Nat),
    (X.foldl (fun a s => a &&& s.must) a).testBit x = true ↔ (a.testBit x = true ∧ ∀ s ∈ X, s.must.testBit x = true) := by
  induction X with
  | nil => intro a x; simp
  | cons y t ih =>
    intro a x
    simp only [List.foldl_cons]
    rw [ih, Nat.testBit_and, Bool.and_eq_true]
    constructor
    · rintro ⟨⟨h1, h2⟩, h3⟩
      refine ⟨h1, ?_⟩
      intro s hs
      rcases List.mem_cons.mp hs with rfl | hs
      · exact h2
      · exact h3 s hs
    · rintro ⟨h1, h2⟩
      exact ⟨⟨h1, h2 y List.mem_cons_self⟩, fun s hs => h2 s (List.mem_cons_of_mem _ hs)⟩

theorem foldl_or (f : St → Nat) (X : List St) : ∀ (a x : Nat),
    (X.foldl (fun a s => a ||| f s) a).testBit x = true ↔ (a.testBit x = true ∨ ∃ s ∈ X, (f s).testBit x = true) := by
  induction X with
  | nil => intro a x; simp
  | cons y t ih =>
    intro a x
    simp only [List.foldl_cons]
    rw [ih, Nat.testBit_or, Bool.or_eq_true]
    constructor
    · rintro ((h | h) | ⟨s, hs, h⟩)
      · exact Or.inl h
      · exact Or.inr ⟨y, List.mem_cons_self, h⟩
      · exact Or.inr ⟨s, List.mem_cons_of_mem _ hs, h⟩
    · rintro (h | ⟨s, hs, h⟩)
      · exact Or.inl (Or.inl h)
      · rcases List.mem_cons.mp hs with rfl | hs
        · exact Or.inl (Or.inr h)
        · exact Or.inr ⟨s, hs, h⟩

theorem testBit_full256 (x : Nat) : full256.testBit x = decide (x < 256) := Nat.testBit_two_pow_sub_one 256 x

theorem merge_depth (X : List St) (d : Nat) (hne : X ≠ []) (hX : ∀ s ∈ X, s.depth = d) : (merge X).depth = d :=
  foldl_depth_eq d X 0 hX (Nat.zero_le _) (Or.inl hne)

theorem merge_isPrev (X : List St) (p : Nat) : isPrev (merge X) p ↔ ∃ s ∈ X, isPrev s p := by
  have := foldl_prev X 0 p
  simp only [Nat.zero_testBit, Bool.false_eq_true, false_or] at this
  exact this

theorem merge_must (X : List St) (x : Nat) :
    (merge X).must.testBit x = true ↔ (x < 256 ∧ ∀ s ∈ X, s.must.testBit x = true) := by
  have := foldl_and X full256 x
  rw [testBit_full256, decide_eq_true_eq] at this
  exact this

theorem mb_merge (X : List St) : mb (merge X) =
    diff (X.foldl (fun a s => a ||| s.maybe.getD 0) 0 ||| X.foldl (fun a s => a ||| s.must) 0) (merge X).must := by
  unfold mb merge
  simp only
  split
  · rename_i h; rw [h]; rfl
  · rfl

theorem merge_mb (X : List St) (x : Nat) :
    (mb (merge X)).testBit x = true ↔
      ((∃ s ∈ X, s.must.testBit x = true ∨ (mb s).testBit x = true) ∧ (merge X).must.testBit x = false) := by
  rw [mb_merge, testBit_diff, Bool.and_eq_true, Nat.testBit_or, Bool.or_eq_true,
    foldl_or (fun s => s.maybe.getD 0), foldl_or (fun s => s.must)]
  simp only [Nat.zero_testBit, Bool.false_eq_true, false_or, Bool.not_eq_true']
  constructor
  · rintro ⟨h | h, h2⟩
    · obtain ⟨s, hs, h⟩ := h; exact ⟨⟨s, hs, Or.inr h⟩, h2⟩
    · obtain ⟨s, hs, h⟩ := h; exact ⟨⟨s, hs, Or.inl h⟩, h2⟩
  · rintro ⟨⟨s, hs, h | h⟩, h2⟩
    · exact ⟨Or.inr ⟨s, hs, h⟩, h2⟩
    · exact ⟨Or.inl ⟨s, hs, h⟩, h2⟩

/-- every pending job of a merged state is pending in the merge -/
theorem merge_pend (X : List St) {u : St} (hu : u ∈ X) (x : Nat)
    (hx : u.must.testBit x = true ∨ (mb u).testBit x = true) :
    (merge X).must.testBit x = true ∨ (mb (merge X)).testBit x = true := by
  cases hm : (merge X).must.testBit x with
  | true => exact Or.inl rfl
  | false => exact Or.inr ((merge_mb X x).mpr ⟨⟨u, hu, hx⟩, hm⟩)

theorem inv_merge (X : List St) {u : St} (hu : u ∈ X) (hX : ∀ s ∈ X, Inv T s ∧ s.depth = u.depth) :
    Inv T (merge X) := by
  have hne : X ≠ [] := List.ne_nil_of_mem hu
  have hd := merge_depth X u.depth hne (fun s hs => (hX s hs).2)
  have hiu := (hX u hu).1
  refine ⟨by rw [hd]; exact hiu.depth_le, ?_, ?_, ?_, ?_, ?_⟩
  · intro x hx
    exact hiu.must_lt x (((merge_must X x).mp hx).2 u hu)
  · intro x hx
    obtain ⟨⟨s, hs, h⟩, _⟩ := (merge_mb X x).mp hx
    rcases h with h | h
    · exact (hX s hs).1.must_lt x h
    · exact (hX s hs).1.maybe_lt x h
  · intro x hx
    cases hm : (mb (merge X)).testBit x with
    | false => rfl
    | true => rw [((merge_mb X x).mp hm).2] at hx; cases hx
  · intro p hp
    obtain ⟨s, hs, h⟩ := (merge_isPrev X p).mp hp
    exact (hX s hs).1.prev_lt p h
  · rw [hd]
    have h1 : card ((merge X).must ||| mb (merge X)) = card (merge X).must + card (mb (merge X)) := by
      apply card_union_disj
      intro x hx
      cases hm : (mb (merge X)).testBit x with
      | false => rfl
      | true => rw [((merge_mb X x).mp hm).2] at hx; cases hx
    have h2 : card (u.must ||| mb u) = card u.must + card (mb u) := card_union_disj hiu.disj
    have h3 : card (u.must ||| mb u) ≤ card ((merge X).must ||| mb (merge X)) := by
      apply card_mono
      intro x hx
      rw [Nat.testBit_or, Bool.or_eq_true] at hx ⊢
      exact merge_pend X hu x hx
    have := hiu.count
    omega

theorem sim_merge (X : List St) {u : St} (hu : u ∈ X) (hX : ∀ s ∈ X, s.depth = u.depth) :
    Sim u (merge X) :=
  ⟨(merge_depth X u.depth (List.ne_nil_of_mem hu) hX).symm,
   fun p hp => (merge_isPrev X p).mpr ⟨u, hu, hp⟩,
   fun x hx => ((merge_must X x).mp hx).2 u hu,
   fun x hx => merge_pend X hu x hx⟩

/-- the value-to-go of the merged state is at least that of every merged-away state -/
theorem bestRem_merge_ge (hT : TabOk T) (X : List St) {u : St} (hu : u ∈ X)
    (hX : ∀ s ∈ X, Inv T s ∧ s.depth = u.depth) : bestRem T u ≤ bestRem T (merge X) := by
  unfold bestRem
  rw [merge_depth X u.depth (List.ne_nil_of_mem hu) (fun s hs => (hX s hs).2)]
  exact sim_le hT _ _ _ (hX u hu).1 (inv_merge X hu hX) (sim_merge X hu (fun s hs => (hX s hs).2))

/-- **`MergeOkStmt`** (potential form; `relax` is the identity on costs) for the repaired code, on every table the reader
    builds (`TabOk`, `tabOk_tabOf`) -/
theorem mergeOk (hT : TabOk T) : MergeOkStmt T := by
  intro X u c hu _ hX
  have h := bestRem_merge_ge hT X hu (fun s hs => ⟨inv_of_validB hT (hX s hs).1, (hX s hs).2⟩)
  unfold mergeOkAt mergeOkWith relaxCost
  cases hb : bestRem T u with
  | none => rfl
  | some g =>
    rw [hb] at h
    cases hm : bestRem T (merge X) with
    | none => rw [hm] at h; exact absurd h (by simp)
    | some g' =>
      rw [hm] at h
      have : g ≤ g' := h
      simp only [decide_eq_true_eq]
      omega

end Ddo.Examples.SopModel
