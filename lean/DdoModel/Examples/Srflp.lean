/-! Specification of the srflp example (`ddo/examples/srflp`): the Single-Row Facility Layout Problem.

    Problem.  Departments `0 … n-1`, department `i` has length `l[i]`; `c[i][j] = c[j][i]` is the flow between `i`
    and `j`.  The departments are placed side by side on a line, in some order, without gaps.  The distance between
    two departments is the distance between their centres: half of each of their lengths plus the lengths of the
    departments placed between them.  The cost of an order is the sum over all pairs `{i, j}` of
    `c[i][j] * distance(i, j)`; the program must print the minimum over all orders.

    Output convention.  The example prints `Objective:` as a float (`-best + root_value`), which is an integer or a
    half-integer (`1100`, `27.5`).  The harness maps it to `obj` = TWICE the printed value, and this specification
    computes twice the cost, so that everything stays in integers.  (`-1`, i.e. `obj -2`, would be printed when no
    solution exists: that never happens, every order is a solution.)

    The specification enumerates all permutations of the departments.  It reads the flow of a pair from the upper
    triangle (`c[min i j][max i j]`); in-domain instances are symmetric, so this only matters for the instances
    tagged `ood_asymmetric`.

    Instance file: `n`, then a line with the `n` lengths, then `n` rows of `n` flows; numbers are separated by
    commas and/or blanks, empty lines are skipped.  (If the PATH of the file contains "Cl", the reader adds a
    clearance of 10 to every length: the harness never produces such a path.)
    Spec tokens: `n l[0] … l[n-1] c[0][0] c[0][1] … c[n-1][n-1]`. -/
namespace Ddo.Examples.Srflp

def inserts (x : Nat) : List Nat → List (List Nat)
  | [] => [[x]]
  | y :: ys => (x :: y :: ys) :: (inserts x ys).map (y :: ·)

def perms : List Nat → List (List Nat)
  | [] => [[]]
  | x :: xs => (perms xs).flatMap (inserts x)

/-- twice the cost of the pairs `(i, j)` for the departments `j` placed after `i`, where `between2` is twice the
    total length of the departments placed between `i` and the head of the list -/
def pairsFrom (l : Nat → Int) (c : Nat → Nat → Int) (i : Nat) : Int → List Nat → Int
  | _, [] => 0
  | between2, j :: rest =>
    c (min i j) (max i j) * (l i + l j + between2) + pairsFrom l c i (between2 + 2 * l j) rest

/-- twice the cost of an order -/
def cost2 (l : Nat → Int) (c : Nat → Nat → Int) : List Nat → Int
  | [] => 0
  | i :: rest => pairsFrom l c i 0 rest + cost2 l c rest

def minimum : List Int → Option Int
  | [] => none
  | x :: xs => some (xs.foldl min x)

def spec (n : Nat) (l : Nat → Int) (c : Nat → Nat → Int) : Int :=
  (minimum ((perms (List.range n)).map (cost2 l c))).getD (-2)

/-- tokens: `n`, the `n` lengths, the `n*n` flows row by row -/
def specFromTokens : List Int → Option Int
  | n :: rest =>
    let n := n.toNat
    let m := rest.toArray
    if n ≥ 1 ∧ m.size = n + n * n then
      some (spec n (fun i => m.getD i 0) (fun i j => m.getD (n + i * n + j) 0))
    else none
  | _ => none

end Ddo.Examples.Srflp
