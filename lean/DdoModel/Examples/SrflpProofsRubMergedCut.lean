import DdoModel.Examples.SrflpProofsRubMergedDefs
/-! Merged states of the srflp example, the CUT part of the rough bound: the cost `GG l w M Y q` of a path with the fixed weights
    `w` (the cuts of the state) is at least the weighted completion time of SOME order of the jobs of the bound (the members of
    `M` with their own length and cut; the `i`-th least length of `Y` with the `(r-1-i)`-th least cut of `Y`). -/
namespace Ddo.Examples.SrflpModel
open Ddo Ddo.Examples Ddo.Examples.Util Ddo.SpecUtil

/-- `Σ_t l(q_t) · (the weights of the members of `M` after `t` + the `ρ_t` least entries of `ys`)` -/
def cutCL (l w : Nat → Int) (M : List Nat) (ys : List Int) : List Nat → Int
  | [] => 0
  | j :: q => l j * (((q.filter (fun i => M.contains i)).map w).sum + (ys.take (nonM M q)).sum) + cutCL l w M ys q

/-- the jobs of the path: a member of `M` keeps `(l j, w j)`, the optional pick number `p` (from the front) gets the length
    `lo p j` and the cut `ys[ρ]`, `ρ` = the number of optional picks after it -/
def cutJobs (l w : Nat → Int) (M : List Nat) (ys : List Int) (lo : Nat → Nat → Int) : Nat → List Nat → List (Int × Int)
  | _, [] => []
  | p, j :: q =>
    if M.contains j then (l j, w j) :: cutJobs l w M ys lo p q
    else (lo p j, ys.getD (nonM M q) 0) :: cutJobs l w M ys lo (p + 1) q

theorem cut_take_succ_sum_getD : ∀ (L : List Int) (k : Nat), (L.take (k + 1)).sum = (L.take k).sum + L.getD k 0 := by
  intro L
  induction L with
  | nil => intro k; simp
  | cons a L ih =>
    intro k
    cases k with
    | zero => simp
    | succ k =>
      have := ih k
      simp only [List.take_succ_cons, List.sum_cons, List.getD_cons_succ] at this ⊢
      omega

theorem cut_getD_nonneg (L : List Int) (h : ∀ x ∈ L, 0 ≤ x) (k : Nat) : 0 ≤ L.getD k 0 := by
  rw [List.getD_eq_getElem?_getD]
  cases e : L[k]? with
  | none => simp
  | some a => exact h a (List.mem_of_getElem? e)

theorem nonM_le_length_cut (M q Y : List Nat) (hq : q.Nodup) (h : ∀ i ∈ q, i ∉ M → i ∈ Y) : nonM M q ≤ Y.length := by
  unfold nonM
  apply List.Nodup.length_le_of_subset (hq.sublist List.filter_sublist)
  intro i hi
  rw [List.mem_filter] at hi
  exact h i hi.1 (by simpa using hi.2)

/-- step 1: the least sums over what is left of `Y` are at least the least sums over `Y` -/
theorem GG_ge_cutCL (l w : Nat → Int) (M : List Nat) (ys : List Int) : ∀ (q Y' : List Nat),
    q.Nodup → Y'.Nodup → (∀ i ∈ q, i ∉ M → i ∈ Y') → (∀ i ∈ q, 0 ≤ l i) →
    (∀ A : List Nat, A.Nodup → (∀ a ∈ A, a ∈ Y') → (ys.take A.length).sum ≤ (A.map w).sum) →
    cutCL l w M ys q ≤ GG l w M Y' q := by
  intro q
  induction q with
  | nil => intro Y' _ _ _ _ _; simp [cutCL, GG]
  | cons j q ih =>
    intro Y' hq hY hsub hl hinv
    obtain ⟨hjq, hq'⟩ := List.nodup_cons.mp hq
    have hY'' : (Y'.filter (· ≠ j)).Nodup := hY.sublist List.filter_sublist
    have hsub' : ∀ i ∈ q, i ∉ M → i ∈ Y'.filter (· ≠ j) := by
      intro i hi hiM
      rw [List.mem_filter]
      refine ⟨hsub i (List.mem_cons_of_mem _ hi) hiM, ?_⟩
      have : i ≠ j := fun e => hjq (e ▸ hi)
      simpa using this
    have hinv' : ∀ A : List Nat, A.Nodup → (∀ a ∈ A, a ∈ Y'.filter (· ≠ j)) → (ys.take A.length).sum ≤ (A.map w).sum :=
      fun A hA hAs => hinv A hA (fun a ha => (List.mem_filter.mp (hAs a ha)).1)
    have hih := ih (Y'.filter (· ≠ j)) hq' hY'' hsub' (fun i hi => hl i (List.mem_cons_of_mem _ hi)) hinv'
    have hlen := nonM_le_length_cut M q (Y'.filter (· ≠ j)) hq' hsub'
    obtain ⟨A, hA, hAs, hAl, hAe⟩ := leastSum_attained (Y'.filter (· ≠ j)) w (nonM M q) hY'' hlen
    have h1 := hinv' A hA hAs
    rw [hAl] at h1
    rw [sum_eq] at hAe
    have hlj := hl j List.mem_cons_self
    have h2 : l j * (((q.filter (fun i => M.contains i)).map w).sum + (ys.take (nonM M q)).sum) ≤
        l j * (((q.filter (fun i => M.contains i)).map w).sum + leastSum (nonM M q) ((Y'.filter (· ≠ j)).map w)) :=
      Int.mul_le_mul_of_nonneg_left (by omega) hlj
    simp only [cutCL, GG]
    omega

theorem cutJobs_cons_mem (l w : Nat → Int) (M : List Nat) (ys : List Int) (lo : Nat → Nat → Int) (p j : Nat) (q : List Nat)
    (h : M.contains j = true) :
    cutJobs l w M ys lo p (j :: q) = (l j, w j) :: cutJobs l w M ys lo p q := by
  simp only [cutJobs, h, if_true]

theorem cutJobs_cons_not (l w : Nat → Int) (M : List Nat) (ys : List Int) (lo : Nat → Nat → Int) (p j : Nat) (q : List Nat)
    (h : M.contains j = false) :
    cutJobs l w M ys lo p (j :: q) = (lo p j, ys.getD (nonM M q) 0) :: cutJobs l w M ys lo (p + 1) q := by
  simp only [cutJobs, h, Bool.false_eq_true, if_false]

/-- step 2: `cutCL` is the weighted completion time of the jobs with the own lengths -/
theorem wct_cutJobs_own (l w : Nat → Int) (M : List Nat) (ys : List Int) : ∀ (q : List Nat) (p : Nat) (B : Int),
    wct B (cutJobs l w M ys (fun _ j => l j) p q) =
      B * (((q.filter (fun i => M.contains i)).map w).sum + (ys.take (nonM M q)).sum) + cutCL l w M ys q := by
  intro q
  induction q with
  | nil => intro p B; simp [cutJobs, cutCL]
  | cons j q ih =>
    intro p B
    cases h : M.contains j
    · have e : nonM M (j :: q) = nonM M q + 1 := by rw [nonM_cons, h]; simp; omega
      have e2 := cut_take_succ_sum_getD ys (nonM M q)
      have e3 : (j :: q).filter (fun i => M.contains i) = q.filter (fun i => M.contains i) := by
        simp only [List.filter_cons, h, Bool.false_eq_true, if_false]
      rw [cutJobs_cons_not _ _ _ _ _ _ _ _ h, wct_cons, ih, e, e2, e3]
      simp only [cutCL]
      grind
    · have e : nonM M (j :: q) = nonM M q := by rw [nonM_cons, h]; simp
      have e3 : (j :: q).filter (fun i => M.contains i) = j :: q.filter (fun i => M.contains i) := by
        simp only [List.filter_cons, h, if_true]
      rw [cutJobs_cons_mem _ _ _ _ _ _ _ _ h, wct_cons, ih, e, e3]
      simp only [cutCL, List.map_cons, List.sum_cons]
      grind

/-- step 3: the `p`-th optional pick gets the `p`-th entry of `Lm` as its length -/
theorem wct_cutJobs_le (l w : Nat → Int) (M Y : List Nat) (ys Lm : List Int) (R : Nat)
    (hys : ∀ x ∈ ys, 0 ≤ x)
    (hLm : ∀ A : List Nat, A.Nodup → (∀ a ∈ A, a ∈ Y) → A.length ≤ R → (Lm.take A.length).sum ≤ (A.map l).sum) :
    ∀ (q : List Nat) (p : Nat) (P : List Nat) (C : Int),
    q.Nodup → P.Nodup → (∀ a ∈ P, a ∈ Y) → P.length = p → (∀ i ∈ q, i ∉ P) → (∀ i ∈ q, i ∈ M ∨ i ∈ Y) →
    p + nonM M q ≤ R → (∀ i ∈ q, 0 ≤ w i) →
    wct (C + (Lm.take p).sum) (cutJobs l w M ys (fun p _ => Lm.getD p 0) p q) ≤
      wct (C + (P.map l).sum) (cutJobs l w M ys (fun _ j => l j) p q) := by
  intro q
  induction q with
  | nil => intros; simp [cutJobs]
  | cons j q ih =>
    intro p P C hq hP hPY hPl hqP hqMY hR hw
    obtain ⟨hjq, hq'⟩ := List.nodup_cons.mp hq
    have hB : (Lm.take p).sum ≤ (P.map l).sum := by
      have := hLm P hP hPY (by omega)
      rwa [hPl] at this
    have hqP' : ∀ i ∈ q, i ∉ P := fun i hi => hqP i (List.mem_cons_of_mem _ hi)
    have hqMY' : ∀ i ∈ q, i ∈ M ∨ i ∈ Y := fun i hi => hqMY i (List.mem_cons_of_mem _ hi)
    have hw' : ∀ i ∈ q, 0 ≤ w i := fun i hi => hw i (List.mem_cons_of_mem _ hi)
    cases h : M.contains j
    · have e : nonM M (j :: q) = nonM M q + 1 := by rw [nonM_cons, h]; simp; omega
      have hjM : j ∉ M := by simpa using h
      have hjY : j ∈ Y := by
        rcases hqMY j List.mem_cons_self with h1 | h1
        · exact absurd h1 hjM
        · exact h1
      have hP' : (j :: P).Nodup := List.nodup_cons.mpr ⟨hqP j List.mem_cons_self, hP⟩
      have hPY' : ∀ a ∈ j :: P, a ∈ Y := by
        intro a ha
        rcases List.mem_cons.mp ha with e | e
        · exact e ▸ hjY
        · exact hPY a e
      have hqP'' : ∀ i ∈ q, i ∉ j :: P := by
        intro i hi hc
        rcases List.mem_cons.mp hc with e | e
        · exact hjq (e ▸ hi)
        · exact hqP' i hi e
      have hih := ih (p + 1) (j :: P) C hq' hP' hPY' (by simp [hPl]) hqP'' hqMY' (by omega) hw'
      have e2 := cut_take_succ_sum_getD Lm p
      have hom := cut_getD_nonneg ys hys (nonM M q)
      have hmul : (C + (Lm.take p).sum) * ys.getD (nonM M q) 0 ≤ (C + (P.map l).sum) * ys.getD (nonM M q) 0 :=
        Int.mul_le_mul_of_nonneg_right (by omega) hom
      rw [cutJobs_cons_not _ _ _ _ _ _ _ _ h, cutJobs_cons_not _ _ _ _ _ _ _ _ h, wct_cons, wct_cons]
      simp only [List.map_cons, List.sum_cons] at hih
      rw [e2] at hih
      have a1 : C + (Lm.take p).sum + Lm.getD p 0 = C + ((Lm.take p).sum + Lm.getD p 0) := by omega
      have a2 : C + (P.map l).sum + l j = C + (l j + (P.map l).sum) := by omega
      simp only [a1, a2]
      omega
    · have e : nonM M (j :: q) = nonM M q := by rw [nonM_cons, h]; simp
      have hih := ih p P (C + l j) hq' hP hPY hPl hqP' hqMY' (by omega) hw'
      have hom := hw j List.mem_cons_self
      have hmul : (C + (Lm.take p).sum) * w j ≤ (C + (P.map l).sum) * w j :=
        Int.mul_le_mul_of_nonneg_right (by omega) hom
      rw [cutJobs_cons_mem _ _ _ _ _ _ _ _ h, cutJobs_cons_mem _ _ _ _ _ _ _ _ h, wct_cons, wct_cons]
      have a1 : C + (Lm.take p).sum + l j = C + l j + (Lm.take p).sum := by omega
      have a2 : C + (P.map l).sum + l j = C + l j + (P.map l).sum := by omega
      simp only [a1, a2]
      omega

/-- step 4: the jobs of the path are the jobs of the bound -/
theorem cutJobs_perm (l w : Nat → Int) (M : List Nat) (ys Lm : List Int) : ∀ (q : List Nat) (p : Nat),
    (cutJobs l w M ys (fun p _ => Lm.getD p 0) p q).Perm
      ((q.filter (fun i => M.contains i)).map (fun i => (l i, w i)) ++
        (List.range (nonM M q)).map (fun i => (Lm.getD (p + i) 0, ys.getD (nonM M q - 1 - i) 0))) := by
  intro q
  induction q with
  | nil => intro p; simp [cutJobs]
  | cons j q ih =>
    intro p
    cases h : M.contains j
    · have e : nonM M (j :: q) = nonM M q + 1 := by rw [nonM_cons, h]; simp; omega
      have e3 : (j :: q).filter (fun i => M.contains i) = q.filter (fun i => M.contains i) := by
        simp only [List.filter_cons, h, Bool.false_eq_true, if_false]
      rw [cutJobs_cons_not _ _ _ _ _ _ _ _ h, e, e3, List.range_succ_eq_map, List.map_cons, List.map_map]
      refine ((List.Perm.cons _ (ih (p + 1))).trans List.perm_middle.symm).trans ?_
      apply List.Perm.of_eq
      congr 1
      congr 1
      apply List.map_congr_left
      intro i _
      simp only [Function.comp, Nat.succ_eq_add_one]
      have a1 : p + 1 + i = p + (i + 1) := by omega
      have a2 : nonM M q + 1 - 1 - (i + 1) = nonM M q - 1 - i := by omega
      rw [a1, a2]
    · have e : nonM M (j :: q) = nonM M q := by rw [nonM_cons, h]; simp
      have e3 : (j :: q).filter (fun i => M.contains i) = j :: q.filter (fun i => M.contains i) := by
        simp only [List.filter_cons, h, if_true]
      rw [cutJobs_cons_mem _ _ _ _ _ _ _ _ h, e, e3]
      exact List.Perm.cons _ (ih p)

theorem cut_filter_contains_perm (M q : List Nat) (hq : q.Nodup) (hM : M.Nodup) (hMq : ∀ i ∈ M, i ∈ q) :
    (q.filter (fun i => M.contains i)).Perm M := by
  rw [List.perm_ext_iff_of_nodup (hq.sublist List.filter_sublist) hM]
  intro a
  rw [List.mem_filter]
  constructor
  · intro h; simpa using h.2
  · intro h; exact ⟨hMq a h, by simpa using h⟩

set_option linter.unusedVariables false in
theorem cut_part (l w : Nat → Int) (M Y q : List Nat)
    (hq : q.Nodup) (hM : M.Nodup) (hY : Y.Nodup) (hMq : ∀ i ∈ M, i ∈ q) (hqMY : ∀ i ∈ q, i ∈ M ∨ i ∈ Y)
    (hdisj : ∀ i ∈ M, i ∉ Y)
    (hl : ∀ i, i ∈ M ∨ i ∈ Y → 0 ≤ l i) (hw : ∀ i, i ∈ M ∨ i ∈ Y → 0 ≤ w i)
    (Lm : List Int) (hLl : Lm.length = nonM M q)
    (hLm : ∀ A : List Nat, A.Nodup → (∀ a ∈ A, a ∈ Y) → A.length ≤ nonM M q → (Lm.take A.length).sum ≤ (A.map l).sum) :
    ∃ js : List (Int × Int),
      js.Perm (M.map (fun i => (l i, w i)) ++
        (List.range (nonM M q)).map (fun i => (Lm.getD i 0, (sortInts (Y.map w)).getD (nonM M q - 1 - i) 0))) ∧
      wct 0 js ≤ GG l w M Y q := by
  refine ⟨cutJobs l w M (sortInts (Y.map w)) (fun p _ => Lm.getD p 0) 0 q, ?_, ?_⟩
  · have h1 := cutJobs_perm l w M (sortInts (Y.map w)) Lm q 0
    simp only [Nat.zero_add] at h1
    exact h1.trans (List.Perm.append_right _ ((cut_filter_contains_perm M q hq hM hMq).map _))
  · have hys : ∀ x ∈ sortInts (Y.map w), 0 ≤ x := by
      intro x hx
      unfold sortInts at hx
      rw [List.mem_mergeSort, List.mem_map] at hx
      obtain ⟨y, hy, rfl⟩ := hx
      exact hw y (Or.inr hy)
    have h3 := wct_cutJobs_le l w M Y (sortInts (Y.map w)) Lm (nonM M q) hys hLm q 0 [] 0 hq List.nodup_nil
      (by simp) rfl (by simp) hqMY (by omega) (fun i hi => hw i (hqMY i hi))
    have h2 := wct_cutJobs_own l w M (sortInts (Y.map w)) q 0 0
    have h1 := GG_ge_cutCL l w M (sortInts (Y.map w)) q Y hq hY
      (fun i hi hiM => (hqMY i hi).resolve_left hiM) (fun i hi => hl i (hqMY i hi))
      (by
        intro A hA hAs
        have := leastSum_le_choice A Y w w hA hAs (fun _ _ => Int.le_refl _)
        unfold leastSum at this
        rwa [sum_eq, sum_eq] at this)
    simp only [List.take_zero, List.sum_nil, List.map_nil, Int.add_zero] at h3
    rw [h2] at h3
    omega

#print axioms cut_part

end Ddo.Examples.SrflpModel
