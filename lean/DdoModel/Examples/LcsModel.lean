import DdoModel.Examples.LcsDp
import DdoModel.Examples.McpModel
/-! Statements and proofs about the Lean model of the shipped lcs example (`LcsDp.lean`, the model the driver engine
    `exmodel`, family `lcs`, ties pointwise to the example's own code).

* `best_eq_specBestExt` (**proved**): with no character taken, the specification value the driver compares the DP with is
  `Lcs.best`;
* `domain_ne_nil` (**proved**): no state has an empty domain (when `for_each_in_domain` does not panic): the value-to-go is
  never −∞; `cost_nonneg`, `cost_le_one` (**proved**): a decision is worth `0` or `1`;
* `nextFrom_length`, `remFrom_length`, `remFrom_nonneg` (**proved**): the tables the reader builds have one entry per
  position `0 … len`, the numbers of remaining occurrences are non-negative;
* `mergeStep_spec`, `foldl_merge_spec`, `merge_le`, `merge_le_len`, `merge_length` (**proved**): the merged state has one
  position per string, each no larger than the position of EVERY merged state (in whatever order they are given) and than
  the length of the string; `relax_id` (**proved**): `relax` returns the cost unchanged;
* `mergeOkAt_of_le` (**proved**): since `relax` is the identity, `MergeOk` at `(u, m)` follows from `H(u) ≤ H(m)`;
* stated here as `def … : Prop` (full strength, also evaluated pointwise by the driver on every generated instance of the
  domain) and **all proved** in `LcsProofs*.lean` (summary and `#print axioms`: `LcsProofsMain.lean`):
  `BestRemAntitoneStmt` (a state that is position-wise no further than another has a value-to-go at least as large — the
  fact behind both the merge operator and the dominance rule; theorem `bestRemAntitone`), `MergeOkStmt` (`mergeOk`),
  `RubAdmissibleStmt` (`rubAdmissible`), `DominanceOkStmt` (`dominanceOk`), `DpExactStmt` (`dpExact`).  The key fact is
  `bestRem_spec`: the value-to-go of a valid state is the length of a longest common subsequence of the suffixes the state
  points at.  `LcsProofsWf.lean` / `LcsProofsMain.lean`: the `WfRel` instance and the corollaries `lcs_relaxed_ub` (clean
  diagram) and `lcs_relaxed_ub_pooled` (pooled diagram with long arcs, the one the example ships with). -/
namespace Ddo.Examples.LcsModel
open Ddo Ddo.Examples Ddo.Examples.Util

/-- at the root the driver's specification value is `Lcs.best` -/
theorem best_eq_specBestExt (lines : List (List Int)) : Lcs.best lines = specBestExt lines [] := by
  cases lines with
  | nil => rfl
  | cons f o => simp [Lcs.best, specBestExt, specOf, commons, List.filterMap_filter]

theorem cost_nonneg (v : Int) : 0 ≤ cost v := by unfold cost; split <;> omega
theorem cost_le_one (v : Int) : cost v ≤ 1 := by unfold cost; split <;> omega

-- ------------------------------------------------------------------------------------------------------------------
-- the tables of the reader

theorem nextFrom_length (j : Nat) : ∀ (s : List Nat) (i : Nat), (nextFrom j i s).length = s.length + 1 := by
  intro s
  induction s with
  | nil => intro i; rfl
  | cons c r ih => intro i; simp [nextFrom, ih]

theorem remFrom_length (j : Nat) : ∀ (s : List Nat), (remFrom j s).length = s.length + 1 := by
  intro s
  induction s with
  | nil => rfl
  | cons c r ih => simp [remFrom, ih]

theorem remFrom_nonneg (j : Nat) : ∀ (s : List Nat), ∀ x ∈ remFrom j s, 0 ≤ x := by
  intro s
  induction s with
  | nil => intro x hx; simp [remFrom] at hx; omega
  | cons c r ih =>
    intro x hx
    simp only [remFrom, List.mem_cons] at hx
    rcases hx with rfl | hx
    · have h0 : 0 ≤ (remFrom j r).headD 0 := by
        cases hr : remFrom j r with
        | nil => simp
        | cons a t => simp only [List.headD_cons]; exact ih a (by rw [hr]; exact List.mem_cons_self ..)
      split <;> omega
    · exact ih x hx

variable (I : Inst)

/-- no state has an empty domain -/
theorem domain_ne_nil (s : St) (d : List Int) (h : domain? I s = some d) : d ≠ [] := by
  unfold domain? at h
  simp only [bind, Option.bind] at h
  split at h
  · cases h
  · simp only [pure, Option.some.injEq] at h
    subst h
    split <;> simp_all

/-- `relax` returns the cost unchanged -/
theorem relax_id (a b m : St) (d : Dec) (c : Int) : (relaxation I).relax a b m d c = c := rfl

-- ------------------------------------------------------------------------------------------------------------------
-- the merge operator

/-- one state merged into the accumulator -/
def mergeStep (acc s : St) : Option St :=
  (List.range I.nStrings).mapM fun i => do
    let a ← acc[i]?
    let b ← s[i]?
    pure (min a b)

theorem merge?_eq (X : List St) : merge? I X = X.foldlM (mergeStep I) I.len := rfl

theorem mergeStep_spec {acc s r : St} (h : mergeStep I acc s = some r) :
    r.length = I.nStrings ∧ ∀ i, i < I.nStrings → ∃ a b, acc[i]? = some a ∧ s[i]? = some b ∧ r[i]? = some (min a b) := by
  unfold mergeStep at h
  have hlen := (McpModel.mapM_some h).1
  simp only [List.length_range] at hlen
  refine ⟨hlen, ?_⟩
  intro i hi
  have := McpModel.mapM_getElem h i (by simpa using hi) (by omega)
  simp only [List.getElem_range] at this
  cases ha : acc[i]? with
  | none => simp [ha] at this
  | some a =>
    cases hb : s[i]? with
    | none => simp [ha, hb] at this
    | some b =>
      simp [ha, hb] at this
      refine ⟨a, b, rfl, rfl, ?_⟩
      rw [List.getElem?_eq_getElem (by omega)]
      simp [this]

theorem foldl_merge_spec : ∀ (X : List St) (acc m : St), I.nStrings ≤ acc.length → X.foldlM (mergeStep I) acc = some m →
    m.length ≥ I.nStrings ∧
    (∀ i, i < I.nStrings → ∃ a c, m[i]? = some a ∧ acc[i]? = some c ∧ a ≤ c) ∧
    (∀ u ∈ X, ∀ i, i < I.nStrings → ∃ a b, m[i]? = some a ∧ u[i]? = some b ∧ a ≤ b) := by
  intro X
  induction X with
  | nil =>
    intro acc m hacc h
    simp only [List.foldlM_nil, pure, Option.some.injEq] at h
    subst h
    refine ⟨hacc, ?_, ?_⟩
    · intro i hi
      exact ⟨acc[i], acc[i], List.getElem?_eq_getElem (by omega), List.getElem?_eq_getElem (by omega), Nat.le_refl _⟩
    · intro u hu; cases hu
  | cons x t ih =>
    intro acc m hacc h
    simp only [List.foldlM_cons, bind, Option.bind] at h
    split at h
    · cases h
    · next acc' hstep =>
      obtain ⟨hl, hs⟩ := mergeStep_spec I hstep
      obtain ⟨hm, h1, h2⟩ := ih acc' m (by omega) h
      refine ⟨hm, ?_, ?_⟩
      · intro i hi
        obtain ⟨a, c, ha, hc, hac⟩ := h1 i hi
        obtain ⟨a0, b0, ha0, _, hr⟩ := hs i hi
        rw [hr] at hc
        cases hc
        exact ⟨a, a0, ha, ha0, by omega⟩
      · intro u hu i hi
        rcases List.mem_cons.mp hu with rfl | hu
        · obtain ⟨a, c, ha, hc, hac⟩ := h1 i hi
          obtain ⟨a0, b0, _, hb0, hr⟩ := hs i hi
          rw [hr] at hc
          cases hc
          exact ⟨a, b0, ha, hb0, by omega⟩
        · exact h2 u hu i hi

/-- the merged state is, position by position, no further than every merged state -/
theorem merge_le {X : List St} {m u : St} (hlen : I.nStrings ≤ I.len.length) (h : merge? I X = some m) (hu : u ∈ X)
    {i : Nat} (hi : i < I.nStrings) : ∃ a b, m[i]? = some a ∧ u[i]? = some b ∧ a ≤ b :=
  (foldl_merge_spec I X I.len m hlen (by rw [← merge?_eq]; exact h)).2.2 u hu i hi

/-- … and no further than the end of the string -/
theorem merge_le_len {X : List St} {m : St} (hlen : I.nStrings ≤ I.len.length) (h : merge? I X = some m)
    {i : Nat} (hi : i < I.nStrings) : ∃ a l, m[i]? = some a ∧ I.len[i]? = some l ∧ a ≤ l :=
  (foldl_merge_spec I X I.len m hlen (by rw [← merge?_eq]; exact h)).2.1 i hi

/-- the merged state has (at least) one position per string -/
theorem merge_length {X : List St} {m : St} (hlen : I.nStrings ≤ I.len.length) (h : merge? I X = some m) :
    I.nStrings ≤ m.length :=
  (foldl_merge_spec I X I.len m hlen (by rw [← merge?_eq]; exact h)).1

/-- `relax` being the identity, `MergeOk` at `(u, m)` is `H(u) ≤ H(m)` -/
theorem mergeOkAt_of_le {u m : St} (c : Int) (h : bestRem I u ≤ bestRem I m) : mergeOkAt I u m c c = true := by
  unfold mergeOkAt
  cases hu : bestRem I u with
  | none => rfl
  | some a =>
    cases hm : bestRem I m with
    | none => rw [hu, hm] at h; exact absurd h (by simp)
    | some b =>
      rw [hu, hm] at h
      have : a ≤ b := h
      simp only [decide_eq_true_eq]
      omega

-- ------------------------------------------------------------------------------------------------------------------
-- the statements (what the driver evaluates pointwise on every generated case); proved in `LcsProofs*.lean`

/-- the instances the statements are about: what the reader builds from a file of the domain -/
def InstOk (k declared : Nat) (lines : List (List Int)) (J : Inst) : Prop :=
  inDomain k declared lines = true ∧ readInst k declared lines = .ok J

/-- `u` is position by position no further than `v` -/
def PosLe (u v : St) : Prop := u.length = v.length ∧ ∀ (i a b : Nat), u[i]? = some a → v[i]? = some b → a ≤ b

/-- (proved: `bestRemAntitone`) the value-to-go is antitone in the positions: the fact behind the merge operator and the dominance rule -/
def BestRemAntitoneStmt : Prop :=
  ∀ (k declared : Nat) (lines : List (List Int)) (J : Inst), InstOk k declared lines J →
    ∀ u m : St, validB J u = true → validB J m = true → PosLe m u → bestRem J u ≤ bestRem J m

/-- `RubOk` (proved: `rubAdmissible`): the rough upper bound dominates the value-to-go of every valid state (reachable or not) -/
def RubAdmissibleStmt : Prop :=
  ∀ (k declared : Nat) (lines : List (List Int)) (J : Inst), InstOk k declared lines J →
    ∀ s : St, validB J s = true → bestRem J s ≤ some ((relaxation J).rub s)

/-- `MergeOk` (proved: `mergeOk`; potential form): for every merged-away state `u` of a list `X` of valid states, an arc of cost `c`
    into `u` and the cost `r` it is relaxed to: `c + H(u) ≤ r + H(merge X)` -/
def MergeOkStmt : Prop :=
  ∀ (k declared : Nat) (lines : List (List Int)) (J : Inst), InstOk k declared lines J →
    ∀ (X : List St) (u m src : St) (d : Dec) (c : Int), (∀ s ∈ X, validB J s = true) → u ∈ X → merge? J X = some m →
      mergeOkAt J u m c ((relaxation J).relax src u m d c) = true

/-- (proved: `dominanceOk`) the dominance rule is admissible: a verdict of `partial_cmp` on two valid states of one key orders what the
    two states can still reach -/
def DominanceOkStmt : Prop :=
  ∀ (k declared : Nat) (lines : List (List Int)) (J : Inst), InstOk k declared lines J →
    ∀ (a b : St) (va vb : Int) (o : Ordering) (ovd : Bool), validB J a = true → validB J b = true →
      domRule.key a = domRule.key b → domRule.partialCmp a va b vb = some (o, ovd) → domOkAt J a va b vb o = true

/-- exactness of the DP model (proved: `dpExact`): along any path of the model from the root (long arcs or not), value + value-to-go
    is the length of the longest common subsequence of the specification among those that begin with the characters taken -/
def DpExactStmt : Prop :=
  ∀ (k declared : Nat) (lines : List (List Int)) (J : Inst), InstOk k declared lines J →
    ∀ (ds : List (Nat × Int)) (s : St) (v : Int), replay J ds = some (s, v) →
      (bestRem J s).addI v = specBestExt lines (prefixOf J ds)

/-- `MergeOkStmt` follows from `BestRemAntitoneStmt` once the merged state is known to be valid and position-wise below
    (`merge_le`, `merge_le_len`): the reduction the proofs above prepare -/
theorem mergeOk_of_antitone (hanti : BestRemAntitoneStmt) {k declared : Nat} {lines : List (List Int)} {J : Inst}
    (hJ : InstOk k declared lines J) {u m src : St} {d : Dec} (c : Int)
    (hu : validB J u = true) (hm : validB J m = true) (hle : PosLe m u) :
    mergeOkAt J u m c ((relaxation J).relax src u m d c) = true :=
  mergeOkAt_of_le J c (hanti k declared lines J hJ u m hu hm hle)

end Ddo.Examples.LcsModel
