import DdoModel.Dp
import DdoModel.Examples.Mcp
/-! The DP model, relaxation and ranking of the shipped mcp example (`ddo/examples/mcp/{graph,model,relax}.rs`, maximum cut)
    in Lean: definitions only (the driver engine `exmodel`, family `mcp`, compares them pointwise with the example's own
    code, compiled into the harness; statements about them are in `McpModel.lean`).

Mirror of the Rust code (MAXIMISATION: the costs are gains).
* `graph.rs`: `Graph::from_lines` builds an `n × n` adjacency matrix (`<n> <m>` line: a fresh zero matrix); every
  `<u> <v> <w>` line (1-based) does `adj[u-1][v-1] := w; adj[v-1][u-1] := w`: the LAST weight of a repeated edge is kept, a
  self-loop lands on the diagonal; an end point `0` (`usize` underflow) or `> n` (index out of range, at the latest on the
  second assignment) is a panic.  `sum_of_negative_edges` = (the sum of the negative entries of the matrix) `/ 2`
  (truncating division);
* `model.rs`: the state is `(depth, benef)`; `benef[l]` = the marginal benefit of putting the free vertex `l` on side `T`
  rather than `S`, given the vertices decided so far; root = `(0, 0…0)`, `initial_value = sum_of_negative_edges`;
  `next_variable(depth) = depth` while `depth < n` (whatever the states); `for_each_in_domain`: `S = 1` only when
  `state.depth = 0` (the first vertex is put on side `S`: symmetry), else `S = 1` then `T = -1` — the variable is not read;
  `transition(s, x := v)`: `benef'[l] = s.benef[l] + v * adj[x][l]` for `l = x … n-1` and `0` for `l < x`, `depth + 1`.  NOTE
  `l = x` included: the benefit of the vertex just decided is carried along (the diagonal is `0` on instances of the
  domain), it is STALE in the state of depth `x + 1` and reset to `0` one layer later; the rough bound skips it (`skip(depth)`),
  but `merge`, `relax` and the ranking read it;
  `transition_cost(s, x := S) = 0` if `s.depth = 0` else `max(0, -s.benef[x]) + Σ_{l = x…n-1, s.benef[l] * adj[x][l] ≤ 0}
  min(|s.benef[l]|, |adj[x][l]|)`; for `T`: `max(0, s.benef[x])` and the condition `≥ 0`; any other value: `unreachable!()`;
* `relax.rs`: `McpRelax::new` precomputes `vr = initial_value`, `estimates[k]` (`k = 0..=n`) = the sum of the positive weights
  `adj[i][j]`, `k ≤ i < j < n`, and `nk[k]` = the sum of the negative weights `adj[i][j]`, `i < j < k`;
  `fast_upper_bound(s) = Σ_{l ≥ s.depth} |s.benef[l]| + estimates[depth] - vr + nk[depth]` (index out of range: a panic);
  `merge`: component by component over `l = 0..n-1` — all merged values `≥ 0` and one `> 0`: the least; all `≤ 0` and one
  `< 0`: minus the least absolute value; otherwise `0`; the depth of the FIRST state (no state: a panic);
  `relax(_, dst, mrg, _, c) = c + Σ_{l < n} (|dst.benef[l]| - |mrg.benef[l]|)`;
* `McpRanking::compare` = comparison of `Σ |benef[l]|` (all components). -/
namespace Ddo.Examples.McpModel
open Ddo Ddo.Examples Ddo.Examples.Util

structure St where
  depth : Nat
  benef : List Int
deriving DecidableEq, Repr

def iabs (x : Int) : Int := if x < 0 then -x else x

/-- `adj[x][y] := w` on a matrix by rows -/
def setCell (adj : List (List Int)) (x y : Nat) (w : Int) : List (List Int) :=
  adj.set x ((adj.getD x []).set y w)

/-- does `Graph::from_lines` panic: an end point outside `1..=n` -/
def readerPanics (n : Nat) (edges : List (Int × Int × Int)) : Bool :=
  edges.any fun (u, v, _) => u < 1 || v < 1 || u > n || v > n

/-- the adjacency matrix `Graph::from_lines` builds (edges 1-based, in file order) -/
def adjOf (n : Nat) (edges : List (Int × Int × Int)) : List (List Int) :=
  edges.foldl (fun adj (u, v, w) =>
    let x := (u - 1).toNat; let y := (v - 1).toNat
    setCell (setCell adj x y w) y x w) (List.replicate n (List.replicate n 0))

/-- what the model functions need: the `Graph` value built by the reader and the tables of `McpRelax::new` -/
structure Tab where
  n : Nat
  adj : List (List Int)
  vr : Int
  nk : List Int
  est : List Int

def wAt (adj : List (List Int)) (x y : Nat) : Int := (adj.getD x []).getD y 0

/-- `Graph::sum_of_negative_edges` -/
def sumNeg (adj : List (List Int)) : Int := (sum (adj.flatten.filter (· < 0))).tdiv 2

/-- `McpRelax::precompute_estimate` -/
def estimateAt (n : Nat) (adj : List (List Int)) (depth : Nat) : Int :=
  sum (((List.range n).drop depth).flatMap fun i => ((List.range n).drop (i + 1)).map fun j =>
    let w := wAt adj i j; if w > 0 then w else 0)
/-- `McpRelax::precompute_nk` -/
def nkAt (adj : List (List Int)) (depth : Nat) : Int :=
  sum ((List.range depth).flatMap fun j => (List.range j).map fun i =>
    let w := wAt adj i j; if w < 0 then w else 0)

def tabOfAdj (n : Nat) (adj : List (List Int)) : Tab :=
  { n := n, adj := adj, vr := sumNeg adj,
    nk := (List.range (n + 1)).map (nkAt adj),
    est := (List.range (n + 1)).map (estimateAt n adj) }

def tabOf (n : Nat) (edges : List (Int × Int × Int)) : Tab := tabOfAdj n (adjOf n edges)

variable (T : Tab)

def w (x y : Nat) : Int := wAt T.adj x y

def initSt : St := { depth := 0, benef := List.replicate T.n 0 }

def nextVar (depth : Nat) : Option Nat := if depth < T.n then some depth else none

/-- `for_each_in_domain` (the variable is not read) -/
def domain (s : St) : List Int := if s.depth = 0 then [1] else [1, -1]

/-- `transition`; `none` = a panic (the benefit vector is too short) -/
def trans? (s : St) (d : Dec) : Option St := do
  let x := d.var
  let tail ← ((List.range T.n).drop x).mapM fun l => (s.benef[l]?).map fun b => b + d.val * w T x l
  pure { depth := s.depth + 1, benef := List.replicate (min x T.n) 0 ++ tail }

/-- `branch_on_s` (`sgn = 1`) / `branch_on_t` (`sgn = -1`); `none` = a panic (index out of range) -/
def branch? (s : St) (x : Nat) (sgn : Int) : Option Int := do
  let sx ← s.benef[x]?
  let terms ← ((List.range T.n).drop x).mapM fun l => (s.benef[l]?).map fun skl =>
    let wkl := w T x l
    if sgn * (skl * wkl) ≤ 0 then min (iabs skl) (iabs wkl) else 0
  pure (max 0 (-(sgn * sx)) + sum terms)

/-- `transition_cost`; `none` = a panic (`unreachable!()`, index out of range) -/
def cost? (s : St) (d : Dec) : Option Int :=
  if d.val = 1 ∨ d.val = -1 then
    if s.depth = 0 then some 0 else branch? T s d.var d.val
  else none

def trans (s : St) (d : Dec) : St := (trans? T s d).getD s
def cost (s : St) (d : Dec) : Int := (cost? T s d).getD 0

def problem : Problem St :=
  { nbVars := T.n
    init := initSt T
    initVal := T.vr
    trans := trans T
    cost := fun s _ d => cost T s d
    nextVar := fun depth _ => nextVar T depth
    domain := fun _ s => domain s
    impacted := fun _ _ => true }

/-- `merge_substates` on the values of one component, in the order of the states -/
def mergeComp (vals : List Int) : Int :=
  let pos := vals.any (· > 0)
  let neg := vals.any (· < 0)
  if pos && !neg then (minOf vals).getD 0
  else if neg && !pos then -((minOf (vals.map iabs)).getD 0)
  else 0

/-- `McpRelax::merge`; `none` = a panic (no state: `nodes[0]`; a benefit vector that is too short) -/
def merge? (X : List St) : Option St :=
  match X with
  | [] => none
  | f :: _ => do
    let cols ← (List.range T.n).mapM fun l => X.mapM fun s => s.benef[l]?
    pure { depth := f.depth, benef := cols.map mergeComp }

/-- `McpRelax::relax`; `none` = a panic (a benefit vector that is too short) -/
def relax? (dst mrg : St) (c : Int) : Option Int := do
  let diffs ← (List.range T.n).mapM fun l => do
    let a ← dst.benef[l]?
    let b ← mrg.benef[l]?
    pure (iabs a - iabs b)
  pure (c + sum diffs)

/-- `fast_upper_bound`; `none` = a panic (`estimates[depth]` out of range) -/
def rub? (s : St) : Option Int := do
  let e ← T.est[s.depth]?
  let k ← T.nk[s.depth]?
  pure (sum ((s.benef.drop s.depth).map iabs) + e - T.vr + k)

def relaxation : Relax St :=
  { merge := fun X => (merge? T X).getD (initSt T)
    relax := fun _ dst mrg _ c => (relax? T dst mrg c).getD c
    rub := fun s => (rub? T s).getD 0 }

/-- `McpRanking::compare` -/
def rank (s : St) : Int := sum (s.benef.map iabs)
def rankCmp (a b : St) : Ordering := compare (rank a) (rank b)

-- ------------------------------------------------------------------------------------------------------------------
-- what the driver evaluates pointwise (exhaustive enumeration over the remaining vertices with the model's own functions)

/-- the value-to-go of `s`: the best total transition cost over ALL completions of `s` (every sequence of decisions on the
    variables `s.depth, …, n-1`, each in the domain of the state reached); `none` = −∞ (never, on this model: the domain is
    never empty).  `fuel ≥ n - s.depth`. -/
def bestRemF : Nat → St → EInt
  | 0, _ => some 0
  | fuel + 1, s =>
    if s.depth ≥ T.n then some 0 else
    let x := s.depth
    (domain s).foldl (fun acc v => EInt.max acc ((bestRemF fuel (trans T s ⟨x, v⟩)).addI (cost T s ⟨x, v⟩))) none
def bestRem (s : St) : EInt := bestRemF T (T.n - s.depth) s

/-- the states the pointwise statements are about: one benefit per vertex, not deeper than the last layer -/
def validB (s : St) : Bool := s.benef.length == T.n && decide (s.depth ≤ T.n)

/-- `RubOk` at one state: the bound `r` claimed for `s` dominates the value-to-go -/
def rubOkAt (s : St) (r : Int) : Bool := decide (bestRem T s ≤ some r)

/-- `MergeOk` (potential form, `Wf.lean`) at one merged-away state `u`, merged state `m`, arc cost `c` relaxed to `r`:
    if `u` has a completion worth `h` then `m` has one worth `h'` with `c + h ≤ r + h'` -/
def mergeOkAt (u m : St) (c r : Int) : Bool :=
  match bestRem T u with
  | none => true
  | some h =>
    match bestRem T m with
    | none => false
    | some h' => decide (c + h ≤ r + h')

-- ------------------------------------------------------------------------------------------------------------------
-- the independent specification (`Mcp.lean`)

/-- the specification's best cut among the sides `S` that extend the decisions `decs` (vertex `k+1` of the file is on side
    `S` iff `decs[k] = 1`): by `Mcp.cutWeight` over all subsets of the free vertices; with no decision at all this is
    `Mcp.best` (`McpModel.best_eq_specBestExt`) -/
def specBestExt (n : Nat) (edges : List (Int × Int × Int)) (decs : List Int) : Option Int :=
  let vertices : List Int := oneTo n
  let fixedS := ((vertices.take decs.length).zip decs).filterMap fun (v, d) => if d = 1 then some v else none
  maxOf ((sublists (vertices.drop decs.length)).map fun sub => Mcp.cutWeight edges (fixedS ++ sub))

/-- in the domain of the format: every edge listed once, two distinct end points in `1..=n` -/
def inDomain (n : Nat) (edges : List (Int × Int × Int)) : Bool :=
  !readerPanics n edges && edges.all (fun (u, v, _) => u != v) &&
  (edges.map fun (u, v, _) => (min u v, max u v)).eraseDups.length == edges.length

end Ddo.Examples.McpModel
