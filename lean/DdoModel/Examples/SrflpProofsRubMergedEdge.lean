import DdoModel.Examples.SrflpProofsRubMergedVrow
/-! Merged states of the srflp example, the EDGE part of the rough bound: the last loop of the bound, run on the flows `F` the
    second loop keeps (all flows inside `M`, the least `|M| r` flows between `M` and `Y`, the least `r (r-1) / 2` flows inside
    `Y`, `r` = the number of optional picks) and on lengths `Ls` whose least `d` never exceed `d` lengths of the path, is at
    most the edge part `EE l f M Y q` of the cost of every path `q`. -/
namespace Ddo.Examples.SrflpModel
open Ddo Ddo.Examples Ddo.Examples.Util Ddo.SpecUtil

/-! ### triangular numbers -/

theorem tri_pred (n : Nat) : tri (n - 1) + n = tri n := by
  cases n with
  | zero => simp [tri]
  | succ m => simp [tri]

theorem half_eq_tri (n : Nat) : n * (n - 1) / 2 = tri (n - 1) := by
  cases n with
  | zero => simp [tri]
  | succ m => rw [Nat.add_sub_cancel, tri_eq, Nat.mul_comm]

theorem tri_add (a : Nat) : ∀ b : Nat, tri (a + b) = tri a + a * b + tri b
  | 0 => by simp [tri]
  | b + 1 => by
    have ih := tri_add a b
    rw [← Nat.add_assoc]
    simp only [tri, Nat.mul_succ]
    omega

/-! ### counting the values below a threshold -/

/-- the number of values below `θ` -/
def cntB (θ : Int) (L : List Int) : Nat := L.countP (fun x => decide (x < θ))

theorem cntB_append (θ : Int) (A B : List Int) : cntB θ (A ++ B) = cntB θ A + cntB θ B := by
  simp [cntB]

theorem cntB_perm (θ : Int) {A B : List Int} (h : A.Perm B) : cntB θ A = cntB θ B := h.countP_eq _

theorem cntB_le_length (θ : Int) (A : List Int) : cntB θ A ≤ A.length := List.countP_le_length

/-- in an increasing list the values below `θ` come first -/
theorem cntB_take_sorted (θ : Int) : ∀ (S : List Int) (n : Nat), S.Pairwise (· ≤ ·) →
    cntB θ (S.take n) = min n (cntB θ S)
  | [], n, _ => by simp [cntB]
  | a :: S, 0, _ => by simp [cntB]
  | a :: S, n + 1, h => by
    have ih := cntB_take_sorted θ S n h.of_cons
    unfold cntB at ih ⊢
    rw [List.take_succ_cons, List.countP_cons, List.countP_cons]
    by_cases ha : a < θ
    · simp only [ha, decide_true, if_true]
      omega
    · have h0 : List.countP (fun x => decide (x < θ)) S = 0 := by
        rw [List.countP_eq_zero]
        intro b hb
        have := List.rel_of_pairwise_cons h hb
        simp only [decide_eq_true_eq]
        omega
      have h1 : List.countP (fun x => decide (x < θ)) (S.take n) = 0 := by
        have := (List.take_sublist n S).countP_le (p := fun x => decide (x < θ))
        omega
      simp only [ha, decide_false]
      simp [h0, h1]

theorem cntB_sortInts (θ : Int) (P : List Int) : cntB θ (sortInts P) = cntB θ P :=
  cntB_perm θ (List.mergeSort_perm P _)

theorem sortInts_length (P : List Int) : (sortInts P).length = P.length := (List.mergeSort_perm P _).length_eq

/-- distinct members of `Y`, mapped, are a sub-multiset of `Y` mapped -/
theorem nodup_subset_map {Z Y : List Nat} (g : Nat → Int) (hZ : Z.Nodup) (hY : Y.Nodup) (h : ∀ z ∈ Z, z ∈ Y) :
    (∀ θ, cntB θ (Z.map g) ≤ cntB θ (Y.map g)) ∧ Z.length ≤ Y.length := by
  have hp : Z.Perm (Y.filter (fun y => Z.contains y)) := by
    refine (List.perm_ext_iff_of_nodup hZ (hY.sublist List.filter_sublist)).2 ?_
    intro a
    simp only [List.mem_filter, List.contains_iff_mem]
    exact ⟨fun ha => ⟨h a ha, ha⟩, And.right⟩
  refine ⟨fun θ => ?_, ?_⟩
  · rw [cntB_perm θ (hp.map g)]
    exact (List.filter_sublist.map g).countP_le
  · rw [hp.length_eq]
    exact List.filter_sublist.length_le

/-! ### the members of `M` on the path -/

/-- the members of `M` on the path, in the order of the path -/
def inM (M q : List Nat) : List Nat := q.filter (fun i => M.contains i)

theorem inM_cons_mem {M : List Nat} {j : Nat} (q : List Nat) (h : j ∈ M) : inM M (j :: q) = j :: inM M q := by
  simp [inM, h]

theorem inM_cons_not {M : List Nat} {j : Nat} (q : List Nat) (h : j ∉ M) : inM M (j :: q) = inM M q := by
  simp [inM, h]

theorem nonM_cons_mem {M : List Nat} {j : Nat} (q : List Nat) (h : j ∈ M) : nonM M (j :: q) = nonM M q := by
  rw [nonM_cons]; simp [h]

theorem nonM_cons_not {M : List Nat} {j : Nat} (q : List Nat) (h : j ∉ M) : nonM M (j :: q) = nonM M q + 1 := by
  rw [nonM_cons]; simp [h]; omega

theorem inM_length (M : List Nat) : ∀ q : List Nat, (inM M q).length + nonM M q = q.length
  | [] => by simp [inM]
  | j :: q => by
    have ih := inM_length M q
    by_cases h : j ∈ M
    · rw [inM_cons_mem q h, nonM_cons_mem q h]; simp; omega
    · rw [inM_cons_not q h, nonM_cons_not q h]; simp; omega

theorem mem_inM {M q : List Nat} {i : Nat} : i ∈ inM M q ↔ i ∈ q ∧ i ∈ M := by
  simp [inM, List.mem_filter]

/-- a path that holds all of `M` holds exactly `M` -/
theorem inM_perm {M q : List Nat} (hq : q.Nodup) (hM : M.Nodup) (hMq : ∀ i ∈ M, i ∈ q) : (inM M q).Perm M := by
  refine (List.perm_ext_iff_of_nodup (hq.sublist List.filter_sublist) hM).2 ?_
  intro a
  show a ∈ inM M q ↔ a ∈ M
  rw [mem_inM]
  exact ⟨And.right, fun h => ⟨hMq a h, h⟩⟩

/-- the optional picks are distinct members of `Y` -/
theorem nonM_le {M Y q : List Nat} (hq : q.Nodup) (hY : Y.Nodup) (hqMY : ∀ i ∈ q, i ∈ M ∨ i ∈ Y) :
    nonM M q ≤ Y.length := by
  unfold nonM
  refine (nodup_subset_map (fun _ => 0) (hq.sublist List.filter_sublist) hY ?_).2
  intro z hz
  simp only [List.mem_filter, Bool.not_eq_true', List.contains_eq_mem, decide_eq_false_iff_not] at hz
  rcases hqMY z hz.1 with h | h
  · exact absurd h hz.2
  · exact h

/-! ### the flows between `M` and `Y` -/

theorem crossFlows_cons (f : Nat → Nat → Int) (i : Nat) (M Y : List Nat) :
    crossFlows f (i :: M) Y = Y.map (f i) ++ crossFlows f M Y := by
  simp [crossFlows]

theorem crossFlows_length (f : Nat → Nat → Int) (Y : List Nat) : ∀ M : List Nat,
    (crossFlows f M Y).length = M.length * Y.length
  | [] => by simp [crossFlows]
  | i :: M => by
    rw [crossFlows_cons, List.length_append, crossFlows_length f Y M, List.length_map, List.length_cons, Nat.succ_mul]
    omega

theorem crossFlows_perm_left (f : Nat → Nat → Int) {M M' : List Nat} (Y : List Nat) (h : M.Perm M') :
    (crossFlows f M Y).Perm (crossFlows f M' Y) := List.Perm.flatMap_right _ h

theorem crossFlows_cnt_perm_right (f : Nat → Nat → Int) (θ : Int) {Y Y' : List Nat} (h : Y.Perm Y') : ∀ M : List Nat,
    cntB θ (crossFlows f M Y) = cntB θ (crossFlows f M Y')
  | [] => by simp [crossFlows]
  | i :: M => by
    rw [crossFlows_cons, crossFlows_cons, cntB_append, cntB_append, crossFlows_cnt_perm_right f θ h M,
      cntB_perm θ (h.map (f i))]

theorem crossFlows_cnt_cons_right (f : Nat → Nat → Int) (θ : Int) (j : Nat) (Y : List Nat) : ∀ M : List Nat,
    cntB θ (crossFlows f M (j :: Y)) = cntB θ (M.map (fun i => f i j)) + cntB θ (crossFlows f M Y)
  | [] => by simp [crossFlows, cntB]
  | i :: M => by
    have ih := crossFlows_cnt_cons_right f θ j Y M
    rw [crossFlows_cons, crossFlows_cons, cntB_append, cntB_append, ih]
    simp only [cntB, List.map_cons, List.countP_cons]
    omega

theorem perm_cons_filter_ne {j : Nat} : ∀ {Y : List Nat}, Y.Nodup → j ∈ Y → Y.Perm (j :: Y.filter (· ≠ j))
  | [], _, h => by simp at h
  | y :: Y, hn, h => by
    have hn' := List.nodup_cons.1 hn
    by_cases e : y = j
    · subst e
      have : (y :: Y).filter (· ≠ y) = Y := by
        rw [List.filter_cons]
        simp only [ne_eq, not_true_eq_false, decide_false, Bool.false_eq_true, if_false]
        rw [List.filter_eq_self]
        intro a ha
        simp only [decide_eq_true_eq]
        intro e; subst e; exact hn'.1 ha
      rw [this]
    · have hj : j ∈ Y := by
        rcases List.mem_cons.1 h with h | h
        · exact absurd h.symm e
        · exact h
      have ih := perm_cons_filter_ne hn'.2 hj
      have : (y :: Y).filter (· ≠ j) = y :: Y.filter (· ≠ j) := by
        rw [List.filter_cons]; simp [e]
      rw [this]
      exact (ih.cons y).trans (List.Perm.swap j y _)

/-! ### the pairing of the virtual weights with the weights of the bound -/

/-- the values `vals`, the `idx`-th of them (from `k`) paired with the weight `c idx` -/
def rowV (c : Nat → Int) : Nat → List Int → List (Int × Int)
  | _, [] => []
  | k, v :: vs => (v, c k) :: rowV c (k + 1) vs

/-- the pairing: the `idx`-th virtual weight of the row of a department gets the weight `c idx` -/
def PS (f : Nat → Nat → Int) (M : List Nat) (c : Nat → Int) : List Nat → List Nat → List (Int × Int)
  | _, [] => []
  | Y, j :: q => rowV c 0 (vrow (f j) M (Y.filter (· ≠ j)) q) ++ PS f M c (Y.filter (· ≠ j)) q

/-- all the virtual weights -/
def GallL (f : Nat → Nat → Int) (M : List Nat) : List Nat → List Nat → List Int
  | _, [] => []
  | Y, j :: q => vrow (f j) M (Y.filter (· ≠ j)) q ++ GallL f M (Y.filter (· ≠ j)) q

theorem rowV_fst (c : Nat → Int) : ∀ (vs : List Int) (k : Nat), (rowV c k vs).map Prod.fst = vs
  | [], _ => rfl
  | v :: vs, k => by simp [rowV, rowV_fst c vs (k + 1)]

theorem rowV_snd (c : Nat → Int) : ∀ (vs : List Int) (k : Nat),
    (rowV c k vs).map Prod.snd = (List.range' k vs.length).map c
  | [], _ => rfl
  | v :: vs, k => by simp [rowV, rowV_snd c vs (k + 1), List.range'_succ]

theorem vrow_length (v : Nat → Int) (M : List Nat) : ∀ (q Y : List Nat), (vrow v M Y q).length = q.length
  | [], _ => rfl
  | j :: q, Y => by simp [vrow, vrow_length v M q]

theorem PS_fst (f : Nat → Nat → Int) (M : List Nat) (c : Nat → Int) : ∀ (q Y : List Nat),
    (PS f M c Y q).map Prod.fst = GallL f M Y q
  | [], _ => rfl
  | j :: q, Y => by simp [PS, GallL, rowV_fst, PS_fst f M c q]

theorem PS_snd (f : Nat → Nat → Int) (M : List Nat) (c : Nat → Int) : ∀ (q Y : List Nat),
    (PS f M c Y q).map Prod.snd = triW c q.length
  | [], _ => rfl
  | j :: q, Y => by simp [PS, triW, rowV_snd, vrow_length, PS_snd f M c q, List.range_eq_range']

theorem GallL_length (f : Nat → Nat → Int) (M : List Nat) : ∀ (q Y : List Nat),
    (GallL f M Y q).length + q.length = tri q.length
  | [], _ => by simp [GallL, tri]
  | j :: q, Y => by
    have := GallL_length f M q (Y.filter (· ≠ j))
    simp only [GallL, List.length_append, vrow_length, List.length_cons, tri]
    omega

theorem rowV_le (c : Nat → Int) : ∀ (vals ls : List Int) (k : Nat) (B : Int), ls.length = vals.length →
    (∀ v ∈ vals, 0 ≤ v) → (∀ idx, idx ≤ vals.length → c (k + idx) ≤ B + (ls.take idx).sum) →
    ((rowV c k vals).map (fun p => p.1 * p.2)).sum ≤ aftV ls vals + B * vals.sum
  | [], ls, _, _, _, _, _ => by cases ls <;> simp [rowV, aftV]
  | v :: vs, [], _, _, hlen, _, _ => by simp at hlen
  | v :: vs, l0 :: ls, k, B, hlen, hv, hc => by
    have h0 : c k ≤ B := by simpa using hc 0 (by simp)
    have hvt := hv v List.mem_cons_self
    have ih := rowV_le c vs ls (k + 1) (B + l0) (by simpa using hlen)
      (fun j hj => hv j (List.mem_cons_of_mem _ hj)) (by
      intro idx hidx
      have := hc (idx + 1) (by simp; omega)
      simp only [List.take_succ_cons, List.sum_cons] at this
      have e : k + 1 + idx = k + (idx + 1) := by omega
      rw [e]; omega)
    have h1 := Int.mul_le_mul_of_nonneg_left h0 hvt
    simp only [rowV, List.map_cons, List.sum_cons, aftV]
    generalize ((rowV c (k + 1) vs).map (fun p => p.1 * p.2)).sum = X at ih ⊢
    generalize vs.sum = S at ih ⊢
    generalize aftV ls vs = A at ih ⊢
    have e1 : (B + l0) * S = B * S + l0 * S := Int.add_mul _ _ _
    have e2 : B * (v + S) = B * v + B * S := Int.mul_add _ _ _
    have e3 : v * B = B * v := Int.mul_comm _ _
    omega

/-- the facts about the rest of the path that every induction below needs -/
theorem rest_facts {M Y q : List Nat} {j : Nat} (hq : (j :: q).Nodup) (hY : Y.Nodup)
    (hqMY : ∀ i ∈ j :: q, i ∈ M ∨ i ∈ Y) (hdisj : ∀ i ∈ M, i ∉ Y) :
    q.Nodup ∧ (Y.filter (· ≠ j)).Nodup ∧ (∀ i ∈ Y.filter (· ≠ j), i ∈ Y) ∧
      (∀ i ∈ q, i ∈ M ∨ i ∈ Y.filter (· ≠ j)) ∧ (∀ i ∈ M, i ∉ Y.filter (· ≠ j)) := by
  have hn := List.nodup_cons.1 hq
  have hsub : ∀ i ∈ Y.filter (· ≠ j), i ∈ Y := fun i hi => (List.mem_filter.1 hi).1
  refine ⟨hn.2, hY.sublist List.filter_sublist, hsub, ?_, fun i hi h => hdisj i hi (hsub i h)⟩
  intro i hi
  rcases hqMY i (List.mem_cons_of_mem _ hi) with h | h
  · exact Or.inl h
  · refine Or.inr (List.mem_filter.2 ⟨h, ?_⟩)
    simp only [ne_eq, decide_eq_true_eq]
    intro e; subst e; exact hn.1 hi

/-- the virtual weights of a row are flows of the row -/
theorem vrow_nonneg (v : Nat → Int) {M Y q : List Nat} (hq : q.Nodup) (hY : Y.Nodup)
    (hqMY : ∀ i ∈ q, i ∈ M ∨ i ∈ Y) (hdisj : ∀ i ∈ M, i ∉ Y) (hv : ∀ i, i ∈ M ∨ i ∈ Y → 0 ≤ v i) :
    ∀ x ∈ vrow v M Y q, 0 ≤ x := by
  obtain ⟨Z, _, hZY, _, _, hperm⟩ := vrow_perm v M q Y hq hY hqMY (fun i _ hi => hdisj i hi)
  intro x hx
  rcases List.mem_append.1 (hperm.mem_iff.1 hx) with h | h
  · obtain ⟨i, hi, rfl⟩ := List.mem_map.1 h
    exact hv i (Or.inl (mem_inM.1 hi).2)
  · obtain ⟨i, hi, rfl⟩ := List.mem_map.1 h
    exact hv i (Or.inr (hZY i hi))

theorem PS_le (l : Nat → Int) (f : Nat → Nat → Int) (M : List Nat) (c : Nat → Int) : ∀ (q Y : List Nat),
    q.Nodup → Y.Nodup → (∀ i ∈ q, i ∈ M ∨ i ∈ Y) → (∀ i ∈ M, i ∉ Y) →
    (∀ i j, (i ∈ M ∨ i ∈ Y) → (j ∈ M ∨ j ∈ Y) → 0 ≤ f i j) →
    (∀ A : List Nat, A.Sublist q → c A.length ≤ (A.map l).sum) →
    ((PS f M c Y q).map (fun p => p.1 * p.2)).sum ≤ EE l f M Y q
  | [], _, _, _, _, _, _, _ => by simp [PS, EE]
  | j :: q, Y, hq, hY, hqMY, hdisj, hf, hc => by
    obtain ⟨hq', hY', hsub, hqMY', hdisj'⟩ := rest_facts hq hY hqMY hdisj
    have hjm := hqMY j List.mem_cons_self
    have lift : ∀ i, i ∈ M ∨ i ∈ Y.filter (· ≠ j) → i ∈ M ∨ i ∈ Y := fun i h => h.imp id (hsub i)
    have ih := PS_le l f M c q (Y.filter (· ≠ j)) hq' hY' hqMY' hdisj'
      (fun a b ha hb => hf a b (lift a ha) (lift b hb))
      (fun A hA => hc A (hA.trans (List.sublist_cons_self j q)))
    have hrow := rowV_le c (vrow (f j) M (Y.filter (· ≠ j)) q) (q.map l) 0 0 (by simp [vrow_length])
      (vrow_nonneg (f j) hq' hY' hqMY' hdisj' (fun i hi => hf j i hjm (lift i hi))) (by
      intro idx hidx
      rw [vrow_length] at hidx
      have := hc (q.take idx) ((List.take_sublist idx q).trans (List.sublist_cons_self j q))
      rw [List.length_take, Nat.min_eq_left hidx] at this
      simpa using this)
    simp only [PS, EE, List.map_append, List.sum_append]
    rw [GG_eq_aftV l (f j) M q (Y.filter (· ≠ j)) (fun i _ hi => hdisj' i hi)]
    omega

/-! ### the virtual weights are dominated, in counting, by the flows the bound keeps -/

theorem GallL_cnt (f : Nat → Nat → Int) (M : List Nat) (θ : Int) : ∀ (q Y : List Nat),
    q.Nodup → Y.Nodup → (∀ i ∈ q, i ∈ M ∨ i ∈ Y) → (∀ i ∈ M, i ∉ Y) →
    (∀ i j, (i ∈ M ∨ i ∈ Y) → (j ∈ M ∨ j ∈ Y) → f i j = f j i) →
    cntB θ (GallL f M Y q) ≤ cntB θ (pairFlows f (inM M q))
      + min ((inM M q).length * nonM M q) (cntB θ (crossFlows f (inM M q) Y))
      + min (tri (nonM M q - 1)) (cntB θ (pairFlows f Y))
  | [], _, _, _, _, _, _ => by simp [GallL, cntB]
  | j :: q, Y, hq, hY, hqMY, hdisj, hsym => by
    obtain ⟨hq', hY', hsub, hqMY', hdisj'⟩ := rest_facts hq hY hqMY hdisj
    have hjm := hqMY j List.mem_cons_self
    have lift : ∀ i, i ∈ M ∨ i ∈ Y.filter (· ≠ j) → i ∈ M ∨ i ∈ Y := fun i h => h.imp id (hsub i)
    have ih := GallL_cnt f M θ q (Y.filter (· ≠ j)) hq' hY' hqMY' hdisj'
      (fun a b ha hb => hsym a b (lift a ha) (lift b hb))
    obtain ⟨Z, hZn, hZY, hZl, _, hperm⟩ := vrow_perm (f j) M q (Y.filter (· ≠ j)) hq' hY' hqMY'
      (fun i _ hi => hdisj' i hi)
    have hrow : cntB θ (vrow (f j) M (Y.filter (· ≠ j)) q)
        = cntB θ ((inM M q).map (f j)) + cntB θ (Z.map (f j)) := by
      rw [cntB_perm θ hperm, cntB_append]; rfl
    have hZ1 : cntB θ (Z.map (f j)) ≤ nonM M q := by
      have := cntB_le_length θ (Z.map (f j))
      rw [List.length_map, hZl] at this
      exact this
    have hZ2 : cntB θ (Z.map (f j)) ≤ cntB θ ((Y.filter (· ≠ j)).map (f j)) :=
      (nodup_subset_map (f j) hZn hY' hZY).1 θ
    have hM1 : cntB θ ((inM M q).map (f j)) ≤ (inM M q).length := by
      have := cntB_le_length θ ((inM M q).map (f j))
      rwa [List.length_map] at this
    simp only [GallL, cntB_append, hrow]
    by_cases hj : j ∈ M
    · have hjY : j ∉ Y := hdisj j hj
      have hYY : Y.filter (· ≠ j) = Y := by
        rw [List.filter_eq_self]
        intro a ha
        simp only [ne_eq, decide_eq_true_eq]
        intro e; subst e; exact hjY ha
      rw [hYY] at ih hZ2
      rw [inM_cons_mem q hj, nonM_cons_mem q hj, hYY, crossFlows_cons, cntB_append]
      simp only [pairFlows, cntB_append, List.length_cons, Nat.succ_mul]
      generalize (inM M q).length * nonM M q = P at ih ⊢
      omega
    · have hjY : j ∈ Y := hjm.resolve_left hj
      have hYp := perm_cons_filter_ne hY hjY
      have hcross : cntB θ (crossFlows f (inM M q) Y)
          = cntB θ ((inM M q).map (f j)) + cntB θ (crossFlows f (inM M q) (Y.filter (· ≠ j))) := by
        rw [crossFlows_cnt_perm_right f θ hYp, crossFlows_cnt_cons_right]
        congr 2
        refine List.map_congr_left ?_
        intro i hi
        exact hsym i j (Or.inl (mem_inM.1 hi).2) hjm
      have hpf : cntB θ (pairFlows f Y)
          = cntB θ ((Y.filter (· ≠ j)).map (f j)) + cntB θ (pairFlows f (Y.filter (· ≠ j))) := by
        rw [cntB_perm θ (pairFlows_perm f hYp ?_)]
        · simp only [pairFlows, cntB_append]
        · intro a ha b hb
          exact hsym a b (Or.inr (hYp.mem_iff.2 ha)) (Or.inr (hYp.mem_iff.2 hb))
      rw [inM_cons_not q hj, nonM_cons_not q hj, hcross, hpf, Nat.add_sub_cancel, Nat.mul_succ]
      have ht := tri_pred (nonM M q)
      generalize (inM M q).length * nonM M q = P at ih ⊢
      omega

/-! ### the main theorem -/

/- (`hl` is not used: the non-negativity of the lengths of the bound, `hL0`, is what the proof needs) -/
set_option linter.unusedVariables false in
theorem edge_part (l : Nat → Int) (f : Nat → Nat → Int) (M Y q : List Nat)
    (hq : q.Nodup) (hM : M.Nodup) (hY : Y.Nodup) (hMq : ∀ i ∈ M, i ∈ q) (hqMY : ∀ i ∈ q, i ∈ M ∨ i ∈ Y)
    (hdisj : ∀ i ∈ M, i ∉ Y) (hk : 1 ≤ q.length)
    (hl : ∀ i, i ∈ M ∨ i ∈ Y → 0 ≤ l i)
    (hf : ∀ i j, (i ∈ M ∨ i ∈ Y) → (j ∈ M ∨ j ∈ Y) → 0 ≤ f i j)
    (hsym : ∀ i j, (i ∈ M ∨ i ∈ Y) → (j ∈ M ∨ j ∈ Y) → f i j = f j i)
    (Ls : List Int) (hLl : Ls.length = q.length) (hL0 : ∀ x ∈ Ls, 0 ≤ x)
    (hcum : ∀ A : List Nat, A.Sublist q → (Ls.take A.length).sum ≤ (A.map l).sum)
    (F : List Int) (hFs : F.Pairwise (· ≤ ·))
    (hF : F.Perm (pairFlows f M ++ (sortInts (crossFlows f M Y)).take (M.length * nonM M q)
                  ++ (sortInts (pairFlows f Y)).take (nonM M q * (nonM M q - 1) / 2))) :
    ∃ b, edgeBound? F Ls (q.length * (q.length - 1) / 2) q.length = some b ∧ b ≤ EE l f M Y q := by
  have hMp : (inM M q).Perm M := inM_perm hq hM hMq
  have hml : (inM M q).length = M.length := hMp.length_eq
  have hkl := inM_length M q
  have hrY : nonM M q ≤ Y.length := nonM_le hq hY hqMY
  rw [half_eq_tri (nonM M q)] at hF
  -- the number of flows
  have hFlen : F.length + q.length = tri q.length := by
    have h1 := pairFlows_length_tri f M
    have h2 := pairFlows_length_tri f Y
    have h3 := tri_pred (nonM M q)
    have h4 := tri_pred Y.length
    have h5 : tri (nonM M q - 1) ≤ tri (Y.length - 1) := by
      have : ∀ a b : Nat, a ≤ b → tri a ≤ tri b := by
        intro a b hab
        obtain ⟨d, rfl⟩ := Nat.exists_eq_add_of_le hab
        rw [tri_add]; omega
      exact this _ _ (by omega)
    have h6 : M.length * nonM M q ≤ M.length * Y.length := Nat.mul_le_mul_left _ hrY
    have h7 := tri_add M.length (nonM M q)
    rw [hF.length_eq, List.length_append, List.length_append, List.length_take, List.length_take,
      sortInts_length, sortInts_length, crossFlows_length]
    rw [← hkl, hml]
    generalize M.length * nonM M q = P at *
    generalize M.length * Y.length = P' at *
    omega
  have hGlen := GallL_length f M q Y
  have hFk : F.length = q.length * (q.length - 1) / 2 := by
    rw [half_eq_tri]
    have := tri_pred q.length
    omega
  refine ⟨_, edgeBound?_eq F Ls q.length hk hFk (by omega), ?_⟩
  let c : Nat → Int := fun d => (Ls.take d).sum
  have hk1 : q.length - 1 + 1 = q.length := by omega
  have hW : (edgeWeights 0 (q.length - 1) Ls).Perm ((PS f M c Y q).map Prod.snd) := by
    rw [PS_snd]
    have := edgeWeights_perm_triW Ls (q.length - 1) (by omega)
    rwa [hk1] at this
  have hcnt : ∀ θ : Int, (GallL f M Y q).countP (fun x => decide (x < θ)) ≤ F.countP (fun x => decide (x < θ)) := by
    intro θ
    have h1 := GallL_cnt f M θ q Y hq hY hqMY hdisj hsym
    have h2 : cntB θ F = cntB θ (pairFlows f M)
        + min (M.length * nonM M q) (cntB θ (crossFlows f M Y))
        + min (tri (nonM M q - 1)) (cntB θ (pairFlows f Y)) := by
      rw [cntB_perm θ hF, cntB_append, cntB_append, cntB_take_sorted θ _ _ (sortInts_pairwise _),
        cntB_take_sorted θ _ _ (sortInts_pairwise _), cntB_sortInts, cntB_sortInts]
    rw [cntB_perm θ (pairFlows_perm f hMp (fun a ha b hb => hsym a b (Or.inl ha) (Or.inl hb))),
      cntB_perm θ (crossFlows_perm_left f Y hMp), hml] at h1
    show cntB θ (GallL f M Y q) ≤ cntB θ F
    omega
  have hdot := dot_le_of_cntDom F (GallL f M Y q) (edgeWeights 0 (q.length - 1) Ls) (PS f M c Y q) hFs (by omega) hcnt
    (edgeWeights_pairwise 0 _ _ hL0) (fun w hw => edgeWeights_ge 0 _ _ hL0 w hw)
    (by rw [PS_fst]) hW
  exact Int.le_trans hdot (PS_le l f M c q Y hq hY hqMY hdisj hf hcum)

#print axioms edge_part

end Ddo.Examples.SrflpModel
