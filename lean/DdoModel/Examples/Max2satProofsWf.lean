import DdoModel.Examples.Max2satModel
import DdoModel.Proofs.MddCoverRel
import DdoModel.Props.C06
/-! The model of the shipped max2sat example and the generic relaxed-compilation theorem.

* `wfRel_false` (**finding**, proved): `WfRel` (`DdoModel/WfRel.lean`, the hypothesis of `Ddo.C06.relaxed_ub_rel_dom`) is
  UNSATISFIABLE for the max2sat model as soon as the potential of the root is positive, whatever the validity predicate:
  its clauses quantify over ANY list `L` handed to `nextVar`, and the example's `next_variable` reads the depth in the
  FIRST state of the list — with `L = [(n, []), root]` it answers `none`, and `WfRel.term` then forces the potential of
  the root to be `≤ 0`.  Not a defect of the example (the compilation only hands over layers of states of one depth): the
  clause is too strong.  `WfRelV` (`Proofs/MddCoverRel.lean`) asks the same for lists of VALID states only;
* `noClampDom_false` (**finding**, proved): `NoClampDom.relax` (relaxed cost of ANY triple of states within `B`) is
  unsatisfiable for `n ≥ 1` (as for mcp): `relax` adds `Σ_v |dst_v| - |merged_v|`;
* `wfRelV` (**proved**): the model is well formed relative to the layer validity `V` = "one benefit per variable, the depth
  stored in the state is the depth of the layer, benefits within `depth · 2A`" (`A` = a bound on the weights of the table),
  for the potential `H` = the model's own value-to-go `bestRem`, on every `TabOk` table (`rub_admissible`, `merge_ok`);
* `noClampRel` (**proved**): the relativised no-saturation hypothesis, with explicit bounds `B0 T A` (transition costs) and
  `BR T A` (relaxed costs);
* `max2sat_relaxed_ub` (**proved**): a relaxed compilation of the model from the root (no cache, no dominance, width ≥ 1)
  reports at least `initial + bestRem root` — which `dpExact` (`Max2satProofsSpec.lean`) identifies with the optimum of the
  specification (`max2sat_relaxed_ub_spec` there). -/
namespace Ddo.Examples.Max2satModel
open Ddo Ddo.Examples Ddo.Examples.Util Ddo.SpecUtil

variable (T : Tab)

-- ------------------------------------------------------------------------------------------------------------------
-- findings: the un-relativised hypotheses cannot be met

/-- **finding**: `WfRel` cannot hold for the max2sat model with a positive potential at the root (any `H`, any `V`):
    `next_variable` reads the depth from the first state of the list it is given, `WfRel.term` quantifies over all lists. -/
theorem wfRel_false (H : Nat → St → EInt) (V : Nat → St → Prop) (h : Int) (hV : V 0 (problem T).init)
    (hH : H 0 (problem T).init = some h) (hpos : 0 < h) : ¬ WfRel (problem T) (relaxation T) H V := by
  intro hw
  have hnv : (problem T).nextVar 0 [(T.n, []), (problem T).init] = none := by
    simp [problem, nextVar]
  have := hw.term 0 [(T.n, []), (problem T).init] (problem T).init h hnv (by simp) hV hH
  omega

theorem relaxCost_eq (n : Nat) (u m : St) (c : Int) :
    relaxCost n u m c = c + ((List.range n).map (fun v => absI (get u v) - absI (get m v))).sum := by
  unfold relaxCost
  rw [foldl_add_map]

/-- **finding**: the no-saturation hypothesis of `Ddo.C06.relaxed_ub_rel_dom` cannot be met either (`n ≥ 1`) -/
theorem noClampDom_false (hn : 1 ≤ T.n) (rv B : Int) : ¬ NoClampDom (problem T) (relaxation T) rv B := by
  intro h
  have hB := h.nonneg
  have hr := (h.relax (0, []) (0, List.replicate T.n (2 * B + 1)) (0, []) ⟨0, 1⟩ 0 ⟨by omega, hB⟩).2
  simp only [relaxation, relaxCost_eq] at hr
  have hc : ((List.range T.n).map (fun v => absI (get ((0, List.replicate T.n (2 * B + 1)) : St) v) - absI (get ((0, []) : St) v))).sum
      = ((List.range T.n).map (fun _ => 2 * B + 1)).sum := by
    congr 1
    apply List.map_congr_left
    intro v hv
    have hv' : v < T.n := List.mem_range.mp hv
    simp only [get, List.getElem?_replicate, hv', if_true, Option.getD_some, List.getElem?_nil, Option.getD_none, absI]
    omega
  rw [hc] at hr
  obtain ⟨c, hcn⟩ : ∃ c, T.n = c + 1 := ⟨T.n - 1, by omega⟩
  rw [hcn, List.range_succ_eq_map, List.map_cons, List.sum_cons] at hr
  have hnn : 0 ≤ ((List.map Nat.succ (List.range c)).map (fun _ => 2 * B + 1)).sum := by
    have := sum_map_le (fun _ => (0 : Int)) (fun _ => 2 * B + 1) (List.map Nat.succ (List.range c)) (fun _ _ => by omega)
    have hz : ((List.map Nat.succ (List.range c)).map (fun _ => (0 : Int))).sum = 0 := by
      induction (List.map Nat.succ (List.range c)) with
      | nil => rfl
      | cons a l ih => simp [ih]
    omega
  omega

-- ------------------------------------------------------------------------------------------------------------------
-- the potential and the layer validity

/-- the potential: the value-to-go of the model itself (the depth is in the state) -/
def H (_ : Nat) (s : St) : EInt := some (bestRem T (T.n - s.1) s)

/-- every weight read in the table is within `A` -/
def WBound (A : Int) : Prop := ∀ x y, -A ≤ T.wt x y ∧ T.wt x y ≤ A

theorem wBound_of_elems (A : Int) (hA : 0 ≤ A) (h : ∀ q ∈ T.w.toList, -A ≤ q ∧ q ≤ A) : WBound T A := by
  intro x y
  simp only [Tab.wt, wOf, Array.getD_eq_getD_getElem?]
  cases hq : T.w[offset T.n x y]? with
  | none => simp only [Option.getD_none]; omega
  | some q =>
    simp only [Option.getD_some]
    have hlt : offset T.n x y < T.w.size := by
      rcases Nat.lt_or_ge (offset T.n x y) T.w.size with h1 | h1
      · exact h1
      · rw [Array.getElem?_eq_none h1] at hq; cases hq
    rw [Array.getElem?_eq_getElem hlt] at hq
    cases hq
    exact h _ (by simp)

/-- layer validity: one benefit per variable, the depth stored in the state is the depth of the layer, and the benefits
    are within `depth · 2A` (each transition adds the difference of two weights) -/
def V (A : Int) (k : Nat) (s : St) : Prop :=
  s.2.length = T.n ∧ s.1 = k ∧ k ≤ T.n ∧ ∀ l, absI (get s l) ≤ (k : Int) * (2 * A)

theorem V_init (A : Int) : V T A 0 (problem T).init := by
  refine ⟨by simp [problem], rfl, Nat.zero_le _, fun l => ?_⟩
  simp only [problem, get, List.getElem?_replicate, absI]
  split <;> simp

theorem delta_bound {A : Int} (hA : WBound T A) (x : Nat) (v : Int) (l : Nat) : absI (delta T x v l) ≤ 2 * A := by
  unfold delta absI
  have h1 := hA (tLit x) (tLit l)
  have h2 := hA (tLit x) (fLit l)
  have h3 := hA (fLit x) (tLit l)
  have h4 := hA (fLit x) (fLit l)
  split <;> omega

/-- a benefit moves by at most one `delta` in a transition -/
theorem abs_get_trans (s : St) (d : Dec) (hnd : (varset T s.1).Nodup) (i : Nat) :
    absI (get (trans T s d) i) ≤ absI (get s i) + absI (delta T d.var d.val i) := by
  by_cases hi : i < s.2.length
  · rw [trans_eq]
    simp only [get]
    rw [getD_fold_addAt _ _ hnd _ _ (by simpa using hi)]
    have hset : ((s.2.set d.var 0)[i]?).getD 0 = if d.var = i then 0 else (s.2[i]?).getD 0 := by
      rw [List.getElem?_set]
      split
      · next h => simp [h, hi]
      · rfl
    rw [hset]
    simp only [absI]
    split <;> split <;> omega
  · have h1 : (trans T s d).2[i]? = none := by
      apply List.getElem?_eq_none; rw [trans_length]; omega
    simp only [get, h1, Option.getD_none, absI]
    omega

section
variable {T}
variable {A : Int}

theorem order_facts (h : TabOk T) : T.order.length = T.n ∧ T.order.Nodup ∧ ∀ l ∈ T.order, l < T.n :=
  ⟨by rw [h.perm.length_eq, List.length_range], (h.perm.nodup_iff).mpr List.nodup_range,
   fun l hl => List.mem_range.mp (h.perm.mem_iff.mp hl)⟩

theorem varset_nodup (h : TabOk T) (k : Nat) : (varset T k).Nodup :=
  (List.take_sublist _ _).nodup (order_facts h).2.1

theorem V_trans (h : TabOk T) (hA : WBound T A) (_hA0 : 0 ≤ A) {k : Nat} {s : St} (hV : V T A k s) (hk : k < T.n) (d : Dec) :
    V T A (k + 1) (trans T s d) := by
  obtain ⟨hl, hd, _, hb⟩ := hV
  refine ⟨by rw [trans_length, hl], by rw [trans_depth, hd], by omega, fun l => ?_⟩
  have h1 := abs_get_trans T s d (varset_nodup h _) l
  have h2 := delta_bound T hA d.var d.val l
  have h3 := hb l
  have e : ((k + 1 : Nat) : Int) * (2 * A) = (k : Int) * (2 * A) + 2 * A := by
    rw [Int.natCast_add, Int.add_mul]; simp
  rw [e]; omega

theorem mergedFrom_abs {x r : Int} (h : MergedFrom x r) : absI r ≤ absI x := by
  simp only [MergedFrom] at h
  simp only [absI]; omega

theorem V_merge {k : Nat} {X : List St} (hne : X ≠ []) (hX : ∀ u ∈ X, V T A k u) : V T A k (mergeStates T.n X) := by
  obtain ⟨u, r, rfl⟩ : ∃ u r, X = u :: r := by
    cases X with
    | nil => exact absurd rfl hne
    | cons u r => exact ⟨u, r, rfl⟩
  have hu := hX u List.mem_cons_self
  refine ⟨by simp [mergeStates], by simp [mergeStates, hu.2.1], hu.2.2.1, fun l => ?_⟩
  by_cases hl : l < T.n
  · rw [get_mergeStates _ _ _ hl]
    have := mergeSub_prop ((u :: r).map (fun s => get s l)) (get u l) (by simp)
    have := mergedFrom_abs this
    have := hu.2.2.2 l
    omega
  · have : (mergeStates T.n (u :: r)).2[l]? = none := by
      apply List.getElem?_eq_none; simp [mergeStates]; omega
    simp only [get, this, Option.getD_none, absI]
    have := hu.2.2.2 l
    simp only [absI] at this
    omega

/-- the variable chosen for a layer of valid states -/
theorem nextVar_valid {k : Nat} {L : List St} {x : Nat} (hL : ∀ u ∈ L, V T A k u)
    (hnv : (problem T).nextVar k L = some x) : k < T.n ∧ T.order[T.n - k - 1]? = some x := by
  cases L with
  | nil => simp [problem, nextVar] at hnv
  | cons f r =>
    have hf := (hL f List.mem_cons_self).2.1
    simp only [problem, nextVar, hf] at hnv
    split at hnv
    · next hk => exact ⟨hk, hnv⟩
    · cases hnv

theorem nextVar_single {k : Nat} {s : St} {x : Nat} (hs : s.1 = k) (hk : k < T.n) (hx : T.order[T.n - k - 1]? = some x) :
    nextVar T [s] = some x := by
  simp only [nextVar, hs, hk, if_true, hx]

/-- `att` on a valid state, for the variable of its depth -/
theorem attV {k : Nat} {s : St} {x : Nat} {h : Int} (hs : s.1 = k) (hk : k < T.n) (hx : T.order[T.n - k - 1]? = some x)
    (hH : H T k s = some h) :
    ∃ d ∈ (problem T).domain x s, ∃ h', H T (k + 1) ((problem T).trans s ⟨x, d⟩) = some h' ∧
      h ≤ (problem T).cost s ((problem T).trans s ⟨x, d⟩) ⟨x, d⟩ + h' := by
  simp only [H, Option.some.injEq] at hH
  have e : T.n - s.1 = (T.n - (s.1 + 1)) + 1 := by omega
  rw [e] at hH
  simp only [bestRem, nextVar_single hs hk hx] at hH
  simp only [H, problem, trans_depth]
  by_cases hc : cost T s ⟨x, -1⟩ + bestRem T (T.n - (s.1 + 1)) (trans T s ⟨x, -1⟩)
      ≤ cost T s ⟨x, 1⟩ + bestRem T (T.n - (s.1 + 1)) (trans T s ⟨x, 1⟩)
  · exact ⟨1, by simp, _, rfl, by omega⟩
  · exact ⟨-1, by simp, _, rfl, by omega⟩

/-- a completion gains from `m` at least what it gains from `t` plus the least gap -/
theorem bestRem_gap (fuel : Nat) : ∀ (t m : St), t.1 = m.1 →
    bestRem T fuel t + mergeGapMin T fuel t m ≤ bestRem T fuel m := by
  induction fuel with
  | zero => intro t m _; simp [bestRem, mergeGapMin]
  | succ fuel ih =>
    intro t m htm
    have hnv : nextVar T [m] = nextVar T [t] := by simp only [nextVar, htm]
    simp only [bestRem, mergeGapMin, hnv]
    cases nextVar T [t] with
    | none => simp
    | some x =>
      dsimp only
      have h1 := ih (trans T t ⟨x, 1⟩) (trans T m ⟨x, 1⟩) (by rw [trans_depth, trans_depth, htm])
      have h2 := ih (trans T t ⟨x, -1⟩) (trans T m ⟨x, -1⟩) (by rw [trans_depth, trans_depth, htm])
      omega

/-- **the model of the max2sat example is well formed relative to layers of valid states** (`WfRelV`), for every table
    meeting `TabOk` (the tables built from an instance do: `tabOkOfInst`) and every bound `A` on its weights -/
theorem wfRelV (h : TabOk T) (hA : WBound T A) (hA0 : 0 ≤ A) :
    WfRelV (problem T) (relaxation T) (H T) (V T A) where
  vstep := by
    intro k L x s d hnv hL hs _
    exact V_trans h hA hA0 (hL s hs) (nextVar_valid hL hnv).1 _
  vstepMerge := by
    intro k L x X d hnv hL hne hsub _
    exact V_trans h hA hA0 (V_merge hne (fun u hu => hL u (hsub u hu))) (nextVar_valid hL hnv).1 _
  vmerge := fun k X hne hX => V_merge hne hX
  att := by
    intro k L x s h' hnv hL hs hH
    obtain ⟨hk, hx⟩ := nextVar_valid hL hnv
    exact attV (hL s hs).2.1 hk hx hH
  attMerge := by
    intro k L x X h' hnv hL hne hsub hH
    obtain ⟨hk, hx⟩ := nextVar_valid hL hnv
    exact attV (V_merge hne (fun u hu => hL u (hsub u hu))).2.1 hk hx hH
  term := by
    intro k L s h' hnv hL hs hH
    cases L with
    | nil => cases hs
    | cons f r =>
      have hf := hL f List.mem_cons_self
      have hk : ¬ k < T.n := by
        intro hk
        have hlt : (T.n - k - 1) < T.order.length := by rw [(order_facts h).1]; omega
        simp [problem, nextVar, hf.2.1, hk, List.getElem?_eq_getElem hlt] at hnv
      have hsk := (hL s hs).2.1
      simp only [H, Option.some.injEq] at hH
      have : T.n - s.1 = 0 := by omega
      rw [this] at hH
      simp only [bestRem] at hH
      omega
  rub := by
    intro k s h' hV hH
    simp only [H, Option.some.injEq] at hH
    simp only [relaxation]
    cases hr : rub? T s with
    | none =>
      -- a terminal state: the tables have `n` entries
      have hk : ¬ s.1 < T.n := by
        intro hk
        unfold rub? at hr
        rw [h.est_eq, h.nk_eq] at hr
        simp [List.getElem?_map, List.getElem?_range hk] at hr
      have : T.n - s.1 = 0 := by omega
      rw [this] at hH
      simp only [bestRem] at hH
      simp only [Option.getD_none]; omega
    | some r =>
      have := rub_admissible T h s hV.1 r hr
      simp only [Option.getD_some]; omega
  merge := by
    intro k X u src d c h' hu hX hH
    simp only [H, Option.some.injEq] at hH
    have hVu := hX u hu
    have hts : ∀ w ∈ X, w.2.length = T.n ∧ w.1 = u.1 := fun w hw => ⟨(hX w hw).1, by rw [(hX w hw).2.1, hVu.2.1]⟩
    have hmo := merge_ok T h X u hu hts (by rw [hVu.2.1]; exact hVu.2.2.1)
    have hVm := V_merge (List.ne_nil_of_mem hu) hX
    have hdm : u.1 = (mergeStates T.n X).1 := by rw [hVu.2.1, hVm.2.1]
    have hg := bestRem_gap (T := T) (T.n - u.1) u (mergeStates T.n X) hdm
    refine ⟨bestRem T (T.n - (mergeStates T.n X).1) (mergeStates T.n X), rfl, ?_⟩
    simp only [relaxation]
    rw [relaxCost_eq] at hmo ⊢
    rw [← hdm]
    omega

-- ------------------------------------------------------------------------------------------------------------------
-- no saturation, relative to the valid states

end

/-- bound on the benefits of a valid state -/
def MB (A : Int) : Int := (T.n : Int) * (2 * A)
/-- bound on the transition costs from valid states -/
def B0 (A : Int) : Int := (MB T A + A) + (T.n : Int) * (MB T A + 3 * A)
/-- bound on the relaxed costs of arcs into valid states -/
def BR (A : Int) : Int := B0 T A + (T.n : Int) * MB T A

section
variable {T}
variable {A : Int}

theorem sum_within {α : Type} (f : α → Int) (L : List α) (C : Int) (h : ∀ l ∈ L, -C ≤ f l ∧ f l ≤ C) :
    -((L.length : Int) * C) ≤ (L.map f).sum ∧ (L.map f).sum ≤ (L.length : Int) * C := by
  induction L with
  | nil => simp
  | cons x xs ih =>
    have h1 := h x List.mem_cons_self
    have h2 := ih (fun l hl => h l (List.mem_cons_of_mem _ hl))
    have e : (((x :: xs).length : Nat) : Int) * C = (xs.length : Int) * C + C := by
      rw [List.length_cons, Int.natCast_add, Int.add_mul]; simp
    simp only [List.map_cons, List.sum_cons, e]
    omega

theorem MB_nonneg (hA0 : 0 ≤ A) : 0 ≤ MB T A := Int.mul_nonneg (by omega) (by omega)

theorem get_le_MB (hA0 : 0 ≤ A) {k : Nat} {s : St} (hV : V T A k s) (l : Nat) : absI (get s l) ≤ MB T A := by
  have h1 := hV.2.2.2 l
  have h2 : (k : Int) * (2 * A) ≤ (T.n : Int) * (2 * A) :=
    Int.mul_le_mul_of_nonneg_right (by have := hV.2.2.1; omega) (by omega)
  unfold MB; omega

theorem costHead_bound (hA : WBound T A) (hA0 : 0 ≤ A) {k : Nat} {s : St} (hV : V T A k s) (x : Nat) (v : Int) :
    -(MB T A + A) ≤ costHead T s x v ∧ costHead T s x v ≤ MB T A + A := by
  have h1 := get_le_MB hA0 hV x
  have h2 := hA (fLit x) (fLit x)
  have h3 := hA (tLit x) (tLit x)
  have h4 := MB_nonneg (T := T) hA0
  simp only [absI] at h1
  unfold costHead pos
  split <;> omega

theorem costTerm_bound (hA : WBound T A) (hA0 : 0 ≤ A) {k : Nat} {s : St} (hV : V T A k s) (x : Nat) (v : Int) (l : Nat) :
    -(MB T A + 3 * A) ≤ costTerm T s x v l ∧ costTerm T s x v l ≤ MB T A + 3 * A := by
  have h1 := get_le_MB hA0 hV l
  have h2 := hA (fLit x) (fLit l)
  have h3 := hA (fLit x) (tLit l)
  have h4 := hA (tLit x) (fLit l)
  have h5 := hA (tLit x) (tLit l)
  have h6 := MB_nonneg (T := T) hA0
  simp only [absI] at h1
  unfold costTerm pos
  split <;> omega

theorem cost_bound (h : TabOk T) (hA : WBound T A) (hA0 : 0 ≤ A) {k : Nat} {s : St} (hV : V T A k s) (d : Dec) :
    -(B0 T A) ≤ cost T s d ∧ cost T s d ≤ B0 T A := by
  rw [cost_eq]
  have h1 := costHead_bound hA hA0 hV d.var d.val
  have h2 := sum_within (costTerm T s d.var d.val) (varset T s.1) (MB T A + 3 * A)
    (fun l _ => costTerm_bound hA hA0 hV d.var d.val l)
  have hlen : ((varset T s.1).length : Int) ≤ (T.n : Int) := by
    have : (varset T s.1).length ≤ T.n := by
      unfold varset; rw [List.length_take, (order_facts h).1]; omega
    omega
  have h3 : ((varset T s.1).length : Int) * (MB T A + 3 * A) ≤ (T.n : Int) * (MB T A + 3 * A) :=
    Int.mul_le_mul_of_nonneg_right hlen (by have := MB_nonneg (T := T) hA0; omega)
  unfold B0
  omega

theorem relax_bound (hA0 : 0 ≤ A) {k : Nat} {u m : St} (hu : V T A k u) (hm : V T A k m) (c : Int)
    (hc : -(B0 T A) ≤ c ∧ c ≤ B0 T A) :
    -(BR T A) ≤ relaxCost T.n u m c ∧ relaxCost T.n u m c ≤ BR T A := by
  rw [relaxCost_eq]
  have h1 := sum_within (fun v => absI (get u v) - absI (get m v)) (List.range T.n) (MB T A) (fun v _ => by
    have h1 := get_le_MB hA0 hu v
    have h2 := get_le_MB hA0 hm v
    simp only [absI] at *
    omega)
  rw [List.length_range] at h1
  unfold BR
  omega

theorem initial_bound (h : TabOk T) (hA : WBound T A) (hA0 : 0 ≤ A) : -(B0 T A) ≤ T.initial ∧ T.initial ≤ B0 T A := by
  rw [h.initial_eq]
  unfold tautSum
  have h1 := sum_within (tautOf T) T.order A (fun v _ => hA _ _)
  rw [(order_facts h).1] at h1
  have h2 : (T.n : Int) * A ≤ (T.n : Int) * (MB T A + 3 * A) :=
    Int.mul_le_mul_of_nonneg_left (by have := MB_nonneg (T := T) hA0; omega) (by omega)
  have h3 := MB_nonneg (T := T) hA0
  unfold B0
  omega

theorem B0_nonneg (hA0 : 0 ≤ A) : 0 ≤ B0 T A := by
  have h1 := MB_nonneg (T := T) hA0
  have h2 : 0 ≤ (T.n : Int) * (MB T A + 3 * A) := Int.mul_nonneg (by omega) (by omega)
  unfold B0; omega

theorem B0_le_BR (hA0 : 0 ≤ A) : B0 T A ≤ BR T A := by
  have h2 : 0 ≤ (T.n : Int) * MB T A := Int.mul_nonneg (by omega) (MB_nonneg hA0)
  unfold BR; omega

/-- **no `isize` saturation for the max2sat model, relative to the valid states**: transition costs within `B0 T A`, relaxed
    costs within `BR T A`, for weights within `A` -/
theorem noClampRel (h : TabOk T) (hA : WBound T A) (hA0 : 0 ≤ A)
    (hsmall : ((T.n : Int) + 2) * BR T A ≤ 4611686018427387904) :
    NoClampRel (problem T) (relaxation T) (V T A) T.initial (B0 T A) (BR T A) where
  nonneg := B0_nonneg hA0
  le := B0_le_BR hA0
  root := by
    have := initial_bound h hA hA0
    have := B0_le_BR (T := T) hA0
    omega
  cost := by
    intro k L x s d _ _ hV _
    exact cost_bound h hA hA0 hV _
  relax := by
    intro k X u src d c hu hX hc
    exact relax_bound hA0 (hX u hu) (V_merge (List.ne_nil_of_mem hu) hX) c hc
  small := hsmall

/-- the value-to-go of a valid state is at most (number of free variables) · `B0` -/
theorem bestRem_le_fuel (h : TabOk T) (hA : WBound T A) (hA0 : 0 ≤ A) : ∀ (m k : Nat) (s : St), V T A k s → k + m = T.n →
    bestRem T m s ≤ (m : Int) * B0 T A := by
  intro m
  induction m with
  | zero => intro k s _ _; simp [bestRem]
  | succ m ih =>
    intro k s hV hk
    have e : ((m + 1 : Nat) : Int) * B0 T A = (m : Int) * B0 T A + B0 T A := by
      rw [Int.natCast_add, Int.add_mul]; simp
    rw [e]
    simp only [bestRem]
    cases hnv : nextVar T [s] with
    | none => 
      have := B0_nonneg (T := T) hA0
      have : 0 ≤ (m : Int) * B0 T A := Int.mul_nonneg (by omega) this
      simp only []; omega
    | some x =>
      dsimp only
      have h1 := ih (k + 1) (trans T s ⟨x, 1⟩) (V_trans h hA hA0 hV (by omega) _) (by omega)
      have h2 := ih (k + 1) (trans T s ⟨x, -1⟩) (V_trans h hA hA0 hV (by omega) _) (by omega)
      have h3 := cost_bound h hA hA0 hV ⟨x, 1⟩
      have h4 := cost_bound h hA hA0 hV ⟨x, -1⟩
      omega

-- ------------------------------------------------------------------------------------------------------------------
-- the corollary

/-- **The shipped max2sat example**: a relaxed compilation of its model from the root (no cache, no dominance checker,
    width ≥ 1, any incumbent `lb` that the optimum beats) reports a best value that is at least `initial` + the value-to-go
    of the root under the model's own transition costs — i.e. the optimum of the specification (`dpExact`; the form with
    `Max2sat.best` is `max2sat_relaxed_ub_spec` in `Max2satProofsMain.lean`).  Via `Ddo.CoverRel.relaxed_ub_rel_valid`: the
    original `Ddo.C06.relaxed_ub_rel_dom` cannot be instantiated (`wfRel_false`, `noClampDom_false`).
    Hypotheses on the table: `TabOk` (holds for the table of every instance with valid literals: `tabOkOfInst`), weights
    within `A` with `(n + 2) · BR T A ≤ 2^62` (`BR T A = O(n² A)`: no `isize` saturation). -/
theorem max2sat_relaxed_ub {K : Type} [DecidableEq K] (cfg : Cfg St K) (A : Int)
    (cache : Cache St) (store : DomStore St K) (polls : Nat)
    (hT : TabOk T) (hA : WBound T A) (hA0 : 0 ≤ A) (hsmall : ((T.n : Int) + 2) * BR T A ≤ 4611686018427387904)
    (hP : cfg.P = problem T) (hR : cfg.R = relaxation T)
    (hrs : cfg.root.state = (0, List.replicate T.n 0)) (hrv : cfg.root.value = T.initial) (hrd : cfg.root.depth = 0)
    (hrel : cfg.ctype = .relaxed) (hcache : cfg.useCache = false) (hdom : cfg.dom = none) (hW : 1 ≤ cfg.width)
    (hlb : InI cfg.lb) (o : Int) (ho : o = T.initial + bestRem T T.n (0, List.replicate T.n 0)) (hgt : o > cfg.lb) :
    (compile cfg cache store polls none).1 = .ok →
    ∃ bv, (compile cfg cache store polls none).2.1.bestValue = some bv ∧ o ≤ bv := by
  have hVi : V T A 0 (0, List.replicate T.n 0) := V_init T A
  have hO : o ≤ iMax := by
    have h1 := bestRem_le_fuel hT hA hA0 T.n 0 _ hVi (by omega)
    have h2 := initial_bound hT hA hA0
    have h3 := B0_le_BR (T := T) hA0
    have h4 : (T.n : Int) * B0 T A ≤ (T.n : Int) * BR T A := Int.mul_le_mul_of_nonneg_left h3 (by omega)
    have e : ((T.n : Int) + 2) * BR T A = (T.n : Int) * BR T A + 2 * BR T A := by rw [Int.add_mul]
    have h5 := B0_nonneg (T := T) hA0
    simp only [iMax]; omega
  refine CoverRel.relaxed_ub_rel_valid cfg (H T) (V T A) (B0 T A) (BR T A) cache store polls hrel hcache hdom hW
    ?_ ?_ ?_ hlb o ?_ hgt (Or.inl hO)
  · rw [hP, hR]; exact wfRelV hT hA hA0
  · rw [hrd, hrs]; exact hVi
  · rw [hP, hR, hrv]
    have : (problem T).nbVars = T.n := rfl
    exact noClampRel hT hA hA0 hsmall
  · unfold optOf
    rw [hrd, hrs, hrv, ho]
    simp only [H, EInt.addI, Option.map_some, Nat.sub_zero]
    congr 1; omega

end

-- ------------------------------------------------------------------------------------------------------------------
-- non-vacuity: a small instance meeting every hypothesis, on which a merge actually happens (width 1, three variables)

namespace Tiny

def inst : Inst :=
  { n := 3, clauses := [(3, 1, 2), (2, -1, -2), (1, 1, -1), (4, -2, -2), (5, 2, 3), (2, -3, 1), (1, 3, 3)], order := [2, 0, 1] }

def cfg : Cfg St Unit :=
  { P := problem inst.tab, R := relaxation inst.tab, rank := ⟨rankCmp⟩, dom := none, useCache := false, kind := .lel,
    ctype := .relaxed, width := 1, root := ⟨(0, [0, 0, 0]), inst.tab.initial, [], iMax, 0⟩, lb := 0 }

theorem tabOk : TabOk inst.tab := (tabOkB_iff _).mp (by decide +kernel)

theorem wBound : WBound inst.tab 5 := wBound_of_elems _ 5 (by decide) (by decide +kernel)

/-- every hypothesis of `max2sat_relaxed_ub` holds, the compilation succeeds (the third layer is merged into one node), and
    the diagram reports a bound ≥ the optimum `initial + bestRem root` -/
example : ∃ bv, (compile cfg (Cache.init 3) (DomStore.init 3) 0 none).2.1.bestValue = some bv ∧
    inst.tab.initial + bestRem inst.tab 3 (0, [0, 0, 0]) ≤ bv :=
  max2sat_relaxed_ub (T := inst.tab) cfg 5 (Cache.init 3) (DomStore.init 3) 0 tabOk wBound (by decide) (by decide +kernel)
    rfl rfl rfl rfl rfl rfl rfl rfl (by decide) (by decide) _ rfl (by decide +kernel) (by decide +kernel)

end Tiny

section Axioms
#print axioms wfRel_false
#print axioms noClampDom_false
#print axioms wfRelV
#print axioms noClampRel
#print axioms max2sat_relaxed_ub
end Axioms

end Ddo.Examples.Max2satModel
