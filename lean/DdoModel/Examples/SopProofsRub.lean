import DdoModel.Examples.SopProofsStep
/-! Admissibility of the rough upper bound of the sop model (`SopDp.lean`: `rubFixed?`, the bound corrected for D19, and `rub?`,
    the bound of the repaired code, with the saturating addition of D12), as theorems.

* `rubFixed_conc`, `rub_conc` (**proved**): on a table as the reader builds it (`TabOk`) whose last row holds precedence marks
  only (`DomOk.last_row`; the primed forms `rubFixed_conc'`, `rub_conc'` take just that row), for a state `s` with `Inv T s` whose
  last job is still mandatory before the last layer (`hlast`, part of `validB`) and every exact state `u` it stands for
  (`Conc T s u`): `rubFixed? T s = some r` (resp. `rub? T s = some r`) implies `bestRem T u ≤ some r`.
* `rb_cex_refutes`, `rb_cex_values`, `rb_cex_not_inDomain` (**proved**, kernel evaluation): WITHOUT the hypothesis on the last row
  the statement is false — `RubFixedAdmissibleStmt` fails on a 3-job table in which the last job has no predecessor: the DP then
  schedules the last job first AND last (`domain?_last`: the last decision is the last job whatever the state holds), a
  "completion" that visits it twice and leaves job 1 out, cheaper than the bound.  Not reachable: `inDomain` demands the
  last row to be precedence marks.

The argument.  A value-to-go `some h` of an exact state `u = (Job p, U, none, depth)` is minus the cost of a path `p → j₁ → … →
j_ct` through all the jobs of `U`, each once (`rb_path`, by `bestRemF_att`; the last job cannot be decided before the last layer
because all the other jobs left are its predecessors).  Every arc costs `≥ 0`; a precedence mark costs `isize::MAX`, at least any
bound the code can answer; otherwise the arc `j_{t-1} → j_t` (`t ≥ 2`) is an entry of `cheapest_edges[j_t]` whose origin is
pending in `s`, so it costs at least `rb_E T s j_t` = the first such entry (`rb_pcost_cases`), and the first arc costs at least the
least distance from the position (`rb_minDistAll`, `mdist_spec`).  The jobs entered are all the jobs of `U` but `j₁`: the counting
argument of the comment of `rubFinalFixed` is `rb_comb` (on lists), on top of "the `k` smallest entries of a sorted list minimise
the sum of any `k` of its entries" (`rb_take_le`).  `rb_fixed_sound` / `rb_sat_sound` read the last lines of the two bounds. -/
namespace Ddo.Examples.SopModel
open Ddo Ddo.Examples Ddo.Examples.Util

-- ------------------------------------------------------------------------------------------------------------------
-- sums, sorted lists

theorem rb_foldl_add (l : List Int) : ∀ a : Int, l.foldl (· + ·) a = a + l.foldl (· + ·) 0 := by
  induction l with
  | nil => intro a; simp
  | cons x t ih =>
    intro a
    simp only [List.foldl_cons]
    rw [ih (a + x), ih (0 + x)]
    omega

theorem rb_sum_nil : sum [] = 0 := rfl

theorem rb_sum_cons (x : Int) (l : List Int) : sum (x :: l) = x + sum l := by
  unfold sum
  simp only [List.foldl_cons]
  rw [rb_foldl_add]
  omega

theorem rb_sum_append (l m : List Int) : sum (l ++ m) = sum l + sum m := by
  induction l with
  | nil => simp [rb_sum_nil]
  | cons x t ih => rw [List.cons_append, rb_sum_cons, rb_sum_cons, ih]; omega

theorem rb_sum_perm {l m : List Int} (h : l.Perm m) : sum l = sum m := by
  induction h with
  | nil => rfl
  | cons x _ ih => rw [rb_sum_cons, rb_sum_cons, ih]
  | swap x y l => simp only [rb_sum_cons]; omega
  | trans _ _ ih1 ih2 => rw [ih1, ih2]

theorem rb_insInt_perm (x : Int) (l : List Int) : (insInt x l).Perm (x :: l) := by
  induction l with
  | nil => exact List.Perm.refl _
  | cons y t ih =>
    unfold insInt
    split
    · exact List.Perm.refl _
    · exact ((List.Perm.cons y ih).trans (List.Perm.swap x y t))

theorem rb_sortInts_perm (l : List Int) : (sortInts l).Perm l := by
  induction l with
  | nil => exact List.Perm.refl _
  | cons x t ih =>
    show (insInt x (sortInts t)).Perm (x :: t)
    exact (rb_insInt_perm x _).trans (List.Perm.cons x ih)

theorem rb_insInt_sorted (x : Int) (l : List Int) (h : l.Pairwise (· ≤ ·)) : (insInt x l).Pairwise (· ≤ ·) := by
  induction l with
  | nil => simp [insInt]
  | cons y t ih =>
    unfold insInt
    have hy := List.pairwise_cons.mp h
    split
    · rename_i hxy
      refine List.pairwise_cons.mpr ⟨?_, h⟩
      intro z hz
      rcases List.mem_cons.mp hz with rfl | hz
      · exact hxy
      · exact Int.le_trans hxy (hy.1 z hz)
    · rename_i hxy
      refine List.pairwise_cons.mpr ⟨?_, ih hy.2⟩
      intro z hz
      rcases List.mem_cons.mp ((rb_insInt_perm x t).mem_iff.mp hz) with rfl | hz
      · omega
      · exact hy.1 z hz

theorem rb_sortInts_sorted (l : List Int) : (sortInts l).Pairwise (· ≤ ·) := by
  induction l with
  | nil => exact List.Pairwise.nil
  | cons x t ih => exact rb_insInt_sorted x _ ih

theorem rb_take_shift : ∀ (l : List Int) (x : Int) (n : Nat), (x :: l).Pairwise (· ≤ ·) → n ≤ l.length →
    sum ((x :: l).take n) ≤ sum (l.take n) := by
  intro l
  induction l with
  | nil => intro x n _ hn; simp at hn; subst hn; simp
  | cons y t ih =>
    intro x n h hn
    cases n with
    | zero => simp
    | succ n =>
      have h1 := List.pairwise_cons.mp h
      have := ih y n h1.2 (by simpa using hn)
      have hxy : x ≤ y := h1.1 y List.mem_cons_self
      rw [List.take_succ_cons, List.take_succ_cons, rb_sum_cons, rb_sum_cons]
      omega

theorem rb_take_le_sublist {m l : List Int} (h : m.Sublist l) : l.Pairwise (· ≤ ·) →
    sum (l.take m.length) ≤ sum m := by
  induction h with
  | slnil => intro _; simp
  | cons x h ih =>
    intro hs
    rename_i m l
    have := ih (List.pairwise_cons.mp hs).2
    have := rb_take_shift l x m.length hs h.length_le
    omega
  | cons_cons x h ih =>
    intro hs
    have := ih (List.pairwise_cons.mp hs).2
    rw [List.length_cons, List.take_succ_cons, rb_sum_cons, rb_sum_cons]
    omega

/-- the `k` smallest entries of a sorted list minimise the sum of any `k` of its entries -/
theorem rb_take_le {l m m' : List Int} (hs : l.Pairwise (· ≤ ·)) (hp : l.Perm (m ++ m')) :
    sum (l.take m.length) ≤ sum m := by
  obtain ⟨m₁, h1, h2⟩ := List.exists_perm_sublist (List.sublist_append_left m m') hp.symm
  have := rb_take_le_sublist h2 hs
  rw [h1.length_eq, rb_sum_perm h1] at this
  exact this

-- ------------------------------------------------------------------------------------------------------------------
-- `sortPairs`, `firstEdge`, `cheapOf`

theorem rb_insPair_perm (x : Int × Nat) (l : List (Int × Nat)) : (insPair x l).Perm (x :: l) := by
  induction l with
  | nil => exact List.Perm.refl _
  | cons y t ih =>
    unfold insPair
    split
    · exact List.Perm.refl _
    · exact ((List.Perm.cons y ih).trans (List.Perm.swap x y t))

theorem rb_sortPairs_perm (l : List (Int × Nat)) : (sortPairs l).Perm l := by
  induction l with
  | nil => exact List.Perm.refl _
  | cons x t ih =>
    show (insPair x (sortPairs t)).Perm (x :: t)
    exact (rb_insPair_perm x _).trans (List.Perm.cons x ih)

theorem rb_insPair_sorted (x : Int × Nat) (l : List (Int × Nat)) (h : l.Pairwise (fun a b => a.1 ≤ b.1)) :
    (insPair x l).Pairwise (fun a b => a.1 ≤ b.1) := by
  induction l with
  | nil => simp [insPair]
  | cons y t ih =>
    unfold insPair
    have hy := List.pairwise_cons.mp h
    split
    · rename_i hxy
      have hxy' : x.1 ≤ y.1 := by
        simp only [pairLe, Bool.or_eq_true, decide_eq_true_eq, Bool.and_eq_true, beq_iff_eq] at hxy
        omega
      refine List.pairwise_cons.mpr ⟨?_, h⟩
      intro z hz
      rcases List.mem_cons.mp hz with rfl | hz
      · exact hxy'
      · exact Int.le_trans hxy' (hy.1 z hz)
    · rename_i hxy
      have hxy' : y.1 ≤ x.1 := by
        simp only [pairLe, Bool.or_eq_true, decide_eq_true_eq, Bool.and_eq_true, beq_iff_eq] at hxy
        omega
      refine List.pairwise_cons.mpr ⟨?_, ih hy.2⟩
      intro z hz
      rcases List.mem_cons.mp ((rb_insPair_perm x t).mem_iff.mp hz) with rfl | hz
      · exact hxy'
      · exact hy.1 z hz

theorem rb_sortPairs_sorted (l : List (Int × Nat)) : (sortPairs l).Pairwise (fun a b => a.1 ≤ b.1) := by
  induction l with
  | nil => exact List.Pairwise.nil
  | cons x t ih => exact rb_insPair_sorted x _ ih

/-- on a list sorted by cost, `firstEdge` is at most the cost of every entry whose origin satisfies the predicate -/
theorem rb_firstEdge_le (p : Nat → Bool) : ∀ l : List (Int × Nat), l.Pairwise (fun a b => a.1 ≤ b.1) →
    ∀ c j, (c, j) ∈ l → p j = true → ∃ e, firstEdge p l = some e ∧ e ≤ c := by
  intro l
  induction l with
  | nil => intro _ c j h; cases h
  | cons y t ih =>
    intro hs c j hm hp
    obtain ⟨c', j'⟩ := y
    have hy := List.pairwise_cons.mp hs
    unfold firstEdge
    by_cases hj' : p j' = true
    · rw [if_pos hj']
      refine ⟨c', rfl, ?_⟩
      rcases List.mem_cons.mp hm with h | h
      · cases h; exact Int.le_refl _
      · exact hy.1 _ h
    · rw [if_neg hj']
      rcases List.mem_cons.mp hm with h | h
      · cases h; exact absurd hp hj'
      · exact ih hy.2 c j h hp

theorem rb_mem_cheapOf {n : Nat} {d : Array (Array Int)} {i j : Nat} (hj : j < n) (hij : i ≠ j)
    (hw : (d.getD j #[]).getD i 0 ≠ -1) : ((d.getD j #[]).getD i 0, j) ∈ cheapOf n d i := by
  unfold cheapOf
  rw [(rb_sortPairs_perm _).mem_iff, List.mem_filterMap]
  refine ⟨j, List.mem_range.mpr hj, ?_⟩
  simp [hij]
  simpa using hw

/-- the cheapest edge entering job `j` from a job still (possibly) to schedule in `s` -/
def rb_E (T : Tab) (s : St) (j : Nat) : Option Int := firstEdge (inPending s) (cheapOf T.n T.d j)

theorem rb_inPending_iff (s : St) (j : Nat) :
    inPending s j = true ↔ (s.must.testBit j = true ∨ (mb s).testBit j = true) := by
  unfold inPending mb has
  cases s.maybe with
  | none => simp
  | some y => simp

theorem rb_E_le {T : Tab} {s : St} {i j : Nat} (hi : i < T.n) (hij : i ≠ j) (hp : inPending s i = true)
    (hd : dfun T i j ≠ -1) : ∃ e, rb_E T s j = some e ∧ e ≤ dfun T i j := by
  unfold rb_E
  exact rb_firstEdge_le _ _ (rb_sortPairs_sorted _) _ i (rb_mem_cheapOf hi (fun e => hij e.symm) hd) hp

-- ------------------------------------------------------------------------------------------------------------------
-- the cost of a path

/-- the cost of visiting the jobs `js` in order from job `p` (a precedence mark costs `isize::MAX`) -/
def rb_pcost (T : Tab) : Nat → List Nat → Int
  | _, [] => 0
  | p, j :: r => dI T p j + rb_pcost T j r

theorem rb_imax_pos : (0 : Int) ≤ imax := by unfold imax; omega

theorem rb_dI_nonneg {T : Tab} (hT : TabOk T) {i j : Nat} (hi : i < T.n) (hj : j < T.n) : 0 ≤ dI T i j := by
  unfold dI
  split
  · exact rb_imax_pos
  · have := hT.d_ge i j hi hj; omega

/-- a path through pending jobs of `s`: its cost is `≥ 0`, and either `≥ isize::MAX` (an arc is a precedence mark) or at least
    the sum of the cheapest pending edges of the jobs it enters, all of which have one -/
theorem rb_pcost_cases {T : Tab} (hT : TabOk T) (s : St) : ∀ (r : List Nat) (q : Nat),
    (∀ j ∈ q :: r, j < T.n ∧ inPending s j = true) → (q :: r).Nodup →
    0 ≤ rb_pcost T q r ∧ (imax ≤ rb_pcost T q r ∨
      ((∀ j ∈ r, (rb_E T s j).isSome = true) ∧ sum (r.filterMap (rb_E T s)) ≤ rb_pcost T q r)) := by
  intro r
  induction r with
  | nil =>
    intro q _ _
    refine ⟨Int.le_refl _, Or.inr ⟨?_, ?_⟩⟩
    · intro j hj; cases hj
    · show sum [] ≤ 0
      rw [rb_sum_nil]; exact Int.le_refl _
  | cons j r ih =>
    intro q hm hnd
    have hq := hm q List.mem_cons_self
    have hj := hm j (List.mem_cons_of_mem _ List.mem_cons_self)
    have hnd' := List.nodup_cons.mp hnd
    obtain ⟨h0, h1⟩ := ih j (fun x hx => hm x (List.mem_cons_of_mem _ hx)) hnd'.2
    have hd0 := rb_dI_nonneg hT hq.1 hj.1
    have hpc : rb_pcost T q (j :: r) = dI T q j + rb_pcost T j r := rfl
    refine ⟨by omega, ?_⟩
    by_cases hd : dfun T q j = -1
    · left
      have : dI T q j = imax := by unfold dI; rw [if_pos hd]
      omega
    · have hdI : dI T q j = dfun T q j := by unfold dI; rw [if_neg hd]
      have hqj : q ≠ j := fun e => hnd'.1 (e ▸ List.mem_cons_self)
      obtain ⟨e, he, hle⟩ := rb_E_le (s := s) hq.1 hqj hq.2 hd
      rcases h1 with h1 | ⟨h1, h2⟩
      · left; omega
      · right
        refine ⟨?_, ?_⟩
        · intro x hx
          rcases List.mem_cons.mp hx with rfl | hx
          · rw [he]; rfl
          · exact h1 x hx
        · rw [List.filterMap_cons, he]
          simp only [rb_sum_cons]
          omega

-- ------------------------------------------------------------------------------------------------------------------
-- which edges the bound sums

/-- the sum of cheapest edges the last lines of the (corrected) bound add to the distance from the position -/
def rb_X (ct nMust : Nat) (toMust toMaybe : List Int) : Int :=
  if nMust ≥ ct then sum (toMust.take (ct - 1))
  else if toMust.isEmpty then sum (toMaybe.take (ct - 1))
  else
    min (sum (toMust.take (toMust.length - 1)) + sum (toMaybe.take (ct - toMust.length)))
      (sum toMust + sum (toMaybe.take (ct - toMust.length - 1)))

theorem rb_fixed_sound {ct nMust : Nat} {dist : Int} {toMust toMaybe : List Int} {r : Int}
    (h : rubFinalFixed ct nMust dist toMust toMaybe = some r) :
    ct ≠ 0 ∧ ∀ C : Int, 0 ≤ C → (imax ≤ C ∨ dist + rb_X ct nMust toMust toMaybe ≤ C) → -r ≤ C := by
  unfold rubFinalFixed at h
  unfold rb_X
  split at h
  · rename_i h1
    split at h
    · cases h
    · rename_i h2
      refine ⟨h2, ?_⟩
      intro C h0 hC
      obtain ⟨a, ha, hr⟩ := Option.bind_eq_some_iff.mp h
      obtain ⟨rfl, _, _⟩ := chk_eq_some ha
      obtain ⟨rfl, _, _⟩ := chk_eq_some hr
      rw [if_pos h1] at hC
      omega
  · rename_i h1
    have hct : ct ≠ 0 := by omega
    refine ⟨hct, ?_⟩
    intro C h0 hC
    rw [if_neg h1] at hC
    split at h
    · rename_i h2
      obtain ⟨a, ha, hr⟩ := Option.bind_eq_some_iff.mp h
      obtain ⟨rfl, _, _⟩ := chk_eq_some ha
      obtain ⟨rfl, _, _⟩ := chk_eq_some hr
      rw [if_pos h2] at hC
      omega
    · rename_i h2
      obtain ⟨a, ha, hr⟩ := Option.bind_eq_some_iff.mp h
      obtain ⟨rfl, _, _⟩ := chk_eq_some ha
      obtain ⟨rfl, _, _⟩ := chk_eq_some hr
      rw [if_neg h2] at hC
      omega

theorem rb_satAdd_le {a b C : Int} (h0 : 0 ≤ C) (h : imax ≤ C ∨ a + b ≤ C) : satAdd a b ≤ C := by
  unfold satAdd
  have : imin ≤ 0 := by unfold imin; omega
  omega

theorem rb_sat_sound {ct nMust : Nat} {dist : Int} {toMust toMaybe : List Int} {r : Int}
    (h : rubFinalSat ct nMust dist toMust toMaybe = some r) :
    ct ≠ 0 ∧ ∀ C : Int, 0 ≤ C → (imax ≤ C ∨ dist + rb_X ct nMust toMust toMaybe ≤ C) → -r ≤ C := by
  unfold rubFinalSat at h
  unfold rb_X
  split at h
  · rename_i h1
    split at h
    · cases h
    · rename_i h2
      refine ⟨h2, ?_⟩
      intro C h0 hC
      obtain ⟨rfl, _, _⟩ := chk_eq_some h
      rw [if_pos h1] at hC
      have := rb_satAdd_le h0 hC
      omega
  · rename_i h1
    have hct : ct ≠ 0 := by omega
    refine ⟨hct, ?_⟩
    intro C h0 hC
    rw [if_neg h1] at hC
    split at h
    · rename_i h2
      obtain ⟨rfl, _, _⟩ := chk_eq_some h
      rw [if_pos h2] at hC
      have := rb_satAdd_le h0 hC
      omega
    · rename_i h2
      obtain ⟨rfl, _, _⟩ := chk_eq_some h
      rw [if_neg h2] at hC
      have := rb_satAdd_le h0 hC
      omega

-- ------------------------------------------------------------------------------------------------------------------
-- the counting argument, on lists

theorem rb_sum_filterMap_split (f : Nat → Option Int) (P : Nat → Bool) (l : List Nat) :
    sum (l.filterMap f) = sum ((l.filter P).filterMap f) + sum ((l.filter (fun x => !P x)).filterMap f) := by
  induction l with
  | nil => simp [rb_sum_nil]
  | cons x t ih =>
    cases hP : P x <;> cases hf : f x <;>
      simp [hP, hf, rb_sum_cons, ih] <;> omega

theorem rb_length_filterMap_all (f : Nat → Option Int) (l : List Nat) (h : ∀ x ∈ l, (f x).isSome = true) :
    (l.filterMap f).length = l.length := by
  induction l with
  | nil => rfl
  | cons x t ih =>
    have hx := h x List.mem_cons_self
    obtain ⟨e, he⟩ := Option.isSome_iff_exists.mp hx
    rw [List.filterMap_cons, he]
    simp [ih (fun y hy => h y (List.mem_cons_of_mem _ hy))]

theorem rb_length_filter_split (P : Nat → Bool) (l : List Nat) :
    (l.filter P).length + (l.filter (fun x => !P x)).length = l.length := by
  induction l with
  | nil => rfl
  | cons x t ih => cases hP : P x <;> simp [hP] <;> omega

/-- a duplicate-free list is, up to the order, any duplicate-free part of it followed by the rest -/
theorem rb_perm_append_of_subset {A B : List Nat} (hA : A.Nodup) (hB : B.Nodup) (h : ∀ x ∈ A, x ∈ B) :
    B.Perm (A ++ B.filter (fun x => !decide (x ∈ A))) := by
  apply (List.perm_ext_iff_of_nodup hB ?_).mpr
  · intro a
    simp only [List.mem_append, List.mem_filter, Bool.not_eq_true', decide_eq_false_iff_not]
    constructor
    · intro ha
      by_cases haA : a ∈ A
      · exact Or.inl haA
      · exact Or.inr ⟨ha, haA⟩
    · rintro (ha | ha)
      · exact h a ha
      · exact ha.1
  · rw [List.nodup_append]
    refine ⟨hA, hB.sublist List.filter_sublist, ?_⟩
    intro a ha b hb e
    subst e
    simp only [List.mem_filter, Bool.not_eq_true', decide_eq_false_iff_not] at hb
    exact hb.2 ha

theorem rb_sum_eq_zero_of_length {l : List Int} (h : l.length = 0) : sum l = 0 := by
  rw [List.length_eq_zero_iff.mp h]; rfl

/-- the counting argument of the bound: a completion `j₁ :: rest` enters the jobs `rest`, all of which have a cheapest
    pending edge (`E`); the mandatory ones among `j₁ :: rest` are exactly `LM`, the others are among `LY`: the edges the bound sums
    (`rb_X`) cost at most the cheapest edges of the jobs entered -/
theorem rb_comb (E : Nat → Option Int) (inM : Nat → Bool) (LM LY : List Nat) (j₁ : Nat) (rest : List Nat)
    (tM tY : List Int) (hnd : (j₁ :: rest).Nodup) (hLY : LY.Nodup)
    (hM : ((j₁ :: rest).filter inM).Perm LM)
    (hY : ∀ j ∈ rest, inM j = false → j ∈ LY)
    (hE : ∀ j ∈ rest, (E j).isSome = true)
    (hsM : tM.Pairwise (· ≤ ·)) (hpM : tM.Perm (LM.filterMap E))
    (hsY : tY.Pairwise (· ≤ ·)) (hpY : LM.length < rest.length + 1 → tY.Perm (LY.filterMap E)) :
    rb_X (rest.length + 1) LM.length tM tY ≤ sum (rest.filterMap E) := by
  have hsplit := rb_sum_filterMap_split E inM rest
  have hlen := rb_length_filter_split inM rest
  have hlM : ((rest.filter inM).filterMap E).length = (rest.filter inM).length :=
    rb_length_filterMap_all E _ (fun x hx => hE x (List.mem_filter.mp hx).1)
  have hlY : ((rest.filter (fun x => !inM x)).filterMap E).length = (rest.filter (fun x => !inM x)).length :=
    rb_length_filterMap_all E _ (fun x hx => hE x (List.mem_filter.mp hx).1)
  -- the mandatory edges
  have hM' : ∃ pre : List Int, tM.Perm ((rest.filter inM).filterMap E ++ pre) ∧
      pre.length ≤ (if inM j₁ = true then 1 else 0) ∧
      LM.length = (rest.filter inM).length + (if inM j₁ = true then 1 else 0) := by
    by_cases hj : inM j₁ = true
    · rw [List.filter_cons, if_pos hj] at hM
      refine ⟨[j₁].filterMap E, ?_, ?_, ?_⟩
      · refine hpM.trans ?_
        have h1 : LM.Perm (rest.filter inM ++ [j₁]) := hM.symm.trans (List.perm_append_singleton _ _).symm
        have h2 := h1.filterMap E
        rw [List.filterMap_append] at h2
        exact h2
      · rw [if_pos hj]; exact List.length_filterMap_le _ _
      · rw [if_pos hj, ← hM.length_eq]; rfl
    · rw [List.filter_cons, if_neg hj] at hM
      refine ⟨[], ?_, ?_, ?_⟩
      · rw [List.append_nil]; exact hpM.trans (hM.symm.filterMap E)
      · simp
      · rw [if_neg hj, ← hM.length_eq]; rfl
  obtain ⟨pre, hpre, hprel, hLMl⟩ := hM'
  have hkM := rb_take_le hsM hpre
  rw [hlM] at hkM
  have htMl : tM.length = (rest.filter inM).length + pre.length := by
    rw [hpre.length_eq, List.length_append, hlM]
  -- the optional edges
  have hkY : LM.length < rest.length + 1 →
      sum (tY.take (rest.filter (fun x => !inM x)).length) ≤ sum ((rest.filter (fun x => !inM x)).filterMap E) := by
    intro hlt
    have hndY : (rest.filter (fun x => !inM x)).Nodup := (List.nodup_cons.mp hnd).2.sublist List.filter_sublist
    have hsub : ∀ x ∈ rest.filter (fun x => !inM x), x ∈ LY := by
      intro x hx
      have := List.mem_filter.mp hx
      exact hY x this.1 (by simpa using this.2)
    have h1 := (rb_perm_append_of_subset hndY hLY hsub).filterMap E
    rw [List.filterMap_append] at h1
    have := rb_take_le hsY ((hpY hlt).trans h1)
    rw [hlY] at this
    exact this
  generalize hm : (rest.filter inM).length = m at *
  generalize hy : (rest.filter (fun x => !inM x)).length = y at *
  generalize hb : (if inM j₁ = true then 1 else 0) = b at *
  have hb1 : b ≤ 1 := by rw [← hb]; split <;> omega
  unfold rb_X
  split
  · rename_i h1
    have e1 : rest.length + 1 - 1 = m := by omega
    have e2 : y = 0 := by omega
    rw [e1]
    rw [e2] at hlY
    have := rb_sum_eq_zero_of_length hlY
    omega
  · rename_i h1
    have hlt : LM.length < rest.length + 1 := by omega
    have hkY' := hkY hlt
    split
    · rename_i h2
      have h3 : tM.length = 0 := by rw [List.isEmpty_iff.mp h2]; rfl
      have e1 : rest.length + 1 - 1 = y := by omega
      have e2 : m = 0 := by omega
      rw [e1]
      rw [e2] at hlM
      have := rb_sum_eq_zero_of_length hlM
      omega
    · by_cases hp1 : pre.length = 1
      · have e1 : tM.length - 1 = m := by omega
        have e2 : rest.length + 1 - tM.length = y := by omega
        rw [e1, e2]
        omega
      · have e0 : tM.length = m := by omega
        have e1 : sum tM = sum (tM.take m) := by rw [← e0, List.take_length]
        have e2 : rest.length + 1 - tM.length - 1 = y := by omega
        rw [e2, e1]
        omega

-- ------------------------------------------------------------------------------------------------------------------
-- completions of exact states are paths

/-- an exact state on a completion of which the jobs left are exactly the positions left, the last job among them -/
structure rb_Ex (T : Tab) (u : St) : Prop where
  inv : Inv T u
  maybe : u.maybe = none
  card : card u.must = nv T - u.depth
  last : u.depth < nv T → u.must.testBit (T.n - 1) = true

theorem rb_mdist_exact {T : Tab} (hT : TabOk T) {u : St} {p j : Nat} (hu : u.prev = .job p) (hp : p < T.n)
    (hj : j < T.n) : mdist T u j = dI T p j := by
  unfold mdist minDist?
  rw [hu]
  simp only [Option.bind_eq_bind]
  rw [hT.dist p j hp hj]
  rfl

theorem rb_exists_mem_of_card {m : Nat} (h : 0 < card m) : ∃ x, m.testBit x = true := by
  unfold card at h
  cases hb : bits m with
  | nil => rw [hb] at h; simp at h
  | cons x t => exact ⟨x, mem_bits.mp (by rw [hb]; exact List.mem_cons_self)⟩

/-- a value-to-go of an exact state is minus the cost of a path through all the jobs left, each once -/
theorem rb_path {T : Tab} (hT : TabOk T) (hrow : ∀ j, j < T.n - 1 → dfun T (T.n - 1) j = -1) :
    ∀ (fuel : Nat) (u : St) (p : Nat) (h : Int), rb_Ex T u → u.prev = .job p → nv T - u.depth ≤ fuel →
    bestRemF T .code fuel u = some h →
    ∃ js : List Nat, js.Nodup ∧ js.length = nv T - u.depth ∧ (∀ j ∈ js, u.must.testBit j = true) ∧
      h = -(rb_pcost T p js) := by
  intro fuel
  induction fuel with
  | zero =>
    intro u p h hu hp hf hh
    rw [bestRemF_done 0 u (by omega)] at hh
    cases hh
    exact ⟨[], List.nodup_nil, (by simp; omega), (fun j hj => by cases hj), rfl⟩
  | succ fuel ih =>
    intro u p h hu hp hf hh
    by_cases hd : u.depth < nv T
    · obtain ⟨j, hj, h', hb, hh'⟩ := bestRemF_att hT hu.inv hd fuel hh
      have hjn : j < T.n := hj.lt hT hu.inv
      have hpn : p < T.n := hu.inv.prev_lt p (by simp [isPrev, hp])
      have hmb : ∀ x, (mb u).testBit x = false := by intro x; simp [mb, hu.maybe]
      -- the job decided is one of the jobs left, and the last job stays until the end
      have hjU : u.must.testBit j = true ∧ (u.depth + 1 < nv T → j ≠ T.n - 1) := by
        unfold InDom at hj
        split at hj
        · rename_i hl
          subst hj
          refine ⟨hu.last hd, ?_⟩
          unfold nv; omega
        · rename_i hl
          obtain ⟨h1, h2⟩ := hj
          have hjm : u.must.testBit j = true := by
            rcases h1 with h1 | h1
            · exact h1
            · rw [hmb] at h1; cases h1
          refine ⟨hjm, ?_⟩
          intro _ hjl
          have hcan := ((canB_iff u j).mp h2).1
          have hc1 := card_diff_single hjm
          have hc2 := hu.card
          have hpos : 0 < card (diff u.must (single j)) := by unfold nv at hc2 hd; omega
          obtain ⟨x, hx⟩ := rb_exists_mem_of_card hpos
          rw [testBit_diff, testBit_single] at hx
          simp only [Bool.and_eq_true, Bool.not_eq_true', decide_eq_false_iff_not] at hx
          have hxn := (hu.inv.must_lt x hx.1).2
          have hxl : x < T.n - 1 := by omega
          have hpred : (predOf T j).testBit x = true := by
            rw [hjl]
            exact (hT.pred_spec (T.n - 1) x (by omega)).mpr ⟨hxn, hrow x hxl⟩
          have := hcan x hpred
          rw [hx.1] at this
          cases this
      have hEx : rb_Ex T (succSt T u j) := by
        refine ⟨inv_succ hT hu.inv hd hj, ?_, ?_, ?_⟩
        · show u.maybe.map _ = none
          rw [hu.maybe]; rfl
        · show card (diff u.must (single j)) = nv T - (u.depth + 1)
          have hc1 := card_diff_single hjU.1
          have hc2 := hu.card
          omega
        · intro hd'
          show (diff u.must (single j)).testBit (T.n - 1) = true
          have hd'' : u.depth + 1 < nv T := hd'
          rw [testBit_diff, testBit_single, hu.last hd]
          have := hjU.2 hd''
          simp [this]
      obtain ⟨js, hnd, hlen, hmem, hcost⟩ := ih (succSt T u j) j h' hEx rfl
        (by show nv T - (u.depth + 1) ≤ fuel; omega) hb
      refine ⟨j :: js, ?_, ?_, ?_, ?_⟩
      · refine List.nodup_cons.mpr ⟨?_, hnd⟩
        intro hjm
        have := hmem j hjm
        have e : (succSt T u j).must = diff u.must (single j) := rfl
        rw [e, testBit_diff, testBit_single] at this
        simp at this
      · rw [List.length_cons, hlen]
        show nv T - (u.depth + 1) + 1 = nv T - u.depth
        omega
      · intro x hx
        rcases List.mem_cons.mp hx with rfl | hx
        · exact hjU.1
        · have := hmem x hx
          have e : (succSt T u j).must = diff u.must (single j) := rfl
          rw [e, testBit_diff] at this
          simp only [Bool.and_eq_true] at this
          exact this.1
      · rw [hh', hcost, rb_mdist_exact hT hp hpn hjn]
        show _ = -(dI T p j + rb_pcost T j js)
        omega
    · rw [bestRemF_done (fuel + 1) u (by omega)] at hh
      cases hh
      exact ⟨[], List.nodup_nil, (by simp; omega), (fun j hj => by cases hj), rfl⟩

-- ------------------------------------------------------------------------------------------------------------------
-- the distance from the position

theorem rb_minDistAll (T : Tab) (s : St) : ∀ (js : List Nat) (acc r : Int), minDistAll? T s acc js = some r →
    r ≤ acc ∧ ∀ i ∈ js, r ≤ mdist T s i := by
  intro js
  induction js with
  | nil =>
    intro acc r h
    unfold minDistAll? at h
    simp only [List.foldlM_nil, pure, Option.some.injEq] at h
    subst h
    exact ⟨Int.le_refl _, fun i hi => by cases hi⟩
  | cons x t ih =>
    intro acc r h
    unfold minDistAll? at h
    simp only [List.foldlM_cons, Option.bind_eq_bind, Option.bind_eq_some_iff, Option.map_eq_some_iff] at h
    obtain ⟨a', ⟨w, hw, rfl⟩, h'⟩ := h
    obtain ⟨h1, h2⟩ := ih (min acc w) r h'
    have hm : mdist T s x = w := by unfold mdist; rw [hw]; rfl
    refine ⟨by omega, ?_⟩
    intro i hi
    rcases List.mem_cons.mp hi with rfl | hi
    · omega
    · exact h2 i hi

-- ------------------------------------------------------------------------------------------------------------------
-- the bound dominates every completion of every exact state

theorem rb_ex_of_conc {T : Tab} {s u : St} (hs : Inv T s) (hc : Conc T s u)
    (hlast : s.depth < nv T → s.must.testBit (T.n - 1) = true) : rb_Ex T u := by
  have hmb : ∀ x, (mb u).testBit x = false := by intro x; simp [mb, hc.maybe]
  refine ⟨⟨?_, ?_, ?_, ?_, ?_, ?_⟩, hc.maybe, ?_, ?_⟩
  · rw [hc.depth]; exact hs.depth_le
  · intro x hx
    rcases hc.hi x hx with h | h
    · exact hs.must_lt x h
    · exact hs.maybe_lt x h
  · intro x hx; rw [hmb] at hx; cases hx
  · intro x _; exact hmb x
  · obtain ⟨p, hp, hip, _⟩ := hc.prev
    intro q hq
    simp only [isPrev, hp] at hq
    subst hq
    exact hs.prev_lt _ hip
  · rw [hc.card, hc.depth]; omega
  · rw [hc.card, hc.depth]
  · intro hd
    rw [hc.depth] at hd
    exact hc.lo _ (hlast hd)

theorem rb_rubWith_conc {T : Tab} (fin : Nat → Nat → Int → List Int → List Int → Option Int)
    (hfin : ∀ {ct nMust : Nat} {dist : Int} {tM tY : List Int} {r : Int}, fin ct nMust dist tM tY = some r →
      ct ≠ 0 ∧ ∀ C : Int, 0 ≤ C → (imax ≤ C ∨ dist + rb_X ct nMust tM tY ≤ C) → -r ≤ C)
    (hT : TabOk T) (hrow : ∀ j, j < T.n - 1 → dfun T (T.n - 1) j = -1) {s u : St} (hs : Inv T s)
    (hlast : s.depth < nv T → s.must.testBit (T.n - 1) = true) (hc : Conc T s u) {r : Int}
    (hr : rubWith? T fin s = some r) : bestRem T u ≤ some r := by
  cases hb : bestRem T u with
  | none => exact EInt.none_le _
  | some h =>
    obtain ⟨p, hprev, hisp, hpU⟩ := hc.prev
    have hEx := rb_ex_of_conc hs hc hlast
    unfold bestRem at hb
    obtain ⟨js, hnd, hlen, hmem, hcost⟩ := rb_path hT hrow _ u p h hEx hprev (Nat.le_refl _) hb
    rw [hc.depth] at hlen
    unfold rubWith? at hr
    simp only [Option.bind_eq_bind, Option.bind_eq_some_iff] at hr
    obtain ⟨nbv, h1, ct, h2, rm, h3, dist, h4, rmy, h5, d2, h6, h7⟩ := hr
    generalize hmy : (if (decide ((bits s.must).length < ct) && s.maybe.isSome) = true then bits (s.maybe.getD 0)
      else []) = maybes at h5 h6
    have hn0 : T.n ≠ 0 := by have := hT.n_pos; omega
    have hnbv : nbv = nv T := by
      unfold nbVars? at h1
      rw [if_neg hn0] at h1
      cases h1; rfl
    subst hnbv
    have hct : ct = nv T - s.depth := by
      split at h2
      · cases h2
      · cases h2; rfl
    have hrm : rm = (bits s.must).map (cheapOf T.n T.d) := by
      have := mapM_total (fun i => T.cheap[i]?) (cheapOf T.n T.d) (bits s.must)
        (fun i hi => hT.cheap i (hs.must_lt i (mem_bits.mp hi)).2)
      rw [this] at h3; cases h3; rfl
    have hmy_mem : ∀ i ∈ maybes, (mb s).testBit i = true := by
      intro i hi
      rw [← hmy] at hi
      split at hi
      · exact mem_bits.mp hi
      · cases hi
    have hrmy : rmy = maybes.map (cheapOf T.n T.d) := by
      have := mapM_total (fun i => T.cheap[i]?) (cheapOf T.n T.d) maybes
        (fun i hi => hT.cheap i (hs.maybe_lt i (hmy_mem i hi)).2)
      rw [this] at h5; cases h5; rfl
    have h7' : fin ct (bits s.must).length d2 (sortInts ((bits s.must).filterMap (rb_E T s)))
        (sortInts (maybes.filterMap (rb_E T s))) = some r := by
      rw [hrm, hrmy, List.filterMap_map, List.filterMap_map] at h7
      exact h7
    have hmaybes : (bits s.must).length < ct → maybes = bits (mb s) := by
      intro hlt
      rw [← hmy]
      cases hm : s.maybe with
      | none => simp [mb, hm, bits_zero]
      | some y => simp [mb, hm, hlt]
    obtain ⟨hct0, hkey⟩ := hfin h7'
    cases js with
    | nil => simp at hlen; omega
    | cons j₁ rest =>
      have hctl : ct = rest.length + 1 := by rw [hct, ← hlen]; rfl
      have hmemS : ∀ j ∈ j₁ :: rest, j < T.n ∧ inPending s j = true := fun j hj =>
        ⟨(hEx.inv.must_lt j (hmem j hj)).2, (rb_inPending_iff s j).mpr (hc.hi j (hmem j hj))⟩
      obtain ⟨hpc0, hpc⟩ := rb_pcost_cases hT s rest j₁ hmemS hnd
      have hpn : p < T.n := hs.prev_lt p hisp
      have hj1n : j₁ < T.n := (hmemS j₁ List.mem_cons_self).1
      have hd0 := rb_dI_nonneg hT hpn hj1n
      have hC : rb_pcost T p (j₁ :: rest) = dI T p j₁ + rb_pcost T j₁ rest := rfl
      apply (EInt.some_le_some _ _).mpr
      -- the jobs of the path are all the jobs of `u`
      have hUperm : (bits u.must).Perm (j₁ :: rest) := by
        have h1 := rb_perm_append_of_subset hnd (bits_nodup u.must) (fun x hx => mem_bits.mpr (hmem x hx))
        have hl := h1.length_eq
        rw [List.length_append] at hl
        have hcard : (bits u.must).length = nv T - s.depth := hc.card
        have h0 : ((bits u.must).filter (fun x => !decide (x ∈ j₁ :: rest))).length = 0 := by omega
        rw [List.length_eq_zero_iff.mp h0, List.append_nil] at h1
        exact h1
      have hM : ((j₁ :: rest).filter s.must.testBit).Perm (bits s.must) := by
        apply (List.perm_ext_iff_of_nodup (hnd.sublist List.filter_sublist) (bits_nodup _)).mpr
        intro a
        simp only [List.mem_filter, mem_bits]
        constructor
        · exact fun h => h.2
        · intro ha; exact ⟨hUperm.mem_iff.mp (mem_bits.mpr (hc.lo a ha)), ha⟩
      have hY : ∀ j ∈ rest, s.must.testBit j = false → j ∈ bits (mb s) := by
        intro j hj hjm
        rcases hc.hi j (hmem j (List.mem_cons_of_mem _ hj)) with h | h
        · rw [hjm] at h; cases h
        · exact mem_bits.mpr h
      -- the first arc
      have hfirst : d2 ≤ dI T p j₁ := by
        obtain ⟨hd1, hd1'⟩ := rb_minDistAll T s _ _ _ h4
        obtain ⟨hd2, hd2'⟩ := rb_minDistAll T s _ _ _ h6
        have hmd : mdist T s j₁ ≤ dI T p j₁ := (mdist_spec hT hs.prev_lt hj1n).2.2.1 p hisp
        by_cases hj1m : s.must.testBit j₁ = true
        · have := hd1' j₁ (mem_bits.mpr hj1m)
          omega
        · have hlt : (bits s.must).length < ct := by
            have hl := hM.length_eq
            rw [List.filter_cons, if_neg hj1m] at hl
            have := List.length_filter_le s.must.testBit rest
            omega
          have hj1y : (mb s).testBit j₁ = true := by
            rcases hc.hi j₁ (hmem j₁ List.mem_cons_self) with h | h
            · exact absurd h hj1m
            · exact h
          have := hd2' j₁ (by rw [hmaybes hlt]; exact mem_bits.mpr hj1y)
          omega
      have hfinal := hkey (rb_pcost T p (j₁ :: rest)) (by omega) (by
        rcases hpc with hbig | ⟨hallE, hsum⟩
        · left; omega
        · right
          have hX := rb_comb (rb_E T s) s.must.testBit (bits s.must) (bits (mb s)) j₁ rest
            (sortInts ((bits s.must).filterMap (rb_E T s))) (sortInts (maybes.filterMap (rb_E T s)))
            hnd (bits_nodup _) hM hY hallE (rb_sortInts_sorted _) (rb_sortInts_perm _) (rb_sortInts_sorted _)
            (fun hlt => by rw [hmaybes (by omega)]; exact rb_sortInts_perm _)
          rw [hctl]
          omega)
      omega

/-- the corrected bound dominates the value-to-go of every exact state `s` stands for.  Beyond `TabOk`, `Inv`, `Conc`: the row of
    the last job holds precedence marks only (`DomOk.last_row`, true on every instance of the input domain) and the last job is
    still mandatory before the last layer (`hlast`, part of `validB`) -/
theorem rubFixed_conc' {T : Tab} (hT : TabOk T) (hrow : ∀ j, j < T.n - 1 → dfun T (T.n - 1) j = -1) {s u : St}
    (hs : Inv T s) (hlast : s.depth < nv T → s.must.testBit (T.n - 1) = true) (hc : Conc T s u) {r : Int}
    (hr : rubFixed? T s = some r) : bestRem T u ≤ some r :=
  rb_rubWith_conc rubFinalFixed (fun h => rb_fixed_sound h) hT hrow hs hlast hc hr

theorem rub_conc' {T : Tab} (hT : TabOk T) (hrow : ∀ j, j < T.n - 1 → dfun T (T.n - 1) j = -1) {s u : St}
    (hs : Inv T s) (hlast : s.depth < nv T → s.must.testBit (T.n - 1) = true) (hc : Conc T s u) {r : Int}
    (hr : rub? T s = some r) : bestRem T u ≤ some r :=
  rb_rubWith_conc rubFinalSat (fun h => rb_sat_sound h) hT hrow hs hlast hc hr

theorem rubFixed_conc {T : Tab} (hT : TabOk T) (hD : DomOk T) {s u : St} (hs : Inv T s)
    (hlast : s.depth < nv T → s.must.testBit (T.n - 1) = true) (hc : Conc T s u) {r : Int}
    (hr : rubFixed? T s = some r) : bestRem T u ≤ some r :=
  rubFixed_conc' hT hD.last_row hs hlast hc hr

theorem rub_conc {T : Tab} (hT : TabOk T) (hD : DomOk T) {s u : St} (hs : Inv T s)
    (hlast : s.depth < nv T → s.must.testBit (T.n - 1) = true) (hc : Conc T s u) {r : Int}
    (hr : rub? T s = some r) : bestRem T u ≤ some r :=
  rub_conc' hT hD.last_row hs hlast hc hr

-- ------------------------------------------------------------------------------------------------------------------
-- the hypothesis on the last row is needed

/-- three jobs, the last one WITHOUT predecessor (outside the input domain) -/
def rb_cexRows : List (List Int) := [[0, 5, 1], [-1, 0, 5], [-1, 5, 0]]
def rb_cexT : Tab := tabOf 3 rb_cexRows

theorem rb_cex_not_inDomain : inDomain 3 rb_cexRows = false := by decide +kernel

/-- at the root the bound is `-6` (`1` from job 0 + the cheaper of the edges `2 → 1`, `1 → 2`), the DP's best "completion" is
    `0 → 2 → 2` for `1 + 0` -/
theorem rb_cex_values : validB rb_cexT (initSt rb_cexT) = true ∧ initSt rb_cexT ∈ concretize rb_cexT (initSt rb_cexT) ∧
    rubFixed? rb_cexT (initSt rb_cexT) = some (-6) ∧ rub? rb_cexT (initSt rb_cexT) = some (-6) ∧
    bestRem rb_cexT (initSt rb_cexT) = some (-1) := by decide +kernel

/-- without `DomOk.last_row` the corrected bound is not admissible (on a table outside the input domain) -/
theorem rb_cex_refutes : ¬ RubFixedAdmissibleStmt rb_cexT := by
  intro h
  have h1 := h (initSt rb_cexT) (-6) (by decide +kernel) (by decide +kernel)
  revert h1
  decide +kernel

#print axioms rubFixed_conc
#print axioms rub_conc
end Ddo.Examples.SopModel
