import DdoModel.Dp
import DdoModel.Examples.Util
import DdoModel.Examples.Sop
/-! The DP model, relaxation, ranking and width heuristic of the shipped sop example
    (`ddo/examples/sop/{state,model,relax,heuristics,io_utils}.rs`, sequential ordering problem) in Lean: definitions only (the
    driver engine `exmodel`, family `sop`, compares them pointwise with the example's own code, compiled into the harness;
    statements about them are in `SopModel.lean`).

Mirror of the Rust code (MINIMISATION: the costs are negated distances; `isize` arithmetic with overflow checks, as the
debug profile: `none` = a panic).  A set of jobs (`Set256`) is a `Nat` bit mask; its iteration order is increasing.
* `io_utils.rs`: `read_instance` builds the `n × n` matrix `distances` as written in the file and, for every row `i`,
  `predecessors[i]` = the set of columns `j` with `distances[i][j] = -1` ("`j` before `i`"), `n_predecessors[i]` its size;
* `model.rs`: `Sop::new` precomputes `cheapest_edges[i]` = the pairs `(distances[j][i], j)`, `j ≠ i`, `distances[j][i] ≠ -1`,
  sorted increasingly (lexicographic order of the pairs); the root is `(Job 0, {1 … n-1}, None, 0)`, `initial_value = 0`,
  `nb_variables = n - 1` (`usize` underflow when `n = 0`: a panic); `next_variable(depth) = depth` while `depth < nb_variables`;
  `for_each_in_domain`: when `state.depth = nb_variables - 1` (underflow when `n = 1`) the only value is `n - 1`, whatever
  the state; otherwise the jobs of `must_schedule` that `can_schedule`, then those of `maybe_schedule` (when `Some`);
  `can_schedule(s, j)` (REPAIRED, finding D12): no predecessor of `j` belongs to `must_schedule` and — on a state that has a
  `maybe_schedule` set — `|must_schedule| + |maybe_schedule \ predecessors[j]| ≥ nb_variables - depth` (saturating): enough
  optional jobs that are no predecessors of `j` remain to fill the positions left, i.e. ONE of the exact states the merged
  state stands for allows `j` (`canSchedule?`).  Before the repair (`canScheduleOld?`): NO predecessor of `j` belongs to
  `must_schedule ∪ maybe_schedule` — on a merged state this demanded that every predecessor be scheduled in ALL merged
  states, completions of merged-away states were lost (witness `SopModel.d12_refutes_MergeOkStmt`);
  `transition(s, j)` (REPAIRED): `(Job j, must \ {j}, maybe.map (\ {j} \ predecessors[j]), depth + 1)` — a job that was allowed
  has all its predecessors scheduled in the exact states that allowed it, so none of them "may still be to schedule"; this
  keeps the invariant the other functions rely on: every job still (possibly) to schedule can follow one of the previous
  jobs (`j ≥ 256`: index out of range in the bit set; `maybe_schedule = Some _` and `j ≥ n`: index out of range in
  `predecessors`).  Before the repair (`transOld?`): `maybe.map (\ {j})`;
  `transition_cost = - min_distance_to(s, j)`; `min_distance_to`: from `Job i`: `isize::MAX` when `distances[i][j] = -1`, else
  the distance; from `Virtual P`: the least `distances[i][j] ≠ -1` over `i ∈ P` (none: `isize::MAX` as well — REPAIRED, an
  `unwrap` of `None` before);
* `relax.rs`: `merge` = `(Virtual (∪ previous), ∩ must, (∪ maybe ∪ ∪ must) \ ∩ must  — None when empty —, max depth)`; no
  state at all: `(Virtual ∅, the full set of 256 jobs, None, 0)`; `relax` = the cost, unchanged;
  `fast_upper_bound`: see `rub?` (cheapest incoming edge of every job still to do, from a job still to do; the
  `complete_tour - 1` cheapest of them, the cheaper of the two mandatory / optional selections, `rubFinalFixed`, finding D19;
  plus the least distance from the current position, by a SATURATING addition — REPAIRED with D12: `isize::MAX`, "no job can
  follow the current position", no longer overflows);
* `heuristics.rs`: `SopRanking::compare` compares the depths; `SopWidth::max_width = nb_vars * (depth + 1) * factor` (the depth
  of the SUB-PROBLEM). -/
namespace Ddo.Examples.SopModel
open Ddo Ddo.Examples Ddo.Examples.Util

/-- `isize::MAX`, `isize::MIN` -/
def imax : Int := 9223372036854775807
def imin : Int := -9223372036854775808
/-- the result of an `isize` operation with overflow checks: `none` = a panic -/
def chk (x : Int) : Option Int := if imin ≤ x ∧ x ≤ imax then some x else none
/-- `a + b` on `isize` -/
def addC (a b : Int) : Option Int := chk (a + b)
/-- `a.saturating_add(b)` on `isize` -/
def satAdd (a b : Int) : Int := max imin (min imax (a + b))

-- ------------------------------------------------------------------------------------------------ bit sets (`Set256`)
/-- the members of a set, increasingly (`Set256::iter`) -/
def bits (m : Nat) : List Nat := (List.range (m.log2 + 1)).filter m.testBit
def has (m x : Nat) : Bool := m.testBit x
def single (x : Nat) : Nat := 1 <<< x
def diff (a b : Nat) : Nat := a ^^^ (a &&& b)
def card (m : Nat) : Nat := (bits m).length
def ofList (xs : List Nat) : Nat := xs.foldl (fun m x => m ||| single x) 0
/-- `BitSet::default().flip()`: all the 256 jobs a `Set256` can hold -/
def full256 : Nat := 2 ^ 256 - 1

inductive Prev where
  | job (i : Nat)
  | virt (s : Nat)
deriving DecidableEq, Repr

structure St where
  prev : Prev
  must : Nat
  maybe : Option Nat
  depth : Nat
deriving DecidableEq, Repr

/-- insertion sort of pairs, lexicographic order (what `sort_unstable` computes on tuples: the order is total) -/
def pairLe (a b : Int × Nat) : Bool := a.1 < b.1 || (a.1 == b.1 && a.2 ≤ b.2)
def insPair (x : Int × Nat) : List (Int × Nat) → List (Int × Nat)
  | [] => [x]
  | y :: ys => if pairLe x y then x :: y :: ys else y :: insPair x ys
def sortPairs (l : List (Int × Nat)) : List (Int × Nat) := l.foldr insPair []
def insInt (x : Int) : List Int → List Int
  | [] => [x]
  | y :: ys => if x ≤ y then x :: y :: ys else y :: insInt x ys
def sortInts (l : List Int) : List Int := l.foldr insInt []

/-- what the model functions need: the `SopInstance` built by the reader and the table of `Sop::new` -/
structure Tab where
  n : Nat
  d : Array (Array Int)
  pred : Array Nat
  cheap : Array (List (Int × Nat))

/-- `read_instance`: the predecessors of job `i` are the columns of row `i` that hold `-1` -/
def predOfRow (row : List Int) : Nat :=
  ofList ((List.range row.length).filter fun j => row.getD j 0 == -1)

/-- `Sop::compute_cheapest_edges` -/
def cheapOf (n : Nat) (d : Array (Array Int)) (i : Nat) : List (Int × Nat) :=
  sortPairs ((List.range n).filterMap fun j =>
    let w := (d.getD j #[]).getD i 0
    if i == j || w == -1 then none else some (w, j))

def tabOf (n : Nat) (rows : List (List Int)) : Tab :=
  let d := (rows.map List.toArray).toArray
  { n := n, d := d, pred := (rows.map predOfRow).toArray, cheap := ((List.range n).map (cheapOf n d)).toArray }

variable (T : Tab)

/-- `nb_variables`; `none` = a panic (`0 - 1` on `usize`) -/
def nbVars? : Option Nat := if T.n = 0 then none else some (T.n - 1)
def nv : Nat := T.n - 1

def initSt : St := { prev := .job 0, must := ofList ((List.range T.n).drop 1), maybe := none, depth := 0 }

def nextVar (depth : Nat) : Option Nat := if depth < nv T then some depth else none

/-- `distances[i][j]`; `none` = index out of range -/
def dist? (i j : Nat) : Option Int := do let r ← T.d[i]?; r[j]?

/-- `Sop::min_distance_to`; `none` = a panic (index out of range).  From a pool of previous jobs none of which can precede
    `j` the answer is `isize::MAX` (the repaired code: `unwrap_or(isize::MAX)`; an `unwrap` of `None` before) -/
def minDist? (s : St) (j : Nat) : Option Int :=
  match s.prev with
  | .job i => do let w ← dist? T i j; pure (if w = -1 then imax else w)
  | .virt c => do
    let ws ← (bits c).mapM fun i => dist? T i j
    pure ((minOf (ws.filter (· ≠ -1))).getD imax)

/-- everything that may still have to be scheduled -/
def pending (s : St) : Nat := s.must ||| s.maybe.getD 0

/-- `Sop::can_schedule` BEFORE the repair of D12 (kept for the record and for the witness theorems of `SopModel.lean`): no
    predecessor of `j` in `must_schedule ∪ maybe_schedule`; `none` = a panic (`predecessors[j]` out of range) -/
def canScheduleOld? (s : St) (j : Nat) : Option Bool := do
  let p ← T.pred[j]?
  pure ((p &&& pending s) == 0)
def canScheduleOld (s : St) (j : Nat) : Bool := (canScheduleOld? T s j).getD false

/-- `Sop::can_schedule` (the REPAIRED code): no predecessor of `j` in `must_schedule` and, when there is a `maybe_schedule` set,
    enough optional jobs that are no predecessors of `j` to fill the positions left
    (`nb_variables().saturating_sub(depth)`); `none` = a panic (`predecessors[j]` out of range) -/
def canSchedule? (s : St) (j : Nat) : Option Bool := do
  let p ← T.pred[j]?
  if (p &&& s.must) != 0 then pure false else
  match s.maybe with
  | none => pure true
  | some y => pure (decide (card s.must + card (diff y p) ≥ nv T - s.depth))

def schedulableWith? (can : St → Nat → Option Bool) (s : St) (js : List Nat) : Option (List Nat) := do
  let fl ← js.mapM fun j => (can s j).map fun b => (j, b)
  pure ((fl.filter (·.2)).map (·.1))

/-- `for_each_in_domain` (the variable is not read) with `can` for `can_schedule`; `none` = a panic -/
def domainWith? (can : St → Nat → Option Bool) (s : St) : Option (List Int) :=
  if T.n ≤ 1 then none else
  if s.depth = T.n - 2 then some [((T.n - 1 : Nat) : Int)] else do
    let a ← schedulableWith? can s (bits s.must)
    let b ← match s.maybe with
      | none => pure []
      | some y => schedulableWith? can s (bits y)
    pure ((a ++ b).map fun (j : Nat) => (j : Int))

/-- `for_each_in_domain` of the repaired code -/
def domain? (s : St) : Option (List Int) := domainWith? T (canSchedule? T) s
/-- `for_each_in_domain` before the repair of D12 -/
def domainOld? (s : St) : Option (List Int) := domainWith? T (canScheduleOld? T) s

/-- `transition` BEFORE the repair of D12: the predecessors of the job decided stay in `maybe_schedule` -/
def transOld? (s : St) (d : Dec) : Option St :=
  if d.val < 0 ∨ d.val ≥ 256 then none else
  let j := d.val.toNat
  some { prev := .job j, must := diff s.must (single j), maybe := s.maybe.map fun y => diff y (single j), depth := s.depth + 1 }

/-- `transition` (the REPAIRED code: the predecessors of the job decided leave `maybe_schedule`); `none` = a panic (`Set256`
    holds the jobs `0 … 255`; a negative value is a huge `usize`; `predecessors[j]` is read when there is a `maybe_schedule` set) -/
def trans? (s : St) (d : Dec) : Option St :=
  if d.val < 0 ∨ d.val ≥ 256 then none else
  let j := d.val.toNat
  match s.maybe with
  | none => some { prev := .job j, must := diff s.must (single j), maybe := none, depth := s.depth + 1 }
  | some y => do
    let p ← T.pred[j]?
    pure { prev := .job j, must := diff s.must (single j), maybe := some (diff (diff y (single j)) p), depth := s.depth + 1 }

/-- `transition_cost`; `none` = a panic.  A negative value is a huge `usize`: every `distances[i][j]` read is out of range —
    and from an EMPTY pool of previous jobs nothing is read: the distance is `isize::MAX` as for any job -/
def cost? (s : St) (d : Dec) : Option Int :=
  if d.val < 0 then
    (match s.prev with
     | .virt c => if (bits c).isEmpty then chk (-imax) else none
     | .job _ => none)
  else do
  let w ← minDist? T s d.val.toNat
  chk (-w)

def domain (s : St) : List Int := (domain? T s).getD []
def domainOld (s : St) : List Int := (domainOld? T s).getD []
def trans (s : St) (d : Dec) : St := (trans? T s d).getD s
def cost (s : St) (d : Dec) : Int := (cost? T s d).getD 0

def problem : Problem St :=
  { nbVars := nv T
    init := initSt T
    initVal := 0
    trans := trans T
    cost := fun s _ d => cost T s d
    nextVar := fun depth _ => nextVar T depth
    domain := fun _ s => domain T s
    impacted := fun _ _ => true }

/-- `SopRelax::merge` (never panics on jobs below 256) -/
def merge (X : List St) : St :=
  let depth := X.foldl (fun a s => max a s.depth) 0
  let prev := X.foldl (fun a s => match s.prev with | .job x => a ||| single x | .virt xs => a ||| xs) 0
  let agree := X.foldl (fun a s => a &&& s.must) full256
  let allMust := X.foldl (fun a s => a ||| s.must) 0
  let allMaybe := X.foldl (fun a s => a ||| s.maybe.getD 0) 0
  let maybe := diff (allMaybe ||| allMust) agree
  { prev := .virt prev, must := agree, maybe := if maybe = 0 then none else some maybe, depth := depth }

/-- `SopRelax::relax` -/
def relaxCost (c : Int) : Int := c

/-- the first entry of `cheapest_edges[i]` whose origin satisfies `p` -/
def firstEdge (p : Nat → Bool) : List (Int × Nat) → Option Int
  | [] => none
  | (c, j) :: r => if p j then some c else firstEdge p r

/-- least of `acc` and the distances from the position to the jobs `js` (in order) -/
def minDistAll? (s : St) (acc : Int) (js : List Nat) : Option Int :=
  js.foldlM (fun a i => (minDist? T s i).map fun w => min a w) acc

/-- the last lines of `fast_upper_bound`: which cheapest edges are summed (`ct` = the number of jobs still to place) -/
def rubFinal (ct nMust : Nat) (dist : Int) (toMust toMaybe : List Int) : Option Int :=
  if nMust ≥ ct then
    (if ct = 0 then none else (addC dist (sum (toMust.take (ct - 1)))).bind fun a => chk (-a))
  else if toMust.isEmpty then
    (addC dist (sum (toMaybe.take (ct - 1)))).bind fun a => chk (-a)
  else
    match toMust.getLast?, toMaybe.head? with
    | some last, some first =>
      if last ≤ first then
        (if ct - 1 < toMust.length then none else
         (addC dist (sum toMust)).bind fun a =>
           (addC a (sum (toMaybe.take (ct - 1 - toMust.length)))).bind fun b => chk (-b))
      else
        (if ct < toMust.length then none else
         (addC dist (sum (toMust.take (toMust.length - 1)))).bind fun a =>
           (addC a (sum (toMaybe.take (ct - toMust.length)))).bind fun b => chk (-b))
    | _, _ => none

/-- is job `j` still (possibly) to be scheduled -/
def inPending (s : St) (j : Nat) : Bool :=
  has s.must j || (match s.maybe with | some y => has y j | none => false)

/-- the last lines of a CORRECTED bound (not the code's: only used to classify a violation of `RubOk`).  The code's third and
    fourth branches choose between `A` = all mandatory edges but the largest + `k` optional ones and `B` = all mandatory edges
    + `k - 1` optional ones (`k = ct - |toMust|`) by comparing the largest mandatory edge with the FIRST optional edge; the
    sound choice is the lesser of the two sums: a completion places `ct` jobs, its `ct - 1` inner arcs enter distinct jobs —
    all of them but the first one — and each costs at least the cheapest edge entering its head from a job still to do; the
    first job is either mandatory (then the other mandatory jobs and `k` optional ones are entered: at least `A`) or optional
    (all the mandatory jobs and `k - 1` optional ones: at least `B`).  The other branches are the code's. -/
def rubFinalFixed (ct nMust : Nat) (dist : Int) (toMust toMaybe : List Int) : Option Int :=
  if nMust ≥ ct then
    (if ct = 0 then none else (addC dist (sum (toMust.take (ct - 1)))).bind fun a => chk (-a))
  else if toMust.isEmpty then
    (addC dist (sum (toMaybe.take (ct - 1)))).bind fun a => chk (-a)
  else
    let k := ct - toMust.length
    let a := sum (toMust.take (toMust.length - 1)) + sum (toMaybe.take k)
    let b := sum toMust + sum (toMaybe.take (k - 1))
    (addC dist (min a b)).bind fun x => chk (-x)

/-- the last lines of the REPAIRED `fast_upper_bound` (D12): `rubFinalFixed` with the distance from the position added by
    `saturating_add` (`isize::MAX` = no job can follow the position: the sum stays `isize::MAX`, the bound is `-isize::MAX`);
    the same value as `rubFinalFixed` wherever that one does not overflow (`SopModel.rubFinalSat_eq_of_some`) -/
def rubFinalSat (ct nMust : Nat) (dist : Int) (toMust toMaybe : List Int) : Option Int :=
  if nMust ≥ ct then
    (if ct = 0 then none else chk (-(satAdd dist (sum (toMust.take (ct - 1))))))
  else if toMust.isEmpty then
    chk (-(satAdd dist (sum (toMaybe.take (ct - 1)))))
  else
    let k := ct - toMust.length
    let a := sum (toMust.take (toMust.length - 1)) + sum (toMaybe.take k)
    let b := sum toMust + sum (toMaybe.take (k - 1))
    chk (-(satAdd dist (min a b)))

/-- `fast_upper_bound` up to its last lines (`fin`); `none` = a panic (`usize` underflow, index out of range, `unwrap` of
    `None`, `isize` overflow) -/
def rubWith? (fin : Nat → Nat → Int → List Int → List Int → Option Int) (s : St) : Option Int := do
  let nbv ← nbVars? T
  let ct ← (if s.depth > nbv then none else some (nbv - s.depth))
  let must := bits s.must
  let nMust := must.length
  let rowsMust ← must.mapM fun i => T.cheap[i]?
  let toMust := sortInts (rowsMust.filterMap (firstEdge (inPending s)))
  let dist ← minDistAll? T s imax must
  let useMaybe := decide (nMust < ct) && s.maybe.isSome
  let maybes := if useMaybe then bits (s.maybe.getD 0) else []
  let rowsMaybe ← maybes.mapM fun i => T.cheap[i]?
  let toMaybe := sortInts (rowsMaybe.filterMap (firstEdge (inPending s)))
  let dist2 ← minDistAll? T s dist maybes
  fin ct nMust dist2 toMust toMaybe

/-- `fast_upper_bound` as first shipped (before D19) -/
def rubOld? (s : St) : Option Int := rubWith? T rubFinal s
/-- the bound corrected for D19 (`rubFinalFixed`), checked additions: the code between the repairs of D19 and D12 -/
def rubFixed? (s : St) : Option Int := rubWith? T rubFinalFixed s
/-- `fast_upper_bound` of the REPAIRED code: the mixed branch keeps the lesser of the two edge selections (finding D19;
    `rubOld?` above is the bound as shipped before: it compared the largest mandatory edge with the FIRST optional edge, witness
    `SopModel.rub_refutes_RubAdmissibleStmt`) and the distance from the position is added by `saturating_add` (finding D12) -/
def rub? (s : St) : Option Int := rubWith? T rubFinalSat s

def relaxation : Relax St :=
  { merge := merge
    relax := fun _ _ _ _ c => relaxCost c
    rub := fun s => (rub? T s).getD 0 }

/-- `SopRanking::compare` -/
def rankCmp (a b : St) : Ordering := compare a.depth b.depth

/-- `SopWidth::max_width` on a sub-problem of depth `depth` -/
def maxWidth (nbVars factor depth : Nat) : Nat := nbVars * (depth + 1) * factor

-- ------------------------------------------------------------------------------------------------------------------
-- what the driver evaluates pointwise (exhaustive enumeration over the remaining jobs with the model's own functions)

/-- the domain with `can_schedule` weakened to "no predecessor MUST still be scheduled" and nothing else (the first reading
    of the repair of D12, without the count of the optional jobs): only kept for the witness theorems of `SopModel.lean` -/
def domainLax (s : St) : List Int :=
  if T.n ≤ 1 then [] else
  if s.depth = T.n - 2 then [((T.n - 1 : Nat) : Int)] else
  ((bits (pending s)).filter fun j => ((T.pred.getD j 0) &&& s.must) == 0).map fun (j : Nat) => (j : Int)

/-- which DP the value-to-go is taken in: `code` = the repaired code (`domain`, `trans?`); `old` = before the repair of D12
    (`domainOld`, `transOld?`); `lax` = `domainLax`, `transOld?`, a panicking cost read as `-isize::MAX` -/
inductive Mode where
  | code | old | lax
deriving DecidableEq, Repr

/-- the value-to-go of `s`: the best total transition cost over ALL completions of `s` (every sequence of decisions on the
    variables `s.depth, …, nv-1`, each in the domain of the state reached); `none` = −∞ (no completion).  `fuel ≥ nv - s.depth`. -/
def bestRemF (mode : Mode) : Nat → St → EInt
  | 0, _ => some 0
  | fuel + 1, s =>
    if s.depth ≥ nv T then some 0 else
    let x := s.depth
    (match mode with | .code => domain T s | .old => domainOld T s | .lax => domainLax T s).foldl (fun acc v =>
      match (match mode with | .code => trans? T s ⟨x, v⟩ | _ => transOld? s ⟨x, v⟩), cost? T s ⟨x, v⟩ with
      | some s2, some c => EInt.max acc ((bestRemF mode fuel s2).addI c)
      | some s2, none => if mode = Mode.lax then EInt.max acc ((bestRemF mode fuel s2).addI (-imax)) else acc
      | _, _ => acc) none
/-- the value-to-go in the DP of the repaired code -/
def bestRem (s : St) : EInt := bestRemF T .code (nv T - s.depth) s
/-- the value-to-go in the DP before the repair of D12 -/
def bestRemOld (s : St) : EInt := bestRemF T .old (nv T - s.depth) s
def bestRemLax (s : St) : EInt := bestRemF T .lax (nv T - s.depth) s

/-- the states the pointwise statements are about: jobs of the instance only, job 0 done, not deeper than the last
    layer, the last job still to do before the last layer, a non-empty pool of previous jobs none of which is still to do
    for sure, `must` and `maybe` disjoint, and enough — but not too many mandatory — jobs left to fill the remaining positions -/
def validB (s : St) : Bool :=
  let all := ofList ((List.range T.n).drop 1)
  let y := s.maybe.getD 0
  decide (s.depth ≤ nv T) && diff (s.must ||| y) all == 0 && (s.must &&& y) == 0 &&
  (match s.prev with
   | .job i => decide (i < T.n) && !has (s.must ||| y) i
   | .virt c => c != 0 && diff c (all ||| 1) == 0 && (c &&& s.must) == 0) &&
  (decide (s.depth = nv T) || has s.must (T.n - 1)) &&
  decide (card s.must ≤ nv T - s.depth) && decide (nv T - s.depth ≤ card (s.must ||| y))

/-- the exact states a (merged) state stands for: one of the previous jobs, all the mandatory jobs and as many of the
    optional ones as there are positions left (an exact state stands for itself) -/
def concretize (s : St) : List St :=
  let ct := nv T - s.depth
  let prevs := match s.prev with | .job i => [i] | .virt c => bits c
  let ys := (sublists (bits (s.maybe.getD 0))).filter fun Y => Y.length == ct - card s.must
  prevs.flatMap fun p => ys.filterMap fun Y =>
    let U := s.must ||| ofList Y
    if has U p then none else some { prev := .job p, must := U, maybe := none, depth := s.depth }

/-- the best value-to-go among the exact states `s` stands for -/
def bestRemConc (s : St) : EInt := (concretize T s).foldl (fun acc u => EInt.max acc (bestRem T u)) none

/-- `RubOk` at one state: the bound `r` claimed for `s` dominates the value-to-go of every exact state `s` stands for
    (for an exact state: its own value-to-go) -/
def rubOkAt (s : St) (r : Int) : Bool := decide (bestRemConc T s ≤ some r)
/-- the stronger reading — `r` dominates the value-to-go of `s` in the relaxed DP itself, whose completions from a merged
    state may leave mandatory jobs out (nothing counts them: on the last variable the domain is the last job, whatever
    `must_schedule` holds) — is NOT what the bound computes; where it fails is only counted (`rub-vs-relaxed-dp`) -/
def rubOkRelaxedDpAt (s : St) (r : Int) : Bool := decide (bestRem T s ≤ some r)
/-- a violation of `rubOkAt` by the bound `r` is of the class `sop-rub-optional-edge` when `r` is exactly what the modelled
    formula `rubOld?` gives (so the only possible cause is the one line in which `rubOld?` and `rubFixed?` differ: the choice between
    the mandatory and the optional edges) and the corrected bound `rubFixed?` is admissible at `s`; a bound that is NOT the
    modelled one (a changed `fast_upper_bound`) is never excused -/
def rubOptionalEdgeAt (s : St) (r : Int) : Bool :=
  rubOld? T s == some r &&
  (match rubFixed? T s with
   | some rf => rubOkAt T s rf
   | none => false)

/-- `MergeOk` (potential form, `Wf.lean`) at one merged-away state `u`, merged state `m`, arc cost `c` relaxed to `r`:
    if `u` has a completion worth `h` then `m` has one worth `h'` with `c + h ≤ r + h'` (`H` = the value-to-go `hm` of `m`) -/
def mergeOkWith (hu hm : EInt) (c r : Int) : Bool :=
  match hu with
  | none => true
  | some h =>
    match hm with
    | none => false
    | some h' => decide (c + h ≤ r + h')
def mergeOkAt (u m : St) (c r : Int) : Bool := mergeOkWith (bestRem T u) (bestRem T m) c r
/-- the same in the DP before the repair of D12 (`canScheduleOld?`, `transOld?`): REFUTED, `SopModel.d12_refutes_MergeOkStmt` -/
def mergeOkOldAt (u m : St) (c r : Int) : Bool := mergeOkWith (bestRemOld T u) (bestRemOld T m) c r
/-- the old DP with `can_schedule` merely weakened to the mandatory jobs in the merged state (`domainLax`) -/
def mergeOkLaxAt (u m : St) (c r : Int) : Bool := mergeOkWith (bestRemOld T u) (bestRemLax T m) c r

-- ------------------------------------------------------------------------------------------------------------------
-- the independent specification (`Sop.lean`)

/-- the distance function the specification reads -/
def dfun (i j : Nat) : Int := (T.d.getD i #[]).getD j 0

/-- the sequences the specification `Sop.spec` enumerates -/
def specSeqs (n : Nat) : List (List Nat) :=
  if n = 1 then [[0]]
  else (Sop.perms ((List.range (n - 1)).drop 1)).map (fun p => 0 :: p ++ [n - 1])

/-- the specification's least cost among the sequences that start with job `0` followed by the decisions `decs`; `none` =
    no such sequence respects the precedences; with no decision at all this is `Sop.spec` (`SopModel.spec_eq_specBestIn`) -/
def specBestIn (seqs : List (List Nat)) (d : Nat → Nat → Int) (decs : List Nat) : Option Int :=
  Sop.minimum (((seqs.filter fun q => (0 :: decs).isPrefixOf q).filter (Sop.respects d)).map (Sop.cost d))

/-- in the domain of the format (TSPLIB conventions): a square matrix, a zero diagonal, job 0 before every job, every job
    before the last one, every other entry a distance `≥ 0` or a precedence mark `-1` among the inner jobs -/
def inDomain (n : Nat) (rows : List (List Int)) : Bool :=
  decide (1 ≤ n) && rows.length == n && rows.all (fun r => r.length == n) &&
  ((List.range n).all fun i => (List.range n).all fun j =>
    let w := (rows.getD i []).getD j 0
    if i == j then w == 0
    else if j == 0 then w == -1
    else if i == n - 1 then w == -1
    else if i == 0 || j == n - 1 then decide (0 ≤ w)
    else decide (-1 ≤ w))

end Ddo.Examples.SopModel
