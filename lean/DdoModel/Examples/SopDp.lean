import DdoModel.Dp
import DdoModel.Examples.Util
import DdoModel.Examples.Sop
/-! The DP model, relaxation, ranking and width heuristic of the shipped sop example
    (`ddo/examples/sop/{state,model,relax,heuristics,io_utils}.rs`, sequential ordering problem) in Lean: definitions only (the
    driver engine `exmodel`, family `sop`, compares them pointwise with the example's own code, compiled into the harness;
    statements about them are in `SopModel.lean`).

Mirror of the Rust code (MINIMISATION: the costs are negated distances; `isize` arithmetic with overflow checks, as the
debug profile: `none` = a panic).  A set of jobs (`Set256`) is a `Nat` bit mask; its iteration order is increasing.
* `io_utils.rs`: `read_instance` builds the `n × n` matrix `distances` as written in the file and, for every row `i`,
  `predecessors[i]` = the set of columns `j` with `distances[i][j] = -1` ("`j` before `i`"), `n_predecessors[i]` its size;
* `model.rs`: `Sop::new` precomputes `cheapest_edges[i]` = the pairs `(distances[j][i], j)`, `j ≠ i`, `distances[j][i] ≠ -1`,
  sorted increasingly (lexicographic order of the pairs); the root is `(Job 0, {1 … n-1}, None, 0)`, `initial_value = 0`,
  `nb_variables = n - 1` (`usize` underflow when `n = 0`: a panic); `next_variable(depth) = depth` while `depth < nb_variables`;
  `for_each_in_domain`: when `state.depth = nb_variables - 1` (underflow when `n = 1`) the only value is `n - 1`, whatever
  the state; otherwise the jobs of `must_schedule` that `can_schedule`, then those of `maybe_schedule` (when `Some`);
  `can_schedule(s, j)`: NO predecessor of `j` belongs to `must_schedule ∪ maybe_schedule` — on a merged state this demands
  that every predecessor be scheduled in ALL merged states (open defect D12, mirrored as it is);
  `transition(s, j)`: `(Job j, must \ {j}, maybe.map (\ {j}), depth + 1)` (`j ≥ 256`: index out of range in the bit set);
  `transition_cost = - min_distance_to(s, j)`; `min_distance_to`: from `Job i`: `isize::MAX` when `distances[i][j] = -1`, else
  the distance; from `Virtual P`: the least `distances[i][j] ≠ -1` over `i ∈ P` (none: `unwrap` of `None`, a panic);
* `relax.rs`: `merge` = `(Virtual (∪ previous), ∩ must, (∪ maybe ∪ ∪ must) \ ∩ must  — None when empty —, max depth)`; no
  state at all: `(Virtual ∅, the full set of 256 jobs, None, 0)`; `relax` = the cost, unchanged;
  `fast_upper_bound`: see `rubOld?` (cheapest incoming edge of every job still to do, from a job still to do; the
  `complete_tour - 1` cheapest of them, the mandatory ones first unless the largest mandatory one exceeds the FIRST optional
  one; plus the least distance from the current position);
* `heuristics.rs`: `SopRanking::compare` compares the depths; `SopWidth::max_width = nb_vars * (depth + 1) * factor` (the depth
  of the SUB-PROBLEM). -/
namespace Ddo.Examples.SopModel
open Ddo Ddo.Examples Ddo.Examples.Util

/-- `isize::MAX`, `isize::MIN` -/
def imax : Int := 9223372036854775807
def imin : Int := -9223372036854775808
/-- the result of an `isize` operation with overflow checks: `none` = a panic -/
def chk (x : Int) : Option Int := if imin ≤ x ∧ x ≤ imax then some x else none
/-- `a + b` on `isize` -/
def addC (a b : Int) : Option Int := chk (a + b)

-- ------------------------------------------------------------------------------------------------ bit sets (`Set256`)
/-- the members of a set, increasingly (`Set256::iter`) -/
def bits (m : Nat) : List Nat := (List.range (m.log2 + 1)).filter m.testBit
def has (m x : Nat) : Bool := m.testBit x
def single (x : Nat) : Nat := 1 <<< x
def diff (a b : Nat) : Nat := a ^^^ (a &&& b)
def card (m : Nat) : Nat := (bits m).length
def ofList (xs : List Nat) : Nat := xs.foldl (fun m x => m ||| single x) 0
/-- `BitSet::default().flip()`: all the 256 jobs a `Set256` can hold -/
def full256 : Nat := 2 ^ 256 - 1

inductive Prev where
  | job (i : Nat)
  | virt (s : Nat)
deriving DecidableEq, Repr

structure St where
  prev : Prev
  must : Nat
  maybe : Option Nat
  depth : Nat
deriving DecidableEq, Repr

/-- insertion sort of pairs, lexicographic order (what `sort_unstable` computes on tuples: the order is total) -/
def pairLe (a b : Int × Nat) : Bool := a.1 < b.1 || (a.1 == b.1 && a.2 ≤ b.2)
def insPair (x : Int × Nat) : List (Int × Nat) → List (Int × Nat)
  | [] => [x]
  | y :: ys => if pairLe x y then x :: y :: ys else y :: insPair x ys
def sortPairs (l : List (Int × Nat)) : List (Int × Nat) := l.foldr insPair []
def insInt (x : Int) : List Int → List Int
  | [] => [x]
  | y :: ys => if x ≤ y then x :: y :: ys else y :: insInt x ys
def sortInts (l : List Int) : List Int := l.foldr insInt []

/-- what the model functions need: the `SopInstance` built by the reader and the table of `Sop::new` -/
structure Tab where
  n : Nat
  d : Array (Array Int)
  pred : Array Nat
  cheap : Array (List (Int × Nat))

/-- `read_instance`: the predecessors of job `i` are the columns of row `i` that hold `-1` -/
def predOfRow (row : List Int) : Nat :=
  ofList ((List.range row.length).filter fun j => row.getD j 0 == -1)

/-- `Sop::compute_cheapest_edges` -/
def cheapOf (n : Nat) (d : Array (Array Int)) (i : Nat) : List (Int × Nat) :=
  sortPairs ((List.range n).filterMap fun j =>
    let w := (d.getD j #[]).getD i 0
    if i == j || w == -1 then none else some (w, j))

def tabOf (n : Nat) (rows : List (List Int)) : Tab :=
  let d := (rows.map List.toArray).toArray
  { n := n, d := d, pred := (rows.map predOfRow).toArray, cheap := ((List.range n).map (cheapOf n d)).toArray }

variable (T : Tab)

/-- `nb_variables`; `none` = a panic (`0 - 1` on `usize`) -/
def nbVars? : Option Nat := if T.n = 0 then none else some (T.n - 1)
def nv : Nat := T.n - 1

def initSt : St := { prev := .job 0, must := ofList ((List.range T.n).drop 1), maybe := none, depth := 0 }

def nextVar (depth : Nat) : Option Nat := if depth < nv T then some depth else none

/-- `distances[i][j]`; `none` = index out of range -/
def dist? (i j : Nat) : Option Int := do let r ← T.d[i]?; r[j]?

/-- `Sop::min_distance_to` -/
def minDist? (s : St) (j : Nat) : Option Int :=
  match s.prev with
  | .job i => do let w ← dist? T i j; pure (if w = -1 then imax else w)
  | .virt c => do
    let ws ← (bits c).mapM fun i => dist? T i j
    minOf (ws.filter (· ≠ -1))

/-- everything that may still have to be scheduled -/
def pending (s : St) : Nat := s.must ||| s.maybe.getD 0

/-- `Sop::can_schedule`; `none` = a panic (`predecessors[j]` out of range) -/
def canSchedule? (s : St) (j : Nat) : Option Bool := do
  let p ← T.pred[j]?
  pure ((p &&& pending s) == 0)

def schedulable? (s : St) (js : List Nat) : Option (List Nat) := do
  let fl ← js.mapM fun j => (canSchedule? T s j).map fun b => (j, b)
  pure ((fl.filter (·.2)).map (·.1))

/-- `for_each_in_domain` (the variable is not read); `none` = a panic -/
def domain? (s : St) : Option (List Int) :=
  if T.n ≤ 1 then none else
  if s.depth = T.n - 2 then some [((T.n - 1 : Nat) : Int)] else do
    let a ← schedulable? T s (bits s.must)
    let b ← match s.maybe with
      | none => pure []
      | some y => schedulable? T s (bits y)
    pure ((a ++ b).map fun (j : Nat) => (j : Int))

/-- `transition`; `none` = a panic (`Set256` holds the jobs `0 … 255`; a negative value is a huge `usize`) -/
def trans? (s : St) (d : Dec) : Option St :=
  if d.val < 0 ∨ d.val ≥ 256 then none else
  let j := d.val.toNat
  some { prev := .job j, must := diff s.must (single j), maybe := s.maybe.map fun y => diff y (single j), depth := s.depth + 1 }

/-- `transition_cost`; `none` = a panic -/
def cost? (s : St) (d : Dec) : Option Int :=
  if d.val < 0 then none else do
  let w ← minDist? T s d.val.toNat
  chk (-w)

def domain (s : St) : List Int := (domain? T s).getD []
def trans (s : St) (d : Dec) : St := (trans? s d).getD s
def cost (s : St) (d : Dec) : Int := (cost? T s d).getD 0

def problem : Problem St :=
  { nbVars := nv T
    init := initSt T
    initVal := 0
    trans := trans
    cost := fun s _ d => cost T s d
    nextVar := fun depth _ => nextVar T depth
    domain := fun _ s => domain T s
    impacted := fun _ _ => true }

/-- `SopRelax::merge` (never panics on jobs below 256) -/
def merge (X : List St) : St :=
  let depth := X.foldl (fun a s => max a s.depth) 0
  let prev := X.foldl (fun a s => match s.prev with | .job x => a ||| single x | .virt xs => a ||| xs) 0
  let agree := X.foldl (fun a s => a &&& s.must) full256
  let allMust := X.foldl (fun a s => a ||| s.must) 0
  let allMaybe := X.foldl (fun a s => a ||| s.maybe.getD 0) 0
  let maybe := diff (allMaybe ||| allMust) agree
  { prev := .virt prev, must := agree, maybe := if maybe = 0 then none else some maybe, depth := depth }

/-- `SopRelax::relax` -/
def relaxCost (c : Int) : Int := c

/-- the first entry of `cheapest_edges[i]` whose origin satisfies `p` -/
def firstEdge (p : Nat → Bool) : List (Int × Nat) → Option Int
  | [] => none
  | (c, j) :: r => if p j then some c else firstEdge p r

/-- least of `acc` and the distances from the position to the jobs `js` (in order) -/
def minDistAll? (s : St) (acc : Int) (js : List Nat) : Option Int :=
  js.foldlM (fun a i => (minDist? T s i).map fun w => min a w) acc

/-- the last lines of `fast_upper_bound`: which cheapest edges are summed (`ct` = the number of jobs still to place) -/
def rubFinal (ct nMust : Nat) (dist : Int) (toMust toMaybe : List Int) : Option Int :=
  if nMust ≥ ct then
    (if ct = 0 then none else (addC dist (sum (toMust.take (ct - 1)))).bind fun a => chk (-a))
  else if toMust.isEmpty then
    (addC dist (sum (toMaybe.take (ct - 1)))).bind fun a => chk (-a)
  else
    match toMust.getLast?, toMaybe.head? with
    | some last, some first =>
      if last ≤ first then
        (if ct - 1 < toMust.length then none else
         (addC dist (sum toMust)).bind fun a =>
           (addC a (sum (toMaybe.take (ct - 1 - toMust.length)))).bind fun b => chk (-b))
      else
        (if ct < toMust.length then none else
         (addC dist (sum (toMust.take (toMust.length - 1)))).bind fun a =>
           (addC a (sum (toMaybe.take (ct - toMust.length)))).bind fun b => chk (-b))
    | _, _ => none

/-- is job `j` still (possibly) to be scheduled -/
def inPending (s : St) (j : Nat) : Bool :=
  has s.must j || (match s.maybe with | some y => has y j | none => false)

/-- the last lines of a CORRECTED bound (not the code's: only used to classify a violation of `RubOk`).  The code's third and
    fourth branches choose between `A` = all mandatory edges but the largest + `k` optional ones and `B` = all mandatory edges
    + `k - 1` optional ones (`k = ct - |toMust|`) by comparing the largest mandatory edge with the FIRST optional edge; the
    sound choice is the lesser of the two sums: a completion places `ct` jobs, its `ct - 1` inner arcs enter distinct jobs —
    all of them but the first one — and each costs at least the cheapest edge entering its head from a job still to do; the
    first job is either mandatory (then the other mandatory jobs and `k` optional ones are entered: at least `A`) or optional
    (all the mandatory jobs and `k - 1` optional ones: at least `B`).  The other branches are the code's. -/
def rubFinalFixed (ct nMust : Nat) (dist : Int) (toMust toMaybe : List Int) : Option Int :=
  if nMust ≥ ct then
    (if ct = 0 then none else (addC dist (sum (toMust.take (ct - 1)))).bind fun a => chk (-a))
  else if toMust.isEmpty then
    (addC dist (sum (toMaybe.take (ct - 1)))).bind fun a => chk (-a)
  else
    let k := ct - toMust.length
    let a := sum (toMust.take (toMust.length - 1)) + sum (toMaybe.take k)
    let b := sum toMust + sum (toMaybe.take (k - 1))
    (addC dist (min a b)).bind fun x => chk (-x)

/-- `fast_upper_bound` up to its last lines (`fin`); `none` = a panic (`usize` underflow, index out of range, `unwrap` of
    `None`, `isize` overflow) -/
def rubWith? (fin : Nat → Nat → Int → List Int → List Int → Option Int) (s : St) : Option Int := do
  let nbv ← nbVars? T
  let ct ← (if s.depth > nbv then none else some (nbv - s.depth))
  let must := bits s.must
  let nMust := must.length
  let rowsMust ← must.mapM fun i => T.cheap[i]?
  let toMust := sortInts (rowsMust.filterMap (firstEdge (inPending s)))
  let dist ← minDistAll? T s imax must
  let useMaybe := decide (nMust < ct) && s.maybe.isSome
  let maybes := if useMaybe then bits (s.maybe.getD 0) else []
  let rowsMaybe ← maybes.mapM fun i => T.cheap[i]?
  let toMaybe := sortInts (rowsMaybe.filterMap (firstEdge (inPending s)))
  let dist2 ← minDistAll? T s dist maybes
  fin ct nMust dist2 toMust toMaybe

/-- `fast_upper_bound` (the code's) -/
def rubOld? (s : St) : Option Int := rubWith? T rubFinal s
/-- the corrected bound (`rubFinalFixed`): NOT the code's -/
def rubFixed? (s : St) : Option Int := rubWith? T rubFinalFixed s
/-- `fast_upper_bound` of the REPAIRED code (`fix:` commit of /repo, finding D19): the mixed branch keeps the lesser of the two
    edge selections; `rubOld?` above is the bound as shipped before (it compared the largest mandatory edge with the FIRST
    optional edge; witness `SopModel.rub_refutes_RubAdmissibleStmt`) -/
def rub? (s : St) : Option Int := rubFixed? T s

def relaxation : Relax St :=
  { merge := merge
    relax := fun _ _ _ _ c => relaxCost c
    rub := fun s => (rub? T s).getD 0 }

/-- `SopRanking::compare` -/
def rankCmp (a b : St) : Ordering := compare a.depth b.depth

/-- `SopWidth::max_width` on a sub-problem of depth `depth` -/
def maxWidth (nbVars factor depth : Nat) : Nat := nbVars * (depth + 1) * factor

-- ------------------------------------------------------------------------------------------------------------------
-- what the driver evaluates pointwise (exhaustive enumeration over the remaining jobs with the model's own functions)

/-- the domain with `can_schedule` weakened to "no predecessor MUST still be scheduled" (what a merged state has to allow
    for its merged-away states to keep their completions): only used to CLASSIFY a violation of `MergeOk` -/
def domainLax (s : St) : List Int :=
  if T.n ≤ 1 then [] else
  if s.depth = T.n - 2 then [((T.n - 1 : Nat) : Int)] else
  ((bits (pending s)).filter fun j => ((T.pred.getD j 0) &&& s.must) == 0).map fun (j : Nat) => (j : Int)

/-- the value-to-go of `s`: the best total transition cost over ALL completions of `s` (every sequence of decisions on the
    variables `s.depth, …, nv-1`, each in the domain of the state reached); `none` = −∞ (no completion).  `lax` = with
    `domainLax` and a panicking cost read as `-isize::MAX`.  `fuel ≥ nv - s.depth`. -/
def bestRemF (lax : Bool) : Nat → St → EInt
  | 0, _ => some 0
  | fuel + 1, s =>
    if s.depth ≥ nv T then some 0 else
    let x := s.depth
    (if lax then domainLax T s else domain T s).foldl (fun acc v =>
      match trans? s ⟨x, v⟩, cost? T s ⟨x, v⟩ with
      | some s2, some c => EInt.max acc ((bestRemF lax fuel s2).addI c)
      | some s2, none => if lax then EInt.max acc ((bestRemF lax fuel s2).addI (-imax)) else acc
      | _, _ => acc) none
def bestRem (s : St) : EInt := bestRemF T false (nv T - s.depth) s
def bestRemLax (s : St) : EInt := bestRemF T true (nv T - s.depth) s

/-- the states the pointwise statements are about: jobs of the instance only, job 0 done, not deeper than the last
    layer, the last job still to do before the last layer, a non-empty pool of previous jobs none of which is still to do
    for sure, `must` and `maybe` disjoint, and enough — but not too many mandatory — jobs left to fill the remaining positions -/
def validB (s : St) : Bool :=
  let all := ofList ((List.range T.n).drop 1)
  let y := s.maybe.getD 0
  decide (s.depth ≤ nv T) && diff (s.must ||| y) all == 0 && (s.must &&& y) == 0 &&
  (match s.prev with
   | .job i => decide (i < T.n) && !has (s.must ||| y) i
   | .virt c => c != 0 && diff c (all ||| 1) == 0 && (c &&& s.must) == 0) &&
  (decide (s.depth = nv T) || has s.must (T.n - 1)) &&
  decide (card s.must ≤ nv T - s.depth) && decide (nv T - s.depth ≤ card (s.must ||| y))

/-- the exact states a (merged) state stands for: one of the previous jobs, all the mandatory jobs and as many of the
    optional ones as there are positions left (an exact state stands for itself) -/
def concretize (s : St) : List St :=
  let ct := nv T - s.depth
  let prevs := match s.prev with | .job i => [i] | .virt c => bits c
  let ys := (sublists (bits (s.maybe.getD 0))).filter fun Y => Y.length == ct - card s.must
  prevs.flatMap fun p => ys.filterMap fun Y =>
    let U := s.must ||| ofList Y
    if has U p then none else some { prev := .job p, must := U, maybe := none, depth := s.depth }

/-- the best value-to-go among the exact states `s` stands for -/
def bestRemConc (s : St) : EInt := (concretize T s).foldl (fun acc u => EInt.max acc (bestRem T u)) none

/-- `RubOk` at one state: the bound `r` claimed for `s` dominates the value-to-go of every exact state `s` stands for
    (for an exact state: its own value-to-go) -/
def rubOkAt (s : St) (r : Int) : Bool := decide (bestRemConc T s ≤ some r)
/-- the stronger reading — `r` dominates the value-to-go of `s` in the relaxed DP itself, whose completions from a merged
    state may leave mandatory jobs out (nothing counts them: on the last variable the domain is the last job, whatever
    `must_schedule` holds) — is NOT what the bound computes; where it fails is only counted (`rub-vs-relaxed-dp`) -/
def rubOkRelaxedDpAt (s : St) (r : Int) : Bool := decide (bestRem T s ≤ some r)
/-- a violation of `rubOkAt` by the bound `r` is of the class `sop-rub-optional-edge` when `r` is exactly what the modelled
    formula `rubOld?` gives (so the only possible cause is the one line in which `rubOld?` and `rubFixed?` differ: the choice between
    the mandatory and the optional edges) and the corrected bound `rubFixed?` is admissible at `s`; a bound that is NOT the
    modelled one (a changed `fast_upper_bound`) is never excused -/
def rubOptionalEdgeAt (s : St) (r : Int) : Bool :=
  rubOld? T s == some r &&
  (match rubFixed? T s with
   | some rf => rubOkAt T s rf
   | none => false)

/-- `MergeOk` (potential form, `Wf.lean`) at one merged-away state `u`, merged state `m`, arc cost `c` relaxed to `r`:
    if `u` has a completion worth `h` then `m` has one worth `h'` with `c + h ≤ r + h'` (`H` = the value-to-go `hm` of `m`) -/
def mergeOkWith (hu hm : EInt) (c r : Int) : Bool :=
  match hu with
  | none => true
  | some h =>
    match hm with
    | none => false
    | some h' => decide (c + h ≤ r + h')
def mergeOkAt (u m : St) (c r : Int) : Bool := mergeOkWith (bestRem T u) (bestRem T m) c r
/-- the same with the weakened `can_schedule` in the merged state: a violation of `mergeOkAt` that disappears here is of
    the class of D12 (`sop-merge-can-schedule`) -/
def mergeOkLaxAt (u m : St) (c r : Int) : Bool := mergeOkWith (bestRem T u) (bestRemLax T m) c r

-- ------------------------------------------------------------------------------------------------------------------
-- the independent specification (`Sop.lean`)

/-- the distance function the specification reads -/
def dfun (i j : Nat) : Int := (T.d.getD i #[]).getD j 0

/-- the sequences the specification `Sop.spec` enumerates -/
def specSeqs (n : Nat) : List (List Nat) :=
  if n = 1 then [[0]]
  else (Sop.perms ((List.range (n - 1)).drop 1)).map (fun p => 0 :: p ++ [n - 1])

/-- the specification's least cost among the sequences that start with job `0` followed by the decisions `decs`; `none` =
    no such sequence respects the precedences; with no decision at all this is `Sop.spec` (`SopModel.spec_eq_specBestIn`) -/
def specBestIn (seqs : List (List Nat)) (d : Nat → Nat → Int) (decs : List Nat) : Option Int :=
  Sop.minimum (((seqs.filter fun q => (0 :: decs).isPrefixOf q).filter (Sop.respects d)).map (Sop.cost d))

/-- in the domain of the format (TSPLIB conventions): a square matrix, a zero diagonal, job 0 before every job, every job
    before the last one, every other entry a distance `≥ 0` or a precedence mark `-1` among the inner jobs -/
def inDomain (n : Nat) (rows : List (List Int)) : Bool :=
  decide (1 ≤ n) && rows.length == n && rows.all (fun r => r.length == n) &&
  ((List.range n).all fun i => (List.range n).all fun j =>
    let w := (rows.getD i []).getD j 0
    if i == j then w == 0
    else if j == 0 then w == -1
    else if i == n - 1 then w == -1
    else if i == 0 || j == n - 1 then decide (0 ≤ w)
    else decide (-1 ≤ w))

end Ddo.Examples.SopModel
