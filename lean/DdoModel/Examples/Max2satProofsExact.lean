import DdoModel.Examples.Max2satModel
/-! The DP model of the max2sat example is exact, model half: the value-to-go `bestRem` of a state is the MAXIMUM, over the
    truth assignments `x` of the free variables, of `gain s x L` = what is still owed on the free variables (`owed`: the
    positive part of the benefit of the value taken) + the weight, READ IN THE TABLE, of the unit and binary clauses on the
    free variables that `x` satisfies (`totW`; tautologies are in `initial`).  Key fact: `gain_step`, one transition is an
    IDENTITY (`gain s x (L ++ [k]) = cost s ⟨k, x k⟩ + gain (trans s ⟨k, x k⟩) x L`): the `min` of the transition cost is the
    part of the owed benefit that no longer depends on the value of the free variable. -/
namespace Ddo.Examples.Max2satModel
open Ddo Ddo.Examples Ddo.Examples.Util Ddo.SpecUtil

variable (T : Tab)

/-- weight, read in the table, of the unit clause on variable `i` that the assignment `x` satisfies -/
def unitW (x : Nat → Bool) (i : Nat) : Int := if x i then T.wt (tLit i) (tLit i) else T.wt (fLit i) (fLit i)

/-- weight, read in the table, of the (at most four) binary clauses on the variables `i`, `j` that `x` satisfies -/
def pairW (x : Nat → Bool) (i j : Nat) : Int :=
  (if x i || x j then T.wt (tLit i) (tLit j) else 0) + (if x i || !x j then T.wt (tLit i) (fLit j) else 0)
    + (if !x i || x j then T.wt (fLit i) (tLit j) else 0) + (if !x i || !x j then T.wt (fLit i) (fLit j) else 0)

/-- unit and binary clauses on the variables of `L` (each pair once: earlier, later) satisfied by `x`; no tautology -/
def totW (x : Nat → Bool) : List Nat → Int
  | [] => 0
  | i :: rest => unitW T x i + (rest.map (pairW T x i)).sum + totW x rest

/-- what is still owed on a free variable of benefit `a` when it takes the value `b` -/
def owed (a : Int) (b : Bool) : Int := if b then pos a else pos (-a)
def owedSum (s : St) (x : Nat → Bool) (L : List Nat) : Int := (L.map fun l => owed (get s l) (x l)).sum

/-- the gain of the completion `x` from the state `s` whose free variables are `L` -/
def gain (s : St) (x : Nat → Bool) (L : List Nat) : Int := owedSum s x L + totW T x L

/-- the decision value of a truth value (`transition` treats any value other than `-1` as true) -/
def valOf (b : Bool) : Int := if b then 1 else -1

-- ------------------------------------------------------------------------------------------------------------------
-- helper lemmas

theorem totW_snoc (x : Nat → Bool) (L : List Nat) (k : Nat) :
    totW T x (L ++ [k]) = totW T x L + (L.map (fun l => pairW T x l k)).sum + unitW T x k := by
  induction L with
  | nil => simp [totW]
  | cons v L ih =>
    simp only [List.cons_append, totW, ih, List.map_append, List.sum_append, List.map_cons, List.map_nil,
      List.sum_cons, List.sum_nil]
    omega

theorem totW_congr (x x' : Nat → Bool) (L : List Nat) (hx : ∀ l ∈ L, x l = x' l) : totW T x L = totW T x' L := by
  induction L with
  | nil => rfl
  | cons i rest ih =>
    have hi : x i = x' i := hx i (List.mem_cons_self ..)
    have hr : ∀ l ∈ rest, x l = x' l := fun l hl => hx l (List.mem_cons_of_mem _ hl)
    have hp : rest.map (pairW T x i) = rest.map (pairW T x' i) :=
      List.map_congr_left (fun j hj => by simp only [pairW, hi, hr j hj])
    simp only [totW, ih hr, hp, unitW, hi]

theorem owedSum_congr (s : St) (x x' : Nat → Bool) (L : List Nat) (hx : ∀ l ∈ L, x l = x' l) :
    owedSum s x L = owedSum s x' L := by
  unfold owedSum
  congr 1
  exact List.map_congr_left (fun l hl => by rw [hx l hl])

theorem gain_congr (s : St) (x x' : Nat → Bool) (L : List Nat) (hx : ∀ l ∈ L, x l = x' l) :
    gain T s x L = gain T s x' L := by
  unfold gain
  rw [owedSum_congr s x x' L hx, totW_congr T x x' L hx]

/-- the decision on `k` and the free variable `l`: an identity -/
theorem step_eq (s : St) (x : Nat → Bool) (k l : Nat) :
    owed (get s l) (x l) + pairW T x l k
      = costTerm T s k (valOf (x k)) l + owed (get s l + delta T k (valOf (x k)) l) (x l) := by
  have e1 : T.wt (tLit l) (tLit k) = T.wt (tLit k) (tLit l) := wt_comm ..
  have e2 : T.wt (tLit l) (fLit k) = T.wt (fLit k) (tLit l) := wt_comm ..
  have e3 : T.wt (fLit l) (tLit k) = T.wt (tLit k) (fLit l) := wt_comm ..
  have e4 : T.wt (fLit l) (fLit k) = T.wt (fLit k) (fLit l) := wt_comm ..
  simp only [pairW, e1, e2, e3, e4, costTerm, delta]
  generalize T.wt (tLit k) (tLit l) = tt
  generalize T.wt (tLit k) (fLit l) = tf
  generalize T.wt (fLit k) (tLit l) = ft
  generalize T.wt (fLit k) (fLit l) = ff
  generalize get s l = a
  cases x k <;> cases x l <;> simp [owed, pos, valOf] <;> omega

theorem head_eq (s : St) (x : Nat → Bool) (k : Nat) :
    owed (get s k) (x k) + unitW T x k = costHead T s k (valOf (x k)) := by
  cases h : x k <;> simp [owed, unitW, costHead, valOf, h]

/-- one transition is an identity on the gain of a completion -/
theorem gain_step (s : St) (x : Nat → Bool) (k : Nat) (L : List Nat)
    (hvs : varset T s.1 = L) (hnd : (L ++ [k]).Nodup) (hlt : ∀ l ∈ L, l < s.2.length) :
    gain T s x (L ++ [k])
      = cost T s ⟨k, valOf (x k)⟩ + gain T (trans T s ⟨k, valOf (x k)⟩) x L := by
  have hndL : L.Nodup := (List.nodup_append.mp hnd).1
  have hkL : ∀ l ∈ L, l ≠ k := fun l hl h => by
    have := (List.nodup_append.mp hnd).2.2 l hl k (by simp)
    exact this h
  have howed : owedSum (trans T s ⟨k, valOf (x k)⟩) x L
      = (L.map (fun l => owed (get s l + delta T k (valOf (x k)) l) (x l))).sum := by
    unfold owedSum
    congr 1
    apply List.map_congr_left
    intro l hl
    rw [get_trans T s ⟨k, valOf (x k)⟩ (by rw [hvs]; exact hndL) l (by rw [hvs]; exact hl) (hlt l hl) (hkL l hl)]
  have hcost := cost_eq T s ⟨k, valOf (x k)⟩
  simp only [hvs] at hcost
  have hsum : (L.map (fun l => owed (get s l) (x l) + pairW T x l k)).sum
      = (L.map (fun l => costTerm T s k (valOf (x k)) l
          + owed (get s l + delta T k (valOf (x k)) l) (x l))).sum := by
    congr 1
    exact List.map_congr_left (fun l _ => step_eq T s x k l)
  rw [sum_map_add, sum_map_add] at hsum
  have hhead := head_eq T s x k
  unfold gain
  rw [totW_snoc, howed, hcost]
  simp only [owedSum, List.map_append, List.sum_append, List.map_cons, List.map_nil, List.sum_cons,
    List.sum_nil] at *
  omega

/-- **the value-to-go is the best gain of a completion** -/
theorem bestRem_isMax (h : TabOk T) (m : Nat) (s : St) (hs : s.2.length = T.n) (hd : s.1 + m = T.n) :
    IsMaxOf (fun _ : Nat → Bool => True) (fun x => gain T s x (T.order.take m)) (bestRem T m s) := by
  have hlen : T.order.length = T.n := by rw [h.perm.length_eq, List.length_range]
  have hnd : T.order.Nodup := (h.perm.nodup_iff).mpr List.nodup_range
  have hmem : ∀ l ∈ T.order, l < T.n := fun l hl => List.mem_range.mp (h.perm.mem_iff.mp hl)
  induction m generalizing s with
  | zero =>
    refine ⟨⟨fun _ => true, trivial, ?_⟩, fun x _ => ?_⟩ <;> simp [bestRem, gain, owedSum, totW]
  | succ m ih =>
    have hm : m < T.order.length := by omega
    have hnv : nextVar T [s] = some T.order[m] := by
      have h1 : s.1 < T.n := by omega
      have h2 : T.n - s.1 - 1 = m := by omega
      simp only [nextVar, h1, if_true, h2, List.getElem?_eq_getElem hm]
    have htake : T.order.take (m + 1) = T.order.take m ++ [T.order[m]] := by
      rw [List.take_add_one, List.getElem?_eq_getElem hm]; rfl
    have hvs : varset T s.1 = T.order.take m := by
      unfold varset; congr 1; omega
    have hnd' : (T.order.take m ++ [T.order[m]]).Nodup := by
      rw [← htake]; exact (List.take_sublist _ _).nodup hnd
    have hlt : ∀ l ∈ T.order.take m, l < s.2.length := fun l hl => by
      rw [hs]; exact hmem l ((List.take_sublist _ _).subset hl)
    have hkL : T.order[m] ∉ T.order.take m := fun hk =>
      (List.nodup_append.mp hnd').2.2 _ hk _ (by simp) rfl
    have hih : ∀ v : Int, IsMaxOf (fun _ : Nat → Bool => True)
        (fun x => gain T (trans T s ⟨T.order[m], v⟩) x (T.order.take m))
        (bestRem T m (trans T s ⟨T.order[m], v⟩)) := fun v =>
      ih (trans T s ⟨T.order[m], v⟩) (by rw [trans_length, hs]) (by rw [trans_depth]; omega)
    have hstep := fun x => gain_step T s x T.order[m] (T.order.take m) hvs hnd' hlt
    have hbr : bestRem T (m + 1) s
        = max (cost T s ⟨T.order[m], 1⟩ + bestRem T m (trans T s ⟨T.order[m], 1⟩))
              (cost T s ⟨T.order[m], -1⟩ + bestRem T m (trans T s ⟨T.order[m], -1⟩)) := by
      simp only [bestRem, hnv]
    -- attained by the value `b` of the next variable
    have hatt : ∀ b : Bool, ∃ x : Nat → Bool, gain T s x (T.order.take m ++ [T.order[m]])
        = cost T s ⟨T.order[m], valOf b⟩ + bestRem T m (trans T s ⟨T.order[m], valOf b⟩) := fun b => by
      obtain ⟨⟨x', _, hx'⟩, _⟩ := hih (valOf b)
      refine ⟨fun i => if i = T.order[m] then b else x' i, ?_⟩
      rw [hstep]
      simp only [if_true]
      rw [← hx']
      congr 1
      apply gain_congr
      intro l hl
      have : l ≠ T.order[m] := fun e => hkL (e ▸ hl)
      simp [this]
    rw [htake, hbr]
    refine ⟨?_, fun x _ => ?_⟩
    · obtain ⟨x1, h1⟩ := hatt true
      obtain ⟨x2, h2⟩ := hatt false
      have v1 : valOf true = 1 := rfl
      have v2 : valOf false = -1 := rfl
      rw [v1] at h1; rw [v2] at h2
      by_cases hc : cost T s ⟨T.order[m], -1⟩ + bestRem T m (trans T s ⟨T.order[m], -1⟩)
          ≤ cost T s ⟨T.order[m], 1⟩ + bestRem T m (trans T s ⟨T.order[m], 1⟩)
      · exact ⟨x1, trivial, by dsimp only; omega⟩
      · exact ⟨x2, trivial, by dsimp only; omega⟩
    · dsimp only
      rw [hstep x]
      have hub := (hih (valOf (x T.order[m]))).2 x trivial
      dsimp only at hub
      cases hxk : x T.order[m]
      · rw [hxk] at hub
        have v2 : valOf false = -1 := rfl
        rw [v2] at hub ⊢
        omega
      · rw [hxk] at hub
        have v1 : valOf true = 1 := rfl
        rw [v1] at hub ⊢
        omega

theorem owedSum_init (n : Nat) (x : Nat → Bool) (L : List Nat) : owedSum (0, List.replicate n 0) x L = 0 := by
  unfold owedSum
  induction L with
  | nil => rfl
  | cons l L ih =>
    have hg : get (0, List.replicate n 0) l = 0 := by
      simp only [get, List.getElem?_replicate]
      split <;> rfl
    have ho : owed 0 (x l) = 0 := by cases x l <;> simp [owed, pos]
    simp only [List.map_cons, List.sum_cons, ih, hg, ho]
    rfl

/-- at the root nothing is owed: the value-to-go is the best table weight of an assignment -/
theorem bestRem_root (h : TabOk T) :
    IsMaxOf (fun _ : Nat → Bool => True) (fun x => totW T x T.order) (bestRem T T.n (0, List.replicate T.n 0)) := by
  have hlen : T.order.length = T.n := by rw [h.perm.length_eq, List.length_range]
  have hmax := bestRem_isMax T h T.n (0, List.replicate T.n 0) (by simp) (by simp)
  have htk : T.order.take T.n = T.order := by rw [← hlen, List.take_length]
  have hfun : (fun x => gain T (0, List.replicate T.n 0) x (T.order.take T.n)) = fun x => totW T x T.order := by
    funext x
    rw [htk, gain, owedSum_init]
    omega
  rw [hfun] at hmax
  exact hmax

/-- convenient forms -/
theorem bestRem_ge (h : TabOk T) (m : Nat) (s : St) (hs : s.2.length = T.n) (hd : s.1 + m = T.n) (x : Nat → Bool) :
    gain T s x (T.order.take m) ≤ bestRem T m s :=
  (bestRem_isMax T h m s hs hd).2 x trivial

theorem bestRem_attained (h : TabOk T) (m : Nat) (s : St) (hs : s.2.length = T.n) (hd : s.1 + m = T.n) :
    ∃ x : Nat → Bool, gain T s x (T.order.take m) = bestRem T m s := by
  obtain ⟨⟨x, _, hx⟩, _⟩ := bestRem_isMax T h m s hs hd
  exact ⟨x, hx⟩

section Axioms
#print axioms bestRem_isMax
#print axioms bestRem_root
#print axioms bestRem_ge
#print axioms bestRem_attained
end Axioms

end Ddo.Examples.Max2satModel
