import DdoModel.Examples.TsptwProofs
/-! The value-to-go of the tsptw model as a TOTAL recursion `vG`, generic in the distance `md s j` charged for the leg from the
    (possibly several) positions of `s` to the city `j`:
    * `md = minD` (the model's `min_distance_to`): `vG` is the model's own value-to-go on valid states (`brG_eq_vG`);
    * `md = mdS`: the leg into a city `j ≥ 1` is charged the distance from a position OTHER than `j` (a merged state one of
      whose possible positions is also an optional city can "move" to it at no cost in the model; no tour does that).  This is
      the potential `hStar` for which the rough upper bound is admissible on EVERY valid state (merged ones included), and it
      is the model's value-to-go on the states none of whose positions is a city still to visit (`hStar_eq_clean`).
    `simG_le` is the simulation lemma for `vG` with two distances. -/
namespace Ddo.Examples.TsptwModel
open Ddo Ddo.Examples

def arrG (T : Tab) (md : St → Nat → Nat) (s : St) (j : Nat) : Nat := max (s.el.earliest + md s j) (eN T j)
def reachG (T : Tab) (md : St → Nat → Nat) (s : St) (j : Nat) : Bool := decide (s.el.earliest + md s j ≤ lN T j)
def domG (T : Tab) (md : St → Nat → Nat) (s : St) : List Nat :=
  if s.depth = T.n - 1 then (if reachG T md s 0 then [0] else [])
  else if s.must.all (reachG T md s) then s.must ++ (mb s).filter (reachG T md s) else []
def InDomG (T : Tab) (md : St → Nat → Nat) (s : St) (j : Nat) : Prop :=
  reachG T md s j = true ∧
  ((s.depth = T.n - 1 ∧ j = 0) ∨
   (s.depth ≠ T.n - 1 ∧ (∀ i ∈ s.must, reachG T md s i = true) ∧ (j ∈ s.must ∨ j ∈ mb s)))

theorem inDom_iff (T : Tab) (s : St) (j : Nat) : InDom T s j ↔ InDomG T (minD T) s j := Iff.rfl

theorem mem_domG_iff (T : Tab) (md : St → Nat → Nat) (s : St) (j : Nat) : j ∈ domG T md s ↔ InDomG T md s j := by
  unfold domG InDomG
  by_cases hd : s.depth = T.n - 1
  · simp only [hd, if_true, true_and, ne_eq, not_true_eq_false, false_and, or_false]
    cases h0 : reachG T md s 0
    · simp only [Bool.false_eq_true, if_false, List.not_mem_nil, false_iff]
      rintro ⟨hr, rfl⟩
      rw [h0] at hr; cases hr
    · simp only [if_true, List.mem_singleton]
      constructor
      · rintro rfl; exact ⟨h0, rfl⟩
      · rintro ⟨_, rfl⟩; rfl
  · simp only [hd, if_false, false_and, false_or, ne_eq, not_false_eq_true, true_and]
    by_cases hall : s.must.all (reachG T md s) = true
    · simp only [hall, if_true, List.mem_append, List.mem_filter]
      have hall' := List.all_eq_true.mp hall
      constructor
      · intro hj
        refine ⟨?_, hall', ?_⟩
        · rcases hj with hj | hj
          · exact hall' j hj
          · exact hj.2
        · rcases hj with hj | hj
          · exact Or.inl hj
          · exact Or.inr hj.1
      · rintro ⟨hr, _, hj⟩
        rcases hj with hj | hj
        · exact Or.inl hj
        · exact Or.inr ⟨hj, hr⟩
    · simp only [hall, Bool.false_eq_true, if_false, List.not_mem_nil, false_iff]
      rintro ⟨_, h, _⟩
      exact hall (List.all_eq_true.mpr h)

theorem domain_eq_domG {T : Tab} (hT : TabOk T) {s : St} (hV : Valid T s) :
    domain T s = (domG T (minD T) s).map Int.ofNat := by
  rw [domain_eq hT hV]
  unfold domG
  have e : ∀ j, reach T s j = reachG T (minD T) s j := fun _ => rfl
  have e' : reach T s = reachG T (minD T) s := funext e
  rw [e']
  split
  · split <;> rfl
  · split <;> rfl

theorem InDomG.lt {T : Tab} {md : St → Nat → Nat} {s : St} (hV : Valid T s) (hn : 1 ≤ T.n) {j : Nat} (h : InDomG T md s j) :
    j < T.n := by
  rcases h.2 with ⟨_, rfl⟩ | ⟨_, _, h | h⟩
  · omega
  · exact (hV.must_rng j h).2
  · exact (hV.maybe_rng j h).2

/-- every city still to visit can be entered from a position other than itself -/
def Alt (s : St) : Prop := ∀ j, j ∈ s.must ∨ j ∈ mb s → ∃ p ∈ posSet s.pos, p ≠ j
/-- no position is a city still to visit -/
def Clean (s : St) : Prop := ∀ p ∈ posSet s.pos, p ∉ s.must ∧ p ∉ mb s

theorem clean_succ {T : Tab} {s : St} (hV : Valid T s) (j : Nat) (el : El) : Clean (succSt s j el) := by
  intro p hp
  have : p = j := by simpa [succSt, posSet] using hp
  subst this
  rw [mb_succSt]
  exact ⟨fun h => (hV.must_nd.mem_erase_iff.mp h).1 rfl, fun h => (hV.maybe_nd.mem_erase_iff.mp h).1 rfl⟩

theorem alt_of_clean {s : St} (hp : posSet s.pos ≠ []) (h : Clean s) : Alt s := by
  intro j hj
  obtain ⟨p, hp⟩ := List.exists_mem_of_ne_nil _ hp
  refine ⟨p, hp, ?_⟩
  rintro rfl
  rcases hj with hj | hj
  · exact (h p hp).1 hj
  · exact (h p hp).2 hj

theorem alt_succ {T : Tab} {s : St} (hV : Valid T s) (j : Nat) (el : El) : Alt (succSt s j el) :=
  alt_of_clean (by simp [succSt, posSet]) (clean_succ hV j el)

theorem clean_init {T : Tab} (hT : TabOk T) : Clean (initSt T) := by
  intro p hp
  have : p = 0 := by simpa [initSt, posSet] using hp
  subst this
  refine ⟨fun h => ?_, fun h => by simp [mb, initSt] at h⟩
  have := ((valid_init hT).must_rng 0 h).1
  omega

/-- the successors of a valid state are valid -/
theorem valid_succ' {T : Tab} {s : St} (hV : Valid T s) (hd : s.depth < T.n) {j : Nat} (hjn : j < T.n)
    (hlast : s.depth + 1 = T.n → j = 0) {el : El} (h1 : el.earliest < BND) (h2 : el.latest < BND) :
    Valid T (succSt s j el) := by
  refine ⟨?_, ?_, ?_, ?_, ?_, ?_, ?_, ?_, ?_, ?_, h1, h2⟩
  · show s.depth + 1 ≤ T.n; omega
  · intro hdn p hp
    have hdn : s.depth + 1 = T.n := hdn
    have : p = j := by simpa [succSt, posSet] using hp
    rw [this]; exact hlast hdn
  · simp [succSt, posSet]
  · intro p hp
    have : p = j := by simpa [succSt, posSet] using hp
    omega
  · intro i hi
    exact hV.must_rng i (List.mem_of_mem_erase hi)
  · intro i hi hp
    have : i = j := by simpa [succSt, posSet] using hp
    subst this
    exact (hV.must_nd.mem_erase_iff.mp hi).1 rfl
  · intro i hi
    rw [mb_succSt] at hi
    exact hV.maybe_rng i (List.mem_of_mem_erase hi)
  · exact hV.must_nd.erase j
  · rw [mb_succSt]; exact hV.maybe_nd.erase j
  · intro i hi hm
    rw [mb_succSt] at hm
    exact hV.disj i (List.mem_of_mem_erase hi) (List.mem_of_mem_erase hm)

theorem InDomG.last {T : Tab} {md : St → Nat → Nat} {s : St} (hn : 1 ≤ T.n) {j : Nat} (h : InDomG T md s j)
    (hl : s.depth + 1 = T.n) : j = 0 := by
  rcases h.2 with ⟨_, h0⟩ | ⟨hne, _⟩
  · exact h0
  · omega

theorem arrG_small {T : Tab} (hT : TabOk T) {md : St → Nat → Nat} {s : St} {j : Nat} (hjn : j < T.n)
    (hr : reachG T md s j = true) : arrG T md s j < BND := by
  have := lN_small hT hjn
  have := eN_small hT hjn
  simp only [reachG, decide_eq_true_eq] at hr
  unfold arrG
  omega

/-- the value-to-go with the leg distance `md`, as a total recursion -/
def vG (T : Tab) (md : St → Nat → Nat) (term : St → EInt) : Nat → St → EInt
  | 0, s => term s
  | fuel + 1, s =>
    if s.depth ≥ T.n then term s else
    (domG T md s).foldl (fun acc j => EInt.max acc
      ((vG T md term fuel (succSt s j (.fixed (arrG T md s j)))).addI ((s.el.earliest : Int) - (arrG T md s j : Nat)))) none

theorem foldl_max_specG {α : Type} (f : α → EInt) : ∀ (l : List α) (acc : EInt),
    acc ≤ l.foldl (fun a v => EInt.max a (f v)) acc ∧
    (∀ v ∈ l, f v ≤ l.foldl (fun a v => EInt.max a (f v)) acc) ∧
    (l.foldl (fun a v => EInt.max a (f v)) acc = acc ∨ ∃ v ∈ l, l.foldl (fun a v => EInt.max a (f v)) acc = f v) := by
  intro l
  induction l with
  | nil => intro acc; exact ⟨EInt.le_refl _, (fun v hv => by cases hv), Or.inl rfl⟩
  | cons x t ih =>
    intro acc
    obtain ⟨h1, h2, h3⟩ := ih (EInt.max acc (f x))
    rw [List.foldl_cons]
    refine ⟨EInt.le_trans (EInt.le_max_left _ _) h1, ?_, ?_⟩
    · intro v hv
      rcases List.mem_cons.mp hv with rfl | hv
      · exact EInt.le_trans (EInt.le_max_right _ _) h1
      · exact h2 v hv
    · rcases h3 with h3 | ⟨v, hv, h3⟩
      · rcases EInt.max_cases acc (f x) with h | h
        · left; rw [h3, h]
        · right; exact ⟨x, List.mem_cons_self, by rw [h3, h]⟩
      · right; exact ⟨v, List.mem_cons_of_mem _ hv, h3⟩

theorem foldl_max_congr {α : Type} (f g : α → EInt) : ∀ (l : List α) (acc : EInt), (∀ v ∈ l, f v = g v) →
    l.foldl (fun a v => EInt.max a (f v)) acc = l.foldl (fun a v => EInt.max a (g v)) acc := by
  intro l
  induction l with
  | nil => intro _ _; rfl
  | cons x t ih =>
    intro acc h
    simp only [List.foldl_cons, h x List.mem_cons_self]
    exact ih _ (fun v hv => h v (List.mem_cons_of_mem _ hv))

theorem EInt.le_antisymm {a b : EInt} (h1 : a ≤ b) (h2 : b ≤ a) : a = b := by
  cases a <;> cases b <;> simp_all <;> omega

theorem EInt.addI_cancel {a b : EInt} {c : Int} (h : a.addI c = b.addI c) : a = b := by
  cases a <;> cases b <;> simp_all [EInt.addI]

/-- **simulation, two distances**: `m` simulates `u`, and the leg distances of `m` (`md1`) are at most those of `u` (`md2`) on
    the states that satisfy the invariants `I` (for `m`) and `J` (for `u`), which hold of every successor -/
theorem simG_le {T : Tab} (hT : TabOk T) (md1 md2 : St → Nat → Nat) (term : St → EInt) (I J : St → Prop)
    (hterm : ∀ m u, Sim m u → (term u).addI (-(u.el.earliest : Int)) ≤ (term m).addI (-(m.el.earliest : Int)))
    (hI : ∀ s j el, Valid T s → I (succSt s j el)) (hJ : ∀ s j el, Valid T s → J (succSt s j el))
    (hmd : ∀ m u j, Sim m u → Valid T m → Valid T u → I m → J u → InDomG T md2 u j → md1 m j ≤ md2 u j) :
    ∀ fuel m u, Sim m u → Valid T m → Valid T u → I m → J u →
      (vG T md2 term fuel u).addI (-(u.el.earliest : Int)) ≤ (vG T md1 term fuel m).addI (-(m.el.earliest : Int)) := by
  intro fuel
  induction fuel with
  | zero => intro m u h _ _ _ _; exact hterm m u h
  | succ n ih =>
    intro m u h hm hu hIm hJu
    simp only [vG]
    rw [h.depth]
    by_cases hd : u.depth ≥ T.n
    · simp only [hd, if_true]; exact hterm m u h
    · simp only [hd, if_false]
      obtain ⟨_, _, h3⟩ := foldl_max_specG (fun j => (vG T md2 term n (succSt u j (.fixed (arrG T md2 u j)))).addI
        ((u.el.earliest : Int) - (arrG T md2 u j : Nat))) (domG T md2 u) none
      obtain ⟨_, k2, _⟩ := foldl_max_specG (fun j => (vG T md1 term n (succSt m j (.fixed (arrG T md1 m j)))).addI
        ((m.el.earliest : Int) - (arrG T md1 m j : Nat))) (domG T md1 m) none
      rcases h3 with h3 | ⟨j, hj, h3⟩
      · rw [h3]; exact EInt.none_le _
      · rw [h3]
        have hj := (mem_domG_iff T md2 u j).mp hj
        have hjn := hj.lt hu hT.n_pos
        have hle := hmd m u j h hm hu hIm hJu hj
        have hru : u.el.earliest + md2 u j ≤ lN T j := by simpa [reachG] using hj.1
        have hjm : InDomG T md1 m j := by
          refine ⟨?_, ?_⟩
          · have := h.e
            simp only [reachG, decide_eq_true_eq]; omega
          · rcases hj.2 with ⟨h1, h2⟩ | ⟨h1, h2, h3⟩
            · left; exact ⟨by rw [h.depth]; exact h1, h2⟩
            · right
              refine ⟨by rw [h.depth]; exact h1, ?_, h.cover j h3⟩
              intro i hi
              have hiu := h.must i hi
              have hri : u.el.earliest + md2 u i ≤ lN T i := by simpa [reachG] using h2 i hiu
              have := hmd m u i h hm hu hIm hJu ⟨h2 i hiu, Or.inr ⟨h1, h2, Or.inl hiu⟩⟩
              have := h.e
              simp only [reachG, decide_eq_true_eq]; omega
        refine EInt.le_trans ?_ (EInt.addI_mono (k2 _ ((mem_domG_iff T md1 m j).mpr hjm)) _)
        rw [EInt.addI_addI, EInt.addI_addI]
        have hae : arrG T md1 m j ≤ arrG T md2 u j := by
          have := h.e
          unfold arrG; omega
        have hd' : u.depth < T.n := by omega
        have hdm : m.depth < T.n := by rw [h.depth]; exact hd'
        have hvu : Valid T (succSt u j (.fixed (arrG T md2 u j))) :=
          valid_succ' hu hd' hjn (hj.last hT.n_pos) (arrG_small hT hjn hj.1) (arrG_small hT hjn hj.1)
        have hvm : Valid T (succSt m j (.fixed (arrG T md1 m j))) :=
          valid_succ' hm hdm hjn (hjm.last hT.n_pos) (arrG_small hT hjn hjm.1) (arrG_small hT hjn hjm.1)
        have := ih _ _ (sim_succ h hm hu j (em := .fixed (arrG T md1 m j)) (eu := .fixed (arrG T md2 u j)) hae) hvm hvu
          (hI _ _ _ hm) (hJ _ _ _ hu)
        have e1 : ((u.el.earliest : Int) - ((arrG T md2 u j : Nat) : Int) + -(u.el.earliest : Int))
            = -((succSt u j (.fixed (arrG T md2 u j))).el.earliest : Int) := by
          show _ = -((arrG T md2 u j : Nat) : Int); omega
        have e2 : ((m.el.earliest : Int) - ((arrG T md1 m j : Nat) : Int) + -(m.el.earliest : Int))
            = -((succSt m j (.fixed (arrG T md1 m j))).el.earliest : Int) := by
          show _ = -((arrG T md1 m j : Nat) : Int); omega
        rw [e1, e2]
        exact this

-- ------------------------------------------------------------------------------------------------------------------
-- the distance from a position other than the target, and the potential `hStar`

/-- the distance to `j` from the nearest position other than `j` (from `j` itself when there is no other) -/
def minD' (T : Tab) (s : St) (j : Nat) : Nat :=
  if ((posSet s.pos).filter (· != j)).isEmpty then minD T s j
  else (minNat (((posSet s.pos).filter (· != j)).map (distOf T.d · j))).getD 0
/-- the leg distance of the potential: the model's for the return to the depot, from another position into a city -/
def mdS (T : Tab) (s : St) (j : Nat) : Nat := if j = 0 then minD T s j else minD' T s j

theorem minD'_spec {T : Tab} {s : St} (hp : posSet s.pos ≠ []) (j : Nat) :
    (∃ p ∈ posSet s.pos, minD' T s j = distOf T.d p j) ∧ (∀ p ∈ posSet s.pos, p ≠ j → minD' T s j ≤ distOf T.d p j) ∧
    minD T s j ≤ minD' T s j ∧ ((∃ p ∈ posSet s.pos, p ≠ j) → ∃ p ∈ posSet s.pos, p ≠ j ∧ minD' T s j = distOf T.d p j) := by
  unfold minD'
  by_cases hc : ((posSet s.pos).filter (· != j)).isEmpty = true
  · simp only [hc, if_true]
    have hall : ∀ p ∈ posSet s.pos, p = j := by
      intro p hp
      have := List.isEmpty_iff.mp hc
      have h' : p ∉ (posSet s.pos).filter (· != j) := by rw [this]; simp
      simpa [hp] using h'
    refine ⟨(minD_spec hp j).1, fun p hp hne => absurd (hall p hp) hne, Nat.le_refl _, ?_⟩
    rintro ⟨p, hp, hne⟩; exact absurd (hall p hp) hne
  · simp only [hc]
    have hne : ((posSet s.pos).filter (· != j)).map (distOf T.d · j) ≠ [] := by
      intro h; apply hc; simpa using h
    obtain ⟨m, hm, h1, h2⟩ := minNat_spec _ hne
    simp only [hm, Option.getD_some]
    obtain ⟨p, hp1, hp2⟩ := List.mem_map.mp h1
    have hp1' := List.mem_filter.mp hp1
    have hpj : p ≠ j := by simpa using hp1'.2
    refine ⟨⟨p, hp1'.1, hp2.symm⟩, ?_, ?_, fun _ => ⟨p, hp1'.1, hpj, hp2.symm⟩⟩
    · intro q hq hqj
      exact h2 _ (List.mem_map.mpr ⟨q, List.mem_filter.mpr ⟨hq, by simpa using hqj⟩, rfl⟩)
    · rw [← hp2]; exact (minD_spec hp j).2 p hp1'.1

theorem minD_le_mdS {T : Tab} {s : St} (hp : posSet s.pos ≠ []) (j : Nat) : minD T s j ≤ mdS T s j := by
  unfold mdS
  split
  · exact Nat.le_refl _
  · exact (minD'_spec hp j).2.2.1

theorem mdS_small {T : Tab} (hT : TabOk T) {s : St} (hp : posSet s.pos ≠ []) (j : Nat) : mdS T s j < BND := by
  unfold mdS
  split
  · exact minD_small hT hp j
  · obtain ⟨⟨p, _, h⟩, _⟩ := minD'_spec (T := T) hp j
    rw [h]; exact hT.d_small _ _

/-- on a state none of whose positions is `j`, the two distances agree -/
theorem mdS_eq_of_not_pos {T : Tab} {s : St} {j : Nat} (h : j ∉ posSet s.pos) : mdS T s j = minD T s j := by
  unfold mdS
  split
  · rfl
  · unfold minD'
    have : (posSet s.pos).filter (· != j) = posSet s.pos := by
      apply List.filter_eq_self.mpr
      intro p hp
      have : p ≠ j := fun e => h (e ▸ hp)
      simpa using this
    rw [this]
    split
    · rfl
    · rfl

/-- `mdS` is monotone along a simulation, for the cities the simulated state can enter from elsewhere and for the depot -/
theorem mdS_anti {T : Tab} {m u : St} (h : Sim m u) (hm : posSet m.pos ≠ []) (hu : posSet u.pos ≠ []) {j : Nat}
    (hj : j = 0 ∨ ∃ p ∈ posSet u.pos, p ≠ j) : mdS T m j ≤ mdS T u j := by
  unfold mdS
  by_cases h0 : j = 0
  · simp only [h0, if_true]; exact minD_anti h hm hu 0
  · simp only [h0, if_false]
    rcases hj with hj | hj
    · exact absurd hj h0
    · obtain ⟨p, hp, hpj, e⟩ := (minD'_spec (T := T) hu j).2.2.2 hj
      rw [e]
      exact (minD'_spec hm j).2.1 p (h.pos p hp) hpj

/-- **the potential**: the value-to-go over the legitimate completions, a city being entered from a position other than itself -/
def hStar (T : Tab) (s : St) : EInt := vG T (mdS T) termL (T.n - s.depth) s

theorem termL_sim (m u : St) (h : Sim m u) :
    (termL u).addI (-(u.el.earliest : Int)) ≤ (termL m).addI (-(m.el.earliest : Int)) := by
  unfold termL
  by_cases hu : u.must.isEmpty = true
  · have hm : m.must.isEmpty = true := by
      rw [List.isEmpty_iff] at hu ⊢
      apply List.eq_nil_iff_forall_not_mem.mpr
      intro i hi
      have := h.must i hi
      rw [hu] at this; cases this
    have := h.e
    simp only [hu, hm, if_true, EInt.addI, Option.map_some, EInt.some_le_some]
    omega
  · simp only [hu]; exact EInt.none_le _

theorem termAny_sim (m u : St) (h : Sim m u) :
    (termAny u).addI (-(u.el.earliest : Int)) ≤ (termAny m).addI (-(m.el.earliest : Int)) := by
  have := h.e
  simp only [termAny, EInt.addI, Option.map_some, EInt.some_le_some]
  omega

end Ddo.Examples.TsptwModel
