import DdoModel.Examples.SrflpProofsRubDefs
import DdoModel.Examples.SrflpProofsMerge
/-! The edge part of the srflp rough bound (`edgeBound?`) is a lower bound of the edge cost (`edgeCost`) of every order of the
    free departments (`edgeCost_ge`); the flows between the members of a set do not depend on the order in which the set is
    listed (`pairFlows_perm`). -/
namespace Ddo.Examples.SrflpModel
open Ddo Ddo.Examples Ddo.Examples.Util Ddo.SpecUtil

/-! ### the number of flows -/

theorem pairFlows_length_tri (f : Nat → Nat → Int) : ∀ q : List Nat, (pairFlows f q).length + q.length = tri q.length
  | [] => by simp [pairFlows, tri]
  | i :: r => by
    have := pairFlows_length_tri f r
    simp only [pairFlows, List.length_append, List.length_map, List.length_cons, tri]
    omega

/-- there are `k (k - 1) / 2` flows between `k` departments -/
theorem pairFlows_length (f : Nat → Nat → Int) (q : List Nat) :
    (pairFlows f q).length = q.length * (q.length - 1) / 2 := by
  have h := pairFlows_length_tri f q
  generalize q.length = k at h
  cases k with
  | zero => simp [tri] at h; simp [h]
  | succ m =>
    simp only [tri] at h
    have := tri_eq m
    rw [Nat.add_sub_cancel, Nat.mul_comm]
    omega

theorem pairFlows_length_two (f : Nat → Nat → Int) (q : List Nat) :
    2 * (pairFlows f q).length = q.length * (q.length - 1) := by
  have h := pairFlows_length_tri f q
  generalize q.length = k at h
  cases k with
  | zero => simp [tri] at h; simp [h]
  | succ m =>
    simp only [tri] at h
    have := tri_two_mul m
    rw [Nat.add_sub_cancel, Nat.mul_comm (m + 1) m]
    omega

/-! ### the pairing of the flows with the weights -/

/-- the flows from one department to those after it, the `idx`-th of them (from `k`) paired with the weight `c idx` -/
def rowW (g : Nat → Int) (c : Nat → Int) : Nat → List Nat → List (Int × Int)
  | _, [] => []
  | k, j :: r => (g j, c k) :: rowW g c (k + 1) r

/-- the pairing: the flow between a department and the `idx`-th department after it gets the weight `c idx` -/
def pairW (f : Nat → Nat → Int) (c : Nat → Int) : List Nat → List (Int × Int)
  | [] => []
  | i :: r => rowW (f i) c 0 r ++ pairW f c r

/-- `c 0 … c (n-2)`, `c 0 … c (n-3)`, …, `c 0` -/
def triW (c : Nat → Int) : Nat → List Int
  | 0 => []
  | n + 1 => (List.range n).map c ++ triW c n

theorem rowW_fst (g : Nat → Int) (c : Nat → Int) : ∀ (r : List Nat) (k : Nat), (rowW g c k r).map Prod.fst = r.map g
  | [], _ => rfl
  | j :: r, k => by simp [rowW, rowW_fst g c r (k + 1)]

theorem rowW_snd (g : Nat → Int) (c : Nat → Int) : ∀ (r : List Nat) (k : Nat),
    (rowW g c k r).map Prod.snd = (List.range' k r.length).map c
  | [], _ => rfl
  | j :: r, k => by simp [rowW, rowW_snd g c r (k + 1), List.range'_succ]

theorem pairW_fst (f : Nat → Nat → Int) (c : Nat → Int) : ∀ q : List Nat, (pairW f c q).map Prod.fst = pairFlows f q
  | [] => rfl
  | i :: r => by simp [pairW, pairFlows, rowW_fst, pairW_fst f c r]

theorem pairW_snd (f : Nat → Nat → Int) (c : Nat → Int) : ∀ q : List Nat, (pairW f c q).map Prod.snd = triW c q.length
  | [] => rfl
  | i :: r => by simp [pairW, triW, rowW_snd, pairW_snd f c r, List.range_eq_range']

/-! ### the weights of the bound are those of the pairing -/

theorem edgeWeights_succ_perm : ∀ (m : Nat) (c : Int) (ls : List Int), m ≤ ls.length →
    (edgeWeights c (m + 1) ls).Perm ((List.range (m + 1)).map (fun j => c + (ls.take j).sum) ++ edgeWeights c m ls) := by
  intro m
  induction m with
  | zero =>
    intro c ls _
    cases ls <;> simp [edgeWeights]
  | succ m ih =>
    intro c ls h
    cases ls with
    | nil => simp at h
    | cons l ls' =>
      have ih' := ih (c + l) ls' (by simpa using h)
      have e1 : edgeWeights c (m + 1 + 1) (l :: ls') = c :: (List.replicate (m + 1) c ++ edgeWeights (c + l) (m + 1) ls') := by
        simp [edgeWeights, List.replicate_succ]
      have e2 : (List.range (m + 1 + 1)).map (fun j => c + ((l :: ls').take j).sum)
          = c :: (List.range (m + 1)).map (fun j => c + l + (ls'.take j).sum) := by
        rw [List.range_succ_eq_map]
        simp [List.map_map, Function.comp_def, Int.add_assoc]
      have e3 : edgeWeights c (m + 1) (l :: ls') = List.replicate (m + 1) c ++ edgeWeights (c + l) m ls' := by
        simp [edgeWeights]
      rw [e1, e2, e3, List.cons_append]
      refine List.Perm.cons c ?_
      refine ((List.Perm.refl _).append ih').trans ?_
      exact List.perm_append_comm_assoc _ _ _

theorem edgeWeights_perm_triW (Ls : List Int) : ∀ m : Nat, m ≤ Ls.length →
    (edgeWeights 0 m Ls).Perm (triW (fun j => (Ls.take j).sum) (m + 1))
  | 0, _ => by simp [edgeWeights, triW]
  | m + 1, h => by
    have h1 := edgeWeights_succ_perm m 0 Ls (by omega)
    have h2 := edgeWeights_perm_triW Ls m (by omega)
    have e : (fun j => (0 : Int) + (Ls.take j).sum) = (fun j => (Ls.take j).sum) := by
      funext j; simp
    rw [e] at h1
    show (edgeWeights 0 (m + 1) Ls).Perm ((List.range (m + 1)).map _ ++ triW _ (m + 1))
    exact h1.trans ((List.Perm.refl _).append h2)

/-! ### the pairing costs at most the edge cost -/

theorem rowW_le (l w : Nat → Int) (c : Nat → Int) : ∀ (r : List Nat) (k : Nat) (B : Int),
    (∀ j ∈ r, 0 ≤ w j) → (∀ idx, idx ≤ r.length → c (k + idx) ≤ B + ((r.take idx).map l).sum) →
    ((rowW w c k r).map (fun p => p.1 * p.2)).sum ≤ aft l w r + B * (r.map w).sum
  | [], _, _, _, _ => by simp [rowW, aft]
  | t :: r, k, B, hw, hc => by
    have h0 : c k ≤ B := by simpa using hc 0 (by simp)
    have hwt := hw t List.mem_cons_self
    have ih := rowW_le l w c r (k + 1) (B + l t) (fun j hj => hw j (List.mem_cons_of_mem _ hj)) (by
      intro idx hidx
      have := hc (idx + 1) (by simp; omega)
      simp only [List.take_succ_cons, List.map_cons, List.sum_cons] at this
      have e : k + 1 + idx = k + (idx + 1) := by omega
      rw [e]; omega)
    have h1 := Int.mul_le_mul_of_nonneg_left h0 hwt
    simp only [rowW, List.map_cons, List.sum_cons, aft]
    generalize ((rowW w c (k + 1) r).map (fun p => p.1 * p.2)).sum = X at ih ⊢
    generalize (r.map w).sum = S at ih ⊢
    generalize aft l w r = A at ih ⊢
    have e1 : (B + l t) * S = B * S + l t * S := Int.add_mul _ _ _
    have e2 : B * (w t + S) = B * w t + B * S := Int.mul_add _ _ _
    have e3 : w t * B = B * w t := Int.mul_comm _ _
    omega

theorem pairW_le (l : Nat → Int) (f : Nat → Nat → Int) (c : Nat → Int) : ∀ q : List Nat,
    (∀ i ∈ q, ∀ j ∈ q, 0 ≤ f i j) → (∀ A : List Nat, A.Sublist q → c A.length ≤ (A.map l).sum) →
    ((pairW f c q).map (fun p => p.1 * p.2)).sum ≤ edgeCost l f q
  | [], _, _ => by simp [pairW, edgeCost]
  | i :: r, hf, hc => by
    have ih := pairW_le l f c r (fun a ha b hb => hf a (List.mem_cons_of_mem _ ha) b (List.mem_cons_of_mem _ hb))
      (fun A hA => hc A (hA.trans (List.sublist_cons_self i r)))
    have hrow := rowW_le l (f i) c r 0 0 (fun j hj => hf i List.mem_cons_self j (List.mem_cons_of_mem _ hj)) (by
      intro idx hidx
      have := hc (r.take idx) ((List.take_sublist idx r).trans (List.sublist_cons_self i r))
      rw [List.length_take, Nat.min_eq_left hidx] at this
      simpa using this)
    simp only [pairW, edgeCost, List.map_append, List.sum_append]
    omega

/-! ### the sum of the least lengths -/

theorem sortInts_pairwise (L : List Int) : (sortInts L).Pairwise (· ≤ ·) := by
  have h := List.pairwise_mergeSort (le := fun (a b : Int) => decide (a ≤ b))
    (by intro a b c h1 h2; simp only [decide_eq_true_eq] at *; omega)
    (by intro a b; simp only [Bool.or_eq_true, decide_eq_true_eq]; omega) L
  exact h.imp (fun h => by simpa using h)

/-- an increasing list is the sorted list of its values -/
theorem eq_sortInts {Ls M : List Int} (h : Ls.Perm M) (hs : Ls.Pairwise (· ≤ ·)) : sortInts M = Ls :=
  List.Perm.eq_of_pairwise (le := (· ≤ ·)) (fun _ _ _ _ hab hba => Int.le_antisymm hab hba) (sortInts_pairwise M) hs
    ((List.mergeSort_perm M _).trans h.symm)

theorem cum_le (l : Nat → Int) (q : List Nat) (hq : q.Nodup) (Ls : List Int) (hL : Ls.Perm (q.map l))
    (hLs : Ls.Pairwise (· ≤ ·)) (A : List Nat) (hA : A.Sublist q) : (Ls.take A.length).sum ≤ (A.map l).sum := by
  have hs := eq_sortInts hL hLs
  have := leastSum_le_choice A q l l (List.Nodup.sublist hA hq) (fun a ha => hA.subset ha) (fun _ _ => Int.le_refl _)
  unfold leastSum at this
  rw [sum_eq, sum_eq, hs] at this
  exact this

/-! ### the main theorem -/

/-- the edge part of the srflp rough bound is a lower bound of the edge cost of every order `q` of the free departments -/
theorem edgeCost_ge (l : Nat → Int) (f : Nat → Nat → Int) (q : List Nat) (hq : q.Nodup) (hk : 1 ≤ q.length)
    (hl : ∀ i ∈ q, 0 ≤ l i) (hf : ∀ i ∈ q, ∀ j ∈ q, 0 ≤ f i j)
    (F Ls : List Int) (hF : F.Perm (pairFlows f q)) (hFs : F.Pairwise (· ≤ ·))
    (hL : Ls.Perm (q.map l)) (hLs : Ls.Pairwise (· ≤ ·)) :
    ∃ b, edgeBound? F Ls (q.length * (q.length - 1) / 2) q.length = some b ∧ b ≤ edgeCost l f q := by
  have hLl : Ls.length = q.length := by rw [hL.length_eq, List.length_map]
  have hLn : ∀ x ∈ Ls, 0 ≤ x := by
    intro x hx
    obtain ⟨i, hi, rfl⟩ := List.mem_map.1 (hL.mem_iff.1 hx)
    exact hl i hi
  have hk1 : q.length - 1 + 1 = q.length := by omega
  have hy : (edgeWeights 0 (q.length - 1) Ls).Perm ((pairW f (fun j => (Ls.take j).sum) q).map Prod.snd) := by
    rw [pairW_snd]
    have := edgeWeights_perm_triW Ls (q.length - 1) (by omega)
    rwa [hk1] at this
  obtain ⟨b, hb, hle⟩ := edgeBound?_le F Ls q.length hk (by rw [hF.length_eq, pairFlows_length]) (by omega) hFs hLn
    (pairW f (fun j => (Ls.take j).sum) q) (by rw [pairW_fst]; exact hF) hy
  exact ⟨b, hb, Int.le_trans hle (pairW_le l f _ q hf (fun A hA => cum_le l q hq Ls hL hLs A hA))⟩

/-! ### the flows of a set -/

/-- the flows between the members of a set do not depend on the order in which the set is listed (symmetric flows) -/
theorem pairFlows_perm (f : Nat → Nat → Int) {q q' : List Nat} (h : q'.Perm q)
    (hsym : ∀ i ∈ q, ∀ j ∈ q, f i j = f j i) : (pairFlows f q').Perm (pairFlows f q) := by
  induction h with
  | nil => exact List.Perm.refl _
  | cons x h ih =>
    simp only [pairFlows]
    exact (h.map _).append (ih (fun i hi j hj => hsym i (List.mem_cons_of_mem _ hi) j (List.mem_cons_of_mem _ hj)))
  | swap x y l =>
    have e : f y x = f x y := hsym y (by simp) x (by simp)
    simp only [pairFlows, List.map_cons, List.cons_append, e]
    exact List.Perm.cons _ (List.perm_append_comm_assoc _ _ _)
  | trans h1 h2 ih1 ih2 =>
    exact (ih1 (fun i hi j hj => hsym i (h2.mem_iff.1 hi) j (h2.mem_iff.1 hj))).trans (ih2 hsym)

#print axioms edgeCost_ge
#print axioms pairFlows_perm

end Ddo.Examples.SrflpModel
