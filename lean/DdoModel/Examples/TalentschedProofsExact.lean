import DdoModel.Examples.TalentschedProofs
import DdoModel.Props.C16
/-! The DP model of the talentsched example is exact (`DpExactStmt`, `dpExactStmt`): the initial value plus the value-to-go of
    the root is minus the least `Talentsched.pay` over all orders of the scenes.
    (A) on states without optional scenes the value-to-go is the best `runCost` over the orders of the remaining scenes
        (`run_le_bestRemF`, `bestRemF_attained`);
    (B) along an order of all scenes, `initVal + runCost = -pay` (`pay_eq_run`). -/
namespace Ddo.Examples.TalentschedModel
open Ddo Ddo.Examples Ddo.Examples.Util Ddo.SpecUtil Ddo.C16

/-- the total transition cost of shooting the scenes `q` in that order from state `s` at depth `d` -/
def runCost (T : Tab) : St → Nat → List Nat → Int
  | _, _, [] => 0
  | s, d, j :: q => cost T s ⟨d, (j : Int)⟩ + runCost T (trans s ⟨d, (j : Int)⟩) (d + 1) q

/-- `q` lists the members of the `Set64` `S`, each once -/
structure IsOrder (S : Nat) (q : List Nat) : Prop where
  nodup : q.Nodup
  mem : ∀ i, i ∈ q ↔ (i < 64 ∧ S.testBit i = true)

theorem IsOrder.tail {S j : Nat} {q : List Nat} (h : IsOrder S (j :: q)) : IsOrder (sdiff S (1 <<< j)) q := by
  have hnd := List.nodup_cons.mp h.nodup
  refine ⟨hnd.2, fun i => ?_⟩
  rw [testBit_sdiff_bit]
  have := h.mem i
  simp only [List.mem_cons] at this
  constructor
  · intro hi
    have hne : i ≠ j := fun e => hnd.1 (e ▸ hi)
    have := this.mp (Or.inr hi)
    simp [this, hne]
  · intro ⟨h64, hb⟩
    simp only [Bool.and_eq_true, decide_eq_true_eq] at hb
    rcases this.mpr ⟨h64, hb.1⟩ with e | e
    · exact absurd e hb.2
    · exact e

theorem IsOrder.erase {S j : Nat} {q : List Nat} (h : IsOrder S q) : IsOrder (sdiff S (1 <<< j)) (q.erase j) := by
  refine ⟨h.nodup.erase j, fun i => ?_⟩
  rw [h.nodup.mem_erase_iff, h.mem i, testBit_sdiff_bit]
  simp only [Bool.and_eq_true, decide_eq_true_eq]
  constructor
  · exact fun ⟨h1, h2, h3⟩ => ⟨h2, h3, h1⟩
  · exact fun ⟨h2, h3, h1⟩ => ⟨h1, h2, h3⟩

theorem sdiff_zero (x : Nat) : sdiff 0 x = 0 := by simp [sdiff]

theorem mem_domain_exact (T : Tab) (x : Nat) (s : St) (hM : s.maybe = 0) (v : Int) :
    v ∈ domain T x s ↔ ∃ i : Nat, v = (i : Int) ∧ i < 64 ∧ s.scenes.testBit i = true := by
  rw [mem_domain]
  simp [hM]

/-- (A1) every order of the remaining scenes is a completion -/
theorem run_le_bestRemF (T : Tab) : ∀ (q : List Nat) (d : Nat) (s : St), s.maybe = 0 → IsOrder s.scenes q →
    (some (runCost T s d q) : EInt) ≤ bestRemF T q.length d s := by
  intro q
  induction q with
  | nil => intro d s _ _; exact EInt.le_refl _
  | cons j q ih =>
    intro d s hM ho
    have hj : j < 64 ∧ s.scenes.testBit j = true := (ho.mem j).mp List.mem_cons_self
    rw [List.length_cons, bestRemF, runCost]
    refine EInt.le_trans ?_ ((foldl_emax_ge _ _ _).2 (j : Int) ((mem_domain_exact T d s hM _).mpr ⟨j, rfl, hj.1, hj.2⟩))
    rw [trans_nat s d j hj.1]
    have := ih (d + 1) { scenes := sdiff s.scenes (1 <<< j), maybe := sdiff s.maybe (1 <<< j) }
      (by simp [hM, sdiff_zero]) ho.tail
    revert this
    generalize bestRemF T q.length (d + 1) _ = b
    cases b <;> simp [EInt.addI]
    omega

/-- (A2) the value-to-go is attained by an order of the remaining scenes -/
theorem bestRemF_attained (T : Tab) : ∀ (fuel d : Nat) (s : St) (q1 : List Nat), s.maybe = 0 → IsOrder s.scenes q1 →
    q1.length = fuel → ∃ q, IsOrder s.scenes q ∧ bestRemF T fuel d s = some (runCost T s d q) := by
  intro fuel
  induction fuel with
  | zero =>
    intro d s q1 _ ho hl
    have : q1 = [] := List.eq_nil_of_length_eq_zero hl
    subst this
    exact ⟨[], ho, rfl⟩
  | succ fuel ih =>
    intro d s q1 hM ho hl
    -- every decision of the domain leads to a state whose value-to-go is attained
    have hstep : ∀ v ∈ domain T d s, ∃ j : Nat, v = (j : Int) ∧ j ∈ q1 ∧ ∃ q, IsOrder (sdiff s.scenes (1 <<< j)) q ∧
        (bestRemF T fuel (d + 1) (trans s ⟨d, v⟩)).addI (cost T s ⟨d, v⟩) = some (runCost T s d (j :: q)) := by
      intro v hv
      obtain ⟨j, rfl, h64, hb⟩ := (mem_domain_exact T d s hM v).mp hv
      have hjq : j ∈ q1 := (ho.mem j).mpr ⟨h64, hb⟩
      obtain ⟨q, hq, he⟩ := ih (d + 1) { scenes := sdiff s.scenes (1 <<< j), maybe := sdiff s.maybe (1 <<< j) } (q1.erase j)
        (by simp [hM, sdiff_zero]) ho.erase (by rw [List.length_erase_of_mem hjq, hl]; rfl)
      refine ⟨j, rfl, hjq, q, hq, ?_⟩
      rw [runCost, trans_nat s d j h64, he]
      simp [EInt.addI]; omega
    rw [bestRemF]
    cases q1 with
    | nil => cases hl
    | cons j0 q0 =>
      have hj0 : j0 < 64 ∧ s.scenes.testBit j0 = true := (ho.mem j0).mp List.mem_cons_self
      have hv0 : (j0 : Int) ∈ domain T d s := (mem_domain_exact T d s hM _).mpr ⟨j0, rfl, hj0.1, hj0.2⟩
      rcases foldl_emax_attained (fun v => (bestRemF T fuel (d + 1) (trans s ⟨d, v⟩)).addI (cost T s ⟨d, v⟩))
        (domain T d s) none with h | ⟨v, hv, h⟩
      · exfalso
        have hge := (foldl_emax_ge (fun v => (bestRemF T fuel (d + 1) (trans s ⟨d, v⟩)).addI (cost T s ⟨d, v⟩))
          (domain T d s) none).2 _ hv0
        rw [h] at hge
        obtain ⟨j, _, _, q, _, he⟩ := hstep _ hv0
        rw [he] at hge
        exact hge
      · obtain ⟨j, hvj, hjq, q, hq, he⟩ := hstep v hv
        refine ⟨j :: q, ⟨List.nodup_cons.mpr ⟨fun hjm => ?_, hq.nodup⟩, fun i => ?_⟩, by rw [h, he]⟩
        · have := (hq.mem j).mp hjm
          rw [testBit_sdiff_bit] at this
          simp at this
        · have hjb := (ho.mem j).mp hjq
          rw [List.mem_cons, hq.mem i, testBit_sdiff_bit]
          simp only [Bool.and_eq_true, decide_eq_true_eq]
          constructor
          · rintro (rfl | ⟨h1, h2, _⟩)
            · exact hjb
            · exact ⟨h1, h2⟩
          · intro ⟨h1, h2⟩
            by_cases e : i = j
            · exact Or.inl e
            · exact Or.inr ⟨h1, h2, e⟩

/-! ### (B) the accounting identity -/

/-- `plays a j` as the specification table reads it -/
def P (T : Tab) (a j : Nat) : Bool := (T.flags.getD a []).getD j 0 == 1

theorem foldl_or_testBit' {α : Type} (p : α → Prop) [DecidablePred p] (g : α → Nat) (a : Nat) : ∀ (l : List α) (z : Nat),
    (l.foldl (fun acc i => if p i then acc ||| g i else acc) z).testBit a = true ↔
      z.testBit a = true ∨ ∃ i ∈ l, p i ∧ (g i).testBit a = true := by
  intro l
  induction l with
  | nil => intro z; simp
  | cons x l ih =>
    intro z
    rw [List.foldl_cons, ih]
    by_cases hp : p x
    · simp [hp, Nat.testBit_or, or_assoc]
    · simp [hp]

theorem testBit_actOf (k : Nat) (flags : List (List Int)) (j a : Nat) :
    (actOf k flags j).testBit a = true ↔ a < k ∧ (flags.getD a []).getD j 0 = 1 := by
  unfold actOf
  rw [foldl_or_testBit' (fun i => (flags.getD i []).getD j 0 = 1) (fun i => 1 <<< i)]
  simp only [Nat.zero_testBit, Bool.false_eq_true, false_or, List.mem_range, testBit_one_shiftLeft, decide_eq_true_eq]
  constructor
  · rintro ⟨i, hi, h1, rfl⟩; exact ⟨hi, h1⟩
  · rintro ⟨hi, h1⟩; exact ⟨a, hi, h1, rfl⟩

theorem testBit_actS {T : Tab} (hT : TabOk T) {j : Nat} (hj : j < T.n) (a : Nat) : (actS T j).testBit a = P T a j := by
  have e : actS T j = actOf T.k T.flags j := by
    unfold actS
    rw [hT.act, List.getD_eq_getElem?_getD, List.getElem?_map, List.getElem?_range hj]
    rfl
  rw [e, Bool.eq_iff_iff, testBit_actOf]
  unfold P
  simp only [beq_iff_eq]
  constructor
  · exact fun h => h.2
  · intro h
    refine ⟨?_, h⟩
    rw [← hT.flags.1]
    apply Classical.byContradiction
    intro hge
    have : T.flags.getD a [] = [] := by
      rw [List.getD_eq_getElem?_getD, List.getElem?_eq_none (by omega)]; rfl
    rw [this] at h
    simp at h

/-- the days an actor is on location, read along the order: `seen` = he played in a scene shot before -/
def loc (p : Nat → Bool) (g : Nat → Int) : Bool → List Nat → Int
  | _, [] => 0
  | seen, j :: q => (if (seen || p j) && (p j || q.any p) then g j else 0) + loc p g (seen || p j) q

theorem loc_eq (p : Nat → Bool) (g : Nat → Int) : ∀ (q pre : List Nat),
    (sumRange q.length fun k => if TalentD.present p (pre ++ q) (pre.length + k) then g ((pre ++ q).getD (pre.length + k) 0) else 0) =
      loc p g (pre.any p) q := by
  intro q
  induction q with
  | nil => intro pre; rfl
  | cons j q ih =>
    intro pre
    rw [List.length_cons, sumRange_succ', loc]
    have e : pre ++ j :: q = (pre ++ [j]) ++ q := by simp
    have ih' := ih (pre ++ [j])
    rw [List.any_append] at ih'
    simp only [List.any_cons, List.any_nil, Bool.or_false] at ih'
    rw [← ih']
    congr 1
    · have h1 : (pre ++ j :: q).take (pre.length + 0 + 1) = pre ++ [j] := by
        rw [e]; exact List.take_left' (by simp)
      have h2 : (pre ++ j :: q).drop (pre.length + 0) = j :: q := List.drop_left' rfl
      have h3 : (pre ++ j :: q).getD (pre.length + 0) 0 = j := by simp
      simp only [TalentD.present, h1, h2, h3, List.any_append, List.any_cons, List.any_nil, Bool.or_false]
    · apply sumRange_congr
      intro i _
      have hl : pre.length + (i + 1) = (pre ++ [j]).length + i := by simp; omega
      rw [hl, e]

theorem loc_false {p : Nat → Bool} (hp : ∀ j, p j = false) (g : Nat → Int) : ∀ (q : List Nat) (seen : Bool), loc p g seen q = 0 := by
  intro q
  induction q with
  | nil => intro _; rfl
  | cons j q ih =>
    intro seen
    have : q.any p = false := by simp [hp]
    simp [loc, ih, hp, this]

/-- what is paid while scene `j` is shot to the actors who wait: they played in a scene of `pre`, will play in a scene of `q`,
    do not play in `j` -/
def stepAbs (T : Tab) (pre : List Nat) (j : Nat) (q : List Nat) : Int :=
  sumRange 64 fun a => if (pre.any (P T a) && q.any (P T a) && !P T a j) then costA T a * durS T j else 0

def runAbs (T : Tab) : List Nat → List Nat → Int
  | _, [] => 0
  | pre, j :: q => stepAbs T pre j q + runAbs T (pre ++ [j]) q

/-- what is paid while scene `j` is shot to the actors who play in it -/
def playSum (T : Tab) (j : Nat) : Int := sumRange 64 fun a => if P T a j then costA T a * durS T j else 0

theorem sumRange_mul (n : Nat) (c f : Nat → Int) (g : Nat → Int) (h : ∀ a, c a * f a = g a) :
    (sumRange n fun a => c a * f a) = sumRange n g := sumRange_congr fun a _ => h a

/-- (C) the pay of all actors from the scenes `q` on, scene by scene -/
theorem pay_split (T : Tab) : ∀ (q pre : List Nat),
    (sumRange 64 fun a => costA T a * loc (P T a) (durS T) (pre.any (P T a)) q) =
      (q.map (playSum T)).sum + runAbs T pre q := by
  intro q
  induction q with
  | nil =>
    intro pre
    have : (sumRange 64 fun a => costA T a * loc (P T a) (durS T) (pre.any (P T a)) []) = sumRange 64 fun _ => 0 :=
      sumRange_congr fun a _ => by simp [loc]
    rw [this]; rfl
  | cons j q ih =>
    intro pre
    have ih' := ih (pre ++ [j])
    simp only [List.any_append, List.any_cons, List.any_nil, Bool.or_false] at ih'
    rw [List.map_cons, List.sum_cons, runAbs, stepAbs, playSum]
    have : (sumRange 64 fun a => costA T a * loc (P T a) (durS T) (pre.any (P T a)) (j :: q)) =
        sumRange 64 fun a => ((if P T a j then costA T a * durS T j else 0) +
          (if (pre.any (P T a) && q.any (P T a) && !P T a j) then costA T a * durS T j else 0)) +
          costA T a * loc (P T a) (durS T) (pre.any (P T a) || P T a j) q := by
      apply sumRange_congr
      intro a _
      rw [loc, Int.mul_add]
      congr 1
      cases P T a j <;> cases pre.any (P T a) <;> cases q.any (P T a) <;> simp
    rw [this, sumRange_add, sumRange_add, ih']
    omega

theorem sum_bits_eq (X : Nat) (f : Nat → Int) :
    sum ((bits X).map f) = sumRange 64 fun a => if X.testBit a then f a else 0 := by
  rw [sum_eq, bits_eq, sum_map_filter]; rfl

/-- `pre` = the scenes shot, `S` = the scenes left: together the scenes `0 … n-1`, each once -/
structure Split (T : Tab) (pre : List Nat) (S : Nat) : Prop where
  pre_lt : ∀ i ∈ pre, i < T.n
  compl : ∀ i, i < T.n → (i ∈ pre ↔ S.testBit i = false)
  lt : ∀ i, S.testBit i = true → i < T.n

theorem Split.step {T : Tab} {pre : List Nat} {S j : Nat} (h : Split T pre S) (hj : S.testBit j = true) :
    Split T (pre ++ [j]) (sdiff S (1 <<< j)) := by
  refine ⟨fun i hi => ?_, fun i hi => ?_, fun i hi => ?_⟩
  · rcases List.mem_append.mp hi with hi | hi
    · exact h.pre_lt i hi
    · rw [List.mem_singleton.mp hi]; exact h.lt j hj
  · rw [List.mem_append, h.compl i hi, testBit_sdiff_bit, List.mem_singleton]
    by_cases e : i = j
    · simp [e]
    · simp [e]
  · rw [testBit_sdiff_bit] at hi
    simp only [Bool.and_eq_true] at hi
    exact h.lt i hi.1

theorem any_iff {l : List Nat} {p : Nat → Bool} : l.any p = true ↔ ∃ i ∈ l, p i = true := by simp

/-- the transition cost of an exact state is what the waiting actors are paid -/
theorem cost_exact {T : Tab} (hT : TabOk T) {pre : List Nat} {s : St} (hM : s.maybe = 0) {j : Nat} {q : List Nat}
    (ho : IsOrder s.scenes (j :: q)) (hs : Split T pre s.scenes) (d : Nat) :
    cost T s ⟨d, (j : Int)⟩ = -stepAbs T pre j q := by
  have hjb : s.scenes.testBit j = true := ((ho.mem j).mp List.mem_cons_self).2
  have hjn : j < T.n := hs.lt j hjb
  unfold cost cost?
  have hc : ¬ ((j : Int) < 0 ∨ (j : Int) ≥ (T.n : Int)) := by omega
  simp only [hc, if_false, Option.getD_some, Int.toNat_natCast]
  rw [sum_bits_eq, stepAbs]
  congr 1
  apply sumRange_congr
  intro a _
  have hb : (sdiff (present T s) (actS T j)).testBit a = (pre.any (P T a) && q.any (P T a) && !P T a j) := by
    rw [testBit_sdiff, testBit_actS hT hjn]
    cases hp : P T a j
    · simp only [Bool.not_false, Bool.and_true]
      rw [Bool.eq_iff_iff, testBit_present, Bool.and_eq_true, any_iff, any_iff]
      constructor
      · rintro ⟨⟨i, hi, _, hS, ha⟩, ⟨i', hi', _, hS', ha'⟩⟩
        rw [testBit_actS hT hi] at ha
        rw [testBit_actS hT hi'] at ha'
        refine ⟨⟨i, (hs.compl i hi).mpr hS, ha⟩, ⟨i', ?_, ha'⟩⟩
        have := (ho.mem i').mpr ⟨by have := hT.npos.2.1; omega, hS'⟩
        rcases List.mem_cons.mp this with e | e
        · rw [e, hp] at ha'; cases ha'
        · exact e
      · rintro ⟨⟨i, hi, ha⟩, ⟨i', hi', ha'⟩⟩
        have hin := hs.pre_lt i hi
        have hb' := ((ho.mem i').mp (List.mem_cons_of_mem _ hi')).2
        have hin' := hs.lt i' hb'
        refine ⟨⟨i, hin, by simp [hM], (hs.compl i hin).mp hi, by rw [testBit_actS hT hin]; exact ha⟩,
          ⟨i', hin', by simp [hM], hb', by rw [testBit_actS hT hin']; exact ha'⟩⟩
    · simp
  rw [hb]

/-- (D) along an order of the scenes left, the model pays what the waiting actors are paid -/
theorem runCost_eq {T : Tab} (hT : TabOk T) : ∀ (q pre : List Nat) (s : St) (d : Nat), s.maybe = 0 →
    IsOrder s.scenes q → Split T pre s.scenes → runCost T s d q = -runAbs T pre q := by
  intro q
  induction q with
  | nil => intro pre s d _ _ _; rfl
  | cons j q ih =>
    intro pre s d hM ho hs
    have hj : j < 64 ∧ s.scenes.testBit j = true := (ho.mem j).mp List.mem_cons_self
    rw [runCost, runAbs, cost_exact hT hM ho hs d, trans_nat s d j hj.1,
      ih (pre ++ [j]) { scenes := sdiff s.scenes (1 <<< j), maybe := sdiff s.maybe (1 <<< j) } (d + 1)
        (by simp [hM, sdiff_zero]) ho.tail (hs.step hj.2)]
    omega

theorem testBit_fold_bits (a : Nat) : ∀ (l : List Nat) (z : Nat),
    (l.foldl (fun m i => m ||| (1 <<< i)) z).testBit a = true ↔ z.testBit a = true ∨ a ∈ l := by
  intro l
  induction l with
  | nil => intro z; simp
  | cons x l ih =>
    intro z
    rw [List.foldl_cons, ih, Nat.testBit_or, testBit_one_shiftLeft]
    simp only [Bool.or_eq_true, decide_eq_true_eq, List.mem_cons, or_assoc]
    constructor
    · rintro (h | rfl | h)
      · exact Or.inl h
      · exact Or.inr (Or.inl rfl)
      · exact Or.inr (Or.inr h)
    · rintro (h | rfl | h)
      · exact Or.inl h
      · exact Or.inr (Or.inl rfl)
      · exact Or.inr (Or.inr h)

theorem testBit_init (T : Tab) (a : Nat) : (initSt T).scenes.testBit a = true ↔ a < T.n := by
  unfold initSt
  simp [testBit_fold_bits]

theorem initVal_eq {T : Tab} (hT : TabOk T) : initVal T = -sumRange T.n (playSum T) := by
  unfold initVal
  rw [sum_eq]
  congr 1
  unfold sumRange
  congr 1
  apply List.map_congr_left
  intro j hj
  rw [sum_bits_eq, playSum]
  apply sumRange_congr
  intro a _
  rw [testBit_actS hT (List.mem_range.mp hj)]

theorem sumRange_extend {K N : Nat} (h : K ≤ N) {f : Nat → Int} (hf : ∀ a, K ≤ a → f a = 0) :
    sumRange N f = sumRange K f := by
  induction N with
  | zero => have : K = 0 := by omega
            subst this; rfl
  | succ N ih =>
    by_cases e : K = N + 1
    · subst e; rfl
    · rw [sumRange_succ, ih (by omega), hf N (by omega)]; omega

theorem P_false_of_ge {T : Tab} (hT : TabOk T) {a : Nat} (ha : T.k ≤ a) (j : Nat) : P T a j = false := by
  unfold P
  have : T.flags.getD a [] = [] := by
    rw [List.getD_eq_getElem?_getD, List.getElem?_eq_none (by have := hT.flags.1; omega)]; rfl
  rw [this]
  rfl

/-- (E) the pay of an order of all scenes is minus (initial value + the transition costs along it) -/
theorem pay_eq_run {T : Tab} (hT : TabOk T) {q : List Nat} (hq : q.Perm (List.range T.n)) :
    Talentsched.pay T.k (fun (a s : Nat) => (T.flags.getD a []).getD s 0 == 1) (costA T) (durS T) q =
      -(initVal T + runCost T (initSt T) 0 q) := by
  have hnd : q.Nodup := hq.nodup_iff.mpr List.nodup_range
  have hmem : ∀ i, i ∈ q ↔ i < T.n := fun i => by rw [hq.mem_iff, List.mem_range]
  have h64 := hT.npos.2.1
  have ho : IsOrder (initSt T).scenes q :=
    ⟨hnd, fun i => (by
      rw [hmem, testBit_init]
      exact ⟨fun h => ⟨by omega, h⟩, fun h => h.2⟩)⟩
  have hs : Split T [] (initSt T).scenes :=
    ⟨fun i hi => (by cases hi), fun i hi => (by
      have := (testBit_init T i).mpr hi
      simp [this]), fun i hi => (testBit_init T i).mp hi⟩
  rw [runCost_eq hT q [] (initSt T) 0 rfl ho hs, initVal_eq hT, talent_pay, TalentD.pay]
  have h1 : (sumRange T.k fun a => costA T a * sumRange q.length fun k =>
        if TalentD.present ((fun (a s : Nat) => (T.flags.getD a []).getD s 0 == 1) a) q k then durS T (q.getD k 0) else 0) =
      sumRange T.k fun a => costA T a * loc (P T a) (durS T) false q := by
    apply sumRange_congr
    intro a _
    have := loc_eq (P T a) (durS T) q []
    simp only [List.nil_append, List.length_nil, Nat.zero_add, List.any_nil] at this
    rw [← this]
    rfl
  rw [h1, ← sumRange_extend hT.npos.2.2 (f := fun a => costA T a * loc (P T a) (durS T) false q)
    (fun a ha => by rw [loc_false (fun j => P_false_of_ge hT ha j), Int.mul_zero])]
  have h2 := pay_split T q []
  simp only [List.any_nil] at h2
  rw [h2, perm_range_sum hq]
  omega

/-! ### `DpExactStmt` -/

theorem isOrder_init {T : Tab} (hT : TabOk T) {q : List Nat} (hq : q.Perm (List.range T.n)) : IsOrder (initSt T).scenes q := by
  have h64 := hT.npos.2.1
  refine ⟨hq.nodup_iff.mpr List.nodup_range, fun i => ?_⟩
  rw [hq.mem_iff, List.mem_range, testBit_init]
  exact ⟨fun h => ⟨by omega, h⟩, fun h => h.2⟩

theorem perm_of_isOrder_init {T : Tab} {q : List Nat} (ho : IsOrder (initSt T).scenes q) (hT : TabOk T) :
    q.Perm (List.range T.n) := by
  have h64 := hT.npos.2.1
  rw [List.perm_ext_iff_of_nodup ho.nodup List.nodup_range]
  intro i
  rw [ho.mem, List.mem_range, testBit_init]
  exact ⟨fun h => h.2, fun h => ⟨by omega, h⟩⟩

theorem specBestExt_nil (T : Tab) : specBestExt (specTable T) [] =
    minOf ((Talentsched.perms (List.range T.n)).map
      (Talentsched.pay T.k (fun (a s : Nat) => (T.flags.getD a []).getD s 0 == 1) (costA T) (durS T))) := by
  unfold specBestExt specTable
  have : ∀ l : List (List Nat × Int), l.filter (fun e => extends_ e.1 []) = l := by
    intro l; apply List.filter_eq_self.mpr; intro e _; rfl
  rw [this, List.map_map]
  rfl

/-- **the DP model is exact**: the initial value plus the value-to-go of the root is minus the least pay over all orders -/
theorem dpExactStmt (T : Tab) : DpExactStmt T := by
  intro hT
  obtain ⟨q0, ho0, hbest⟩ := bestRemF_attained T T.n 0 (initSt T) (List.range T.n) rfl
    (isOrder_init hT (List.Perm.refl _)) List.length_range
  have hq0 := perm_of_isOrder_init ho0 hT
  have hB : bestRem T 0 (initSt T) = some (runCost T (initSt T) 0 q0) := hbest
  rw [hB, specBestExt_nil]
  have hmin : minOf ((Talentsched.perms (List.range T.n)).map
      (Talentsched.pay T.k (fun (a s : Nat) => (T.flags.getD a []).getD s 0 == 1) (costA T) (durS T))) =
      some (-(initVal T + runCost T (initSt T) 0 q0)) := by
    rw [minOf_eq_some]
    constructor
    · rw [List.mem_map]
      exact ⟨q0, by rw [talent_perms, mem_perms]; exact hq0, pay_eq_run hT hq0⟩
    · intro y hy
      obtain ⟨q, hq, rfl⟩ := List.mem_map.mp hy
      rw [talent_perms, mem_perms] at hq
      rw [pay_eq_run hT hq]
      have hle := run_le_bestRemF T q 0 (initSt T) rfl (isOrder_init hT hq)
      rw [hq.length_eq, List.length_range, hbest] at hle
      have : runCost T (initSt T) 0 q ≤ runCost T (initSt T) 0 q0 := hle
      omega
  rw [hmin]
  simp [EInt.addI]
  omega

/-! ### the prefix form -/

/-- the state reached from `s` (depth `d`) by shooting the scenes `pre` in that order -/
def afterSt : St → Nat → List Nat → St
  | s, _, [] => s
  | s, d, j :: q => afterSt (trans s ⟨d, (j : Int)⟩) (d + 1) q

/-- **the DP model is exact on every prefix**: for scenes `pre` (distinct, `< n`) shot first, the value of the prefix (initial
    value + transition costs) plus the value-to-go of the state reached is minus the least pay over the orders that extend
    `pre` -/
def DpExactPrefixStmt (T : Tab) : Prop :=
  TabOk T → ∀ pre : List Nat, pre.Nodup → (∀ i ∈ pre, i < T.n) →
    (bestRem T pre.length (afterSt (initSt T) 0 pre)).addI (initVal T + runCost T (initSt T) 0 pre) =
      (specBestExt (specTable T) (pre.map fun (i : Nat) => (i : Int))).map (fun c => -c)

theorem runCost_append (T : Tab) : ∀ (pre q : List Nat) (s : St) (d : Nat),
    runCost T s d (pre ++ q) = runCost T s d pre + runCost T (afterSt s d pre) (d + pre.length) q := by
  intro pre
  induction pre with
  | nil => intro q s d; simp [runCost, afterSt]
  | cons j pre ih =>
    intro q s d
    rw [List.cons_append, runCost, runCost, afterSt, ih, List.length_cons]
    have : d + 1 + pre.length = d + (pre.length + 1) := by omega
    rw [this]; omega

theorem after_split {T : Tab} (hT : TabOk T) : ∀ (pre pre0 : List Nat) (s : St) (d : Nat), s.maybe = 0 →
    Split T pre0 s.scenes → pre.Nodup → (∀ j ∈ pre, s.scenes.testBit j = true) →
    (afterSt s d pre).maybe = 0 ∧ Split T (pre0 ++ pre) (afterSt s d pre).scenes := by
  intro pre
  induction pre with
  | nil => intro pre0 s d hM hs _ _; simpa [afterSt] using ⟨hM, hs⟩
  | cons j pre ih =>
    intro pre0 s d hM hs hnd hb
    have hjb := hb j List.mem_cons_self
    have h64 : j < 64 := by have := hs.lt j hjb; have := hT.npos.2.1; omega
    have hnd' := List.nodup_cons.mp hnd
    rw [afterSt, trans_nat s d j h64]
    have := ih (pre0 ++ [j]) { scenes := sdiff s.scenes (1 <<< j), maybe := sdiff s.maybe (1 <<< j) } (d + 1)
      (by simp [hM, sdiff_zero]) (hs.step hjb) hnd'.2 (fun i hi => by
        dsimp only
        rw [testBit_sdiff_bit, hb i (List.mem_cons_of_mem _ hi)]
        have : i ≠ j := fun e => hnd'.1 (e ▸ hi)
        simp [this])
    simpa using this

theorem isOrder_bits (S : Nat) : IsOrder S (bits S) :=
  ⟨by rw [bits_eq]; exact List.nodup_range.filter _, fun _ => mem_bits⟩

theorem map_ofNat_inj : ∀ (a b : List Nat), a.map (fun (i : Nat) => (i : Int)) = b.map (fun (i : Nat) => (i : Int)) → a = b
  | [], [], _ => rfl
  | [], _ :: _, h => by simp at h
  | _ :: _, [], h => by simp at h
  | x :: a, y :: b, h => by
    simp only [List.map_cons, List.cons.injEq] at h
    rw [map_ofNat_inj a b h.2, Int.ofNat.inj h.1]

theorem extends_iff (o pre : List Nat) : extends_ o (pre.map fun (i : Nat) => (i : Int)) = true ↔ o.take pre.length = pre := by
  unfold extends_
  rw [beq_iff_eq, List.length_map]
  constructor
  · intro h
    exact map_ofNat_inj _ _ h
  · intro h; rw [h]

theorem dpExactPrefixStmt (T : Tab) : DpExactPrefixStmt T := by
  intro hT pre hnd hlt
  have h64 := hT.npos.2.1
  have hs0 : Split T [] (initSt T).scenes :=
    ⟨fun i hi => (by cases hi), fun i hi => (by
      have := (testBit_init T i).mpr hi
      simp [this]), fun i hi => (testBit_init T i).mp hi⟩
  obtain ⟨hM, hs⟩ := after_split hT pre [] (initSt T) 0 rfl hs0 hnd (fun j hj => (testBit_init T j).mpr (hlt j hj))
  rw [List.nil_append] at hs
  -- the orders of the scenes left are the completions of `pre` into orders of all scenes
  have hperm : ∀ q, IsOrder (afterSt (initSt T) 0 pre).scenes q ↔ (pre ++ q).Perm (List.range T.n) := by
    intro q
    constructor
    · intro ho
      rw [List.perm_ext_iff_of_nodup _ List.nodup_range]
      · intro i
        rw [List.mem_append, List.mem_range, ho.mem]
        constructor
        · rintro (h | h)
          · exact hlt i h
          · exact hs.lt i h.2
        · intro h
          by_cases hp : i ∈ pre
          · exact Or.inl hp
          · right
            refine ⟨by omega, ?_⟩
            cases hb : (afterSt (initSt T) 0 pre).scenes.testBit i
            · exact absurd ((hs.compl i h).mpr hb) hp
            · rfl
      · rw [List.nodup_append]
        refine ⟨hnd, ho.nodup, fun a ha b hb e => ?_⟩
        subst e
        have := ((hs.compl a (hlt a ha)).mp ha)
        rw [((ho.mem a).mp hb).2] at this
        cases this
    · intro hp
      have hnd2 : (pre ++ q).Nodup := hp.nodup_iff.mpr List.nodup_range
      rw [List.nodup_append] at hnd2
      refine ⟨hnd2.2.1, fun i => ?_⟩
      constructor
      · intro hi
        have hin : i < T.n := List.mem_range.mp (hp.mem_iff.mp (List.mem_append_right _ hi))
        refine ⟨by omega, ?_⟩
        cases hb : (afterSt (initSt T) 0 pre).scenes.testBit i
        · exact absurd rfl (hnd2.2.2 i ((hs.compl i hin).mpr hb) i hi)
        · rfl
      · intro ⟨_, hb⟩
        have hin := hs.lt i hb
        rcases List.mem_append.mp (hp.mem_iff.mpr (List.mem_range.mpr hin)) with h | h
        · have := (hs.compl i hin).mp h
          rw [hb] at this; cases this
        · exact h
  have hlen : ∀ q, IsOrder (afterSt (initSt T) 0 pre).scenes q → q.length = T.n - pre.length := by
    intro q ho
    have := ((hperm q).mp ho).length_eq
    rw [List.length_append, List.length_range] at this
    omega
  obtain ⟨q0, ho0, hbest⟩ := bestRemF_attained T _ pre.length (afterSt (initSt T) 0 pre) _ hM (isOrder_bits _) rfl
  rw [hlen _ (isOrder_bits _)] at hbest
  have hB : bestRem T pre.length (afterSt (initSt T) 0 pre) = some (runCost T (afterSt (initSt T) 0 pre) pre.length q0) := hbest
  have hrun : ∀ q, runCost T (initSt T) 0 (pre ++ q) =
      runCost T (initSt T) 0 pre + runCost T (afterSt (initSt T) 0 pre) pre.length q := by
    intro q; rw [runCost_append, Nat.zero_add]
  have hmin : specBestExt (specTable T) (pre.map fun (i : Nat) => (i : Int)) =
      some (-(initVal T + runCost T (initSt T) 0 (pre ++ q0))) := by
    unfold specBestExt
    rw [minOf_eq_some]
    constructor
    · rw [List.mem_map]
      refine ⟨(pre ++ q0, _), ?_, pay_eq_run hT ((hperm q0).mp ho0)⟩
      rw [List.mem_filter]
      constructor
      · unfold specTable
        rw [List.mem_map]
        exact ⟨pre ++ q0, by rw [talent_perms, mem_perms]; exact (hperm q0).mp ho0, rfl⟩
      · rw [extends_iff]; simp
    · intro y hy
      obtain ⟨e, he, rfl⟩ := List.mem_map.mp hy
      rw [List.mem_filter] at he
      obtain ⟨he1, he2⟩ := he
      unfold specTable at he1
      obtain ⟨o, ho, rfl⟩ := List.mem_map.mp he1
      rw [talent_perms, mem_perms] at ho
      rw [extends_iff] at he2
      dsimp only at he2 ⊢
      have hsplit : o = pre ++ o.drop pre.length := by
        have := List.take_append_drop pre.length o
        rw [he2] at this; exact this.symm
      rw [pay_eq_run hT ho, hsplit]
      have hoq : IsOrder (afterSt (initSt T) 0 pre).scenes (o.drop pre.length) := (hperm _).mpr (hsplit ▸ ho)
      have hle := run_le_bestRemF T _ pre.length _ hM hoq
      rw [hlen _ hoq, hbest] at hle
      have : runCost T (afterSt (initSt T) 0 pre) pre.length (o.drop pre.length) ≤
          runCost T (afterSt (initSt T) 0 pre) pre.length q0 := hle
      rw [hrun, hrun]
      omega
  rw [hB, hmin, hrun]
  simp [EInt.addI]
  omega

end Ddo.Examples.TalentschedModel

section
open Ddo.Examples.TalentschedModel
#print axioms run_le_bestRemF
#print axioms bestRemF_attained
#print axioms pay_eq_run
#print axioms dpExactStmt
#print axioms dpExactPrefixStmt
end
