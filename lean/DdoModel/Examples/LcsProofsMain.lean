import DdoModel.Examples.LcsProofsExact
import DdoModel.Examples.LcsProofsWf
import DdoModel.Props.C15b
/-! The shipped lcs example, summary: every well-formedness statement of `LcsModel.lean` is a theorem, and the generic
    relaxed-diagram theorem (`C06.relaxed_ub_rel_dom`) applies to the example against its specification `Lcs.best`.

* `bestRem_spec` (`LcsProofs.lean`): the value-to-go of a valid state is the length of a longest common subsequence of the
  suffixes the state points at;
* `bestRemAntitone : BestRemAntitoneStmt`, `mergeOk : MergeOkStmt`, `dominanceOk : DominanceOkStmt` (`LcsProofs.lean`,
  `LcsProofsDom.lean`);
* `rubAdmissible : RubAdmissibleStmt` (`LcsProofsRub.lean`; the 2-string tables: `LcsProofsTable.lean`);
* `dpExact : DpExactStmt` (`LcsProofsExact.lean`; the reader and the specification: `LcsProofsSpec.lean`);
* `wfRel`, `noClampDom`, `lcs_relaxed_ub_bestRem` (`LcsProofsWf.lean`) and `lcs_relaxed_ub` below;
* `skipRel` and `lcs_relaxed_ub_pooled` below: the same for the POOLED diagram with long arcs (`compileP`), the one the shipped
  example uses (`ParCachingSolverPooled`), via `Ddo.C15.relaxed_ub_pooled`. -/
namespace Ddo.Examples.LcsModel
open Ddo Ddo.Examples Ddo.Examples.Util

/-- the value-to-go of the root is the specification `Lcs.best` of the file -/
theorem root_exact {k declared : Nat} {lines : List (List Int)} {J : Inst} (hJ : InstOk k declared lines J) :
    bestRem J (initSt J) = Lcs.best lines := by
  have h := dpExact k declared lines J hJ [] (initSt J) 0 rfl
  rw [best_eq_specBestExt]
  have e : prefixOf J [] = [] := rfl
  rw [e] at h
  rw [← h]
  cases bestRem J (initSt J) <;> simp [EInt.addI]

/-- **The shipped lcs example**: a relaxed compilation of its model from the root (layer by layer — every state of layer
    `k` is branched on variable `k`, no long arcs —, no cache, no dominance checker, width ≥ 1, any incumbent `lb` that the
    optimum beats) reports a best value that is at least the true optimum: the length `Lcs.best lines` of a longest common
    subsequence of the lines of the file, for every file of the input domain (`InstOk`). -/
theorem lcs_relaxed_ub {K : Type} [DecidableEq K] {k declared : Nat} {lines : List (List Int)} {J : Inst}
    (hJ : InstOk k declared lines J) (cfg : Cfg St K) (cache : Cache St) (store : DomStore St K) (polls : Nat)
    (hP : cfg.P = problem J) (hR : cfg.R = relaxation J)
    (hrs : cfg.root.state = initSt J) (hrv : cfg.root.value = 0) (hrd : cfg.root.depth = 0)
    (hrel : cfg.ctype = .relaxed) (hcache : cfg.useCache = false) (hdom : cfg.dom = none) (hW : 1 ≤ cfg.width)
    (hsmall : ((nbVars J : Int) + 2) * 1 ≤ 4611686018427387904)
    (o : Int) (ho : Lcs.best lines = some o) (hlb : InI cfg.lb) (hgt : o > cfg.lb) :
    (compile cfg cache store polls none).1 = .ok →
    ∃ bv, (compile cfg cache store polls none).2.1.bestValue = some bv ∧ o ≤ bv :=
  lcs_relaxed_ub_bestRem hJ cfg cache store polls hP hR hrs hrv hrd hrel hcache hdom hW hsmall o
    (by rw [root_exact hJ]; exact ho) hlb hgt

/-- non-vacuity, on the instance of `LcsProofsWf.lean` (`abcb`, `bac`: the optimum is `2`) -/
example : ∃ bv, (compile Demo.cfg (Cache.init 3) (DomStore.init 3) 0 none).2.1.bestValue = some bv ∧ 2 ≤ bv :=
  lcs_relaxed_ub Demo.instOk Demo.cfg (Cache.init 3) (DomStore.init 3) 0 rfl rfl rfl rfl rfl rfl rfl rfl (by decide)
    (by decide) 2 (by decide) (by decide) (by decide) (by decide)

/-- the contract of `is_impacted_by` (upper-bound half): a state of layer `k` whose position in string `0` is not `k` is further
    in string `0`, so it is valid for layer `k + 1`; its value-to-go does not depend on the layer -/
theorem skipRel {J : Inst} {ws : List (List Nat)} (hB : Built J ws) : SkipRel (problem J) (H J) (V ws) where
  vskip := by
    intro k L x s hnv _ hV himp
    obtain ⟨_, hx⟩ := nextVar_some hnv
    subst hx
    refine ⟨hV.1, ?_⟩
    have h1 := hV.2
    have h0 : 0 < ws.length := List.length_pos_iff.mpr hB.ne
    have h2 : pos s 0 ≠ x := by
      intro e
      simp [problem, impacted?, getElem?_of_valid hV.1 h0, e] at himp
    omega
  up := fun _ _ _ _ _ _ _ _ => EInt.le_refl _

/-- **The shipped lcs example, as shipped (pooled diagram, long arcs)**: a relaxed POOLED compilation of its model from the
    root (`compileP`: a state waits in the pool until the variable of its position in string `0`; no cache, no dominance
    checker, any width, any cutoff that lets the compilation end normally, any incumbent `lb` that the optimum beats) reports
    a best value — in both of its results — that is at least the true optimum `Lcs.best lines`, for every file of the input
    domain (`InstOk`). -/
theorem lcs_relaxed_ub_pooled {K : Type} [DecidableEq K] {k declared : Nat} {lines : List (List Int)} {J : Inst}
    (hJ : InstOk k declared lines J) (cfg : Cfg St K) (cache : Cache St) (store : DomStore St K) (polls : Nat)
    (stopAt : Option Nat)
    (hP : cfg.P = problem J) (hR : cfg.R = relaxation J)
    (hrs : cfg.root.state = initSt J) (hrv : cfg.root.value = 0) (hrd : cfg.root.depth = 0)
    (hrel : cfg.ctype = .relaxed) (hcache : cfg.useCache = false) (hdom : cfg.dom = none)
    (hsmall : ((nbVars J : Int) + 2) * 1 ≤ 4611686018427387904)
    (o : Int) (ho : Lcs.best lines = some o) (hlb : InI cfg.lb) (hgt : o > cfg.lb)
    (hok : (compileP cfg cache store polls stopAt).1 = .ok) (r : Result St)
    (hr : r = (compileP cfg cache store polls stopAt).2.1 ∨ (compileP cfg cache store polls stopAt).2.2.1 = some r) :
    ∃ bv, r.bestValue = some bv ∧ o ≤ bv := by
  have hB := built_of_instOk hJ
  have hVi := valid_init hB
  have ho' : bestRem J (initSt J) = some o := by rw [root_exact hJ]; exact ho
  have hO : o ≤ iMax := by
    have := bestRem_le_nbVars hB hVi ho'
    simp only [iMax]
    omega
  refine C15.relaxed_ub_pooled cfg (H J) (V (J.strings.take J.nStrings)) 1 cache store polls stopAt hrel hcache hdom ?_ ?_ ?_
    ?_ hlb o ?_ hgt (Or.inl hO) hok r hr
  · rw [hP, hR]; exact wfRel hB
  · rw [hP]; exact skipRel hB
  · rw [hrd, hrs]; exact ⟨hVi, Nat.zero_le _⟩
  · rw [hP, hR, hrv]; exact noClampDom hsmall
  · unfold optOf
    rw [hrd, hrs, hrv]
    show (bestRem J (initSt J)).addI 0 = some o
    rw [ho']
    simp [EInt.addI]

/-- non-vacuity of the pooled corollary, same instance -/
example : ∃ bv, (compileP Demo.cfg (Cache.init 3) (DomStore.init 3) 0 none).2.1.bestValue = some bv ∧ 2 ≤ bv :=
  lcs_relaxed_ub_pooled Demo.instOk Demo.cfg (Cache.init 3) (DomStore.init 3) 0 none rfl rfl rfl rfl rfl rfl rfl rfl
    (by decide) 2 (by decide) (by decide) (by decide) (by decide) _ (Or.inl rfl)

#print axioms bestRem_spec
#print axioms bestRemAntitone
#print axioms mergeOk
#print axioms rubAdmissible
#print axioms dominanceOk
#print axioms dpExact
#print axioms root_exact
#print axioms wfRel
#print axioms lcs_relaxed_ub
#print axioms lcs_relaxed_ub_pooled

end Ddo.Examples.LcsModel
