import DdoModel.Examples.TsptwProofsStar
/-! `TsptwRelax::merge` on valid states of one layer: the merged state is valid (`valid_merge`, `alt_merge`) and simulates every
    merged-away state (`sim_merge`); hence `MergeOk` for the repaired `relax`, in the potential form, for the model's own
    value-to-go (`mergeOk_bestRemL`, `mergeOk_bestRem`: `MergeOkStmt`) and for the potential `hStar` (`mergeOk_hStar`). -/
namespace Ddo.Examples.TsptwModel
open Ddo Ddo.Examples

theorem mem_norm {l : List Nat} {x : Nat} : x ∈ norm l ↔ x < 256 ∧ x ∈ l := by
  simp [norm, List.mem_filter, List.mem_range]

theorem nodup_norm (l : List Nat) : (norm l).Nodup := List.nodup_range.filter _

theorem mem_agree {x : Nat} : ∀ (X : List St) (init : List Nat),
    x ∈ X.foldl (fun a s => a.filter (s.must.contains ·)) init ↔ x ∈ init ∧ ∀ s ∈ X, x ∈ s.must := by
  intro X
  induction X with
  | nil => intro init; simp
  | cons a t ih =>
    intro init
    rw [List.foldl_cons, ih]
    simp only [List.mem_filter, List.contains_eq_mem, decide_eq_true_eq, List.mem_cons, forall_eq_or_imp]
    constructor
    · rintro ⟨⟨h1, h2⟩, h3⟩; exact ⟨h1, h2, h3⟩
    · rintro ⟨h1, h2, h3⟩; exact ⟨⟨h1, h2⟩, h3⟩

theorem nodup_agree : ∀ (X : List St) (init : List Nat), init.Nodup →
    (X.foldl (fun a s => a.filter (s.must.contains ·)) init).Nodup := by
  intro X
  induction X with
  | nil => intro init h; exact h
  | cons a t ih => intro init h; rw [List.foldl_cons]; exact ih _ (h.filter _)

theorem foldl_min_leG {α : Type} (f : α → Nat) : ∀ (l : List α) (a : Nat),
    l.foldl (fun m i => min m (f i)) a ≤ a ∧ (∀ i ∈ l, l.foldl (fun m i => min m (f i)) a ≤ f i) := by
  intro l
  induction l with
  | nil => intro a; simp
  | cons x t ih =>
    intro a
    obtain ⟨h1, h2⟩ := ih (min a (f x))
    simp only [List.foldl_cons, List.mem_cons, forall_eq_or_imp]
    exact ⟨by omega, by omega, h2⟩

theorem foldl_max_leG {α : Type} (f : α → Nat) (B : Nat) : ∀ (l : List α) (a : Nat), a ≤ B → (∀ i ∈ l, f i ≤ B) →
    l.foldl (fun m i => max m (f i)) a ≤ B ∧ a ≤ l.foldl (fun m i => max m (f i)) a ∧
    ∀ i ∈ l, f i ≤ l.foldl (fun m i => max m (f i)) a := by
  intro l
  induction l with
  | nil => intro a h _; simp [h]
  | cons x t ih =>
    intro a ha h
    have hx := h x List.mem_cons_self
    obtain ⟨h1, h2, h3⟩ := ih (max a (f x)) (by omega) (fun i hi => h i (List.mem_cons_of_mem _ hi))
    simp only [List.foldl_cons, List.mem_cons, forall_eq_or_imp]
    exact ⟨h1, by omega, by omega, h3⟩

-- the fields of the merged state
theorem merge_pos (X : List St) : posSet (merge X).pos = norm (X.flatMap fun s => posSet s.pos) := rfl
theorem merge_must (X : List St) : (merge X).must = X.foldl (fun a s => a.filter (s.must.contains ·)) (List.range 256) := rfl
theorem merge_depth (X : List St) : (merge X).depth = X.foldl (fun m s => max m s.depth) 0 := rfl
theorem merge_earliest (X : List St) : (merge X).el.earliest = X.foldl (fun m s => min m s.el.earliest) umax := by
  simp only [merge]; split <;> rfl
theorem merge_latest (X : List St) : (merge X).el.latest = X.foldl (fun m s => max m s.el.latest) 0 := by
  simp only [merge]
  split
  · next h => rw [latest_fixed]; exact h
  · rfl
theorem merge_mb (X : List St) : mb (merge X) =
    (norm ((X.flatMap fun s => s.maybe.getD []) ++ norm (X.flatMap (·.must)))).filter (!(merge X).must.contains ·) := by
  simp only [mb, merge]
  split
  · next h => rw [List.isEmpty_iff] at h; rw [h]; rfl
  · rfl

theorem mem_merge_must {X : List St} {x : Nat} : x ∈ (merge X).must ↔ x < 256 ∧ ∀ s ∈ X, x ∈ s.must := by
  rw [merge_must, mem_agree]; simp [List.mem_range]

theorem mem_merge_mb {X : List St} {x : Nat} : x ∈ mb (merge X) ↔
    x < 256 ∧ (∃ s ∈ X, x ∈ mb s ∨ x ∈ s.must) ∧ x ∉ (merge X).must := by
  rw [merge_mb]
  simp only [List.mem_filter, mem_norm, List.mem_append, List.mem_flatMap, Bool.not_eq_true', List.contains_eq_mem,
    decide_eq_false_iff_not, mb]
  constructor
  · rintro ⟨⟨h1, h2⟩, h3⟩
    refine ⟨h1, ?_, h3⟩
    rcases h2 with ⟨s, hs, h⟩ | ⟨_, s, hs, h⟩
    · exact ⟨s, hs, Or.inl h⟩
    · exact ⟨s, hs, Or.inr h⟩
  · rintro ⟨h1, ⟨s, hs, h⟩, h3⟩
    refine ⟨⟨h1, ?_⟩, h3⟩
    rcases h with h | h
    · exact Or.inl ⟨s, hs, h⟩
    · exact Or.inr ⟨h1, s, hs, h⟩

theorem mem_merge_pos {X : List St} {x : Nat} : x ∈ posSet (merge X).pos ↔ x < 256 ∧ ∃ s ∈ X, x ∈ posSet s.pos := by
  rw [merge_pos, mem_norm]; simp [List.mem_flatMap]

section
variable {T : Tab} (hT : TabOk T) {k : Nat} {X : List St} (hne : X ≠ []) (hX : ∀ s ∈ X, Valid T s ∧ s.depth = k)
include hT hne hX

omit hT in
theorem merge_depth_eq : (merge X).depth = k := by
  rw [merge_depth]
  obtain ⟨u, hu⟩ := List.exists_mem_of_ne_nil _ hne
  obtain ⟨h1, _, h3⟩ := foldl_max_leG (fun s : St => s.depth) k X 0 (Nat.zero_le _) (fun s hs => by rw [(hX s hs).2]; exact Nat.le_refl _)
  have := h3 u hu
  rw [(hX u hu).2] at this
  omega

theorem valid_merge : Valid T (merge X) := by
  obtain ⟨u, hu⟩ := List.exists_mem_of_ne_nil _ hne
  have hVu := (hX u hu).1
  have hn := hT.n_le
  have hdep := merge_depth_eq hne hX
  refine ⟨?_, ?_, ?_, ?_, ?_, ?_, ?_, ?_, ?_, ?_, ?_, ?_⟩
  · rw [hdep]; have := hVu.depth_le; rw [(hX u hu).2] at this; exact this
  · intro hd p hp
    obtain ⟨_, s, hs, hps⟩ := mem_merge_pos.mp hp
    exact (hX s hs).1.last_pos (by rw [(hX s hs).2, ← hdep]; exact hd) p hps
  · obtain ⟨p, hp⟩ := List.exists_mem_of_ne_nil _ hVu.pos_ne
    have := hVu.pos_lt p hp
    exact List.ne_nil_of_mem (mem_merge_pos.mpr ⟨by omega, u, hu, hp⟩)
  · intro p hp
    obtain ⟨_, s, hs, hps⟩ := mem_merge_pos.mp hp
    exact (hX s hs).1.pos_lt p hps
  · intro i hi
    exact hVu.must_rng i ((mem_merge_must.mp hi).2 u hu)
  · intro i hi hp
    obtain ⟨_, s, hs, hps⟩ := mem_merge_pos.mp hp
    exact (hX s hs).1.must_pos i ((mem_merge_must.mp hi).2 s hs) hps
  · intro i hi
    obtain ⟨_, ⟨s, hs, h⟩, _⟩ := mem_merge_mb.mp hi
    rcases h with h | h
    · exact (hX s hs).1.maybe_rng i h
    · exact (hX s hs).1.must_rng i h
  · rw [merge_must]; exact nodup_agree _ _ List.nodup_range
  · rw [merge_mb]; exact (nodup_norm _).filter _
  · intro i hi hm
    exact (mem_merge_mb.mp hm).2.2 hi
  · rw [merge_earliest]
    have := (foldl_min_leG (fun s : St => s.el.earliest) X umax).2 u hu
    have := hVu.e_small
    omega
  · rw [merge_latest]
    have := (foldl_max_leG (fun s : St => s.el.latest) (BND - 1) X 0 (Nat.zero_le _)
      (fun s hs => by have := (hX s hs).1.l_small; omega)).1
    have : 0 < BND := by decide
    omega

theorem alt_merge (hA : ∀ s ∈ X, Alt s) : Alt (merge X) := by
  obtain ⟨u, hu⟩ := List.exists_mem_of_ne_nil _ hne
  have hn := hT.n_le
  intro j hj
  have key : ∀ s ∈ X, (j ∈ s.must ∨ j ∈ mb s) → ∃ p ∈ posSet (merge X).pos, p ≠ j := by
    intro s hs h
    obtain ⟨p, hp, hpj⟩ := hA s hs j h
    have := (hX s hs).1.pos_lt p hp
    exact ⟨p, mem_merge_pos.mpr ⟨by omega, s, hs, hp⟩, hpj⟩
  rcases hj with hj | hj
  · exact key u hu (Or.inl ((mem_merge_must.mp hj).2 u hu))
  · obtain ⟨_, ⟨s, hs, h⟩, _⟩ := mem_merge_mb.mp hj
    exact key s hs h.symm

theorem sim_merge {u : St} (hu : u ∈ X) : Sim (merge X) u := by
  have hVu := (hX u hu).1
  have hn := hT.n_le
  refine ⟨?_, ?_, ?_, ?_, ?_⟩
  · rw [merge_depth_eq hne hX, (hX u hu).2]
  · intro p hp
    have := hVu.pos_lt p hp
    exact mem_merge_pos.mpr ⟨by omega, u, hu, hp⟩
  · rw [merge_earliest]; exact (foldl_min_leG (fun s : St => s.el.earliest) X umax).2 u hu
  · intro i hi; exact (mem_merge_must.mp hi).2 u hu
  · intro i hi
    have hi256 : i < 256 := by
      rcases hi with hi | hi
      · have := (hVu.must_rng i hi).2; omega
      · have := (hVu.maybe_rng i hi).2; omega
    by_cases hm : i ∈ (merge X).must
    · exact Or.inl hm
    · exact Or.inr (mem_merge_mb.mpr ⟨hi256, ⟨u, hu, hi.symm⟩, hm⟩)

end

-- ------------------------------------------------------------------------------------------------------------------
-- `MergeOk`

/-- a state that simulates another is worth at least as much, the head start included: the three value-to-go's -/
theorem sim_bestRemL {T : Tab} (hT : TabOk T) {m u : St} (h : Sim m u) (hm : Valid T m) (hu : Valid T u) :
    (bestRemL T u).addI (-(u.el.earliest : Int)) ≤ (bestRemL T m).addI (-(m.el.earliest : Int)) := by
  unfold bestRemL
  rw [bestRemLF_eq, bestRemLF_eq, h.depth]
  exact sim_le hT termL termL_sim _ _ _ h hm hu

theorem sim_bestRem {T : Tab} (hT : TabOk T) {m u : St} (h : Sim m u) (hm : Valid T m) (hu : Valid T u) :
    (bestRem T u).addI (-(u.el.earliest : Int)) ≤ (bestRem T m).addI (-(m.el.earliest : Int)) := by
  unfold bestRem
  rw [bestRemF_eq, bestRemF_eq, h.depth]
  exact sim_le hT termAny termAny_sim _ _ _ h hm hu

theorem sim_hStar {T : Tab} (hT : TabOk T) {m u : St} (h : Sim m u) (hm : Valid T m) (hu : Valid T u) (hA : Alt u) :
    (hStar T u).addI (-(u.el.earliest : Int)) ≤ (hStar T m).addI (-(m.el.earliest : Int)) := by
  unfold hStar
  rw [h.depth]
  refine simG_le hT (mdS T) (mdS T) termL (fun _ => True) Alt termL_sim (fun _ _ _ _ => trivial)
    (fun s j el hV => alt_succ hV j el) ?_ _ _ _ h hm hu trivial hA
  intro m u j h hm hu _ hAu hj
  apply mdS_anti h hm.pos_ne hu.pos_ne
  rcases hj.2 with ⟨_, h0⟩ | ⟨_, _, h3⟩
  · exact Or.inl h0
  · exact Or.inr (hAu j h3)

theorem EInt.of_addI_le {a b : EInt} {x y h : Int} (hle : a.addI x ≤ b.addI y) (ha : a = some h) :
    ∃ h', b = some h' ∧ h + x ≤ h' + y := by
  subst ha
  cases b with
  | none => simp [EInt.addI] at hle
  | some h' => exact ⟨h', rfl, by simpa [EInt.addI] using hle⟩

/-- **`MergeOk` for the repaired relaxation, potential form** (`Wf.MergeOk` restricted to valid states of one layer), with
    the legitimate value-to-go of the model as potential: redirecting an arc `src —d,c→ u` to `merge X` (`u ∈ X`) with the
    cost `relax … c = c + (earliest u − earliest (merge X))` loses no potential -/
def MergeOkStmt (T : Tab) : Prop :=
  ∀ (k : Nat) (X : List St) (u src : St) (d : Dec) (c h : Int), u ∈ X → (∀ s ∈ X, Valid T s ∧ s.depth = k) →
    bestRemL T u = some h →
    ∃ h', bestRemL T (merge X) = some h' ∧ c + h ≤ (relaxation T).relax src u ((relaxation T).merge X) d c + h'

theorem mergeOk {T : Tab} (hT : TabOk T) : MergeOkStmt T := by
  intro k X u src d c h hu hX hh
  have hne := List.ne_nil_of_mem hu
  obtain ⟨h', e, le⟩ := EInt.of_addI_le
    (sim_bestRemL hT (sim_merge hT hne hX hu) (valid_merge hT hne hX) (hX u hu).1) hh
  refine ⟨h', e, ?_⟩
  show c + h ≤ c + ((u.el.earliest : Int) - ((merge X).el.earliest : Int)) + h'
  omega

/-- the same with the value-to-go over ALL completions (`bestRem`, what `mergeOkAt` evaluates) -/
def MergeOkAnyStmt (T : Tab) : Prop :=
  ∀ (k : Nat) (X : List St) (u src : St) (d : Dec) (c : Int), u ∈ X → (∀ s ∈ X, Valid T s ∧ s.depth = k) →
    mergeOkAt T u (merge X) c ((relaxation T).relax src u ((relaxation T).merge X) d c) = true

theorem mergeOkAny {T : Tab} (hT : TabOk T) : MergeOkAnyStmt T := by
  intro k X u src d c hu hX
  have hne := List.ne_nil_of_mem hu
  have := sim_bestRem hT (sim_merge hT hne hX hu) (valid_merge hT hne hX) (hX u hu).1
  unfold mergeOkAt
  cases hh : bestRem T u with
  | none => rfl
  | some h =>
    obtain ⟨h', e, le⟩ := EInt.of_addI_le this hh
    simp only [e, decide_eq_true_eq]
    show c + h ≤ c + ((u.el.earliest : Int) - ((merge X).el.earliest : Int)) + h'
    omega

/-- the same for the potential `hStar` -/
theorem mergeOk_hStar {T : Tab} (hT : TabOk T) (k : Nat) (X : List St) (u src : St) (d : Dec) (c h : Int) (hu : u ∈ X)
    (hX : ∀ s ∈ X, Valid T s ∧ s.depth = k) (hA : Alt u) (hh : hStar T u = some h) :
    ∃ h', hStar T (merge X) = some h' ∧ c + h ≤ (relaxation T).relax src u ((relaxation T).merge X) d c + h' := by
  have hne := List.ne_nil_of_mem hu
  obtain ⟨h', e, le⟩ := EInt.of_addI_le
    (sim_hStar hT (sim_merge hT hne hX hu) (valid_merge hT hne hX) (hX u hu).1 hA) hh
  refine ⟨h', e, ?_⟩
  show c + h ≤ c + ((u.el.earliest : Int) - ((merge X).el.earliest : Int)) + h'
  omega

/-- **the value form** (`merge_ok` of `TsptwModel.lean`) on valid states: a corollary -/
theorem merge_ok_valid {T : Tab} (hT : TabOk T) (X : List St) (u : St) (hu : u ∈ X)
    (hX : ∀ s ∈ X, Valid T s ∧ s.depth = u.depth) : mergeValOkAt T u (merge X) = true := by
  have hne := List.ne_nil_of_mem hu
  have := sim_bestRemL hT (sim_merge hT hne hX hu) (valid_merge hT hne hX) (hX u hu).1
  unfold mergeValOkAt
  cases hh : bestRemL T u with
  | none => rfl
  | some h =>
    obtain ⟨h', e, le⟩ := EInt.of_addI_le this hh
    simp only [e, decide_eq_true_eq]
    omega

/-- `merge_ok` as stated in `TsptwModel.lean` (`validB` states), restricted to well-formed tables and to states whose lists
    are SETS (no duplicate, mandatory and optional cities disjoint — what `Set256` guarantees in the Rust code).
    Missing for `merge_ok T` itself: nothing that is true — see `merge_ok_false` -/
theorem merge_ok_partial {T : Tab} (hT : TabOk T) (X : List St) (u : St) (hu : u ∈ X)
    (hX : ∀ s ∈ X, validB T s = true ∧ s.depth = u.depth)
    (hS : ∀ s ∈ X, s.must.Nodup ∧ (mb s).Nodup ∧ ∀ i ∈ s.must, i ∉ mb s) : mergeValOkAt T u (merge X) = true :=
  merge_ok_valid hT X u hu (fun s hs => ⟨valid_of_validB (hX s hs).1 (hS s hs).1 (hS s hs).2.1 (hS s hs).2.2, (hX s hs).2⟩)

/-- 3 nodes, all travel times `1`, windows `[0,100]` -/
def cexT : Tab := tabOf 3 [0, 100, 100,  100, 0, 100,  100, 100, 0] [(0, 10000), (0, 10000), (0, 10000)]
/-- a `validB` "state" whose mandatory list has a duplicate (not a `Set256`: no run of the Rust code builds it) -/
def cexU : St := { pos := .node 0, el := .fixed 0, must := [1, 1], maybe := none, depth := 0 }

theorem cexT_tabOk : TabOk cexT := tabOk_of_tabOkB (by decide)

set_option maxRecDepth 100000 in
/-- **`merge_ok` as stated (over all `validB` states) is false**: `validB` does not say that the lists are sets; a list with
    a duplicate is normalised by `merge`, which loses the second visit.  Not reachable: `must_visit` is a `Set256`.
    The statement is true with `Valid` in place of `validB` (`merge_ok_valid`) -/
theorem merge_ok_false : ¬ merge_ok cexT := by
  intro h
  have := h (by decide) [cexU] cexU (by simp) (by
    intro s hs
    have : s = cexU := by simpa using hs
    subst this
    exact ⟨by decide, rfl⟩)
  revert this
  decide

-- ------------------------------------------------------------------------------------------------------------------
-- the dominance rule

theorem domCmp_lt {va vb : Int} (h : (domCmp va vb).1 = .lt) : va < vb := by
  unfold domCmp at h
  rcases Int.lt_trichotomy va vb with h1 | h1 | h1
  · exact h1
  · subst h1; simp [compare, compareOfLessAndEq] at h
  · have h2 : compare va vb = .gt := by
      simp only [compare, compareOfLessAndEq]
      rw [if_neg (by omega), if_neg (by omega)]
    simp [h2] at h

theorem domCmp_gt {va vb : Int} (h : (domCmp va vb).1 = .gt) : vb < va := by
  unfold domCmp at h
  rcases Int.lt_trichotomy va vb with h1 | h1 | h1
  · have h2 : compare va vb = .lt := by simp [compare, compareOfLessAndEq, h1]
    simp [h2] at h
  · subst h1; simp [compare, compareOfLessAndEq] at h
  · exact h1

/-- between two exact nodes of one layer with the same key, the later one has no better completion -/
theorem dom_exact {T : Tab} (hT : TabOk T) {k : Nat} {a b : St} {va vb : Int} (ha : Exact T k a va) (hb : Exact T k b vb)
    (hkey : keyEq a b = true) (hlt : va < vb) : (bestRem T a).addI va ≤ (bestRem T b).addI vb := by
  simp only [keyEq, Bool.and_eq_true, beq_iff_eq] at hkey
  have hsim : Sim b a := by
    refine ⟨by rw [ha.depth, hb.depth], fun p hp => by rw [← hkey.1]; exact hp, ?_, fun i hi => by rw [hkey.2]; exact hi, ?_⟩
    · have := ha.value; have := hb.value; omega
    · intro i hi
      rcases hi with hi | hi
      · exact Or.inl (by rw [← hkey.2]; exact hi)
      · simp [mb, ha.maybe] at hi
  rw [ha.value, hb.value]
  exact sim_bestRem hT hsim hb.valid ha.valid

/-- **the dominance rule is admissible** (`dominance_admissible` of `TsptwModel.lean`) on every well-formed table.
    Missing for `dominance_admissible T` on ANY table: tables that are not `TabOk` (a matrix that is not `n × n`, more than
    256 nodes, numbers `≥ 2^40`), which `inDomain` does not exclude and no reader builds -/
theorem dominance_admissible_partial {T : Tab} (hT : TabOk T) : dominance_admissible T := by
  intro _ k a va pa b vb pb ha hb hkey
  have ea := reach_exact hT ha
  have eb := reach_exact hT hb
  unfold domOkAt
  split
  · next h => exact decide_eq_true (dom_exact hT ea eb hkey (domCmp_lt h))
  · next h =>
    have hkey' : keyEq b a = true := by
      simp only [keyEq, Bool.and_eq_true, beq_iff_eq] at hkey ⊢
      exact ⟨hkey.1.symm, hkey.2.symm⟩
    exact decide_eq_true (dom_exact hT eb ea hkey' (domCmp_gt h))
  · rfl

#print axioms mergeOk
#print axioms mergeOkAny
#print axioms mergeOk_hStar
#print axioms merge_ok_valid
#print axioms merge_ok_false
#print axioms dominance_admissible_partial

end Ddo.Examples.TsptwModel
