/-! Tiny enumeration helpers shared by the example specifications (`DdoModel/Examples/*.lean`).
    Everything here is plain structural recursion on lists: no proofs, no cleverness. -/
namespace Ddo.Examples.Util

/-- all sub-lists (= subsequences, order preserved) of a list: `2^length` of them -/
def sublists {α : Type} : List α → List (List α)
  | [] => [[]]
  | x :: xs => let r := sublists xs; r ++ r.map (x :: ·)

/-- all lists of length `k` over the alphabet `dom`: `dom.length^k` of them -/
def tuples {α : Type} (dom : List α) : Nat → List (List α)
  | 0 => [[]]
  | k + 1 => (tuples dom k).flatMap fun t => dom.map (· :: t)

/-- largest / smallest element of a list of integers (`none` on the empty list) -/
def maxOf : List Int → Option Int
  | [] => none
  | x :: xs => some (xs.foldl max x)
def minOf : List Int → Option Int
  | [] => none
  | x :: xs => some (xs.foldl min x)

def sum (xs : List Int) : Int := xs.foldl (· + ·) 0

/-- the list `[1, 2, …, n]` -/
def oneTo (n : Nat) : List Int := (List.range n).map fun i => Int.ofNat i + 1

/-- cut a flat token list into consecutive groups of 2 / 3; `none` unless it divides exactly -/
def pairs? : List Int → Option (List (Int × Int))
  | [] => some []
  | a :: b :: r => (pairs? r).map ((a, b) :: ·)
  | _ => none
def triples? : List Int → Option (List (Int × Int × Int))
  | [] => some []
  | a :: b :: c :: r => (triples? r).map ((a, b, c) :: ·)
  | _ => none

/-- cut a flat list into rows of length `w` (`h` of them); `none` unless the sizes match exactly -/
def rows? {α : Type} (w : Nat) : Nat → List α → Option (List (List α))
  | 0, [] => some []
  | 0, _ => none
  | h + 1, xs => if xs.length < w then none else (rows? w h (xs.drop w)).map ((xs.take w) :: ·)

end Ddo.Examples.Util
