import DdoModel.Dp
import DdoModel.Examples.Util
import DdoModel.Examples.Talentsched
/-! The DP model, relaxation and ranking of the shipped talentsched example (`ddo/examples/talentsched/{model,io_utils}.rs`)
    in Lean: definitions only (the driver engine `exmodel`, family `talentsched`, compares them pointwise with the example's
    own code, compiled into the harness; statements about them are in `TalentschedModel.lean`).

Mirror of the Rust code.  MINIMISATION: ddo maximises, every transition cost is MINUS a cost.
* `io_utils::read_instance`: the first line is skipped, empty lines are skipped; `nb_scenes` and `nb_actors` on one line or
  two; `nb_actors` lines of `nb_scenes` flags and a cost; EVERY further line appends `nb_scenes` durations (`duration` may
  be longer than `nb_scenes`: only the first `nb_scenes` entries are ever read);
* `TalentSched::new`: `actors[j]` = the set (`Set64`) of the actors `i` with `instance.actors[i][j] == 1` (any other flag
  value: does not play);
* the state is `(scenes, maybe_scenes)`, two `Set64` (here: the natural number of their bits): the scenes that MUST still be
  shot and the scenes that MAY still have to be shot (only merged states have some); the root has all scenes in `scenes`;
  `next_variable(depth) = depth` for `depth < nb_scenes` (whatever the states): variable `p` decides which scene is shot in
  position `p`;
* `get_present(s)`: over the scenes `i < nb_scenes` NOT in `maybe_scenes`: `after` = the actors of those in `scenes`, `before`
  = the actors of those not in `scenes` (taken as shot); the actors on location are `before ∩ after`;
* `initial_value = -Σ_scene Σ_{actor of scene} cost · duration` (what is paid whatever the order);
* `for_each_in_domain(p, s)`: the members of `scenes` (increasing), then — iff `p + |scenes| < nb_scenes` — the members of
  `maybe_scenes` (increasing).  The variable is the ARGUMENT, the state has no depth;
* `transition`: the scene is removed from both sets (a panic iff the value is no bit of a `Set64`: negative or ≥ 64);
* `transition_cost = -Σ_{a ∈ present(s) \ actors[scene]} cost[a] · duration[scene]` (a panic iff `scene ≥ nb_scenes`);
* `merge` (IN THE ORDER GIVEN): starting from a copy of the FIRST state, for every other state `s`: `scenes ∩= s.scenes`,
  `maybe ∪= s.scenes ∪ s.maybe`; finally `maybe \= scenes`.  The members of the first state's `scenes` that the others do
  not have are NOT put in `maybe_scenes` (they are in neither set of the merged state: taken as shot); `relax` = the cost
  unchanged;
* `fast_upper_bound(s)`: with `P = present(s)`, over the scenes `j ∈ s.scenes` with `P_j = actors[j] ∩ P ≠ ∅`:
  `T_j = Σ_{a ∈ P_j} cost[a]`, `Q_j = Σ cost[a]²`, `r[a] += duration[j] / T_j` for `a ∈ P_j`,
  `lb -= duration[j] · (T_j + Q_j / T_j) / 2`; then, over the actors sorted by `(r[a], a)`, the present ones:
  `sum_e += r[a] · cost[a]`, `lb += cost[a] · sum_e`; the answer is `-ceil(lb - 1e-6)`.
  THE CODE COMPUTES THIS IN `f64`; THE MODEL COMPUTES IT ON EXACT RATIONALS (integers over the common denominator
  `2 · Π_j T_j`) with `1e-6 = 1/10^6` (`rubQ?`), and also says whether the exact `lb - 10^-6` is farther than `10^-7` from
  every integer (`guard`): then any evaluation whose absolute error is below `10^-7` rounds to the same integer (the exact
  value does not depend on the order of exact ties of the sort, and mis-ordering two keys that differ by less than the
  rounding error moves `lb` by less than `cost² ·` that error).  The driver claims equality with the code only under the
  guard (and `±1` otherwise); that the `f64` error stays below `10^-7` on the instance sizes used (≤ 7 actors, ≤ 6 scenes,
  costs ≤ 20, durations ≤ 10: |values| < 10^5, a few hundred operations, relative error 2^-53 each) is NOT proved here.  It
  is confirmed empirically by the agreement of every generated case; admissibility is evaluated on the value THE CODE
  returned.  `T_j = 0` (only zero-cost actors present for a scene — costs must be ≥ 1, `ood_zero_cost`) makes `lb` NaN
  (`0/0`), which `as isize` turns into 0: modelled;
* `TalentSchedRanking::compare` = comparison of `|scenes| + |maybe_scenes|`. -/
namespace Ddo.Examples.TalentschedModel
open Ddo Ddo.Examples Ddo.Examples.Util

structure St where
  scenes : Nat
  maybe : Nat
deriving DecidableEq, Repr

/-- the members of the bit set `m` from bit `i` on, in increasing order -/
def bitsFrom : Nat → Nat → Nat → List Nat
  | 0, _, _ => []
  | f + 1, i, m => if m = 0 then [] else if m % 2 = 1 then i :: bitsFrom f (i + 1) (m / 2) else bitsFrom f (i + 1) (m / 2)
/-- `Set64::iter` -/
def bits (m : Nat) : List Nat := bitsFrom 64 0 m
/-- `Set64::len` -/
def card (m : Nat) : Nat := (bits m).length
/-- `Set64::diff` -/
def sdiff (a b : Nat) : Nat := a ^^^ (a &&& b)

/-- what the model functions need: the `TalentSchedInstance` the reader built and the table of `TalentSched::new` -/
structure Tab where
  n : Nat
  k : Nat
  cost : List Int
  dur : List Int
  flags : List (List Int)
  act : List Nat

/-- `TalentSched::new`: the actors of scene `j` -/
def actOf (k : Nat) (flags : List (List Int)) (j : Nat) : Nat :=
  (List.range k).foldl (fun m i => if (flags.getD i []).getD j 0 = 1 then m ||| (1 <<< i) else m) 0

/-- the instance as the reader builds it from a file with the lines `flags_i cost_i` and the duration lines `durs` -/
def tabOf (n k : Nat) (flags : List (List Int)) (cost : List Int) (durs : List (List Int)) : Tab :=
  { n := n, k := k, cost := cost, dur := durs.flatten, flags := flags, act := (List.range n).map (actOf k flags) }

variable (T : Tab)

def costA (a : Nat) : Int := T.cost.getD a 0
def durS (j : Nat) : Int := T.dur.getD j 0
def actS (j : Nat) : Nat := T.act.getD j 0

def initSt : St := { scenes := (List.range T.n).foldl (fun m i => m ||| (1 <<< i)) 0, maybe := 0 }

/-- `initial_value` -/
def initVal : Int :=
  -(sum ((List.range T.n).map fun j => sum ((bits (actS T j)).map fun a => costA T a * durS T j)))

def nextVar (depth : Nat) : Option Nat := if depth < T.n then some depth else none

/-- `get_present` -/
def present (s : St) : Nat :=
  let ba := (List.range T.n).foldl (fun (ba : Nat × Nat) i =>
    if s.maybe.testBit i then ba
    else if s.scenes.testBit i then (ba.1, ba.2 ||| actS T i) else (ba.1 ||| actS T i, ba.2)) (0, 0)
  ba.1 &&& ba.2

/-- `for_each_in_domain` (never panics) -/
def domain (x : Nat) (s : St) : List Int :=
  let must := bits s.scenes
  (must ++ (if x + must.length < T.n then bits s.maybe else [])).map fun (i : Nat) => (i : Int)

/-- `transition`; `none` = a panic (the value is no bit of a `Set64`) -/
def trans? (s : St) (d : Dec) : Option St :=
  if d.val < 0 ∨ d.val ≥ 64 then none
  else some { scenes := sdiff s.scenes (1 <<< d.val.toNat), maybe := sdiff s.maybe (1 <<< d.val.toNat) }

/-- `transition_cost`; `none` = a panic (`actors[scene]` out of range) -/
def cost? (s : St) (d : Dec) : Option Int :=
  if d.val < 0 ∨ d.val ≥ T.n then none
  else
    let j := d.val.toNat
    some (-(sum ((bits (sdiff (present T s) (actS T j))).map fun a => costA T a * durS T j)))

def trans (s : St) (d : Dec) : St := (trans? s d).getD s
def cost (s : St) (d : Dec) : Int := (cost? T s d).getD 0

def problem : Problem St :=
  { nbVars := T.n
    init := initSt T
    initVal := initVal T
    trans := trans
    cost := fun s _ d => cost T s d
    nextVar := fun depth _ => nextVar T depth
    domain := domain T
    impacted := fun _ _ => true }

/-- `TalentSchedRelax::merge`, in the order given (the code panics on an empty list: `unwrap` of `None`) -/
def mergeStatesOld : List St → St
  | [] => { scenes := 0, maybe := 0 }
  | f :: rest =>
    let m := rest.foldl (fun (m : St) s => { scenes := m.scenes &&& s.scenes, maybe := (m.maybe ||| s.scenes) ||| s.maybe }) f
    { scenes := m.scenes, maybe := sdiff m.maybe m.scenes }

/-- `TalentSchedRelax::merge` as repaired (`fix:` commit of /repo, finding D18): the scenes of the FIRST state become possible
    scenes too before the other states are folded in (`mergeStatesOld` above is the merge as shipped before: the scenes only
    the first state still had to shoot ended up in neither set; witnesses in `TalentschedModel.lean`) -/
def mergeStates : List St → St
  | [] => { scenes := 0, maybe := 0 }
  | f :: rest => mergeStatesOld ({ scenes := f.scenes, maybe := f.maybe ||| f.scenes } :: rest)

/-- insertion into a list sorted by `(key, actor)` -/
def insertKey (x : Int × Nat) : List (Int × Nat) → List (Int × Nat)
  | [] => [x]
  | y :: ys => if x.1 < y.1 ∨ (x.1 = y.1 ∧ x.2 ≤ y.2) then x :: y :: ys else y :: insertKey x ys

/-- `⌈a / b⌉` for `b > 0` -/
def ceilDiv (a : Int) (b : Int) : Int := -((-a) / b)

/-- the scenes the bound looks at: `(duration, T_j, Q_j, P_j)` for `j ∈ scenes` with `P_j ≠ ∅` -/
def rubScenes (s : St) : List (Int × Int × Int × Nat) :=
  let p := present T s
  (bits s.scenes).filterMap fun j =>
    let pj := actS T j &&& p
    if pj = 0 then none
    else some (durS T j, sum ((bits pj).map (costA T)), sum ((bits pj).map fun a => costA T a * costA T a), pj)

/-- `fast_upper_bound` on exact rationals: `(the bound, guard)`; `none` = a panic (a member of `scenes` is no scene).
    `guard` = the exact `lb - 10^-6` is farther than `10^-7` from every integer -/
def rubQ? (s : St) : Option (Int × Bool) :=
  if s.scenes >>> T.n ≠ 0 then none else
  let p := present T s
  let sc := rubScenes T s
  if sc.any (fun e => e.2.1 = 0) then some (0, true) else      -- NaN
  let den : Int := sc.foldl (fun d e => d * e.2.1) 1              -- Π T_j > 0
  -- 2·den · (what is subtracted)
  let neg2 : Int := sum (sc.map fun e => e.1 * (e.2.1 * den + e.2.2.1 * (den / e.2.1)))
  -- den · r[a]
  let key := fun (a : Nat) => sum (sc.map fun e => if e.2.2.2.testBit a then e.1 * (den / e.2.1) else 0)
  let sorted := (List.range T.k).foldl (fun l a => insertKey (key a, a) l) []
  -- den · (what is added)
  let pos : Int := (sorted.foldl (fun (acc : Int × Int) ka =>
    if p.testBit ka.2 then
      let sumE := acc.1 + ka.1 * costA T ka.2
      (sumE, acc.2 + costA T ka.2 * sumE)
    else acc) (0, 0)).2
  -- lb - 10^-6 = x / m
  let m : Int := 2 * den * 1000000
  let x : Int := 1000000 * (2 * pos - neg2) - 2 * den
  let r := x % m
  some (-(ceilDiv x m), decide (r * 10000000 > m ∧ (m - r) * 10000000 > m))

def rub? (s : St) : Option Int := (rubQ? T s).map (·.1)

def relaxation : Relax St :=
  { merge := mergeStates
    relax := fun _ _ _ _ c => c
    rub := fun s => (rub? T s).getD 0 }

/-- `TalentSchedRanking::compare` -/
def rank (s : St) : Nat := card s.scenes + card s.maybe
def rankCmp (a b : St) : Ordering := compare (rank a) (rank b)

-- ------------------------------------------------------------------------------------------------------------------
-- what the driver evaluates pointwise (exhaustive enumeration over the remaining positions with the model's own functions)

/-- the value-to-go of `s` at depth `depth`: the best total transition cost over ALL completions (every sequence of
    decisions, each in the domain of the variable `depth, depth+1, …` of the state reached, down to depth `n`);
    `none` = −∞, no completion.  `fuel = n - depth`. -/
def bestRemF : Nat → Nat → St → EInt
  | 0, _, _ => some 0
  | fuel + 1, depth, s =>
    (domain T depth s).foldl (fun acc v => EInt.max acc ((bestRemF fuel (depth + 1) (trans s ⟨depth, v⟩)).addI (cost T s ⟨depth, v⟩))) none
def bestRem (depth : Nat) (s : St) : EInt := bestRemF T (T.n - depth) depth s

/-- the layer-validity predicate at a depth (`V` of `WfRel`), decided: the two sets are disjoint sets of scenes, there are no
    more scenes that must be shot than positions left, and enough scenes in the two sets together to fill the positions left.
    It holds at the root, is kept by transitions on decisions of the domain and by merges of valid states of one depth (the
    merged state has every scene of its SECOND state in one of its sets); a state with too many `scenes` reaches depth `n`
    with scenes left, one with too few scenes in all has no completion (no compilation builds either). -/
def validB (depth : Nat) (s : St) : Bool :=
  decide (depth ≤ T.n ∧ card s.scenes + depth ≤ T.n ∧ T.n ≤ card s.scenes + card s.maybe + depth ∧
          s.scenes &&& s.maybe = 0 ∧ (s.scenes ||| s.maybe) >>> T.n = 0)

/-- `RubOk` at one state: the bound `r` claimed for `s` dominates the value-to-go -/
def rubOkAt (depth : Nat) (s : St) (r : Int) : Bool := decide (bestRem T depth s ≤ some r)

/-- `MergeOk` (potential form, `Wf.lean`) at one merged-away state `u`, merged state `m` (both at depth `depth`), arc cost
    `c` relaxed to `r`: if `u` has a completion worth `h` then `m` has one worth `h'` with `c + h ≤ r + h'` -/
def mergeOkAt (depth : Nat) (u m : St) (c r : Int) : Bool :=
  match bestRem T depth u with
  | none => true
  | some h =>
    match bestRem T depth m with
    | none => false
    | some h' => decide (c + h ≤ r + h')

-- ------------------------------------------------------------------------------------------------------------------
-- the independent specification (`Talentsched.lean`), tabulated once per instance

/-- all shooting orders with their total pay, by the specification's own `perms` and `pay`, in the order
    `Talentsched.spec` enumerates them -/
def specTable : List (List Nat × Int) :=
  let plays := fun (a s : Nat) => (T.flags.getD a []).getD s 0 == 1
  (Talentsched.perms (List.range T.n)).map fun o => (o, Talentsched.pay T.k plays (costA T) (durS T) o)

/-- does the order extend the decisions `decs` taken for the positions `0, 1, …` -/
def extends_ (o : List Nat) (decs : List Int) : Bool :=
  (o.take decs.length).map (fun (i : Nat) => (i : Int)) == decs

/-- the specification's least pay among the orders extending the prefix; `none` = there is none -/
def specBestExt (tbl : List (List Nat × Int)) (decs : List Int) : Option Int :=
  minOf ((tbl.filter (fun e => extends_ e.1 decs)).map (·.2))

end Ddo.Examples.TalentschedModel
