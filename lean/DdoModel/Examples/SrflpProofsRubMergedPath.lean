import DdoModel.Examples.SrflpProofsRubMergedDefs
/-! Merged states of the srflp example: the completions of ANY good state (`VPath`), the value-to-go is at most the best
    completion (`bestRemF_le_vpaths`), "the sum of the `r` least" is superadditive (`leastSum_add_le`), hence the cost of a
    completion is at least `GG l cut M Y q + EE l flow M Y q` (`pathCost_le_GG_EE`). -/
namespace Ddo.Examples.SrflpModel
open Ddo Ddo.Examples Ddo.Examples.Util Ddo.SpecUtil

variable (T : Tab)

/-- a completion of a good state: an order of `n - depth` distinct departments, all of `must_place` and otherwise members of
    `maybe_place` -/
structure VPath (s : St) (q : List Nat) : Prop where
  nodup : q.Nodup
  must : ∀ i ∈ s.must, i ∈ q
  mem : ∀ i ∈ q, i ∈ s.must ∨ i ∈ mbOf s
  len : q.length = T.n - s.depth

theorem mem_filter_ne {l : List Nat} {i j : Nat} : j ∈ l.filter (· ≠ i) ↔ j ∈ l ∧ j ≠ i := by
  simp [List.mem_filter]

/-- the value-to-go of a good state is at most the best completion -/
theorem bestRemF_le_vpaths (h64 : T.n ≤ 64) (hI : Inst T) : ∀ (fuel : Nat) (s : St) (b : Int), Good T s →
    fuel = T.n - s.depth → (∀ q, VPath T s q → pathCost T s q ≤ b) → bestRemF T fuel s ≤ some b := by
  intro fuel
  induction fuel with
  | zero =>
    intro s b hG hl hq
    have hm : s.must = [] := List.eq_nil_of_length_eq_zero (by have := hG.must_le; omega)
    have := hq [] ⟨List.nodup_nil, (by rw [hm]; intro i hi; cases hi), (by intro i hi; cases hi), (by simpa using hl)⟩
    simp only [pathCost] at this
    simpa [bestRemF] using this
  | succ fuel ih =>
    intro s b hG hl hq
    have hd : s.depth < T.n := by omega
    rw [bestRemF_succ T fuel s hd]
    apply foldl_emax_le _ _ _ _ (EInt.none_le _)
    intro v hv
    obtain ⟨i, rfl, hi⟩ := (mem_domain T hG v).mp hv
    have hin := (domain_lt T hG hv).1
    rw [trans_nat T s s.depth i (by rw [hG.cut_len]; exact hin) (by omega)]
    have hmb := mbOf_stepSt T s i
    have h1 := ih (stepSt T s i) (b - cost T s ⟨s.depth, (i : Int)⟩) (good_step T hI hG hv) (by simp; omega) (by
      intro q hq'
      have hiq : i ∉ q := by
        intro hc
        rcases hq'.mem i hc with h | h
        · simp [stepSt_must] at h
        · rw [hmb] at h; simp at h
      have hp : VPath T s (i :: q) := by
        refine ⟨List.nodup_cons.mpr ⟨hiq, hq'.nodup⟩, ?_, ?_, ?_⟩
        · intro j hj
          by_cases hji : j = i
          · subst hji; exact List.mem_cons_self
          · exact List.mem_cons_of_mem _ (hq'.must j (by rw [stepSt_must]; exact mem_filter_ne.mpr ⟨hj, hji⟩))
        · intro j hj
          rcases List.mem_cons.mp hj with rfl | hj
          · rcases hi with h | ⟨_, h⟩
            · exact Or.inl h
            · exact Or.inr h
          · rcases hq'.mem j hj with h | h
            · rw [stepSt_must] at h; exact Or.inl (mem_filter_ne.mp h).1
            · rw [hmb] at h; exact Or.inr (mem_filter_ne.mp h).1
        · have := hq'.len
          simp only [stepSt_depth] at this
          simp only [List.length_cons]; omega
      have := hq (i :: q) hp
      simp only [pathCost] at this
      omega)
    revert h1
    generalize bestRemF T fuel (stepSt T s i) = e
    cases e <;> simp [EInt.addI]
    omega

/-! ### superadditivity of the sum of the least values -/

theorem leastSum_add_le (Y : List Nat) (w v u : Nat → Int) (r : Nat) (hnd : Y.Nodup) (hr : r ≤ Y.length)
    (hu : ∀ y ∈ Y, u y = w y + v y) :
    leastSum r (Y.map w) + leastSum r (Y.map v) ≤ leastSum r (Y.map u) := by
  obtain ⟨Z, hZn, hZs, hZl, hZ⟩ := leastSum_attained Y u r hnd hr
  have h1 := leastSum_le_choice Z Y w w hZn hZs (fun _ _ => Int.le_refl _)
  have h2 := leastSum_le_choice Z Y v v hZn hZs (fun _ _ => Int.le_refl _)
  have h3 := sum_map_add' w v u Z (fun j hj => hu j (hZs j hj))
  rw [hZl] at h1 h2
  rw [sum_eq] at h1 h2 hZ
  omega

/-- the optional picks of a path are distinct members of `Y` -/
theorem nonM_le_length {M Y q : List Nat} (hq : q.Nodup) (hmem : ∀ i ∈ q, i ∈ M ∨ i ∈ Y) : nonM M q ≤ Y.length := by
  unfold nonM
  apply List.Nodup.length_le_of_subset (hq.filter _)
  intro i hi
  have := List.mem_filter.mp hi
  rcases hmem i this.1 with h | h
  · simp [h] at this
  · exact h

theorem length_eq_filter_add_nonM (M : List Nat) : ∀ q : List Nat,
    q.length = (q.filter (fun i => M.contains i)).length + nonM M q := by
  intro q
  induction q with
  | nil => rfl
  | cons j q ih =>
    rw [nonM_cons, List.filter_cons]
    cases h : M.contains j <;> simp only [Bool.false_eq_true, ↓reduceIte, List.length_cons] <;> omega

theorem GG_add_le (l w v u : Nat → Int) (M : List Nat) : ∀ (q Y : List Nat), q.Nodup → Y.Nodup →
    (∀ i ∈ q, i ∈ M ∨ i ∈ Y) → (∀ i ∈ q, 0 ≤ l i) → (∀ i, i ∈ q ∨ i ∈ Y → u i = w i + v i) →
    GG l w M Y q + GG l v M Y q ≤ GG l u M Y q := by
  intro q
  induction q with
  | nil => intro Y _ _ _ _ _; simp [GG]
  | cons j q ih =>
    intro Y hq hY hmem hl hu
    obtain ⟨hjq, hq'⟩ := List.nodup_cons.mp hq
    have hmem' : ∀ i ∈ q, i ∈ M ∨ i ∈ Y.filter (· ≠ j) := by
      intro i hi
      rcases hmem i (List.mem_cons_of_mem _ hi) with h | h
      · exact Or.inl h
      · exact Or.inr (mem_filter_ne.mpr ⟨h, fun e => hjq (e ▸ hi)⟩)
    have hY' : (Y.filter (· ≠ j)).Nodup := hY.filter _
    have h1 := ih (Y.filter (· ≠ j)) hq' hY' hmem' (fun i hi => hl i (List.mem_cons_of_mem _ hi)) (by
      intro i hi
      rcases hi with hi | hi
      · exact hu i (Or.inl (List.mem_cons_of_mem _ hi))
      · exact hu i (Or.inr (mem_filter_ne.mp hi).1))
    have h2 := leastSum_add_le (Y.filter (· ≠ j)) w v u (nonM M q) hY' (nonM_le_length hq' hmem')
      (fun y hy => hu y (Or.inr (mem_filter_ne.mp hy).1))
    have h3 := sum_map_add' w v u (q.filter (fun i => M.contains i))
      (fun i hi => hu i (Or.inl (List.mem_cons_of_mem _ (List.mem_filter.mp hi).1)))
    have hlj := hl j List.mem_cons_self
    simp only [GG]
    generalize leastSum (nonM M q) ((Y.filter (· ≠ j)).map w) = a1 at h2 ⊢
    generalize leastSum (nonM M q) ((Y.filter (· ≠ j)).map v) = a2 at h2 ⊢
    generalize leastSum (nonM M q) ((Y.filter (· ≠ j)).map u) = a3 at h2 ⊢
    generalize ((q.filter (fun i => M.contains i)).map w).sum = b1 at h3 ⊢
    generalize ((q.filter (fun i => M.contains i)).map v).sum = b2 at h3 ⊢
    generalize ((q.filter (fun i => M.contains i)).map u).sum = b3 at h3 ⊢
    have h4 : l j * (b1 + a1) + l j * (b2 + a2) ≤ l j * (b3 + a3) := by
      rw [← Int.mul_add]
      exact Int.mul_le_mul_of_nonneg_left (by omega) hlj
    omega

/-- `GG` reads `M` only through the membership of the departments of the path -/
theorem GG_congr_M (l w : Nat → Int) (M M' : List Nat) : ∀ (q Y : List Nat),
    (∀ i ∈ q, M.contains i = M'.contains i) → GG l w M Y q = GG l w M' Y q := by
  intro q
  induction q with
  | nil => intro Y _; rfl
  | cons j q ih =>
    intro Y h
    have h' : ∀ i ∈ q, M.contains i = M'.contains i := fun i hi => h i (List.mem_cons_of_mem _ hi)
    have e1 : q.filter (fun i => M.contains i) = q.filter (fun i => M'.contains i) :=
      List.filter_congr (fun i hi => h' i hi)
    have e2 : nonM M q = nonM M' q := by
      unfold nonM
      rw [List.filter_congr (fun i hi => by rw [h' i hi])]
    simp only [GG, e1, e2, ih _ h']

theorem EE_congr_M (l : Nat → Int) (f : Nat → Nat → Int) (M M' : List Nat) : ∀ (q Y : List Nat),
    (∀ i ∈ q, M.contains i = M'.contains i) → EE l f M Y q = EE l f M' Y q := by
  intro q
  induction q with
  | nil => intro Y _; rfl
  | cons j q ih =>
    intro Y h
    have h' : ∀ i ∈ q, M.contains i = M'.contains i := fun i hi => h i (List.mem_cons_of_mem _ hi)
    simp only [EE, ih _ h', GG_congr_M l (f j) M M' q _ h']

/-- `GG` reads the weights only on the path and on `Y` -/
theorem GG_congr_w (l w w' : Nat → Int) (M : List Nat) : ∀ (q Y : List Nat),
    (∀ i, i ∈ q ∨ i ∈ Y → w i = w' i) → GG l w M Y q = GG l w' M Y q := by
  intro q
  induction q with
  | nil => intro Y _; rfl
  | cons j q ih =>
    intro Y h
    have e1 : (q.filter (fun i => M.contains i)).map w = (q.filter (fun i => M.contains i)).map w' :=
      List.map_congr_left (fun i hi => h i (Or.inl (List.mem_cons_of_mem _ (List.mem_filter.mp hi).1)))
    have e2 : (Y.filter (· ≠ j)).map w = (Y.filter (· ≠ j)).map w' :=
      List.map_congr_left (fun i hi => h i (Or.inr (mem_filter_ne.mp hi).1))
    have e3 := ih (Y.filter (· ≠ j)) (by
      intro i hi
      rcases hi with hi | hi
      · exact h i (Or.inl (List.mem_cons_of_mem _ hi))
      · exact h i (Or.inr (mem_filter_ne.mp hi).1))
    simp only [GG, e1, e2, e3]

/-! ### the cost of a completion -/

/-- the first department of a completion is in the domain, the rest is a completion of the next state -/
theorem vpath_cons {s : St} (hG : Good T s) {i : Nat} {q : List Nat} (h : VPath T s (i :: q)) :
    (i : Int) ∈ domain T s ∧ VPath T (stepSt T s i) q := by
  obtain ⟨hiq, hq'⟩ := List.nodup_cons.mp h.nodup
  have hmb := mbOf_stepSt T s i
  have hlen := h.len
  simp only [List.length_cons] at hlen
  constructor
  · refine (mem_domain T hG _).mpr ⟨i, rfl, ?_⟩
    rcases h.mem i List.mem_cons_self with hm | hy
    · exact Or.inl hm
    · refine Or.inr ⟨?_, hy⟩
      have hnm : i ∉ s.must := fun hc => hG.disj i hc hy
      have : s.must.length ≤ q.length := by
        apply List.Nodup.length_le_of_subset (pairwise_lt_nodup hG.must_sorted)
        intro j hj
        rcases List.mem_cons.mp (h.must j hj) with e | e
        · subst e; exact absurd hj hnm
        · exact e
      omega
  · refine ⟨hq', ?_, ?_, ?_⟩
    · intro j hj
      rw [stepSt_must] at hj
      obtain ⟨hj1, hj2⟩ := mem_filter_ne.mp hj
      rcases List.mem_cons.mp (h.must j hj1) with e | e
      · exact absurd e hj2
      · exact e
    · intro j hj
      have hji : j ≠ i := fun e => hiq (e ▸ hj)
      rcases h.mem j (List.mem_cons_of_mem _ hj) with hm | hy
      · exact Or.inl (by rw [stepSt_must]; exact mem_filter_ne.mpr ⟨hm, hji⟩)
      · exact Or.inr (by rw [hmb]; exact mem_filter_ne.mpr ⟨hy, hji⟩)
    · simp only [stepSt_depth]; omega

/-- the members of `must_place` on a completion -/
theorem vpath_filter_perm {s : St} (hG : Good T s) {q : List Nat} (h : VPath T s q) :
    (q.filter (fun i => s.must.contains i)).Perm s.must := by
  rw [List.perm_ext_iff_of_nodup (h.nodup.filter _) (pairwise_lt_nodup hG.must_sorted)]
  intro a
  simp only [List.mem_filter, List.contains_iff_mem]
  exact ⟨fun x => x.2, fun x => ⟨h.must a x, x⟩⟩

theorem vpath_nonM {s : St} (hG : Good T s) {q : List Nat} (h : VPath T s q) :
    nonM s.must q = T.n - s.depth - s.must.length := by
  have h1 := length_eq_filter_add_nonM s.must q
  have h2 := (vpath_filter_perm T hG h).length_eq
  have h3 := h.len
  omega

/-- **every completion of a good state costs at least `GG` (cuts) + `EE` (flows)** -/
theorem pathCost_le_GG_EE (hI : Inst T) : ∀ (q : List Nat) (s : St), Good T s → VPath T s q →
    GG (lenOf T) (cutAt s) s.must (mbOf s) q + EE (lenOf T) (flow T) s.must (mbOf s) q ≤ -(pathCost T s q) := by
  intro q
  induction q with
  | nil => intro s _ _; simp [GG, EE, pathCost]
  | cons i q ih =>
    intro s hG hp
    obtain ⟨hid, hp'⟩ := vpath_cons T hG hp
    obtain ⟨hiq, hq'⟩ := List.nodup_cons.mp hp.nodup
    have hG' := good_step T hI hG hid
    have hmb := mbOf_stepSt T s i
    have h1 := ih (stepSt T s i) hG' hp'
    rw [stepSt_must, hmb] at h1
    -- `M` without `i` reads like `M` on the rest of the path
    have hMc : ∀ j ∈ q, (s.must.filter (· ≠ i)).contains j = s.must.contains j := by
      intro j hj
      have hji : j ≠ i := fun e => hiq (e ▸ hj)
      rw [Bool.eq_iff_iff]
      simp only [List.contains_iff_mem]
      exact ⟨fun x => (mem_filter_ne.mp x).1, fun x => mem_filter_ne.mpr ⟨x, hji⟩⟩
    rw [GG_congr_M _ _ _ s.must q _ hMc, EE_congr_M _ _ _ s.must q _ hMc] at h1
    -- the cuts of the next state
    have hmemq : ∀ j ∈ q, j ∈ s.must ∨ j ∈ (mbOf s).filter (· ≠ i) := by
      intro j hj
      have hji : j ≠ i := fun e => hiq (e ▸ hj)
      rcases hp.mem j (List.mem_cons_of_mem _ hj) with h | h
      · exact Or.inl h
      · exact Or.inr (mem_filter_ne.mpr ⟨h, hji⟩)
    have hcut : ∀ j, j ∈ q ∨ j ∈ (mbOf s).filter (· ≠ i) → cutAt (stepSt T s i) j = cutAt s j + flow T i j := by
      intro j hj
      have hj' : (j ∈ s.must ∨ j ∈ mbOf s) ∧ j ≠ i := by
        rcases hj with hj | hj
        · have hji : j ≠ i := fun e => hiq (e ▸ hj)
          exact ⟨hp.mem j (List.mem_cons_of_mem _ hj), hji⟩
        · exact ⟨Or.inr (mem_filter_ne.mp hj).1, (mem_filter_ne.mp hj).2⟩
      rw [cutAt_step T hG, if_neg hj'.2, if_pos hj'.1]
    have hlq : ∀ j ∈ q, 0 ≤ lenOf T j := by
      intro j hj
      exact Int.le_of_lt (hI.len_pos j (hG.lt j (hp.mem j (List.mem_cons_of_mem _ hj))))
    have h2 := GG_add_le (lenOf T) (cutAt s) (flow T i) (cutAt (stepSt T s i)) s.must q ((mbOf s).filter (· ≠ i)) hq'
      ((pairwise_lt_nodup hG.maybe_sorted).filter _) hmemq hlq hcut
    -- the cost of the step
    have hc := cost_nat T hI hG hid s.depth
    have hperm := vpath_filter_perm T hG' hp'
    rw [stepSt_must, List.filter_congr (fun j hj => hMc j hj)] at hperm
    have hs : sum ((s.must.filter (· ≠ i)).map (cutAt s)) = ((q.filter (fun j => s.must.contains j)).map (cutAt s)).sum := by
      rw [sum_eq]
      exact perm_sum_eq (hperm.symm.map _)
    have hn := vpath_nonM T hG' hp'
    simp only [stepSt_must, stepSt_depth] at hn
    have hn' : nonM s.must q = T.n - (s.depth + 1) - (s.must.filter (· ≠ i)).length := by
      rw [← hn]
      unfold nonM
      rw [List.filter_congr (fun j hj => by rw [← hMc j hj])]
    rw [hs, ← hn'] at hc
    simp only [GG, EE, pathCost, hc]
    generalize ((q.filter (fun j => s.must.contains j)).map (cutAt s)).sum = A at *
    generalize leastSum (nonM s.must q) (((mbOf s).filter (· ≠ i)).map (cutAt s)) = B at *
    generalize lenOf T i = L at *
    have e : -(-(A + B) * L + pathCost T (stepSt T s i) q) = L * (A + B) - pathCost T (stepSt T s i) q := by
      rw [Int.neg_add, Int.neg_mul, Int.neg_neg, Int.mul_comm]; omega
    rw [e]
    omega

#print axioms bestRemF_le_vpaths
#print axioms pathCost_le_GG_EE

end Ddo.Examples.SrflpModel
