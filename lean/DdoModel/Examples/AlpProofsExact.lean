import DdoModel.Examples.AlpProofsWf
import DdoModel.Props.C16
/-! alp example, exactness of the DP model (1): the value-to-go `bestRem` of a state is the best worth of a SCHEDULE of
    the aircraft the state has still to land.

A schedule (`Sched`) of the aircraft left in `rem` on the physical runways `ph` is a list of events (aircraft, physical
runway, landing time), listing every remaining aircraft once, such that every aircraft lands inside its window, no
earlier than it could as the NEXT landing on its runway in state `ph`, and separated from ALL the events listed before
it on its runway — any aircraft order, any order inside a class.  `Sched` is the declarative problem of the
specification (`Ddo.C16.AlpD.Feasible`) relative to a state.

* `sched_le_best` (the exchange argument): every schedule is worth at most the value-to-go.  The earliest event of the
  schedule (the first listed among the earliest) is answered by the model landing the FIRST remaining aircraft `f` of the
  same class on the same runway; in the rest of the schedule `f` is replaced by the aircraft that landed (`ren`): since
  within a class targets and latest times are sorted, `f` fits in the earlier slot and the other aircraft in the later one;
* `best_sched`: the value-to-go is attained by a schedule.  The model separates a landing from the LAST landing of the
  runway only; separation from all the earlier ones follows from the triangle inequality (`arrP_skip`);
* the runways of a state are sorted, those of a schedule are physical: the two lists are permutations of each other and
  `sortRw_eq_of_perm` / `set_perm_of_perm` identify the successors. -/
namespace Ddo.Examples.AlpModel
open Ddo Ddo.Examples Ddo.Examples.Util

variable (I : Inst)

-- ------------------------------------------------------------------------------------------------------------------
-- the input domain: sorted classes

/-- what `InDom` left out of `inDomain`: the lists have the announced length; within a class targets and latest times are
    sorted in file order -/
structure InDomS : Prop where
  len : I.classes.length = I.nbAircraft
  sorted : ∀ a b, a < b → b < I.nbAircraft → I.cls a = I.cls b → I.tgt a ≤ I.tgt b ∧ I.lat a ≤ I.lat b

theorem inDomS_of (h : I.inDomain = true) : InDomS I := by
  simp only [Inst.inDomain, Bool.and_eq_true, List.all_eq_true, List.mem_range, decide_eq_true_eq] at h
  obtain ⟨⟨⟨⟨⟨h0, _⟩, _⟩, _⟩, h2⟩, _⟩ := h
  refine ⟨h0, ?_⟩
  intro a b hab hb hc
  have := h2 a (by omega) b hb
  simp only [Bool.or_eq_true, Bool.not_eq_true', Bool.and_eq_false_iff, decide_eq_false_iff_not, Bool.and_eq_true,
    decide_eq_true_eq, beq_eq_false_iff_ne] at this
  rcases this with (h | h) | h
  · exact absurd hab h
  · exact absurd hc h
  · exact h

/-- the aircraft of class `c`, in file order -/
def cl (c : Nat) : List Nat := (List.range I.nbAircraft).filter (fun a => I.cls a == c)

theorem nextTab_eq (c : Nat) : I.nextTab c = 0 :: (cl I c).reverse := rfl

theorem nextTab_succ_eq (c k : Nat) : (I.nextTab c)[k + 1]? = (cl I c).reverse[k]? := by
  rw [nextTab_eq, List.getElem?_cons_succ]

theorem mem_cl {c a : Nat} : a ∈ cl I c ↔ a < I.nbAircraft ∧ I.cls a = c := by
  unfold cl
  rw [List.mem_filter, List.mem_range]
  simp

theorem rev_dec (c : Nat) {i j x y : Nat} (hij : i < j) (hx : (cl I c).reverse[i]? = some x)
    (hy : (cl I c).reverse[j]? = some y) : y < x := by
  have hp : (cl I c).reverse.Pairwise (· > ·) := by
    rw [List.pairwise_reverse]
    exact List.Pairwise.filter _ List.pairwise_lt_range
  rw [List.pairwise_iff_getElem] at hp
  obtain ⟨hi, ex⟩ := List.getElem?_eq_some_iff.mp hx
  obtain ⟨hj, ey⟩ := List.getElem?_eq_some_iff.mp hy
  have := hp i j hi hj hij
  rw [ex, ey] at this
  exact this

/-- aircraft `a` is still to land in a state with `rem` -/
def RemAc (rem : List Nat) (a : Nat) : Prop :=
  ∃ j k, rem[I.cls a]? = some k ∧ j < k ∧ (cl I (I.cls a)).reverse[j]? = some a

/-- no class has more aircraft left than it has aircraft -/
def RemOk (rem : List Nat) : Prop := ∀ c k, rem[c]? = some k → k ≤ (cl I c).length

theorem RemAc.lt {rem : List Nat} {a : Nat} (h : RemAc I rem a) : a < I.nbAircraft := by
  obtain ⟨j, k, _, _, e⟩ := h
  exact ((mem_cl I).mp (List.mem_reverse.mp (List.mem_of_getElem? e))).1

/-- the first aircraft of the class of a remaining aircraft -/
theorem RemAc.first {rem : List Nat} (hR : RemOk I rem) {a : Nat} (h : RemAc I rem a) :
    ∃ k' f, rem[I.cls a]? = some (k' + 1) ∧ (I.nextTab (I.cls a))[k' + 1]? = some f ∧ f ≤ a ∧ I.cls f = I.cls a ∧
      RemAc I rem f := by
  obtain ⟨j, k, hk, hj, e⟩ := h
  obtain ⟨k', rfl⟩ : ∃ k', k = k' + 1 := ⟨k - 1, by omega⟩
  have hlen := hR _ _ hk
  have hk' : k' < (cl I (I.cls a)).reverse.length := by rw [List.length_reverse]; omega
  have ef : (cl I (I.cls a)).reverse[k']? = some ((cl I (I.cls a)).reverse[k']) := List.getElem?_eq_getElem hk'
  have hcf : I.cls ((cl I (I.cls a)).reverse[k']) = I.cls a :=
    ((mem_cl I).mp (List.mem_reverse.mp (List.mem_of_getElem? ef))).2
  refine ⟨k', _, hk, by rw [nextTab_succ_eq]; exact ef, ?_, hcf, ?_⟩
  · by_cases hjk : j = k'
    · rw [hjk, ef] at e; exact Nat.le_of_eq (Option.some.inj e)
    · exact Nat.le_of_lt (rev_dec I _ (by omega) e ef)
  · exact ⟨k', k' + 1, by rw [hcf]; exact hk, by omega, by rw [hcf]; exact ef⟩

/-- the first aircraft of a class with aircraft left -/
theorem first_exists {rem : List Nat} (hR : RemOk I rem) {c k' : Nat} (hk : rem[c]? = some (k' + 1)) :
    ∃ f, (I.nextTab c)[k' + 1]? = some f ∧ RemAc I rem f := by
  have hlen := hR _ _ hk
  have hk' : k' < (cl I c).reverse.length := by rw [List.length_reverse]; omega
  have ef : (cl I c).reverse[k']? = some ((cl I c).reverse[k']) := List.getElem?_eq_getElem hk'
  have hcf : I.cls ((cl I c).reverse[k']) = c := ((mem_cl I).mp (List.mem_reverse.mp (List.mem_of_getElem? ef))).2
  exact ⟨_, by rw [nextTab_succ_eq]; exact ef, k', k' + 1, by rw [hcf]; exact hk, by omega, by rw [hcf]; exact ef⟩

/-- landing the first aircraft of a class removes it, and nothing else, from the aircraft left -/
theorem remAc_set {rem : List Nat} {c k' f : Nat} (hk : rem[c]? = some (k' + 1))
    (ha : (I.nextTab c)[k' + 1]? = some f) (b : Nat) : RemAc I (rem.set c k') b ↔ RemAc I rem b ∧ b ≠ f := by
  have hc : c < rem.length := lt_of_getElem?_some hk
  have hcf := (nextTab_succ I ha).2
  rw [nextTab_succ_eq] at ha
  constructor
  · rintro ⟨j, k, hk2, hj, e⟩
    by_cases hcb : I.cls b = c
    · rw [hcb] at hk2 e
      rw [List.getElem?_set_self hc] at hk2
      have ek : k = k' := (Option.some.inj hk2).symm
      subst ek
      refine ⟨⟨j, k + 1, by rw [hcb]; exact hk, by omega, by rw [hcb]; exact e⟩, ?_⟩
      have := rev_dec I c hj e ha
      omega
    · rw [List.getElem?_set_ne (Ne.symm hcb)] at hk2
      exact ⟨⟨j, k, hk2, hj, e⟩, fun e' => hcb (by rw [e', hcf])⟩
  · rintro ⟨⟨j, k, hk2, hj, e⟩, hne⟩
    by_cases hcb : I.cls b = c
    · rw [hcb] at hk2 e
      rw [hk] at hk2
      have ek : k = k' + 1 := (Option.some.inj hk2).symm
      subst ek
      have hjk : j ≠ k' := by
        intro e'
        subst e'
        rw [ha] at e
        cases e
        exact hne rfl
      exact ⟨j, k', by rw [hcb, List.getElem?_set_self hc], by omega, by rw [hcb]; exact e⟩
    · exact ⟨j, k, by rw [List.getElem?_set_ne (Ne.symm hcb)]; exact hk2, hj, e⟩

theorem remOk_set {rem : List Nat} (hR : RemOk I rem) {c k' : Nat} (hk : rem[c]? = some (k' + 1)) :
    RemOk I (rem.set c k') := by
  intro c2 k2 h2
  have hc : c < rem.length := lt_of_getElem?_some hk
  by_cases e : c = c2
  · subst e
    rw [List.getElem?_set_self hc] at h2
    cases h2
    have := hR _ _ hk
    omega
  · rw [List.getElem?_set_ne e] at h2
    exact hR _ _ h2

theorem not_remAc_of_zero {s : St} (h0 : totRem s = 0) (a : Nat) : ¬ RemAc I s.1 a := by
  rintro ⟨j, k, hk, hj, _⟩
  have := (totRem_zero_iff s).mp h0 k (List.mem_of_getElem? hk)
  omega

/-- a state with aircraft left has a class with aircraft left -/
theorem exists_pos_of_tot {s : St} (h : totRem s ≠ 0) : ∃ (c k' : Nat), s.1[c]? = some (k' + 1) := by
  apply Classical.byContradiction
  intro hno
  apply h
  rw [totRem_zero_iff]
  intro k hk
  obtain ⟨c, hc⟩ := List.mem_iff_getElem?.mp hk
  cases k with
  | zero => rfl
  | succ k' => exact absurd ⟨c, k', hc⟩ hno

-- ------------------------------------------------------------------------------------------------------------------
-- schedules

/-- a landing: aircraft, physical runway, time -/
structure Ev where
  ac : Nat
  rw : Nat
  t : Int

/-- total delay -/
def cost (σ : List Ev) : Int := (σ.map (fun e => e.t - I.tgt e.ac)).sum

theorem cost_nil : cost I [] = 0 := rfl
theorem cost_cons (e : Ev) (σ : List Ev) : cost I (e :: σ) = (e.t - I.tgt e.ac) + cost I σ := by
  simp [cost]
theorem cost_append (l1 l2 : List Ev) : cost I (l1 ++ l2) = cost I l1 + cost I l2 := by
  simp [cost]

/-- the state of physical runway `r` -/
def phAt (ph : List Rw) (r : Nat) : Rw := (ph[r]?).getD (0, -1)

/-- a schedule of the aircraft left in `rem` from the runways `ph` -/
structure Sched (rem : List Nat) (ph : List Rw) (σ : List Ev) : Prop where
  nodup : (σ.map Ev.ac).Nodup
  mem : ∀ a, a ∈ σ.map Ev.ac ↔ RemAc I rem a
  ok : ∀ e ∈ σ, e.rw < I.nbRunways ∧ e.t ≤ I.lat e.ac ∧ arrP I (phAt ph e.rw) e.ac ≤ e.t
  sep : σ.Pairwise (fun e e' => e.rw = e'.rw → e.t + I.sepAt (I.cls e.ac) (I.cls e'.ac) ≤ e'.t)

/-- rename aircraft `f` into `g` -/
def ren (f g : Nat) (e : Ev) : Ev := if e.ac = f then { e with ac := g } else e

theorem ren_rw (f g : Nat) (e : Ev) : (ren f g e).rw = e.rw := by unfold ren; split <;> rfl
theorem ren_t (f g : Nat) (e : Ev) : (ren f g e).t = e.t := by unfold ren; split <;> rfl
theorem ren_ac (f g : Nat) (e : Ev) : (ren f g e).ac = if e.ac = f then g else e.ac := by unfold ren; split <;> rfl

theorem ren_cls {f g : Nat} (h : I.cls g = I.cls f) (e : Ev) : I.cls (ren f g e).ac = I.cls e.ac := by
  rw [ren_ac]
  split
  · next h' => rw [h, h']
  · rfl

theorem cost_ren (f g : Nat) : ∀ (σ : List Ev), (σ.map Ev.ac).Nodup →
    cost I (σ.map (ren f g)) = cost I σ + (if f ∈ σ.map Ev.ac then I.tgt f - I.tgt g else 0) := by
  intro σ
  induction σ with
  | nil => intro _; simp [cost]
  | cons e r ih =>
    intro hnd
    simp only [List.map_cons, List.nodup_cons] at hnd
    rw [List.map_cons, cost_cons, cost_cons, ih hnd.2, ren_t, ren_ac]
    by_cases he : e.ac = f
    · have hf : f ∉ r.map Ev.ac := by rw [← he]; exact hnd.1
      simp only [he, if_true, hf, if_false, List.map_cons, List.mem_cons, true_or]
      omega
    · have h1 : (f ∈ (e :: r).map Ev.ac) ↔ f ∈ r.map Ev.ac := by
        simp only [List.map_cons, List.mem_cons]
        constructor
        · rintro (h | h)
          · exact absurd h.symm he
          · exact h
        · exact Or.inr
      simp only [he, if_false, h1]
      omega

/-- the first listed among the earliest events -/
theorem exists_min_first : ∀ (σ : List Ev), σ ≠ [] →
    ∃ l1 z l2, σ = l1 ++ z :: l2 ∧ (∀ e ∈ l1, z.t < e.t) ∧ (∀ e ∈ l2, z.t ≤ e.t) := by
  intro σ
  induction σ with
  | nil => intro h; exact absurd rfl h
  | cons x r ih =>
    intro _
    by_cases hr : r = []
    · subst hr
      exact ⟨[], x, [], rfl, by simp, by simp⟩
    · obtain ⟨l1, z, l2, rfl, h1, h2⟩ := ih hr
      by_cases hx : x.t ≤ z.t
      · refine ⟨[], x, l1 ++ z :: l2, rfl, by simp, ?_⟩
        intro e he
        rcases List.mem_append.mp he with h | h
        · have := h1 e h; omega
        · rcases List.mem_cons.mp h with rfl | h
          · exact hx
          · have := h2 e h; omega
      · refine ⟨x :: l1, z, l2, rfl, ?_, h2⟩
        intro e he
        rcases List.mem_cons.mp he with rfl | h
        · omega
        · exact h1 e h

/-- updating matched entries of two lists with the same content -/
theorem set_perm_of_perm {α : Type} {l1 l2 : List α} (h : l1.Perm l2) {i j : Nat} (hi : i < l1.length)
    (hj : j < l2.length) (e : l1[i] = l2[j]) (x : α) : (l1.set i x).Perm (l2.set j x) := by
  have h1 := self_perm_eraseIdx l1 i hi
  have h2 := self_perm_eraseIdx l2 j hj
  rw [e] at h1
  have h3 : (l1.eraseIdx i).Perm (l2.eraseIdx j) := (h1.symm.trans (h.trans h2)).cons_inv
  exact (set_perm l1 i hi x).trans ((List.Perm.cons x h3).trans (set_perm l2 j hj x).symm)

/-- the arrival time depends on the aircraft through its class and its target time only -/
theorem arrP_same_cls (p : Rw) {a b : Nat} (hc : I.cls a = I.cls b) {x : Int} (hb : I.tgt b ≤ x)
    (ha : arrP I p a ≤ x) : arrP I p b ≤ x := by
  unfold arrP at ha ⊢
  rw [hc] at ha
  split
  · exact hb
  · next h1 =>
    simp only [h1, if_false] at ha
    split
    · next h2 => simp only [h2, if_true] at ha; omega
    · next h2 => simp only [h2, if_false] at ha; omega

theorem phAt_set_self {ph : List Rw} {r : Nat} (h : r < ph.length) (x : Rw) : phAt (ph.set r x) r = x := by
  unfold phAt; rw [List.getElem?_set_self h]; rfl

theorem phAt_set_ne {ph : List Rw} {r r2 : Nat} (h : r ≠ r2) (x : Rw) : phAt (ph.set r x) r2 = phAt ph r2 := by
  unfold phAt; rw [List.getElem?_set_ne h]

theorem phAt_mem {ph : List Rw} {r : Nat} (h : r < ph.length) : phAt ph r ∈ ph := by
  unfold phAt; rw [List.getElem?_eq_getElem h]; exact List.getElem_mem h

theorem phAt_eq {ph : List Rw} {r : Nat} (h : r < ph.length) : phAt ph r = ph[r] := by
  unfold phAt; rw [List.getElem?_eq_getElem h]; rfl

-- ------------------------------------------------------------------------------------------------------------------
-- every schedule is worth at most the value-to-go (the exchange argument)

theorem sched_nil_of_zero {s : St} {ph : List Rw} {σ : List Ev} (h0 : totRem s = 0) (hσ : Sched I s.1 ph σ) :
    σ = [] := by
  cases σ with
  | nil => rfl
  | cons e r => exact absurd ((hσ.mem e.ac).mp (by simp)) (not_remAc_of_zero I h0 _)

theorem tot_zero_of_sched_nil {s : St} {ph : List Rw} (hR : RemOk I s.1) (hσ : Sched I s.1 ph []) : totRem s = 0 := by
  apply Classical.byContradiction
  intro h
  obtain ⟨c, k', hk⟩ := exists_pos_of_tot h
  obtain ⟨f, _, hf⟩ := first_exists I hR hk
  have := (hσ.mem f).mpr hf
  simp at this

theorem some_neg_zero_le : ((some (-(0 : Int))) : EInt) ≤ some 0 := (EInt.some_le_some _ _).mpr (by omega)

theorem sched_le_best (hD : InDom I) (hS : InDomS I) : ∀ (fuel : Nat) (s : St) (ph : List Rw) (σ : List Ev),
    StW I s → RemOk I s.1 → s.2.Perm ph → totRem s ≤ fuel → Sched I s.1 ph σ →
    (some (-(cost I σ)) : EInt) ≤ bestRem I fuel s := by
  intro fuel
  induction fuel with
  | zero =>
    intro s ph σ hW hR hp hf hσ
    have h0 : totRem s = 0 := by omega
    rw [sched_nil_of_zero I h0 hσ, bestRem_zero_tot I h0, cost_nil]
    exact some_neg_zero_le
  | succ fuel ih =>
    intro s ph σ hW hR hp hf hσ
    by_cases hne : σ = []
    · subst hne
      have h0 := tot_zero_of_sched_nil I hR hσ
      rw [bestRem_zero_tot I h0, cost_nil]
      exact some_neg_zero_le
    · obtain ⟨l1, z, l2, rfl, hl1, hl2⟩ := exists_min_first σ hne
      have hzmem : z ∈ l1 ++ z :: l2 := by simp
      have hsub : ∀ e, e ∈ l1 ++ l2 → e ∈ l1 ++ z :: l2 := by
        intro e he
        rcases List.mem_append.mp he with h | h
        · exact List.mem_append_left _ h
        · exact List.mem_append_right _ (List.mem_cons_of_mem _ h)
      have hzle : ∀ e, e ∈ l1 ++ z :: l2 → z.t ≤ e.t := by
        intro e he
        rcases List.mem_append.mp he with h | h
        · exact Int.le_of_lt (hl1 e h)
        · rcases List.mem_cons.mp h with rfl | h
          · exact Int.le_refl _
          · exact hl2 e h
      have hzR : RemAc I s.1 z.ac := (hσ.mem z.ac).mp (List.mem_map_of_mem hzmem)
      have hzn : z.ac < I.nbAircraft := hzR.lt
      obtain ⟨k', f, hk, ha, hfle, hcf, hfR⟩ := hzR.first I hR
      have hTL : I.tgt f ≤ I.tgt z.ac ∧ I.lat f ≤ I.lat z.ac := by
        by_cases e : f = z.ac
        · rw [e]; exact ⟨Int.le_refl _, Int.le_refl _⟩
        · exact hS.sorted f z.ac (by omega) hzn hcf
      generalize hc : I.cls z.ac = c at hk ha hcf
      obtain ⟨hzr, hzl, hza⟩ := hσ.ok z hzmem
      have hρ : z.rw < ph.length := by rw [← hp.length_eq, hW.2.1]; exact hzr
      have hpm : phAt ph z.rw ∈ s.2 := hp.mem_iff.mpr (phAt_mem hρ)
      obtain ⟨j, hj, ej⟩ := List.mem_iff_getElem.mp hpm
      have erw : rwAt s j = phAt ph z.rw := by
        unfold rwAt; rw [List.getElem?_eq_getElem hj]; exact ej
      have hjr : j < I.nbRunways := by rw [← hW.2.1]; exact hj
      have hall_n : ∀ e, e ∈ l1 ++ z :: l2 → e.ac < I.nbAircraft :=
        fun e he => ((hσ.mem e.ac).mp (List.mem_map_of_mem he)).lt
      -- the event of `f`
      obtain ⟨ef, hef, efac⟩ := List.mem_map.mp ((hσ.mem f).mpr hfR)
      have hefl := (hσ.ok ef hef).2.1
      rw [efac] at hefl
      have hzef := hzle ef hef
      have hTz : I.tgt z.ac ≤ z.t := Int.le_trans (tgt_le_arrP I _ _) hza
      have harrf : arrP I (phAt ph z.rw) f ≤ z.t := arrP_same_cls I _ (hc.trans hcf.symm) (by omega) hza
      have hl : arrP I (rwAt s j) f ≤ I.lat f := by rw [erw]; omega
      have hmove := bestRem_ge_move I hD hW hk ha hjr hl fuel hf
      have hW' := stW_land I hD hW hk ha (r := j)
      have hR' : RemOk I (land I s c j f k').1 := remOk_set I hR hk
      have hp' : (land I s c j f k').2.Perm (ph.set z.rw (arrP I (rwAt s j) f, (c : Int))) := by
        show (sortRw (s.2.set j _)).Perm _
        refine (sortRw_perm _).trans ?_
        exact set_perm_of_perm hp hj hρ (by rw [ej, phAt_eq hρ]) _
      have htot' : totRem (land I s c j f k') ≤ fuel := by
        have := totRem_land I s j f hk; omega
      -- the rest of the schedule
      obtain ⟨hp1, hp2, hp12⟩ := List.pairwise_append.mp hσ.sep
      obtain ⟨hpz, hp2'⟩ := List.pairwise_cons.mp hp2
      have hafter : ∀ e, e ∈ l1 ++ l2 → e.rw = z.rw → z.t + I.sepAt c (I.cls e.ac) ≤ e.t := by
        intro e he hrw
        rcases List.mem_append.mp he with h | h
        · have h1 := hp12 e h z (List.mem_cons_self ..) hrw
          have h2 := hl1 e h
          have h3 := hD.sep_nn (I.cls e.ac) (I.cls z.ac) (hD.cls_lt _ (hall_n e (hsub e he))) (hD.cls_lt _ hzn)
          omega
        · have := hpz e h hrw.symm
          rw [hc] at this; exact this
      have hnd0 : (z.ac :: (l1 ++ l2).map Ev.ac).Nodup := by
        have : ((l1 ++ z :: l2).map Ev.ac).Perm (z.ac :: (l1 ++ l2).map Ev.ac) := by
          simp only [List.map_append, List.map_cons]; exact List.perm_middle
        exact this.nodup hσ.nodup
      obtain ⟨hznot, hnd12⟩ := List.nodup_cons.mp hnd0
      have hmem12 : ∀ a, a ∈ (l1 ++ l2).map Ev.ac ↔ RemAc I s.1 a ∧ a ≠ z.ac := by
        intro a
        constructor
        · intro h
          obtain ⟨e, he, rfl⟩ := List.mem_map.mp h
          exact ⟨(hσ.mem e.ac).mp (List.mem_map_of_mem (hsub e he)), fun e' => hznot (e' ▸ h)⟩
        · rintro ⟨h, hne⟩
          obtain ⟨e, he, rfl⟩ := List.mem_map.mp ((hσ.mem a).mpr h)
          rcases List.mem_append.mp he with h' | h'
          · exact List.mem_map_of_mem (List.mem_append_left _ h')
          · rcases List.mem_cons.mp h' with rfl | h'
            · exact absurd rfl hne
            · exact List.mem_map_of_mem (List.mem_append_right _ h')
      have hcz : I.cls z.ac = I.cls f := hc.trans hcf.symm
      have hσ' : Sched I (land I s c j f k').1 (ph.set z.rw (arrP I (rwAt s j) f, (c : Int)))
          ((l1 ++ l2).map (ren f z.ac)) := by
        refine ⟨?_, ?_, ?_, ?_⟩
        · rw [List.map_map]
          refine List.pairwise_map.mpr ?_
          have h0 : (l1 ++ l2).Pairwise (fun a b => a.ac ≠ b.ac) := List.pairwise_map.mp hnd12
          refine List.Pairwise.imp_of_mem ?_ h0
          intro a b hma hmb hab
          show (ren f z.ac a).ac ≠ (ren f z.ac b).ac
          rw [ren_ac, ren_ac]
          have ha' : a.ac ∈ (l1 ++ l2).map Ev.ac := List.mem_map_of_mem hma
          have hb' : b.ac ∈ (l1 ++ l2).map Ev.ac := List.mem_map_of_mem hmb
          by_cases h1 : a.ac = f <;> by_cases h2 : b.ac = f <;> simp only [h1, h2, if_true, if_false]
          · exact fun _ => hab (h1.trans h2.symm)
          · exact fun e => hznot (e ▸ hb')
          · exact fun e => hznot (e ▸ ha')
          · exact hab
        · intro a
          show a ∈ ((l1 ++ l2).map (ren f z.ac)).map Ev.ac ↔ RemAc I (s.1.set c k') a
          rw [remAc_set I hk ha]
          constructor
          · intro h
            obtain ⟨e'', he'', rfl⟩ := List.mem_map.mp h
            obtain ⟨e, he, rfl⟩ := List.mem_map.mp he''
            have hmm : e.ac ∈ (l1 ++ l2).map Ev.ac := List.mem_map_of_mem he
            rw [ren_ac]
            by_cases h1 : e.ac = f
            · simp only [h1, if_true]
              exact ⟨hzR, fun e' => hznot (by rw [e', ← h1]; exact hmm)⟩
            · simp only [h1, if_false]
              exact ⟨((hmem12 e.ac).mp hmm).1, h1⟩
          · rintro ⟨h, hne⟩
            by_cases h1 : a = z.ac
            · have hfz : f ≠ z.ac := fun e' => hne (h1.trans e'.symm)
              obtain ⟨e, he, hea⟩ := List.mem_map.mp ((hmem12 f).mpr ⟨hfR, hfz⟩)
              refine List.mem_map.mpr ⟨ren f z.ac e, List.mem_map_of_mem he, ?_⟩
              rw [ren_ac, hea, if_pos rfl, h1]
            · obtain ⟨e, he, hea⟩ := List.mem_map.mp ((hmem12 a).mpr ⟨h, h1⟩)
              refine List.mem_map.mpr ⟨ren f z.ac e, List.mem_map_of_mem he, ?_⟩
              rw [ren_ac, hea, if_neg hne]
        · intro e'' he''
          obtain ⟨e, he, rfl⟩ := List.mem_map.mp he''
          obtain ⟨her, hel, hea⟩ := hσ.ok e (hsub e he)
          have hze := hzle e (hsub e he)
          have hcb : I.cls (ren f z.ac e).ac = I.cls e.ac := ren_cls I hcz e
          have hb : I.tgt (ren f z.ac e).ac ≤ e.t ∧ e.t ≤ I.lat (ren f z.ac e).ac ∧
              (∀ q, arrP I q e.ac ≤ e.t → arrP I q (ren f z.ac e).ac ≤ e.t) := by
            rw [ren_ac]
            by_cases h1 : e.ac = f
            · simp only [h1, if_true]
              rw [h1] at hel
              refine ⟨by omega, by omega, ?_⟩
              intro q hq
              exact arrP_same_cls I q hcz.symm (by omega) hq
            · simp only [h1, if_false]
              exact ⟨Int.le_trans (tgt_le_arrP I _ _) hea, hel, fun q hq => hq⟩
          rw [ren_rw, ren_t]
          refine ⟨her, hb.2.1, ?_⟩
          by_cases hrw : e.rw = z.rw
          · rw [hrw, phAt_set_self hρ, arrP_known, hcb]
            have h1 := hafter e he hrw
            have h2 := hb.1
            rw [erw]
            omega
          · rw [phAt_set_ne (Ne.symm hrw)]
            exact hb.2.2 _ hea
        · refine List.Pairwise.map (ren f z.ac) ?_
            (List.pairwise_append.mpr ⟨hp1, hp2', fun a ha b hb => hp12 a ha b (List.mem_cons_of_mem _ hb)⟩)
          intro a b h
          rw [ren_rw, ren_rw, ren_t, ren_t, ren_cls I hcz, ren_cls I hcz]
          exact h
      have hih := ih _ _ _ hW' hR' hp' htot' hσ'
      refine EInt.le_trans ?_ hmove
      refine EInt.le_trans ?_ (addI_mono hih (Int.le_refl _))
      show (some _ : EInt) ≤ some (_ + _)
      apply (EInt.some_le_some _ _).mpr
      rw [cost_ren I f z.ac _ hnd12, cost_append, cost_append, cost_cons, erw]
      by_cases hfin : f ∈ (l1 ++ l2).map Ev.ac
      · simp only [hfin, if_true]
        omega
      · simp only [hfin, if_false]
        have e : f = z.ac := by
          apply Classical.byContradiction
          intro hne'
          exact hfin ((hmem12 f).mpr ⟨hfR, hne'⟩)
        have eT : I.tgt f = I.tgt z.ac := by rw [e]
        omega

-- ------------------------------------------------------------------------------------------------------------------
-- the value-to-go is attained by a schedule (separation from the last landing only: the triangle inequality)

theorem sched_nil {s : St} (ph : List Rw) (h0 : totRem s = 0) : Sched I s.1 ph [] :=
  ⟨List.nodup_nil, fun a => ⟨(fun h => by cases h), fun h => absurd h (not_remAc_of_zero I h0 a)⟩,
   (fun _ h => by cases h), List.Pairwise.nil⟩

theorem best_sched (hD : InDom I) : ∀ (fuel : Nat) (s : St) (ph : List Rw) (v : Int),
    StW I s → RemOk I s.1 → s.2.Perm ph → totRem s ≤ fuel → bestRem I fuel s = some v →
    ∃ σ, Sched I s.1 ph σ ∧ cost I σ = -v := by
  intro fuel
  induction fuel with
  | zero =>
    intro s ph v hW hR hp hf hv
    have h0 : totRem s = 0 := by omega
    rw [bestRem_zero_tot I h0] at hv
    have ev : v = 0 := (Option.some.inj hv).symm
    exact ⟨[], sched_nil I ph h0, by rw [ev, cost_nil]; rfl⟩
  | succ fuel ih =>
    intro s ph v hW hR hp hf hv
    by_cases h0 : totRem s = 0
    · rw [bestRem_zero_tot I h0] at hv
      have ev : v = 0 := (Option.some.inj hv).symm
      exact ⟨[], sched_nil I ph h0, by rw [ev, cost_nil]; rfl⟩
    · rw [bestRem_succ, domain_ne I (by omega)] at hv
      simp only [Bool.false_eq_true, if_false] at hv
      rcases foldl_emax_attained _ _ _ _ hv with e | ⟨d, hd, e⟩
      · cases e
      · rcases moveVal_domain I hW.1 hW.2.1 (by omega) fuel hd with e' | ⟨c, r, a, k', hk, ha, hr, hl, e'⟩
        · rw [e'] at e; cases e
        · rw [e'] at e
          cases hb : bestRem I fuel (land I s c r a k') with
          | none => rw [hb] at e; cases e
          | some v' =>
            rw [hb] at e
            have ev : v' + -(arrP I (rwAt s r) a - I.tgt a) = v := by simpa [EInt.addI] using e
            have hrs : r < s.2.length := by rw [hW.2.1]; exact hr
            have hm : s.2[r] ∈ ph := hp.mem_iff.mp (List.getElem_mem hrs)
            obtain ⟨ρ, hρ, eρ⟩ := List.mem_iff_getElem.mp hm
            have erw : rwAt s r = phAt ph ρ := by
              unfold rwAt; rw [List.getElem?_eq_getElem hrs, phAt_eq hρ, eρ]; rfl
            have hρr : ρ < I.nbRunways := by rw [← hW.2.1, hp.length_eq]; exact hρ
            have hp' : (land I s c r a k').2.Perm (ph.set ρ (arrP I (rwAt s r) a, (c : Int))) := by
              show (sortRw (s.2.set r _)).Perm _
              refine (sortRw_perm _).trans ?_
              exact set_perm_of_perm hp hrs hρ eρ.symm _
            have htot' : totRem (land I s c r a k') ≤ fuel := by
              have := totRem_land I s r a hk; omega
            obtain ⟨σ', hσ', hc'⟩ := ih _ _ v' (stW_land I hD hW hk ha (r := r)) (remOk_set I hR hk) hp' htot' hb
            obtain ⟨han, hca⟩ := nextTab_succ I ha
            have hset := remAc_set I hk ha
            have haR : RemAc I s.1 a := by
              obtain ⟨f, hf1, hf2⟩ := first_exists I hR hk
              rw [ha] at hf1
              rw [Option.some.inj hf1]; exact hf2
            have hmem' : ∀ b, b ∈ σ'.map Ev.ac ↔ RemAc I (s.1.set c k') b := hσ'.mem
            have hrwok : RwOk I (rwAt s r) := hW.2.2 _ (rwAt_mem hrs)
            have hok' : ∀ e ∈ σ', e.rw < I.nbRunways ∧ e.t ≤ I.lat e.ac ∧
                arrP I (phAt (ph.set ρ (arrP I (rwAt s r) a, (c : Int))) e.rw) e.ac ≤ e.t := hσ'.ok
            refine ⟨⟨a, ρ, arrP I (rwAt s r) a⟩ :: σ', ⟨?_, ?_, ?_, ?_⟩, ?_⟩
            · rw [List.map_cons]
              exact List.nodup_cons.mpr ⟨fun h => ((hset a).mp ((hmem' a).mp h)).2 rfl, hσ'.nodup⟩
            · intro b
              rw [List.map_cons, List.mem_cons]
              constructor
              · rintro (rfl | h)
                · exact haR
                · exact ((hset b).mp ((hmem' b).mp h)).1
              · intro h
                by_cases e : b = a
                · exact Or.inl e
                · exact Or.inr ((hmem' b).mpr ((hset b).mpr ⟨h, e⟩))
            · intro e he
              rcases List.mem_cons.mp he with rfl | he
              · refine ⟨hρr, hl, ?_⟩
                show arrP I (phAt ph ρ) a ≤ arrP I (rwAt s r) a
                rw [erw]; exact Int.le_refl _
              · obtain ⟨h1, h2, h3⟩ := hok' e he
                refine ⟨h1, h2, ?_⟩
                by_cases hrw : e.rw = ρ
                · rw [hrw, phAt_set_self hρ] at h3
                  have hen : e.ac < I.nbAircraft := ((hmem' e.ac).mp (List.mem_map_of_mem he)).lt
                  have hsk := arrP_skip I hD hrwok han hen
                  rw [hca] at hsk
                  rw [hrw, ← erw]
                  omega
                · rw [phAt_set_ne (Ne.symm hrw)] at h3
                  exact h3
            · refine List.pairwise_cons.mpr ⟨?_, hσ'.sep⟩
              intro e he hrw
              have hrw' : e.rw = ρ := hrw.symm
              obtain ⟨_, _, h3⟩ := hok' e he
              rw [hrw', phAt_set_self hρ, arrP_known] at h3
              show arrP I (rwAt s r) a + I.sepAt (I.cls a) (I.cls e.ac) ≤ e.t
              rw [hca]
              omega
            · rw [cost_cons, hc']
              show (arrP I (rwAt s r) a - I.tgt a) + -v' = -v
              omega

-- ------------------------------------------------------------------------------------------------------------------
-- the root: schedules from the initial state = solutions of the declarative problem of the specification

theorem count_cls (hS : InDomS I) (c : Nat) : (I.classes.take I.nbAircraft).count c = (cl I c).length := by
  have e1 : I.classes.take I.nbAircraft = I.classes := List.take_of_length_le (by rw [hS.len]; exact Nat.le_refl _)
  have e2 : I.classes = (List.range I.nbAircraft).map I.cls := by
    apply List.ext_getElem
    · simp [hS.len]
    · intro i h1 h2
      simp [Inst.cls, List.getElem?_eq_getElem h1]
  have e3 : List.count c I.classes = List.count c ((List.range I.nbAircraft).map I.cls) := congrArg _ e2
  rw [e1, e3, List.count_eq_countP, List.countP_map, List.countP_eq_length_filter]
  rfl

theorem init_rem (hS : InDomS I) {c : Nat} (hc : c < I.nbClasses) : (initState I).1[c]? = some (cl I c).length := by
  simp [initState, hc, count_cls I hS]

theorem remOk_init (hS : InDomS I) : RemOk I (initState I).1 := by
  intro c k h
  have hc : c < I.nbClasses := by
    have := lt_of_getElem?_some h
    simpa [initState] using this
  rw [init_rem I hS hc] at h
  rw [← Option.some.inj h]
  exact Nat.le_refl _

theorem remAc_init (hD : InDom I) (hS : InDomS I) (a : Nat) : RemAc I (initState I).1 a ↔ a < I.nbAircraft := by
  constructor
  · exact fun h => h.lt
  · intro ha
    have hm : a ∈ (cl I (I.cls a)).reverse := List.mem_reverse.mpr ((mem_cl I).mpr ⟨ha, rfl⟩)
    obtain ⟨j, hj, e⟩ := List.mem_iff_getElem.mp hm
    refine ⟨j, _, init_rem I hS (hD.cls_lt a ha), by rw [List.length_reverse] at hj; exact hj, ?_⟩
    rw [List.getElem?_eq_getElem hj, e]

theorem phAt_replicate (n r : Nat) : phAt (List.replicate n ((0, -1) : Rw)) r = (0, -1) := by
  unfold phAt
  by_cases h : r < n
  · simp [h]
  · simp [List.getElem?_eq_none (by simpa using h : (List.replicate n ((0, -1) : Rw)).length ≤ r)]

theorem arrP_empty (a : Nat) : arrP I (0, -1) a = I.tgt a := by
  unfold arrP; simp

open Ddo.C16 Ddo.SpecUtil in
/-- a solution of the declarative problem is a schedule from the initial state -/
theorem sched_of_feasible (hD : InDom I) (hS : InDomS I) {sol : (Nat → Nat) × (Nat → Int)}
    (h : AlpD.Feasible I.nbAircraft I.nbRunways I.specInst sol) :
    ∃ σ, Sched I (initState I).1 (List.replicate I.nbRunways (0, -1)) σ ∧
      cost I σ = AlpD.cost I.nbAircraft I.specInst sol := by
  obtain ⟨hrun, hwin, order, ho, hpair⟩ := h
  have hmemo : ∀ a, a ∈ order ↔ a < I.nbAircraft := fun a => ho.mem_iff.trans List.mem_range
  have hacs : (order.map (fun a => (⟨a, sol.1 a, sol.2 a⟩ : Ev))).map Ev.ac = order := by
    rw [List.map_map]
    exact List.map_id' _ |>.symm ▸ (List.map_congr_left (fun a _ => rfl))
  refine ⟨order.map (fun a => ⟨a, sol.1 a, sol.2 a⟩), ⟨?_, ?_, ?_, ?_⟩, ?_⟩
  · rw [hacs]; exact ho.nodup_iff.mpr List.nodup_range
  · intro a
    rw [hacs, hmemo, remAc_init I hD hS]
  · intro e he
    obtain ⟨a, ha, rfl⟩ := List.mem_map.mp he
    have han := (hmemo a).mp ha
    refine ⟨hrun a han, (hwin a han).2, ?_⟩
    show arrP I (phAt _ (sol.1 a)) a ≤ sol.2 a
    rw [phAt_replicate, arrP_empty]
    exact (hwin a han).1
  · exact List.pairwise_map.mpr hpair
  · unfold cost AlpD.cost
    rw [List.map_map, ← perm_range_sum ho]
    rfl

theorem find_ev : ∀ (σ : List Ev), (σ.map Ev.ac).Nodup → ∀ e ∈ σ, σ.find? (fun x => x.ac == e.ac) = some e := by
  intro σ
  induction σ with
  | nil => intro _ e he; cases he
  | cons x r ih =>
    intro hnd e he
    rw [List.map_cons, List.nodup_cons] at hnd
    rcases List.mem_cons.mp he with rfl | he
    · simp
    · have hne : x.ac ≠ e.ac := fun e' => hnd.1 (e' ▸ List.mem_map_of_mem he)
      rw [List.find?_cons]
      have : (x.ac == e.ac) = false := by simpa using hne
      rw [this]
      exact ih hnd.2 e he

open Ddo.C16 Ddo.SpecUtil in
/-- a schedule from the initial state is a solution of the declarative problem -/
theorem feasible_of_sched (hD : InDom I) (hS : InDomS I) {σ : List Ev}
    (h : Sched I (initState I).1 (List.replicate I.nbRunways (0, -1)) σ) :
    ∃ sol, AlpD.Feasible I.nbAircraft I.nbRunways I.specInst sol ∧
      AlpD.cost I.nbAircraft I.specInst sol = cost I σ := by
  let frw : Nat → Nat := fun a => ((σ.find? (fun x => x.ac == a)).map Ev.rw).getD 0
  let ft : Nat → Int := fun a => ((σ.find? (fun x => x.ac == a)).map Ev.t).getD 0
  have hfrw : ∀ e ∈ σ, frw e.ac = e.rw := fun e he => by
    show ((σ.find? (fun x => x.ac == e.ac)).map Ev.rw).getD 0 = e.rw
    rw [find_ev σ h.nodup e he]; rfl
  have hft : ∀ e ∈ σ, ft e.ac = e.t := fun e he => by
    show ((σ.find? (fun x => x.ac == e.ac)).map Ev.t).getD 0 = e.t
    rw [find_ev σ h.nodup e he]; rfl
  have hperm : (σ.map Ev.ac).Perm (List.range I.nbAircraft) :=
    (List.perm_ext_iff_of_nodup h.nodup List.nodup_range).mpr
      (fun a => ((h.mem a).trans (remAc_init I hD hS a)).trans List.mem_range.symm)
  have hev : ∀ a, a < I.nbAircraft → ∃ e ∈ σ, e.ac = a := by
    intro a ha
    obtain ⟨e, he, ea⟩ := List.mem_map.mp (hperm.mem_iff.mpr (List.mem_range.mpr ha))
    exact ⟨e, he, ea⟩
  refine ⟨(frw, ft), ⟨?_, ?_, σ.map Ev.ac, hperm, ?_⟩, ?_⟩
  · intro a ha
    obtain ⟨e, he, rfl⟩ := hev a ha
    show frw e.ac < _
    rw [hfrw e he]
    exact (h.ok e he).1
  · intro a ha
    obtain ⟨e, he, rfl⟩ := hev a ha
    show I.tgt e.ac ≤ ft e.ac ∧ ft e.ac ≤ I.lat e.ac
    rw [hft e he]
    obtain ⟨_, h2, h3⟩ := h.ok e he
    exact ⟨Int.le_trans (tgt_le_arrP I _ _) h3, h2⟩
  · refine List.pairwise_map.mpr (List.Pairwise.imp_of_mem ?_ h.sep)
    intro a b ha hb hab
    show frw a.ac = frw b.ac → ft a.ac + I.sepAt (I.cls a.ac) (I.cls b.ac) ≤ ft b.ac
    rw [hfrw a ha, hfrw b hb, hft a ha, hft b hb]
    exact hab
  · unfold cost AlpD.cost
    rw [← perm_range_sum hperm, List.map_map]
    congr 1
    apply List.map_congr_left
    intro e he
    show ft e.ac - I.tgt e.ac = e.t - I.tgt e.ac
    rw [hft e he]

/-- the delays of the schedules the specification enumerates -/
def specValues : List Int :=
  (Alp.perms (List.range I.nbAircraft)).flatMap (fun o =>
    (Alp.assignments I.nbRunways I.nbAircraft).filterMap (fun rs => Alp.delay I.specInst (o.zip rs) []))

theorem specExt_nil : specExt I [] = Alp.minimum (specValues I) := by
  unfold specExt specValues
  have ef : (List.range I.nbAircraft).filter (fun _ => true) = List.range I.nbAircraft :=
    List.filter_eq_self.mpr (fun _ _ => rfl)
  simp only [List.any_nil, Bool.not_false, List.nil_append, ef, List.length_range]

theorem spec_eq : Alp.spec I.nbAircraft I.nbRunways I.specInst = (Alp.minimum (specValues I)).getD (-1) := rfl

open Ddo.C16 Ddo.SpecUtil in
/-- **exactness of the DP model of the shipped alp example, at the root**: on every instance of the input domain the best
    total transition cost of a path of the model is minus the least total delay of the specification (`Alp.delay`: every
    order of the aircraft, every runway assignment, each landing as early as possible); `none` = no schedule -/
theorem root_exact (hdom : I.inDomain = true) : best I (initState I) = (specExt I []).map (fun d => -d) := by
  have hD := inDom_of I hdom
  have hS := inDomS_of I hdom
  have hW := stW_init I
  have hR := remOk_init I hS
  have hp : (initState I).2.Perm (List.replicate I.nbRunways ((0, -1) : Rw)) := List.Perm.refl _
  have hle : ∀ y ∈ specValues I, (some (-y) : EInt) ≤ best I (initState I) := by
    intro y hy
    obtain ⟨sol, hsol, hc⟩ := alp_sound I.nbAircraft I.nbRunways I.specInst y hy
    obtain ⟨σ, hσ, hcσ⟩ := sched_of_feasible I hD hS hsol
    have := sched_le_best I hD hS _ _ _ σ hW hR hp (Nat.le_refl _) hσ
    rw [hcσ, hc] at this
    exact this
  rw [specExt_nil, alp_minimum]
  cases hb : best I (initState I) with
  | none =>
    have : specValues I = [] := by
      cases hv : specValues I with
      | nil => rfl
      | cons y r =>
        have := hle y (by rw [hv]; exact List.mem_cons_self ..)
        rw [hb] at this
        exact absurd this (by simp)
    rw [this]; rfl
  | some v =>
    obtain ⟨σ, hσ, hcσ⟩ := best_sched I hD _ _ _ v hW hR hp (Nat.le_refl _) hb
    obtain ⟨sol, hsol, hc⟩ := feasible_of_sched I hD hS hσ
    obtain ⟨x, hx, hxle⟩ := alp_dominant I.nbAircraft I.nbRunways I.specInst sol hsol
    have hlow : ∀ y ∈ specValues I, -v ≤ y := by
      intro y hy
      have := hle y hy
      rw [hb] at this
      have := (EInt.some_le_some _ _).mp this
      omega
    have hxv : x = -v := by
      have := hlow x hx
      rw [hc, hcσ] at hxle
      omega
    have : minOf (specValues I) = some (-v) := minOf_eq_some.mpr ⟨hxv ▸ hx, hlow⟩
    rw [this]
    simp

/-- the same against the printed value of the specification (`-1` = no schedule; a total delay is never negative) -/
theorem root_exact_spec (hdom : I.inDomain = true) (t : Int)
    (ht : Alp.spec I.nbAircraft I.nbRunways I.specInst = t) (hfeas : t ≠ -1) : best I (initState I) = some (-t) := by
  have h := root_exact I hdom
  rw [specExt_nil] at h
  rw [spec_eq] at ht
  cases hm : Alp.minimum (specValues I) with
  | none => rw [hm] at ht; exact absurd ht.symm hfeas
  | some d =>
    rw [hm] at ht h
    have : d = t := ht
    rw [h, ← this]; rfl

/-- `DpExactStmt` at the root -/
theorem dpExactRoot : DpExactRootStmt I := root_exact I

#print axioms sched_le_best
#print axioms best_sched
#print axioms root_exact
#print axioms root_exact_spec
#print axioms dpExactRoot

end Ddo.Examples.AlpModel
