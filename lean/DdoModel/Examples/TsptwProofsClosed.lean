import DdoModel.Proofs.MddCoverRel
import DdoModel.Examples.TsptwProofsMain
/-! The closed corollary for the shipped tsptw example (repaired `relax`): the no-saturation clause restricted to the valid
    triples (`Ddo.NoClampRel`, `Proofs/MddCoverRel.lean`) IS met (`noClampRel`: transition costs within `2^40`, relaxed costs
    within `2^41`), hence `tsptw_relaxed_ub` with no hypothesis left about the model. -/
namespace Ddo.Examples.TsptwModel
open Ddo Ddo.Examples

theorem noClampRel {T : Tab} (hT : TabOk T) : NoClampRel (problem T) (relaxation T) (V T) 0 (BND : Int) (2 * (BND : Int)) where
  nonneg := by decide
  le := by have : (0 : Int) ≤ (BND : Int) := by decide
           omega
  root := by have : (0 : Int) ≤ (BND : Int) := by decide
             omega
  cost := by
    intro k L x s d _ _ hV hd
    obtain ⟨hv, _, _⟩ := hV
    obtain ⟨j, rfl, hj⟩ := (mem_domain_iff hT hv d).mp hd
    have hjn := hj.lt hv hT.n_pos
    obtain ⟨el, _, he, he1, _⟩ := trans_eq hT hv hjn hj.1 x
    show -(BND : Int) ≤ cost T s ⟨x, (j : Int)⟩ ∧ cost T s ⟨x, (j : Int)⟩ ≤ (BND : Int)
    rw [cost_eq hT hv hjn, ← he]
    have := hv.e_small
    omega
  relax := by
    intro k X u src d c hu hX hc
    have hne := List.ne_nil_of_mem hu
    have hX' : ∀ s ∈ X, Valid T s ∧ s.depth = k := fun s hs => ⟨(hX s hs).1, (hX s hs).2.2.1⟩
    have h1 := (sim_merge hT hne hX' hu).e
    have h2 := (hX u hu).1.e_small
    show -(2 * (BND : Int)) ≤ c + ((u.el.earliest : Int) - ((merge X).el.earliest : Int)) ∧
      c + ((u.el.earliest : Int) - ((merge X).el.earliest : Int)) ≤ 2 * (BND : Int)
    omega
  small := by
    have := hT.n_le
    have hb : (BND : Int) = 1099511627776 := by decide
    show ((T.n : Int) + 2) * (2 * (BND : Int)) ≤ 4611686018427387904
    rw [hb]
    omega

/-- **The shipped tsptw example (repaired `relax`)**: a relaxed compilation of its model from the root (layer by layer, no
    cache, no dominance checker, width ≥ 1, any incumbent `lb` that the optimum beats) reports a best value that is at least
    the true optimum — minus the duration `Tsptw.spec` of a shortest tour —, for every well-formed table of the domain that
    has a tour (`t ≠ -1`) -/
theorem tsptw_relaxed_ub {K : Type} [DecidableEq K] {T : Tab} (hT : TabOk T) (hD : inDomain T = true)
    (cfg : Cfg St K) (cache : Cache St) (store : DomStore St K) (polls : Nat)
    (hP : cfg.P = problem T) (hR : cfg.R = relaxation T)
    (hrs : cfg.root.state = initSt T) (hrv : cfg.root.value = 0) (hrd : cfg.root.depth = 0)
    (hrel : cfg.ctype = .relaxed) (hcache : cfg.useCache = false) (hdom : cfg.dom = none) (hW : 1 ≤ cfg.width)
    (hlb : InI cfg.lb)
    (t : Int) (ht : Tsptw.spec T.n (dI T) (eI T) (lI T) = t) (hfeas : t ≠ -1) (hgt : -t > cfg.lb)
    (hO : -t ≤ iMax ∨ cfg.lb < iMax) :
    (compile cfg cache store polls none).1 = .ok →
    ∃ bv, (compile cfg cache store polls none).2.1.bestValue = some bv ∧ -t ≤ bv := by
  have hroot : hStar T (initSt T) = some (-t) := by
    have h := root_exact hT hD
    rw [ht] at h
    cases hb : hStar T (initSt T) with
    | none => rw [hb] at h; exact absurd h hfeas
    | some v =>
      rw [hb] at h
      have : t = -v := by simpa using h
      rw [this]; simp
  refine CoverRel.relaxed_ub_rel_valid cfg (H T) (V T) (BND : Int) (2 * (BND : Int)) cache store polls hrel hcache hdom hW
    ?_ ?_ ?_ hlb (-t) ?_ hgt hO
  · rw [hP, hR]; exact (wfRel hT hD).toV
  · rw [hrd, hrs]; exact V_init hT
  · rw [hP, hR, hrv]; exact noClampRel hT
  · unfold optOf
    rw [hrd, hrs, hrv]
    show (hStar T (initSt T)).addI 0 = some (-t)
    rw [hroot]
    simp [EInt.addI]

/-! ## non-vacuity: the 4-node instance of `TsptwProofsWf.lean` (all travel times `1`: the optimum is `-4`), width 1: the three
    children of the root are merged -/
namespace Demo

def cfg : Cfg St Unit :=
  { P := problem rbT, R := relaxation rbT, rank := ⟨rankCmp⟩, dom := none,
    useCache := false, kind := .lel, ctype := .relaxed, width := 1, root := ⟨initSt rbT, 0, [], iMax, 0⟩, lb := -1000000 }

set_option maxRecDepth 100000 in
theorem spec_rbT : Tsptw.spec rbT.n (dI rbT) (eI rbT) (lI rbT) = 40000 := by decide

set_option maxRecDepth 100000 in
theorem ok : (compile cfg (Cache.init 4) (DomStore.init 4) 0 none).1 = .ok := by decide +kernel

example : ∃ bv, (compile cfg (Cache.init 4) (DomStore.init 4) 0 none).2.1.bestValue = some bv ∧ -40000 ≤ bv :=
  tsptw_relaxed_ub rbT_tabOk rbT_inDomain cfg (Cache.init 4) (DomStore.init 4) 0 rfl rfl rfl rfl rfl rfl rfl rfl (by decide)
    (by decide) 40000 spec_rbT (by decide) (by decide) (by decide) ok

end Demo

#print axioms noClampRel
#print axioms tsptw_relaxed_ub

end Ddo.Examples.TsptwModel
