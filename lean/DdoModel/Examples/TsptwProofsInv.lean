import DdoModel.Examples.TsptwProofs
/-! The two invariants stated in `TsptwModel.lean`: `ValueInv` (on EVERY state and table: no hypothesis) and `ExactShape` (on
    well-formed tables). -/
set_option linter.unusedSimpArgs false
namespace Ddo.Examples.TsptwModel
open Ddo Ddo.Examples

theorem addDur?_some {el a : El} {x : Nat} (h : addDur? el x = some a) :
    a.earliest = el.earliest + x ∧ a.latest = el.latest + x := by
  cases el with
  | fixed d =>
    simp only [addDur?, uadd?] at h
    split at h
    · simp at h; subst h; exact ⟨rfl, rfl⟩
    · simp at h
  | fuzzy e l =>
    simp only [addDur?, uadd?, Option.bind_eq_bind] at h
    split at h
    · split at h
      · simp at h; subst h; exact ⟨rfl, rfl⟩
      · simp at h
    · simp at h

/-- **the value invariant** along the transitions of any state, merged ones included, on any table: the cost of a transition
    is minus the increase of the earliest time -/
theorem valueInv_holds (T : Tab) : ValueInv T := by
  intro s d s' c ht hc
  unfold trans? at ht
  unfold cost? at hc
  split at ht
  · cases ht
  · next hd =>
    rw [if_neg hd] at hc
    simp only [arrival?, Option.bind_eq_bind] at ht
    cases hmn : minDist? T s d.val.toNat with
    | none => simp [hmn] at ht
    | some mn =>
      cases hmx : maxDist? T s d.val.toNat with
      | none => simp [hmn, hmx] at ht
      | some mx =>
        cases h1 : addDur? s.el mn with
        | none => simp [hmn, hmx, h1] at ht
        | some a1 =>
          cases h2 : addDur? s.el mx with
          | none => simp [hmn, hmx, h1, h2] at ht
          | some a2 =>
            cases htw : tw? T d.val.toNat with
            | none => simp [hmn, hmx, h1, h2, htw] at ht
            | some p =>
              obtain ⟨ej, lj⟩ := p
              have ha1 := (addDur?_some h1).1
              cases hu : uadd? s.el.earliest mn with
              | none => simp [htw, hmn, hu] at hc
              | some a =>
                have ha : a = s.el.earliest + mn := by
                  simp only [uadd?] at hu
                  split at hu
                  · simpa using hu.symm
                  · cases hu
                simp only [htw, hmn, hu, Option.bind_eq_bind, Option.bind_some, Option.pure_def, Option.some.injEq] at hc
                simp only [hmn, hmx, h1, h2, htw, Option.bind_some, Option.pure_def] at ht
                have he : s'.el.earliest = max (s.el.earliest + mn) ej := by
                  rw [← ha1]
                  split at ht
                  · simp only [Option.bind_some, Option.some.injEq] at ht; subst ht; rfl
                  · simp only [Option.bind_some, Option.some.injEq] at ht; subst ht
                    show (if _ then _ else _ : El).earliest = _
                    split <;> rfl
                rw [he, ← hc, ha]
                split <;> omega

/-- a transition from a single position with a fixed time leads to a single position with a fixed time -/
theorem trans?_fixed {T : Tab} {s s' : St} {d : Dec} {i t : Nat} (hp : s.pos = .node i) (he : s.el = .fixed t)
    (h : trans? T s d = some s') : ∃ t', s'.el = .fixed t' := by
  unfold trans? at h
  split at h
  · cases h
  · simp only [arrival?, minDist?, maxDist?, hp, he, Option.bind_eq_bind] at h
    cases hd : dist? T i d.val.toNat with
    | none => simp [hd] at h
    | some x =>
      cases hu : uadd? t x with
      | none => simp [hd, addDur?, hu] at h
      | some a =>
        cases htw : tw? T d.val.toNat with
        | none => simp [hd, addDur?, hu, htw] at h
        | some p =>
          simp [hd, addDur?, hu, htw, El.earliest, El.latest] at h
          subst h
          exact ⟨_, rfl⟩

theorem reach_node_fixed {T : Tab} {k : Nat} {s : St} {v : Int} {p : List Dec} (h : Reach (problem T) k s v p) :
    ∃ i t, s.pos = .node i ∧ s.el = .fixed t := by
  induction h with
  | root => exact ⟨0, 0, rfl, rfl⟩
  | step k s v p L x d _ _ _ _ ih =>
    obtain ⟨i, t, hp, he⟩ := ih
    show ∃ i t, (trans T s ⟨x, d⟩).pos = .node i ∧ (trans T s ⟨x, d⟩).el = .fixed t
    unfold trans
    cases ht : trans? T s ⟨x, d⟩ with
    | none => exact ⟨i, t, hp, he⟩
    | some s' =>
      obtain ⟨t', ht'⟩ := trans?_fixed hp he ht
      exact ⟨_, t', (trans?_depth T s s' _ ht).2, ht'⟩

/-- **the states reached exactly** have a single position, a fixed time, no optional city, and their value is minus their
    time, on every well-formed table.  Missing for `ExactShape T` on any table: the value part on tables that are not `TabOk` -/
theorem exactShape_partial {T : Tab} (hT : TabOk T) : ExactShape T := by
  intro k s v p h
  obtain ⟨i, t, hp, he⟩ := reach_node_fixed h
  have hx := reach_exact hT h
  unfold exactShape
  rw [hp, he, hx.maybe]
  have := hx.value
  rw [he] at this
  simp [this, El.earliest]

/-- **every table the reader builds** from an instance with at most 256 nodes, one window per node and numbers below
    `2^40 / 100` hundredths **is well-formed** -/
theorem tabOk_tabOf (n : Nat) (dh : List Int) (twh : List (Int × Int)) (h1 : 1 ≤ n) (h2 : n ≤ 256) (h3 : twh.length = n)
    (h4 : ∀ x ∈ dh, x * 100 < (BND : Int)) (h5 : ∀ p ∈ twh, p.1 * 100 < (BND : Int) ∧ p.2 * 100 < (BND : Int)) :
    TabOk (tabOf n dh twh) := by
  have hB : (0 : Int) < (BND : Int) := by decide
  refine ⟨h1, h2, by simp [tabOf], ?_, by simp [tabOf, h3], rfl, ?_, ?_⟩
  · intro r hr
    simp only [tabOf, List.mem_map] at hr
    obtain ⟨i, _, rfl⟩ := hr
    simp [tabOf]
  · intro i j
    simp only [tabOf, distOf, List.getD_eq_getElem?_getD, List.getElem?_map]
    by_cases hi : i < n
    · by_cases hj : j < n
      · simp only [List.getElem?_range hi, Option.map_some, Option.getD_some, List.getElem?_map, List.getElem?_range hj]
        have : (dh[i * n + j]?.getD 0) * 100 < (BND : Int) := by
          cases hg : dh[i * n + j]? with
          | none => simpa using hB
          | some x => exact h4 x (List.mem_of_getElem? hg)
        omega
      · have : (List.range n)[j]? = none := by simp; omega
        simp [List.getElem?_range hi, this, BND]
    · have : (List.range n)[i]? = none := by simp; omega
      simp [this, BND]
  · intro p hp
    simp only [tabOf, List.mem_map] at hp
    obtain ⟨q, hq, rfl⟩ := hp
    obtain ⟨a, b⟩ := h5 q hq
    constructor <;> (dsimp only; omega)

#print axioms tabOk_tabOf
#print axioms valueInv_holds
#print axioms exactShape_partial

end Ddo.Examples.TsptwModel
