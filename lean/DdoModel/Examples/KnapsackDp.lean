import DdoModel.Dp
import DdoModel.Examples.Knapsack
/-! The DP model, relaxation and ranking of the shipped knapsack example (`ddo/examples/knapsack/main.rs`) in Lean:
    definitions only (the driver engine `exmodel` compares them pointwise with the example's own code; the
    well-formedness theorems are in `KnapsackModel.lean`).

Mirror of the Rust code (state = `(depth, capacity)`):
* `order` is the permutation of the items computed by `Knapsack::new` (`sort_unstable_by_key` on the `f64` ratio
  `-profit/weight`): a **parameter** here; what is needed of it is stated as hypotheses (`Perm`, `Sorted`) and checked
  by the driver on the order the code reveals through `next_variable`;
* `next_variable depth _ = if depth < n then Some(order[depth]) else None`, modelled as `order[depth]?`;
* domain `[1, 0]` if `capacity ≥ weight[var]`, else `[0]` (call order of `for_each_in_domain`);
* transition: `depth + 1`, capacity minus the weight when the value is `1`; cost `profit[var] * value`;
* `merge` = `max_by_key(capacity)`: the **last** maximal state in iteration order; `[]` (an `unwrap` panic in Rust) is
  mapped to `(0, 0)`; `relax` = the cost unchanged;
* `fast_upper_bound`: the fractional (Dantzig) bound following `order` from `state.depth`, the fractional share being
  `(capacity * profit).div_euclid(weight)` in exact integer arithmetic (since fix 4f57927; before, an `f64` product whose
  floor could fall one short);
* `KPRanking::compare` = comparison of the capacities. -/
namespace Ddo.Examples.KnapsackModel
open Ddo Ddo.Examples

structure Inst where
  capacity : Nat
  profit : List Int
  weight : List Nat
  order : List Nat

abbrev St := Nat × Nat     -- (depth, capacity)

variable (I : Inst)

def Inst.p (i : Nat) : Int := (I.profit[i]?).getD 0
def Inst.w (i : Nat) : Nat := (I.weight[i]?).getD 0

/-- the items `order[k..]` as (profit, weight) pairs -/
def Inst.itemsFrom (k : Nat) : List (Int × Nat) := (I.order.drop k).map (fun i => (I.p i, I.w i))

def problem : Problem St :=
  { nbVars := I.profit.length
    init := (0, I.capacity)
    initVal := 0
    trans := fun s d => (s.1 + 1, if d.val = 1 then s.2 - I.w d.var else s.2)
    cost := fun _ _ d => I.p d.var * d.val
    nextVar := fun depth _ => I.order[depth]?
    domain := fun x s => if I.w x ≤ s.2 then [1, 0] else [0]
    impacted := fun _ _ => true }

/-- `max_by_key(|s| s.capacity)`: the last maximal element -/
def mergeStates : List St → St
  | [] => (0, 0)
  | s :: r => r.foldl (fun best t => if best.2 ≤ t.2 then t else best) s

/-- the Dantzig bound: whole items while they fit, then the floor of the fraction of the first that does not -/
def dantzig : List (Int × Nat) → Nat → Int
  | [], _ => 0
  | (p, w) :: rest, c =>
    if c = 0 then 0
    else if w ≤ c then p + dantzig rest (c - w)
    else ((c : Int) * p) / (w : Int)

def relaxation : Relax St :=
  { merge := mergeStates
    relax := fun _ _ _ _ c => c
    rub := fun s => dantzig (I.itemsFrom s.1) s.2 }

/-- value-to-go: the best profit of the items `order[k..]` within the remaining capacity; defined on consistent states -/
def H (k : Nat) (s : St) : EInt := if s.1 = k then some (Knapsack.best s.2 (I.itemsFrom k)) else none

/-- layer validity: the depth stored in the state is the depth of the layer -/
def V (k : Nat) (s : St) : Prop := s.1 = k


/-- `KPRanking::compare` -/
def rankCmp (a b : St) : Ordering := compare a.2 b.2

end Ddo.Examples.KnapsackModel
