import DdoModel.Examples.PspDp
/-! Statements about the Lean model of the psp example (`PspDp.lean`).  Proved here: the specification table the driver uses
    is `Psp.best` (`best_eq_table`); the merge operator always forgets `next` and never raises `time` / `prev_demands`
    (`merge_next`, `merge_time_le`, `merge_pd_le`), `relax` leaves the cost alone; the stocking part of the rough bound as
    shipped never tightens it (`rub_ge_neg_mst`: the bound is at least `-mst[members]`).  Stated here (`def … : Prop`; the
    driver checks them pointwise on every generated case): `RubAdmissibleStmt`, `MergeOkStmt`, `DpExactStmt`.
    PROVED in `PspProofs*.lean`: `rubAdmissible : RubAdmissibleStmt I` (`PspProofsRub.lean`, with `mstOf_le_walk`: what
    `ub_utils::mst` computes is a lower bound of the changeover cost of every sequence of productions visiting the members);
    `mergeOk_partial : I.T ≤ 2^63 → MergeOkStmt I` and the kernel-checked refutation without the triangle inequality
    `mergeOk_fails_without_triangle` (finding D15; `PspProofsMerge.lean`, with `bestRem_mono`); `wfRel`, `noClampDom`,
    `psp_relaxed_ub_bestRem` (`PspProofsWf.lean`); `dpExact : DpExactStmt I` (`PspProofsExact.lean`: the DP model is exact, with or
    without the triangle inequality; `bestRem_isMinOf`: at every state a compilation builds); `root_exact`, `psp_relaxed_ub`:
    the closed relaxed-diagram corollary against `Psp.best` (`PspProofsMain.lean`).  Nothing is stated only any more. -/
namespace Ddo.Examples.PspModel
open Ddo Ddo.Examples Ddo.Examples.Util

/-- at the root the driver's table gives `Psp.best`: the least cost of the feasible plans, `-1` when there is none -/
theorem best_eq_table (I : Psp.Inst) : Psp.best I = (specBestExt (specTable I) []).getD (-1) := by
  have hfilter : (specTable I).filter (fun e => extends_ e.1 []) = specTable I := by
    apply List.filter_eq_self.mpr
    intro e _
    simp [extends_]
  unfold specBestExt
  rw [hfilter]
  unfold Psp.best specTable
  simp only [List.map_filterMap]
  congr 3
  funext p
  by_cases hf : Psp.feasible I p = true <;> simp [hf]

variable (T : Tab)

/-- `PspRelax::merge` always forgets the item produced next -/
theorem merge_next (X : List St) : (mergeStates T X).next = -1 := rfl
/-- `PspRelax::relax` leaves the cost of the arc alone -/
theorem relax_id (a b c : St) (d : Dec) (x : Int) : (relaxation T).relax a b c d x = x := rfl

theorem foldl_min_time (X : List St) : ∀ t0 : Nat,
    X.foldl (fun t s => min t s.time) t0 ≤ t0 ∧ ∀ u ∈ X, X.foldl (fun t s => min t s.time) t0 ≤ u.time := by
  induction X with
  | nil => intro t0; simp
  | cons a r ih =>
    intro t0
    have h := ih (min t0 a.time)
    refine ⟨by simp only [List.foldl_cons]; omega, ?_⟩
    intro u hu
    simp only [List.foldl_cons]
    rcases List.mem_cons.mp hu with rfl | hu
    · omega
    · exact h.2 u hu

/-- the merged state is at most as late as the horizon and as every merged state -/
theorem merge_time_le (X : List St) : (mergeStates T X).time ≤ T.H ∧ ∀ u ∈ X, (mergeStates T X).time ≤ u.time :=
  foldl_min_time X T.H

theorem minZip_length : ∀ (acc y : List Int), (minZip acc y).length = acc.length := by
  intro acc
  induction acc with
  | nil => intro y; cases y <;> simp [minZip]
  | cons a r ih => intro y; cases y <;> simp [minZip, ih]

theorem minZip_getD : ∀ (acc y : List Int) (i : Nat) (dflt : Int),
    (minZip acc y).getD i dflt ≤ acc.getD i dflt ∧ (i < acc.length → i < y.length → (minZip acc y).getD i dflt ≤ y.getD i dflt) := by
  intro acc
  induction acc with
  | nil => intro y i dflt; cases y <;> simp [minZip]
  | cons a r ih =>
    intro y i dflt
    cases y with
    | nil => simp [minZip]
    | cons b bs =>
      cases i with
      | zero => simp [minZip]; omega
      | succ j =>
        have h := ih bs j dflt
        simp only [minZip, List.getD_cons_succ, List.length_cons]
        exact ⟨h.1, fun h1 h2 => h.2 (by omega) (by omega)⟩

theorem foldl_minZip (X : List St) : ∀ (acc : List Int) (i : Nat) (dflt : Int),
    (X.foldl (fun a s => minZip a s.pd) acc).length = acc.length ∧
    (X.foldl (fun a s => minZip a s.pd) acc).getD i dflt ≤ acc.getD i dflt ∧
    ∀ u ∈ X, i < acc.length → i < u.pd.length → (X.foldl (fun a s => minZip a s.pd) acc).getD i dflt ≤ u.pd.getD i dflt := by
  induction X with
  | nil => intro acc i dflt; simp
  | cons a r ih =>
    intro acc i dflt
    have h := ih (minZip acc a.pd) i dflt
    have hz := minZip_getD acc a.pd i dflt
    have hl := minZip_length acc a.pd
    simp only [List.foldl_cons]
    refine ⟨by omega, by omega, ?_⟩
    intro u hu h1 h2
    rcases List.mem_cons.mp hu with rfl | hu
    · have := hz.2 h1 h2; omega
    · exact h.2.2 u hu (by omega) h2

/-- the merged state has one entry per item, each at most the entry of every merged state (pointwise least) -/
theorem merge_pd_le (X : List St) (i : Nat) (hi : i < T.n) :
    (mergeStates T X).pd.length = T.n ∧
    ∀ u ∈ X, i < u.pd.length → (mergeStates T X).pd.getD i (-1) ≤ u.pd.getD i (-1) := by
  have h := foldl_minZip X (List.replicate T.n isizeMax) i (-1)
  simp only [List.length_replicate] at h
  exact ⟨h.1, fun u hu hlen => h.2.2 u hu hi hlen⟩

-- ------------------------------------------------------------------------------------------------------------------
-- the stocking part of `fast_upper_bound`, as shipped, never tightens the bound: `ww ≤ 0`, hence `rub ≥ -mst[members]`

/-- every unit on the heap has a non-negative stocking cost and a due date not before `t` -/
def HeapOk (t : Int) (hp : List (Int × Int)) : Prop := ∀ e ∈ hp, 0 ≤ e.1 ∧ t ≤ e.2

theorem HeapOk.mono {t t' : Int} {hp : List (Int × Int)} (h : HeapOk t' hp) (ht : t ≤ t') : HeapOk t hp :=
  fun e he => ⟨(h e he).1, by have := (h e he).2; omega⟩

theorem drain_ok (hstk : ∀ i, 0 ≤ T.stk.getD i 0) (i : Nat) (time : Int) :
    ∀ (f : Nat) (d : Int) (hp : List (Int × Int)) (d' : Int) (hp' : List (Int × Int)),
      HeapOk time hp → drain T i time f d hp = some (d', hp') → HeapOk time hp' := by
  intro f
  induction f with
  | zero => intro d hp d' hp' h he; simp only [drain, Option.some.injEq, Prod.mk.injEq] at he; rw [← he.2]; exact h
  | succ f ih =>
    intro d hp d' hp' h he
    unfold drain at he
    split at he
    · next hge =>
      split at he
      · cases he
      · next d2 _ =>
        refine ih d2 _ d' hp' ?_ he
        intro e hmem
        rcases List.mem_cons.mp hmem with rfl | hmem
        · exact ⟨hstk i, hge⟩
        · exact h e hmem
    · simp only [Option.some.injEq, Prod.mk.injEq] at he; rw [← he.2]; exact h

theorem drainAll_ok (hstk : ∀ i, 0 ≤ T.stk.getD i 0) (time : Int) :
    ∀ (ds : List Int) (i : Nat) (hp : List (Int × Int)) (ds' : List Int) (hp' : List (Int × Int)),
      HeapOk time hp → drainAll T time i ds hp = some (ds', hp') → HeapOk time hp' := by
  intro ds
  induction ds with
  | nil => intro i hp ds' hp' h he; simp only [drainAll, Option.some.injEq, Prod.mk.injEq] at he; rw [← he.2]; exact h
  | cons d ds ih =>
    intro i hp ds' hp' h he
    unfold drainAll at he
    split at he
    · cases he
    · next d1 hp1 h1 =>
      have hk := drain_ok T hstk i time _ d hp d1 hp1 h h1
      split at he
      · cases he
      · next ds2 hp2 h2 =>
        simp only [Option.some.injEq, Prod.mk.injEq] at he
        rw [← he.2]
        exact ih (i + 1) hp1 ds2 hp2 hk h2

theorem foldl_sel_mem (sel : Int × Int → Int × Int → Int × Int) (hsel : ∀ m y, sel m y = m ∨ sel m y = y) :
    ∀ (r : List (Int × Int)) (x : Int × Int), r.foldl sel x = x ∨ r.foldl sel x ∈ r := by
  intro r
  induction r with
  | nil => intro x; simp
  | cons a r ih =>
    intro x
    simp only [List.foldl_cons]
    rcases ih (sel x a) with h | h
    · rcases hsel x a with h2 | h2
      · left; rw [h, h2]
      · right; rw [h, h2]; exact List.mem_cons_self
    · right; exact List.mem_cons_of_mem _ h

theorem popMax_ok (t : Int) (hp rest : List (Int × Int)) (m : Int × Int) (h : HeapOk t hp)
    (he : popMax hp = some (m, rest)) : (0 ≤ m.1 ∧ t ≤ m.2) ∧ HeapOk t rest := by
  cases hp with
  | nil => simp [popMax] at he
  | cons x r =>
    simp only [popMax, Option.some.injEq, Prod.mk.injEq] at he
    have hm : m ∈ x :: r := by
      rw [← he.1]
      rcases foldl_sel_mem (fun m y => if m.1 < y.1 ∨ (m.1 = y.1 ∧ m.2 < y.2) then y else m)
        (fun m y => by by_cases hc : m.1 < y.1 ∨ (m.1 = y.1 ∧ m.2 < y.2) <;> simp [hc]) r x with h1 | h1
      · rw [h1]; exact List.mem_cons_self
      · exact List.mem_cons_of_mem _ h1
    refine ⟨h m hm, ?_⟩
    intro e hmem
    rw [← he.2] at hmem
    exact h e (List.mem_of_mem_erase hmem)

theorem wwLoop_le (hstk : ∀ i, 0 ≤ T.stk.getD i 0) :
    ∀ (k : Nat) (pd : List Int) (hp : List (Int × Int)) (ww w : Int),
      HeapOk (k : Int) hp → wwLoop T k pd hp ww = some w → w ≤ ww := by
  intro k
  induction k with
  | zero => intro pd hp ww w _ he; simp only [wwLoop, Option.some.injEq] at he; omega
  | succ t ih =>
    intro pd hp ww w h he
    unfold wwLoop at he
    split at he
    · cases he
    · next pd1 hp1 h1 =>
      have hk : HeapOk (t : Int) hp1 :=
        drainAll_ok T hstk (t : Int) pd 0 hp pd1 hp1 (h.mono (by omega)) h1
      split at he
      · next c due hp2 h2 =>
        have hp := popMax_ok (t : Int) hp1 hp2 (c, due) hk h2
        have hle := ih pd1 hp2 _ w hp.2 he
        have hnn : 0 ≤ c * (due - (t : Int)) := Int.mul_nonneg hp.1.1 (by have := hp.1.2; simp only at this; omega)
        have heq : c * ((t : Int) - due) = -(c * (due - (t : Int))) := by
          rw [← Int.mul_neg]; congr 1; omega
        omega
      · exact ih pd1 hp1 ww w hk he

/-- AS SHIPPED the bound is never below `-mst[members]`: the stocking estimate is added with the wrong sign (it can only
    weaken the bound; the bound stays admissible as long as `-mst[members]` is) -/
theorem rub_ge_neg_mst (hstk : ∀ i, 0 ≤ T.stk.getD i 0) (s : St) (r : Int) (hr : rub? T s = some r) :
    ∃ mask co, memberMask? s = some mask ∧ T.mst[mask]? = some co ∧ -co ≤ r := by
  unfold rub? at hr
  cases hm : memberMask? s with
  | none => simp [hm] at hr
  | some mask =>
    cases hc : T.mst[mask]? with
    | none => simp [hm, hc] at hr
    | some co =>
      cases hw : wwLoop T s.time s.pd [] 0 with
      | none => simp [hm, hw] at hr
      | some ww =>
        simp only [hm, hw, Option.bind_eq_bind, Option.bind_some, Option.pure_def] at hr
        rw [hc] at hr
        simp only [Option.bind_some, Option.some.injEq] at hr
        have := wwLoop_le T hstk s.time s.pd [] 0 ww (fun e he => by cases he) hw
        exact ⟨mask, co, rfl, hc, by omega⟩

-- ------------------------------------------------------------------------------------------------------------------
-- the statements (checked pointwise by the driver on every generated case; PROVED in `PspProofs*.lean`, see the header)

/-- the instances of the format: one row per item, non-negative costs, at most one unit of an item due per period -/
structure InstOk (I : Psp.Inst) : Prop where
  qrows : I.q.length = I.n ∧ ∀ r ∈ I.q, r.length = I.n ∧ ∀ x ∈ r, 0 ≤ x
  hrow : I.h.length = I.n ∧ ∀ x ∈ I.h, 0 ≤ x
  drows : I.d.length = I.n ∧ ∀ r ∈ I.d, r.length = I.T ∧ ∀ x ∈ r, x = 0 ∨ x = 1

/-- the states a compilation can build: one entry per item, each the due date of a unit of the item or `-1`; `next` an item or
    `-1`; no more units to produce than periods left -/
def StOk (I : Psp.Inst) (s : St) : Prop :=
  s.pd.length = I.n ∧ s.time ≤ I.T ∧ (s.next = -1 ∨ (0 ≤ s.next ∧ s.next < I.n)) ∧
  (∀ i, i < I.n → s.pd.getD i (-1) = -1 ∨
      (0 ≤ s.pd.getD i (-1) ∧ 0 < (I.d.getD i []).getD (s.pd.getD i (-1)).toNat 0)) ∧
  validB (tabOf I) s = true

/-- `RubOk`: the rough upper bound dominates the value-to-go of every such state -/
def RubAdmissibleStmt (I : Psp.Inst) : Prop :=
  InstOk I → ∀ s r, StOk I s → rub? (tabOf I) s = some r → bestRem (tabOf I) s ≤ (some r : EInt)

/-- `MergeOk` (potential form; `relax` is the identity): under the TRIANGLE INEQUALITY the merged state is worth at least as
    much as every merged state.  Without the inequality the statement is false (the driver's `psp-merge-no-triangle`). -/
def MergeOkStmt (I : Psp.Inst) : Prop :=
  InstOk I → triangleB (tabOf I) = true →
  ∀ (X : List St) (u : St) (h : Int), u ∈ X → (∀ w ∈ X, StOk I w ∧ w.time = u.time) → bestRem (tabOf I) u = some h →
    ∃ h', bestRem (tabOf I) (mergeStates (tabOf I) X) = some h' ∧ h ≤ h'

/-- the DP model is exact: minus the value-to-go of the root is the least cost of the specification's feasible plans
    (a theorem: `dpExact`, `PspProofsExact.lean`) -/
def DpExactStmt (I : Psp.Inst) : Prop :=
  InstOk I → bestRem (tabOf I) (initSt (tabOf I)) = (specBestExt (specTable I) []).map (fun c => -c)

end Ddo.Examples.PspModel
