/-! Specification of the knapsack example (`ddo/examples/knapsack`): the maximum total profit of a
    subset of items whose total weight fits the capacity — by exhaustive enumeration of all subsets,
    written independently of the DP model.  Instance file: `n cap` then `profit weight` per item. -/
namespace Ddo.Examples.Knapsack

/-- best profit over all subsets of `items` (profit, weight) within `cap` -/
def best : Nat → List (Int × Nat) → Int
  | _, [] => 0
  | cap, (p, w) :: rest =>
    let skip := best cap rest
    if w ≤ cap then max skip (p + best (cap - w) rest) else skip

/-- tokens: `n cap p1 w1 … pn wn`; the program prints the optimum (`-1` when no solution exists: never here) -/
def specFromTokens : List Int → Option Int
  | n :: cap :: rest =>
    let rec pairs : List Int → List (Int × Nat)
      | p :: w :: r => (p, w.toNat) :: pairs r
      | _ => []
    let items := pairs rest
    if items.length = n.toNat then some (best cap.toNat items) else none
  | _ => none

end Ddo.Examples.Knapsack
