import DdoModel.Examples.TalentschedProofs
import DdoModel.WfRel
/-! `RubAdmissibleStmt` of the talentsched model: PARTIAL results only.
    * `bestRem_le_zero`: every transition cost is `≤ 0`, hence so is every value-to-go;
    * `rub_of_nobody_present`: when no actor is on location (`present = ∅`: the root, and every state whose shot scenes and
      mandatory scenes share no actor) the bound is exactly `0`;
    * `rubAdmissible_partial`: `RubAdmissibleStmt` restricted to those states.
    MISSING for the full statement: the combinatorial heart of the bound (Garcia de la Banda, Stuckey & Chu's lower bound: the
    present actors as jobs of a single machine, durations split in proportion to the costs, Smith's rule) — that
    `Σ_{a present} cost[a] · (end of the last mandatory scene of a) ≥ Smith optimum + Σ_j dur[j] · (T_j − Q_j / T_j) / 2` for
    every order of the mandatory scenes — is not formalised; `RubAdmissibleStmt` stays a `def … : Prop` evaluated pointwise by
    the driver. -/
namespace Ddo.Examples.TalentschedModel
open Ddo Ddo.Examples Ddo.Examples.Util Ddo.SpecUtil

theorem cost_nonpos (T : Tab) (hn : NonNeg T) (s : St) (d : Dec) : cost T s d ≤ 0 := by
  unfold cost cost?
  split
  · exact Int.le_refl _
  · simp only [Option.getD_some]
    have := sum_bits_le (f := fun a => costA T a * durS T d.val.toNat)
      (fun a => Int.mul_nonneg (hn.cost a) (hn.dur _))
      (show Sub 0 (sdiff (present T s) (actS T d.val.toNat)) from fun i h => by simp at h)
    have h0 : sum ((bits 0).map fun a => costA T a * durS T d.val.toNat) = 0 := rfl
    omega

theorem bestRemF_le_zero (T : Tab) (hn : NonNeg T) : ∀ (fuel d : Nat) (s : St), bestRemF T fuel d s ≤ (some 0 : EInt) := by
  intro fuel
  induction fuel with
  | zero => intro d s; exact EInt.le_refl _
  | succ fuel ih =>
    intro d s
    rw [bestRemF]
    apply foldl_emax_le _ _ _ _ (EInt.none_le _)
    intro v _
    have h1 := ih (d + 1) (trans s ⟨d, v⟩)
    have h2 := cost_nonpos T hn s ⟨d, v⟩
    revert h1
    generalize bestRemF T fuel (d + 1) _ = b
    cases b <;> simp [EInt.addI]
    omega

/-- every transition cost is `≤ 0`: so is every value-to-go -/
theorem bestRem_le_zero (T : Tab) (hn : NonNeg T) (d : Nat) (s : St) : bestRem T d s ≤ (some 0 : EInt) :=
  bestRemF_le_zero T hn _ d s

theorem foldl_id {α β : Type} (l : List α) (b : β) : l.foldl (fun acc _ => acc) b = b := by
  induction l with
  | nil => rfl
  | cons x l ih => exact ih

/-- nobody on location: the bound is `0` -/
theorem rub_of_nobody_present (T : Tab) (s : St) (hs : s.scenes >>> T.n = 0) (hp : present T s = 0) :
    rub? T s = some 0 := by
  unfold rub? rubQ?
  have hsc : rubScenes T s = [] := by
    unfold rubScenes
    simp [hp]
  simp only [hs, hsc, hp]
  simp [foldl_id, ceilDiv]

/-- `RubAdmissibleStmt` restricted to the states where no actor is on location -/
theorem rubAdmissible_partial (T : Tab) (hT : TabOk T) (d : Nat) (s : St) (r : Int) (hs : s.scenes >>> T.n = 0)
    (hp : present T s = 0) (hr : rub? T s = some r) : bestRem T d s ≤ (some r : EInt) := by
  rw [rub_of_nobody_present T s hs hp] at hr
  cases hr
  exact bestRem_le_zero T hT.nonNeg d s

/-! ### every clause of `WfRel` but `rub` -/

theorem nextVar_some {T : Tab} {k x : Nat} {L : List St} (h : (problem T).nextVar k L = some x) : x = k ∧ k < T.n := by
  have h' : (if k < T.n then some k else none) = some x := h
  split at h'
  · exact ⟨by cases h'; rfl, by assumption⟩
  · cases h'

theorem nextVar_none {T : Tab} {k : Nat} {L : List St} (h : (problem T).nextVar k L = none) : T.n ≤ k := by
  have h' : (if k < T.n then some k else none) = none := h
  split at h'
  · cases h'
  · omega

theorem inv_trans {T : Tab} {k : Nat} {s : St} (hV : Inv T k s) {v : Int} (hv : v ∈ domain T k s) :
    Inv T (k + 1) (trans s ⟨k, v⟩) := by
  obtain ⟨i, rfl, h64, hi⟩ := (mem_domain T k s v).mp hv
  rw [trans_nat s k i h64]
  exact hV.step h64 hi

theorem inv_merge {T : Tab} {k : Nat} {X : List St} (hX : X ≠ []) (hV : ∀ u ∈ X, Inv T k u) : Inv T k (mergeStates X) := by
  cases X with
  | nil => exact absurd rfl hX
  | cons f rest =>
    refine ⟨?_, fun i => mergeStates_disjoint _ i⟩
    have := card_le_of_sub (below_merge (f :: rest) f List.mem_cons_self).must
    have := (hV f List.mem_cons_self).room
    omega

/-- the talentsched model is well formed relative to `Inv` (no more mandatory scenes than positions left, the two sets
    disjoint; every state `validB` accepts satisfies it: `inv_of_valid`) PROVIDED its rough upper bound is admissible on those
    states — the one clause that is not proved (`RubAdmissibleStmt`) -/
theorem wfRel_of_rub (T : Tab) (hT : TabOk T)
    (hrub : ∀ k s h, Inv T k s → bestRem T k s = some h → h ≤ (relaxation T).rub s) :
    WfRel (problem T) (relaxation T) (bestRem T) (Inv T) where
  vstep := fun k L x s d hnv _ hV hd => by
    obtain ⟨rfl, _⟩ := nextVar_some hnv
    exact inv_trans hV hd
  vstepMerge := fun k L x X d hnv hX _ hXV hd => by
    obtain ⟨rfl, _⟩ := nextVar_some hnv
    exact inv_trans (inv_merge hX hXV) hd
  vmerge := fun k X hX hXV => inv_merge hX hXV
  att := fun k L x s h hnv _ _ hH => by
    obtain ⟨rfl, hk⟩ := nextVar_some hnv
    exact bestRem_att T hk s hH
  attMerge := fun k L x X h hnv _ _ _ hH => by
    obtain ⟨rfl, hk⟩ := nextVar_some hnv
    exact bestRem_att T hk _ hH
  term := fun k L s h hnv _ _ hH => by
    rw [bestRem_term T (nextVar_none hnv) s] at hH
    cases hH
    exact Int.le_refl _
  rub := hrub
  merge := fun k X u src d c h hu hXV hH => by
    have hle := bestRem_mono T hT.nonNeg k u _ (below_merge X u hu) (hXV u hu)
    rw [hH] at hle
    show ∃ h', bestRem T k (mergeStates X) = some h' ∧ c + h ≤ c + h'
    cases hm : bestRem T k (mergeStates X) with
    | none => rw [hm] at hle; exact absurd hle (by simp)
    | some h' =>
      rw [hm] at hle
      have : h ≤ h' := hle
      exact ⟨h', rfl, by omega⟩

/-- the same with the missing clause in the shape of `RubAdmissibleStmt` (where `fast_upper_bound` would panic the model's
    bound is `0`, which dominates every value-to-go) -/
theorem wfRel_of_rubAdmissible (T : Tab) (hT : TabOk T)
    (hrub : ∀ (d : Nat) (s : St) (r : Int), Inv T d s → rub? T s = some r → bestRem T d s ≤ (some r : EInt)) :
    WfRel (problem T) (relaxation T) (bestRem T) (Inv T) :=
  wfRel_of_rub T hT fun k s h hV hH => by
    show h ≤ (rub? T s).getD 0
    cases hr : rub? T s with
    | none =>
      have := bestRem_le_zero T hT.nonNeg k s
      rw [hH] at this
      exact this
    | some r =>
      have := hrub k s r hV hr
      rw [hH] at this
      exact this

end Ddo.Examples.TalentschedModel

section
open Ddo.Examples.TalentschedModel
#print axioms rubAdmissible_partial
#print axioms wfRel_of_rub
#print axioms wfRel_of_rubAdmissible
end
