import DdoModel.Examples.SrflpModel
/-! Smith's rule (least weighted completion time) for the cut part of the srflp rough bound: the fold of `rubWith?` is `wct`,
    the sort by decreasing exact ratio gives `SmithSorted`, a `SmithSorted` list is cheapest among its permutations. -/

/-- core has no `List.Forall₂`: the two lists have the same length and `R` holds position by position -/
inductive List.Forall₂ {α : Type u} {β : Type v} (R : α → β → Prop) : List α → List β → Prop
  | nil : List.Forall₂ R [] []
  | cons {a : α} {b : β} {l₁ : List α} {l₂ : List β} : R a b → List.Forall₂ R l₁ l₂ → List.Forall₂ R (a :: l₁) (b :: l₂)

namespace Ddo.Examples.SrflpModel
open Ddo Ddo.Examples Ddo.Examples.Util

/-- Σ over the jobs `(length, cut)` in list order of `cut * (B + lengths of the jobs before)` -/
def wct : Int → List (Int × Int) → Int
  | _, [] => 0
  | B, (l, c) :: r => B * c + wct (B + l) r

@[simp] theorem wct_nil (B : Int) : wct B [] = 0 := rfl
theorem wct_cons (B : Int) (a : Int × Int) (r : List (Int × Int)) : wct B (a :: r) = B * a.2 + wct (B + a.1) r := by
  cases a; rfl

theorem wct_append (B : Int) (xs ys : List (Int × Int)) :
    wct B (xs ++ ys) = wct B xs + wct (B + (xs.map Prod.fst).sum) ys := by
  induction xs generalizing B with
  | nil => simp
  | cons a xs ih =>
    simp only [List.cons_append, wct_cons, ih, List.map_cons, List.sum_cons]
    rw [Int.add_assoc B a.1, Int.add_assoc]

theorem wct_swap_nil (B : Int) (post : List (Int × Int)) (a b : Int × Int) :
    wct B (a :: b :: post) - wct B (b :: a :: post) = a.1 * b.2 - b.1 * a.2 := by
  simp only [wct_cons]
  have h : B + b.1 + a.1 = B + a.1 + b.1 := by omega
  rw [h, Int.add_mul, Int.add_mul]
  omega

/-- swapping two neighbours changes the cost by `l_a c_b - l_b c_a` -/
theorem wct_swap (B : Int) (pre post : List (Int × Int)) (a b : Int × Int) :
    wct B (pre ++ a :: b :: post) - wct B (pre ++ b :: a :: post) = a.1 * b.2 - b.1 * a.2 := by
  rw [wct_append, wct_append]
  have := wct_swap_nil (B + (pre.map Prod.fst).sum) post a b
  omega

/-- equal ratios (`c_a l_b = c_b l_a`) may be ordered arbitrarily: what the repaired `sort_unstable_by` relies on -/
theorem wct_swap_eq (B : Int) (pre post : List (Int × Int)) (a b : Int × Int) (h : a.2 * b.1 = b.2 * a.1) :
    wct B (pre ++ a :: b :: post) = wct B (pre ++ b :: a :: post) := by
  have := wct_swap B pre post a b
  rw [Int.mul_comm a.2, Int.mul_comm b.2] at h
  omega

/-- decreasing ratio cut/length: `a` before `b` implies `c_b / l_b ≤ c_a / l_a`, written `c_b l_a ≤ c_a l_b` -/
def SmithSorted (js : List (Int × Int)) : Prop := js.Pairwise (fun a b => b.2 * a.1 ≤ a.2 * b.1)

/-- moving `a` to the front over jobs of ratio at most that of `a` does not increase the cost -/
theorem wct_move_front (a : Int × Int) (post : List (Int × Int)) : ∀ (pre : List (Int × Int)) (B : Int),
    (∀ x ∈ pre, x.2 * a.1 ≤ a.2 * x.1) → wct B (a :: (pre ++ post)) ≤ wct B (pre ++ a :: post) := by
  intro pre
  induction pre with
  | nil => intro B _; simp
  | cons x pre ih =>
    intro B hx
    show wct B (a :: x :: (pre ++ post)) ≤ wct B (x :: (pre ++ a :: post))
    have h1 := ih (B + x.1) (fun y hy => hx y (List.mem_cons_of_mem _ hy))
    have h2 := wct_swap_nil B (pre ++ post) x a
    have h3 := hx x (List.mem_cons_self ..)
    rw [Int.mul_comm x.2, Int.mul_comm a.2] at h3
    have h4 : wct B (x :: a :: (pre ++ post)) = B * x.2 + wct (B + x.1) (a :: (pre ++ post)) := wct_cons ..
    have h5 : wct B (x :: (pre ++ a :: post)) = B * x.2 + wct (B + x.1) (pre ++ a :: post) := wct_cons ..
    have h6 : wct B (a :: x :: (pre ++ post)) = B * a.2 + wct (B + a.1) (x :: (pre ++ post)) := wct_cons ..
    omega

/-- Smith's rule: a list in decreasing-ratio order is cheapest among all its permutations (exchange argument) -/
theorem smith_rule_optimal {js js' : List (Int × Int)} (B : Int) (hs : SmithSorted js) (hp : js'.Perm js) :
    wct B js ≤ wct B js' := by
  induction js generalizing js' B with
  | nil => rw [List.perm_nil.mp hp]; exact Int.le_refl _
  | cons a rest ih =>
    have hs' := List.pairwise_cons.mp hs
    have ha : a ∈ js' := hp.mem_iff.mpr (List.mem_cons_self ..)
    obtain ⟨pre, post, rfl⟩ := List.append_of_mem ha
    have hperm : (pre ++ post).Perm rest := (List.perm_cons a).mp (List.perm_middle.symm.trans hp)
    have h1 := wct_move_front a post pre B (fun x hx => hs'.1 x (hperm.mem_iff.mp (List.mem_append_left _ hx)))
    have h2 := ih (B + a.1) hs'.2 hperm
    have h3 : wct B (a :: (pre ++ post)) = B * a.2 + wct (B + a.1) (pre ++ post) := wct_cons ..
    have h4 : wct B (a :: rest) = B * a.2 + wct (B + a.1) rest := wct_cons ..
    omega

/-- hence `cut_bound` does not depend on how ties are broken -/
theorem wct_eq_of_smithSorted {js js' : List (Int × Int)} (B : Int) (hs : SmithSorted js) (hs' : SmithSorted js')
    (hp : js'.Perm js) : wct B js = wct B js' :=
  Int.le_antisymm (smith_rule_optimal B hs hp) (smith_rule_optimal B hs' hp.symm)

/-- the fold of the code is `wct` -/
theorem cutBound_fold (rs : List ((Int × Int × Int) × Int × Int)) (a B : Int) :
    (rs.foldl (fun (acc : Int × Int) r => (acc.1 + acc.2 * r.2.2, acc.2 + r.2.1)) (a, B)).1
      = a + wct B (rs.map (fun r => (r.2.1, r.2.2))) := by
  induction rs generalizing a B with
  | nil => simp
  | cons r rs ih =>
    simp only [List.foldl_cons, List.map_cons, wct_cons, ih]
    omega

-- ------------------------------------------------------------------------------------------------------------------
-- the sort

/-- cross-multiplied ratios are transitive for positive lengths -/
theorem ratio_trans_le {la lb lc ca cb cc : Int} (hb : 0 < lb) (ha : 0 ≤ la) (hc : 0 ≤ lc)
    (h1 : ca * lb ≤ cb * la) (h2 : cb * lc ≤ cc * lb) : ca * lc ≤ cc * la := by
  have e1 : ca * lc * lb = ca * lb * lc := by grind
  have e2 : cb * la * lc = cb * lc * la := by grind
  have e3 : cc * lb * la = cc * la * lb := by grind
  have i1 := Int.mul_le_mul_of_nonneg_right h1 hc
  have i2 := Int.mul_le_mul_of_nonneg_right h2 ha
  apply Int.le_of_mul_le_mul_right _ hb
  omega

theorem ratio_trans_lt_left {la lb lc ca cb cc : Int} (hb : 0 < lb) (ha : 0 ≤ la) (hc : 0 < lc)
    (h1 : ca * lb < cb * la) (h2 : cb * lc ≤ cc * lb) : ca * lc < cc * la := by
  have e1 : ca * lc * lb = ca * lb * lc := by grind
  have e2 : cb * la * lc = cb * lc * la := by grind
  have e3 : cc * lb * la = cc * la * lb := by grind
  have i1 := Int.mul_lt_mul_of_pos_right h1 hc
  have i2 := Int.mul_le_mul_of_nonneg_right h2 ha
  apply Int.lt_of_mul_lt_mul_right _ (Int.le_of_lt hb)
  omega

theorem ratio_trans_lt_right {la lb lc ca cb cc : Int} (hb : 0 < lb) (ha : 0 < la) (hc : 0 ≤ lc)
    (h1 : ca * lb ≤ cb * la) (h2 : cb * lc < cc * lb) : ca * lc < cc * la := by
  have e1 : ca * lc * lb = ca * lb * lc := by grind
  have e2 : cb * la * lc = cb * lc * la := by grind
  have e3 : cc * lb * la = cc * la * lb := by grind
  have i1 := Int.mul_le_mul_of_nonneg_right h1 hc
  have i2 := Int.mul_lt_mul_of_pos_right h2 ha
  apply Int.lt_of_mul_lt_mul_right _ (Int.le_of_lt hb)
  omega

/-- `leRatioExact` as a proposition -/
theorem leRatioExact_iff (a b : (Int × Int × Int) × Int × Int) :
    leRatioExact a b = true ↔
      (a.2.2 * b.2.1 < b.2.2 * a.2.1 ∨
        (a.2.2 * b.2.1 = b.2.2 * a.2.1 ∧ (a.2.1 < b.2.1 ∨ (a.2.1 = b.2.1 ∧ a.2.2 ≤ b.2.2)))) := by
  unfold leRatioExact
  generalize a.2.2 * b.2.1 = x
  generalize b.2.2 * a.2.1 = y
  by_cases hxy : x = y
  · subst hxy
    simp
  · simp [hxy]

theorem leRatioExact_le {a b : (Int × Int × Int) × Int × Int} (h : leRatioExact a b = true) :
    a.2.2 * b.2.1 ≤ b.2.2 * a.2.1 := by
  rcases (leRatioExact_iff a b).mp h with h | h <;> omega

theorem leRatioExact_trans {a b c : (Int × Int × Int) × Int × Int} (ha : 0 < a.2.1) (hb : 0 < b.2.1) (hc : 0 < c.2.1)
    (h1 : leRatioExact a b = true) (h2 : leRatioExact b c = true) : leRatioExact a c = true := by
  have w1 := leRatioExact_le h1
  have w2 := leRatioExact_le h2
  have w3 := ratio_trans_le hb (Int.le_of_lt ha) (Int.le_of_lt hc) w1 w2
  rw [leRatioExact_iff] at h1 h2 ⊢
  by_cases hlt : a.2.2 * c.2.1 < c.2.2 * a.2.1
  · exact Or.inl hlt
  · right
    have heq : a.2.2 * c.2.1 = c.2.2 * a.2.1 := by omega
    have n1 : ¬ a.2.2 * b.2.1 < b.2.2 * a.2.1 := fun h =>
      hlt (ratio_trans_lt_left hb (Int.le_of_lt ha) hc h w2)
    have n2 : ¬ b.2.2 * c.2.1 < c.2.2 * b.2.1 := fun h =>
      hlt (ratio_trans_lt_right hb ha (Int.le_of_lt hc) w1 h)
    refine ⟨heq, ?_⟩
    rcases h1 with h1 | ⟨_, h1⟩
    · exact absurd h1 n1
    rcases h2 with h2 | ⟨_, h2⟩
    · exact absurd h2 n2
    omega

theorem leRatioExact_total (a b : (Int × Int × Int) × Int × Int) : (leRatioExact a b || leRatioExact b a) = true := by
  rw [Bool.or_eq_true, leRatioExact_iff, leRatioExact_iff]
  generalize a.2.2 * b.2.1 = x
  generalize b.2.2 * a.2.1 = y
  omega

/-- the comparison of the sort, made globally transitive and total: entries with a non-positive length come first -/
def leSmith' (a b : (Int × Int × Int) × Int × Int) : Bool :=
  if 0 < a.2.1 then (if 0 < b.2.1 then leRatioExact b a else false) else true

theorem leSmith'_trans (a b c : (Int × Int × Int) × Int × Int) (h1 : leSmith' a b = true) (h2 : leSmith' b c = true) :
    leSmith' a c = true := by
  unfold leSmith' at *
  by_cases ha : 0 < a.2.1
  · by_cases hb : 0 < b.2.1
    · by_cases hc : 0 < c.2.1
      · simp only [ha, hb, hc, if_true] at h1 h2 ⊢
        exact leRatioExact_trans hc hb ha h2 h1
      · simp [hb, hc] at h2
    · simp [ha, hb] at h1
  · simp [ha]

theorem leSmith'_total (a b : (Int × Int × Int) × Int × Int) : (leSmith' a b || leSmith' b a) = true := by
  unfold leSmith'
  by_cases ha : 0 < a.2.1 <;> by_cases hb : 0 < b.2.1 <;> simp [ha, hb]
  exact Bool.or_eq_true .. ▸ leRatioExact_total b a

theorem mergeSort_leSmith' (rs : List ((Int × Int × Int) × Int × Int)) (hpos : ∀ r ∈ rs, 0 < r.2.1) :
    rs.mergeSort (fun a b => leRatioExact b a) = rs.mergeSort leSmith' := by
  have h := List.map_mergeSort (r := fun a b => leRatioExact b a) (s := leSmith') (f := id) (l := rs)
    (by
      intro a ha b hb
      simp [leSmith', hpos a ha, hpos b hb])
  simpa using h

/-- the sort of the repaired bound produces Smith's order when all lengths are positive -/
theorem smithSorted_mergeSort (rs : List ((Int × Int × Int) × Int × Int)) (hpos : ∀ r ∈ rs, 0 < r.2.1) :
    SmithSorted ((rs.mergeSort (fun a b => leRatioExact b a)).map (fun r => (r.2.1, r.2.2))) := by
  rw [mergeSort_leSmith' rs hpos]
  unfold SmithSorted
  rw [List.pairwise_map]
  refine List.Pairwise.imp_of_mem ?_ (List.pairwise_mergeSort leSmith'_trans leSmith'_total rs)
  intro a b ha hb h
  have ha' := hpos a (List.mem_mergeSort.mp ha)
  have hb' := hpos b (List.mem_mergeSort.mp hb)
  simp only [leSmith', ha', hb', if_true] at h
  exact leRatioExact_le h

/-- the cut part of the bound is a lower bound of the weighted completion cost of EVERY order of the same jobs -/
theorem cutBound_le (rs : List ((Int × Int × Int) × Int × Int)) (hpos : ∀ r ∈ rs, 0 < r.2.1)
    (js' : List (Int × Int)) (hp : js'.Perm (rs.map (fun r => (r.2.1, r.2.2)))) :
    ((rs.mergeSort (fun a b => leRatioExact b a)).foldl (fun (acc : Int × Int) r => (acc.1 + acc.2 * r.2.2, acc.2 + r.2.1)) (0, 0)).1
      ≤ wct 0 js' := by
  rw [cutBound_fold, Int.zero_add]
  apply smith_rule_optimal 0 (smithSorted_mergeSort rs hpos)
  exact hp.trans ((List.mergeSort_perm rs _).map _).symm

/-- monotonicity: pointwise smaller lengths and cuts (all non-negative) give a smaller cost, same order -/
theorem wct_mono_aux : ∀ (xs ys : List (Int × Int)),
    List.Forall₂ (fun x y => 0 ≤ x.1 ∧ x.1 ≤ y.1 ∧ 0 ≤ x.2 ∧ x.2 ≤ y.2) xs ys →
    ∀ (B B' : Int), 0 ≤ B → B ≤ B' → wct B xs ≤ wct B' ys := by
  intro xs ys h
  induction h with
  | nil => intros; simp
  | @cons a b l₁ l₂ hab _ ih =>
    intro B B' hB hBB
    have h1 : B * a.2 ≤ B' * b.2 := Int.mul_le_mul hBB hab.2.2.2 hab.2.2.1 (by omega)
    have h2 := ih (B + a.1) (B' + b.1) (by omega) (by omega)
    rw [wct_cons, wct_cons]
    omega

theorem wct_mono (B B' : Int) (hB : 0 ≤ B) (hBB : B ≤ B') : ∀ (xs ys : List (Int × Int)),
    List.Forall₂ (fun x y => 0 ≤ x.1 ∧ x.1 ≤ y.1 ∧ 0 ≤ x.2 ∧ x.2 ≤ y.2) xs ys → wct B xs ≤ wct B' ys :=
  fun xs ys h => wct_mono_aux xs ys h B B' hB hBB

/-- how to build a `List.Forall₂`: the same list mapped by two functions -/
theorem forall₂_map_map {γ : Type} {α : Type} {β : Type} (R : α → β → Prop) (f : γ → α) (g : γ → β) (l : List γ)
    (h : ∀ x ∈ l, R (f x) (g x)) : List.Forall₂ R (l.map f) (l.map g) := by
  induction l with
  | nil => exact .nil
  | cons x l ih =>
    exact .cons (h x (List.mem_cons_self ..)) (ih (fun y hy => h y (List.mem_cons_of_mem _ hy)))

/-- `wct_mono` for the same list of jobs under two pointwise comparable `(length, cut)` assignments -/
theorem wct_mono_map {γ : Type} (B B' : Int) (hB : 0 ≤ B) (hBB : B ≤ B') (f g : γ → Int × Int) (l : List γ)
    (h : ∀ x ∈ l, 0 ≤ (f x).1 ∧ (f x).1 ≤ (g x).1 ∧ 0 ≤ (f x).2 ∧ (f x).2 ≤ (g x).2) :
    wct B (l.map f) ≤ wct B' (l.map g) :=
  wct_mono B B' hB hBB _ _ (forall₂_map_map _ f g l h)

#print axioms smith_rule_optimal
#print axioms cutBound_le
#print axioms wct_swap_eq
#print axioms wct_mono

end Ddo.Examples.SrflpModel
