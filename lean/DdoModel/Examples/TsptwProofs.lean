import DdoModel.WfRel
import DdoModel.Examples.TsptwModel
/-! Base of the proofs about the Lean model of the shipped tsptw example (`TsptwDp.lean`): well-formed tables (`TabOk`), valid
    states (`Valid`), total versions of the partial (panicking) functions of the model on valid states (`domain_eq`,
    `mem_domain_iff`, `trans_eq`, `cost_eq`), the generic value-to-go `brG` (`bestRemF` and `bestRemLF` are instances) and
    the simulation lemma `sim_le`: a state that starts no later, from more possible positions, with fewer mandatory cities
    and at least the same cities available is worth at least as much, the difference of the earliest times included. -/
namespace Ddo.Examples.TsptwModel
open Ddo Ddo.Examples

/-- bound on every number of the table and every time of a valid state (`usize` arithmetic then never overflows) -/
def BND : Nat := 2 ^ 40

/-- a table as `TsptwInstance` / `TsptwRelax::new` build it: a square matrix, one window per node, the cheapest incoming
    edges, at most 256 nodes (`Set256`), numbers far from the end of `usize` -/
structure TabOk (T : Tab) : Prop where
  n_pos : 1 ≤ T.n
  n_le : T.n ≤ 256
  d_len : T.d.length = T.n
  row_len : ∀ r ∈ T.d, r.length = T.n
  tw_len : T.tw.length = T.n
  ce_eq : T.ce = cheapestOf T.n T.d
  d_small : ∀ i j, distOf T.d i j < BND
  tw_small : ∀ p ∈ T.tw, p.1 < BND ∧ p.2 < BND

/-- optional cities of a state -/
def mb (s : St) : List Nat := s.maybe.getD []

/-- a state as the solver builds them: sets are sets (`Set256`: no duplicate), mandatory and optional cities are disjoint -/
structure Valid (T : Tab) (s : St) : Prop where
  depth_le : s.depth ≤ T.n
  last_pos : s.depth = T.n → ∀ p ∈ posSet s.pos, p = 0
  pos_ne : posSet s.pos ≠ []
  pos_lt : ∀ p ∈ posSet s.pos, p < T.n
  must_rng : ∀ i ∈ s.must, 1 ≤ i ∧ i < T.n
  must_pos : ∀ i ∈ s.must, i ∉ posSet s.pos
  maybe_rng : ∀ i ∈ mb s, 1 ≤ i ∧ i < T.n
  must_nd : s.must.Nodup
  maybe_nd : (mb s).Nodup
  disj : ∀ i ∈ s.must, i ∉ mb s
  e_small : s.el.earliest < BND
  l_small : s.el.latest < BND

theorem valid_of_validB {T : Tab} {s : St} (h : validB T s = true) (h1 : s.must.Nodup) (h2 : (mb s).Nodup)
    (h3 : ∀ i ∈ s.must, i ∉ mb s) : Valid T s := by
  simp only [validB, Bool.and_eq_true, Bool.or_eq_true, decide_eq_true_eq, List.all_eq_true, Bool.not_eq_true',
    List.isEmpty_eq_false_iff, beq_iff_eq, List.contains_eq_mem, decide_eq_false_iff_not] at h
  obtain ⟨⟨⟨⟨⟨⟨⟨⟨a1, a2⟩, a3⟩, a4⟩, a5⟩, a6⟩, a7⟩, a8⟩, a9⟩ := h
  refine ⟨a2, ?_, a4, a5, fun i hi => (a6 i hi).1, fun i hi => (a6 i hi).2, a7, h1, h2, h3, a8, a9⟩
  intro hd p hp
  rcases a3 with a3 | a3
  · omega
  · rw [a3] at hp; simpa using hp

-- ------------------------------------------------------------------------------------------------------------------
-- small list / option lemmas

theorem mapM_total {α β : Type} (f : α → Option β) (g : α → β) : ∀ l : List α, (∀ x ∈ l, f x = some (g x)) →
    l.mapM f = some (l.map g) := by
  intro l
  induction l with
  | nil => intro _; rfl
  | cons a t ih =>
    intro h
    rw [List.mapM_cons, h a List.mem_cons_self, ih (fun x hx => h x (List.mem_cons_of_mem _ hx))]
    rfl

theorem filterMapM_total {α : Type} (f : α → Option (Option α)) (g : α → Bool) : ∀ l : List α,
    (∀ x ∈ l, f x = some (if g x then some x else none)) → l.filterMapM f = some (l.filter g) := by
  intro l
  induction l with
  | nil => intro _; rfl
  | cons a t ih =>
    intro h
    rw [List.filterMapM_cons, h a List.mem_cons_self, ih (fun x hx => h x (List.mem_cons_of_mem _ hx))]
    cases hg : g a <;> simp [hg]

theorem foldl_min_le (f : Nat → Nat) : ∀ (l : List Nat) (a : Nat),
    l.foldl (fun m i => min m (f i)) a ≤ a ∧ (∀ i ∈ l, l.foldl (fun m i => min m (f i)) a ≤ f i) ∧
    (l.foldl (fun m i => min m (f i)) a = a ∨ ∃ i ∈ l, l.foldl (fun m i => min m (f i)) a = f i) := by
  intro l
  induction l with
  | nil => intro a; simp
  | cons x t ih =>
    intro a
    obtain ⟨h1, h2, h3⟩ := ih (min a (f x))
    simp only [List.foldl_cons, List.mem_cons, forall_eq_or_imp, exists_eq_or_imp]
    refine ⟨by omega, ⟨by omega, h2⟩, ?_⟩
    rcases h3 with h3 | h3
    · rw [h3]
      rcases Nat.le_total a (f x) with h | h
      · left; omega
      · right; left; omega
    · right; right; exact h3

theorem minNat_spec : ∀ l : List Nat, l ≠ [] → ∃ m, minNat l = some m ∧ m ∈ l ∧ ∀ x ∈ l, m ≤ x := by
  intro l hl
  cases l with
  | nil => exact absurd rfl hl
  | cons a t =>
    obtain ⟨h1, h2, h3⟩ := foldl_min_le id t a
    refine ⟨_, rfl, ?_, ?_⟩
    · rcases h3 with h3 | ⟨i, hi, h3⟩
      · have : t.foldl min a = a := h3
        rw [this]; exact List.mem_cons_self
      · have : t.foldl min a = i := h3
        rw [this]; exact List.mem_cons_of_mem _ hi
    · intro x hx
      rcases List.mem_cons.mp hx with rfl | hx
      · exact h1
      · exact h2 x hx

theorem foldl_max_ge (f : Nat → Nat) : ∀ (l : List Nat) (a : Nat),
    a ≤ l.foldl (fun m i => max m (f i)) a ∧ (∀ i ∈ l, f i ≤ l.foldl (fun m i => max m (f i)) a) ∧
    (l.foldl (fun m i => max m (f i)) a = a ∨ ∃ i ∈ l, l.foldl (fun m i => max m (f i)) a = f i) := by
  intro l
  induction l with
  | nil => intro a; simp
  | cons x t ih =>
    intro a
    obtain ⟨h1, h2, h3⟩ := ih (max a (f x))
    simp only [List.foldl_cons, List.mem_cons, forall_eq_or_imp, exists_eq_or_imp]
    refine ⟨by omega, ⟨by omega, h2⟩, ?_⟩
    rcases h3 with h3 | h3
    · rw [h3]
      rcases Nat.le_total a (f x) with h | h
      · right; left; omega
      · left; omega
    · right; right; exact h3

theorem maxNat_spec : ∀ l : List Nat, l ≠ [] → ∃ m, maxNat l = some m ∧ m ∈ l ∧ ∀ x ∈ l, x ≤ m := by
  intro l hl
  cases l with
  | nil => exact absurd rfl hl
  | cons a t =>
    obtain ⟨h1, h2, h3⟩ := foldl_max_ge id t a
    refine ⟨_, rfl, ?_, ?_⟩
    · rcases h3 with h3 | ⟨i, hi, h3⟩
      · have : t.foldl max a = a := h3
        rw [this]; exact List.mem_cons_self
      · have : t.foldl max a = i := h3
        rw [this]; exact List.mem_cons_of_mem _ hi
    · intro x hx
      rcases List.mem_cons.mp hx with rfl | hx
      · exact h1
      · exact h2 x hx

-- the fold of `EInt.max`
theorem EInt.le_max_left (a b : EInt) : a ≤ EInt.max a b := by
  cases a <;> cases b <;> simp [EInt.max] <;> omega
theorem EInt.le_max_right (a b : EInt) : b ≤ EInt.max a b := by
  cases a <;> cases b <;> simp [EInt.max] <;> omega
theorem EInt.max_cases (a b : EInt) : EInt.max a b = a ∨ EInt.max a b = b := by
  cases a <;> cases b <;> simp [EInt.max] <;> omega

theorem foldl_max_spec (f : Int → EInt) : ∀ (l : List Int) (acc : EInt),
    acc ≤ l.foldl (fun a v => EInt.max a (f v)) acc ∧
    (∀ v ∈ l, f v ≤ l.foldl (fun a v => EInt.max a (f v)) acc) ∧
    (l.foldl (fun a v => EInt.max a (f v)) acc = acc ∨ ∃ v ∈ l, l.foldl (fun a v => EInt.max a (f v)) acc = f v) := by
  intro l
  induction l with
  | nil => intro acc; exact ⟨EInt.le_refl _, (fun v hv => by cases hv), Or.inl rfl⟩
  | cons x t ih =>
    intro acc
    obtain ⟨h1, h2, h3⟩ := ih (EInt.max acc (f x))
    rw [List.foldl_cons]
    refine ⟨EInt.le_trans (EInt.le_max_left _ _) h1, ?_, ?_⟩
    · intro v hv
      rcases List.mem_cons.mp hv with rfl | hv
      · exact EInt.le_trans (EInt.le_max_right _ _) h1
      · exact h2 v hv
    · rcases h3 with h3 | ⟨v, hv, h3⟩
      · rcases EInt.max_cases acc (f x) with h | h
        · left; rw [h3, h]
        · right; exact ⟨x, List.mem_cons_self, by rw [h3, h]⟩
      · right; exact ⟨v, List.mem_cons_of_mem _ hv, h3⟩

theorem EInt.addI_mono {a b : EInt} (h : a ≤ b) (c : Int) : a.addI c ≤ b.addI c := by
  cases a <;> cases b <;> simp_all [EInt.addI]
theorem EInt.addI_addI (a : EInt) (c d : Int) : (a.addI c).addI d = a.addI (c + d) := by
  cases a <;> simp [EInt.addI]; omega

-- ------------------------------------------------------------------------------------------------------------------
-- total versions of the table look-ups

def eN (T : Tab) (j : Nat) : Nat := (T.tw.getD j (0, 0)).1
def lN (T : Tab) (j : Nat) : Nat := (T.tw.getD j (0, 0)).2
/-- `min_distance_to` / `max_distance_to` on a state with at least one position -/
def minD (T : Tab) (s : St) (j : Nat) : Nat := (minNat ((posSet s.pos).map (distOf T.d · j))).getD 0
def maxD (T : Tab) (s : St) (j : Nat) : Nat := (maxNat ((posSet s.pos).map (distOf T.d · j))).getD 0
/-- `can_move_to` -/
def reach (T : Tab) (s : St) (j : Nat) : Bool := decide (s.el.earliest + minD T s j ≤ lN T j)

section
variable {T : Tab} (hT : TabOk T)
include hT

theorem dist?_eq {i j : Nat} (hi : i < T.n) (hj : j < T.n) : dist? T i j = some (distOf T.d i j) := by
  have h1 : i < T.d.length := by rw [hT.d_len]; exact hi
  have h2 : (T.d[i]).length = T.n := hT.row_len _ (List.getElem_mem h1)
  have h3 : j < (T.d[i]).length := by omega
  simp [dist?, distOf, List.getD_eq_getElem?_getD, List.getElem?_eq_getElem h1, List.getElem?_eq_getElem h3]

theorem tw?_eq {j : Nat} (hj : j < T.n) : tw? T j = some (eN T j, lN T j) := by
  have h1 : j < T.tw.length := by rw [hT.tw_len]; exact hj
  simp [tw?, eN, lN, List.getD_eq_getElem?_getD, List.getElem?_eq_getElem h1]

theorem eN_small {j : Nat} (hj : j < T.n) : eN T j < BND := by
  have h1 : j < T.tw.length := by rw [hT.tw_len]; exact hj
  have := (hT.tw_small _ (List.getElem_mem h1)).1
  simpa [eN, List.getD_eq_getElem?_getD, List.getElem?_eq_getElem h1] using this

theorem lN_small {j : Nat} (hj : j < T.n) : lN T j < BND := by
  have h1 : j < T.tw.length := by rw [hT.tw_len]; exact hj
  have := (hT.tw_small _ (List.getElem_mem h1)).2
  simpa [lN, List.getD_eq_getElem?_getD, List.getElem?_eq_getElem h1] using this

omit hT in
theorem minD_spec {s : St} (hp : posSet s.pos ≠ []) (j : Nat) :
    (∃ p ∈ posSet s.pos, minD T s j = distOf T.d p j) ∧ ∀ p ∈ posSet s.pos, minD T s j ≤ distOf T.d p j := by
  obtain ⟨m, hm, h1, h2⟩ := minNat_spec ((posSet s.pos).map (distOf T.d · j)) (by simpa using hp)
  simp only [minD, hm, Option.getD_some]
  obtain ⟨p, hp1, hp2⟩ := List.mem_map.mp h1
  exact ⟨⟨p, hp1, hp2.symm⟩, fun p hp => h2 _ (List.mem_map.mpr ⟨p, hp, rfl⟩)⟩

omit hT in
theorem maxD_spec {s : St} (hp : posSet s.pos ≠ []) (j : Nat) :
    (∃ p ∈ posSet s.pos, maxD T s j = distOf T.d p j) ∧ ∀ p ∈ posSet s.pos, distOf T.d p j ≤ maxD T s j := by
  obtain ⟨m, hm, h1, h2⟩ := maxNat_spec ((posSet s.pos).map (distOf T.d · j)) (by simpa using hp)
  simp only [maxD, hm, Option.getD_some]
  obtain ⟨p, hp1, hp2⟩ := List.mem_map.mp h1
  exact ⟨⟨p, hp1, hp2.symm⟩, fun p hp => h2 _ (List.mem_map.mpr ⟨p, hp, rfl⟩)⟩

theorem minD_small {s : St} (hp : posSet s.pos ≠ []) (j : Nat) : minD T s j < BND := by
  obtain ⟨⟨p, _, h⟩, _⟩ := minD_spec (T := T) hp j
  rw [h]; exact hT.d_small _ _
theorem maxD_small {s : St} (hp : posSet s.pos ≠ []) (j : Nat) : maxD T s j < BND := by
  obtain ⟨⟨p, _, h⟩, _⟩ := maxD_spec (T := T) hp j
  rw [h]; exact hT.d_small _ _

omit hT in
theorem minD_le_maxD {s : St} (hp : posSet s.pos ≠ []) (j : Nat) : minD T s j ≤ maxD T s j := by
  obtain ⟨⟨p, hp1, h⟩, _⟩ := minD_spec (T := T) hp j
  rw [h]; exact (maxD_spec hp j).2 p hp1

theorem minDist?_eq {s : St} (hV : Valid T s) {j : Nat} (hj : j < T.n) : minDist? T s j = some (minD T s j) := by
  unfold minDist? minD
  cases hpos : s.pos with
  | node i =>
    have : i < T.n := hV.pos_lt i (by simp [posSet, hpos])
    simp [posSet, dist?_eq hT this hj, minNat]
  | virt c =>
    have hc : ∀ p ∈ c, p < T.n := fun p hp => hV.pos_lt p (by simpa [posSet, hpos] using hp)
    have hne : c ≠ [] := by have := hV.pos_ne; simpa [posSet, hpos] using this
    simp only [posSet]
    rw [mapM_total _ (distOf T.d · j) c (fun p hp => dist?_eq hT (hc p hp) hj)]
    obtain ⟨m, hm, _⟩ := minNat_spec (c.map (distOf T.d · j)) (by simpa using hne)
    simp [hm]

theorem maxDist?_eq {s : St} (hV : Valid T s) {j : Nat} (hj : j < T.n) : maxDist? T s j = some (maxD T s j) := by
  unfold maxDist? maxD
  cases hpos : s.pos with
  | node i =>
    have : i < T.n := hV.pos_lt i (by simp [posSet, hpos])
    simp [posSet, dist?_eq hT this hj, maxNat]
  | virt c =>
    have hc : ∀ p ∈ c, p < T.n := fun p hp => hV.pos_lt p (by simpa [posSet, hpos] using hp)
    have hne : c ≠ [] := by have := hV.pos_ne; simpa [posSet, hpos] using this
    simp only [posSet]
    rw [mapM_total _ (distOf T.d · j) c (fun p hp => dist?_eq hT (hc p hp) hj)]
    obtain ⟨m, hm, _⟩ := maxNat_spec (c.map (distOf T.d · j)) (by simpa using hne)
    simp [hm]

omit hT in
theorem addDur?_ok {el : El} {x : Nat} (h1 : el.earliest < BND) (h2 : el.latest < BND) (hx : x < BND) :
    ∃ a, addDur? el x = some a ∧ a.earliest = el.earliest + x ∧ a.latest = el.latest + x := by
  have hb : BND + BND ≤ umax := by decide
  cases el with
  | fixed d =>
    simp only [El.earliest, El.latest] at h1 h2
    have : d + x ≤ umax := by omega
    exact ⟨.fixed (d + x), by simp [addDur?, uadd?, this], rfl, rfl⟩
  | fuzzy e l =>
    simp only [El.earliest, El.latest] at h1 h2
    have : e + x ≤ umax := by omega
    have : l + x ≤ umax := by omega
    exact ⟨.fuzzy (e + x) (l + x), by simp [addDur?, uadd?, *], rfl, rfl⟩

theorem canMove?_eq {s : St} (hV : Valid T s) {j : Nat} (hj : j < T.n) : canMove? T s j = some (reach T s j) := by
  obtain ⟨a, ha, ha1, _⟩ := addDur?_ok hV.e_small hV.l_small (minD_small hT hV.pos_ne j)
  simp [canMove?, tw?_eq hT hj, minDist?_eq hT hV hj, ha, ha1, reach]

theorem allReach?_eq {s : St} (hV : Valid T s) : ∀ l : List Nat, (∀ i ∈ l, i < T.n) →
    allReach? T s l = some (l.all (reach T s)) := by
  intro l
  induction l with
  | nil => intro _; rfl
  | cons a t ih =>
    intro h
    have ha : a < T.n := h a List.mem_cons_self
    simp only [allReach?, canMove?_eq hT hV ha, Option.bind_eq_bind, Option.bind_some, List.all_cons]
    cases reach T s a
    · simp
    · simp [ih (fun i hi => h i (List.mem_cons_of_mem _ hi))]

/-- **the domain of a valid state**, no panic -/
theorem domain_eq {s : St} (hV : Valid T s) : domain T s =
    if s.depth = T.n - 1 then (if reach T s 0 then [0] else [])
    else if s.must.all (reach T s) then (s.must ++ (mb s).filter (reach T s)).map Int.ofNat else [] := by
  have hn := hT.n_pos
  unfold domain domain?
  rw [if_neg (by omega)]
  by_cases hd : s.depth = T.n - 1
  · simp only [hd, if_true, canMove?_eq hT hV (show 0 < T.n by omega)]
    cases reach T s 0 <;> simp
  · simp only [hd, if_false]
    rw [allReach?_eq hT hV s.must (fun i hi => (hV.must_rng i hi).2)]
    simp only [Option.bind_eq_bind, Option.bind_some]
    cases hall : s.must.all (reach T s)
    · simp
    · simp only [Bool.not_true, Bool.false_eq_true, if_false, if_true]
      cases hm : s.maybe with
      | none => simp [mb, hm]
      | some ys =>
        have : ys.filterMapM (fun i => (canMove? T s i).bind fun b => some (if b = true then some i else none))
            = some (ys.filter (reach T s)) := by
          apply filterMapM_total
          intro x hx
          have hx' : x < T.n := (hV.maybe_rng x (by simpa [mb, hm] using hx)).2
          simp [canMove?_eq hT hV hx']
        simp [this, mb, hm]

/-- `j` is in the domain of the state `s` -/
def InDom (T : Tab) (s : St) (j : Nat) : Prop :=
  reach T s j = true ∧
  ((s.depth = T.n - 1 ∧ j = 0) ∨
   (s.depth ≠ T.n - 1 ∧ (∀ i ∈ s.must, reach T s i = true) ∧ (j ∈ s.must ∨ j ∈ mb s)))

theorem mem_domain_iff {s : St} (hV : Valid T s) (v : Int) : v ∈ domain T s ↔ ∃ j : Nat, v = (j : Int) ∧ InDom T s j := by
  rw [domain_eq hT hV]
  unfold InDom
  by_cases hd : s.depth = T.n - 1
  · simp only [hd, if_true, true_and, ne_eq, not_true_eq_false, false_and, or_false]
    cases h0 : reach T s 0
    · simp only [Bool.false_eq_true, if_false, List.not_mem_nil, false_iff]
      rintro ⟨j, _, hr, rfl⟩
      rw [h0] at hr; cases hr
    · simp only [if_true, List.mem_singleton]
      constructor
      · rintro rfl; exact ⟨0, rfl, h0, rfl⟩
      · rintro ⟨j, rfl, _, rfl⟩; rfl
  · simp only [hd, if_false, false_and, false_or, ne_eq, not_false_eq_true, true_and]
    by_cases hall : s.must.all (reach T s) = true
    · simp only [hall, if_true, List.mem_map, List.mem_append, List.mem_filter]
      have hall' := List.all_eq_true.mp hall
      constructor
      · rintro ⟨j, hj, rfl⟩
        refine ⟨j, rfl, ?_, hall', ?_⟩
        · rcases hj with hj | hj
          · exact hall' j hj
          · exact hj.2
        · rcases hj with hj | hj
          · exact Or.inl hj
          · exact Or.inr hj.1
      · rintro ⟨j, rfl, hr, _, hj⟩
        refine ⟨j, ?_, rfl⟩
        rcases hj with hj | hj
        · exact Or.inl hj
        · exact Or.inr ⟨hj, hr⟩
    · simp only [hall, Bool.false_eq_true, if_false, List.not_mem_nil, false_iff]
      rintro ⟨j, _, _, h, _⟩
      exact hall (List.all_eq_true.mpr h)

omit hT in
theorem InDom.lt {s : St} (hV : Valid T s) (hn : 1 ≤ T.n) {j : Nat} (h : InDom T s j) : j < T.n := by
  rcases h.2 with ⟨_, rfl⟩ | ⟨_, _, h | h⟩
  · omega
  · exact (hV.must_rng j h).2
  · exact (hV.maybe_rng j h).2

end

-- ------------------------------------------------------------------------------------------------------------------
-- transitions and costs of a valid state, no panic

theorem earliest_fixed (d : Nat) : (El.fixed d).earliest = d := rfl
theorem earliest_fuzzy (e l : Nat) : (El.fuzzy e l).earliest = e := rfl
theorem latest_fixed (d : Nat) : (El.fixed d).latest = d := rfl
theorem latest_fuzzy (e l : Nat) : (El.fuzzy e l).latest = l := rfl

/-- the successor of `s` by the city `j` with elapsed time `el` -/
def succSt (s : St) (j : Nat) (el : El) : St :=
  { pos := .node j, el := el, must := s.must.erase j, maybe := s.maybe.map (·.erase j), depth := s.depth + 1 }

theorem mb_succSt (s : St) (j : Nat) (el : El) : mb (succSt s j el) = (mb s).erase j := by
  unfold mb succSt
  cases s.maybe <;> simp

section
variable {T : Tab} (hT : TabOk T)
include hT

theorem trans_eq {s : St} (hV : Valid T s) {j : Nat} (hj : j < T.n) (hr : reach T s j = true) (x : Nat) :
    ∃ el, trans T s ⟨x, (j : Int)⟩ = succSt s j el ∧ el.earliest = max (s.el.earliest + minD T s j) (eN T j) ∧
      el.earliest < BND ∧ el.latest < BND := by
  obtain ⟨a1, ha1, ha1e, _⟩ := addDur?_ok hV.e_small hV.l_small (minD_small hT hV.pos_ne j)
  obtain ⟨a2, ha2, _, ha2l⟩ := addDur?_ok hV.e_small hV.l_small (maxD_small hT hV.pos_ne j)
  have hl := lN_small hT hj
  have he := eN_small hT hj
  have hr' : s.el.earliest + minD T s j ≤ lN T j := by simpa [reach] using hr
  have hc : ¬ (((j : Nat) : Int) < 0 ∨ ((j : Nat) : Int) ≥ (T.n : Int)) := by omega
  unfold trans trans?
  simp only [hc, if_false, Int.toNat_natCast, arrival?, minDist?_eq hT hV hj, maxDist?_eq hT hV hj, ha1, ha2, tw?_eq hT hj,
    Option.bind_eq_bind, Option.bind_some, ha1e, ha2l]
  by_cases hab : s.el.earliest + minD T s j = s.el.latest + maxD T s j
  · simp only [hab, if_true, Option.pure_def, Option.bind_some, Option.getD_some]
    refine ⟨_, rfl, ?_, ?_, ?_⟩ <;> simp only [earliest_fixed, latest_fixed] <;> omega
  · simp only [hab, if_false, Option.pure_def, Option.bind_some, Option.getD_some]
    refine ⟨_, rfl, ?_, ?_, ?_⟩
    · split <;> simp only [earliest_fixed, earliest_fuzzy]
    · split <;> simp only [earliest_fixed, earliest_fuzzy] <;> omega
    · split <;> simp only [latest_fixed, latest_fuzzy] <;> omega

theorem cost_eq {s : St} (hV : Valid T s) {j : Nat} (hj : j < T.n) (x : Nat) :
    cost T s ⟨x, (j : Int)⟩ = (s.el.earliest : Int) - ((max (s.el.earliest + minD T s j) (eN T j) : Nat) : Int) := by
  have hc : ¬ (((j : Nat) : Int) < 0 ∨ ((j : Nat) : Int) ≥ (T.n : Int)) := by omega
  have hm := minD_small hT hV.pos_ne j
  have he := hV.e_small
  have hb : BND + BND ≤ umax := by decide
  have hu : uadd? s.el.earliest (minD T s j) = some (s.el.earliest + minD T s j) := by
    simp [uadd?]; omega
  unfold cost cost?
  simp only [hc, if_false, Int.toNat_natCast, tw?_eq hT hj, minDist?_eq hT hV hj, hu, Option.bind_eq_bind, Option.bind_some,
    Option.pure_def, Option.getD_some]
  split <;> omega

/-- the successors of a valid state (not on the last layer) by the cities of its domain are valid -/
theorem valid_succ {s : St} (hV : Valid T s) (hd : s.depth < T.n) {j : Nat} (hj : InDom T s j) {el : El}
    (h1 : el.earliest < BND) (h2 : el.latest < BND) : Valid T (succSt s j el) := by
  have hjn := hj.lt hV hT.n_pos
  refine ⟨?_, ?_, ?_, ?_, ?_, ?_, ?_, ?_, ?_, ?_, h1, h2⟩
  · show s.depth + 1 ≤ T.n; omega
  · intro hdn p hp
    have hdn : s.depth + 1 = T.n := hdn
    have : p = j := by simpa [succSt, posSet] using hp
    rcases hj.2 with ⟨_, h0⟩ | ⟨hne, _⟩
    · omega
    · omega
  · simp [succSt, posSet]
  · intro p hp
    have : p = j := by simpa [succSt, posSet] using hp
    omega
  · intro i hi
    exact hV.must_rng i (List.mem_of_mem_erase hi)
  · intro i hi hp
    have : i = j := by simpa [succSt, posSet] using hp
    subst this
    exact (hV.must_nd.mem_erase_iff.mp hi).1 rfl
  · intro i hi
    rw [mb_succSt] at hi
    exact hV.maybe_rng i (List.mem_of_mem_erase hi)
  · exact hV.must_nd.erase j
  · rw [mb_succSt]; exact hV.maybe_nd.erase j
  · intro i hi hm
    rw [mb_succSt] at hm
    exact hV.disj i (List.mem_of_mem_erase hi) (List.mem_of_mem_erase hm)

end

-- ------------------------------------------------------------------------------------------------------------------
-- the value-to-go, generic in what is asked of the last state

/-- `bestRemF` / `bestRemLF` with the value of a state without remaining step as a parameter -/
def brG (T : Tab) (term : St → EInt) : Nat → St → EInt
  | 0, s => term s
  | fuel + 1, s =>
    if s.depth ≥ T.n then term s else
    (domain T s).foldl (fun acc v => EInt.max acc ((brG T term fuel (trans T s ⟨s.depth, v⟩)).addI (cost T s ⟨s.depth, v⟩))) none

def termAny : St → EInt := fun _ => some 0
def termL : St → EInt := fun s => if s.must.isEmpty then some 0 else none

theorem bestRemF_eq (T : Tab) : ∀ fuel s, bestRemF T fuel s = brG T termAny fuel s := by
  intro fuel
  induction fuel with
  | zero => intro s; rfl
  | succ n ih => intro s; simp only [bestRemF, brG, ih]; rfl

theorem bestRemLF_eq (T : Tab) : ∀ fuel s, bestRemLF T fuel s = brG T termL fuel s := by
  intro fuel
  induction fuel with
  | zero => intro s; rfl
  | succ n ih => intro s; simp only [bestRemLF, brG, ih]; rfl

/-- `m` simulates `u`: same layer, at least the positions, no later, fewer mandatory cities, at least the same cities -/
structure Sim (m u : St) : Prop where
  depth : m.depth = u.depth
  pos : ∀ p ∈ posSet u.pos, p ∈ posSet m.pos
  e : m.el.earliest ≤ u.el.earliest
  must : ∀ i ∈ m.must, i ∈ u.must
  cover : ∀ i, i ∈ u.must ∨ i ∈ mb u → i ∈ m.must ∨ i ∈ mb m

theorem Sim.refl (s : St) : Sim s s := ⟨rfl, fun _ h => h, Nat.le_refl _, fun _ h => h, fun _ h => h⟩

theorem minD_anti {T : Tab} {m u : St} (h : Sim m u) (hm : posSet m.pos ≠ []) (hu : posSet u.pos ≠ []) (j : Nat) :
    minD T m j ≤ minD T u j := by
  obtain ⟨⟨p, hp, e⟩, _⟩ := minD_spec (T := T) hu j
  rw [e]
  exact (minD_spec hm j).2 p (h.pos p hp)

theorem reach_mono {T : Tab} {m u : St} (h : Sim m u) (hm : posSet m.pos ≠ []) (hu : posSet u.pos ≠ []) {j : Nat}
    (hr : reach T u j = true) : reach T m j = true := by
  have := minD_anti (T := T) h hm hu j
  have := h.e
  simp only [reach, decide_eq_true_eq] at hr ⊢
  omega

theorem inDom_mono {T : Tab} {m u : St} (h : Sim m u) (hm : Valid T m) (hu : Valid T u) {j : Nat} (hj : InDom T u j) :
    InDom T m j := by
  refine ⟨reach_mono h hm.pos_ne hu.pos_ne hj.1, ?_⟩
  rcases hj.2 with ⟨h1, h2⟩ | ⟨h1, h2, h3⟩
  · left; exact ⟨by rw [h.depth]; exact h1, h2⟩
  · right
    refine ⟨by rw [h.depth]; exact h1, fun i hi => reach_mono h hm.pos_ne hu.pos_ne (h2 i (h.must i hi)), h.cover j h3⟩

theorem sim_succ {T : Tab} {m u : St} (h : Sim m u) (hm : Valid T m) (hu : Valid T u) (j : Nat) {em eu : El}
    (he : em.earliest ≤ eu.earliest) : Sim (succSt m j em) (succSt u j eu) := by
  refine ⟨?_, fun p hp => hp, he, ?_, ?_⟩
  · show m.depth + 1 = u.depth + 1; rw [h.depth]
  · intro i hi
    have hi : i ∈ m.must.erase j := hi
    obtain ⟨h1, h2⟩ := hm.must_nd.mem_erase_iff.mp hi
    exact (List.mem_erase_of_ne h1).mpr (h.must i h2)
  · intro i hi
    rw [mb_succSt] at hi ⊢
    have hne : i ≠ j := by
      rcases hi with hi | hi
      · exact (hu.must_nd.mem_erase_iff.mp hi).1
      · exact (hu.maybe_nd.mem_erase_iff.mp hi).1
    have : i ∈ u.must ∨ i ∈ mb u := by
      rcases hi with hi | hi
      · exact Or.inl (List.mem_of_mem_erase hi)
      · exact Or.inr (List.mem_of_mem_erase hi)
    rcases h.cover i this with h' | h'
    · exact Or.inl ((List.mem_erase_of_ne hne).mpr h')
    · exact Or.inr ((List.mem_erase_of_ne hne).mpr h')

/-- **simulation**: a state that simulates another is worth at least as much, the head start included -/
theorem sim_le {T : Tab} (hT : TabOk T) (term : St → EInt)
    (hterm : ∀ m u, Sim m u → (term u).addI (-(u.el.earliest : Int)) ≤ (term m).addI (-(m.el.earliest : Int))) :
    ∀ fuel m u, Sim m u → Valid T m → Valid T u →
      (brG T term fuel u).addI (-(u.el.earliest : Int)) ≤ (brG T term fuel m).addI (-(m.el.earliest : Int)) := by
  intro fuel
  induction fuel with
  | zero => intro m u h _ _; exact hterm m u h
  | succ n ih =>
    intro m u h hm hu
    simp only [brG]
    rw [h.depth]
    by_cases hd : u.depth ≥ T.n
    · simp only [hd, if_true]; exact hterm m u h
    · simp only [hd, if_false]
      obtain ⟨_, _, h3⟩ := foldl_max_spec (fun v => (brG T term n (trans T u ⟨u.depth, v⟩)).addI (cost T u ⟨u.depth, v⟩))
        (domain T u) none
      obtain ⟨_, k2, _⟩ := foldl_max_spec (fun v => (brG T term n (trans T m ⟨u.depth, v⟩)).addI (cost T m ⟨u.depth, v⟩))
        (domain T m) none
      rcases h3 with h3 | ⟨v, hv, h3⟩
      · rw [h3]; exact EInt.none_le _
      · rw [h3]
        obtain ⟨j, rfl, hj⟩ := (mem_domain_iff hT hu v).mp hv
        have hjm := inDom_mono h hm hu hj
        have hjn := hj.lt hu hT.n_pos
        refine EInt.le_trans ?_ (EInt.addI_mono (k2 _ ((mem_domain_iff hT hm _).mpr ⟨j, rfl, hjm⟩)) _)
        obtain ⟨eu, htu, heu, heu1, heu2⟩ := trans_eq hT hu hjn hj.1 u.depth
        obtain ⟨em, htm, hem, hem1, hem2⟩ := trans_eq hT hm hjn hjm.1 u.depth
        rw [htu, htm, cost_eq hT hu hjn, cost_eq hT hm hjn, EInt.addI_addI, EInt.addI_addI]
        have hle : em.earliest ≤ eu.earliest := by
          have := minD_anti (T := T) h hm.pos_ne hu.pos_ne j
          have := h.e
          omega
        have hd' : u.depth < T.n := by omega
        have hdm : m.depth < T.n := by rw [h.depth]; exact hd'
        have := ih _ _ (sim_succ h hm hu j hle) (valid_succ hT hm hdm hjm hem1 hem2) (valid_succ hT hu hd' hj heu1 heu2)
        have e1 : (↑u.el.earliest - ((max (u.el.earliest + minD T u j) (eN T j) : Nat) : Int) + -(u.el.earliest : Int))
            = -((succSt u j eu).el.earliest : Int) := by
          show _ = -(eu.earliest : Int); rw [heu]; omega
        have e2 : (↑m.el.earliest - ((max (m.el.earliest + minD T m j) (eN T j) : Nat) : Int) + -(m.el.earliest : Int))
            = -((succSt m j em).el.earliest : Int) := by
          show _ = -(em.earliest : Int); rw [hem]; omega
        rw [e1, e2]
        exact this

-- ------------------------------------------------------------------------------------------------------------------
-- the states reached exactly

/-- what holds of a state reached exactly at depth `k` with value `v` -/
structure Exact (T : Tab) (k : Nat) (s : St) (v : Int) : Prop where
  valid : Valid T s
  depth : s.depth = k
  maybe : s.maybe = none
  node : ∃ i, s.pos = .node i
  value : v = -(s.el.earliest : Int)
  count : k < T.n → s.must.length + k + 1 = T.n

theorem nextVar_some {T : Tab} {k x : Nat} {L : List St} (h : (problem T).nextVar k L = some x) : k ≠ T.n ∧ x = k := by
  simp only [problem, nextVar] at h
  split at h
  · cases h
  · next hk => exact ⟨hk, by cases h; rfl⟩

theorem nextVar_none {T : Tab} {k : Nat} {L : List St} (h : (problem T).nextVar k L = none) : k = T.n := by
  simp only [problem, nextVar] at h
  split at h
  · next hk => exact hk
  · cases h

theorem valid_init {T : Tab} (hT : TabOk T) : Valid T (initSt T) := by
  have hn := hT.n_pos
  have hm : ∀ i ∈ (List.range T.n).drop 1, 1 ≤ i ∧ i < T.n := by
    intro i hi
    obtain ⟨k, hk, rfl⟩ := List.mem_iff_getElem.mp hi
    simp at hk ⊢
    omega
  refine ⟨Nat.zero_le _, ?_, ?_, ?_, hm, ?_, ?_, ?_, ?_, ?_, ?_, ?_⟩
  · intro _ p hp; simpa [initSt, posSet] using hp
  · simp [initSt, posSet]
  · intro p hp
    have : p = 0 := by simpa [initSt, posSet] using hp
    omega
  · intro i hi hp
    have : i = 0 := by simpa [initSt, posSet] using hp
    have := (hm i hi).1
    omega
  · intro i hi; simp [mb, initSt] at hi
  · exact (List.drop_sublist 1 _).nodup List.nodup_range
  · simp [mb, initSt]
  · intro i _ hi; simp [mb, initSt] at hi
  · simp [initSt, El.earliest, BND]
  · simp [initSt, El.latest, BND]

theorem exact_init {T : Tab} (hT : TabOk T) : Exact T 0 (initSt T) 0 := by
  refine ⟨valid_init hT, rfl, rfl, ⟨0, rfl⟩, by simp [initSt, El.earliest], ?_⟩
  intro _
  have := hT.n_pos
  simp [initSt]; omega

/-- one step from an exact state by a city of its domain -/
theorem exact_step {T : Tab} (hT : TabOk T) {k : Nat} {s : St} {v : Int} (h : Exact T k s v) (hk : k ≠ T.n) {j : Nat}
    (hj : InDom T s j) (x : Nat) :
    Exact T (k + 1) (trans T s ⟨x, (j : Int)⟩) (v + cost T s ⟨x, (j : Int)⟩) := by
  have hV := h.valid
  have hd : s.depth < T.n := by have := hV.depth_le; have := h.depth; omega
  have hjn := hj.lt hV hT.n_pos
  obtain ⟨el, ht, he, he1, he2⟩ := trans_eq hT hV hjn hj.1 x
  rw [ht, cost_eq hT hV hjn]
  refine ⟨valid_succ hT hV hd hj he1 he2, ?_, ?_, ⟨j, rfl⟩, ?_, ?_⟩
  · show s.depth + 1 = k + 1; rw [h.depth]
  · show s.maybe.map _ = none; rw [h.maybe]; rfl
  · show _ = -(el.earliest : Int); rw [he, h.value]; omega
  · intro hk1
    have hc := h.count (by omega)
    have hjm : j ∈ s.must := by
      rcases hj.2 with ⟨h1, _⟩ | ⟨_, _, h3 | h3⟩
      · rw [h.depth] at h1; omega
      · exact h3
      · simp [mb, h.maybe] at h3
    show (s.must.erase j).length + (k + 1) + 1 = T.n
    rw [List.length_erase_of_mem hjm]
    have : 0 < s.must.length := List.length_pos_of_mem hjm
    omega

theorem reach_exact {T : Tab} (hT : TabOk T) {k : Nat} {s : St} {v : Int} {p : List Dec} (h : Reach (problem T) k s v p) :
    Exact T k s v := by
  induction h with
  | root => exact exact_init hT
  | step k s v p L x d _ hx _ hd ih =>
    obtain ⟨hk, rfl⟩ := nextVar_some hx
    obtain ⟨j, rfl, hj⟩ := (mem_domain_iff hT ih.valid d).mp hd
    exact exact_step hT ih hk hj _

/-- a checkable form of `TabOk` -/
def tabOkB (T : Tab) : Bool :=
  decide (1 ≤ T.n) && decide (T.n ≤ 256) && decide (T.d.length = T.n) &&
  T.d.all (fun r => decide (r.length = T.n) && r.all (fun x => decide (x < BND))) &&
  decide (T.tw.length = T.n) && decide (T.ce = cheapestOf T.n T.d) &&
  T.tw.all (fun p => decide (p.1 < BND) && decide (p.2 < BND))

theorem tabOk_of_tabOkB {T : Tab} (h : tabOkB T = true) : TabOk T := by
  simp only [tabOkB, Bool.and_eq_true, decide_eq_true_eq, List.all_eq_true] at h
  obtain ⟨⟨⟨⟨⟨⟨a1, a2⟩, a3⟩, a4⟩, a5⟩, a6⟩, a7⟩ := h
  refine ⟨a1, a2, a3, fun r hr => (a4 r hr).1, a5, a6, ?_, a7⟩
  intro i j
  unfold distOf
  by_cases hi : i < T.d.length
  · by_cases hj : j < (T.d[i]).length
    · have := (a4 _ (List.getElem_mem hi)).2 _ (List.getElem_mem hj)
      simpa [List.getD_eq_getElem?_getD, List.getElem?_eq_getElem hi, List.getElem?_eq_getElem hj] using this
    · simp [List.getD_eq_getElem?_getD, List.getElem?_eq_getElem hi, List.getElem?_eq_none (Nat.le_of_not_lt hj), BND]
  · simp [List.getD_eq_getElem?_getD, List.getElem?_eq_none (Nat.le_of_not_lt hi), BND]

theorem exT_tabOk : TabOk exT := tabOk_of_tabOkB (by decide)

end Ddo.Examples.TsptwModel
