import DdoModel.Examples.Util
/-! Specification of the mcp example (`ddo/examples/mcp`): MAXIMUM CUT.
    Given an undirected graph on vertices `1..n` with integer (possibly negative) edge weights, split the
    vertices into two sides `S` / `T` so as to maximise the total weight of the edges having one end
    point on each side.  The program prints that maximum (`Objective: <w>`); putting every vertex on the
    same side cuts nothing, so the value is never negative.
    Instance file: a line `<n> <m>`, then `<u> <v> <w>` lines (1-based, undirected), `c …` comments.
    Each edge is meant to be listed once and `u ≠ v`: the reader keeps the LAST weight of a repeated edge
    whereas this specification adds parallel edges up, and a self-loop is never cut — the generator
    produces those only under the tags `ood_duplicate_edges` / `ood_self_loop`.
    By exhaustive enumeration of all `2^n` sides `S`, independently of the DP model. -/
namespace Ddo.Examples.Mcp
open Ddo.Examples.Util

/-- weight of the edges with exactly one end point in `s` -/
def cutWeight (edges : List (Int × Int × Int)) (s : List Int) : Int :=
  sum <| edges.map fun (u, v, w) => if s.contains u != s.contains v then w else 0

def best (n : Nat) (edges : List (Int × Int × Int)) : Option Int :=
  let vertices : List Int := oneTo n
  maxOf <| (sublists vertices).map (cutWeight edges)

/-- tokens: `n m (u v w)*m` -/
def specFromTokens : List Int → Option Int
  | n :: m :: rest =>
    if n < 0 ∨ m < 0 then none else
    match triples? rest with
    | none => none
    | some edges =>
      if edges.length = m.toNat ∧ edges.all (fun (u, v, _) => 1 ≤ u ∧ u ≤ n ∧ 1 ≤ v ∧ v ≤ n)
      then best n.toNat edges else none
  | _ => none

end Ddo.Examples.Mcp
