import DdoModel.Wf
import DdoModel.Examples.TsptwDp
/-! Statements about the Lean model of the shipped tsptw example (`TsptwDp.lean`): the lemmas that could be proved, and the
    rest stated as `def … : Prop` (what the driver engine `exmodel`, family `tsptw`, evaluates pointwise).

    The main point, proved here on a concrete 5-node instance of the domain (`potential_form_fails`): the relaxation of this
    example does NOT satisfy `MergeOk` in the potential (arc by arc) form of `Wf.lean` — `relax` is the identity, `merge` keeps
    the EARLIEST time of the merged states, and a later arrival that is merged with an earlier one and then absorbed by a wait
    is charged the wait twice.  What the relaxation does satisfy is the VALUE form (`MergeValOk`: the value of every node of
    a diagram of this model is minus the earliest time of its state — `ValueInv` —, and minus the earliest time plus the
    value-to-go does not decrease through a merge); on the same instance the value form holds (`value_form_holds_there`). -/
namespace Ddo.Examples.TsptwModel
open Ddo Ddo.Examples

-- ------------------------------------------------------------------------------------------------------------------
-- proved

/-- `TsptwRelax::relax` is the identity on costs -/
theorem relax_id (T : Tab) (src u m : St) (d : Dec) (c : Int) : (relaxationOld T).relax src u m d c = c := rfl
theorem relax_eq (T : Tab) (src u m : St) (d : Dec) (c : Int) :
    (relaxation T).relax src u m d c = c + ((u.el.earliest : Int) - (m.el.earliest : Int)) := rfl

/-- `merge` is the `merge` of the relaxation (no table is read) -/
theorem relaxation_merge (T : Tab) (X : List St) : (relaxationOld T).merge X = merge X := rfl

/-- the root: at the depot, at time 0, value 0 — the value invariant holds at the root -/
theorem valueInv_root (T : Tab) : valueInv (problem T).init (problem T).initVal = true := by
  simp [valueInv, problem, initSt, El.earliest]

/-- every transition cost is a negated duration -/
theorem cost?_nonpos (T : Tab) (s : St) (d : Dec) (c : Int) (h : cost? T s d = some c) : c ≤ 0 := by
  unfold cost? at h
  split at h
  · cases h
  · cases h1 : tw? T d.val.toNat with
    | none => simp [h1] at h
    | some p =>
      cases h2 : minDist? T s d.val.toNat with
      | none => simp [h1, h2] at h
      | some travel =>
        cases h3 : uadd? s.el.earliest travel with
        | none => simp [h1, h2, h3] at h
        | some a =>
          simp [h1, h2, h3] at h
          omega

theorem cost_nonpos (T : Tab) (s : St) (d : Dec) : cost T s d ≤ 0 := by
  unfold cost
  cases h : cost? T s d with
  | none => simp
  | some c => simpa using cost?_nonpos T s d c h

/-- a transition goes one layer down, to a single position -/
theorem trans?_depth (T : Tab) (s s' : St) (d : Dec) (h : trans? T s d = some s') :
    s'.depth = s.depth + 1 ∧ s'.pos = .node d.val.toNat := by
  unfold trans? at h
  split at h
  · cases h
  · cases h1 : arrival? T s d.val.toNat with
    | none => simp [h1] at h
    | some el => simp [h1] at h; subst h; exact ⟨rfl, rfl⟩

/-- the ranking only looks at the depth -/
theorem rankCmp_eq_of_depth (a b : St) (h : a.depth = b.depth) : rankCmp a b = .eq := by
  simp [rankCmp, h, compare, compareOfLessAndEq]

/-- the dominance verdict is antisymmetric in the two values -/
theorem domCmp_swap (va vb : Int) : (domCmp vb va).1 = (domCmp va vb).1.swap := by
  unfold domCmp
  rcases Int.lt_trichotomy va vb with h | h | h
  · have h1 : compare va vb = .lt := by simp [compare, compareOfLessAndEq, h]
    have h2 : compare vb va = .gt := by
      simp only [compare, compareOfLessAndEq]
      rw [if_neg (by omega), if_neg (by omega)]
    simp [h1, h2]
  · subst h; simp [compare, compareOfLessAndEq]
  · have h1 : compare vb va = .lt := by simp [compare, compareOfLessAndEq, h]
    have h2 : compare va vb = .gt := by
      simp only [compare, compareOfLessAndEq]
      rw [if_neg (by omega), if_neg (by omega)]
    simp [h1, h2]

/-- a dominance key compares equal to itself -/
theorem keyEq_refl (a : St) : keyEq a a = true := by simp [keyEq]

/-- the value-to-go of a state of the last layer is `0` -/
theorem bestRem_last (T : Tab) (s : St) (h : T.n ≤ s.depth) : bestRem T s = some 0 := by
  unfold bestRem
  have : T.n - s.depth = 0 := by omega
  rw [this]; rfl

-- a concrete instance of the domain: depot 0 and the cities 1 … 4, all distances 1; city 1 opens at 5, cities 3 and 4 at 10
/-- 5 nodes, all travel times `1` (hundredths: `100`), windows `[0,100] [5,100] [0,100] [10,100] [10,100]` -/
def exT : Tab :=
  tabOf 5 [0, 100, 100, 100, 100,  100, 0, 100, 100, 100,  100, 100, 0, 100, 100,  100, 100, 100, 0, 100,  100, 100, 100, 100, 0]
    [(0, 10000), (500, 10000), (0, 10000), (1000, 10000), (1000, 10000)]
/-- root → city 1 (arrival at 1, wait until 5): cost `-5` -/
def exU : St := { pos := .node 1, el := .fixed 50000, must := [2, 3, 4], maybe := none, depth := 1 }
/-- root → city 2 (arrival at 1): cost `-1` -/
def exW : St := { pos := .node 2, el := .fixed 10000, must := [1, 3, 4], maybe := none, depth := 1 }
/-- what `merge [exU, exW]` is (`ex_merged`) -/
def exM : St := { pos := .virt [1, 2], el := .fuzzy 10000 50000, must := [3, 4], maybe := some [1, 2], depth := 1 }

theorem ex_inDomain : inDomain exT = true := by decide
theorem exU_reached : trans? exT (initSt exT) ⟨0, 1⟩ = some exU ∧ cost? exT (initSt exT) ⟨0, 1⟩ = some (-50000) := by decide
theorem exW_reached : trans? exT (initSt exT) ⟨0, 2⟩ = some exW ∧ cost? exT (initSt exT) ⟨0, 2⟩ = some (-10000) := by decide
set_option maxRecDepth 20000 in
theorem ex_merged : merge [exU, exW] = exM := by decide
theorem ex_values : bestRem exT exU = some (-70000) ∧ bestRem exT exW = some (-110000) ∧ bestRem exT exM = some (-100000) := by decide

/-- **The potential form of `MergeOk` fails for this relaxation** on an instance of the domain, on a state reached exactly:
    the arc `root → exU` costs `-5`, `exU` is worth `-7` more (tour `0 1 2 3 4 0`, ends at `12`), the merged state is worth
    `-10` (from time `1`, e.g. `2 1 3` and back, skipping city 4, ends at `11`: the wait at a city that opens at `10` is
    charged in full), and `relax` keeps the cost: `-5 - 7 > -5 - 10`.
    Consequence in the solver: the local bound of the root through this arc is `-15`, the best tour through `exU` is `-12`. -/
theorem potential_form_fails : mergeOkAt exT exU exM (-50000) ((relaxationOld exT).relax (initSt exT) exU exM ⟨0, 1⟩ (-50000)) = false := by decide
/-- with the repaired `relax` the potential form holds on the same arc -/
theorem potential_form_holds_repaired : mergeOkAt exT exU exM (-50000) ((relaxation exT).relax (initSt exT) exU exM ⟨0, 1⟩ (-50000)) = true := by decide

/-- `Wf.MergeOk` itself fails with the value-to-go of the model as potential -/
theorem not_wf_mergeOk : ¬ MergeOk (relaxationOld exT) (fun _ s => bestRem exT s) := by
  intro h
  have h1 := h 1 [exU, exW] exU (initSt exT) ⟨0, 1⟩ (-50000) (-70000) (by simp) ex_values.1
  obtain ⟨h', e, le⟩ := h1
  rw [relaxation_merge, ex_merged] at e le
  have e' : bestRem exT exM = some h' := e
  rw [ex_values.2.2] at e'
  cases e'
  rw [relax_id] at le
  omega

/-- the value form holds there -/
theorem value_form_holds_there : mergeValOkAt exT exU exM = true ∧ mergeValOkAt exT exW exM = true := by decide

-- ------------------------------------------------------------------------------------------------------------------
-- stated here (evaluated pointwise by the driver on every event of every case); PROVED or REFUTED in `TsptwProofs*.lean`
-- (summary: `TsptwProofsMain.lean`, closed corollary `tsptw_relaxed_ub`: `TsptwProofsClosed.lean`).  `TabOk T` = a table as the
-- reader builds it (`tabOk_tabOf`), `Valid T s` = `validB` + "the lists are sets" (`Set256`):
-- * `ValueInv T`                : `valueInv_holds` (no hypothesis);
-- * `ExactShape T`              : `exactShape_partial` (`TabOk T`);
-- * `bestRemL_eq_on_exact T`    : `bestRemL_eq_on_exact_partial` (`TabOk T`);
-- * `merge_ok T`                : FALSE as stated over `validB` states (`merge_ok_false`: a list with a duplicate, not reachable);
--                                 true on `Valid` states (`merge_ok_valid`, `merge_ok_partial`); the potential form for the
--                                 repaired `relax` is `mergeOk : MergeOkStmt T` (`mergeOkAny` for `mergeOkAt`);
-- * `rub_admissible T`          : FALSE as stated (`rub_admissible_false`: a single position that is an optional city;
--                                 `rub_admissible_late_false`: a state of the last layer that is late at the depot; neither is
--                                 reachable); true on the valid states none of whose positions is a city still to visit and not
--                                 late on the last layer (`rub_admissible_partial`), and for the potential `hStar` on EVERY
--                                 such valid state, merged ones included (`rub_hStar`);
-- * `dp_exact T`                : `dp_exact_partial` (`TabOk T`);   `spec_eq_specBestExt T` : `spec_eq_specBestExt_proved`;
-- * `dominance_admissible T`    : `dominance_admissible_partial` (`TabOk T`).

/-- the states reached exactly from the root have a single position, a fixed time, no optional city, and their value is minus
    their time -/
def ExactShape (T : Tab) : Prop := ∀ k s v p, Reach (problem T) k s v p → exactShape s v = true

/-- the value invariant along the transitions of ANY state (merged ones included): if `v = -earliest(s)` then
    `v + cost = -earliest(s')` -/
def ValueInv (T : Tab) : Prop := ∀ s d s' c, trans? T s d = some s' → cost? T s d = some c →
  -(s.el.earliest : Int) + c = -(s'.el.earliest : Int)

/-- the legitimate value-to-go is the value-to-go on the states reached exactly -/
def bestRemL_eq_on_exact (T : Tab) : Prop := inDomain T = true → ∀ k s v p, Reach (problem T) k s v p → bestRemL T s = bestRem T s

/-- `RubOk` (clause `tsptw-rub`): the rough bound dominates the legitimate value-to-go of every valid state in scope -/
def rub_admissible (T : Tab) : Prop := inDomain T = true → ∀ s, validB T s = true → rubScope s = true →
  ∀ r, rub? T s = some r → bestRemL T s ≤ r

/-- `MergeOk`, value form (clause `tsptw-merge`): minus the earliest time plus the legitimate value-to-go does not decrease
    from a merged-away state to the merged state -/
def merge_ok (T : Tab) : Prop := inDomain T = true → ∀ X u, u ∈ X → (∀ s ∈ X, validB T s = true ∧ s.depth = u.depth) →
  mergeValOkAt T u (merge X) = true

/-- DP exactness (clause `tsptw-exact`): value of a prefix + value-to-go = the specification among the tours that extend it -/
def dp_exact (T : Tab) : Prop := inDomain T = true → ∀ k s v p, Reach (problem T) k s v p →
  (bestRem T s).addI v = specBestExt T (p.map (·.val))

/-- with no decision at all the specification among the extensions is the specification (`Tsptw.spec`, `-1` = no tour) -/
def spec_eq_specBestExt (T : Tab) : Prop := 1 ≤ T.n →
  Tsptw.spec T.n (dI T) (eI T) (lI T) = ((specBestExt T []).map (fun v => -v)).getD (-1)

/-- the dominance rule (clause `tsptw-dominance`): between two exact nodes of one layer with the same key, the one with the
    smaller value has no better completion -/
def dominance_admissible (T : Tab) : Prop := inDomain T = true → ∀ k a va pa b vb pb,
  Reach (problem T) k a va pa → Reach (problem T) k b vb pb → keyEq a b = true → domOkAt T a va b vb = true

end Ddo.Examples.TsptwModel
