import DdoModel.Examples.AlpProofsSort
/-! alp example, proofs (2): the arrival time as a function of the runway state (`arrP`) and its monotonicity (in the time
    of the runway; under a landing inserted before — the triangle inequality); what the domain of a state contains
    (`mem_domain`, `domain_complete`); the value-to-go `bestRem` as the maximum over the MOVES of the state
    (`bestRem_le_of_moves`, `bestRem_ge_move`): the early `return` of `for_each_in_domain` (a class whose next aircraft
    fits on no runway empties the domain) and its symmetry breaking (one runway per runway state) lose nothing. -/
namespace Ddo.Examples.AlpModel
open Ddo Ddo.Examples Ddo.Examples.Util

variable (I : Inst)

/-- `get_arrival_time` as a function of the state `p` of the runway -/
def arrP (p : Rw) (a : Nat) : Int :=
  if p.1 = 0 ∧ p.2 = -1 then I.tgt a
  else if p.2 = -1 then max (I.tgt a) (p.1 + I.minSepTo (I.cls a))
  else max (I.tgt a) (p.1 + I.sepAt p.2.toNat (I.cls a))

/-- the state of runway `r` (out of range: an empty runway) -/
def rwAt (s : St) (r : Nat) : Rw := (s.2[r]?).getD (0, -1)

theorem arrival_eq (s : St) (a r : Nat) : arrival I s.2 a r = arrP I (rwAt s r) a := rfl

/-- the input domain, unpacked -/
structure InDom : Prop where
  cls_lt : ∀ a, a < I.nbAircraft → I.cls a < I.nbClasses
  tgt_nn : ∀ a, a < I.nbAircraft → 0 ≤ I.tgt a
  sep_nn : ∀ x y, x < I.nbClasses → y < I.nbClasses → 0 ≤ I.sepAt x y
  tri : ∀ x y z, x < I.nbClasses → y < I.nbClasses → z < I.nbClasses → I.sepAt x z ≤ I.sepAt x y + I.sepAt y z

theorem inDom_of (h : I.inDomain = true) : InDom I := by
  simp only [Inst.inDomain, Bool.and_eq_true, List.all_eq_true, List.mem_range, decide_eq_true_eq] at h
  obtain ⟨⟨⟨_, h1⟩, _⟩, h3⟩ := h
  exact ⟨fun a ha => (h1 a ha).1, fun a ha => (h1 a ha).2, fun x y hx hy => (h3 x hx y hy).1,
    fun x y z hx hy hz => (h3 x hx y hy).2 z hz⟩

theorem tgt_le_arrP (p : Rw) (a : Nat) : I.tgt a ≤ arrP I p a := by
  unfold arrP
  split
  · exact Int.le_refl _
  · split <;> exact Int.le_max_left _ _

/-- a known class: the arrival is monotone in the time of the runway -/
theorem arrP_mono {x y c : Int} (hc : c ≠ -1) (h : x ≤ y) (a : Nat) : arrP I (x, c) a ≤ arrP I (y, c) a := by
  unfold arrP
  simp only [hc, and_false, if_false]
  omega

private theorem foldl_min_mem (f : Nat → Int) (l : List Nat) (m : Int) :
    l.foldl (fun m i => min m (f i)) m = m ∨ ∃ i ∈ l, l.foldl (fun m i => min m (f i)) m = f i := by
  induction l generalizing m with
  | nil => exact Or.inl rfl
  | cons x r ih =>
    simp only [List.foldl_cons]
    rcases ih (min m (f x)) with h | ⟨i, hi, h⟩
    · rw [h]
      by_cases hm : m ≤ f x
      · exact Or.inl (by omega)
      · exact Or.inr ⟨x, List.mem_cons_self .., by omega⟩
    · exact Or.inr ⟨i, List.mem_cons_of_mem _ hi, h⟩

private theorem foldl_min_le' (f : Nat → Int) (l : List Nat) (m : Int) :
    l.foldl (fun m i => min m (f i)) m ≤ m := by
  induction l generalizing m with
  | nil => exact Int.le_refl _
  | cons x r ih =>
    simp only [List.foldl_cons]
    have := ih (min m (f x))
    omega

/-- the least separation before a class also satisfies the triangle inequality -/
theorem minSepTo_tri (hD : InDom I) {x y : Nat} (hx : x < I.nbClasses) (hy : y < I.nbClasses) :
    I.minSepTo y ≤ I.minSepTo x + I.sepAt x y := by
  have h0 := hD.sep_nn x y hx hy
  rcases foldl_min_mem (fun i => I.sepAt i x) (List.range I.nbClasses) iMax with h | ⟨i, hi, h⟩
  · have h1 : I.minSepTo y ≤ iMax := foldl_min_le' (fun i => I.sepAt i y) (List.range I.nbClasses) iMax
    have h2 : I.minSepTo x = iMax := h
    omega
  · have hi' := List.mem_range.mp hi
    have h1 := minSepTo_le I y hi'
    have h2 : I.minSepTo x = I.sepAt i x := h
    have h3 := hD.tri i x y hi' hx hy
    omega

/-- after a landing of class `c` at time `t` -/
theorem arrP_known (t : Int) (c b : Nat) : arrP I (t, (c : Int)) b = max (I.tgt b) (t + I.sepAt c (I.cls b)) := by
  have hne : ((c : Nat) : Int) ≠ -1 := by omega
  unfold arrP
  simp only [hne, and_false, if_false, Int.toNat_natCast]

/-- a landing inserted before never makes the next one earlier (triangle inequality) -/
theorem arrP_skip (hD : InDom I) {p : Rw} (hp : RwOk I p) {a b : Nat} (ha : a < I.nbAircraft) (hb : b < I.nbAircraft) :
    arrP I p b ≤ arrP I (arrP I p a, (I.cls a : Int)) b := by
  have hca := hD.cls_lt a ha
  have hcb := hD.cls_lt b hb
  obtain ⟨p1, p2⟩ := p
  obtain ⟨_, hp2, hp3⟩ := hp
  simp only at hp2 hp3
  rw [arrP_known]
  unfold arrP
  simp only
  by_cases h1 : p1 = 0 ∧ p2 = -1
  · simp only [h1, and_self, if_true]; omega
  · simp only [h1, if_false]
    by_cases h2 : p2 = -1
    · simp only [h2, if_true]
      have := minSepTo_tri I hD hca hcb
      omega
    · simp only [h2, if_false]
      have h3 : p2.toNat < I.nbClasses := by omega
      have := hD.tri p2.toNat (I.cls a) (I.cls b) h3 hca hcb
      omega

-- ------------------------------------------------------------------------------------------------------------------
-- decisions and moves

theorem fromDecision_toDecision {c : Nat} (hc : c < I.nbClasses) (r : Nat) :
    fromDecision I (toDecision I c r) = (c, r) := by
  unfold fromDecision toDecision
  simp only [Int.toNat_natCast]
  rw [Nat.add_mul_mod_self_left, Nat.add_mul_div_left _ _ (by omega : 0 < I.nbClasses), Nat.mod_eq_of_lt hc,
    Nat.div_eq_of_lt hc, Nat.zero_add]

theorem toDecision_nonneg (c r : Nat) : 0 ≤ toDecision I c r := by
  unfold toDecision; omega

/-- the aircraft named by a positive number of remaining aircraft is one of the class -/
theorem nextTab_succ {c k a : Nat} (h : (I.nextTab c)[k + 1]? = some a) : a < I.nbAircraft ∧ I.cls a = c := by
  unfold Inst.nextTab at h
  rw [List.getElem?_cons_succ] at h
  have hm : a ∈ ((List.range I.nbAircraft).filter (fun a => I.cls a == c)).reverse := List.mem_of_getElem? h
  rw [List.mem_reverse, List.mem_filter, List.mem_range] at hm
  exact ⟨hm.1, by simpa using hm.2⟩

/-- the state after landing aircraft `a` (of class `c`, `k'` left afterwards) on runway `r` -/
def land (s : St) (c r a k' : Nat) : St :=
  (s.1.set c k', sortRw (s.2.set r (arrP I (rwAt s r) a, (c : Int))))

theorem trans_toDecision {s : St} {c r a k' : Nat} (hc : c < I.nbClasses) (hk : s.1[c]? = some (k' + 1))
    (ha : (I.nextTab c)[k' + 1]? = some a) (hr : r < s.2.length) :
    trans? I s (toDecision I c r) = some (land I s c r a k')
      ∧ cost? I s (toDecision I c r) = some (-(arrP I (rwAt s r) a - I.tgt a)) := by
  have h0 := toDecision_nonneg I c r
  have h1 : toDecision I c r ≠ -1 := by omega
  have h2 : ¬ (toDecision I c r < 0 ∨ I.nbClasses = 0) := by omega
  have h3 : aircraftOf? I s c = some a := by
    unfold aircraftOf?
    rw [hk]
    exact ha
  have h4 := (nextTab_succ I ha).2
  unfold trans? cost?
  simp only [h1, h2, if_false, fromDecision_toDecision I hc, h3, h4, hk, hr, if_true]
  exact ⟨rfl, rfl⟩

theorem trans_toDecision_none {s : St} {c r k : Nat} (hc : c < I.nbClasses) (hk : s.1[c]? = some k)
    (ha : (I.nextTab c)[k]? = none) : trans? I s (toDecision I c r) = none := by
  have h0 := toDecision_nonneg I c r
  have h1 : toDecision I c r ≠ -1 := by omega
  have h2 : ¬ (toDecision I c r < 0 ∨ I.nbClasses = 0) := by omega
  have h3 : aircraftOf? I s c = none := by
    unfold aircraftOf?
    rw [hk]
    exact ha
  unfold trans?
  simp only [h1, h2, if_false, fromDecision_toDecision I hc, h3]

-- ------------------------------------------------------------------------------------------------------------------
-- the number of aircraft left

private theorem foldl_add (l : List Nat) (a : Nat) : l.foldl (· + ·) a = a + l.sum := by
  induction l generalizing a with
  | nil => simp
  | cons x r ih => simp only [List.foldl_cons, List.sum_cons, ih]; omega

theorem totRem_eq (s : St) : totRem s = s.1.sum := by
  unfold totRem
  rw [foldl_add]; omega

private theorem sum_eq_zero (l : List Nat) : l.sum = 0 ↔ ∀ k ∈ l, k = 0 := by
  induction l with
  | nil => simp
  | cons x r ih => simp only [List.sum_cons, List.mem_cons, forall_eq_or_imp, ← ih]; omega

private theorem sum_set (l : List Nat) (c k' : Nat) (h : l[c]? = some (k' + 1)) : (l.set c k').sum + 1 = l.sum := by
  induction l generalizing c with
  | nil => simp at h
  | cons x r ih =>
    cases c with
    | zero => simp at h; subst h; simp only [List.set_cons_zero, List.sum_cons]; omega
    | succ c =>
      simp only [List.getElem?_cons_succ] at h
      have := ih c h
      simp only [List.set_cons_succ, List.sum_cons]; omega

theorem totRem_land (s : St) {c k' : Nat} (r a : Nat) (h : s.1[c]? = some (k' + 1)) :
    totRem (land I s c r a k') + 1 = totRem s := by
  rw [totRem_eq, totRem_eq]
  exact sum_set s.1 c k' h

theorem totRem_pos_of {s : St} {c k : Nat} (h : s.1[c]? = some k) (hk : 0 < k) : 0 < totRem s := by
  rw [totRem_eq]
  apply Nat.pos_of_ne_zero
  intro e
  have := (sum_eq_zero s.1).mp e k (List.mem_of_getElem? h)
  omega

-- ------------------------------------------------------------------------------------------------------------------
-- the domain

/-- one step of the runway loop of `for_each_in_domain` -/
def domStep (s : St) (c a : Nat) (acc : List Int × List Rw) (r : Nat) : List Int × List Rw :=
  if acc.2.contains (rwAt s r) then acc
  else if arrP I (rwAt s r) a ≤ I.lat a then (acc.1 ++ [toDecision I c r], acc.2 ++ [rwAt s r]) else acc

theorem domRunways_eq (s : St) (c a : Nat) :
    domRunways I s c a = (List.range I.nbRunways).foldl (domStep I s c a) ([], []) := rfl

theorem domStep_fold (s : St) (c a : Nat) (l : List Nat) (acc : List Int × List Rw) :
    (∀ v ∈ (l.foldl (domStep I s c a) acc).1, v ∈ acc.1 ∨ ∃ r ∈ l, v = toDecision I c r ∧ arrP I (rwAt s r) a ≤ I.lat a) ∧
    (∀ p ∈ (l.foldl (domStep I s c a) acc).2, p ∈ acc.2 ∨
        ∃ r ∈ l, p = rwAt s r ∧ toDecision I c r ∈ (l.foldl (domStep I s c a) acc).1) ∧
    (∀ r ∈ l, arrP I (rwAt s r) a ≤ I.lat a → rwAt s r ∈ (l.foldl (domStep I s c a) acc).2) ∧
    (∀ v ∈ acc.1, v ∈ (l.foldl (domStep I s c a) acc).1) ∧ (∀ p ∈ acc.2, p ∈ (l.foldl (domStep I s c a) acc).2) := by
  induction l generalizing acc with
  | nil => simp
  | cons x r ih =>
    simp only [List.foldl_cons]
    obtain ⟨h1, h2, h3, h4, h5⟩ := ih (domStep I s c a acc x)
    have hs : domStep I s c a acc x = acc ∧ (arrP I (rwAt s x) a ≤ I.lat a → rwAt s x ∈ acc.2) ∨
        (domStep I s c a acc x = (acc.1 ++ [toDecision I c x], acc.2 ++ [rwAt s x]) ∧ arrP I (rwAt s x) a ≤ I.lat a) := by
      by_cases hc : acc.2.contains (rwAt s x) = true
      · exact Or.inl ⟨by unfold domStep; simp only [hc, if_true], fun _ => by simpa using hc⟩
      · by_cases hl : arrP I (rwAt s x) a ≤ I.lat a
        · exact Or.inr ⟨by unfold domStep; simp only [hc, hl, if_true]; rfl, hl⟩
        · exact Or.inl ⟨by unfold domStep; simp only [hc, hl, if_false]; rfl, fun h => absurd h hl⟩
    rcases hs with ⟨e, hx⟩ | ⟨e, hx⟩
    · rw [e] at h1 h2 h3 h4 h5 ⊢
      refine ⟨?_, ?_, ?_, h4, h5⟩
      · intro v hv
        rcases h1 v hv with h | ⟨r', hr', h⟩
        · exact Or.inl h
        · exact Or.inr ⟨r', List.mem_cons_of_mem _ hr', h⟩
      · intro p hp
        rcases h2 p hp with h | ⟨r', hr', h⟩
        · exact Or.inl h
        · exact Or.inr ⟨r', List.mem_cons_of_mem _ hr', h⟩
      · intro r' hr' hl
        rcases List.mem_cons.mp hr' with rfl | hr'
        · exact h5 _ (hx hl)
        · exact h3 r' hr' hl
    · rw [e] at h1 h2 h3 h4 h5
      simp only [List.mem_append, List.mem_singleton] at h1 h2 h4 h5
      rw [e]
      refine ⟨?_, ?_, ?_, fun v hv => h4 v (Or.inl hv), fun p hp => h5 p (Or.inl hp)⟩
      · intro v hv
        rcases h1 v hv with (h | h) | ⟨r', hr', h⟩
        · exact Or.inl h
        · exact Or.inr ⟨x, List.mem_cons_self .., h, hx⟩
        · exact Or.inr ⟨r', List.mem_cons_of_mem _ hr', h⟩
      · intro p hp
        rcases h2 p hp with (h | h) | ⟨r', hr', h⟩
        · exact Or.inl h
        · exact Or.inr ⟨x, List.mem_cons_self .., h, h4 _ (Or.inr rfl)⟩
        · exact Or.inr ⟨r', List.mem_cons_of_mem _ hr', h⟩
      · intro r' hr' hl
        rcases List.mem_cons.mp hr' with rfl | hr'
        · exact h5 _ (Or.inr rfl)
        · exact h3 r' hr' hl

/-- the aircraft the domain considers for class `c` with `k` left -/
def acOf (c k : Nat) : Nat := ((I.nextTab c)[k]?).getD 0

theorem domClasses_none (s : St) (cks : List (Nat × Nat)) (decs : List Int) (tot : Nat)
    (h : domClasses I s cks decs tot = none) :
    ∃ c k, (c, k) ∈ cks ∧ 0 < k ∧ (domRunways I s c (acOf I c k)).2 = [] := by
  induction cks generalizing decs tot with
  | nil => simp [domClasses] at h
  | cons ck rest ih =>
    obtain ⟨c, k⟩ := ck
    unfold domClasses at h
    by_cases hk : k > 0
    · simp only [hk, if_true] at h
      by_cases he : (domRunways I s c (((I.nextTab c)[k]?).getD 0)).2.isEmpty = true
      · exact ⟨c, k, List.mem_cons_self .., hk, by simpa [acOf] using he⟩
      · simp only [he] at h
        obtain ⟨c', k', hm, h'⟩ := ih _ _ h
        exact ⟨c', k', List.mem_cons_of_mem _ hm, h'⟩
    · simp only [hk, if_false] at h
      obtain ⟨c', k', hm, h'⟩ := ih _ _ h
      exact ⟨c', k', List.mem_cons_of_mem _ hm, h'⟩

theorem domClasses_some (s : St) (cks : List (Nat × Nat)) (decs : List Int) (tot : Nat) (D : List Int) (T : Nat)
    (h : domClasses I s cks decs tot = some (D, T)) :
    (T = 0 ↔ tot = 0 ∧ ∀ ck ∈ cks, ck.2 = 0) ∧
    (∀ v ∈ D, v ∈ decs ∨ ∃ c k, (c, k) ∈ cks ∧ 0 < k ∧ v ∈ (domRunways I s c (acOf I c k)).1) ∧
    (∀ v ∈ decs, v ∈ D) ∧
    (∀ c k, (c, k) ∈ cks → 0 < k → ∀ v ∈ (domRunways I s c (acOf I c k)).1, v ∈ D) := by
  induction cks generalizing decs tot with
  | nil =>
    simp only [domClasses, Option.some.injEq, Prod.mk.injEq] at h
    obtain ⟨rfl, rfl⟩ := h
    simp
  | cons ck rest ih =>
    obtain ⟨c, k⟩ := ck
    unfold domClasses at h
    by_cases hk : k > 0
    · simp only [hk, if_true] at h
      by_cases he : (domRunways I s c (((I.nextTab c)[k]?).getD 0)).2.isEmpty = true
      · simp [he] at h
      · simp only [he] at h
        obtain ⟨h1, h2, h3, h4⟩ := ih _ _ h
        refine ⟨?_, ?_, ?_, ?_⟩
        · constructor
          · intro hT; have := (h1.mp hT).1; omega
          · intro hT; have := hT.2 (c, k) (List.mem_cons_self ..); simp only at this; omega
        · intro v hv
          rcases h2 v hv with h | ⟨c', k', hm, h'⟩
          · rcases List.mem_append.mp h with h | h
            · exact Or.inl h
            · exact Or.inr ⟨c, k, List.mem_cons_self .., hk, h⟩
          · exact Or.inr ⟨c', k', List.mem_cons_of_mem _ hm, h'⟩
        · exact fun v hv => h3 v (List.mem_append_left _ hv)
        · intro c' k' hm hk' v hv
          rcases List.mem_cons.mp hm with e | hm
          · cases e
            exact h3 v (List.mem_append_right _ hv)
          · exact h4 c' k' hm hk' v hv
    · simp only [hk, if_false] at h
      obtain ⟨h1, h2, h3, h4⟩ := ih _ _ h
      have hk0 : k = 0 := by omega
      subst hk0
      refine ⟨?_, ?_, h3, ?_⟩
      · constructor
        · intro hT
          have := h1.mp hT
          refine ⟨by omega, ?_⟩
          intro ck hck
          rcases List.mem_cons.mp hck with rfl | hck
          · rfl
          · exact this.2 ck hck
        · intro hT
          exact h1.mpr ⟨by omega, fun ck hck => hT.2 ck (List.mem_cons_of_mem _ hck)⟩
      · intro v hv
        rcases h2 v hv with h | ⟨c', k', hm, h'⟩
        · exact Or.inl h
        · exact Or.inr ⟨c', k', List.mem_cons_of_mem _ hm, h'⟩
      · intro c' k' hm hk' v hv
        rcases List.mem_cons.mp hm with e | hm
        · cases e; omega
        · exact h4 c' k' hm hk' v hv

theorem mem_zip_range {l : List Nat} {c k : Nat} : (c, k) ∈ (List.range l.length).zip l ↔ l[c]? = some k := by
  rw [List.mem_iff_getElem?]
  constructor
  · rintro ⟨i, hi⟩
    rw [List.getElem?_zip_eq_some] at hi
    obtain ⟨h1, h2⟩ := hi
    rw [List.getElem?_range] at h1
    · cases h1; exact h2
    · rcases Nat.lt_or_ge i l.length with h | h
      · exact h
      · rw [List.getElem?_eq_none (by simpa using h)] at h1; cases h1
  · intro h
    refine ⟨c, ?_⟩
    rw [List.getElem?_zip_eq_some]
    have hc : c < l.length := by
      rcases Nat.lt_or_ge c l.length with h' | h'
      · exact h'
      · rw [List.getElem?_eq_none h'] at h; cases h
    exact ⟨by rw [List.getElem?_range hc], h⟩

theorem domain_zero {s : St} (h : totRem s = 0) : domain I s = [-1] := by
  have hz : ∀ ck ∈ (List.range s.1.length).zip s.1, ck.2 = 0 := by
    rintro ⟨c, k⟩ hck
    have := mem_zip_range.mp hck
    rw [totRem_eq] at h
    exact (sum_eq_zero s.1).mp h k (List.mem_of_getElem? this)
  unfold domain
  cases hd : domClasses I s ((List.range s.1.length).zip s.1) [] 0 with
  | none =>
    obtain ⟨c, k, hm, hk, _⟩ := domClasses_none I s _ _ _ hd
    have := hz _ hm
    simp only at this; omega
  | some DT =>
    obtain ⟨D, T⟩ := DT
    have := (domClasses_some I s _ _ _ D T hd).1.mpr ⟨rfl, hz⟩
    simp [this]

/-- what the domain of a state with aircraft left contains -/
theorem mem_domain {s : St} (h : 0 < totRem s) {v : Int} (hv : v ∈ domain I s) :
    ∃ c k r, s.1[c]? = some k ∧ 0 < k ∧ r < I.nbRunways ∧ v = toDecision I c r
      ∧ arrP I (rwAt s r) (acOf I c k) ≤ I.lat (acOf I c k) := by
  unfold domain at hv
  cases hd : domClasses I s ((List.range s.1.length).zip s.1) [] 0 with
  | none => rw [hd] at hv; simp at hv
  | some DT =>
    obtain ⟨D, T⟩ := DT
    rw [hd] at hv
    obtain ⟨h1, h2, _, _⟩ := domClasses_some I s _ _ _ D T hd
    have hT : T ≠ 0 := by
      intro e
      have hz := (h1.mp e).2
      have : totRem s = 0 := by
        rw [totRem_eq, sum_eq_zero]
        intro k hk
        obtain ⟨c, hc⟩ := List.mem_iff_getElem?.mp hk
        exact hz (c, k) (mem_zip_range.mpr hc)
      omega
    simp only [hT, if_false] at hv
    rcases h2 v hv with h | ⟨c, k, hm, hk, hvd⟩
    · cases h
    · rw [domRunways_eq] at hvd
      rcases (domStep_fold I s c (acOf I c k) (List.range I.nbRunways) ([], [])).1 v hvd with h | ⟨r, hr, e, hl⟩
      · cases h
      · exact ⟨c, k, r, mem_zip_range.mp hm, hk, List.mem_range.mp hr, e, hl⟩

theorem domain_ne {s : St} (h : 0 < totRem s) : (domain I s == [-1]) = false := by
  cases hb : (domain I s == [-1])
  · rfl
  · have e : domain I s = [-1] := by simpa using hb
    have hm : (-1 : Int) ∈ domain I s := by rw [e]; exact List.mem_cons_self ..
    obtain ⟨c, k, r, _, _, _, e', _⟩ := mem_domain I h hm
    have := toDecision_nonneg I c r
    omega

/-- a class is blocked in `s`: aircraft of the class are left and the next one fits on no runway (or does not exist) -/
def Blocked (s : St) (c : Nat) : Prop :=
  ∃ k, s.1[c]? = some k ∧ 0 < k ∧ ∀ r, r < I.nbRunways → ¬ arrP I (rwAt s r) (acOf I c k) ≤ I.lat (acOf I c k)

/-- every move of a state with aircraft left is in the domain, up to the choice among runways in the same state —
    unless some class is blocked -/
theorem domain_complete {s : St} {c k r : Nat} (hk : s.1[c]? = some k) (hpos : 0 < k) (hr : r < I.nbRunways)
    (hl : arrP I (rwAt s r) (acOf I c k) ≤ I.lat (acOf I c k)) :
    (∃ c', Blocked I s c') ∨ ∃ r', r' < I.nbRunways ∧ rwAt s r' = rwAt s r ∧ toDecision I c r' ∈ domain I s := by
  have htot := totRem_pos_of hk hpos
  cases hd : domClasses I s ((List.range s.1.length).zip s.1) [] 0 with
  | none =>
    left
    obtain ⟨c', k', hm, hk', he⟩ := domClasses_none I s _ _ _ hd
    refine ⟨c', k', mem_zip_range.mp hm, hk', ?_⟩
    intro r' hr' hl'
    rw [domRunways_eq] at he
    have := (domStep_fold I s c' (acOf I c' k') (List.range I.nbRunways) ([], [])).2.2.1 r' (List.mem_range.mpr hr') hl'
    rw [he] at this
    cases this
  | some DT =>
    right
    obtain ⟨D, T⟩ := DT
    obtain ⟨h1, _, _, h4⟩ := domClasses_some I s _ _ _ D T hd
    have hT : T ≠ 0 := by
      intro e
      have := (h1.mp e).2 (c, k) (mem_zip_range.mpr hk)
      simp only at this; omega
    have hdom : domain I s = D := by
      unfold domain
      rw [hd]
      simp only [hT, if_false]
    have hf := domStep_fold I s c (acOf I c k) (List.range I.nbRunways) ([], [])
    have hu := hf.2.2.1 r (List.mem_range.mpr hr) hl
    rcases hf.2.1 _ hu with h | ⟨r', hr', e, hv⟩
    · cases h
    · refine ⟨r', List.mem_range.mp hr', e.symm, ?_⟩
      rw [hdom]
      exact h4 c k (mem_zip_range.mpr hk) hpos _ (by rw [domRunways_eq]; exact hv)

-- ------------------------------------------------------------------------------------------------------------------
-- the value-to-go as a maximum over the moves

/-- the worth of a decision: its cost plus the value-to-go of its target; `none` when the model would panic -/
def moveVal (fuel : Nat) (s : St) (v : Int) : EInt :=
  match trans? I s v, cost? I s v with
  | some s2, some c => (bestRem I fuel s2).addI c
  | _, _ => none

theorem emax_none (a : EInt) : EInt.max a none = a := by cases a <;> rfl

theorem bestRem_succ (fuel : Nat) (s : St) :
    bestRem I (fuel + 1) s = if (domain I s == [-1]) = true then some 0
      else (domain I s).foldl (fun acc v => EInt.max acc (moveVal I fuel s v)) none := by
  rw [bestRem]
  split
  · rfl
  · congr
    funext acc v
    unfold moveVal
    split <;> simp_all [emax_none]

theorem emax_le' {a b X : EInt} (ha : a ≤ X) (hb : b ≤ X) : EInt.max a b ≤ X := by
  cases a <;> cases b <;> cases X <;> simp_all [EInt.max] <;> omega

theorem le_emax_left (a b : EInt) : a ≤ EInt.max a b := by
  cases a <;> cases b <;> simp [EInt.max] <;> omega

theorem le_emax_right (a b : EInt) : b ≤ EInt.max a b := by
  cases a <;> cases b <;> simp [EInt.max] <;> omega

theorem foldl_emax_le {α : Type} (g : α → EInt) (l : List α) (acc X : EInt) (hacc : acc ≤ X)
    (h : ∀ v ∈ l, g v ≤ X) : l.foldl (fun acc v => EInt.max acc (g v)) acc ≤ X := by
  induction l generalizing acc with
  | nil => exact hacc
  | cons x r ih =>
    simp only [List.foldl_cons]
    exact ih _ (emax_le' hacc (h x (List.mem_cons_self ..))) (fun v hv => h v (List.mem_cons_of_mem _ hv))

theorem le_foldl_emax {α : Type} (g : α → EInt) (l : List α) (acc : EInt) :
    acc ≤ l.foldl (fun acc v => EInt.max acc (g v)) acc ∧ ∀ v ∈ l, g v ≤ l.foldl (fun acc v => EInt.max acc (g v)) acc := by
  induction l generalizing acc with
  | nil => exact ⟨EInt.le_refl _, fun _ h => by cases h⟩
  | cons x r ih =>
    simp only [List.foldl_cons]
    obtain ⟨h1, h2⟩ := ih (EInt.max acc (g x))
    refine ⟨EInt.le_trans (le_emax_left _ _) h1, fun v hv => ?_⟩
    rcases List.mem_cons.mp hv with rfl | hv
    · exact EInt.le_trans (le_emax_right _ _) h1
    · exact h2 v hv

theorem le_none {a : EInt} (h : a ≤ none) : a = none := by
  cases a with
  | none => rfl
  | some x => exact absurd h (by simp)

/-- the working invariant: one entry per class / runway, every runway `RwOk` -/
def StW (s : St) : Prop := s.1.length = I.nbClasses ∧ s.2.length = I.nbRunways ∧ ∀ p ∈ s.2, RwOk I p

theorem StValid.toW {s : St} (h : StValid I s) : StW I s := ⟨h.1.1, h.1.2.1, h.2⟩

theorem rwAt_mem {s : St} {r : Nat} (h : r < s.2.length) : rwAt s r ∈ s.2 := by
  unfold rwAt
  rw [List.getElem?_eq_getElem h]
  exact List.getElem_mem h

theorem rwAt_of_mem {s : St} {p : Rw} (h : p ∈ s.2) : ∃ r, r < s.2.length ∧ rwAt s r = p := by
  obtain ⟨r, hr, e⟩ := List.mem_iff_getElem.mp h
  refine ⟨r, hr, ?_⟩
  unfold rwAt
  rw [List.getElem?_eq_getElem hr]
  exact e

theorem lt_of_getElem?_some {l : List Nat} {c k : Nat} (h : l[c]? = some k) : c < l.length := by
  rcases Nat.lt_or_ge c l.length with h' | h'
  · exact h'
  · rw [List.getElem?_eq_none h'] at h; cases h

theorem mem_land {s : St} {c r a k' : Nat} {p : Rw} (h : p ∈ (land I s c r a k').2) :
    p = (arrP I (rwAt s r) a, (c : Int)) ∨ p ∈ s.2 := by
  have h1 : p ∈ s.2.set r (arrP I (rwAt s r) a, (c : Int)) := mem_sortRw.mp h
  rcases List.mem_or_eq_of_mem_set h1 with h | h
  · exact Or.inr h
  · exact Or.inl h

theorem stW_land (hD : InDom I) {s : St} (hW : StW I s) {c r a k' : Nat} (hk : s.1[c]? = some (k' + 1))
    (ha : (I.nextTab c)[k' + 1]? = some a) : StW I (land I s c r a k') := by
  obtain ⟨h1, h2, h3⟩ := hW
  refine ⟨by simp [land, h1], by simp [land, sortRw_length, h2], ?_⟩
  intro p hp
  rcases mem_land I hp with rfl | hp
  · have hc := lt_of_getElem?_some hk
    have ha' := (nextTab_succ I ha).1
    have := tgt_le_arrP I (rwAt s r) a
    have := hD.tgt_nn a ha'
    refine ⟨by simp only; omega, by simp only; omega, by simp only; omega⟩
  · exact h3 p hp

theorem acOf_some {c k a : Nat} (h : (I.nextTab c)[k]? = some a) : acOf I c k = a := by
  unfold acOf; rw [h]; rfl

/-- a blocked class stays blocked: the runways only get later for it (triangle inequality), and its own next aircraft
    cannot move -/
theorem blocked_land (hD : InDom I) {s : St} (hW : StW I s) {c r a k' : Nat} (hk : s.1[c]? = some (k' + 1))
    (ha : (I.nextTab c)[k' + 1]? = some a) (hr : r < I.nbRunways) (hl : arrP I (rwAt s r) a ≤ I.lat a)
    {c2 : Nat} (hB : Blocked I s c2) : Blocked I (land I s c r a k') c2 := by
  obtain ⟨k2, hk2, hpos, hno⟩ := hB
  obtain ⟨han, hcls⟩ := nextTab_succ I ha
  by_cases hcc : c2 = c
  · subst hcc
    rw [hk] at hk2
    cases hk2
    rw [acOf_some I ha] at hno
    exact absurd hl (hno r hr)
  · have hW' := stW_land I hD hW hk ha (r := r)
    refine ⟨k2, ?_, hpos, ?_⟩
    · show (s.1.set c k')[c2]? = some k2
      rw [List.getElem?_set_ne (Ne.symm hcc)]
      exact hk2
    · intro r2 hr2
      have hbn : acOf I c2 k2 < I.nbAircraft := by
        cases hb : (I.nextTab c2)[k2]? with
        | none => unfold acOf; rw [hb]; show 0 < I.nbAircraft; omega
        | some b =>
          rw [acOf_some I hb]
          obtain ⟨k3, rfl⟩ : ∃ k3, k2 = k3 + 1 := ⟨k2 - 1, by omega⟩
          exact (nextTab_succ I hb).1
      have hm := rwAt_mem (s := land I s c r a k') (r := r2) (by rw [hW'.2.1]; exact hr2)
      rcases mem_land I hm with e | hm
      · rw [e]
        have hrw : RwOk I (rwAt s r) := hW.2.2 _ (rwAt_mem (by rw [hW.2.1]; exact hr))
        have h1 := arrP_skip I hD hrw han hbn
        rw [hcls] at h1
        have h2 := hno r hr
        omega
      · obtain ⟨r3, hr3, e3⟩ := rwAt_of_mem hm
        rw [← e3]
        exact hno r3 (by rw [← hW.2.1]; exact hr3)

theorem foldl_emax_none {α : Type} (g : α → EInt) (l : List α) (h : ∀ v ∈ l, g v = none) :
    l.foldl (fun acc v => EInt.max acc (g v)) none = none :=
  le_none (foldl_emax_le g l none none (EInt.le_refl _) (fun v hv => by rw [h v hv]; exact EInt.le_refl _))

/-- the shape of the worth of a decision of the domain -/
theorem moveVal_domain {s : St} (hs : s.1.length = I.nbClasses) (hr : s.2.length = I.nbRunways) (htot : 0 < totRem s)
    (fuel : Nat) {v : Int} (hv : v ∈ domain I s) :
    moveVal I fuel s v = none ∨ ∃ c r a k', s.1[c]? = some (k' + 1) ∧ (I.nextTab c)[k' + 1]? = some a ∧ r < I.nbRunways ∧
      arrP I (rwAt s r) a ≤ I.lat a ∧
      moveVal I fuel s v = (bestRem I fuel (land I s c r a k')).addI (-(arrP I (rwAt s r) a - I.tgt a)) := by
  obtain ⟨c, k, r, hk, hpos, hr', e, hl⟩ := mem_domain I htot hv
  have hc : c < I.nbClasses := by rw [← hs]; exact lt_of_getElem?_some hk
  subst e
  cases ha : (I.nextTab c)[k]? with
  | none =>
    left
    unfold moveVal
    rw [trans_toDecision_none I hc hk ha]
  | some a =>
    right
    obtain ⟨k', rfl⟩ : ∃ k', k = k' + 1 := ⟨k - 1, by omega⟩
    rw [acOf_some I ha] at hl
    refine ⟨c, r, a, k', hk, ha, hr', hl, ?_⟩
    obtain ⟨h1, h2⟩ := trans_toDecision I hc hk ha (r := r) (by rw [hr]; exact hr')
    unfold moveVal
    rw [h1, h2]

/-- a state with a blocked class has no completion -/
theorem stuck (hD : InDom I) (c : Nat) : ∀ (fuel : Nat) (s : St), StW I s → Blocked I s c → totRem s ≤ fuel →
    bestRem I fuel s = none := by
  intro fuel
  induction fuel with
  | zero =>
    intro s _ hB hf
    obtain ⟨k, hk, hpos, _⟩ := hB
    have := totRem_pos_of hk hpos
    omega
  | succ fuel ih =>
    intro s hW hB hf
    have htot : 0 < totRem s := by
      obtain ⟨k, hk, hpos, _⟩ := hB
      exact totRem_pos_of hk hpos
    rw [bestRem_succ, domain_ne I htot]
    simp only [Bool.false_eq_true, if_false]
    apply foldl_emax_none
    intro v hv
    rcases moveVal_domain I hW.1 hW.2.1 htot fuel hv with h | ⟨c', r, a, k', hk, ha, hr, hl, e⟩
    · exact h
    · rw [e, ih _ (stW_land I hD hW hk ha) (blocked_land I hD hW hk ha hr hl hB)
        (by have := totRem_land I s r a hk; omega)]
      rfl

/-- upper bound: the value-to-go is at most the best move -/
theorem bestRem_le_of_moves {s : St} (hs : s.1.length = I.nbClasses) (hr : s.2.length = I.nbRunways)
    (htot : 0 < totRem s) (fuel : Nat) (X : EInt)
    (h : ∀ c r a k', s.1[c]? = some (k' + 1) → (I.nextTab c)[k' + 1]? = some a → r < I.nbRunways →
      arrP I (rwAt s r) a ≤ I.lat a →
      (bestRem I fuel (land I s c r a k')).addI (-(arrP I (rwAt s r) a - I.tgt a)) ≤ X) :
    bestRem I (fuel + 1) s ≤ X := by
  rw [bestRem_succ, domain_ne I htot]
  simp only [Bool.false_eq_true, if_false]
  apply foldl_emax_le _ _ _ _ (EInt.none_le _)
  intro v hv
  rcases moveVal_domain I hs hr htot fuel hv with e | ⟨c, r, a, k', hk, ha, hr', hl, e⟩
  · rw [e]; exact EInt.none_le _
  · rw [e]; exact h c r a k' hk ha hr' hl

/-- lower bound: every move is worth at most the value-to-go (the early `return` and the symmetry breaking of the domain
    lose nothing) -/
theorem bestRem_ge_move (hD : InDom I) {s : St} (hW : StW I s) {c r a k' : Nat} (hk : s.1[c]? = some (k' + 1))
    (ha : (I.nextTab c)[k' + 1]? = some a) (hr : r < I.nbRunways) (hl : arrP I (rwAt s r) a ≤ I.lat a)
    (fuel : Nat) (hf : totRem s ≤ fuel + 1) :
    (bestRem I fuel (land I s c r a k')).addI (-(arrP I (rwAt s r) a - I.tgt a)) ≤ bestRem I (fuel + 1) s := by
  have htot : 0 < totRem s := totRem_pos_of hk (Nat.succ_pos _)
  have hc : c < I.nbClasses := by rw [← hW.1]; exact lt_of_getElem?_some hk
  rcases domain_complete I hk (Nat.succ_pos _) hr (by rw [acOf_some I ha]; exact hl) with ⟨c2, hB⟩ | ⟨r', hr', e, hv⟩
  · rw [stuck I hD c2 fuel _ (stW_land I hD hW hk ha) (blocked_land I hD hW hk ha hr hl hB)
      (by have := totRem_land I s r a hk; omega)]
    exact EInt.none_le _
  · rw [bestRem_succ, domain_ne I htot]
    simp only [Bool.false_eq_true, if_false]
    have h1 := (le_foldl_emax (moveVal I fuel s) (domain I s) none).2 _ hv
    obtain ⟨t1, t2⟩ := trans_toDecision I hc hk ha (r := r') (by rw [hW.2.1]; exact hr')
    have e2 : land I s c r' a k' = land I s c r a k' := by
      unfold land
      rw [e]
      congr 1
      apply sortRw_eq_of_perm
      have hr1 : r < s.2.length := by rw [hW.2.1]; exact hr
      have hr2 : r' < s.2.length := by rw [hW.2.1]; exact hr'
      apply set_perm_set _ _ _ hr2 hr1
      unfold rwAt at e
      rw [List.getElem?_eq_getElem hr1, List.getElem?_eq_getElem hr2] at e
      exact e
    have e3 : moveVal I fuel s (toDecision I c r')
        = (bestRem I fuel (land I s c r a k')).addI (-(arrP I (rwAt s r) a - I.tgt a)) := by
      unfold moveVal
      rw [t1, t2, e2, e]
    rw [e3] at h1
    exact h1

theorem bestRem_zero_tot {s : St} (h : totRem s = 0) (fuel : Nat) : bestRem I fuel s = some 0 := by
  cases fuel with
  | zero => rfl
  | succ fuel => rw [bestRem_succ, domain_zero I h]; rfl

theorem totRem_zero_iff (s : St) : totRem s = 0 ↔ ∀ k ∈ s.1, k = 0 := by
  rw [totRem_eq]; exact sum_eq_zero s.1

end Ddo.Examples.AlpModel
