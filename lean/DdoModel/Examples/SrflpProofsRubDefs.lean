import DdoModel.Examples.SrflpProofsBase
import DdoModel.Examples.SrflpProofsSmith
import DdoModel.Examples.SrflpProofsRearr
/-! Shared definitions for the admissibility proof of the srflp rough bound on EXACT states (`maybe_place = None`):
    the tables of `Srflp::new` (`TabSorted`), the cost of a completion as explicit sums (`aft`, `edgeCost`, `pathCost`),
    the flows between the members of a set (`pairFlows`). -/
namespace Ddo.Examples.SrflpModel
open Ddo Ddo.Examples Ddo.Examples.Util Ddo.SpecUtil

variable (T : Tab)

/-- the two tables are those `Srflp::new` builds from the instance (`tabOf` does; `InstOk` does not say so) -/
structure TabSorted : Prop where
  sl : T.sl = ((List.range T.n).map (fun i => (lenOf T i, i))).mergeSort le2
  sf : T.sf = ((List.range T.n).flatMap (fun i =>
        ((List.range T.n).filter (fun j => decide (i < j))).map (fun j => (flow T i j, i, j)))).mergeSort le3

theorem tabSorted_tabOf (n : Nat) (lens : List Int) (flows : List (List Int)) (clear : Bool) :
    TabSorted (tabOf n lens flows clear) := ⟨rfl, rfl⟩

/-- `Σ_t l_t · Σ_{j after t} w_j` over a list of departments -/
def aft (l w : Nat → Int) : List Nat → Int
  | [] => 0
  | t :: r => l t * (r.map w).sum + aft l w r

/-- `Σ l_t · f i j` over the triples `i` before `t` before `j` of the list: every pair pays its flow times the lengths of the
    departments placed between them -/
def edgeCost (l : Nat → Int) (f : Nat → Nat → Int) : List Nat → Int
  | [] => 0
  | i :: r => aft l (f i) r + edgeCost l f r

/-- the flows between the members of a list (pairs in list order) -/
def pairFlows (f : Nat → Nat → Int) : List Nat → List Int
  | [] => []
  | i :: r => r.map (f i) ++ pairFlows f r

/-- the total transition cost of placing the departments `q` in that order from state `s` -/
def pathCost : St → List Nat → Int
  | _, [] => 0
  | s, j :: q => cost T s ⟨s.depth, (j : Int)⟩ + pathCost (stepSt T s j) q

end Ddo.Examples.SrflpModel
