import DdoModel.Examples.McpModel
import DdoModel.WfRel
import DdoModel.Props.C06
/-! Proofs about the Lean model of the shipped mcp example (`McpDp.lean`): the statements `McpModel.lean` only states.

* `mergeOk : MergeOkStmt` (**proved**, full strength): `c + H(u) ≤ relax(c) + H(merge X)` for every merged-away state.  Route: on
  states with one benefit per vertex the value-to-go is `Hf` on benefit functions (`bestRem_eq`); a completion `x` (a side
  `±1` per vertex) of a state of depth `k ≥ 1` is worth `Ff b x = Σ_{l ≥ k} (-x_l b_l)⁺ + Σ_{k ≤ i < j} (w_ij [x_i ≠ x_j] - w_ij⁻)`
  (`Ff_step`, from the one-vertex identity `point_id`: the `min(|s_l|, |w_kl|)` term of the transition cost telescopes);
  `Hf` is the maximum of `Ff` (`Hf_ge`, `Hf_att`); `Ff` is 1-Lipschitz in every benefit, hence so is `Hf` (`Hf_lip`, ANY two
  states of one depth); the merged benefit lies between `0` and the merged-away one (`merge_abs_le`), so
  `|u_l - m_l| = |u_l| - |m_l|`, which is what `relax` adds (`merge_potential`; the stale components `l < depth` only add
  slack);
* `rubAdmissible : RubAdmissibleStmt` (**proved**, full strength).  The sharp bound is `Σ_{l ≥ k} |b_l| + Σ_{k ≤ i < j} |w_ij|`
  (`Hf_le_rub`); `fast_upper_bound` adds `estimates[k] - vr + nk[k]` = the positive weights among the free vertices minus ALL
  the negative weights with an end point `≥ k` (not only those among the free vertices: `NC_le`) — admissible, looser than
  necessary; `sumNeg_eq`: on a symmetric matrix with a zero diagonal the halving in `sum_of_negative_edges` is exact;
* `wfRel` (**proved**): the `WfRel` instance (potential = the model's own value-to-go, validity = one benefit per vertex and
  the stored depth is the depth of the layer), on every `GraphOk` matrix; `graphOk_of_inDomain` (**proved**): the matrix the
  reader builds from an instance of the domain is `GraphOk`;
* `noClampDom_false` (**finding**, proved): `NoClampDom.relax` / `NoClamp.relax` (relaxed cost of ANY triple of states in
  `[-B, B]`) is unsatisfiable for this relaxation when `n ≥ 1`, so `Ddo.C06.relaxed_ub_rel_dom` cannot be instantiated
  unconditionally; `mcp_relaxed_ub_partial` is the corollary CONDITIONAL on that hypothesis (plumbing only);
* `dpExact_partial` (**proved**; `DpExactStmt` itself stays stated): along any path of the model from the root, value +
  value-to-go = the maximum, over the sides extending the decisions with vertex 0 on side `S`, of the cut weight ON THE
  MATRIX (`cutM`).  Missing for `DpExactStmt`: `cutM` on `adjOf n edges` = `Mcp.cutWeight edges` (every edge once), sides ↔
  sub-lists, and the symmetry `S ↔ T` at the root. -/
namespace Ddo.Examples.McpModel
open Ddo Ddo.Examples Ddo.Examples.Util

-- ------------------------------------------------------------------------------------------------------------------
-- arithmetic

theorem mul_nonpos_iff' (a b : Int) : a * b ≤ 0 ↔ (a ≤ 0 ∧ 0 ≤ b) ∨ (0 ≤ a ∧ b ≤ 0) := by
  constructor
  · intro h
    by_cases ha : 0 < a
    · by_cases hb : 0 < b
      · have := Int.mul_pos ha hb; omega
      · right; omega
    · by_cases hb : b < 0
      · by_cases ha' : a < 0
        · have := Int.mul_pos_of_neg_of_neg ha' hb; omega
        · right; omega
      · left; omega
  · rintro (⟨h1, h2⟩ | ⟨h1, h2⟩)
    · exact Int.mul_nonpos_of_nonpos_of_nonneg h1 h2
    · exact Int.mul_nonpos_of_nonneg_of_nonpos h1 h2

/-- `Σ_{l = k}^{k + c - 1} f l` -/
def rsum (k : Nat) : Nat → (Nat → Int) → Int
  | 0, _ => 0
  | c + 1, f => f k + rsum (k + 1) c f

@[simp] theorem rsum_zero (k : Nat) (f : Nat → Int) : rsum k 0 f = 0 := rfl
theorem rsum_succ (k c : Nat) (f : Nat → Int) : rsum k (c + 1) f = f k + rsum (k + 1) c f := rfl

theorem rsum_congr {k c : Nat} {f g : Nat → Int} (h : ∀ l, k ≤ l → l < k + c → f l = g l) : rsum k c f = rsum k c g := by
  induction c generalizing k with
  | zero => rfl
  | succ c ih =>
    rw [rsum_succ, rsum_succ, h k (Nat.le_refl _) (by omega), ih (fun l h1 h2 => h l (by omega) (by omega))]

theorem rsum_le {k c : Nat} {f g : Nat → Int} (h : ∀ l, k ≤ l → l < k + c → f l ≤ g l) : rsum k c f ≤ rsum k c g := by
  induction c generalizing k with
  | zero => exact Int.le_refl _
  | succ c ih =>
    rw [rsum_succ, rsum_succ]
    have := h k (Nat.le_refl _) (by omega)
    have := ih (k := k + 1) (fun l h1 h2 => h l (by omega) (by omega))
    omega

theorem rsum_add (k c : Nat) (f g : Nat → Int) : rsum k c (fun l => f l + g l) = rsum k c f + rsum k c g := by
  induction c generalizing k with
  | zero => rfl
  | succ c ih => simp only [rsum_succ, ih]; omega

theorem rsum_const_zero (k c : Nat) : rsum k c (fun _ => 0) = 0 := by
  induction c generalizing k with
  | zero => rfl
  | succ c ih => simp only [rsum_succ, ih]; omega

theorem rsum_nonneg {k c : Nat} {f : Nat → Int} (h : ∀ l, k ≤ l → l < k + c → 0 ≤ f l) : 0 ≤ rsum k c f := by
  have := rsum_le (f := fun _ => 0) (g := f) h
  rw [rsum_const_zero] at this; exact this

theorem rsum_snoc (k c : Nat) (f : Nat → Int) : rsum k (c + 1) f = rsum k c f + f (k + c) := by
  induction c generalizing k with
  | zero => simp [rsum_succ]
  | succ c ih =>
    rw [rsum_succ, ih (k + 1), rsum_succ]
    have : k + 1 + c = k + (c + 1) := by omega
    rw [this]; omega

theorem rsum_split (k a b : Nat) (f : Nat → Int) : rsum k (a + b) f = rsum k a f + rsum (k + a) b f := by
  induction b with
  | zero => simp
  | succ b ih =>
    rw [← Nat.add_assoc, rsum_snoc, ih, rsum_snoc]
    have : k + (a + b) = k + a + b := by omega
    rw [this]; omega

-- lists

theorem sum_eq (l : List Int) : sum l = l.sum := by
  unfold sum
  have : ∀ (l : List Int) (acc : Int), l.foldl (· + ·) acc = acc + l.sum := by
    intro l
    induction l with
    | nil => intro acc; simp
    | cons a t ih => intro acc; simp only [List.foldl_cons, List.sum_cons, ih]; omega
  rw [this]; omega

theorem sum_map_range' (k c : Nat) (f : Nat → Int) : ((List.range' k c).map f).sum = rsum k c f := by
  induction c generalizing k with
  | zero => rfl
  | succ c ih => rw [List.range'_succ, List.map_cons, List.sum_cons, ih, rsum_succ]

theorem range_drop (n k : Nat) : (List.range n).drop k = List.range' k (n - k) := by
  rw [List.range_eq_range', List.drop_range']; simp

theorem mapM_eq_map {α β : Type} {f : α → Option β} {g : α → β} : ∀ {l : List α}, (∀ a ∈ l, f a = some (g a)) →
    l.mapM f = some (l.map g) := by
  intro l
  induction l with
  | nil => intro _; rfl
  | cons a t ih =>
    intro h
    rw [List.mapM_cons, h a (List.mem_cons_self ..), ih (fun b hb => h b (List.mem_cons_of_mem _ hb))]
    rfl


-- ------------------------------------------------------------------------------------------------------------------
-- the model on benefit FUNCTIONS (`Nat → Int`): what `trans`, `cost`, `bestRem` compute on states with one benefit per vertex

variable (T : Tab)

def bAt (s : St) (l : Nat) : Int := s.benef.getD l 0

theorem getElem?_bAt {s : St} {l : Nat} (h : l < s.benef.length) : s.benef[l]? = some (bAt s l) := by
  unfold bAt; rw [List.getD_eq_getElem?_getD, List.getElem?_eq_getElem h]; rfl

/-- one term of `branch_on_s` / `branch_on_t` -/
def termF (b : Nat → Int) (k : Nat) (v : Int) (l : Nat) : Int :=
  if v * (b l * w T k l) ≤ 0 then min (iabs (b l)) (iabs (w T k l)) else 0
def costF (b : Nat → Int) (k : Nat) (v : Int) : Int := max 0 (-(v * b k)) + rsum k (T.n - k) (termF T b k v)
def stepF (b : Nat → Int) (k : Nat) (v : Int) : Nat → Int := fun l => b l + v * w T k l

/-- the value-to-go on benefit functions (the domain is never empty: a plain integer) -/
def Hf : Nat → Nat → (Nat → Int) → Int
  | 0, _, _ => 0
  | f + 1, k, b =>
    if k ≥ T.n then 0 else
    if k = 0 then Hf f 1 (stepF T b 0 1)
    else max (costF T b k 1 + Hf f (k + 1) (stepF T b k 1)) (costF T b k (-1) + Hf f (k + 1) (stepF T b k (-1)))

theorem trans?_ok {s : St} (hlen : s.benef.length = T.n) (x : Nat) (v : Int) :
    trans? T s ⟨x, v⟩ = some (St.mk (s.depth + 1)
      (List.replicate (min x T.n) 0 ++ ((List.range T.n).drop x).map fun l => bAt s l + v * w T x l)) := by
  unfold trans?
  have : (((List.range T.n).drop x).mapM fun l => (s.benef[l]?).map fun b => b + v * w T x l) =
      some (((List.range T.n).drop x).map fun l => bAt s l + v * w T x l) := by
    apply mapM_eq_map
    intro l hl
    have hl' : l < T.n := List.mem_range.mp (List.mem_of_mem_drop hl)
    rw [getElem?_bAt (by omega)]; rfl
  simp only [this]
  rfl

theorem trans_ok {s : St} (hlen : s.benef.length = T.n) (x : Nat) (v : Int) :
    trans T s ⟨x, v⟩ = St.mk (s.depth + 1)
      (List.replicate (min x T.n) 0 ++ ((List.range T.n).drop x).map fun l => bAt s l + v * w T x l) := by
  unfold trans; rw [trans?_ok T hlen]; rfl

theorem trans_depth {s : St} (hlen : s.benef.length = T.n) (x : Nat) (v : Int) : (trans T s ⟨x, v⟩).depth = s.depth + 1 := by
  rw [trans_ok T hlen]

theorem trans_length {s : St} (hlen : s.benef.length = T.n) (x : Nat) (v : Int) (hx : x ≤ T.n) :
    (trans T s ⟨x, v⟩).benef.length = T.n := by
  rw [trans_ok T hlen]; simp; omega

theorem trans_bAt {s : St} (hlen : s.benef.length = T.n) (x : Nat) (v : Int) {l : Nat} (hxl : x ≤ l) (hl : l < T.n) :
    bAt (trans T s ⟨x, v⟩) l = stepF T (bAt s) x v l := by
  rw [trans_ok T hlen]
  unfold bAt stepF
  simp only [List.getD_eq_getElem?_getD]
  rw [List.getElem?_append_right (by simp; omega)]
  simp only [List.length_replicate, List.getElem?_map, range_drop]
  have hm : min x T.n = x := by omega
  rw [hm, List.getElem?_range' (by omega)]
  simp
  have : x + (l - x) = l := by omega
  rw [this]

theorem branch?_ok {s : St} (hlen : s.benef.length = T.n) {x : Nat} (hx : x < T.n) (v : Int) :
    branch? T s x v = some (costF T (bAt s) x v) := by
  rw [branch?_eq, getElem?_bAt (by omega)]
  have : (((List.range T.n).drop x).mapM fun l => (s.benef[l]?).map fun skl =>
        if v * (skl * w T x l) ≤ 0 then min (iabs skl) (iabs (w T x l)) else 0) =
      some (((List.range T.n).drop x).map (termF T (bAt s) x v)) := by
    apply mapM_eq_map
    intro l hl
    have hl' : l < T.n := List.mem_range.mp (List.mem_of_mem_drop hl)
    rw [getElem?_bAt (by omega)]; rfl
  simp only [Option.bind_some, this]
  rw [sum_eq, range_drop, sum_map_range']
  rfl

theorem cost_ok {s : St} (hlen : s.benef.length = T.n) {x : Nat} (hx : x < T.n) {v : Int} (hv : v = 1 ∨ v = -1) :
    cost T s ⟨x, v⟩ = if s.depth = 0 then 0 else costF T (bAt s) x v := by
  unfold cost cost?
  simp only [hv, if_true]
  split
  · rfl
  · rw [branch?_ok T hlen hx]; rfl


theorem costF_congr {b b' : Nat → Int} {k : Nat} (h : ∀ l, k ≤ l → l < T.n → b l = b' l) (hk : k < T.n) (v : Int) :
    costF T b k v = costF T b' k v := by
  unfold costF
  rw [h k (Nat.le_refl _) hk]
  congr 1
  apply rsum_congr
  intro l h1 h2
  unfold termF
  rw [h l h1 (by omega)]

/-- on states with one benefit per vertex the value-to-go of the model is `Hf` of the benefits not yet decided -/
theorem bestRemF_eq (fuel : Nat) : ∀ (s : St) (b : Nat → Int), s.benef.length = T.n →
    (∀ l, s.depth ≤ l → l < T.n → bAt s l = b l) → bestRemF T fuel s = some (Hf T fuel s.depth b) := by
  induction fuel with
  | zero => intro s b _ _; rfl
  | succ fuel ih =>
    intro s b hlen hb
    unfold bestRemF Hf
    by_cases hk : s.depth ≥ T.n
    · simp [hk]
    · have hk' : s.depth < T.n := by omega
      simp only [hk, if_false]
      have hnext : ∀ v : Int, bestRemF T fuel (trans T s ⟨s.depth, v⟩) =
          some (Hf T fuel (s.depth + 1) (stepF T b s.depth v)) := by
        intro v
        have := ih (trans T s ⟨s.depth, v⟩) (stepF T b s.depth v) (trans_length T hlen _ _ (by omega)) (by
          intro l h1 h2
          rw [trans_depth T hlen] at h1
          rw [trans_bAt T hlen _ _ (by omega) h2]
          unfold stepF
          rw [hb l (by omega) h2])
        rw [trans_depth T hlen] at this
        exact this
      by_cases h0 : s.depth = 0
      · simp only [domain, h0, if_true, List.foldl_cons, List.foldl_nil]
        have h1 := hnext 1
        rw [h0] at h1
        rw [h1]
        have hc := cost_ok T hlen (x := 0) (by omega) (v := 1) (Or.inl rfl)
        rw [hc, h0]
        simp [EInt.max, EInt.addI]
      · simp only [domain, h0, if_false, List.foldl_cons, List.foldl_nil]
        rw [hnext 1, hnext (-1), cost_ok T hlen hk' (Or.inl rfl), cost_ok T hlen hk' (Or.inr rfl)]
        simp only [h0, if_false]
        rw [costF_congr T hb hk', costF_congr T hb hk']
        simp only [EInt.max, EInt.addI, Option.map_some, Option.some.injEq]
        omega

theorem bestRem_eq {s : St} (h : StOk T s) : bestRem T s = some (Hf T (T.n - s.depth) s.depth (bAt s)) :=
  bestRemF_eq T _ s _ h.1 (fun _ _ _ => rfl)


-- ------------------------------------------------------------------------------------------------------------------
-- the closed form of the value of a completion (the telescoping identity behind the DP model of Bergman et al.)

theorem neg_mul_nonpos_iff (a b : Int) : -(a * b) ≤ 0 ↔ (a ≤ 0 ∧ b ≤ 0) ∨ (0 ≤ a ∧ 0 ≤ b) := by
  have h := mul_nonpos_iff' a (-b)
  rw [Int.mul_neg] at h
  rw [h]; omega

theorem iabs_eq_max (x : Int) : iabs x = max x (-x) := by unfold iabs; split <;> omega

/-- one vertex `l` seen from the vertex `k` being decided: what the arc pays (`termF`) plus what stays to be paid on the
    updated benefit is what was to be paid on the old benefit plus the weight of the edge if it is cut, minus its
    negative part (already counted in the root value) -/
theorem point_id (b w' xk xl : Int) (hk : xk = 1 ∨ xk = -1) (hl : xl = 1 ∨ xl = -1) :
    max 0 (-(xl * b)) + ((if xk ≠ xl then w' else 0) - min 0 w') =
    (if xk * (b * w') ≤ 0 then min (iabs b) (iabs w') else 0) + max 0 (-(xl * (b + xk * w'))) := by
  have h1 := mul_nonpos_iff' b w'
  have h2 := neg_mul_nonpos_iff b w'
  rw [iabs_eq_max, iabs_eq_max]
  rcases hk with rfl | rfl <;> rcases hl with rfl | rfl <;>
  simp only [Int.one_mul, Int.neg_mul, Int.neg_neg, ne_eq] <;>
  (by_cases hc : b * w' ≤ 0 <;> by_cases hc2 : -(b * w') ≤ 0 <;>
   simp only [hc, hc2, if_true, if_false, not_true_eq_false, not_false_eq_true, reduceCtorEq] <;>
   simp only [h1, h2] at hc hc2 <;> omega)

/-- a side for every vertex: `1` = `S`, `-1` = `T` -/
def Pm (x : Nat → Int) : Prop := ∀ l, x l = 1 ∨ x l = -1

/-- the edge `{i, j}` under the sides `x`: its weight if it is cut, minus its negative part -/
def eT (x : Nat → Int) (i j : Nat) : Int := (if x i ≠ x j then w T i j else 0) - min 0 (w T i j)
/-- the edges among the vertices `k, …, k + c - 1 (= n - 1)` -/
def Cf (x : Nat → Int) (k c : Nat) : Int := rsum k c fun i => rsum (i + 1) (T.n - (i + 1)) (eT T x i)
/-- the value of the completion `x` of a state of depth `k ≥ 1` with benefits `b` (`k + c = n`) -/
def Ff (b x : Nat → Int) (k c : Nat) : Int := rsum k c (fun l => max 0 (-(x l * b l))) + Cf T x k c

theorem Ff_step {b x : Nat → Int} {k c : Nat} (hx : Pm x) (hkc : k + (c + 1) = T.n) (hd : w T k k = 0) :
    Ff T b x k (c + 1) = costF T b k (x k) + Ff T (stepF T b k (x k)) x (k + 1) c := by
  unfold Ff Cf costF
  have e1 : T.n - k = c + 1 := by omega
  have e2 : T.n - (k + 1) = c := by omega
  rw [e1]
  simp only [rsum_succ]
  rw [e2]
  have ht : termF T b k (x k) k = 0 := by
    unfold termF; rw [hd, iabs_eq_max, iabs_eq_max]; simp; omega
  have key : rsum (k + 1) c (fun l => max 0 (-(x l * b l))) + rsum (k + 1) c (eT T x k) =
      rsum (k + 1) c (termF T b k (x k)) + rsum (k + 1) c (fun l => max 0 (-(x l * stepF T b k (x k) l))) := by
    rw [← rsum_add, ← rsum_add]
    apply rsum_congr
    intro l _ _
    exact point_id (b l) (w T k l) (x k) (x l) (hx k) (hx l)
  omega

theorem Ff_congr_x {b x x' : Nat → Int} {k c : Nat} (hkc : k + c = T.n) (h : ∀ l, k ≤ l → x l = x' l) :
    Ff T b x k c = Ff T b x' k c := by
  unfold Ff Cf
  congr 1
  · apply rsum_congr; intro l h1 _; rw [h l h1]
  · apply rsum_congr; intro i h1 _
    apply rsum_congr; intro j h2 _
    unfold eT; rw [h i h1, h j (by omega)]

/-- every completion is worth at most the value-to-go … -/
theorem Hf_ge (hd : ∀ k, w T k k = 0) {x : Nat → Int} (hx : Pm x) (c : Nat) : ∀ (k : Nat) (b : Nat → Int),
    k + c = T.n → k ≠ 0 → Ff T b x k c ≤ Hf T c k b := by
  induction c with
  | zero => intro k b _ _; simp [Ff, Cf, Hf]
  | succ c ih =>
    intro k b hkc hk0
    rw [Ff_step T hx hkc (hd k)]
    unfold Hf
    have : ¬ k ≥ T.n := by omega
    simp only [this, hk0, if_false]
    have := ih (k + 1) (stepF T b k (x k)) (by omega) (by omega)
    rcases hx k with h | h <;> rw [h] at this ⊢ <;> omega

/-- … which is the value of one of them -/
theorem Hf_att (hd : ∀ k, w T k k = 0) (c : Nat) : ∀ (k : Nat) (b : Nat → Int),
    k + c = T.n → k ≠ 0 → ∃ x, Pm x ∧ Hf T c k b = Ff T b x k c := by
  induction c with
  | zero => intro k b _ _; exact ⟨fun _ => 1, fun _ => Or.inl rfl, by simp [Ff, Cf, Hf]⟩
  | succ c ih =>
    intro k b hkc hk0
    have hstep : ∀ v : Int, v = 1 ∨ v = -1 → ∃ x, Pm x ∧ costF T b k v + Hf T c (k + 1) (stepF T b k v) = Ff T b x k (c + 1) := by
      intro v hv
      obtain ⟨x, hx, hH⟩ := ih (k + 1) (stepF T b k v) (by omega) (by omega)
      refine ⟨fun l => if l = k then v else x l, ?_, ?_⟩
      · intro l; by_cases hl : l = k <;> simp only [hl, if_true, if_false]
        · exact hv
        · exact hx l
      · have hpm : Pm (fun l => if l = k then v else x l) := by
          intro l; by_cases hl : l = k <;> simp only [hl, if_true, if_false]
          · exact hv
          · exact hx l
        rw [Ff_step T hpm hkc (hd k)]
        simp only [if_true]
        rw [hH]
        congr 1
        apply Ff_congr_x T (by omega)
        intro l hl
        have : l ≠ k := by omega
        simp [this]
    unfold Hf
    have : ¬ k ≥ T.n := by omega
    simp only [this, hk0, if_false]
    by_cases hc : costF T b k (-1) + Hf T c (k + 1) (stepF T b k (-1)) ≤ costF T b k 1 + Hf T c (k + 1) (stepF T b k 1)
    · obtain ⟨x, hx, h⟩ := hstep 1 (Or.inl rfl)
      exact ⟨x, hx, by rw [← h]; omega⟩
    · obtain ⟨x, hx, h⟩ := hstep (-1) (Or.inr rfl)
      exact ⟨x, hx, by rw [← h]; omega⟩

/-- the closed form is 1-Lipschitz in every benefit -/
theorem Ff_lip {b b' x : Nat → Int} (hx : Pm x) (k c : Nat) :
    Ff T b x k c ≤ Ff T b' x k c + rsum k c (fun l => iabs (b l - b' l)) := by
  unfold Ff
  have : rsum k c (fun l => max 0 (-(x l * b l))) ≤ rsum k c (fun l => max 0 (-(x l * b' l)) + iabs (b l - b' l)) := by
    apply rsum_le
    intro l _ _
    rw [iabs_eq_max]
    rcases hx l with h | h <;> rw [h] <;> simp only [Int.one_mul, Int.neg_mul, Int.neg_neg] <;> omega
  rw [rsum_add] at this
  omega

/-- **the value-to-go is 1-Lipschitz in every benefit** (any two states of one depth) -/
theorem Hf_lip (hd : ∀ k, w T k k = 0) (c k : Nat) (b b' : Nat → Int) (hkc : k + c = T.n) :
    Hf T c k b ≤ Hf T c k b' + rsum k c (fun l => iabs (b l - b' l)) := by
  by_cases hk0 : k = 0
  · subst hk0
    cases c with
    | zero => simp [Hf]
    | succ c =>
      unfold Hf
      have : ¬ 0 ≥ T.n := by omega
      simp only [this, if_false, if_true]
      obtain ⟨x, hx, h⟩ := Hf_att T hd c 1 (stepF T b 0 1) (by omega) (by omega)
      have h2 := Hf_ge T hd hx c 1 (stepF T b' 0 1) (by omega) (by omega)
      have h3 := Ff_lip T (b := stepF T b 0 1) (b' := stepF T b' 0 1) hx 1 c
      have h4 : rsum 1 c (fun l => iabs (stepF T b 0 1 l - stepF T b' 0 1 l)) = rsum 1 c (fun l => iabs (b l - b' l)) := by
        apply rsum_congr; intro l _ _; unfold stepF; congr 1; omega
      rw [rsum_succ, Nat.zero_add]
      have := iabs_nonneg (b 0 - b' 0)
      omega
  · obtain ⟨x, hx, h⟩ := Hf_att T hd c k b hkc hk0
    have h2 := Hf_ge T hd hx c k b' hkc hk0
    have h3 := Ff_lip T (b := b) (b' := b') hx k c
    omega


-- ------------------------------------------------------------------------------------------------------------------
-- `MergeOkStmt`

theorem relax?_ok {u m : St} (hu : u.benef.length = T.n) (hm : m.benef.length = T.n) (c : Int) :
    relax? T u m c = some (c + rsum 0 T.n (fun l => iabs (bAt u l) - iabs (bAt m l))) := by
  rw [relax?_eq]
  have : ((List.range T.n).mapM fun l => (u.benef[l]?).bind fun a => (m.benef[l]?).bind fun b => some (iabs a - iabs b)) =
      some ((List.range T.n).map fun l => iabs (bAt u l) - iabs (bAt m l)) := by
    apply mapM_eq_map
    intro l hl
    have hl' : l < T.n := List.mem_range.mp hl
    rw [getElem?_bAt (by omega), getElem?_bAt (by omega)]; rfl
  rw [this]
  simp only [Option.bind_some]
  rw [sum_eq, List.range_eq_range', sum_map_range']

theorem graphOk_diag {n : Nat} {adj : List (List Int)} (hG : GraphOk n adj) (k : Nat) : w (tabOfAdj n adj) k k = 0 :=
  (hG.2.2 k k).2

theorem graphOk_symm {n : Nat} {adj : List (List Int)} (hG : GraphOk n adj) (x y : Nat) :
    w (tabOfAdj n adj) x y = w (tabOfAdj n adj) y x := (hG.2.2 x y).1

/-- the merged state of a non-empty list of states of one depth, one benefit per vertex, is such a state -/
theorem merge_stOk {X : List St} {m : St} {k : Nat} (hX : ∀ s ∈ X, StOk T s ∧ s.depth = k) (hm : merge? T X = some m) :
    StOk T m ∧ m.depth = k := by
  cases X with
  | nil => cases hm
  | cons f r =>
    have hf := hX f (List.mem_cons_self ..)
    have hd := merge_depth T hm
    exact ⟨⟨merge_length T hm, by rw [hd]; exact hf.1.2⟩, by rw [hd]; exact hf.2⟩

/-- the core of `MergeOkStmt`, on any table with a zero diagonal: `H(u) ≤ Σ_l (|u_l| - |m_l|) + H(merge X)` -/
theorem merge_potential (hd : ∀ k, w T k k = 0) {X : List St} {u m : St}
    (hX : ∀ s ∈ X, StOk T s ∧ s.depth = u.depth) (hu : u ∈ X) (hm : merge? T X = some m) :
    Hf T (T.n - u.depth) u.depth (bAt u) ≤
      rsum 0 T.n (fun l => iabs (bAt u l) - iabs (bAt m l)) + Hf T (T.n - u.depth) u.depth (bAt m) := by
  have hSu := (hX u hu).1
  obtain ⟨hSm, hmd⟩ := merge_stOk T hX hm
  have hshrink : ∀ l, l < T.n → iabs (bAt u l - bAt m l) = iabs (bAt u l) - iabs (bAt m l) ∧
      0 ≤ iabs (bAt u l) - iabs (bAt m l) := by
    intro l hl
    obtain ⟨a, b, ha, hb, h1, h2, h3⟩ := merge_abs_le T hm hu hl
    rw [getElem?_bAt (by rw [hSm.1]; exact hl)] at ha
    rw [getElem?_bAt (by rw [hSu.1]; exact hl)] at hb
    cases ha; cases hb
    rw [iabs_eq_max] at h1 ⊢
    rw [iabs_eq_max] at h1 ⊢
    rw [iabs_eq_max]
    omega
  have hlip := Hf_lip T hd (T.n - u.depth) u.depth (bAt u) (bAt m) (by have := hSu.2; omega)
  have h1 : rsum u.depth (T.n - u.depth) (fun l => iabs (bAt u l - bAt m l)) =
      rsum u.depth (T.n - u.depth) (fun l => iabs (bAt u l) - iabs (bAt m l)) := by
    apply rsum_congr; intro l _ h2; exact (hshrink l (by have := hSu.2; omega)).1
  have h2 : rsum 0 T.n (fun l => iabs (bAt u l) - iabs (bAt m l)) =
      rsum 0 u.depth (fun l => iabs (bAt u l) - iabs (bAt m l)) +
      rsum u.depth (T.n - u.depth) (fun l => iabs (bAt u l) - iabs (bAt m l)) := by
    have e : T.n = u.depth + (T.n - u.depth) := by have := hSu.2; omega
    have := rsum_split 0 u.depth (T.n - u.depth) (fun l => iabs (bAt u l) - iabs (bAt m l))
    rw [← e, Nat.zero_add] at this
    exact this
  have h3 : 0 ≤ rsum 0 u.depth (fun l => iabs (bAt u l) - iabs (bAt m l)) := by
    apply rsum_nonneg; intro l _ hl; exact (hshrink l (by have := hSu.2; omega)).2
  omega

/-- **`MergeOkStmt` holds**: the merge operator of the mcp example together with its arc relaxation over-approximates
    every merged-away state (potential form) -/
theorem mergeOk : MergeOkStmt := by
  intro n adj hG X u m c r hX hu hm hr
  have hSu := (hX u hu).1
  obtain ⟨hSm, hmd⟩ := merge_stOk (tabOfAdj n adj) hX hm
  rw [relax?_ok (tabOfAdj n adj) hSu.1 hSm.1] at hr
  cases hr
  unfold mergeOkAt
  rw [bestRem_eq _ hSu, bestRem_eq _ hSm, hmd]
  simp only [decide_eq_true_eq]
  have := merge_potential (tabOfAdj n adj) (graphOk_diag hG) hX hu hm
  omega


-- ------------------------------------------------------------------------------------------------------------------
-- `RubAdmissibleStmt`

theorem rsum_neg (k c : Nat) (f : Nat → Int) : rsum k c (fun l => -f l) = -rsum k c f := by
  induction c generalizing k with
  | zero => rfl
  | succ c ih => simp only [rsum_succ, ih]; omega

/-- the positive weights among the vertices `k, …, n - 1`, row by row (`precompute_estimate`) -/
def PR (k c : Nat) : Int := rsum k c fun i => rsum (i + 1) (T.n - (i + 1)) fun j => max 0 (w T i j)
/-- minus the negative weights among the vertices `k, …, n - 1`, column by column -/
def NC (k c : Nat) : Int := rsum k c fun j => rsum k (j - k) fun i => -min 0 (w T i j)

theorem PR_succ {k c : Nat} (hkc : k + (c + 1) = T.n) : PR T k (c + 1) = rsum (k + 1) c (fun j => max 0 (w T k j)) + PR T (k + 1) c := by
  unfold PR
  rw [rsum_succ]
  have : T.n - (k + 1) = c := by omega
  rw [this]

theorem NC_succ (k c : Nat) : NC T k (c + 1) = rsum (k + 1) c (fun j => -min 0 (w T k j)) + NC T (k + 1) c := by
  unfold NC
  rw [rsum_succ, Nat.sub_self, rsum_zero, ← rsum_add]
  have : rsum (k + 1) c (fun j => rsum k (j - k) fun i => -min 0 (w T i j)) =
      rsum (k + 1) c (fun j => -min 0 (w T k j) + rsum (k + 1) (j - (k + 1)) fun i => -min 0 (w T i j)) := by
    apply rsum_congr
    intro j h1 _
    have : j - k = (j - (k + 1)) + 1 := by omega
    rw [this, rsum_succ]
  rw [this]; omega

theorem point_rub (b w' v : Int) (hv : v = 1 ∨ v = -1) :
    (if v * (b * w') ≤ 0 then min (iabs b) (iabs w') else 0) + iabs (b + v * w') ≤ iabs b + (max 0 w' + -min 0 w') := by
  have h1 := mul_nonpos_iff' b w'
  have h2 := neg_mul_nonpos_iff b w'
  rw [iabs_eq_max, iabs_eq_max, iabs_eq_max]
  rcases hv with rfl | rfl <;>
  simp only [Int.one_mul, Int.neg_mul] <;>
  (by_cases hc : b * w' ≤ 0 <;> by_cases hc2 : -(b * w') ≤ 0 <;>
   simp only [hc, hc2, if_true, if_false] <;>
   simp only [h1, h2] at hc hc2 <;> omega)

/-- the sharp form of the rough bound: the value-to-go is at most the absolute benefits of the free vertices plus the
    absolute weights of the edges among them -/
theorem Hf_le_rub (hd : ∀ k, w T k k = 0) (c : Nat) : ∀ (k : Nat) (b : Nat → Int), k + c = T.n →
    Hf T c k b ≤ rsum k c (fun l => iabs (b l)) + PR T k c + NC T k c := by
  induction c with
  | zero => intro k b _; simp [Hf, PR, NC]
  | succ c ih =>
    intro k b hkc
    rw [PR_succ T hkc, NC_succ, rsum_succ]
    have hb0 := iabs_nonneg (b k)
    have hpt : ∀ v : Int, v = 1 ∨ v = -1 →
        rsum (k + 1) c (termF T b k v) + rsum (k + 1) c (fun l => iabs (stepF T b k v l)) ≤
        rsum (k + 1) c (fun l => iabs (b l)) + (rsum (k + 1) c (fun j => max 0 (w T k j)) + rsum (k + 1) c (fun j => -min 0 (w T k j))) := by
      intro v hv
      rw [← rsum_add, ← rsum_add, ← rsum_add]
      apply rsum_le
      intro l _ _
      exact point_rub (b l) (w T k l) v hv
    have hterm0 : ∀ v : Int, 0 ≤ rsum (k + 1) c (termF T b k v) := by
      intro v
      apply rsum_nonneg
      intro l _ _
      unfold termF
      have := iabs_nonneg (b l)
      have := iabs_nonneg (w T k l)
      split <;> omega
    unfold Hf
    have : ¬ k ≥ T.n := by omega
    simp only [this, if_false]
    by_cases hk0 : k = 0
    · subst hk0
      simp only [if_true]
      have := ih 1 (stepF T b 0 1) (by omega)
      have := hpt 1 (Or.inl rfl)
      have := hterm0 1
      simp only [Nat.zero_add] at *
      omega
    · simp only [hk0, if_false]
      have hcost : ∀ v : Int, v = 1 ∨ v = -1 → costF T b k v ≤ iabs (b k) + rsum (k + 1) c (termF T b k v) := by
        intro v hv
        unfold costF
        have e1 : T.n - k = c + 1 := by omega
        rw [e1, rsum_succ]
        have ht : termF T b k v k = 0 := by
          unfold termF; rw [hd, iabs_eq_max, iabs_eq_max]; simp; omega
        rw [ht, iabs_eq_max]
        rcases hv with rfl | rfl <;> omega
      have i1 := ih (k + 1) (stepF T b k 1) (by omega)
      have i2 := ih (k + 1) (stepF T b k (-1)) (by omega)
      have p1 := hpt 1 (Or.inl rfl)
      have p2 := hpt (-1) (Or.inr rfl)
      have c1 := hcost 1 (Or.inl rfl)
      have c2 := hcost (-1) (Or.inr rfl)
      omega


-- the tables of `McpRelax::new` as sums over ranges

theorem list_eq_map_range {α : Type} (l : List α) (d : α) : l = (List.range l.length).map (fun i => l.getD i d) := by
  apply List.ext_getElem?
  intro i
  by_cases h : i < l.length
  · simp [h, List.getD_eq_getElem?_getD]
  · simp [h]

theorem drop_eq_map_range' (l : List Int) (k : Nat) : l.drop k = (List.range' k (l.length - k)).map (fun i => l.getD i 0) := by
  apply List.ext_getElem?
  intro i
  by_cases h : i < l.length - k
  · simp [h, List.getD_eq_getElem?_getD]
    have : k + i < l.length := by omega
    simp [this]
  · simp [h]

theorem sum_flatMap_range' (k c : Nat) (L : Nat → List Int) :
    ((List.range' k c).flatMap L).sum = rsum k c (fun i => (L i).sum) := by
  induction c generalizing k with
  | zero => rfl
  | succ c ih => rw [List.range'_succ, List.flatMap_cons, List.sum_append, ih, rsum_succ]

theorem sum_filter_neg (l : List Int) : (l.filter (· < 0)).sum = (l.map (min 0)).sum := by
  induction l with
  | nil => rfl
  | cons a t ih =>
    by_cases h : a < 0
    · simp only [List.filter_cons, h, decide_true, if_true, List.sum_cons, List.map_cons, ih]; omega
    · simp only [List.filter_cons, h, decide_false, List.sum_cons, List.map_cons]; simp; omega

theorem sum_map_flatten (f : Int → Int) (L : List (List Int)) :
    (L.flatten.map f).sum = (L.map fun row => (row.map f).sum).sum := by
  induction L with
  | nil => rfl
  | cons r t ih => rw [List.flatten_cons, List.map_append, List.sum_append, ih, List.map_cons, List.sum_cons]

theorem sum_map_eq_rsum {α : Type} (L : List α) (f : α → Int) (d : α) :
    (L.map f).sum = rsum 0 L.length (fun i => f (L.getD i d)) := by
  calc (L.map f).sum = (((List.range L.length).map (fun i => L.getD i d)).map f).sum := by rw [← list_eq_map_range]
    _ = _ := by rw [List.map_map, List.range_eq_range', sum_map_range']; rfl

/-- the square is twice the triangle (symmetric, zero diagonal) -/
theorem square_eq_two_tri (g : Nat → Nat → Int) (hs : ∀ x y, g x y = g y x) (h0 : ∀ x, g x x = 0) (m : Nat) :
    rsum 0 m (fun x => rsum 0 m (g x)) = 2 * rsum 0 m (fun j => rsum 0 j (fun i => g i j)) := by
  induction m with
  | zero => rfl
  | succ m ih =>
    rw [rsum_snoc 0 m (fun x => rsum 0 (m + 1) (g x)), rsum_snoc 0 m (fun j => rsum 0 j (fun i => g i j))]
    have h1 : rsum 0 m (fun x => rsum 0 (m + 1) (g x)) = rsum 0 m (fun x => rsum 0 m (g x)) + rsum 0 m (fun x => g x m) := by
      rw [← rsum_add]; apply rsum_congr; intro x _ _; rw [rsum_snoc]; simp
    have h2 : rsum 0 (m + 1) (g (0 + m)) = rsum 0 m (fun i => g i m) := by
      rw [rsum_snoc]; simp only [Nat.zero_add]; rw [h0 m]
      have : rsum 0 m (g m) = rsum 0 m (fun i => g i m) := by apply rsum_congr; intro i _ _; exact hs m i
      omega
    simp only [Nat.zero_add] at *
    rw [h1, h2, ih]; omega

/-- the negative weights among the vertices `0, …, m - 1`, column by column (`precompute_nk`) -/
def colNeg (adj : List (List Int)) (m : Nat) : Int := rsum 0 m fun j => rsum 0 j fun i => min 0 (wAt adj i j)

theorem estimateAt_eq (n : Nat) (adj : List (List Int)) (k : Nat) : estimateAt n adj k = PR (tabOfAdj n adj) k (n - k) := by
  unfold estimateAt PR
  rw [sum_eq, range_drop, sum_flatMap_range']
  apply rsum_congr
  intro i _ _
  rw [range_drop, sum_map_range']
  apply rsum_congr
  intro j _ _
  show (if wAt adj i j > 0 then wAt adj i j else 0) = max 0 (wAt adj i j)
  split <;> omega

theorem nkAt_eq (adj : List (List Int)) (k : Nat) : nkAt adj k = colNeg adj k := by
  unfold nkAt colNeg
  rw [sum_eq, List.range_eq_range', sum_flatMap_range']
  apply rsum_congr
  intro j _ _
  rw [List.range_eq_range', sum_map_range']
  apply rsum_congr
  intro i _ _
  show (if wAt adj i j < 0 then wAt adj i j else 0) = min 0 (wAt adj i j)
  split <;> omega

/-- on a symmetric matrix with a zero diagonal `sum_of_negative_edges` is the sum of the negative weights, every edge
    counted once (the halving is exact) -/
theorem sumNeg_eq {n : Nat} {adj : List (List Int)} (hG : GraphOk n adj) : sumNeg adj = colNeg adj n := by
  unfold sumNeg colNeg
  rw [sum_eq, sum_filter_neg, sum_map_flatten, sum_map_eq_rsum adj _ [], hG.1]
  have h1 : rsum 0 n (fun i => ((adj.getD i []).map (min 0)).sum) = rsum 0 n (fun x => rsum 0 n (fun y => min 0 (wAt adj x y))) := by
    apply rsum_congr
    intro x _ hx
    have hmem : adj.getD x [] ∈ adj := by
      have hx' : x < adj.length := by rw [hG.1]; omega
      rw [List.getD_eq_getElem?_getD, List.getElem?_eq_getElem hx']
      exact List.getElem_mem hx'
    rw [sum_map_eq_rsum _ _ 0, hG.2.1 _ hmem]
    rfl
  rw [h1, square_eq_two_tri (fun x y => min 0 (wAt adj x y)) (fun x y => by rw [(hG.2.2 x y).1])
    (fun x => by rw [(hG.2.2 x x).2]; rfl) n]
  exact Int.mul_tdiv_cancel_left _ (by decide)

/-- what `fast_upper_bound` adds for the negative weights (`- vr + nk[k]`: minus ALL the negative weights with an end
    point `≥ k`) is at least minus the negative weights among the free vertices -/
theorem NC_le (n : Nat) (adj : List (List Int)) (k c : Nat) (hkc : k + c = n) :
    NC (tabOfAdj n adj) k c ≤ -colNeg adj n + colNeg adj k := by
  have e1 : NC (tabOfAdj n adj) k c = -rsum k c (fun j => rsum k (j - k) fun i => min 0 (wAt adj i j)) := by
    unfold NC
    rw [← rsum_neg]
    apply rsum_congr
    intro j _ _
    rw [← rsum_neg]
    rfl
  have e2 : colNeg adj n = colNeg adj k + rsum k c (fun j => rsum 0 j fun i => min 0 (wAt adj i j)) := by
    unfold colNeg
    rw [← hkc, rsum_split, Nat.zero_add]
  have e3 : rsum k c (fun j => rsum 0 j fun i => min 0 (wAt adj i j)) ≤
      rsum k c (fun j => rsum k (j - k) fun i => min 0 (wAt adj i j)) := by
    apply rsum_le
    intro j hj _
    have hs := rsum_split 0 k (j - k) (fun i => min 0 (wAt adj i j))
    rw [show k + (j - k) = j by omega, Nat.zero_add] at hs
    have : rsum 0 k (fun i => min 0 (wAt adj i j)) ≤ 0 := by
      have := rsum_nonneg (k := 0) (c := k) (f := fun i => -min 0 (wAt adj i j)) (fun i _ _ => by omega)
      rw [rsum_neg] at this
      omega
    omega
  omega

theorem rub?_ok {n : Nat} {adj : List (List Int)} (hG : GraphOk n adj) {s : St} (hS : StOk (tabOfAdj n adj) s) :
    rub? (tabOfAdj n adj) s = some (rsum s.depth (n - s.depth) (fun l => iabs (bAt s l)) +
      PR (tabOfAdj n adj) s.depth (n - s.depth) - colNeg adj n + colNeg adj s.depth) := by
  have hd : s.depth ≤ n := hS.2
  have hl : s.benef.length = n := hS.1
  unfold rub?
  have h1 : (tabOfAdj n adj).est[s.depth]? = some (estimateAt n adj s.depth) := by
    show ((List.range (n + 1)).map (estimateAt n adj))[s.depth]? = _
    rw [List.getElem?_map, List.getElem?_range (by omega)]; rfl
  have h2 : (tabOfAdj n adj).nk[s.depth]? = some (nkAt adj s.depth) := by
    show ((List.range (n + 1)).map (nkAt adj))[s.depth]? = _
    rw [List.getElem?_map, List.getElem?_range (by omega)]; rfl
  rw [h1, h2]
  simp only [Option.bind_eq_bind, Option.bind_some, Option.pure_def]
  rw [sum_eq, drop_eq_map_range', List.map_map, sum_map_range', hl, estimateAt_eq, nkAt_eq]
  have h3 : (tabOfAdj n adj).vr = colNeg adj n := sumNeg_eq hG
  rw [h3]
  rfl

/-- **`RubAdmissibleStmt` holds**: the rough upper bound of the mcp example dominates the value-to-go of every state with one
    benefit per vertex -/
theorem rubAdmissible : RubAdmissibleStmt := by
  intro n adj hG s hS
  rw [bestRem_eq _ hS]
  simp only [relaxation]
  rw [rub?_ok hG hS]
  simp only [Option.getD_some, EInt.some_le_some]
  have hd : s.depth ≤ n := hS.2
  have h1 := Hf_le_rub (tabOfAdj n adj) (graphOk_diag hG) (n - s.depth) s.depth (bAt s) (by show s.depth + (n - s.depth) = n; omega)
  have h2 := NC_le n adj s.depth (n - s.depth) (by omega)
  have h3 : (tabOfAdj n adj).n = n := rfl
  rw [h3]
  omega


-- ------------------------------------------------------------------------------------------------------------------
-- the `WfRel` instance

/-- the potential: the value-to-go of the model itself (the depth is in the state) -/
def H (_ : Nat) (s : St) : EInt := bestRem T s
/-- layer validity: one benefit per vertex, and the depth stored in the state is the depth of the layer -/
def V (k : Nat) (s : St) : Prop := StOk T s ∧ s.depth = k

theorem V_init : V T 0 (problem T).init := ⟨⟨by simp [problem, initSt], Nat.zero_le _⟩, rfl⟩

theorem merge?_ok {X : List St} (hne : X ≠ []) (hX : ∀ s ∈ X, s.benef.length = T.n) : ∃ m, merge? T X = some m := by
  cases X with
  | nil => exact absurd rfl hne
  | cons f r =>
    rw [merge?_cons]
    have : ((List.range T.n).mapM fun l => (f :: r).mapM fun s => s.benef[l]?) =
        some ((List.range T.n).map fun l => (f :: r).map fun s => bAt s l) := by
      apply mapM_eq_map
      intro l hl
      apply mapM_eq_map
      intro s hs
      exact getElem?_bAt (by rw [hX s hs]; exact List.mem_range.mp hl)
    rw [this]
    exact ⟨_, rfl⟩

theorem V_merge {k : Nat} {X : List St} (hne : X ≠ []) (hX : ∀ u ∈ X, V T k u) :
    ∃ m, merge? T X = some m ∧ (relaxation T).merge X = m ∧ V T k m := by
  obtain ⟨m, hm⟩ := merge?_ok T hne (fun s hs => (hX s hs).1.1)
  refine ⟨m, hm, by simp [relaxation, hm], ?_⟩
  exact merge_stOk T hX hm

theorem nextVar_some {k : Nat} {L : List St} {x : Nat} (h : (problem T).nextVar k L = some x) : x = k ∧ k < T.n := by
  simp only [problem, nextVar] at h
  split at h
  · cases h; exact ⟨rfl, by assumption⟩
  · cases h

theorem V_trans {k : Nat} {s : St} (hV : V T k s) (hk : k < T.n) (v : Int) : V T (k + 1) ((problem T).trans s ⟨k, v⟩) := by
  obtain ⟨⟨hl, _⟩, hd⟩ := hV
  refine ⟨⟨trans_length T hl _ _ (by omega), ?_⟩, ?_⟩
  · show (trans T s ⟨k, v⟩).depth ≤ T.n
    rw [trans_depth T hl]; omega
  · show (trans T s ⟨k, v⟩).depth = k + 1
    rw [trans_depth T hl]; omega

theorem bestRem_trans {s : St} (hS : StOk T s) (hk : s.depth < T.n) (v : Int) :
    bestRem T (trans T s ⟨s.depth, v⟩) = some (Hf T (T.n - (s.depth + 1)) (s.depth + 1) (stepF T (bAt s) s.depth v)) := by
  unfold bestRem
  have := bestRemF_eq T (T.n - (s.depth + 1)) (trans T s ⟨s.depth, v⟩) (stepF T (bAt s) s.depth v)
    (trans_length T hS.1 _ _ (by omega)) (by
      intro l h1 h2
      rw [trans_depth T hS.1] at h1
      exact trans_bAt T hS.1 _ _ (by omega) h2)
  rw [trans_depth T hS.1] at this ⊢
  exact this

/-- `att` on any valid state: some decision of the domain keeps the potential -/
theorem attV {k : Nat} {s : St} {h : Int} (hV : V T k s) (hk : k < T.n) (hH : H T k s = some h) :
    ∃ d ∈ (problem T).domain k s, ∃ h', H T (k + 1) ((problem T).trans s ⟨k, d⟩) = some h' ∧
      h ≤ (problem T).cost s ((problem T).trans s ⟨k, d⟩) ⟨k, d⟩ + h' := by
  obtain ⟨hS, hd⟩ := hV
  subst hd
  simp only [H, bestRem_eq T hS, Option.some.injEq] at hH
  have e : T.n - s.depth = (T.n - (s.depth + 1)) + 1 := by omega
  rw [e] at hH
  unfold Hf at hH
  have hnk : ¬ s.depth ≥ T.n := by omega
  simp only [hnk, if_false] at hH
  simp only [H, problem]
  by_cases h0 : s.depth = 0
  · simp only [h0, if_true, Nat.zero_add] at hH
    refine ⟨1, by simp [domain, h0], _, bestRem_trans T hS hk 1, ?_⟩
    rw [cost_ok T hS.1 hk (Or.inl rfl)]
    simp only [h0, if_true, Nat.zero_add]
    omega
  · simp only [h0, if_false] at hH
    by_cases hc : costF T (bAt s) s.depth (-1) + Hf T (T.n - (s.depth + 1)) (s.depth + 1) (stepF T (bAt s) s.depth (-1)) ≤
        costF T (bAt s) s.depth 1 + Hf T (T.n - (s.depth + 1)) (s.depth + 1) (stepF T (bAt s) s.depth 1)
    · refine ⟨1, by simp [domain, h0], _, bestRem_trans T hS hk 1, ?_⟩
      rw [cost_ok T hS.1 hk (Or.inl rfl)]
      simp only [h0, if_false]
      omega
    · refine ⟨-1, by simp [domain, h0], _, bestRem_trans T hS hk (-1), ?_⟩
      rw [cost_ok T hS.1 hk (Or.inr rfl)]
      simp only [h0, if_false]
      omega

/-- **the model of the mcp example is well formed** (`WfRel`) on every instance of the domain (symmetric matrix, zero
    diagonal), with the tables `McpRelax::new` computes -/
theorem wfRel {n : Nat} {adj : List (List Int)} (hG : GraphOk n adj) :
    WfRel (problem (tabOfAdj n adj)) (relaxation (tabOfAdj n adj)) (H (tabOfAdj n adj)) (V (tabOfAdj n adj)) where
  vstep := by
    intro k L x s d hnv _ hV _
    obtain ⟨rfl, hk⟩ := nextVar_some _ hnv
    exact V_trans _ hV hk d
  vstepMerge := by
    intro k L x X d hnv hne _ hX _
    obtain ⟨rfl, hk⟩ := nextVar_some _ hnv
    obtain ⟨m, _, hm, hVm⟩ := V_merge _ hne hX
    rw [hm]
    exact V_trans _ hVm hk d
  vmerge := by
    intro k X hne hX
    obtain ⟨m, _, hm, hVm⟩ := V_merge _ hne hX
    rw [hm]; exact hVm
  att := by
    intro k L x s h hnv _ hV hH
    obtain ⟨rfl, hk⟩ := nextVar_some _ hnv
    exact attV _ hV hk hH
  attMerge := by
    intro k L x X h hnv hne _ hX hH
    obtain ⟨rfl, hk⟩ := nextVar_some _ hnv
    obtain ⟨m, _, hm, hVm⟩ := V_merge _ hne hX
    rw [hm] at hH ⊢
    exact attV _ hVm hk hH
  term := by
    intro k L s h hnv _ hV hH
    have hk : ¬ k < (tabOfAdj n adj).n := by
      intro hk
      simp [problem, nextVar, hk] at hnv
    obtain ⟨hS, hd⟩ := hV
    simp only [H, bestRem_eq _ hS, Option.some.injEq] at hH
    have : (tabOfAdj n adj).n - s.depth = 0 := by omega
    rw [this] at hH
    simp only [Hf] at hH
    omega
  rub := by
    intro k s h hV hH
    have := rubAdmissible n adj hG s hV.1
    simp only [H] at hH
    rw [hH] at this
    exact this
  merge := by
    intro k X u src d c h hu hX hH
    obtain ⟨m, hm?, hm, hVm⟩ := V_merge _ (List.ne_nil_of_mem hu) hX
    have hSu := (hX u hu).1
    have hX' : ∀ s ∈ X, StOk (tabOfAdj n adj) s ∧ s.depth = u.depth := fun s hs => ⟨(hX s hs).1, by rw [(hX s hs).2, (hX u hu).2]⟩
    have hpot := merge_potential _ (graphOk_diag hG) hX' hu hm?
    simp only [H, bestRem_eq _ hSu, Option.some.injEq] at hH
    rw [hm]
    refine ⟨_, by simp only [H]; exact bestRem_eq _ hVm.1, ?_⟩
    simp only [relaxation, relax?_ok _ hSu.1 hVm.1.1, Option.getD_some]
    rw [hVm.2, ← (hX u hu).2]
    omega


-- ------------------------------------------------------------------------------------------------------------------
-- the matrix `Graph::from_lines` builds from an instance of the domain is symmetric with a zero diagonal

/-- dimensions of the matrix -/
def Dims (n : Nat) (adj : List (List Int)) : Prop := adj.length = n ∧ ∀ row ∈ adj, row.length = n

theorem getD_mem {adj : List (List Int)} {x : Nat} (hx : x < adj.length) : adj.getD x [] ∈ adj := by
  rw [List.getD_eq_getElem?_getD, List.getElem?_eq_getElem hx]
  exact List.getElem_mem hx

theorem setCell_dims {n : Nat} {adj : List (List Int)} (h : Dims n adj) {x : Nat} (hx : x < n) (y : Nat) (v : Int) :
    Dims n (setCell adj x y v) := by
  unfold setCell
  refine ⟨by rw [List.length_set]; exact h.1, ?_⟩
  intro row hrow
  rcases List.mem_or_eq_of_mem_set hrow with hr | hr
  · exact h.2 row hr
  · rw [hr, List.length_set]
    exact h.2 _ (getD_mem (by rw [h.1]; exact hx))

theorem wAt_setCell {n : Nat} {adj : List (List Int)} (h : Dims n adj) {x y : Nat} (hx : x < n) (hy : y < n) (v : Int) (a b : Nat) :
    wAt (setCell adj x y v) a b = if a = x ∧ b = y then v else wAt adj a b := by
  unfold wAt setCell
  simp only [List.getD_eq_getElem?_getD, List.getElem?_set]
  by_cases hax : x = a
  · subst hax
    have hx' : x < adj.length := by rw [h.1]; exact hx
    simp only [hx', if_true, Option.getD_some, List.getElem?_set]
    by_cases hby : y = b
    · subst hby
      have : y < (adj[x]?.getD []).length := by
        have := h.2 _ (getD_mem hx')
        rw [List.getD_eq_getElem?_getD] at this
        rw [this]; exact hy
      simp [this]
    · have : ¬ b = y := fun h => hby h.symm
      simp [hby, this]
  · have : ¬ a = x := fun h => hax h.symm
    simp [hax, this]

theorem graphOk_fold (n : Nat) (edges : List (Int × Int × Int))
    (hE : ∀ e ∈ edges, 1 ≤ e.1 ∧ e.1 ≤ n ∧ 1 ≤ e.2.1 ∧ e.2.1 ≤ n ∧ e.1 ≠ e.2.1) :
    ∀ adj : List (List Int), GraphOk n adj → GraphOk n (edges.foldl (fun adj (u, v, w) =>
      let x := (u - 1).toNat; let y := (v - 1).toNat
      setCell (setCell adj x y w) y x w) adj) := by
  induction edges with
  | nil => intro adj h; exact h
  | cons e t ih =>
    intro adj h
    obtain ⟨u, v, wt⟩ := e
    rw [List.foldl_cons]
    apply ih (fun e he => hE e (List.mem_cons_of_mem _ he))
    have he := hE (u, v, wt) (List.mem_cons_self ..)
    simp only at he
    have hx : (u - 1).toNat < n := by omega
    have hy : (v - 1).toNat < n := by omega
    have hxy : (u - 1).toNat ≠ (v - 1).toNat := by omega
    have hD : Dims n adj := ⟨h.1, h.2.1⟩
    have hD1 := setCell_dims hD hx (v - 1).toNat wt
    have hD2 := setCell_dims hD1 hy (u - 1).toNat wt
    refine ⟨hD2.1, hD2.2, ?_⟩
    intro a b
    simp only [wAt_setCell hD1 hy hx, wAt_setCell hD hx hy]
    have hs := (h.2.2 a b).1
    have h0 := (h.2.2 a a).2
    refine ⟨?_, ?_⟩
    · by_cases c1 : a = (v - 1).toNat ∧ b = (u - 1).toNat
      · simp [c1]
      · by_cases c2 : a = (u - 1).toNat ∧ b = (v - 1).toNat
        · simp [c2]
        · have c3 : ¬ (b = (v - 1).toNat ∧ a = (u - 1).toNat) := fun c => c2 ⟨c.2, c.1⟩
          have c4 : ¬ (b = (u - 1).toNat ∧ a = (v - 1).toNat) := fun c => c1 ⟨c.2, c.1⟩
          simp only [c1, c2, c3, c4, if_false]
          exact hs
    · have c1 : ¬ (a = (v - 1).toNat ∧ a = (u - 1).toNat) := fun c => hxy (c.2.symm.trans c.1)
      have c2 : ¬ (a = (u - 1).toNat ∧ a = (v - 1).toNat) := fun c => hxy (c.1.symm.trans c.2)
      simp only [c1, c2, if_false]
      exact h0

theorem graphOk_zero (n : Nat) : GraphOk n (List.replicate n (List.replicate n 0)) := by
  refine ⟨by simp, ?_, ?_⟩
  · intro row hrow
    rw [(List.mem_replicate.mp hrow).2]; simp
  · have : ∀ x y, wAt (List.replicate n (List.replicate n (0 : Int))) x y = 0 := by
      intro x y
      unfold wAt
      simp only [List.getD_eq_getElem?_getD, List.getElem?_replicate]
      split
      · simp only [Option.getD_some, List.getElem?_replicate]; split <;> rfl
      · rfl
    intro x y; rw [this, this, this]; exact ⟨rfl, rfl⟩

/-- an instance of the domain of the format gives a matrix of the domain of the statements -/
theorem graphOk_of_inDomain {n : Nat} {edges : List (Int × Int × Int)} (h : inDomain n edges = true) :
    GraphOk n (adjOf n edges) := by
  unfold adjOf
  apply graphOk_fold n edges _ _ (graphOk_zero n)
  intro e he
  obtain ⟨u, v, wt⟩ := e
  simp only [inDomain, readerPanics, Bool.and_eq_true, Bool.not_eq_true', List.any_eq_false, List.all_eq_true] at h
  have h1 := h.1.1 (u, v, wt) he
  have h2 := h.1.2 (u, v, wt) he
  simp at h1 h2
  simp only
  omega


-- ------------------------------------------------------------------------------------------------------------------
-- the generic relaxed-compilation theorem (`Ddo.C06.relaxed_ub_rel_dom`) and the mcp example

/-- **finding**: the no-saturation hypothesis of the generic theorems (`NoClampDom.relax`, `NoClamp.relax`: the relaxed
    cost of ANY triple of states stays in `[-B, B]`) cannot be met by the mcp relaxation as soon as there is a vertex: its
    `relax` adds `Σ_l (|dst_l| - |mrg_l|)`, unbounded over all pairs of states.  The clause would have to be relativised to
    valid states of bounded benefits (as `WfRel` relativises the others) before `relaxed_ub_rel_dom` applies to this
    example (and to max2sat, whose `relax` has the same shape). -/
theorem noClampDom_false (hn : 1 ≤ T.n) (rv B : Int) : ¬ NoClampDom (problem T) (relaxation T) rv B := by
  intro h
  have hB := h.nonneg
  have hr := (h.relax (initSt T) ⟨0, List.replicate T.n (2 * B + 1)⟩ (initSt T) ⟨0, 1⟩ 0 ⟨by omega, hB⟩).2
  simp only [relaxation] at hr
  rw [relax?_ok T (by simp) (by simp [initSt])] at hr
  simp only [Option.getD_some] at hr
  have hc : rsum 0 T.n (fun l => iabs (bAt ⟨0, List.replicate T.n (2 * B + 1)⟩ l) - iabs (bAt (initSt T) l)) =
      rsum 0 T.n (fun _ => 2 * B + 1) := by
    apply rsum_congr
    intro l _ hl
    have hl' : l < T.n := by omega
    simp only [bAt, initSt, List.getD_eq_getElem?_getD, List.getElem?_replicate, hl', if_true, Option.getD_some]
    rw [iabs_eq_max, iabs_eq_max]; omega
  rw [hc] at hr
  obtain ⟨c, hcn⟩ : ∃ c, T.n = c + 1 := ⟨T.n - 1, by omega⟩
  rw [hcn, rsum_succ] at hr
  have := rsum_nonneg (k := 0 + 1) (c := c) (f := fun _ => 2 * B + 1) (fun _ _ _ => by omega)
  omega

/-- the corollary as far as the generic theorem allows: **conditional on `NoClampDom`**, which `noClampDom_false` shows to
    be unsatisfiable for `n ≥ 1` — so this is the plumbing only (root validity, `WfRel`, the optimum as the potential of the
    root); an unconditional `mcp_relaxed_ub` needs the relativised no-saturation clause described there. -/
theorem mcp_relaxed_ub_partial {K : Type} [DecidableEq K] (cfg : Cfg St K) (B : Int)
    (cache : Cache St) (store : DomStore St K) (polls : Nat) {n : Nat} {adj : List (List Int)} (hG : GraphOk n adj)
    (hP : cfg.P = problem (tabOfAdj n adj)) (hR : cfg.R = relaxation (tabOfAdj n adj))
    (hrs : cfg.root.state = initSt (tabOfAdj n adj)) (hrv : cfg.root.value = (tabOfAdj n adj).vr) (hrd : cfg.root.depth = 0)
    (hrel : cfg.ctype = .relaxed) (hcache : cfg.useCache = false) (hdom : cfg.dom = none) (hW : 1 ≤ cfg.width)
    (hB : NoClampDom (problem (tabOfAdj n adj)) (relaxation (tabOfAdj n adj)) (tabOfAdj n adj).vr B)
    (hlb : InI cfg.lb) (o : Int)
    (ho : (bestRem (tabOfAdj n adj) (initSt (tabOfAdj n adj))).addI (tabOfAdj n adj).vr = some o) (hgt : o > cfg.lb)
    (hO : o ≤ iMax ∨ cfg.lb < iMax) :
    (compile cfg cache store polls none).1 = .ok →
    ∃ bv, (compile cfg cache store polls none).2.1.bestValue = some bv ∧ o ≤ bv := by
  refine C06.relaxed_ub_rel_dom cfg (H (tabOfAdj n adj)) (V (tabOfAdj n adj)) B cache store polls hrel hcache hdom hW
    ?_ ?_ ?_ hlb o ?_ hgt hO
  · rw [hP, hR]; exact wfRel hG
  · rw [hrd, hrs]; exact V_init _
  · rw [hP, hR, hrv]; exact hB
  · unfold optOf
    rw [hrd, hrs, hrv]
    exact ho


-- ------------------------------------------------------------------------------------------------------------------
-- `DpExactStmt`, the model half: value + value-to-go along a path = the best cut (on the matrix) extending the path

/-- the weight of the cut defined by the sides `x`, on the matrix -/
def cutM (x : Nat → Int) : Int := rsum 0 T.n fun i => rsum (i + 1) (T.n - (i + 1)) fun j => if x i ≠ x j then w T i j else 0

theorem Ff_congr_b {b b' x : Nat → Int} {k c : Nat} (hkc : k + c = T.n) (h : ∀ l, k ≤ l → l < T.n → b l = b' l) :
    Ff T b x k c = Ff T b' x k c := by
  unfold Ff
  congr 1
  apply rsum_congr; intro l h1 h2; rw [h l h1 (by omega)]

/-- triangles: row by row = column by column -/
theorem row_eq_col (g : Nat → Nat → Int) (c : Nat) : ∀ k, k + c = T.n →
    rsum k c (fun i => rsum (i + 1) (T.n - (i + 1)) (g i)) = rsum k c (fun j => rsum k (j - k) (fun i => g i j)) := by
  induction c with
  | zero => intro k _; rfl
  | succ c ih =>
    intro k hkc
    rw [rsum_succ, rsum_succ, Nat.sub_self, rsum_zero, ih (k + 1) (by omega)]
    have e : T.n - (k + 1) = c := by omega
    rw [e]
    have : rsum (k + 1) c (fun j => rsum k (j - k) fun i => g i j) =
        rsum (k + 1) c (fun j => g k j + rsum (k + 1) (j - (k + 1)) fun i => g i j) := by
      apply rsum_congr
      intro j h1 _
      have : j - k = (j - (k + 1)) + 1 := by omega
      rw [this, rsum_succ]
    rw [this, rsum_add]; omega

/-- the edge terms of all the vertices: the cut minus the negative weights -/
theorem Cf_zero {n : Nat} {adj : List (List Int)} (hG : GraphOk n adj) (x : Nat → Int) :
    Cf (tabOfAdj n adj) x 0 n = cutM (tabOfAdj n adj) x - (tabOfAdj n adj).vr := by
  have h3 : (tabOfAdj n adj).vr = colNeg adj n := sumNeg_eq hG
  have h4 := row_eq_col (tabOfAdj n adj) (fun i j => min 0 (wAt adj i j)) n 0 (by show 0 + n = n; omega)
  have h5 : colNeg adj n = rsum 0 n (fun j => rsum 0 (j - 0) fun i => min 0 (wAt adj i j)) := rfl
  rw [h3, h5, ← h4]
  unfold Cf cutM
  have hn : (tabOfAdj n adj).n = n := rfl
  rw [hn]
  have : ∀ a b c : Int, a + c = b → a = b - c := by intro a b c h; omega
  apply this
  rw [← rsum_add]
  apply rsum_congr
  intro i _ _
  rw [← rsum_add]
  apply rsum_congr
  intro j _ _
  unfold eT
  show _ - min 0 (wAt adj i j) + min 0 (wAt adj i j) = _
  omega


/-- along a path of the model below the first layer, value + value of a completion is invariant -/
theorem path_inv (hd : ∀ k, w T k k = 0) : ∀ (decs : List Dec) (k : Nat) (s : St) (v : Int) (s' : St) (v' : Int) (k' : Nat),
    V T k s → 1 ≤ k → evalFrom (problem T) k s v decs = some (s', v', k') →
    V T k' s' ∧ k' = k + decs.length ∧ (∀ d ∈ decs, d.val = 1 ∨ d.val = -1) ∧ ∀ x, Pm x → (∀ i d, decs[i]? = some d → x (k + i) = d.val) →
      v + Ff T (bAt s) x k (T.n - k) = v' + Ff T (bAt s') x k' (T.n - k') := by
  intro decs
  induction decs with
  | nil =>
    intro k s v s' v' k' hV _ h
    simp only [evalFrom, Option.some.injEq, Prod.mk.injEq] at h
    obtain ⟨rfl, rfl, rfl⟩ := h
    refine ⟨hV, rfl, ?_, fun _ _ _ => rfl⟩
    intro d hd; cases hd
  | cons d ds ih =>
    intro k s v s' v' k' hV hk h
    obtain ⟨dx, dv⟩ := d
    simp only [evalFrom] at h
    by_cases hkn : k < T.n
    · have hnv : (problem T).nextVar k [s] = some k := by simp [problem, nextVar, hkn]
      rw [hnv] at h
      simp only at h
      split at h
      · rename_i hc
        obtain ⟨hvar, hval⟩ := hc
        subst hvar
        have hs0 : s.depth ≠ 0 := by rw [hV.2]; omega
        have hdom : dv = 1 ∨ dv = -1 := by
          simp only [problem, domain, hs0, if_false] at hval
          simpa using hval
        obtain ⟨hV', hle, hpm, hinv⟩ := ih (dx + 1) _ _ s' v' k' (V_trans T hV hkn dv) (by omega) h
        refine ⟨hV', by rw [hle, List.length_cons]; omega, ?_, ?_⟩
        · intro d hd
          rcases List.mem_cons.mp hd with rfl | hd
          · exact hdom
          · exact hpm d hd
        intro x hx hext
        have hxk : x dx = dv := by have := hext 0 ⟨dx, dv⟩ rfl; simpa using this
        have := hinv x hx (fun i d hi => by
          have := hext (i + 1) d (by simpa using hi)
          rw [← this]; congr 1; omega)
        rw [← this]
        have e : T.n - dx = (T.n - (dx + 1)) + 1 := by omega
        rw [e, Ff_step T hx (by omega) (hd dx), hxk]
        have hc : (problem T).cost s ((problem T).trans s ⟨dx, dv⟩) ⟨dx, dv⟩ = costF T (bAt s) dx dv := by
          show cost T s ⟨dx, dv⟩ = _
          rw [cost_ok T hV.1.1 hkn hdom]; simp [hs0]
        rw [hc]
        have hb : Ff T (stepF T (bAt s) dx dv) x (dx + 1) (T.n - (dx + 1)) =
            Ff T (bAt ((problem T).trans s ⟨dx, dv⟩)) x (dx + 1) (T.n - (dx + 1)) := by
          apply Ff_congr_b T (by omega)
          intro l h1 h2
          exact (trans_bAt T hV.1.1 dx dv (by omega) h2).symm
        rw [hb]; omega
      · cases h
    · have hnv : (problem T).nextVar k [s] = none := by simp [problem, nextVar, hkn]
      rw [hnv] at h
      cases h


theorem bAt_init (l : Nat) : bAt (initSt T) l = 0 := by
  simp only [bAt, initSt, List.getD_eq_getElem?_getD, List.getElem?_replicate]
  split <;> rfl

/-- after the first decision (vertex 0 on side `S`): root value + value of a completion = the weight of its cut -/
theorem root_id {n : Nat} {adj : List (List Int)} (hG : GraphOk n adj) {c : Nat} (hn : n = c + 1) {x b : Nat → Int}
    (hx : Pm x) (hx0 : x 0 = 1) (hb : ∀ l, 1 ≤ l → l < n → b l = w (tabOfAdj n adj) 0 l) :
    (tabOfAdj n adj).vr + Ff (tabOfAdj n adj) b x 1 c = cutM (tabOfAdj n adj) x := by
  have h1 := Cf_zero hG x
  have h2 : Cf (tabOfAdj n adj) x 0 n = rsum 1 c (eT (tabOfAdj n adj) x 0) + Cf (tabOfAdj n adj) x 1 c := by
    unfold Cf
    rw [hn, rsum_succ]
    have : (tabOfAdj (c + 1) adj).n - (0 + 1) = c := by show c + 1 - (0 + 1) = c; omega
    rw [this]
  have h3 : rsum 1 c (fun l => max 0 (-(x l * b l))) = rsum 1 c (eT (tabOfAdj n adj) x 0) := by
    apply rsum_congr
    intro l hl1 hl2
    rw [hb l hl1 (by omega)]
    unfold eT
    rw [hx0]
    rcases hx l with h | h <;> rw [h] <;> simp <;> omega
  unfold Ff
  rw [h3]
  omega

/-- the sides of `decs` where it decides, `x0` elsewhere -/
def extend (decs : List Dec) (x0 : Nat → Int) : Nat → Int := fun i =>
  match decs[i]? with
  | some d => d.val
  | none => x0 i
theorem extend_some {decs : List Dec} {x0 : Nat → Int} {i : Nat} {d : Dec} (h : decs[i]? = some d) :
    extend decs x0 i = d.val := by simp [extend, h]
theorem extend_none {decs : List Dec} {x0 : Nat → Int} {i : Nat} (h : decs[i]? = none) :
    extend decs x0 i = x0 i := by simp [extend, h]

/-- the sides `x` extend the decisions `decs`, vertex 0 on side `S` (the symmetry breaking of the model) -/
def Ext (decs : List Dec) (x : Nat → Int) : Prop := x 0 = 1 ∧ ∀ i d, decs[i]? = some d → x i = d.val

/-- **the model half of `DpExactStmt`**: along any path of the model from the root, value + value-to-go is the largest
    weight (on the matrix the reader builds) of a cut whose sides extend the decisions of the path, vertex 0 on side `S`.
    What is missing for `DpExactStmt`: that maximum is `specBestExt` — the weight on the matrix is `Mcp.cutWeight` on the
    edge list (`inDomain`: every edge once), sides ↔ sub-lists of vertices, and the symmetry `S ↔ T` at the root. -/
theorem dpExact_partial {n : Nat} {adj : List (List Int)} (hG : GraphOk n adj) (decs : List Dec) (s : St) (v : Int) (k : Nat)
    (he : evalFrom (problem (tabOfAdj n adj)) 0 (problem (tabOfAdj n adj)).init (problem (tabOfAdj n adj)).initVal decs =
      some (s, v, k)) :
    ∃ h, bestRem (tabOfAdj n adj) s = some h ∧
      (∀ x, Pm x → Ext decs x → cutM (tabOfAdj n adj) x ≤ v + h) ∧
      ∃ x, Pm x ∧ Ext decs x ∧ cutM (tabOfAdj n adj) x = v + h := by
  have hd := graphOk_diag hG
  have hTn : (tabOfAdj n adj).n = n := rfl
  simp only [show (problem (tabOfAdj n adj)).init = initSt (tabOfAdj n adj) from rfl,
    show (problem (tabOfAdj n adj)).initVal = (tabOfAdj n adj).vr from rfl] at he
  cases decs with
  | nil =>
    simp only [evalFrom, Option.some.injEq, Prod.mk.injEq] at he
    obtain ⟨rfl, rfl, rfl⟩ := he
    have hS : StOk (tabOfAdj n adj) (initSt (tabOfAdj n adj)) := (V_init _).1
    refine ⟨_, bestRem_eq _ hS, ?_⟩
    show (∀ x, Pm x → Ext [] x → cutM (tabOfAdj n adj) x ≤ (tabOfAdj n adj).vr + Hf _ n 0 _) ∧
      ∃ x, Pm x ∧ Ext [] x ∧ cutM (tabOfAdj n adj) x = (tabOfAdj n adj).vr + Hf _ n 0 _
    cases n with
    | zero =>
      have hv : (tabOfAdj 0 adj).vr = 0 := by rw [show (tabOfAdj 0 adj).vr = colNeg adj 0 from sumNeg_eq hG]; rfl
      have hc : ∀ x, cutM (tabOfAdj 0 adj) x = 0 := fun x => rfl
      simp only [hc, hv, Hf]
      exact ⟨fun _ _ _ => by omega, fun _ => 1, fun _ => Or.inl rfl, ⟨rfl, fun i d h => by simp at h⟩, by omega⟩
    | succ c =>
      have hH : Hf (tabOfAdj (c + 1) adj) (c + 1) 0 (bAt (initSt (tabOfAdj (c + 1) adj))) =
          Hf (tabOfAdj (c + 1) adj) c 1 (stepF (tabOfAdj (c + 1) adj) (bAt (initSt (tabOfAdj (c + 1) adj))) 0 1) := by
        rw [Hf]
        have : ¬ 0 ≥ (tabOfAdj (c + 1) adj).n := by show ¬ 0 ≥ c + 1; omega
        simp only [this, if_false, if_true]
      rw [hH]
      have hb : ∀ l, 1 ≤ l → l < c + 1 → stepF (tabOfAdj (c + 1) adj) (bAt (initSt (tabOfAdj (c + 1) adj))) 0 1 l =
          w (tabOfAdj (c + 1) adj) 0 l := by
        intro l _ _; unfold stepF; rw [bAt_init]; omega
      refine ⟨?_, ?_⟩
      · intro x hx hext
        have := root_id hG rfl hx hext.1 hb
        have := Hf_ge _ hd hx c 1 (stepF (tabOfAdj (c + 1) adj) (bAt (initSt (tabOfAdj (c + 1) adj))) 0 1) (by show 1 + c = c + 1; omega) (by omega)
        omega
      · obtain ⟨x, hx, hH⟩ := Hf_att _ hd c 1 (stepF (tabOfAdj (c + 1) adj) (bAt (initSt (tabOfAdj (c + 1) adj))) 0 1)
          (by show 1 + c = c + 1; omega) (by omega)
        have hpm : Pm (fun l => if l = 0 then 1 else x l) := by
          intro l
          by_cases hl : l = 0
          · left; simp [hl]
          · simp only [hl, if_false]; exact hx l
        refine ⟨fun l => if l = 0 then 1 else x l, hpm, ⟨rfl, fun i d h => by simp at h⟩, ?_⟩
        rw [← root_id hG rfl hpm rfl hb, hH]
        congr 1
        apply Ff_congr_x _ (by show 1 + c = c + 1; omega)
        intro l hl
        have : l ≠ 0 := by omega
        simp [this]
  | cons d ds =>
    obtain ⟨dx, dv⟩ := d
    simp only [evalFrom] at he
    by_cases hn0 : 0 < n
    · have hnv : (problem (tabOfAdj n adj)).nextVar 0 [initSt (tabOfAdj n adj)] = some 0 := by
        simp [problem, nextVar, hTn, hn0]
      rw [hnv] at he
      simp only at he
      split at he
      · rename_i hc
        obtain ⟨hvar, hval⟩ := hc
        subst hvar
        have hdv : dv = 1 := by
          simp only [problem, domain, initSt, if_true] at hval
          simpa using hval
        subst hdv
        have hV0 : V (tabOfAdj n adj) 0 (initSt (tabOfAdj n adj)) := V_init (tabOfAdj n adj)
        have hV1 := V_trans _ hV0 (by rw [hTn]; exact hn0) 1
        obtain ⟨hV', hk', hpm, hinv⟩ := path_inv _ hd ds 1 _ _ s v k hV1 (by omega) he
        have hcost : (problem (tabOfAdj n adj)).cost (initSt (tabOfAdj n adj))
            ((problem (tabOfAdj n adj)).trans (initSt (tabOfAdj n adj)) ⟨0, 1⟩) ⟨0, 1⟩ = 0 := by
          show cost (tabOfAdj n adj) (initSt (tabOfAdj n adj)) ⟨0, 1⟩ = 0
          rw [cost_ok _ hV0.1.1 (by rw [hTn]; exact hn0) (Or.inl rfl)]; rfl
        rw [hcost] at hinv
        obtain ⟨c, hnc⟩ : ∃ c, n = c + 1 := ⟨n - 1, by omega⟩
        have hb : ∀ l, 1 ≤ l → l < n →
            bAt ((problem (tabOfAdj n adj)).trans (initSt (tabOfAdj n adj)) ⟨0, 1⟩) l = w (tabOfAdj n adj) 0 l := by
          intro l _ hl
          show bAt (trans (tabOfAdj n adj) (initSt (tabOfAdj n adj)) ⟨0, 1⟩) l = _
          rw [trans_bAt _ hV0.1.1 0 1 (by omega) (by rw [hTn]; exact hl)]
          unfold stepF; rw [bAt_init]; omega
        have hn1 : (tabOfAdj n adj).n - 1 = c := by rw [hTn]; omega
        have hroot : ∀ x, Pm x → x 0 = 1 → (∀ i d, ds[i]? = some d → x (1 + i) = d.val) →
            cutM (tabOfAdj n adj) x = v + Ff (tabOfAdj n adj) (bAt s) x k ((tabOfAdj n adj).n - k) := by
          intro x hx hx0 hext
          have h1 := hinv x hx hext
          rw [hn1] at h1
          have h2 := root_id hG hnc hx hx0 hb
          show cutM (tabOfAdj n adj) x = _
          omega
        have hk1 : k ≠ 0 := by omega
        have hkc : k + ((tabOfAdj n adj).n - k) = (tabOfAdj n adj).n := by have := hV'.1.2; have := hV'.2; omega
        refine ⟨_, bestRem_eq _ hV'.1, ?_⟩
        rw [hV'.2]
        refine ⟨?_, ?_⟩
        · intro x hx hext
          have h1 := hroot x hx hext.1 (fun i d hi => by
            have := hext.2 (i + 1) d (by simpa using hi)
            rw [← this]; congr 1; omega)
          have h2 := Hf_ge _ hd hx ((tabOfAdj n adj).n - k) k (bAt s) hkc hk1
          omega
        · obtain ⟨x0, hx0, hH⟩ := Hf_att _ hd ((tabOfAdj n adj).n - k) k (bAt s) hkc hk1
          have hx'pm : Pm (extend ((⟨0, 1⟩ : Dec) :: ds) x0) := by
            intro i
            cases hi : ((⟨0, 1⟩ : Dec) :: ds)[i]? with
            | none => rw [extend_none hi]; exact hx0 i
            | some d =>
              rw [extend_some hi]
              have hmem := List.mem_of_getElem? hi
              rcases List.mem_cons.mp hmem with rfl | hmem
              · exact Or.inl rfl
              · exact hpm d hmem
          have hx'ext : Ext ((⟨0, 1⟩ : Dec) :: ds) (extend ((⟨0, 1⟩ : Dec) :: ds) x0) :=
            ⟨extend_some (d := ⟨0, 1⟩) rfl, fun i d hi => extend_some hi⟩
          refine ⟨_, hx'pm, hx'ext, ?_⟩
          have h1 := hroot _ hx'pm hx'ext.1 (fun i d hi => by
            have := hx'ext.2 (i + 1) d (by simpa using hi)
            rw [← this]; congr 1; omega)
          rw [h1, hH]
          congr 1
          apply Ff_congr_x _ hkc
          intro l hl
          apply extend_none
          rw [List.getElem?_eq_none]; simp; omega
      · cases he
    · have hnv : (problem (tabOfAdj n adj)).nextVar 0 [initSt (tabOfAdj n adj)] = none := by
        simp [problem, nextVar, hTn, hn0]
      rw [hnv] at he
      cases he


/-- `DpExactStmt`'s decision lists are the lists `dpExact_partial` is about: the `i`-th decision is `⟨i, vals[i]⟩` -/
theorem decs_getElem? (vals : List Int) (i : Nat) :
    ((List.range vals.length).zipWith (fun (k : Nat) (x : Int) => (⟨k, x⟩ : Dec)) vals)[i]? = (vals[i]?).map fun x => ⟨i, x⟩ := by
  rw [List.getElem?_zipWith]
  by_cases h : i < vals.length
  · rw [List.getElem?_range h, List.getElem?_eq_getElem h]; rfl
  · rw [List.getElem?_eq_none (by simp; omega), List.getElem?_eq_none (by omega)]; rfl

section Axioms
#print axioms mergeOk
#print axioms rubAdmissible
#print axioms wfRel
#print axioms graphOk_of_inDomain
#print axioms noClampDom_false
#print axioms mcp_relaxed_ub_partial
#print axioms dpExact_partial
end Axioms

end Ddo.Examples.McpModel
