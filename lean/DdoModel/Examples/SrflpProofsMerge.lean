import DdoModel.Examples.SrflpProofsBase
/-! `MergeOk` of the srflp example: the merged state simulates every merged state (`Sim`: it offers every department the
    merged state offers, as optional, with cuts that are not greater), the value-to-go is monotone along the simulation
    (`bestRemF_sim`), hence the merged state is worth at least as much as every merged state (`mergeOk_partial`: the statement
    `MergeOkStmt` for at most 64 departments and states whose sets are increasing lists). -/
namespace Ddo.Examples.SrflpModel
open Ddo Ddo.Examples Ddo.Examples.Util Ddo.SpecUtil
variable (T : Tab)

/-! ### the sum of the least values -/

private theorem sortInts_map (B : List Nat) (f : Nat → Int) :
    sortInts (B.map f) = (B.mergeSort (fun a b => decide (f a ≤ f b))).map f := by
  unfold sortInts
  rw [List.map_mergeSort]
  intros; rfl

private theorem sorted_by (B : List Nat) (f : Nat → Int) :
    (B.mergeSort (fun a b => decide (f a ≤ f b))).Pairwise (fun a b => f a ≤ f b) := by
  have h := List.pairwise_mergeSort (le := fun a b => decide (f a ≤ f b))
    (by intro a b c h1 h2; simp only [decide_eq_true_eq] at *; omega)
    (by intro a b; simp only [Bool.or_eq_true, decide_eq_true_eq]; omega) B
  exact h.imp (fun h => by simpa using h)

private theorem sum_map_le (f g : Nat → Int) : ∀ A : List Nat, (∀ a ∈ A, f a ≤ g a) → (A.map f).sum ≤ (A.map g).sum := by
  intro A
  induction A with
  | nil => intro _; simp
  | cons a r ih =>
    intro h
    have h1 := h a List.mem_cons_self
    have h2 := ih (fun x hx => h x (List.mem_cons_of_mem _ hx))
    simp only [List.map_cons, List.sum_cons]
    omega

private theorem take_sum_le (f : Nat → Int) : ∀ (Bs A : List Nat), Bs.Pairwise (fun a b => f a ≤ f b) → A.Nodup → (∀ a ∈ A, a ∈ Bs) →
    ((Bs.take A.length).map f).sum ≤ (A.map f).sum := by
  intro Bs
  induction Bs with
  | nil =>
    intro A _ _ h
    cases A with
    | nil => simp
    | cons a A' => exact absurd (h a List.mem_cons_self) (by simp)
  | cons b Bs ih =>
    intro A hp hnd hsub
    obtain ⟨hb, hp'⟩ := List.pairwise_cons.mp hp
    cases A with
    | nil => simp
    | cons a A' =>
      by_cases hbA : b ∈ a :: A'
      · have hperm := List.perm_cons_erase hbA
        have hlen := List.length_erase_of_mem hbA
        have hs : (((a :: A').map f)).sum = f b + ((((a :: A').erase b).map f)).sum := by
          rw [perm_sum_eq (hperm.map f)]; simp
        have hih := ih ((a :: A').erase b) hp' (hnd.erase b) (by
          intro x hx
          obtain ⟨hxb, hxA⟩ := (hnd.mem_erase_iff).mp hx
          rcases List.mem_cons.mp (hsub x hxA) with e | e
          · exact absurd e hxb
          · exact e)
        rw [hs]
        rw [hlen] at hih
        simp only [List.length_cons, Nat.add_sub_cancel] at hih
        simp only [List.length_cons, List.take_succ_cons, List.map_cons, List.sum_cons]
        omega
      · have hsub' : ∀ x ∈ a :: A', x ∈ Bs := by
          intro x hx
          rcases List.mem_cons.mp (hsub x hx) with e | e
          · subst e; exact absurd hx hbA
          · exact e
        have hba := hb a (hsub' a List.mem_cons_self)
        have hih := ih A' hp' (List.nodup_cons.mp hnd).2 (fun x hx => hsub' x (List.mem_cons_of_mem _ hx))
        simp only [List.length_cons, List.take_succ_cons, List.map_cons, List.sum_cons]
        omega

/-- (P1') a lower bound of every choice -/
theorem leastSum_le_choice (A B : List Nat) (f g : Nat → Int) (hnd : A.Nodup) (hsub : ∀ a ∈ A, a ∈ B) (hfg : ∀ a ∈ A, f a ≤ g a) :
    leastSum A.length (B.map f) ≤ sum (A.map g) := by
  unfold leastSum
  rw [sum_eq, sum_eq, sortInts_map, ← List.map_take]
  have h1 := take_sum_le f (B.mergeSort (fun a b => decide (f a ≤ f b))) A (sorted_by B f) hnd
    (fun a ha => (List.mergeSort_perm B _).mem_iff.mpr (hsub a ha))
  have h2 := sum_map_le f g A hfg
  omega

/-- (P2') the sum of the least values is attained by a choice of indices -/
theorem leastSum_attained (Y : List Nat) (g : Nat → Int) (r : Nat) (hnd : Y.Nodup) (hr : r ≤ Y.length) :
    ∃ Y' : List Nat, Y'.Nodup ∧ (∀ a ∈ Y', a ∈ Y) ∧ Y'.length = r ∧ sum (Y'.map g) = leastSum r (Y.map g) := by
  have hperm := List.mergeSort_perm Y (fun a b => decide (g a ≤ g b))
  refine ⟨(Y.mergeSort (fun a b => decide (g a ≤ g b))).take r, ?_, ?_, ?_, ?_⟩
  · exact List.Nodup.sublist (List.take_sublist _ _) (hperm.nodup_iff.mpr hnd)
  · intro a ha
    exact hperm.mem_iff.mp (List.mem_of_mem_take ha)
  · rw [List.length_take, hperm.length_eq]; omega
  · unfold leastSum
    rw [sortInts_map, List.map_take]

/-! ### the simulation -/

/-- `m` offers everything `u` offers, as optional, with cuts at most those of `u` -/
structure Sim (u m : St) : Prop where
  gu : Good T u
  gm : Good T m
  depth : m.depth = u.depth
  must : m.must = []
  sub : ∀ i, i ∈ u.must ∨ i ∈ mbOf u → i ∈ mbOf m
  cut : ∀ i, i ∈ u.must ∨ i ∈ mbOf u → cutAt m i ≤ cutAt u i

theorem sim_domain {u m : St} (h : Sim T u m) {i : Nat} (hi : (i : Int) ∈ domain T u) : (i : Int) ∈ domain T m := by
  obtain ⟨hin, hd⟩ := domain_lt T h.gu hi
  obtain ⟨j, hj, hmem⟩ := (mem_domain T h.gu _).mp hi
  have : i = j := by omega
  subst this
  refine (mem_domain T h.gm _).mpr ⟨i, rfl, Or.inr ⟨?_, h.sub i ?_⟩⟩
  · rw [h.must, h.depth]; simp only [List.length_nil]; omega
  · rcases hmem with h1 | ⟨_, h1⟩
    · exact Or.inl h1
    · exact Or.inr h1

theorem sim_cost (hI : Inst T) {u m : St} (h : Sim T u m) {i : Nat} (hi : (i : Int) ∈ domain T u) (x y : Nat) :
    cost T u ⟨x, (i : Int)⟩ ≤ cost T m ⟨y, (i : Int)⟩ := by
  have him := sim_domain T h hi
  obtain ⟨hin, hd⟩ := domain_lt T h.gu hi
  rw [cost_nat T hI h.gu hi, cost_nat T hI h.gm him]
  have hgs := good_step T hI h.gu hi
  have hfill := hgs.fill
  have hml := hgs.must_le
  rw [mbOf_stepSt] at hfill
  simp only [stepSt_must, stepSt_depth] at hfill hml
  rw [h.must, h.depth]
  simp only [List.filter_nil, List.map_nil, List.length_nil, Nat.sub_zero]
  obtain ⟨Y', hY'nd, hY'sub, hY'len, hY'sum⟩ := leastSum_attained ((mbOf u).filter (· ≠ i)) (cutAt u)
    (T.n - (u.depth + 1) - (u.must.filter (· ≠ i)).length) ((pairwise_lt_nodup h.gu.maybe_sorted).filter _) (by omega)
  have key := leastSum_le_choice (u.must.filter (· ≠ i) ++ Y') ((mbOf m).filter (· ≠ i)) (cutAt m) (cutAt u)
    (by
      rw [List.nodup_append]
      refine ⟨(pairwise_lt_nodup h.gu.must_sorted).filter _, hY'nd, ?_⟩
      intro a ha b hb e
      subst e
      exact h.gu.disj a (List.mem_filter.mp ha).1 (List.mem_filter.mp (hY'sub a hb)).1)
    (by
      intro a ha
      rcases List.mem_append.mp ha with ha | ha
      · have := List.mem_filter.mp ha
        exact List.mem_filter.mpr ⟨h.sub a (Or.inl this.1), this.2⟩
      · have := List.mem_filter.mp (hY'sub a ha)
        exact List.mem_filter.mpr ⟨h.sub a (Or.inr this.1), this.2⟩)
    (by
      intro a ha
      rcases List.mem_append.mp ha with ha | ha
      · exact h.cut a (Or.inl (List.mem_filter.mp ha).1)
      · exact h.cut a (Or.inr (List.mem_filter.mp (hY'sub a ha)).1))
  rw [List.length_append, hY'len, List.map_append, sum_eq, List.sum_append, ← sum_eq, ← sum_eq, hY'sum] at key
  have e : (u.must.filter (· ≠ i)).length + (T.n - (u.depth + 1) - (u.must.filter (· ≠ i)).length) = T.n - (u.depth + 1) := by omega
  rw [e] at key
  have hpos := hI.len_pos i hin
  apply Int.mul_le_mul_of_nonneg_right _ (Int.le_of_lt hpos)
  simp only [sum_nil]
  omega

theorem sim_step (hI : Inst T) {u m : St} (h : Sim T u m) {i : Nat} (hi : (i : Int) ∈ domain T u) :
    Sim T (stepSt T u i) (stepSt T m i) := by
  have him := sim_domain T h hi
  have hgu := good_step T hI h.gu hi
  have hgm := good_step T hI h.gm him
  refine ⟨hgu, hgm, by simp [h.depth], by simp [h.must], ?_, ?_⟩
  · intro j hj
    rw [mbOf_stepSt] at hj ⊢
    simp only [stepSt_must, List.mem_filter] at hj ⊢
    rcases hj with hj | hj
    · exact ⟨h.sub j (Or.inl hj.1), hj.2⟩
    · exact ⟨h.sub j (Or.inr hj.1), hj.2⟩
  · intro j hj
    rw [mbOf_stepSt] at hj
    simp only [stepSt_must, List.mem_filter, decide_eq_true_eq] at hj
    have hj' : (j ∈ u.must ∨ j ∈ mbOf u) ∧ j ≠ i := by
      rcases hj with hj | hj
      · exact ⟨Or.inl hj.1, hj.2⟩
      · exact ⟨Or.inr hj.1, hj.2⟩
    rw [cutAt_step T h.gu, cutAt_step T h.gm, if_neg hj'.2, if_neg hj'.2, if_pos hj'.1, if_pos (Or.inr (h.sub j hj'.1))]
    have := h.cut j hj'.1
    omega

theorem bestRemF_sim (h64 : T.n ≤ 64) (hI : Inst T) : ∀ (fuel : Nat) (u m : St), Sim T u m → bestRemF T fuel u ≤ bestRemF T fuel m := by
  intro fuel
  induction fuel with
  | zero => intro u m _; exact EInt.le_refl _
  | succ fuel ih =>
    intro u m h
    by_cases hd : T.n ≤ u.depth
    · rw [bestRemF_terminal T _ u hd, bestRemF_terminal T _ m (by rw [h.depth]; exact hd)]
      exact EInt.le_refl _
    · rw [bestRemF_succ T fuel u (by omega), bestRemF_succ T fuel m (by rw [h.depth]; omega)]
      apply foldl_emax_le _ _ _ _ (EInt.none_le _)
      intro v hv
      obtain ⟨i, rfl, _⟩ := (mem_domain T h.gu v).mp hv
      obtain ⟨hin, _⟩ := domain_lt T h.gu hv
      have hvm := sim_domain T h hv
      refine EInt.le_trans ?_ ((foldl_emax_ge _ (domain T m) none).2 (i : Int) hvm)
      rw [trans_nat T u _ i (by rw [h.gu.cut_len]; exact hin) (by omega),
        trans_nat T m _ i (by rw [h.gm.cut_len]; exact hin) (by omega)]
      exact addI_mono (ih _ _ (sim_step T hI h hv)) (sim_cost T hI h hv _ _)

/-! ### the merge operator -/

theorem insSet_sorted (x : Nat) : ∀ l : List Nat, l.Pairwise (· < ·) → (insSet x l).Pairwise (· < ·) := by
  intro l
  induction l with
  | nil => intro _; simp [insSet]
  | cons a r ih =>
    intro h
    obtain ⟨h1, h2⟩ := List.pairwise_cons.mp h
    unfold insSet
    by_cases c1 : x < a
    · rw [if_pos c1]
      refine List.pairwise_cons.mpr ⟨?_, h⟩
      intro y hy
      rcases List.mem_cons.mp hy with e | e
      · omega
      · have := h1 y e; omega
    · rw [if_neg c1]
      by_cases c2 : x = a
      · rw [if_pos c2]; exact h
      · rw [if_neg c2]
        refine List.pairwise_cons.mpr ⟨?_, ih h2⟩
        intro y hy
        rcases (mem_insSet x y r).mp hy with e | e
        · omega
        · exact h1 y e

theorem unionSet_sorted : ∀ (b a : List Nat), a.Pairwise (· < ·) → (unionSet a b).Pairwise (· < ·) := by
  intro b
  induction b with
  | nil => intro a h; exact h
  | cons x r ih =>
    intro a h
    have := ih (insSet x a) (insSet_sorted x a h)
    unfold unionSet at this ⊢
    rw [List.foldl_cons]
    exact this

theorem foldl_union_sorted (X : List St) : ∀ u0 : List Nat, u0.Pairwise (· < ·) →
    (X.foldl (fun u s => unionSet (unionSet u s.must) (s.maybe.getD [])) u0).Pairwise (· < ·) := by
  induction X with
  | nil => intro u0 h; exact h
  | cons a r ih =>
    intro u0 h
    rw [List.foldl_cons]
    exact ih _ (unionSet_sorted _ _ (unionSet_sorted _ _ h))

theorem mbOf_merge (X : List St) :
    mbOf (mergeStates T X) = X.foldl (fun u s => unionSet (unionSet u s.must) (s.maybe.getD [])) [] := by
  have hm : (X.foldl (fun m s => interSet m s.must) []) = [] := foldl_inter_nil X
  have hd : ∀ l : List Nat, diffSet l [] = l := by
    intro l; unfold diffSet; simp
  unfold mbOf mergeStates
  simp only [hm, hd]
  split
  · rename_i he
    rw [List.isEmpty_iff] at he
    rw [he]; rfl
  · rfl

theorem mem_mbOf_merge (X : List St) (y : Nat) : y ∈ mbOf (mergeStates T X) ↔ ∃ s ∈ X, y ∈ s.must ∨ y ∈ mbOf s :=
  merge_maybe_mem T X y

theorem merge_sorted (X : List St) : (mbOf (mergeStates T X)).Pairwise (· < ·) := by
  rw [mbOf_merge]
  exact foldl_union_sorted X [] List.Pairwise.nil

private theorem foldl_max_le (d : Nat) (X : List St) : ∀ d0 : Nat, d0 ≤ d → (∀ w ∈ X, w.depth ≤ d) → X.foldl (fun d s => max d s.depth) d0 ≤ d := by
  induction X with
  | nil => intro d0 h _; exact h
  | cons a r ih =>
    intro d0 h hX
    rw [List.foldl_cons]
    have := hX a List.mem_cons_self
    exact ih _ (by omega) (fun w hw => hX w (List.mem_cons_of_mem _ hw))

theorem merge_depth_eq (X : List St) (u : St) (hu : u ∈ X) (hd : ∀ w ∈ X, w.depth = u.depth) : (mergeStates T X).depth = u.depth := by
  have h1 := merge_depth_ge T X u hu
  have h2 : (mergeStates T X).depth ≤ u.depth :=
    foldl_max_le u.depth X 0 (Nat.zero_le _) (fun w hw => Nat.le_of_eq (hd w hw))
  omega

/-- one `minCuts`: the length is kept, the entries only decrease, the entries of the members are at most those of the source,
    non-negative entries stay non-negative -/
theorem minCuts_spec (src : List Int) : ∀ (members : List Nat) (c : List Int),
    (minCuts src members c).length = c.length ∧
    (∀ j, (minCuts src members c).getD j 0 ≤ c.getD j 0) ∧
    (∀ j ∈ members, j < c.length → (minCuts src members c).getD j 0 ≤ src.getD j 0) ∧
    ((∀ i ∈ members, 0 ≤ src.getD i 0) → (∀ j, 0 ≤ c.getD j 0) → ∀ j, 0 ≤ (minCuts src members c).getD j 0) := by
  intro members
  induction members with
  | nil => intro c; exact ⟨rfl, fun _ => Int.le_refl _, fun j hj => (by cases hj), fun _ h => h⟩
  | cons i r ih =>
    intro c
    have e : minCuts src (i :: r) c = minCuts src r (c.set i (min (c.getD i 0) (src.getD i 0))) := by
      unfold minCuts; rw [List.foldl_cons]
    obtain ⟨h1, h2, h3, h4⟩ := ih (c.set i (min (c.getD i 0) (src.getD i 0)))
    have hset : ∀ j, (c.set i (min (c.getD i 0) (src.getD i 0))).getD j 0 =
        if i = j ∧ i < c.length then min (c.getD i 0) (src.getD i 0) else c.getD j 0 := by
      intro j
      simp only [List.getD_eq_getElem?_getD, List.getElem?_set]
      by_cases hij : i = j
      · subst hij
        by_cases hl : i < c.length
        · simp [hl]
        · simp [hl]
      · simp [hij]
    rw [e]
    refine ⟨by rw [h1, List.length_set], ?_, ?_, ?_⟩
    · intro j
      have := h2 j
      rw [hset j] at this
      split at this
      · rename_i hc; obtain ⟨rfl, _⟩ := hc; omega
      · exact this
    · intro j hj hjl
      rcases List.mem_cons.mp hj with hji | hjr
      · subst hji
        have := h2 j
        rw [hset j, if_pos ⟨rfl, hjl⟩] at this
        omega
      · exact h3 j hjr (by rw [List.length_set]; exact hjl)
    · intro hs hc
      apply h4 (fun k hk => hs k (List.mem_cons_of_mem _ hk))
      intro j
      rw [hset j]
      split
      · have := hs i List.mem_cons_self
        have := hc i
        omega
      · exact hc j

/-- the fold of `merge` over the cuts -/
theorem foldl_cuts_spec : ∀ (X : List St) (c : List Int),
    (X.foldl (fun c s => minCuts s.cut (s.maybe.getD []) (minCuts s.cut s.must c)) c).length = c.length ∧
    (∀ j, (X.foldl (fun c s => minCuts s.cut (s.maybe.getD []) (minCuts s.cut s.must c)) c).getD j 0 ≤ c.getD j 0) ∧
    (∀ w ∈ X, ∀ j, j ∈ w.must ∨ j ∈ mbOf w → j < c.length →
      (X.foldl (fun c s => minCuts s.cut (s.maybe.getD []) (minCuts s.cut s.must c)) c).getD j 0 ≤ cutAt w j) ∧
    ((∀ w ∈ X, ∀ i, i ∈ w.must ∨ i ∈ mbOf w → 0 ≤ cutAt w i) → (∀ j, 0 ≤ c.getD j 0) →
      ∀ j, 0 ≤ (X.foldl (fun c s => minCuts s.cut (s.maybe.getD []) (minCuts s.cut s.must c)) c).getD j 0) := by
  intro X
  induction X with
  | nil => intro c; exact ⟨rfl, fun _ => Int.le_refl _, fun w hw => (by cases hw), fun _ h => h⟩
  | cons a r ih =>
    intro c
    rw [List.foldl_cons]
    obtain ⟨a1, a2, a3, a4⟩ := minCuts_spec a.cut a.must c
    obtain ⟨b1, b2, b3, b4⟩ := minCuts_spec a.cut (a.maybe.getD []) (minCuts a.cut a.must c)
    obtain ⟨h1, h2, h3, h4⟩ := ih (minCuts a.cut (a.maybe.getD []) (minCuts a.cut a.must c))
    refine ⟨by rw [h1, b1, a1], ?_, ?_, ?_⟩
    · intro j
      have := h2 j; have := b2 j; have := a2 j
      omega
    · intro w hw j hj hjl
      rcases List.mem_cons.mp hw with e | hw
      · subst e
        have := h2 j
        unfold cutAt
        rcases hj with hj | hj
        · have := a3 j hj hjl
          have := b2 j
          omega
        · have := b3 j hj (by rw [a1]; exact hjl)
          omega
      · exact h3 w hw j hj (by rw [b1, a1]; exact hjl)
    · intro hs hc
      apply h4 (fun w hw => hs w (List.mem_cons_of_mem _ hw))
      apply b4 (fun i hi => hs a List.mem_cons_self i (Or.inr hi))
      exact a4 (fun i hi => hs a List.mem_cons_self i (Or.inl hi)) hc

theorem merge_cut (X : List St) :
    (mergeStates T X).cut = X.foldl (fun c s => minCuts s.cut (s.maybe.getD []) (minCuts s.cut s.must c)) (List.replicate T.n isizeMax) := rfl

private theorem nodup_subset_length : ∀ (A B : List Nat), A.Nodup → (∀ a ∈ A, a ∈ B) → A.length ≤ B.length := by
  intro A
  induction A with
  | nil => intro B _ _; simp
  | cons a A' ih =>
    intro B hnd hsub
    obtain ⟨ha, hnd'⟩ := List.nodup_cons.mp hnd
    have haB := hsub a List.mem_cons_self
    have := ih (B.erase a) hnd' (by
      intro x hx
      have hxa : x ≠ a := fun e => ha (e ▸ hx)
      exact (List.mem_erase_of_ne hxa).mpr (hsub x (List.mem_cons_of_mem _ hx)))
    rw [List.length_erase_of_mem haB] at this
    have := List.length_pos_of_mem haB
    simp only [List.length_cons]
    omega

theorem good_merge_of_mem (X : List St) (u : St) (hu : u ∈ X) (hG : ∀ w ∈ X, Good T w) (hd : ∀ w ∈ X, w.depth = u.depth) :
    Good T (mergeStates T X) := by
  have hdep := merge_depth_eq T X u hu hd
  have hmust := merge_must_nil T X
  obtain ⟨c1, _, _, c4⟩ := foldl_cuts_spec X (List.replicate T.n isizeMax)
  have hsorted := merge_sorted T X
  have hGu := hG u hu
  refine ⟨(by rw [hdep]; exact hGu.depth_le), (by rw [merge_cut, c1, List.length_replicate]), (by rw [hmust]; exact List.Pairwise.nil),
    hsorted, ?_, ?_, (by rw [hmust]; intro i hi; cases hi), (by rw [hmust]; simp), ?_⟩
  · intro i hi
    rw [hmust] at hi
    rcases hi with hi | hi
    · cases hi
    · obtain ⟨w, hw, hiw⟩ := (mem_mbOf_merge T X i).mp hi
      exact (hG w hw).lt i hiw
  · intro i _
    unfold cutAt
    rw [merge_cut]
    apply c4 (fun w hw i hi => (hG w hw).cut_nonneg i hi)
    intro j
    simp only [List.getD_eq_getElem?_getD, List.getElem?_replicate]
    split <;> simp [isizeMax]
  · rw [hmust, hdep]
    have h1 := hGu.fill
    have h2 := nodup_subset_length (u.must ++ mbOf u) (mbOf (mergeStates T X)) (by
        rw [List.nodup_append]
        refine ⟨pairwise_lt_nodup hGu.must_sorted, pairwise_lt_nodup hGu.maybe_sorted, ?_⟩
        intro a ha b hb e
        subst e
        exact hGu.disj a ha hb)
      (by
        intro a ha
        exact (mem_mbOf_merge T X a).mpr ⟨u, hu, List.mem_append.mp ha⟩)
    rw [List.length_append] at h2
    simp only [List.length_nil]
    omega

theorem good_merge (X : List St) (hne : X ≠ []) (d : Nat) (hG : ∀ w ∈ X, Good T w) (hd : ∀ w ∈ X, w.depth = d) :
    Good T (mergeStates T X) := by
  cases X with
  | nil => exact absurd rfl hne
  | cons u r =>
    exact good_merge_of_mem T (u :: r) u List.mem_cons_self hG
      (fun w hw => by rw [hd w hw, hd u List.mem_cons_self])

theorem sim_merge (X : List St) (u : St) (hu : u ∈ X) (hG : ∀ w ∈ X, Good T w) (hd : ∀ w ∈ X, w.depth = u.depth) :
    Sim T u (mergeStates T X) := by
  have hGm := good_merge_of_mem T X u hu hG hd
  obtain ⟨_, _, c3, _⟩ := foldl_cuts_spec X (List.replicate T.n isizeMax)
  refine ⟨hG u hu, hGm, merge_depth_eq T X u hu hd, merge_must_nil T X, ?_, ?_⟩
  · intro i hi
    exact (mem_mbOf_merge T X i).mpr ⟨u, hu, hi⟩
  · intro i hi
    have := c3 u hu i hi (by rw [List.length_replicate]; exact (hG u hu).lt i hi)
    rw [← merge_cut] at this
    exact this

/-! ### `MergeOk` -/

/-- the merged state is worth at least as much as every merged state (good states of one depth) -/
theorem bestRem_merge_ge (h64 : T.n ≤ 64) (hI : Inst T) (X : List St) (u : St) (hu : u ∈ X) (hG : ∀ w ∈ X, Good T w)
    (hd : ∀ w ∈ X, w.depth = u.depth) : bestRem T u ≤ bestRem T (mergeStates T X) := by
  have hs := sim_merge T X u hu hG hd
  unfold bestRem
  rw [hs.depth]
  exact bestRemF_sim T h64 hI _ _ _ hs

/-- a state whose two sets are increasing lists (what `Set64` iteration yields) -/
def SetSt (s : St) : Prop := s.must.Pairwise (· < ·) ∧ (mbOf s).Pairwise (· < ·)

/-- `MergeOkStmt` for at most 64 departments (`Set64`) and states whose sets are increasing lists -/
theorem mergeOk_partial (h64 : T.n ≤ 64) (hT : InstOk T) (X : List St) (u : St) (h : Int) (hu : u ∈ X)
    (hX : ∀ w ∈ X, (StOk T w ∨ w.depth = T.n) ∧ w.depth = u.depth) (hS : ∀ w ∈ X, SetSt w)
    (hb : bestRem T u = some h) : ∃ h', bestRem T (mergeStates T X) = some h' ∧ h ≤ h' := by
  by_cases hd : T.n ≤ u.depth
  · rw [bestRem_terminal T u hd] at hb
    have hm := merge_depth_ge T X u hu
    refine ⟨0, bestRem_terminal T _ (by omega), ?_⟩
    have := Option.some.inj hb
    omega
  · have hG : ∀ w ∈ X, Good T w := by
      intro w hw
      obtain ⟨h1, h2⟩ := hX w hw
      rcases h1 with h1 | h1
      · exact good_of_stOk T h1 (hS w hw).1 (hS w hw).2
      · omega
    have hle := bestRem_merge_ge T h64 (inst_of_instOk T hT) X u hu hG (fun w hw => (hX w hw).2)
    rw [hb] at hle
    cases hm : bestRem T (mergeStates T X) with
    | none => rw [hm] at hle; exact absurd hle (by simp)
    | some h' => rw [hm] at hle; exact ⟨h', rfl, by simpa using hle⟩

#print axioms bestRemF_sim
#print axioms good_merge
#print axioms sim_merge
#print axioms bestRem_merge_ge
#print axioms mergeOk_partial

end Ddo.Examples.SrflpModel
