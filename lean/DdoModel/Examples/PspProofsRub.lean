import DdoModel.Examples.PspProofsMerge
/-! `RubAdmissible` for the psp example.  The table `ub_utils::all_mst` is NOT a table of spanning trees; what the code
    computes for a member set (`mstOf`: over the members `a` in increasing order that are not covered yet, the cheapest
    edge at `a`, in either direction, is added; `a` and its other end become covered) is nevertheless a lower bound of the
    changeover cost of every sequence of productions that visits all the members (`mstOf_le_walk`): the edges added belong
    to distinct members, none of them to the partner of the first member; root the walk at that partner and charge every
    other member the edge by which the walk first enters it (after the root) or last leaves it (before the root).  Every
    completion of a state a compilation can build produces every item with a pending unit, after `next`
    (`bestRem_walk`); hence `rubAdmissible : RubAdmissibleStmt`. -/
namespace Ddo.Examples.PspModel
open Ddo Ddo.Examples Ddo.Examples.Util

-- ------------------------------------------------------------------------------------------------------------------
-- sums over the members of a set of naturals `< N`

def psum (N : Nat) (g : Nat → Int) (P : Nat → Bool) : Int := sumTo N (fun i => if P i then g i else 0)

theorem sumTo_zero (N : Nat) : sumTo N (fun _ => 0) = 0 := by
  induction N with
  | zero => rfl
  | succ N ih => simp [sumTo, ih]

theorem sumTo_add (N : Nat) (f g : Nat → Int) : sumTo N (fun i => f i + g i) = sumTo N f + sumTo N g := by
  induction N with
  | zero => rfl
  | succ N ih => simp only [sumTo, ih]; omega

theorem psum_empty (N : Nat) (g : Nat → Int) {P : Nat → Bool} (h : ∀ i, i < N → P i = false) : psum N g P = 0 := by
  unfold psum
  rw [sumTo_congr (g := fun _ => 0) (fun i hi => by simp [h i hi]), sumTo_zero]

theorem psum_congr (N : Nat) (g : Nat → Int) {P Q : Nat → Bool} (h : ∀ i, i < N → P i = Q i) : psum N g P = psum N g Q := by
  unfold psum
  exact sumTo_congr (fun i hi => by rw [h i hi])

/-- taking one member out -/
theorem psum_remove (N : Nat) (g : Nat → Int) (P : Nat → Bool) {z : Nat} (hz : z < N) (hP : P z = true) :
    psum N g P = psum N g (fun i => P i && decide (i ≠ z)) + g z := by
  unfold psum
  rw [sumTo_update (c := z) (g := fun i => if (P i && decide (i ≠ z)) = true then g i else 0) hz]
  · simp [hP]
  · intro i _ hne
    simp [hne]

theorem psum_split (N : Nat) (g : Nat → Int) (P Q : Nat → Bool) :
    psum N g P = psum N g (fun i => P i && Q i) + psum N g (fun i => P i && !Q i) := by
  unfold psum
  rw [← sumTo_add]
  apply sumTo_congr
  intro i _
  cases hp : P i <;> cases hq : Q i <;> simp [hp, hq]

-- ------------------------------------------------------------------------------------------------------------------
-- the cost of a walk dominates the cheapest edges at distinct vertices other than a root

/-- the cost of a walk -/
def wc (c : Nat → Nat → Int) : List Nat → Int
  | a :: b :: r => c a b + wc c (b :: r)
  | _ => 0

theorem wc_nonneg {c : Nat → Nat → Int} (hc : ∀ x y, 0 ≤ c x y) : ∀ W : List Nat, 0 ≤ wc c W := by
  intro W
  induction W with
  | nil => simp [wc]
  | cons a r ih =>
    cases r with
    | nil => simp [wc]
    | cons b r => simp only [wc]; have := hc a b; omega

theorem wc_split (c : Nat → Nat → Int) (r : Nat) (W2 : List Nat) : ∀ W1 : List Nat,
    wc c (W1 ++ r :: W2) = wc c (W1 ++ [r]) + wc c (r :: W2) := by
  intro W1
  induction W1 with
  | nil => simp [wc]
  | cons a t ih =>
    cases t with
    | nil => simp [wc]
    | cons b t =>
      simp only [List.cons_append, wc] at ih ⊢
      omega

section
variable {c : Nat → Nat → Int} {g : Nat → Int} {inM : Nat → Prop} {N : Nat}
  (hc : ∀ x y, 0 ≤ c x y) (hg : ∀ x y, inM x → inM y → x ≠ y → g x ≤ c x y ∧ g y ≤ c x y)
include hc hg

/-- after the root: every vertex pays the edge by which the walk first enters it -/
theorem walk_fwd : ∀ (W : List Nat) (y : Nat) (P : Nat → Bool), (∀ w ∈ y :: W, inM w) →
    (∀ i, P i = true → i ∈ W ∧ i ≠ y ∧ i < N) → psum N g P ≤ wc c (y :: W) := by
  intro W
  induction W with
  | nil =>
    intro y P _ hP
    rw [psum_empty N g (fun i _ => by cases h : P i with | false => rfl | true => exact absurd (hP i h).1 (by simp))]
    simp [wc]
  | cons z W ih =>
    intro y P hM hP
    have hIH := ih z (fun i => P i && decide (i ≠ z)) (fun w hw => hM w (List.mem_cons_of_mem _ hw)) (by
      intro i hi
      simp only [Bool.and_eq_true, decide_eq_true_eq] at hi
      obtain ⟨h1, h2, h3⟩ := hP i hi.1
      refine ⟨?_, hi.2, h3⟩
      rcases List.mem_cons.mp h1 with h | h
      · exact absurd h hi.2
      · exact h)
    simp only [wc]
    cases hz : P z with
    | true =>
      obtain ⟨_, h2, h3⟩ := hP z hz
      rw [psum_remove N g P h3 hz]
      have := (hg y z (hM y List.mem_cons_self) (hM z (List.mem_cons_of_mem _ List.mem_cons_self)) (fun h => h2 h.symm)).2
      omega
    | false =>
      rw [psum_congr N g (Q := fun i => P i && decide (i ≠ z)) (fun i _ => by
        by_cases h : i = z
        · subst h; simp [hz]
        · simp [h])]
      have := hc y z
      omega

/-- before the root: every vertex pays the edge by which the walk last leaves it -/
theorem walk_bwd (r : Nat) : ∀ (W : List Nat) (P : Nat → Bool), (∀ w ∈ W ++ [r], inM w) →
    (∀ i, P i = true → i ∈ W ∧ i ≠ r ∧ i < N) → psum N g P ≤ wc c (W ++ [r]) := by
  intro W
  induction W with
  | nil =>
    intro P _ hP
    rw [psum_empty N g (fun i _ => by cases h : P i with | false => rfl | true => exact absurd (hP i h).1 (by simp))]
    simp [wc]
  | cons z W ih =>
    intro P hM hP
    have hM' : ∀ w ∈ W ++ [r], inM w := fun w hw => hM w (List.mem_cons_of_mem _ hw)
    obtain ⟨hd, tl, htl⟩ : ∃ hd tl, W ++ [r] = hd :: tl := by
      cases W with
      | nil => exact ⟨r, [], rfl⟩
      | cons a t => exact ⟨a, t ++ [r], rfl⟩
    have hhd : hd ∈ W ∨ hd = r := by
      have : hd ∈ W ++ [r] := by rw [htl]; exact List.mem_cons_self
      simpa using this
    show psum N g P ≤ wc c (z :: (W ++ [r]))
    rw [htl]
    simp only [wc]
    rw [← htl]
    by_cases hz : P z = true ∧ z ∉ W
    · obtain ⟨_, h2, h3⟩ := hP z hz.1
      have hIH := ih (fun i => P i && decide (i ≠ z)) hM' (by
        intro i hi
        simp only [Bool.and_eq_true, decide_eq_true_eq] at hi
        obtain ⟨h1, h2, h3⟩ := hP i hi.1
        refine ⟨?_, h2, h3⟩
        rcases List.mem_cons.mp h1 with h | h
        · exact absurd h hi.2
        · exact h)
      rw [psum_remove N g P h3 hz.1]
      have hne : z ≠ hd := by
        rcases hhd with h | h
        · intro e; rw [e] at hz; exact hz.2 h
        · rw [h]; exact h2
      have := (hg z hd (hM z (by simp)) (hM' hd (by rw [htl]; exact List.mem_cons_self)) hne).1
      omega
    · have hIH := ih P hM' (by
        intro i hi
        obtain ⟨h1, h2, h3⟩ := hP i hi
        refine ⟨?_, h2, h3⟩
        rcases List.mem_cons.mp h1 with h | h
        · subst h
          by_cases hw : i ∈ W
          · exact hw
          · exact absurd ⟨hi, hw⟩ hz
        · exact h)
      have := hc z hd
      omega

/-- **the walk bound**: distinct vertices of the walk, none of them the root `r` of the walk, pay distinct edges -/
theorem walk_lb (W : List Nat) (r : Nat) (P : Nat → Bool) (hM : ∀ w ∈ W, inM w) (hr : r ∈ W)
    (hP : ∀ i, P i = true → i ∈ W ∧ i ≠ r ∧ i < N) : psum N g P ≤ wc c W := by
  obtain ⟨W1, W2, rfl⟩ := List.append_of_mem hr
  rw [wc_split, psum_split N g P (fun i => W2.contains i)]
  have h2 := walk_fwd hc hg (N := N) W2 r (fun i => P i && W2.contains i)
    (fun w hw => hM w (List.mem_append_right _ hw)) (by
      intro i hi
      simp only [Bool.and_eq_true, List.contains_iff_mem] at hi
      exact ⟨hi.2, (hP i hi.1).2⟩)
  have h1 := walk_bwd hc hg (N := N) r W1 (fun i => P i && !W2.contains i)
    (fun w hw => hM w (by
      rcases List.mem_append.mp hw with h | h
      · exact List.mem_append_left _ h
      · exact List.mem_append_right _ (by simp at h; simp [h]))) (by
      intro i hi
      simp only [Bool.and_eq_true, Bool.not_eq_true', List.contains_eq_mem, decide_eq_false_iff_not] at hi
      obtain ⟨h1, h2, h3⟩ := hP i hi.1
      refine ⟨?_, h2, h3⟩
      simp only [List.mem_append, List.mem_cons] at h1
      rcases h1 with h | h | h
      · exact h
      · exact absurd h h2
      · exact absurd h hi.2)
  omega

end

-- ------------------------------------------------------------------------------------------------------------------
-- what `ub_utils::mst` computes

def qOf (q : List (List Int)) (a b : Nat) : Int := (q.getD a []).getD b 0
/-- the cheaper direction of the edge -/
def edOf (q : List (List Int)) (a b : Nat) : Int := min (qOf q a b) (qOf q b a)

/-- the inner loop of `mst`: the cheapest edge at `a` so far and its other end -/
def innerStep (q : List (List Int)) (a : Nat) (e : Option Int × Nat) (b : Nat) : Option Int × Nat :=
  if a = b then e else
  match e.1 with
  | none => (some (edOf q a b), b)
  | some m => if edOf q a b < m then (some (edOf q a b), b) else e
def inner (q : List (List Int)) (mem : List Nat) (a : Nat) : Option Int × Nat := mem.foldl (innerStep q a) (none, a)
/-- the outer loop: members not covered yet add their cheapest edge and cover both ends -/
def outerStep (q : List (List Int)) (mem : List Nat) (acc : List Nat × Int) (a : Nat) : List Nat × Int :=
  if acc.1.contains a then acc else (a :: (inner q mem a).2 :: acc.1, acc.2 + (inner q mem a).1.getD 0)

theorem mstOf_eq (q : List (List Int)) (mem : List Nat) :
    mstOf q mem = if mem.length ≤ 1 then 0 else (mem.foldl (outerStep q mem) ([], 0)).2 := rfl

/-- the edge charged to `a` -/
def gOf (q : List (List Int)) (mem : List Nat) (a : Nat) : Int := (inner q mem a).1.getD 0

theorem innerStep_fst (q : List (List Int)) (a : Nat) (e : Option Int × Nat) (b : Nat) :
    (∀ m0, e.1 = some m0 → ∃ m, (innerStep q a e b).1 = some m ∧ m ≤ m0) ∧
    (b ≠ a → ∃ m, (innerStep q a e b).1 = some m ∧ m ≤ edOf q a b) := by
  unfold innerStep
  by_cases hab : a = b
  · simp only [hab, if_true]
    exact ⟨fun m0 h => ⟨m0, h, Int.le_refl _⟩, fun h => absurd rfl h⟩
  · simp only [hab, if_false]
    cases he : e.1 with
    | none => exact ⟨fun m0 h => (by cases h), fun _ => ⟨_, rfl, Int.le_refl _⟩⟩
    | some m1 =>
      simp only
      by_cases hlt : edOf q a b < m1
      · simp only [hlt, if_true]
        exact ⟨fun m0 h => ⟨_, rfl, by cases h; omega⟩, fun _ => ⟨_, rfl, Int.le_refl _⟩⟩
      · simp only [hlt, if_false]
        exact ⟨fun m0 h => ⟨m1, he, by cases h; omega⟩, fun _ => ⟨m1, he, by omega⟩⟩

theorem inner_fst (q : List (List Int)) (a : Nat) : ∀ (l : List Nat) (e : Option Int × Nat),
    (∀ m0, e.1 = some m0 → ∃ m, (l.foldl (innerStep q a) e).1 = some m ∧ m ≤ m0) ∧
    (∀ b ∈ l, b ≠ a → ∃ m, (l.foldl (innerStep q a) e).1 = some m ∧ m ≤ edOf q a b) := by
  intro l
  induction l with
  | nil => intro e; exact ⟨fun m0 h => ⟨m0, h, Int.le_refl _⟩, fun b hb => by cases hb⟩
  | cons x t ih =>
    intro e
    simp only [List.foldl_cons]
    obtain ⟨s1, s2⟩ := innerStep_fst q a e x
    obtain ⟨i1, i2⟩ := ih (innerStep q a e x)
    refine ⟨?_, ?_⟩
    · intro m0 h
      obtain ⟨m, hm, hle⟩ := s1 m0 h
      obtain ⟨m', hm', hle'⟩ := i1 m hm
      exact ⟨m', hm', by omega⟩
    · intro b hb hne
      rcases List.mem_cons.mp hb with rfl | hb
      · obtain ⟨m, hm, hle⟩ := s2 hne
        obtain ⟨m', hm', hle'⟩ := i1 m hm
        exact ⟨m', hm', by omega⟩
      · exact i2 b hb hne

/-- the edge charged to `a` is at most every edge at `a`, in either direction -/
theorem gOf_le (q : List (List Int)) (mem : List Nat) {a b : Nat} (hb : b ∈ mem) (hne : b ≠ a) : gOf q mem a ≤ edOf q a b := by
  obtain ⟨m, hm, hle⟩ := (inner_fst q a mem (none, a)).2 b hb hne
  unfold gOf inner
  rw [hm]; exact hle

/-- once an edge is known its other end is a member other than `a` -/
theorem inner_snd {l' : List Nat} (q : List (List Int)) (a : Nat) : ∀ (l : List Nat) (e : Option Int × Nat),
    (e.1 ≠ none → e.2 ∈ l' ∧ e.2 ≠ a) → (∀ b ∈ l, b ∈ l') →
    ((l.foldl (innerStep q a) e).1 ≠ none → (l.foldl (innerStep q a) e).2 ∈ l' ∧ (l.foldl (innerStep q a) e).2 ≠ a) := by
  intro l
  induction l with
  | nil => intro e he _; exact he
  | cons x t ih =>
    intro e he hsub
    simp only [List.foldl_cons]
    apply ih _ _ (fun b hb => hsub b (List.mem_cons_of_mem _ hb))
    unfold innerStep
    by_cases hab : a = x
    · simp only [hab, if_true]; rw [← hab]; exact he
    · simp only [hab, if_false]
      have hx : x ∈ l' ∧ x ≠ a := ⟨hsub x List.mem_cons_self, fun h => hab h.symm⟩
      cases h1 : e.1 with
      | none => intro _; exact hx
      | some m1 =>
        simp only
        by_cases hlt : edOf q a x < m1
        · simp only [hlt, if_true]; intro _; exact hx
        · simp only [hlt, if_false]; intro _; exact he (by rw [h1]; simp)

theorem inner_partner (q : List (List Int)) (mem : List Nat) {a b : Nat} (hb : b ∈ mem) (hne : b ≠ a) :
    (inner q mem a).2 ∈ mem ∧ (inner q mem a).2 ≠ a := by
  obtain ⟨m, hm, _⟩ := (inner_fst q a mem (none, a)).2 b hb hne
  exact inner_snd (l' := mem) q a mem (none, a) (fun h => absurd rfl h) (fun b hb => hb) (by
    show (inner q mem a).1 ≠ none
    unfold inner; rw [hm]; simp)

/-- the outer loop adds the edges charged to distinct members of the rest of the list, none of them covered before -/
theorem outer_spec (q : List (List Int)) (mem : List Nat) (N : Nat) : ∀ (l : List Nat) (cov : List Nat) (tot : Int),
    (∀ a ∈ l, a < N) →
    ∃ P : Nat → Bool, (l.foldl (outerStep q mem) (cov, tot)).2 = tot + psum N (gOf q mem) P ∧
      ∀ i, P i = true → i ∈ l ∧ i ∉ cov := by
  intro l
  induction l with
  | nil =>
    intro cov tot _
    refine ⟨fun _ => false, ?_, fun i h => by cases h⟩
    rw [psum_empty N _ (fun _ _ => rfl)]
    simp
  | cons a t ih =>
    intro cov tot hN
    simp only [List.foldl_cons]
    have hstep : outerStep q mem (cov, tot) a = if cov.contains a = true then (cov, tot) else
      (a :: (inner q mem a).2 :: cov, tot + (inner q mem a).1.getD 0) := rfl
    rw [hstep]
    by_cases hc : cov.contains a = true
    · simp only [hc, if_true]
      obtain ⟨P, h1, h2⟩ := ih cov tot (fun b hb => hN b (List.mem_cons_of_mem _ hb))
      exact ⟨P, h1, fun i hi => ⟨List.mem_cons_of_mem _ (h2 i hi).1, (h2 i hi).2⟩⟩
    · rw [if_neg hc]
      obtain ⟨P, h1, h2⟩ := ih (a :: (inner q mem a).2 :: cov) (tot + (inner q mem a).1.getD 0)
        (fun b hb => hN b (List.mem_cons_of_mem _ hb))
      refine ⟨fun i => P i || decide (i = a), ?_, ?_⟩
      · rw [h1]
        have hPa : P a = false := by
          cases h : P a with
          | false => rfl
          | true => exact absurd List.mem_cons_self (h2 a h).2
        rw [psum_remove N (gOf q mem) (fun i => P i || decide (i = a)) (hN a List.mem_cons_self) (by simp)]
        rw [psum_congr N (gOf q mem) (P := fun i => (P i || decide (i = a)) && decide (i ≠ a)) (Q := P) (fun i _ => by
          by_cases h : i = a
          · subst h; simp [hPa]
          · simp [h])]
        show _ = _ + (_ + (inner q mem a).1.getD 0)
        omega
      · intro i hi
        simp only [Bool.or_eq_true, decide_eq_true_eq] at hi
        rcases hi with hi | rfl
        · have := h2 i hi
          exact ⟨List.mem_cons_of_mem _ this.1, fun h => this.2 (List.mem_cons_of_mem _ (List.mem_cons_of_mem _ h))⟩
        · exact ⟨List.mem_cons_self, fun h => hc (List.contains_iff_mem.mpr h)⟩

/-- **what the code computes is a lower bound**: the `mst` entry of a member set is at most the changeover cost of every
    sequence of productions (`W`, latest first: `q[b][a]` is paid when `b` is produced before `a`) of members that visits
    all the members -/
theorem mstOf_le_walk (q : List (List Int)) (hq : ∀ a b, 0 ≤ qOf q a b) (mem : List Nat) (hnd : mem.Nodup) (W : List Nat)
    (hsub : ∀ w ∈ W, w ∈ mem) (hcov : ∀ a ∈ mem, a ∈ W) : mstOf q mem ≤ wc (fun a b => qOf q b a) W := by
  have hc : ∀ x y, 0 ≤ (fun a b => qOf q b a) x y := fun x y => hq y x
  rw [mstOf_eq]
  split
  · exact wc_nonneg hc W
  · next hlen =>
    cases mem with
    | nil => simp at hlen
    | cons a0 t =>
      cases t with
      | nil => simp at hlen
      | cons a1 t =>
        have hne : a1 ≠ a0 := by
          intro h
          rw [h] at hnd
          exact (List.nodup_cons.mp hnd).1 List.mem_cons_self
        obtain ⟨hb0, hb0ne⟩ := inner_partner q (a0 :: a1 :: t) (a := a0) (b := a1) (by simp) hne
        -- a bound on the members
        obtain ⟨N, hN⟩ : ∃ N, ∀ a ∈ a0 :: a1 :: t, a < N := by
          refine ⟨(a0 :: a1 :: t).foldl (fun m a => max m (a + 1)) 0, ?_⟩
          have : ∀ (l : List Nat) (m0 : Nat), m0 ≤ l.foldl (fun m a => max m (a + 1)) m0 ∧
              ∀ a ∈ l, a < l.foldl (fun m a => max m (a + 1)) m0 := by
            intro l
            induction l with
            | nil => intro m0; exact ⟨Nat.le_refl _, fun a h => by cases h⟩
            | cons x r ih =>
              intro m0
              simp only [List.foldl_cons]
              obtain ⟨h1, h2⟩ := ih (max m0 (x + 1))
              refine ⟨by omega, ?_⟩
              intro a ha
              rcases List.mem_cons.mp ha with rfl | ha
              · omega
              · exact h2 a ha
          exact (this _ 0).2
        rw [List.foldl_cons]
        have hstep : outerStep q (a0 :: a1 :: t) ([], 0) a0 =
            ([a0, (inner q (a0 :: a1 :: t) a0).2], 0 + gOf q (a0 :: a1 :: t) a0) := rfl
        rw [hstep]
        obtain ⟨P, h1, h2⟩ := outer_spec q (a0 :: a1 :: t) N (a1 :: t) [a0, (inner q (a0 :: a1 :: t) a0).2]
          (0 + gOf q (a0 :: a1 :: t) a0) (fun a ha => hN a (List.mem_cons_of_mem _ ha))
        rw [h1]
        have hPa : P a0 = false := by
          cases h : P a0 with
          | false => rfl
          | true => exact absurd List.mem_cons_self (h2 a0 h).2
        have hsum : psum N (gOf q (a0 :: a1 :: t)) (fun i => P i || decide (i = a0)) =
            psum N (gOf q (a0 :: a1 :: t)) P + gOf q (a0 :: a1 :: t) a0 := by
          rw [psum_remove N _ (fun i => P i || decide (i = a0)) (hN a0 List.mem_cons_self) (by simp)]
          rw [psum_congr N _ (P := fun i => (P i || decide (i = a0)) && decide (i ≠ a0)) (Q := P) (fun i _ => by
            by_cases h : i = a0
            · subst h; simp [hPa]
            · simp [h])]
        have hlb := walk_lb (c := fun a b => qOf q b a) (g := gOf q (a0 :: a1 :: t)) (inM := fun x => x ∈ a0 :: a1 :: t)
          (N := N) hc (by
            intro x y hx hy hxy
            have h1 := gOf_le q (a0 :: a1 :: t) (a := x) (b := y) hy (fun h => hxy h.symm)
            have h2 := gOf_le q (a0 :: a1 :: t) (a := y) (b := x) hx hxy
            simp only [edOf] at h1 h2
            constructor <;> omega) W (inner q (a0 :: a1 :: t) a0).2 (fun i => P i || decide (i = a0)) hsub (hcov _ hb0) (by
            intro i hi
            simp only [Bool.or_eq_true, decide_eq_true_eq] at hi
            rcases hi with hi | rfl
            · have := h2 i hi
              refine ⟨hcov i (List.mem_cons_of_mem _ this.1), fun h => this.2 (by rw [h]; simp), hN i (List.mem_cons_of_mem _ this.1)⟩
            · exact ⟨hcov i List.mem_cons_self, fun h => hb0ne h.symm, hN i List.mem_cons_self⟩)
        rw [hsum] at hlb
        omega

-- ------------------------------------------------------------------------------------------------------------------
-- the bit set of the members

def bsum (P : Nat → Bool) : Nat → Nat
  | 0 => 0
  | N + 1 => bsum P N + (if P N then 2 ^ N else 0)

theorem bsum_lt (P : Nat → Bool) : ∀ N : Nat, bsum P N < 2 ^ N := by
  intro N
  induction N with
  | zero => simp [bsum]
  | succ N ih =>
    simp only [bsum, Nat.pow_succ]
    split <;> omega

theorem bsum_congr {P Q : Nat → Bool} : ∀ N : Nat, (∀ i, i < N → P i = Q i) → bsum P N = bsum Q N := by
  intro N
  induction N with
  | zero => intro _; rfl
  | succ N ih => intro h; simp only [bsum]; rw [ih (fun i hi => h i (by omega)), h N (by omega)]

theorem bsum_false : ∀ N : Nat, bsum (fun _ => false) N = 0 := by
  intro N
  induction N with
  | zero => rfl
  | succ N ih => simp [bsum, ih]

theorem testBit_bsum (P : Nat → Bool) : ∀ (N k : Nat), (bsum P N).testBit k = (decide (k < N) && P k) := by
  intro N
  induction N with
  | zero => intro k; simp [bsum]
  | succ N ih =>
    intro k
    simp only [bsum]
    cases hP : P N with
    | false =>
      simp only [Bool.false_eq_true, if_false, Nat.add_zero, ih]
      by_cases hk : k = N
      · subst hk; simp [hP]
      · have : (k < N + 1) = (k < N) := by apply propext; omega
        simp [this]
    | true =>
      simp only [if_true]
      rw [Nat.add_comm]
      rcases Nat.lt_trichotomy k N with hk | hk | hk
      · rw [Nat.testBit_two_pow_add_gt hk, ih]
        have h1 : k < N + 1 := by omega
        simp [hk, h1]
      · subst hk
        rw [Nat.testBit_two_pow_add_eq, Nat.testBit_lt_two_pow (bsum_lt P k)]
        simp [hP]
      · have hlt : 2 ^ N + bsum P N < 2 ^ k := by
          have h1 := bsum_lt P N
          have h2 : 2 ^ (N + 1) ≤ 2 ^ k := Nat.pow_le_pow_right (by omega) hk
          rw [Nat.pow_succ] at h2
          omega
        rw [Nat.testBit_lt_two_pow hlt]
        have : ¬ k < N + 1 := by omega
        simp [this]

theorem bsum_insert (P : Nat → Bool) (a : Nat) (hPa : P a = false) : ∀ N : Nat, a < N →
    bsum (fun i => P i || decide (i = a)) N = bsum P N + 2 ^ a := by
  intro N
  induction N with
  | zero => intro h; omega
  | succ N ih =>
    intro h
    simp only [bsum]
    by_cases ha : a = N
    · subst ha
      have hcg : ∀ i, i < a → (P i || decide (i = a)) = P i := by
        intro i hi
        have : i ≠ a := by omega
        simp [this]
      rw [bsum_congr (Q := P) a hcg]
      simp [hPa]
    · rw [ih (by omega)]
      have : ¬ N = a := fun h => ha h.symm
      simp only [this, decide_false, Bool.or_false]
      omega

theorem foldl_pow_eq (N : Nat) : ∀ (L : List Nat) (acc : Nat), L.Nodup → (∀ a ∈ L, a < N) →
    L.foldl (fun m i => m + 2 ^ i) acc = acc + bsum (fun i => L.contains i) N := by
  intro L
  induction L with
  | nil => intro acc _ _; simp [bsum_false]
  | cons a t ih =>
    intro acc hnd hN
    obtain ⟨hat, hnd'⟩ := List.nodup_cons.mp hnd
    rw [List.foldl_cons, ih _ hnd' (fun b hb => hN b (List.mem_cons_of_mem _ hb))]
    rw [bsum_congr (P := fun i => (a :: t).contains i) (Q := fun i => t.contains i || decide (i = a)) N (fun i _ => by
      simp only [List.contains_eq_mem, List.mem_cons]
      by_cases h1 : i = a <;> by_cases h2 : i ∈ t <;> simp [h1, h2])]
    rw [bsum_insert (fun i => t.contains i) a (by simpa using hat) N (hN a List.mem_cons_self)]
    omega

/-- the members of the bit set built from a duplicate-free list are the members of the list -/
theorem mem_maskMembers (N : Nat) (L : List Nat) (hnd : L.Nodup) (hN : ∀ a ∈ L, a < N) (k : Nat) :
    k ∈ maskMembers N (L.foldl (fun m i => m + 2 ^ i) 0) ↔ k ∈ L := by
  unfold maskMembers
  rw [List.mem_filter, List.mem_range, foldl_pow_eq N L 0 hnd hN, Nat.zero_add, testBit_bsum]
  simp only [Bool.and_eq_true, decide_eq_true_eq, List.contains_iff_mem]
  constructor
  · intro h; exact h.2.2
  · intro h; exact ⟨hN k h, hN k h, h⟩

theorem maskMembers_nodup (N mask : Nat) : (maskMembers N mask).Nodup :=
  List.Nodup.sublist List.filter_sublist List.nodup_range

-- ------------------------------------------------------------------------------------------------------------------
-- every completion produces every item with a pending unit

theorem sumTo_ge_term {n : Nat} {f : Nat → Int} (h : ∀ i, i < n → 0 ≤ f i) {c : Nat} (hc : c < n) : f c ≤ sumTo n f := by
  induction n with
  | zero => omega
  | succ n ih =>
    simp only [sumTo]
    by_cases he : c = n
    · subst he
      have := sumTo_nonneg (n := c) (f := f) (fun i hi => h i (by omega))
      omega
    · have := ih (fun i hi => h i (by omega)) (by omega)
      have := h n (by omega)
      omega

/-- the walk of the productions `W` (latest first) after `next` -/
def walkOf (nx : Int) (W : List Nat) : List Nat := if nx = -1 then W else nx.toNat :: W

section
variable {I : Psp.Inst} (hI : InstOk I)
include hI

theorem rem_pos {s : St} (hs : Ok I s) {i : Nat} (hi : i < I.n) (hp : 0 ≤ pdAt s i) : 1 ≤ rem I s := by
  have h1 := sumTo_ge_term (n := I.n) (f := fun j => contrib (rowOf I j) (pdAt s j)) (fun j _ => contrib_nonneg hI j _) hi
  rcases hs.due i hi with h | ⟨h0, hd⟩
  · omega
  · have h2 := contrib_due _ (row_bin hI i) h0 hd
    have h3 := remF_nonneg _ (row_bin hI i) (pdAt s i).toNat
    unfold rem
    omega

/-- **every completion of a state with no more units than periods produces every item with a pending unit**, and pays
    at least the changeover cost of the walk of its productions after `next` -/
theorem bestRem_walk : ∀ (k : Nat) (s : St) (h : Int), s.time = k → Ok I s → NextOk I s → rem I s ≤ (k : Int) →
    bestRem (tabOf I) s = some h →
    ∃ W : List Nat, (∀ i, i < I.n → 0 ≤ pdAt s i → i ∈ W) ∧ (∀ w ∈ W, w < I.n ∧ 0 ≤ pdAt s w) ∧
      wc (fun a b => qq I b a) (walkOf s.next W) ≤ -h := by
  intro k
  induction k with
  | zero =>
    intro s h ht hs _ hrem hh
    rw [bestRem_zero _ ht] at hh
    cases hh
    refine ⟨[], ?_, (fun w hw => by cases hw), ?_⟩
    · intro i hi hp
      have := rem_pos hI hs hi hp
      omega
    · unfold walkOf; split <;> simp [wc]
  | succ k ih =>
    intro s h ht hs hnx hrem hh
    have ht0 : s.time ≠ 0 := by omega
    have hx : s.time - 1 = k := by omega
    obtain ⟨d, hd, h1, hh1, hcost⟩ := bestRem_att hI hs ht0 hh
    rw [hx] at hd hh1 hcost
    obtain ⟨hremk, hcase⟩ := domain_cases hI hs ht0 hd
    rcases hcase with ⟨rfl, hlt, htr⟩ | ⟨i, hi, rfl, hp, htr⟩
    · rw [htr] at hh1
      rw [cost_idle] at hcost
      obtain ⟨W, h1', h2', h3'⟩ := ih (idle s) h1 (by simp [idle]; omega) (ok_idle hs) hnx (by rw [rem_idle]; omega) hh1
      refine ⟨W, h1', h2', ?_⟩
      have h3'' : wc (fun a b => qq I b a) (walkOf s.next W) ≤ -h1 := h3'
      omega
    · rw [htr] at hh1
      have hpi : 0 ≤ pdAt s i := by omega
      rw [cost_item hI hs hnx k hi] at hcost
      obtain ⟨W, h1', h2', h3'⟩ := ih (produce I s i) h1 (by simp [produce]; omega) (ok_produce hs hi)
        (Or.inr ⟨by simp [produce], by simp [produce]; omega⟩) (by rw [rem_produce hI hs hi hpi]; omega) hh1
      refine ⟨i :: W, ?_, ?_, ?_⟩
      · intro j hj hpj
        by_cases hji : j = i
        · rw [hji]; exact List.mem_cons_self
        · have := h1' j hj (by rw [pdAt_produce hs hi, if_neg hji]; exact hpj)
          exact List.mem_cons_of_mem _ this
      · intro w hw
        rcases List.mem_cons.mp hw with rfl | hw
        · exact ⟨hi, hpi⟩
        · obtain ⟨hwn, hwp⟩ := h2' w hw
          refine ⟨hwn, ?_⟩
          by_cases hwi : w = i
          · rw [hwi]; exact hpi
          · rw [pdAt_produce hs hi, if_neg hwi] at hwp; exact hwp
      · have hw : walkOf (produce I s i).next W = i :: W := by
          have : ¬ ((i : Int) = -1) := by omega
          simp [walkOf, produce, this]
        rw [hw] at h3'
        have hs0 : 0 ≤ stkOf I i * (pdAt s i - (k : Int)) := Int.mul_nonneg (stkOf_nonneg hI i) (by omega)
        have hc0 := chgTo_nonneg hI s.next i
        rcases hnx with hn | ⟨hn0, hn1⟩
        · simp only [walkOf, hn, if_true]
          omega
        · have hne : ¬ (s.next = -1) := by omega
          simp only [walkOf, hne, if_false, wc]
          obtain ⟨b, hb⟩ : ∃ b : Nat, s.next = (b : Int) := ⟨s.next.toNat, by omega⟩
          rw [hb] at hcost ⊢
          rw [chgTo_item] at hcost
          simp only [Int.toNat_natCast]
          omega

end

-- ------------------------------------------------------------------------------------------------------------------
-- `RubAdmissibleStmt`

theorem members_spec {I : Psp.Inst} {s : St} (hs : Ok I s) (hnx : NextOk I s) {mask : Nat} (hm : memberMask? s = some mask) :
    ∃ mem : List Nat, mem.Nodup ∧ (∀ a ∈ mem, a < I.n) ∧
      (∀ k, k ∈ mem ↔ (k < I.n ∧ 0 ≤ pdAt s k) ∨ (0 ≤ s.next ∧ k = s.next.toNat)) ∧
      mask = mem.foldl (fun m i => m + 2 ^ i) 0 := by
  unfold memberMask? at hm
  split at hm
  · cases hm
  · simp only [Option.some.injEq] at hm
    have hbase_nd : ((List.range s.pd.length).filter (fun i => decide (s.pd.getD i (-1) ≥ 0))).Nodup :=
      List.Nodup.sublist List.filter_sublist List.nodup_range
    have hbase : ∀ k, k ∈ (List.range s.pd.length).filter (fun i => decide (s.pd.getD i (-1) ≥ 0)) ↔ (k < I.n ∧ 0 ≤ pdAt s k) := by
      intro k
      simp [List.mem_filter, hs.len, pdAt]
    split at hm
    · next hc =>
      refine ⟨_, ?_, ?_, ?_, hm.symm⟩
      · rw [List.nodup_append]
        refine ⟨hbase_nd, by simp, ?_⟩
        intro a ha b hb
        simp only [List.mem_singleton] at hb
        subst hb
        intro e
        subst e
        exact hc.2 (List.contains_iff_mem.mpr ha)
      · intro a ha
        rcases List.mem_append.mp ha with h | h
        · exact ((hbase a).mp h).1
        · simp only [List.mem_singleton] at h
          rcases hnx with hn | ⟨_, hn⟩
          · omega
          · omega
      · intro k
        rw [List.mem_append, hbase]
        simp only [List.mem_singleton]
        constructor
        · rintro (h | h)
          · exact Or.inl h
          · exact Or.inr ⟨hc.1, h⟩
        · rintro (h | h)
          · exact Or.inl h
          · exact Or.inr h.2
    · next hc =>
      refine ⟨_, hbase_nd, fun a ha => ((hbase a).mp ha).1, ?_, hm.symm⟩
      intro k
      rw [hbase]
      constructor
      · exact Or.inl
      · rintro (h | ⟨h0, rfl⟩)
        · exact h
        · have : ((List.range s.pd.length).filter (fun i => decide (s.pd.getD i (-1) ≥ 0))).contains s.next.toNat = true := by
            cases hcc : ((List.range s.pd.length).filter (fun i => decide (s.pd.getD i (-1) ≥ 0))).contains s.next.toNat with
            | true => rfl
            | false => exact absurd ⟨h0, by rw [hcc]; simp⟩ hc
          exact (hbase _).mp (List.contains_iff_mem.mp this)

/-- **`RubAdmissibleStmt` is a theorem**: the rough upper bound of the shipped example dominates the value-to-go of every
    state a compilation can build — minus the `mst` entry of the member set does (`mstOf_le_walk`, `bestRem_walk`), and the
    stocking part of the bound, as shipped, only weakens it (`rub_ge_neg_mst`) -/
theorem rubAdmissible (I : Psp.Inst) : RubAdmissibleStmt I := by
  intro hI s r hst hr
  have hs := hst.ok
  have hnx := hst.nextOk
  have hstk : ∀ i, 0 ≤ (tabOf I).stk.getD i 0 := fun i => getD_nonneg hI.hrow.2 i
  obtain ⟨mask, co, hm, hc, hle⟩ := rub_ge_neg_mst (tabOf I) hstk s r hr
  cases hb : bestRem (tabOf I) s with
  | none => exact EInt.none_le _
  | some h =>
    show h ≤ r
    have hrem : rem I s ≤ (s.time : Int) := by
      have hv := hst.valid
      unfold validB at hv
      rw [remOf?_eq hI hs] at hv
      simpa using hv
    obtain ⟨W, hW1, hW2, hW3⟩ := bestRem_walk hI s.time s h rfl hs hnx hrem hb
    obtain ⟨mem, hnd, hlt, hmem, hmask⟩ := members_spec hs hnx hm
    -- the entry of the table
    have hco : co = mstOf I.q (maskMembers I.n mask) := by
      have h1 : (tabOf I).mst = (List.range (2 ^ I.q.length)).map (fun mask => mstOf I.q (maskMembers I.q.length mask)) := rfl
      rw [h1, List.getElem?_map] at hc
      cases hr' : (List.range (2 ^ I.q.length))[mask]? with
      | none => rw [hr'] at hc; cases hc
      | some m' =>
        rw [hr'] at hc
        have : m' = mask := by
          have := List.getElem?_eq_some_iff.mp hr'
          obtain ⟨_, h2⟩ := this
          simpa using h2.symm
        subst this
        simp only [Option.map_some, Option.some.injEq] at hc
        rw [← hc, hI.qrows.1]
    have hmm : ∀ k, k ∈ maskMembers I.n mask ↔ k ∈ mem := by
      intro k; rw [hmask]; exact mem_maskMembers I.n mem hnd hlt k
    have hbound := mstOf_le_walk I.q (fun a b => qq_nonneg hI a b) (maskMembers I.n mask) (maskMembers_nodup _ _)
      (walkOf s.next W) (by
        intro w hw
        rw [hmm, hmem]
        unfold walkOf at hw
        split at hw
        · exact Or.inl (hW2 w hw)
        · next hne =>
          rcases List.mem_cons.mp hw with rfl | hw
          · right
            rcases hnx with hn | ⟨hn, _⟩
            · exact absurd hn hne
            · exact ⟨hn, rfl⟩
          · exact Or.inl (hW2 w hw)) (by
        intro a ha
        rw [hmm, hmem] at ha
        unfold walkOf
        rcases ha with ⟨h1, h2⟩ | ⟨h1, h2⟩
        · split
          · exact hW1 a h1 h2
          · exact List.mem_cons_of_mem _ (hW1 a h1 h2)
        · have hne : ¬ (s.next = -1) := by omega
          rw [if_neg hne, h2]
          exact List.mem_cons_self)
    have hbound' : mstOf I.q (maskMembers I.n mask) ≤ wc (fun a b => qq I b a) (walkOf s.next W) := hbound
    omega

#print axioms mstOf_le_walk
#print axioms rubAdmissible

end Ddo.Examples.PspModel
