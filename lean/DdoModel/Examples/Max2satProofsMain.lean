import DdoModel.Examples.Max2satProofsSpec
import DdoModel.Examples.Max2satProofsWf
/-! The shipped max2sat example, from the INSTANCE to the specification: a relaxed compilation of the model built from an
    instance with valid literals, a permutation as variable order and clause weights within `A` reports at least the optimum
    of the independent specification `Max2sat.best` on the clauses that count (`max2sat_relaxed_ub_spec`).  Assembly of
    `tabOkOfInst` (`Max2satProofsTab.lean`), `dpExact` (`Max2satProofsSpec.lean`), `max2sat_relaxed_ub`
    (`Max2satProofsWf.lean`, through `Ddo.CoverRel.relaxed_ub_rel_valid`) and `wBound_of_inst` (below: every cell of the
    `(2n)²` table is `0` or the weight of a clause).
    `dpExact_prefix`: exactness along EVERY path of the model (`path_gain`: an assignment that agrees with the decisions
    keeps `value + gain`, by the identity `gain_step`), the statement the driver evaluates on every walk prefix. -/
namespace Ddo.Examples.Max2satModel
open Ddo Ddo.Examples Ddo.Examples.Util Ddo.SpecUtil

theorem insertClause_weight (m : CMap) (k : Int × Int) (w : Int) (e : (Int × Int) × Int)
    (he : e ∈ insertClause m k w) : e.2 = w ∨ e ∈ m := by
  unfold insertClause at he
  split at he
  · obtain ⟨e', he', h⟩ := List.mem_map.mp he
    split at h
    · left; rw [← h]
    · right; rw [← h]; exact he'
  · rcases List.mem_append.mp he with h | h
    · exact Or.inr h
    · left; simp only [List.mem_singleton] at h; rw [h]

/-- the weights of the clause map are weights of clauses of the instance -/
theorem cmap_weight_bound (I : Inst) (A : Int) (h : ∀ c ∈ I.clauses, -A ≤ c.1 ∧ c.1 ≤ A) :
    ∀ e ∈ I.cmap, -A ≤ e.2 ∧ e.2 ≤ A := by
  unfold Inst.cmap
  have : ∀ (cs : List (Int × Int × Int)) (m : CMap), (∀ c ∈ cs, -A ≤ c.1 ∧ c.1 ≤ A) → (∀ e ∈ m, -A ≤ e.2 ∧ e.2 ≤ A) →
      ∀ e ∈ cs.foldl (fun m c => insertClause m (min c.2.1 c.2.2, max c.2.1 c.2.2) c.1) m, -A ≤ e.2 ∧ e.2 ≤ A := by
    intro cs
    induction cs with
    | nil => intro m _ hm; exact hm
    | cons c cs ih =>
      intro m hcs hm
      rw [List.foldl_cons]
      apply ih _ (fun c' hc' => hcs c' (List.mem_cons_of_mem _ hc'))
      intro e he
      rcases insertClause_weight _ _ _ e he with h1 | h1
      · rw [h1]; exact hcs c List.mem_cons_self
      · exact hm e h1
  exact this I.clauses [] h (fun e he => by cases he)

/-- every cell of the table is `0` or a weight of the clause map -/
theorem weights_bound (I : Inst) (A : Int) (hA0 : 0 ≤ A) (h : ∀ c ∈ I.clauses, -A ≤ c.1 ∧ c.1 ≤ A) :
    ∀ q ∈ I.weights.toList, -A ≤ q ∧ q ≤ A := by
  have hc := cmap_weight_bound I A h
  unfold Inst.weights
  have : ∀ (m : CMap) (t : Array Int), (∀ e ∈ m, -A ≤ e.2 ∧ e.2 ≤ A) → (∀ q ∈ t.toList, -A ≤ q ∧ q ≤ A) →
      ∀ q ∈ (m.foldl (fun t e => t.setIfInBounds (offset I.n e.1.1 e.1.2) e.2) t).toList, -A ≤ q ∧ q ≤ A := by
    intro m
    induction m with
    | nil => intro t _ ht; exact ht
    | cons e m ih =>
      intro t hm ht
      rw [List.foldl_cons]
      apply ih _ (fun e' he' => hm e' (List.mem_cons_of_mem _ he'))
      intro q hq
      rw [Array.toList_setIfInBounds] at hq
      rcases List.mem_or_eq_of_mem_set hq with h1 | h1
      · exact ht q h1
      · rw [h1]; exact hm e List.mem_cons_self
  apply this I.cmap _ hc
  intro q hq
  simp only [Array.toList_replicate, List.mem_replicate] at hq
  rw [hq.2]; omega

theorem wBound_of_inst (I : Inst) (A : Int) (hA0 : 0 ≤ A) (h : ∀ c ∈ I.clauses, -A ≤ c.1 ∧ c.1 ≤ A) : WBound I.tab A :=
  wBound_of_elems I.tab A hA0 (weights_bound I A hA0 h)

/-- **The shipped max2sat example, instance to specification**: for an instance with valid literals, a permutation of the
    variables as `order` (`vars_by_sum_of_clause_weights` is one) and clause weights within `A`, `(n + 2) · BR ≤ 2^62`
    (`BR = O(n² A)`), a relaxed compilation of the example's model from the root (no cache, no dominance checker, any
    width ≥ 1, any incumbent `lb` that the optimum beats) reports a best value that is at least the optimum `o` of the
    independent specification `Max2sat.best` on the clauses that count (`Inst.effClauses`: a clause listed several times
    keeps its last weight, as in the example's reader). -/
theorem max2sat_relaxed_ub_spec {K : Type} [DecidableEq K] (I : Inst) (cfg : Cfg St K) (A : Int)
    (cache : Cache St) (store : DomStore St K) (polls : Nat)
    (hp : I.order.Perm (List.range I.n))
    (hlit : ∀ c ∈ I.clauses, c.2.1 ≠ 0 ∧ c.2.1.natAbs ≤ I.n ∧ c.2.2 ≠ 0 ∧ c.2.2.natAbs ≤ I.n)
    (hw : ∀ c ∈ I.clauses, -A ≤ c.1 ∧ c.1 ≤ A) (hA0 : 0 ≤ A)
    (hsmall : ((I.n : Int) + 2) * BR I.tab A ≤ 4611686018427387904)
    (hP : cfg.P = problem I.tab) (hR : cfg.R = relaxation I.tab)
    (hrs : cfg.root.state = (0, List.replicate I.n 0)) (hrv : cfg.root.value = I.tab.initial) (hrd : cfg.root.depth = 0)
    (hrel : cfg.ctype = .relaxed) (hcache : cfg.useCache = false) (hdom : cfg.dom = none) (hW : 1 ≤ cfg.width)
    (hlb : InI cfg.lb) (o : Int) (ho : Max2sat.best I.n I.effClauses = some o) (hgt : o > cfg.lb) :
    (compile cfg cache store polls none).1 = .ok →
    ∃ bv, (compile cfg cache store polls none).2.1.bestValue = some bv ∧ o ≤ bv := by
  have hoe := dpExact I hp hlit
  rw [ho] at hoe
  exact max2sat_relaxed_ub (T := I.tab) cfg A cache store polls (tabOkOfInst I hp hlit) (wBound_of_inst I A hA0 hw) hA0
    hsmall hP hR hrs hrv hrd hrel hcache hdom hW hlb o (Option.some.inj hoe) hgt

-- ------------------------------------------------------------------------------------------------------------------
-- exactness along every path of the model (what the driver evaluates on every walk prefix)

section
variable {T : Tab}

theorem order_take_succ (h : TabOk T) {k : Nat} (hk : k < T.n) :
    ∃ xv, T.order[T.n - k - 1]? = some xv ∧ T.order.take (T.n - k) = T.order.take (T.n - (k + 1)) ++ [xv] ∧
      (T.order.take (T.n - (k + 1)) ++ [xv]).Nodup := by
  have hlen := (order_facts h).1
  have hm : T.n - (k + 1) < T.order.length := by omega
  have htake : T.order.take ((T.n - (k + 1)) + 1) = T.order.take (T.n - (k + 1)) ++ [T.order[T.n - (k + 1)]] := by
    rw [List.take_add_one, List.getElem?_eq_getElem hm]; rfl
  refine ⟨T.order[T.n - (k + 1)], ?_, ?_, ?_⟩
  · rw [show T.n - k - 1 = T.n - (k + 1) by omega]; exact List.getElem?_eq_getElem hm
  · rw [← htake]; congr 1; omega
  · rw [← htake]; exact (List.take_sublist _ _).nodup (order_facts h).2.1

/-- along a path of the model: the state stays well shaped, the decided variables are the last ones of the order, every
    assignment that agrees with the decisions keeps `value + gain`, and every assignment of the remaining free variables
    extends to one that agrees with the decisions -/
theorem path_gain (h : TabOk T) : ∀ (decs : List Dec) (k : Nat) (s : St) (v : Int) (s' : St) (v' : Int) (k' : Nat),
    s.2.length = T.n → s.1 = k → k ≤ T.n →
    evalFrom (problem T) k s v decs = some (s', v', k') →
    s'.2.length = T.n ∧ s'.1 = k' ∧ k' ≤ T.n ∧ k ≤ k' ∧
    (∀ d ∈ decs, d.var ∈ T.order.take (T.n - k)) ∧
    (∀ x : Nat → Bool, (∀ d ∈ decs, d.val = valOf (x d.var)) →
        v + gain T s x (T.order.take (T.n - k)) = v' + gain T s' x (T.order.take (T.n - k'))) ∧
    (∀ xs : Nat → Bool, ∃ x : Nat → Bool, (∀ d ∈ decs, d.val = valOf (x d.var)) ∧
        ∀ l ∈ T.order.take (T.n - k'), x l = xs l) := by
  intro decs
  induction decs with
  | nil =>
    intro k s v s' v' k' hl hd hk he
    simp only [evalFrom, Option.some.injEq, Prod.mk.injEq] at he
    obtain ⟨rfl, rfl, rfl⟩ := he
    exact ⟨hl, hd, hk, Nat.le_refl _, (fun d hd => by cases hd), (fun x _ => rfl),
      (fun xs => ⟨xs, (fun d hd => by cases hd), (fun _ _ => rfl)⟩)⟩
  | cons d ds ih =>
    intro k s v s' v' k' hl hd hk he
    have hkn : k < T.n := by
      rcases Nat.lt_or_ge k T.n with h1 | h1
      · exact h1
      · have : (problem T).nextVar k [s] = none := by simp [problem, nextVar, hd]; omega
        simp only [evalFrom, this] at he
        cases he
    obtain ⟨xv, hxv, htake, hnd⟩ := order_take_succ h hkn
    have hnv : (problem T).nextVar k [s] = some xv := by
      simp only [problem, nextVar, hd, hkn, if_true, hxv]
    simp only [evalFrom, hnv] at he
    split at he
    · next hc =>
      obtain ⟨hvar, hval⟩ := hc
      have hval' : d.val = 1 ∨ d.val = -1 := by simpa [problem] using hval
      have hs1l : (trans T s d).2.length = T.n := by rw [trans_length, hl]
      have hs1d : (trans T s d).1 = k + 1 := by rw [trans_depth, hd]
      obtain ⟨a1, a2, a3, a4, a5, a6, a7⟩ := ih (k + 1) _ _ s' v' k' hs1l hs1d (by omega) he
      have hxvL : xv ∉ T.order.take (T.n - (k + 1)) := by
        intro hmem
        exact (List.nodup_append.mp hnd).2.2 xv hmem xv (by simp) rfl
      have hsub : ∀ l ∈ T.order.take (T.n - k'), l ∈ T.order.take (T.n - (k + 1)) :=
        fun l hl' => Ddo.Cover.mem_take_mono hl' (by omega)
      refine ⟨a1, a2, a3, by omega, ?_, ?_, ?_⟩
      · intro d' hd'
        rcases List.mem_cons.mp hd' with rfl | hd'
        · rw [htake, hvar]; simp
        · rw [htake]; exact List.mem_append_left _ (a5 d' hd')
      · intro x hx
        have hdx : d = ⟨xv, valOf (x xv)⟩ := by
          have := hx d List.mem_cons_self
          cases d with
          | mk var val => simp only at hvar this; rw [hvar] at this; rw [hvar, this]
        have hstep := gain_step T s x xv (T.order.take (T.n - (k + 1))) (by unfold varset; rw [hd]) hnd
          (fun l hl' => by rw [hl]; exact (order_facts h).2.2 l ((List.take_sublist _ _).subset hl'))
        have hrest : v + cost T s d + gain T (trans T s d) x (T.order.take (T.n - (k + 1)))
            = v' + gain T s' x (T.order.take (T.n - k')) := a6 x (fun d' hd' => hx d' (List.mem_cons_of_mem _ hd'))
        rw [htake, hstep, ← hdx]
        omega
      · intro xs
        obtain ⟨x1, hx1, hx1e⟩ := a7 xs
        refine ⟨fun i => if i = xv then decide (d.val = 1) else x1 i, ?_, ?_⟩
        · intro d' hd'
          rcases List.mem_cons.mp hd' with rfl | hd'
          · simp only [hvar, if_true, valOf]
            rcases hval' with h1 | h1 <;> simp [h1]
          · have hne : d'.var ≠ xv := fun he' => hxvL (he' ▸ a5 d' hd')
            simp only [hne, if_false]
            exact hx1 d' hd'
        · intro l hl'
          have hne : l ≠ xv := fun he' => hxvL (he' ▸ hsub l hl')
          simp only [hne, if_false]
          exact hx1e l hl'
    · cases he

end

/-- **exactness along every path** (what the driver evaluates on every walk prefix against `specBestExt`): after any
    sequence of decisions the model accepts from the root (`evalFrom`: variables in the model's order, values of the
    domain), value + value-to-go is the MAXIMUM of the specification weight over the assignments (sub-lists of `1..n`, as in
    `Max2sat.best`) that agree with the decisions taken.  `dpExact` is the case of the empty path. -/
theorem dpExact_prefix (I : Inst) (hp : I.order.Perm (List.range I.n))
    (hlit : ∀ c ∈ I.clauses, c.2.1 ≠ 0 ∧ c.2.1.natAbs ≤ I.n ∧ c.2.2 ≠ 0 ∧ c.2.2.natAbs ≤ I.n)
    (decs : List Dec) (s : St) (v : Int) (k : Nat)
    (he : evalFrom (problem I.tab) 0 (0, List.replicate I.n 0) I.tab.initial decs = some (s, v, k)) :
    IsMaxOf (fun trues : List Int => trues.Sublist (oneTo I.n) ∧ ∀ d ∈ decs, d.val = valOf (assignOf trues d.var))
      (Max2sat.satisfiedWeight I.effClauses) (v + bestRem I.tab (I.n - k) s) := by
  have hI : InstOk I := (instOk_iff I).mpr hlit
  have hok : TabOk I.tab := tabOkOfInst I hp hlit
  have hmem : ∀ i ∈ I.order, i < I.n := fun i hi => List.mem_range.mp (hp.mem_iff.mp hi)
  have hlen : I.order.length = I.n := (order_facts hok).1
  obtain ⟨a1, a2, a3, _, _, a6, a7⟩ := path_gain hok decs 0 (0, List.replicate I.n 0) I.tab.initial s v k
    (by simp; rfl) rfl (Nat.zero_le _) he
  have hn : I.tab.n = I.n := rfl
  have hord : I.tab.order = I.order := rfl
  simp only [hn, hord] at a1 a3 a6 a7
  have hroot : ∀ x, gain I.tab (0, List.replicate I.n 0) x (I.order.take (I.n - 0)) = totW I.tab x I.order := by
    intro x
    have : I.order.take (I.n - 0) = I.order := by rw [Nat.sub_zero, ← hlen, List.take_length]
    rw [this]
    unfold gain
    have := owedSum_init I.n x I.order
    omega
  have hmax := bestRem_isMax I.tab hok (I.n - k) s a1 (by show s.1 + (I.n - k) = I.n; rw [a2]; omega)
  simp only [hord] at hmax
  obtain ⟨⟨xs, _, hxs⟩, hub⟩ := hmax
  refine ⟨?_, ?_⟩
  · obtain ⟨x, hx, hxe⟩ := a7 xs
    let S : Int → Bool := fun v => decide (1 ≤ v ∧ v ≤ (I.n : Int)) && x (v.toNat - 1)
    have hS : ∀ v, S v = true → 1 ≤ v ∧ v ≤ (I.n : Int) := by
      intro v hv
      simp only [S, Bool.and_eq_true, decide_eq_true_eq] at hv
      exact hv.1
    have hagree : ∀ l, l < I.n → assignOf ((oneTo I.n).filter S) l = x l := by
      intro l hl'
      unfold assignOf
      rw [contains_filter_oneTo hS]
      have e1 : (1 ≤ (l : Int) + 1 ∧ (l : Int) + 1 ≤ (I.n : Int)) := by omega
      have e2 : ((l : Int) + 1).toNat - 1 = l := by omega
      simp only [S, e1, e2, and_self, decide_true, Bool.true_and]
    have hdv : ∀ d ∈ decs, d.var < I.n := by
      intro d hd
      have := (path_gain hok decs 0 (0, List.replicate I.n 0) I.tab.initial s v k (by simp; rfl) rfl (Nat.zero_le _) he).2.2.2.2.1 d hd
      exact hmem _ ((List.take_sublist _ _).subset this)
    refine ⟨(oneTo I.n).filter S, ⟨List.filter_sublist, fun d hd => ?_⟩, ?_⟩
    · rw [hagree _ (hdv d hd)]; exact hx d hd
    · rw [satisfiedWeight_eq I hp hI, totW_congr I.tab _ x I.order (fun l hl' => hagree l (hmem l hl'))]
      have h1 := a6 x hx
      rw [hroot] at h1
      have h2 : gain I.tab s x (I.order.take (I.n - k)) = gain I.tab s xs (I.order.take (I.n - k)) :=
        gain_congr I.tab s x xs _ hxe
      have h3 : gain I.tab s xs (I.order.take (I.n - k)) = bestRem I.tab (I.n - k) s := hxs
      show I.tab.initial + totW I.tab x I.order = v + bestRem I.tab (I.n - k) s
      have h1' : I.tab.initial + totW I.tab x I.order = v + gain I.tab s x (I.order.take (I.n - k)) := h1
      omega
  · intro trues ⟨_, hag⟩
    rw [satisfiedWeight_eq I hp hI]
    have h1 := a6 (assignOf trues) hag
    rw [hroot] at h1
    have h2 : gain I.tab s (assignOf trues) (I.order.take (I.n - k)) ≤ bestRem I.tab (I.n - k) s := hub _ trivial
    have h1' : I.tab.initial + totW I.tab (assignOf trues) I.order = v + gain I.tab s (assignOf trues) (I.order.take (I.n - k)) := h1
    omega

section Axioms
#print axioms tabOkOfInst
#print axioms dpExact
#print axioms dpExact_prefix
#print axioms wfRelV
#print axioms noClampRel
#print axioms max2sat_relaxed_ub
#print axioms max2sat_relaxed_ub_spec
#print axioms Ddo.CoverRel.relaxed_ub_rel_valid
end Axioms

end Ddo.Examples.Max2satModel
