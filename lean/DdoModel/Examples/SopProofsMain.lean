import DdoModel.Examples.SopProofsTab
import DdoModel.Examples.SopProofsRub
import DdoModel.Examples.SopProofsWf
/-! The shipped sop example (REPAIRED code: `canSchedule?`, `trans?`, `rub?`), summary.  `TabOk T` / `DomOk T`: a table as the
    reader and `Sop::new` build it from an instance of the input domain (`tabOk_tabOf`, `domOk_tabOf`: `inDomain`, at most
    256 jobs, `isize` entries); `Inv T s`: the part of `validB` the functions rely on (closed under the transitions of the
    domain and under `merge`); `Conc T s u`: `u` is one of the exact states `s` stands for (`mem_concretize_iff`).

* `mergeOk : TabOk T → MergeOkStmt T`, `mergeOk_tabOf` (`SopProofsMerge.lean`, `SopProofsTab.lean`): `MergeOk`, potential form,
  for the repaired code, in the relaxed DP's own value-to-go (simulation `Sim`, `sim_le`); `mergeOk_false_degenerate`: for an
  ARBITRARY table the statement is false (a table without `predecessors`; not one the reader builds);
* `rubFixedAdmissible : TabOk T → DomOk T → RubFixedAdmissibleStmt T`, `rubAdmissible : … → RubSatAdmissibleStmt T` (the bound
  of the repaired code, saturating addition) (`SopProofsRub.lean` + the glue below); `rb_cex_refutes`: without "every job
  before the last one" (`DomOk.last_row`, part of `inDomain`) the statement is false (the last variable always takes job
  `n-1`, which the DP may then have scheduled before; not an instance of the domain);
* `dpExact_partial : n ≤ 256 → (entries ≤ 2^63) → DpExactStmt n rows`, `root_exact`, `dpExact_false_unbounded` (an entry that
  is no `isize`; not reachable) (`SopProofsExact.lean`);
* `wfRelV : WfRelV (problem T) (relaxation T) (H T) (V T)` (`SopProofsWf.lean`: potential `hStar` = the best value-to-go among
  the exact states a node stands for — NOT the relaxed DP's own value-to-go, which the rough bound does not dominate,
  `RubDominatesRelaxedDpStmt` —; `V`: `Inv`, the depth, the last job still mandatory, and the invariant of the repair: every
  pending job can follow one of the previous jobs), `noClamp : NoClampRel …` and the closed corollary `sop_relaxed_ub` against
  the specification `Sop.spec`. -/
namespace Ddo.Examples.SopModel
open Ddo Ddo.Examples Ddo.Examples.Util Ddo.Cover

variable {T : Tab}

/-- the clause of `validB` about the last job -/
theorem last_of_validB {s : St} (h : validB T s = true) : s.depth < nv T → s.must.testBit (T.n - 1) = true := by
  intro hd
  unfold validB at h
  simp only [Bool.and_eq_true, Bool.or_eq_true, decide_eq_true_eq] at h
  rcases h.1.1.2 with h1 | h1
  · omega
  · exact h1

/-- **`RubFixedAdmissibleStmt`**: the bound corrected for D19 (checked additions) is admissible on every valid state, merged
    ones included, of every table of the input domain -/
theorem rubFixedAdmissible (hT : TabOk T) (hD : DomOk T) : RubFixedAdmissibleStmt T := by
  intro s r hv hr
  exact bestRemConc_le hT hv (fun u hu => rubFixed_conc hT hD (inv_of_validB hT hv) (last_of_validB hv) hu hr)

/-- the bound of the REPAIRED code (`rub?`: the cheaper of the two edge selections, saturating addition of the distance from
    the position) is admissible on every valid state -/
def RubSatAdmissibleStmt (T : Tab) : Prop :=
  ∀ (s : St) (r : Int), validB T s = true → rub? T s = some r → bestRemConc T s ≤ some r

/-- **admissibility of the repaired `fast_upper_bound`** on every valid state, merged ones included -/
theorem rubAdmissible (hT : TabOk T) (hD : DomOk T) : RubSatAdmissibleStmt T := by
  intro s r hv hr
  exact bestRemConc_le hT hv (fun u hu => rub_conc hT hD (inv_of_validB hT hv) (last_of_validB hv) hu hr)

theorem rubFixedAdmissible_tabOf {n : Nat} {rows : List (List Int)} (hD : inDomain n rows = true) (hn : n ≤ 256)
    (hb : ∀ r ∈ rows, ∀ w ∈ r, w ≤ imax) : RubFixedAdmissibleStmt (tabOf n rows) :=
  rubFixedAdmissible (tabOk_tabOf hD hn hb) (domOk_tabOf hD)

theorem rubAdmissible_tabOf {n : Nat} {rows : List (List Int)} (hD : inDomain n rows = true) (hn : n ≤ 256)
    (hb : ∀ r ∈ rows, ∀ w ∈ r, w ≤ imax) : RubSatAdmissibleStmt (tabOf n rows) :=
  rubAdmissible (tabOk_tabOf hD hn hb) (domOk_tabOf hD)

/-- on exact states the first shipped bound is the corrected one (`rubFixed?_eq_of_must_ge`): `RubAdmissibleExactStmt` -/
theorem rubAdmissibleExact (hT : TabOk T) (hD : DomOk T) : RubAdmissibleExactStmt T := by
  intro s r hv he hr
  have hinv := inv_of_validB hT hv
  have hmb : mb s = 0 := by
    unfold exactB at he
    simp only [Bool.and_eq_true, Option.isNone_iff_eq_none] at he
    simp [mb, he.1]
  have hcnt := hinv.count
  rw [hmb, card_zero] at hcnt
  have hfix : rubFixed? T s = some r := by
    rw [rubFixed?_eq_of_must_ge T s (by omega) hinv.depth_le (by have := hT.n_pos; omega)]
    exact hr
  -- an exact valid state stands for itself
  have hcm : card s.must ≤ nv T - s.depth := by
    unfold validB at hv
    simp only [Bool.and_eq_true, decide_eq_true_eq] at hv
    exact hv.1.2
  have hself : Conc T s s := by
    unfold exactB at he
    simp only [Bool.and_eq_true, Option.isNone_iff_eq_none] at he
    cases hp : s.prev with
    | virt c => rw [hp] at he; simp at he
    | job i =>
      refine ⟨⟨i, hp, by simp [isPrev, hp], ?_⟩, he.1, rfl, fun x hx => hx, fun x hx => Or.inl hx, by omega⟩
      unfold validB at hv
      simp only [Bool.and_eq_true, decide_eq_true_eq] at hv
      have h4 := hv.1.1.1.2
      rw [hp] at h4
      simp only [Bool.and_eq_true, decide_eq_true_eq, Bool.not_eq_true', has] at h4
      have := h4.2
      rw [Nat.testBit_or, Bool.or_eq_false_iff] at this
      exact this.1
  exact rubFixed_conc hT hD hinv (last_of_validB hv) hself hfix

/-- **the repaired sop model is well-formed relative to `V`**, with the potential `hStar`, on every table of the input domain -/
theorem wfRelV (hT : TabOk T) (hD : DomOk T) : WfRelV (problem T) (relaxation T) (H T) (V T) :=
  wfRelV_of_rub hT hD (fun _ _ _ hs hl hc hr => rub_conc hT hD hs hl hc hr)

/-- **The shipped sop example (repaired)**: a relaxed compilation of its model from the root (layer by layer, no cache, no
    dominance checker, width ≥ 1, any incumbent `lb` that the optimum beats) reports a best value that is at least the true
    optimum — minus the least cost `Sop.spec` of a sequence respecting the precedences —, for every feasible instance of the
    input domain with at most 256 jobs whose entries are at most `B0`, `(n + 1) · B0 ≤ 2^62`.  Closed: no hypothesis on the
    model is left (`WfRelV`, `NoClampRel` and the exactness at the root are proved). -/
theorem sop_relaxed_ub {K : Type} [DecidableEq K] {n : Nat} {rows : List (List Int)}
    (hD : inDomain n rows = true) (hn : n ≤ 256) (B0 : Int) (hB0 : 0 ≤ B0) (hb : ∀ r ∈ rows, ∀ w ∈ r, w ≤ B0)
    (hprod : ((n : Int) + 1) * B0 ≤ 4611686018427387904)
    (cfg : Cfg St K) (cache : Cache St) (store : DomStore St K) (polls : Nat)
    (hP : cfg.P = problem (tabOf n rows)) (hR : cfg.R = relaxation (tabOf n rows))
    (hrs : cfg.root.state = initSt (tabOf n rows)) (hrv : cfg.root.value = 0) (hrd : cfg.root.depth = 0)
    (hrel : cfg.ctype = .relaxed) (hcache : cfg.useCache = false) (hdom : cfg.dom = none) (hW : 1 ≤ cfg.width)
    (hlb : InI cfg.lb)
    (t : Int) (ht : Sop.spec n (dfun (tabOf n rows)) = t) (hfeas : t ≠ -1) (hgt : -t > cfg.lb)
    (hO : -t ≤ iMax ∨ cfg.lb < iMax) :
    (compile cfg cache store polls none).1 = .ok →
    ∃ bv, (compile cfg cache store polls none).2.1.bestValue = some bv ∧ -t ≤ bv := by
  have hn1 : 1 ≤ n := by
    simp only [inDomain, Bool.and_eq_true, decide_eq_true_eq] at hD
    exact hD.1.1.1
  have hB0' : B0 ≤ 4611686018427387904 := by
    have h2 : (2 : Int) ≤ (n : Int) + 1 := by omega
    have := Int.mul_le_mul_of_nonneg_right h2 hB0
    omega
  have hbi : ∀ r ∈ rows, ∀ w ∈ r, w ≤ imax := fun r hr w hw => by
    have := hb r hr w hw
    simp only [imax]
    omega
  have hT := tabOk_tabOf hD hn hbi
  have hDo := domOk_tabOf hD
  obtain ⟨hlen, hrow, _⟩ := inDomain_entries hD
  have hsmall : ∀ i j, i < (tabOf n rows).n → j < (tabOf n rows).n → dfun (tabOf n rows) i j ≤ B0 := by
    intro i j hi hj
    obtain ⟨r, hr, hw⟩ := dfun_mem_rows hlen hrow hi hj
    exact hb r hr _ hw
  have hnv : ((nv (tabOf n rows) : Nat) : Int) + 2 = (n : Int) + 1 := by
    show (((n - 1 : Nat) : Int)) + 2 = (n : Int) + 1
    omega
  have hroot : bestRem (tabOf n rows) (initSt (tabOf n rows)) = some (-t) := by
    have h := root_exact n rows hD hn (fun r hr w hw => by
      have := hbi r hr w hw
      simp only [imax, imin] at *
      omega)
    rw [ht] at h
    cases hbr : bestRem (tabOf n rows) (initSt (tabOf n rows)) with
    | none => rw [hbr] at h; exact absurd h hfeas
    | some v =>
      rw [hbr] at h
      have : t = -v := by simpa using h
      rw [this]; simp
  exact sop_relaxed_ub_of hT hDo (fun _ _ _ hs hl hc hr => rub_conc hT hDo hs hl hc hr) cfg B0 cache store polls hP hR hrs
    hrv hrd hrel hcache hdom hW hB0 hsmall (by rw [hnv]; exact hprod) hlb (-t) hroot hgt hO

#print axioms mergeOk
#print axioms mergeOk_tabOf
#print axioms mergeOk_false_degenerate
#print axioms rubFixedAdmissible
#print axioms rubAdmissible
#print axioms rubAdmissibleExact
#print axioms rb_cex_refutes
#print axioms dpExact_partial
#print axioms dpExact_false_unbounded
#print axioms root_exact
#print axioms tabOk_tabOf
#print axioms domOk_tabOf
#print axioms wfRelV
#print axioms noClamp
#print axioms sop_relaxed_ub

end Ddo.Examples.SopModel
