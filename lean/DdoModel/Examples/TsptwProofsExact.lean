import DdoModel.Examples.TsptwProofsStar
/-! Exactness of the Lean model of the shipped tsptw example on the states reached exactly:
    * `bestRemL_eq_on_exact_partial`: the legitimate value-to-go is the value-to-go (every completion of a state reached exactly
      visits every mandatory city);
    * `dp_exact_partial`: value of a prefix + value-to-go = the specification (`Tsptw.finish` over `Tsptw.perms`) among the
      tours that extend the prefix;
    * `spec_eq_specBestExt_proved`: with no decision at all the specification among the extensions is `Tsptw.spec`. -/
namespace Ddo.Examples.TsptwModel
open Ddo Ddo.Examples

-- ------------------------------------------------------------------------------------------------------------------
-- the value-to-go, one step

theorem brG_succ (T : Tab) (term : St → EInt) (fuel : Nat) (s : St) (h : s.depth < T.n) :
    brG T term (fuel + 1) s = (domain T s).foldl (fun acc v => EInt.max acc
      ((brG T term fuel (trans T s ⟨s.depth, v⟩)).addI (cost T s ⟨s.depth, v⟩))) none := by
  simp only [brG]
  rw [if_neg (by omega)]

theorem brG_ge (T : Tab) (term : St → EInt) (fuel : Nat) (s : St) (h : s.depth < T.n) {v : Int} (hv : v ∈ domain T s) :
    (brG T term fuel (trans T s ⟨s.depth, v⟩)).addI (cost T s ⟨s.depth, v⟩) ≤ brG T term (fuel + 1) s := by
  rw [brG_succ T term fuel s h]
  exact (foldl_max_spec (fun v => (brG T term fuel (trans T s ⟨s.depth, v⟩)).addI (cost T s ⟨s.depth, v⟩))
    (domain T s) none).2.1 v hv

theorem brG_att (T : Tab) (term : St → EInt) (fuel : Nat) (s : St) (h : s.depth < T.n) {g : Int}
    (hg : brG T term (fuel + 1) s = some g) :
    ∃ v ∈ domain T s, (brG T term fuel (trans T s ⟨s.depth, v⟩)).addI (cost T s ⟨s.depth, v⟩) = some g := by
  rw [brG_succ T term fuel s h] at hg
  rcases (foldl_max_spec (fun v => (brG T term fuel (trans T s ⟨s.depth, v⟩)).addI (cost T s ⟨s.depth, v⟩))
    (domain T s) none).2.2 with h3 | ⟨v, hv, h3⟩
  · rw [h3] at hg; cases hg
  · exact ⟨v, hv, by rw [← h3]; exact hg⟩

-- ------------------------------------------------------------------------------------------------------------------
-- the states of the shape of the states reached exactly

/-- a valid state at the single position `i`, with no optional city, that still has to visit `n - depth - 1` cities (then the
    depot) -/
structure Core (T : Tab) (s : St) (i : Nat) : Prop where
  valid : Valid T s
  maybe : s.maybe = none
  pos : s.pos = .node i
  count : s.must.length + s.depth + 1 = T.n

theorem minD_node {T : Tab} {s : St} {i : Nat} (h : s.pos = .node i) (j : Nat) : minD T s j = distOf T.d i j := by
  simp [minD, h, posSet, minNat]

theorem Core.mb {T : Tab} {s : St} {i : Nat} (h : Core T s i) : mb s = [] := by simp [TsptwModel.mb, h.maybe]

theorem Core.lt {T : Tab} {s : St} {i : Nat} (h : Core T s i) : i < T.n :=
  h.valid.pos_lt i (by simp [h.pos, posSet])

theorem core_of_exact {T : Tab} {k : Nat} {s : St} {v : Int} (h : Exact T k s v) (hk : k < T.n) : ∃ i, Core T s i := by
  obtain ⟨i, hi⟩ := h.node
  refine ⟨i, h.valid, h.maybe, hi, ?_⟩
  have := h.count hk
  rw [h.depth]; exact this

/-- a city of the domain of a core state: the depot when nothing is left, a mandatory city otherwise -/
theorem Core.inDom {T : Tab} {s : St} {i : Nat} (h : Core T s i) {j : Nat} (hj : InDom T s j) :
    (s.must = [] ∧ j = 0) ∨ (s.must ≠ [] ∧ j ∈ s.must) := by
  have hc := h.count
  rcases hj.2 with ⟨h1, h2⟩ | ⟨h1, _, h3 | h3⟩
  · left
    refine ⟨List.eq_nil_of_length_eq_zero (by omega), h2⟩
  · right; exact ⟨List.ne_nil_of_mem h3, h3⟩
  · rw [h.mb] at h3; cases h3

/-- one step from a core state -/
theorem core_step {T : Tab} (hT : TabOk T) {s : St} {i : Nat} (h : Core T s i) {j : Nat} (hj : InDom T s j) (x : Nat) :
    ∃ el, trans T s ⟨x, (j : Int)⟩ = succSt s j el ∧
      el.earliest = max (s.el.earliest + distOf T.d i j) (eN T j) ∧
      cost T s ⟨x, (j : Int)⟩ = (s.el.earliest : Int) - (el.earliest : Int) ∧
      Valid T (succSt s j el) ∧ (j ∈ s.must → Core T (succSt s j el) j) := by
  have hV := h.valid
  have hc := h.count
  have hd : s.depth < T.n := by omega
  have hjn := hj.lt hV hT.n_pos
  obtain ⟨el, ht, he, he1, he2⟩ := trans_eq hT hV hjn hj.1 x
  rw [minD_node h.pos] at he
  have hV' := valid_succ hT hV hd hj he1 he2
  refine ⟨el, ht, he, ?_, hV', ?_⟩
  · rw [cost_eq hT hV hjn, minD_node h.pos, he]
  · intro hjm
    refine ⟨hV', ?_, rfl, ?_⟩
    · show s.maybe.map _ = none; rw [h.maybe]; rfl
    · show (s.must.erase j).length + (s.depth + 1) + 1 = T.n
      rw [List.length_erase_of_mem hjm]
      have : 0 < s.must.length := List.length_pos_of_mem hjm
      omega

-- ------------------------------------------------------------------------------------------------------------------
-- 1. the legitimate value-to-go of a state reached exactly

theorem brG_termL_eq_core {T : Tab} (hT : TabOk T) : ∀ fuel s i, Core T s i → fuel = s.must.length + 1 →
    brG T termL fuel s = brG T termAny fuel s := by
  intro fuel
  induction fuel with
  | zero => intro s i _ hf; omega
  | succ n ih =>
    intro s i h hf
    have hc := h.count
    have hd : s.depth < T.n := by omega
    rw [brG_succ T termL n s hd, brG_succ T termAny n s hd]
    apply foldl_max_congr
    intro v hv
    obtain ⟨j, rfl, hj⟩ := (mem_domain_iff hT h.valid v).mp hv
    obtain ⟨el, ht, _, _, _, hcore⟩ := core_step hT h hj s.depth
    rw [ht]
    rcases h.inDom hj with ⟨hm, _⟩ | ⟨_, hjm⟩
    · have hn : n = 0 := by rw [hm] at hf; simpa using hf
      subst hn
      simp [brG, termL, termAny, succSt, hm]
    · rw [ih _ j (hcore hjm)]
      show n = (s.must.erase j).length + 1
      rw [List.length_erase_of_mem hjm]
      have : 0 < s.must.length := List.length_pos_of_mem hjm
      omega

/-- the mandatory cities of a state reached on the last layer have all been visited -/
theorem reach_last_must {T : Tab} (hT : TabOk T) {k : Nat} {s : St} {v : Int} {p : List Dec}
    (h : Reach (problem T) k s v p) (hk : k = T.n) : s.must = [] := by
  cases h with
  | root => have := hT.n_pos; omega
  | step k s v p L x d hr hx _ hd =>
    obtain ⟨hk', _⟩ := nextVar_some hx
    have hE := reach_exact hT hr
    obtain ⟨i, hC⟩ := core_of_exact hE (by omega)
    obtain ⟨j, rfl, hj⟩ := (mem_domain_iff hT hE.valid d).mp hd
    obtain ⟨el, ht, _⟩ := core_step hT hC hj x
    have hc := hC.count
    have hm : s.must = [] := List.eq_nil_of_length_eq_zero (by rw [hE.depth] at hc; omega)
    show (trans T s ⟨x, (j : Int)⟩).must = []
    rw [ht]
    simp [succSt, hm]

theorem bestRemL_eq_on_exact_partial {T : Tab} (hT : TabOk T) : bestRemL_eq_on_exact T := by
  intro _ k s v p hr
  have hE := reach_exact hT hr
  unfold bestRemL bestRem
  rw [bestRemLF_eq, bestRemF_eq]
  by_cases hk : k < T.n
  · obtain ⟨i, hC⟩ := core_of_exact hE hk
    apply brG_termL_eq_core hT _ s i hC
    have := hC.count
    omega
  · have hkn : k = T.n := by have := hE.valid.depth_le; have := hE.depth; omega
    have hm := reach_last_must hT hr hkn
    have : T.n - s.depth = 0 := by rw [hE.depth]; omega
    rw [this]
    simp [brG, termL, termAny, hm]

-- ------------------------------------------------------------------------------------------------------------------
-- 2. the specification: permutations, minimum, finish

theorem perm_of_mem_inserts (x : Nat) : ∀ (l q : List Nat), q ∈ Tsptw.inserts x l → q.Perm (x :: l) := by
  intro l
  induction l with
  | nil => intro q hq; simp [Tsptw.inserts] at hq; subst hq; exact List.Perm.refl _
  | cons y ys ih =>
    intro q hq
    simp only [Tsptw.inserts, List.mem_cons, List.mem_map] at hq
    rcases hq with rfl | ⟨q', hq', rfl⟩
    · exact List.Perm.refl _
    · exact ((ih q' hq').cons y).trans (List.Perm.swap x y ys)

theorem mem_inserts_append (x : Nat) : ∀ (a b : List Nat), a ++ x :: b ∈ Tsptw.inserts x (a ++ b) := by
  intro a
  induction a with
  | nil => intro b; cases b <;> simp [Tsptw.inserts]
  | cons y ys ih =>
    intro b
    simp only [List.cons_append, Tsptw.inserts, List.mem_cons, List.mem_map]
    right
    exact ⟨_, ih b, rfl⟩

theorem mem_perms : ∀ (l q : List Nat), q ∈ Tsptw.perms l ↔ q.Perm l := by
  intro l
  induction l with
  | nil => intro q; simp [Tsptw.perms]
  | cons x xs ih =>
    intro q
    simp only [Tsptw.perms, List.mem_flatMap]
    constructor
    · rintro ⟨r, hr, hq⟩
      exact (perm_of_mem_inserts x r q hq).trans (((ih r).mp hr).cons x)
    · intro hq
      have hx : x ∈ q := hq.mem_iff.mpr List.mem_cons_self
      obtain ⟨a, b, rfl⟩ := List.append_of_mem hx
      have : (a ++ b).Perm xs := (List.perm_middle.symm.trans hq).cons_inv
      exact ⟨a ++ b, (ih _).mpr this, mem_inserts_append x a b⟩

theorem foldl_minI_le : ∀ (l : List Int) (a : Int),
    l.foldl min a ≤ a ∧ (∀ i ∈ l, l.foldl min a ≤ i) ∧ (l.foldl min a = a ∨ l.foldl min a ∈ l) := by
  intro l
  induction l with
  | nil => intro a; simp
  | cons x t ih =>
    intro a
    obtain ⟨h1, h2, h3⟩ := ih (min a x)
    simp only [List.foldl_cons, List.mem_cons, forall_eq_or_imp]
    refine ⟨by omega, ⟨by omega, h2⟩, ?_⟩
    rcases h3 with h3 | h3
    · rw [h3]
      rcases Int.le_total a x with h | h
      · left; omega
      · right; left; omega
    · right; right; exact h3

theorem minimum_spec : ∀ l : List Int, l ≠ [] → ∃ m, Tsptw.minimum l = some m ∧ m ∈ l ∧ ∀ x ∈ l, m ≤ x := by
  intro l hl
  cases l with
  | nil => exact absurd rfl hl
  | cons a t =>
    obtain ⟨h1, h2, h3⟩ := foldl_minI_le t a
    refine ⟨_, rfl, ?_, ?_⟩
    · rcases h3 with h3 | h3
      · rw [h3]; exact List.mem_cons_self
      · exact List.mem_cons_of_mem _ h3
    · intro x hx
      rcases List.mem_cons.mp hx with rfl | hx
      · exact h1
      · exact h2 x hx

/-- the minimum is characterised by membership -/
theorem minimum_eq_some {l : List Int} {m : Int} (h1 : m ∈ l) (h2 : ∀ x ∈ l, m ≤ x) : Tsptw.minimum l = some m := by
  obtain ⟨m', e, k1, k2⟩ := minimum_spec l (List.ne_nil_of_mem h1)
  have := h2 m' k1
  have := k2 m h1
  rw [e]; congr 1; omega

abbrev fin (T : Tab) : Nat → Int → List Nat → Option Int := Tsptw.finish (dI T) (eI T) (lI T)

theorem fin_nil (T : Tab) (i : Nat) (t : Int) : fin T i t [] = some t := rfl
theorem fin_cons (T : Tab) (i : Nat) (t : Int) (j : Nat) (r : List Nat) :
    fin T i t (j :: r) = if t + dI T i j ≤ lI T j then fin T j (max (t + dI T i j) (eI T j)) r else none := rfl

/-- the triangle inequality of the tables of the domain -/
theorem tri_of_inDomain {T : Tab} (hD : inDomain T = true) {i j k : Nat} (hi : i < T.n) (hj : j < T.n) (hk : k < T.n) :
    distOf T.d i j ≤ distOf T.d i k + distOf T.d k j := by
  simp only [inDomain, Bool.and_eq_true, List.all_eq_true, decide_eq_true_eq, List.mem_range] at hD
  exact hD.1.2 i hi j hj k hk

/-- **pruning is sound**: a city that is visited by a feasible route can be reached directly in time -/
theorem fin_direct {T : Tab} (hD : inDomain T = true) : ∀ (r : List Nat) (i : Nat) (t e : Int), i < T.n →
    (∀ x ∈ r, x < T.n) → fin T i t r = some e → ∀ j ∈ r, t + dI T i j ≤ lI T j := by
  intro r
  induction r with
  | nil => intro i t e _ _ _ j hj; cases hj
  | cons a r ih =>
    intro i t e hi hr hf j hj
    rw [fin_cons] at hf
    by_cases hc : t + dI T i a ≤ lI T a
    · rw [if_pos hc] at hf
      rcases List.mem_cons.mp hj with rfl | hj'
      · exact hc
      · have ha : a < T.n := hr a List.mem_cons_self
        have hjn : j < T.n := hr j hj
        have := ih a _ e ha (fun x hx => hr x (List.mem_cons_of_mem _ hx)) hf j hj'
        have htri := tri_of_inDomain hD hi hjn ha
        simp only [dI] at this hc ⊢
        omega
    · rw [if_neg hc] at hf; cases hf

-- ------------------------------------------------------------------------------------------------------------------
-- the core: the value-to-go of a core state is the best feasible order of its mandatory cities

theorem lI_eq (T : Tab) (j : Nat) : lI T j = ((lN T j : Nat) : Int) := rfl
theorem eI_eq (T : Tab) (j : Nat) : eI T j = ((eN T j : Nat) : Int) := rfl

theorem reach_iff_core {T : Tab} {s : St} {i : Nat} (h : s.pos = .node i) (j : Nat) :
    reach T s j = true ↔ (s.el.earliest : Int) + dI T i j ≤ lI T j := by
  simp only [reach, minD_node h, dI, lI_eq, decide_eq_true_eq]
  omega

theorem arr_cast {T : Tab} {t i j : Nat} {el : El} (he : el.earliest = max (t + distOf T.d i j) (eN T j)) :
    ((el.earliest : Nat) : Int) = max ((t : Int) + dI T i j) (eI T j) := by
  rw [he]
  simp only [dI, eI_eq]
  omega

/-- every feasible order of the mandatory cities is a completion of the model: the value-to-go is at least its value -/
theorem core_ge {T : Tab} (hT : TabOk T) (hD : inDomain T = true) : ∀ (q : List Nat) (s : St) (i : Nat), Core T s i →
    q.Perm s.must → ∀ e : Int, fin T i (s.el.earliest : Int) (q ++ [0]) = some e →
    (some ((s.el.earliest : Int) - e) : EInt) ≤ brG T termAny (q.length + 1) s := by
  intro q
  induction q with
  | nil =>
    intro s i h hq e hf
    have hm : s.must = [] := hq.nil_eq.symm
    have hc := h.count
    rw [hm] at hc
    have hd : s.depth < T.n := by simp at hc; omega
    rw [List.nil_append, fin_cons] at hf
    by_cases hr : (s.el.earliest : Int) + dI T i 0 ≤ lI T 0
    · rw [if_pos hr, fin_nil] at hf
      have hj : InDom T s 0 := ⟨(reach_iff_core h.pos 0).mpr hr, Or.inl ⟨by simp at hc; omega, rfl⟩⟩
      obtain ⟨el, ht, he, hcost, _, _⟩ := core_step hT h hj s.depth
      have hge := brG_ge T termAny 0 s hd ((mem_domain_iff hT h.valid _).mpr ⟨0, rfl, hj⟩)
      refine EInt.le_trans ?_ hge
      rw [ht, hcost]
      have := arr_cast he
      simp only [brG, termAny, EInt.addI, Option.map_some, EInt.some_le_some]
      cases hf
      omega
    · rw [if_neg hr] at hf; cases hf
  | cons j q ih =>
    intro s i h hq e hf
    have hjm : j ∈ s.must := hq.mem_iff.mp List.mem_cons_self
    have hc := h.count
    have hlen : 0 < s.must.length := List.length_pos_of_mem hjm
    have hd : s.depth < T.n := by omega
    have hrng : ∀ x ∈ (j :: q) ++ [0], x < T.n := by
      intro x hx
      rcases List.mem_append.mp hx with hx | hx
      · exact (h.valid.must_rng x (hq.mem_iff.mp hx)).2
      · have : x = 0 := by simpa using hx
        have := hT.n_pos
        omega
    have hdir := fin_direct hD _ i _ e h.lt hrng hf
    have hj : InDom T s j := by
      refine ⟨(reach_iff_core h.pos j).mpr (hdir j (by simp)), Or.inr ⟨by omega, ?_, Or.inl hjm⟩⟩
      intro x hx
      exact (reach_iff_core h.pos x).mpr (hdir x (List.mem_append_left _ (hq.mem_iff.mpr hx)))
    obtain ⟨el, ht, he, hcost, _, hcore⟩ := core_step hT h hj s.depth
    rw [List.cons_append, fin_cons, if_pos (hdir j (by simp)), ← arr_cast he] at hf
    have hq' : q.Perm (s.must.erase j) := by
      have := hq.erase j
      rwa [List.erase_cons_head] at this
    have h1 := ih (succSt s j el) j (hcore hjm) hq' e hf
    have hge := brG_ge T termAny (q.length + 1) s hd ((mem_domain_iff hT h.valid _).mpr ⟨j, rfl, hj⟩)
    refine EInt.le_trans ?_ hge
    rw [ht, hcost]
    refine EInt.le_trans ?_ (EInt.addI_mono h1 _)
    have : ((succSt s j el).el.earliest : Int) = (el.earliest : Int) := rfl
    simp only [EInt.addI, Option.map_some, EInt.some_le_some, this]
    omega

/-- every completion of the model is a feasible order of the mandatory cities -/
theorem core_att {T : Tab} (hT : TabOk T) : ∀ (fuel : Nat) (s : St) (i : Nat), Core T s i → fuel = s.must.length →
    ∀ g : Int, brG T termAny (fuel + 1) s = some g →
    ∃ q : List Nat, q.Perm s.must ∧ fin T i (s.el.earliest : Int) (q ++ [0]) = some ((s.el.earliest : Int) - g) := by
  intro fuel
  induction fuel with
  | zero =>
    intro s i h hf g hg
    have hc := h.count
    have hd : s.depth < T.n := by omega
    obtain ⟨v, hv, hval⟩ := brG_att T termAny 0 s hd hg
    obtain ⟨j, rfl, hj⟩ := (mem_domain_iff hT h.valid v).mp hv
    obtain ⟨el, ht, he, hcost, _, _⟩ := core_step hT h hj s.depth
    rcases h.inDom hj with ⟨hm, rfl⟩ | ⟨hm, _⟩
    · refine ⟨[], by rw [hm], ?_⟩
      rw [List.nil_append, fin_cons, if_pos ((reach_iff_core h.pos 0).mp hj.1), fin_nil, ← arr_cast he]
      rw [ht, hcost] at hval
      simp only [brG, termAny, EInt.addI, Option.map_some, Option.some.injEq] at hval
      congr 1; omega
    · exact absurd (List.eq_nil_of_length_eq_zero hf.symm) hm
  | succ n ih =>
    intro s i h hf g hg
    have hc := h.count
    have hd : s.depth < T.n := by omega
    obtain ⟨v, hv, hval⟩ := brG_att T termAny (n + 1) s hd hg
    obtain ⟨j, rfl, hj⟩ := (mem_domain_iff hT h.valid v).mp hv
    obtain ⟨el, ht, he, hcost, _, hcore⟩ := core_step hT h hj s.depth
    rcases h.inDom hj with ⟨hm, _⟩ | ⟨_, hjm⟩
    · rw [hm] at hf; simp at hf
    · rw [ht, hcost] at hval
      cases hg' : brG T termAny (n + 1) (succSt s j el) with
      | none => rw [hg'] at hval; simp [EInt.addI] at hval
      | some g' =>
        rw [hg'] at hval
        simp only [EInt.addI, Option.map_some, Option.some.injEq] at hval
        have hlen : n = (s.must.erase j).length := by
          rw [List.length_erase_of_mem hjm]; omega
        obtain ⟨q, hq, hfq⟩ := ih (succSt s j el) j (hcore hjm) hlen g' hg'
        refine ⟨j :: q, (hq.cons j).trans (List.perm_cons_erase hjm).symm, ?_⟩
        rw [List.cons_append, fin_cons, if_pos ((reach_iff_core h.pos j).mp hj.1), ← arr_cast he]
        have : ((succSt s j el).el.earliest : Int) = (el.earliest : Int) := rfl
        rw [this] at hfq
        rw [hfq]
        congr 1; omega

-- ------------------------------------------------------------------------------------------------------------------
-- the prefix: what the decisions taken so far say about the state reached

/-- the cities of a list of decisions -/
def preOf (p : List Dec) : List Nat := (p.map (·.val)).map Int.toNat
/-- the cities `1 … n-1` that are not in `pre` -/
def restOf (T : Tab) (pre : List Nat) : List Nat := ((List.range T.n).drop 1).filter (fun c => !pre.contains c)

theorem specBestExt_eq (T : Tab) (decs : List Int) : specBestExt T decs =
    if (decs.map Int.toNat).length ≥ T.n then (fin T 0 0 (decs.map Int.toNat)).map (fun t => -t)
    else (Tsptw.minimum (((Tsptw.perms (restOf T (decs.map Int.toNat))).map
      (fun q => decs.map Int.toNat ++ q ++ [0])).filterMap (fin T 0 0))).map (fun t => -t) := rfl

/-- the state reached by the decisions `p`: the cities left are those not in `p`, and the clock of the specification after
    the cities of `p` is at the position and the (earliest) time of the state -/
structure Pre (T : Tab) (k : Nat) (s : St) (p : List Dec) : Prop where
  len : p.length = k
  must : s.must = restOf T (preOf p)
  clock : ∀ i, s.pos = .node i → ∀ r, fin T 0 0 (preOf p ++ r) = fin T i (s.el.earliest : Int) r

theorem preOf_snoc (p : List Dec) (x j : Nat) : preOf (p ++ [⟨x, (j : Int)⟩]) = preOf p ++ [j] := by
  simp [preOf]

theorem restOf_snoc (T : Tab) (pre : List Nat) (j : Nat) :
    restOf T (pre ++ [j]) = (restOf T pre).filter (· != j) := by
  unfold restOf
  rw [List.filter_filter]
  apply List.filter_congr
  intro c _
  rw [List.contains_append]
  have : [j].contains c = (c == j) := by rw [List.contains_cons, List.contains_nil, Bool.or_false]
  rw [this]
  cases pre.contains c <;> cases h : c == j <;> simp [bne, h]

theorem reach_pre {T : Tab} (hT : TabOk T) {k : Nat} {s : St} {v : Int} {p : List Dec} (h : Reach (problem T) k s v p) :
    Pre T k s p := by
  induction h with
  | root =>
    refine ⟨rfl, ?_, ?_⟩
    · show (List.range T.n).drop 1 = ((List.range T.n).drop 1).filter (fun c => !([] : List Nat).contains c)
      exact (List.filter_eq_self.mpr (fun _ _ => by simp)).symm
    · intro i hi r
      have : i = 0 := by
        have hi : Pos.node 0 = Pos.node i := hi
        cases hi; rfl
      subst this
      rfl
  | step k s v p L x d hr hx _ hd ih =>
    obtain ⟨hk, _⟩ := nextVar_some hx
    have hE := reach_exact hT hr
    have hkn : k < T.n := by have := hE.valid.depth_le; have := hE.depth; omega
    obtain ⟨i, hC⟩ := core_of_exact hE hkn
    obtain ⟨j, rfl, hj⟩ := (mem_domain_iff hT hE.valid d).mp hd
    obtain ⟨el, ht, he, _, _, _⟩ := core_step hT hC hj x
    show Pre T (k + 1) (trans T s ⟨x, (j : Int)⟩) (p ++ [⟨x, (j : Int)⟩])
    rw [ht]
    refine ⟨by simp [ih.len], ?_, ?_⟩
    · show s.must.erase j = _
      rw [preOf_snoc, restOf_snoc, ← ih.must, hC.valid.must_nd.erase_eq_filter]
    · intro i' hi' r
      have : i' = j := by
        have hi' : Pos.node j = Pos.node i' := hi'
        cases hi'; rfl
      subst this
      rw [preOf_snoc, List.append_assoc, List.singleton_append, ih.clock i hC.pos, fin_cons,
        if_pos ((reach_iff_core hC.pos _).mp hj.1), ← arr_cast he]
      rfl

-- ------------------------------------------------------------------------------------------------------------------
-- 2. DP exactness

theorem dp_exact_partial {T : Tab} (hT : TabOk T) : dp_exact T := by
  intro hD k s v p hr
  have hE := reach_exact hT hr
  have hP := reach_pre hT hr
  rw [specBestExt_eq]
  have hlen : ((p.map (·.val)).map Int.toNat).length = k := by simp [hP.len]
  rw [hlen]
  by_cases hk : k < T.n
  · rw [if_neg (by omega)]
    obtain ⟨i, hC⟩ := core_of_exact hE hk
    have hc := hC.count
    have hmem : ∀ x : Int, x ∈ ((Tsptw.perms (restOf T ((p.map (·.val)).map Int.toNat))).map
        (fun q => (p.map (·.val)).map Int.toNat ++ q ++ [0])).filterMap (fin T 0 0) ↔
        ∃ q : List Nat, q.Perm s.must ∧ fin T i (s.el.earliest : Int) (q ++ [0]) = some x := by
      intro x
      simp only [List.mem_filterMap, List.mem_map]
      constructor
      · rintro ⟨a, ⟨q, hq, rfl⟩, hx⟩
        refine ⟨q, ?_, ?_⟩
        · rw [hP.must]; exact (mem_perms _ _).mp hq
        · rw [List.append_assoc] at hx
          rw [← hP.clock i hC.pos]; exact hx
      · rintro ⟨q, hq, hx⟩
        refine ⟨_, ⟨q, (mem_perms _ _).mpr (by rw [hP.must] at hq; exact hq), rfl⟩, ?_⟩
        rw [List.append_assoc]
        rw [← hP.clock i hC.pos] at hx; exact hx
    have hbr : bestRem T s = brG T termAny (s.must.length + 1) s := by
      unfold bestRem
      rw [bestRemF_eq]
      congr 1; omega
    rw [hbr]
    cases hb : brG T termAny (s.must.length + 1) s with
    | none =>
      have hnil : ((Tsptw.perms (restOf T ((p.map (·.val)).map Int.toNat))).map
          (fun q => (p.map (·.val)).map Int.toNat ++ q ++ [0])).filterMap (fin T 0 0) = [] := by
        apply List.eq_nil_iff_forall_not_mem.mpr
        intro x hx
        obtain ⟨q, hq, hf⟩ := (hmem x).mp hx
        have := core_ge hT hD q s i hC hq x hf
        rw [hq.length_eq, hb] at this
        exact this
      rw [hnil]
      rfl
    | some g =>
      obtain ⟨q, hq, hf⟩ := core_att hT _ s i hC rfl g hb
      have hmin := minimum_eq_some ((hmem _).mpr ⟨q, hq, hf⟩) (by
        intro x hx
        obtain ⟨q', hq', hf'⟩ := (hmem x).mp hx
        have := core_ge hT hD q' s i hC hq' x hf'
        rw [hq'.length_eq, hb] at this
        have : (s.el.earliest : Int) - x ≤ g := this
        omega)
      rw [hmin, hE.value]
      simp only [EInt.addI, Option.map_some]
      congr 1; omega
  · have hkn : k = T.n := by have := hE.valid.depth_le; have := hE.depth; omega
    rw [if_pos (by omega), bestRem_last T s (by rw [hE.depth]; omega)]
    obtain ⟨i, hi⟩ := hE.node
    have := hP.clock i hi []
    rw [List.append_nil, fin_nil] at this
    have e : fin T 0 0 ((p.map (·.val)).map Int.toNat) = some (s.el.earliest : Int) := this
    rw [e, hE.value]
    simp [EInt.addI]

-- ------------------------------------------------------------------------------------------------------------------
-- 3. with no decision at all

theorem spec_eq_specBestExt_proved (T : Tab) : spec_eq_specBestExt T := by
  intro hn
  rw [specBestExt_eq]
  have h0 : ¬ (([] : List Int).map Int.toNat).length ≥ T.n := by simp; omega
  rw [if_neg h0]
  have hr : restOf T (([] : List Int).map Int.toNat) = (List.range T.n).drop 1 := by simp [restOf]
  rw [hr]
  unfold Tsptw.spec
  simp only [List.map_nil, List.nil_append, Option.map_map]
  congr 1
  cases Tsptw.minimum _ <;> simp

/-- corollary: the value-to-go of the root of the model is the specification (`-1` = no feasible tour) -/
theorem spec_eq_bestRem_root {T : Tab} (hT : TabOk T) (hD : inDomain T = true) :
    Tsptw.spec T.n (dI T) (eI T) (lI T) = ((bestRem T (initSt T)).map (fun v => -v)).getD (-1) := by
  rw [spec_eq_specBestExt_proved T hT.n_pos]
  have h := dp_exact_partial hT hD 0 (initSt T) 0 [] Reach.root
  have e : (bestRem T (initSt T)).addI 0 = bestRem T (initSt T) := by
    cases bestRem T (initSt T) <;> simp [EInt.addI]
  rw [e] at h
  rw [h]
  rfl

#print axioms bestRemL_eq_on_exact_partial
#print axioms dp_exact_partial
#print axioms spec_eq_specBestExt_proved
#print axioms spec_eq_bestRem_root

end Ddo.Examples.TsptwModel
