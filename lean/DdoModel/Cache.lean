import DdoModel.Basic
/-! Model of `SimpleCache` (`implementation/cache/simple.rs`) and of the default method
    `Cache::must_explore` (`abstraction/cache.rs`).  One association list per depth
    (`thresholds_by_layer`), `none` results = the Rust code panics (index out of range). -/
namespace Ddo

structure Thr where
  value : Int
  explored : Bool
deriving DecidableEq, Repr

/-- derived `Ord` on `Threshold {value, explored}`: lexicographic, `false < true` -/
def Thr.le (a b : Thr) : Prop := a.value < b.value ∨ (a.value = b.value ∧ (a.explored = true → b.explored = true))
instance : DecidableRel Thr.le := fun a b => by unfold Thr.le; exact inferInstance

/-- `Ord::max(self, other)`: `other` unless `self > other` -/
def Thr.join (a b : Thr) : Thr := if Thr.le a b then b else a

abbrev CLayer (S : Type) := List (S × Thr)
structure Cache (S : Type) where
  layers : List (CLayer S)

variable {S : Type} [DecidableEq S]

/-- `Default::default()` followed by `initialize(problem)`: `nb_variables + 1` empty layers -/
def Cache.init (nbVars : Nat) : Cache S := ⟨List.replicate (nbVars + 1) []⟩

def CLayer.get (l : CLayer S) (s : S) : Option Thr :=
  match l with
  | [] => none
  | (s', t) :: r => if s' = s then some t else CLayer.get r s

/-- `entry(state).and_modify(|e| *e = new.max(*e)).or_insert(new)` -/
def CLayer.upd (l : CLayer S) (s : S) (t : Thr) : CLayer S :=
  match l with
  | [] => [(s, t)]
  | (s', e) :: r => if s' = s then (s', Thr.join t e) :: r else (s', e) :: CLayer.upd r s t

def Cache.get (c : Cache S) (s : S) (d : Nat) : Option (Option Thr) :=
  match c.layers[d]? with
  | none => none
  | some l => some (l.get s)

def Cache.update (c : Cache S) (s : S) (d : Nat) (t : Thr) : Option (Cache S) :=
  match c.layers[d]? with
  | none => none
  | some l => some ⟨c.layers.set d (l.upd s t)⟩

def Cache.clearLayer (c : Cache S) (d : Nat) : Option (Cache S) :=
  match c.layers[d]? with
  | none => none
  | some _ => some ⟨c.layers.set d []⟩

def Cache.clear (c : Cache S) : Cache S := ⟨c.layers.map (fun _ => [])⟩

/-- `Cache::must_explore` -/
def mustExploreThr (t : Option Thr) (value : Int) : Bool :=
  match t with
  | none => true
  | some t => decide (value > t.value) || (decide (value = t.value) && !t.explored)

def Cache.mustExplore (c : Cache S) (s : S) (d : Nat) (value : Int) : Option Bool :=
  (c.get s d).map (fun t => mustExploreThr t value)

/-- operations of the public trait, as the harness issues them -/
inductive COp (S : Type)
  | get (s : S) (d : Nat)
  | update (s : S) (d : Nat) (t : Thr)
  | mustExplore (s : S) (d : Nat) (v : Int)
  | clearLayer (d : Nat)
  | clear
deriving Repr

inductive COut
  | unit | thr (t : Option Thr) | bool (b : Bool) | panic
deriving Repr, DecidableEq

/-- one step; a panicking call leaves the cache unchanged (the harness catches the unwind) -/
def Cache.step (c : Cache S) : COp S → Cache S × COut
  | .get s d => match c.get s d with | none => (c, .panic) | some t => (c, .thr t)
  | .update s d t => match c.update s d t with | none => (c, .panic) | some c' => (c', .unit)
  | .mustExplore s d v => match c.mustExplore s d v with | none => (c, .panic) | some b => (c, .bool b)
  | .clearLayer d => match c.clearLayer d with | none => (c, .panic) | some c' => (c', .unit)
  | .clear => (c.clear, .unit)

def Cache.run (c : Cache S) : List (COp S) → Cache S × List COut
  | [] => (c, [])
  | op :: ops =>
    let (c', o) := c.step op
    let (c'', os) := Cache.run c' ops
    (c'', o :: os)

end Ddo
