import DdoModel.Proofs.MddCover
/-! # C06 — a relaxed decision diagram is a valid upper bound

`Ddo.C06.relaxed_ub`: a relaxed compilation carried out in isolation (no cache, no dominance checker), any
width ≥ 1, any incumbent `lb`: if the optimum `o` of the sub-problem beats the incumbent, the diagram reports a
best value ≥ `o`.  The proof (`DdoModel/Proofs/MddCover.lean`) is the invariant `Ddo.Cover.Inv` of `buildLoop`.

Two hypotheses had to be added to the statement worked out on paper; both are necessary (counter-examples below).

* `hAM : AttMerge cfg.P cfg.R H`.  The implementation asks `next_variable` **before** it squashes the layer, so the
  merged node is branched on a variable selected for a list of states that does not contain the merged state, and
  `Potential.att` (which only speaks about states `s ∈ L` with `nextVar k L = some x`) says nothing about it.
  `AttMerge` is exactly the missing clause: `Potential.att` for `merge X`, `X ≠ []` a part of the layer `L`, and the
  variable chosen for `L`.  It follows from `Potential.att` when `nextVar` does not look at the states
  (`Ddo.Cover.attMerge_of_static`, corollary `relaxed_ub_static`).
  Counter-example without it (`Ddo.C06.CounterA.counter`, machine-checked below): `nextVar 2 L` answers variable 2 unless `99 ∈ L`,
  in which case it answers 5; the third layer `{10, 11}` is merged into state `99`, whose domain for variable 2 is
  empty; all costs are 0 and `H ≡ some 0`, every hypothesis of the original statement holds (`att` at depth 2 is only
  required for variable 2 on states ≠ 99 and for variable 5 on lists containing 99), `o = 0 > lb = -1`, yet the
  compilation ends with an empty terminal layer: `bestValue = none`.
* `hO : o ≤ iMax ∨ cfg.lb < iMax`.  The rough-upper-bound test is `saturating_add(rub, value) > lb`; with
  `lb = isize::MAX` it prunes every node, although `o = value + H` (an unbounded `Int` in the model) may exceed
  `isize::MAX`: the root is pruned, the next layer is empty and `bestValue = none`
  (`Ddo.C06.CounterB.counter`, machine-checked below).  `InI o` would do as well; the disjunction is weaker.

There is **one** proof: `relaxed_ub_rel_dom`, relative to a layer-validity predicate `V` (`WfRel`, `NoClampDom` in
`DdoModel/WfRel.lean`); `relaxed_ub_rel` (with `NoClamp`) and `relaxed_ub` (`V := fun _ _ => True`,
`Ddo.Cover.wfRel_of_global`) are corollaries.  The relativised form is instantiated for the shipped knapsack example in
`DdoModel/Examples/KnapsackModel.lean`.

No hypothesis relating `cfg.root.depth` and `cfg.P.nbVars` is needed: when the fuel `nbVars + 2` runs out the
outcome is `.crash`, which the premise `(compile …).1 = .ok` excludes. -/
namespace Ddo.C06
open Ddo Ddo.Cover

/-- **Relativised form**: well-formedness is only required on *valid* pairs (depth, state) (`WfRel`, in
    `DdoModel/WfRel.lean`), for a validity predicate `V` that holds at the root and is closed under expansion and
    merge.  This is the form that can be instantiated for models whose state embeds the depth (knapsack example:
    `DdoModel/Examples/KnapsackModel.lean`).  `relaxed_ub` below is the instance `V := fun _ _ => True`.
    `NoClampDom` is `NoClamp` with the cost bound restricted to the decisions of the domain. -/
theorem relaxed_ub_rel_dom {S K : Type} [DecidableEq S] [DecidableEq K]
    (cfg : Cfg S K) (H : Nat → S → EInt) (V : Nat → S → Prop) (B : Int)
    (cache : Cache S) (store : DomStore S K) (polls : Nat)
    (hrel : cfg.ctype = .relaxed) (hcache : cfg.useCache = false) (hdom : cfg.dom = none) (hW : 1 ≤ cfg.width)
    (hwf : WfRel cfg.P cfg.R H V) (hV : V cfg.root.depth cfg.root.state)
    (hB : NoClampDom cfg.P cfg.R cfg.root.value B) (hlb : InI cfg.lb)
    (o : Int) (ho : optOf H cfg.root = some o) (hgt : o > cfg.lb)
    (hO : o ≤ iMax ∨ cfg.lb < iMax) :
    (compile cfg cache store polls none).1 = .ok →
    ∃ bv, (compile cfg cache store polls none).2.1.bestValue = some bv ∧ o ≤ bv := by
  intro hok
  have hclamp : ∀ x, o ≤ x → clamp x > cfg.lb := by
    intro x hx
    unfold InI at hlb
    unfold clamp
    simp only [iMin, iMax] at *
    omega
  have hy : Hyp cfg H V B o := ⟨hrel, hcache, hdom, hW, hwf, hB, hclamp⟩
  obtain ⟨hbl, hbv⟩ := compile_ok cfg cache store polls hok
  obtain ⟨n, hn, hle⟩ := buildLoop_cover cfg H V B o hy (cfg.P.nbVars + 2) (initDD cfg cache store polls)
    (init_inv cfg H V B o cache store polls hV hB ho) (by simp [initDD]) hbl
  have hne : (buildLoop cfg none (cfg.P.nbVars + 2) (initDD cfg cache store polls)).1.next ≠ [] :=
    List.ne_nil_of_mem hn
  obtain ⟨bv, h1, h2⟩ := maxValue_ge _ n hn
  refine ⟨bv, ?_, by omega⟩
  rw [hbv]
  unfold Built.bestValue
  rw [terminals_finalize _ hne]
  exact h1

/-- the same with the stronger `NoClamp` (costs bounded for all decisions, not only those of the domain) -/
theorem relaxed_ub_rel {S K : Type} [DecidableEq S] [DecidableEq K]
    (cfg : Cfg S K) (H : Nat → S → EInt) (V : Nat → S → Prop) (B : Int)
    (cache : Cache S) (store : DomStore S K) (polls : Nat)
    (hrel : cfg.ctype = .relaxed) (hcache : cfg.useCache = false) (hdom : cfg.dom = none) (hW : 1 ≤ cfg.width)
    (hwf : WfRel cfg.P cfg.R H V) (hV : V cfg.root.depth cfg.root.state)
    (hB : NoClamp cfg.P cfg.R cfg.root.value B) (hlb : InI cfg.lb)
    (o : Int) (ho : optOf H cfg.root = some o) (hgt : o > cfg.lb)
    (hO : o ≤ iMax ∨ cfg.lb < iMax) :
    (compile cfg cache store polls none).1 = .ok →
    ∃ bv, (compile cfg cache store polls none).2.1.bestValue = some bv ∧ o ≤ bv :=
  relaxed_ub_rel_dom cfg H V B cache store polls hrel hcache hdom hW hwf hV hB.toDom hlb o ho hgt hO

theorem relaxed_ub {S K : Type} [DecidableEq S] [DecidableEq K]
    (cfg : Cfg S K) (H : Nat → S → EInt) (B : Int) (cache : Cache S) (store : DomStore S K) (polls : Nat)
    (hrel : cfg.ctype = .relaxed) (hcache : cfg.useCache = false) (hdom : cfg.dom = none) (hW : 1 ≤ cfg.width)
    (hP : Potential cfg.P H) (hR : RubOk cfg.R H) (hM : MergeOk cfg.R H)
    (hB : NoClamp cfg.P cfg.R cfg.root.value B) (hlb : InI cfg.lb)
    (o : Int) (ho : optOf H cfg.root = some o) (hgt : o > cfg.lb)
    -- added (see the header): the merged state can be branched on the variable chosen for the un-merged layer
    (hAM : AttMerge cfg.P cfg.R H)
    -- added (see the header): the rough-upper-bound test, computed with saturation, can see that `o` beats `lb`
    (hO : o ≤ iMax ∨ cfg.lb < iMax) :
    (compile cfg cache store polls none).1 = .ok →
    ∃ bv, (compile cfg cache store polls none).2.1.bestValue = some bv ∧ o ≤ bv :=
  relaxed_ub_rel cfg H (fun _ _ => True) B cache store polls hrel hcache hdom hW
    (wfRel_of_global hP hR hM hAM) trivial hB hlb o ho hgt hO

/-- the same for models whose variable ordering does not look at the states of the layer (beyond its emptiness):
    `AttMerge` then follows from `Potential.att` -/
theorem relaxed_ub_static {S K : Type} [DecidableEq S] [DecidableEq K]
    (cfg : Cfg S K) (H : Nat → S → EInt) (B : Int) (cache : Cache S) (store : DomStore S K) (polls : Nat)
    (hrel : cfg.ctype = .relaxed) (hcache : cfg.useCache = false) (hdom : cfg.dom = none) (hW : 1 ≤ cfg.width)
    (hP : Potential cfg.P H) (hR : RubOk cfg.R H) (hM : MergeOk cfg.R H)
    (hB : NoClamp cfg.P cfg.R cfg.root.value B) (hlb : InI cfg.lb)
    (o : Int) (ho : optOf H cfg.root = some o) (hgt : o > cfg.lb)
    (hstat : ∀ k L L', L ≠ [] → L' ≠ [] → cfg.P.nextVar k L = cfg.P.nextVar k L')
    (hO : o ≤ iMax ∨ cfg.lb < iMax) :
    (compile cfg cache store polls none).1 = .ok →
    ∃ bv, (compile cfg cache store polls none).2.1.bestValue = some bv ∧ o ≤ bv :=
  relaxed_ub cfg H B cache store polls hrel hcache hdom hW hP hR hM hB hlb o ho hgt
    (attMerge_of_static hP hstat) hO

/-! ## non-vacuity: a tiny model meeting every hypothesis, on which a merge actually happens -/
namespace Tiny

/-- three binary variables, state = number of ones, cost of a decision = its value -/
def prob : Problem Int :=
  { nbVars := 3, init := 0, initVal := 0,
    trans := fun s d => s + d.val,
    cost := fun _ _ d => if d.val = 1 then 1 else 0,
    nextVar := fun k _ => if k < 3 then some k else none,
    domain := fun _ _ => [0, 1],
    impacted := fun _ _ => true }

def rlx : Relax Int :=
  { merge := fun X => X.foldl max 0, relax := fun _ _ _ _ c => c, rub := fun _ => 3 }

def cfg : Cfg Int Unit :=
  { P := prob, R := rlx, rank := ⟨fun a b => icmp a b⟩, dom := none, useCache := false, kind := .lel,
    ctype := .relaxed, width := 1, root := ⟨0, 0, [], iMax, 0⟩, lb := 0 }

def H (k : Nat) (_ : Int) : EInt := some ((3 - k : Nat) : Int)

theorem nv_some {k : Nat} {L : List Int} {x : Nat} (h : prob.nextVar k L = some x) : k < 3 ∧ x = k := by
  simp only [prob] at h
  split at h
  · next hk => cases h; exact ⟨hk, rfl⟩
  · cases h

theorem potential : Potential prob H := by
  constructor
  · intro k L x s h hnv _ hH
    obtain ⟨hk, hx⟩ := nv_some hnv; subst x
    refine ⟨1, by simp [prob], ((3 - (k + 1) : Nat) : Int), rfl, ?_⟩
    simp only [H, Option.some.injEq] at hH
    show h ≤ (if (1 : Int) = 1 then 1 else 0) + ((3 - (k + 1) : Nat) : Int)
    rw [if_pos rfl]
    omega
  · intro k L x s v p d _ hnv _ hd
    obtain ⟨hk, hx⟩ := nv_some hnv; subst x
    simp only [H, EInt.addI, Option.map_some, EInt.some_le_some, prob]
    split <;> omega
  · intro k L s hnv _
    simp only [prob] at hnv
    split at hnv
    · cases hnv
    · next hk => simp only [H]; congr 1; omega

theorem rubOk : RubOk rlx H := by
  intro k s h hH
  simp only [H, Option.some.injEq] at hH
  simp only [rlx]; omega

theorem mergeOk : MergeOk rlx H := by
  intro k X u src d c h _ hH
  exact ⟨h, hH, Int.le_refl _⟩

theorem noClamp : NoClamp prob rlx cfg.root.value 1 := by
  constructor
  · decide
  · decide
  · intro s s' d; simp only [prob]; split <;> omega
  · intro s u m d c hc; exact hc
  · decide

/-- all the hypotheses hold, the compilation succeeds (a merge takes place on the third layer, width 1),
    hence the diagram reports a bound ≥ the optimum 3 -/
example : ∃ bv, (compile cfg (Cache.init 3) (DomStore.init 3) 0 none).2.1.bestValue = some bv ∧ 3 ≤ bv :=
  relaxed_ub_static cfg H 1 (Cache.init 3) (DomStore.init 3) 0 rfl rfl rfl (by decide)
    potential rubOk mergeOk noClamp (by decide) 3 rfl (by decide) (fun _ _ _ _ _ => rfl) (Or.inl (by decide))
    (by decide)

end Tiny

/-! ## the added hypothesis `AttMerge` is necessary -/
namespace CounterA

/-- `nextVar` looks at the states: at depth 2 it answers variable 2 unless the layer contains state 99 -/
def prob : Problem Int :=
  { nbVars := 3, init := 0, initVal := 0,
    trans := fun _ d => if d.var = 1 then 10 + d.val else if d.var = 0 then 0 else 99,
    cost := fun _ _ _ => 0,
    nextVar := fun k L => if k = 0 then some 0 else if k = 1 then some 1 else
      if k = 2 then (if 99 ∈ L then some 5 else some 2) else none,
    domain := fun x s => if x = 1 then [0, 1] else if x = 2 then (if s = 99 then [] else [0]) else [0],
    impacted := fun _ _ => true }

def rlx : Relax Int := { merge := fun _ => 99, relax := fun _ _ _ _ c => c, rub := fun _ => 0 }

def cfg : Cfg Int Unit :=
  { P := prob, R := rlx, rank := ⟨fun a b => icmp a b⟩, dom := none, useCache := false, kind := .lel,
    ctype := .relaxed, width := 1, root := ⟨0, 0, [], iMax, 0⟩, lb := -1 }

def H (_ : Nat) (_ : Int) : EInt := some 0

theorem dom_ne {k : Nat} {L : List Int} {x : Nat} {s : Int} (hnv : prob.nextVar k L = some x) (hs : s ∈ L) :
    ∃ d, d ∈ prob.domain x s := by
  simp only [prob] at hnv ⊢
  by_cases h1 : x = 1
  · exact ⟨0, by simp [h1]⟩
  · by_cases h2 : x = 2
    · subst h2
      have hs99 : s ≠ 99 := by
        intro h; subst h
        split at hnv
        · cases hnv
        · split at hnv
          · cases hnv
          · split at hnv
            · simp at hnv
            · cases hnv
      exact ⟨0, by simp [hs99]⟩
    · exact ⟨0, by simp [h1, h2]⟩

theorem potential : Potential prob H := by
  constructor
  · intro k L x s h hnv hs hH
    obtain ⟨d, hd⟩ := dom_ne hnv hs
    simp only [H, Option.some.injEq] at hH
    exact ⟨d, hd, 0, rfl, by simp only [prob]; omega⟩
  · intro k L x s v p d _ _ _ _
    simp [H, EInt.addI, prob]
  · intro k L s _ _; rfl

theorem rubOk : RubOk rlx H := by
  intro k s h hH
  simp only [H, Option.some.injEq] at hH
  simp only [rlx]; omega

theorem mergeOk : MergeOk rlx H := by
  intro k X u src d c h _ hH
  exact ⟨h, hH, Int.le_refl _⟩

theorem noClamp : NoClamp prob rlx cfg.root.value 0 := by
  constructor
  · decide
  · decide
  · intro s s' d; simp [prob]
  · intro s u m d c hc; exact hc
  · decide

/-- every hypothesis of the statement worked out on paper holds (`o = 0 > lb = -1`), the compilation succeeds, and yet
    the diagram has no terminal node: without `AttMerge` the conclusion of `relaxed_ub` fails -/
theorem counter :
    cfg.ctype = .relaxed ∧ cfg.useCache = false ∧ cfg.dom = none ∧ 1 ≤ cfg.width ∧
    Potential cfg.P H ∧ RubOk cfg.R H ∧ MergeOk cfg.R H ∧ NoClamp cfg.P cfg.R cfg.root.value 0 ∧ InI cfg.lb ∧
    optOf H cfg.root = some 0 ∧ 0 > cfg.lb ∧ ((0 : Int) ≤ iMax ∨ cfg.lb < iMax) ∧
    (compile cfg (Cache.init 3) (DomStore.init 3) 0 none).1 = .ok ∧
    (compile cfg (Cache.init 3) (DomStore.init 3) 0 none).2.1.bestValue = none :=
  ⟨rfl, rfl, rfl, by decide, potential, rubOk, mergeOk, noClamp, by decide, rfl, by decide, Or.inl (by decide),
   by decide, by decide⟩

end CounterA

/-! ## the added hypothesis `o ≤ iMax ∨ lb < iMax` is necessary -/
namespace CounterB

def big : Int := 9223372036854775808

def prob : Problem Int :=
  { nbVars := 1, init := 0, initVal := 0, trans := fun s _ => s, cost := fun _ _ _ => 0,
    nextVar := fun _ _ => some 0, domain := fun _ _ => [0], impacted := fun _ _ => true }

def rlx : Relax Int := { merge := fun _ => 0, relax := fun _ _ _ _ c => c, rub := fun _ => big }

def cfg : Cfg Int Unit :=
  { P := prob, R := rlx, rank := ⟨fun a b => icmp a b⟩, dom := none, useCache := false, kind := .lel,
    ctype := .relaxed, width := 1, root := ⟨0, 0, [], iMax, 0⟩, lb := iMax }

def H (_ : Nat) (_ : Int) : EInt := some big

theorem potential : Potential prob H := by
  constructor
  · intro k L x s h _ _ hH
    simp only [H, Option.some.injEq] at hH
    exact ⟨0, by simp [prob], big, rfl, by simp only [prob]; omega⟩
  · intro k L x s v p d _ _ _ _
    simp [H, EInt.addI, prob]
  · intro k L s hnv _; simp [prob] at hnv

theorem attMerge : AttMerge prob rlx H := by
  intro k L x X h _ _ _ hH
  simp only [H, Option.some.injEq] at hH
  exact ⟨0, by simp [prob], big, rfl, by simp only [prob]; omega⟩

theorem rubOk : RubOk rlx H := by
  intro k s h hH
  simp only [H, Option.some.injEq] at hH
  simp only [rlx]; omega

theorem mergeOk : MergeOk rlx H := by
  intro k X u src d c h _ hH
  exact ⟨h, hH, Int.le_refl _⟩

theorem noClamp : NoClamp prob rlx cfg.root.value 0 := by
  constructor
  · decide
  · decide
  · intro s s' d; simp [prob]
  · intro s u m d c hc; exact hc
  · decide

/-- all the other hypotheses (`AttMerge` included) hold with `lb = isize::MAX` and `o = 2^63 > lb`; the root is pruned by
    the saturated rough-upper-bound test and the diagram has no terminal node -/
theorem counter :
    cfg.ctype = .relaxed ∧ cfg.useCache = false ∧ cfg.dom = none ∧ 1 ≤ cfg.width ∧
    Potential cfg.P H ∧ RubOk cfg.R H ∧ MergeOk cfg.R H ∧ NoClamp cfg.P cfg.R cfg.root.value 0 ∧ InI cfg.lb ∧
    optOf H cfg.root = some big ∧ big > cfg.lb ∧ AttMerge cfg.P cfg.R H ∧
    (compile cfg (Cache.init 1) (DomStore.init 1) 0 none).1 = .ok ∧
    (compile cfg (Cache.init 1) (DomStore.init 1) 0 none).2.1.bestValue = none :=
  ⟨rfl, rfl, rfl, by decide, potential, rubOk, mergeOk, noClamp, by decide, rfl, by decide, attMerge,
   by decide, by decide⟩

end CounterB

end Ddo.C06
