import DdoModel.Props.C01b
import DdoModel.Proofs.LexNat
/-! # Termination of the sequential branch-and-bound loop (both fringes)

`Step nbVars dedup s t`: one turn of the loop of `maximize` on the model `SeqSolver.lean` —
`get_workload` pops *some* node `N` of the fringe (any node: a maximal one in particular, see
`StepMax`), moves `first_active_layer` anywhere, runs `afterPop`, then `process_one_node` runs with
*arbitrary* answers of the cache and of the two compilations (including cutoffs), subject only to the
progress clause of the cut-set contract (C08 (ii)): every node the relaxed diagram hands out is
strictly deeper than `N` and not deeper than `nbVars`.

Measure: the vector, indexed by depth from shallow to deep (`0 … nbVars`, plus one last coordinate
for "deeper than `nbVars`", so that no assumption on the initial state is needed), of the number of
fringe entries of that depth, ordered lexicographically (`LexLT`, well-founded by `lexLT_wf`).  A pop
removes one entry at the depth of `N`; what is pushed is strictly deeper; a push on the
duplicate-free fringe either appends the node or replaces an entry *of the same depth*
(`cnt_pushSpec_of_ne`); an abort empties the fringe.  Hence `step_measure_lt`, and
`seq_terminates : WellFounded (fun t s => Step nbVars dedup s t)`.  Core Lean only. -/
set_option linter.unusedSectionVars false
namespace Ddo.C01t
variable {S : Type} [DecidableEq S]

/-- depth clamped to `K` (`K = nbVars + 1` stands for every depth beyond the last layer) -/
def cdepth (K : Nat) (c : SubP S) : Nat := min c.depth K

/-- number of entries of clamped depth `d` -/
def cnt (K : Nat) (fr : List (SubP S)) (d : Nat) : Nat := fr.countP (fun c => cdepth K c == d)

theorem cnt_nil (K d : Nat) : cnt K ([] : List (SubP S)) d = 0 := rfl

theorem cnt_cons (K : Nat) (c : SubP S) (fr : List (SubP S)) (d : Nat) :
    cnt K (c :: fr) d = cnt K fr d + if cdepth K c = d then 1 else 0 := by
  unfold cnt
  rw [List.countP_cons]
  simp

theorem cnt_perm (K : Nat) {l1 l2 : List (SubP S)} (h : l1.Perm l2) (d : Nat) : cnt K l1 d = cnt K l2 d :=
  h.countP_eq _

/-- a push changes the count of no depth but that of the pushed node: on the duplicate-free fringe
    it appends the node or replaces an entry of the same depth -/
theorem cnt_pushSpec_of_ne (K : Nat) (dedup : Bool) (q : List (SubP S)) (x : SubP S) (e : Nat)
    (h : cdepth K x ≠ e) : cnt K (pushSpec dedup q x) e = cnt K q e := by
  cases dedup
  · rw [pushSpec_false, cnt_cons, if_neg h]; rfl
  · induction q with
    | nil => rw [pushSpec_true_nil, cnt_cons, if_neg h]; rfl
    | cons y r ih =>
      rw [pushSpec_true_cons]
      split
      · next hk =>
        have : cdepth K (coal x y) = cdepth K y := by unfold cdepth; rw [(coal_key x y hk).2]
        rw [cnt_cons, cnt_cons, this]
      · rw [cnt_cons, cnt_cons, ih]

/-- at the depth of the pushed node the count grows by at most one -/
theorem cnt_pushSpec_le (K : Nat) (dedup : Bool) (q : List (SubP S)) (x : SubP S) (e : Nat) :
    cnt K (pushSpec dedup q x) e ≤ cnt K q e + 1 := by
  cases dedup
  · rw [pushSpec_false, cnt_cons]; split <;> omega
  · induction q with
    | nil => rw [pushSpec_true_nil, cnt_cons]; split <;> omega
    | cons y r ih =>
      rw [pushSpec_true_cons]
      split
      · next hk =>
        have : cdepth K (coal x y) = cdepth K y := by unfold cdepth; rw [(coal_key x y hk).2]
        rw [cnt_cons, cnt_cons, this]; omega
      · rw [cnt_cons, cnt_cons]; omega

theorem enqOne_fringe (dedup : Bool) (st : SeqSt S) (c0 : SubP S) :
    (enqOne dedup st c0).fringe = st.fringe ∨
    (enqOne dedup st c0).fringe = pushSpec dedup st.fringe c0 := by
  unfold enqOne
  simp only
  split
  · split <;> exact Or.inr rfl
  · exact Or.inl rfl

theorem cnt_enqueue_of_ne (K : Nat) (dedup : Bool) (cs : List (SubP S)) (e : Nat)
    (h : ∀ c ∈ cs, cdepth K c ≠ e) (st : SeqSt S) :
    cnt K (st.enqueue dedup cs).fringe e = cnt K st.fringe e := by
  rw [enqueue_eq_foldl]
  induction cs generalizing st with
  | nil => rfl
  | cons c0 cs ih =>
    simp only [List.foldl_cons]
    rw [ih (fun c hc => h c (List.mem_cons_of_mem _ hc))]
    rcases enqOne_fringe dedup st c0 with e1 | e1
    · rw [e1]
    · rw [e1]
      exact cnt_pushSpec_of_ne K dedup st.fringe _ e (h c0 List.mem_cons_self)

theorem afterPop_fringe (st : SeqSt S) (N : SubP S) : (st.afterPop N).fringe = st.fringe := by
  unfold SeqSt.afterPop
  split <;> rfl

/-- `process_one_node` does not increase the count at a depth where the cut-set has no node
    (whatever the answers: pruned, cache refusal, cutoff, exact, enqueue) -/
theorem process_cnt_le (K : Nat) (dedup : Bool) (st : SeqSt S) (N : SubP S) (me : Bool) (r x : DDRes S) (e : Nat)
    (h : ∀ o, x = .ok o → ∀ c ∈ o.cutset, cdepth K c ≠ e) :
    cnt K (st.process dedup N me r x).1.fringe e ≤ cnt K st.fringe e := by
  unfold SeqSt.process
  split
  · exact Nat.le_refl _
  · split
    · exact Nat.le_refl _
    · cases r with
      | cutoff => simp [SeqSt.abortSearch, cnt_nil]
      | ok r =>
        simp only
        have f1 := (updateBest_fringe st r).1
        split
        · rw [f1]; exact Nat.le_refl _
        · cases x with
          | cutoff => simp [SeqSt.abortSearch, cnt_nil]
          | ok x =>
            simp only
            have f2 := (updateBest_fringe (st.updateBest r) x).1
            split
            · rw [f2, f1]; exact Nat.le_refl _
            · rw [cnt_enqueue_of_ne K dedup x.cutset e (h x rfl), f2, f1]
              exact Nat.le_refl _

/-! ## the loop as a relation -/

/-- one turn of the solver loop (see the header) -/
inductive Step (nbVars : Nat) (dedup : Bool) : SeqSt S → SeqSt S → Prop
  | pop (s : SeqSt S) (N : SubP S) (rest : List (SubP S)) (fa : Nat) (me : Bool) (r x : DDRes S)
      (hpop : s.fringe.Perm (N :: rest))
      (hprog : ∀ o, x = .ok o → ∀ c ∈ o.cutset, N.depth < c.depth ∧ c.depth ≤ nbVars) :
      Step nbVars dedup s
        ((({ s with fringe := rest, firstActive := fa }).afterPop N).process dedup N me r x).1

/-- the same with the pop restricted to a maximal element (what the fringe does) -/
inductive StepMax (nbVars : Nat) (dedup : Bool) : SeqSt S → SeqSt S → Prop
  | pop (s : SeqSt S) (N : SubP S) (rest : List (SubP S)) (fa : Nat) (me : Bool) (r x : DDRes S)
      (hpop : s.fringe.Perm (N :: rest))
      (hmax : ∀ c ∈ rest, c.ub < N.ub ∨ (c.ub = N.ub ∧ c.value ≤ N.value))
      (hprog : ∀ o, x = .ok o → ∀ c ∈ o.cutset, N.depth < c.depth ∧ c.depth ≤ nbVars) :
      StepMax nbVars dedup s
        ((({ s with fringe := rest, firstActive := fa }).afterPop N).process dedup N me r x).1

theorem StepMax.step {nbVars : Nat} {dedup : Bool} {s t : SeqSt S} (h : StepMax nbVars dedup s t) :
    Step nbVars dedup s t := by
  cases h with
  | pop N rest fa me r x hpop _ hprog => exact Step.pop s N rest fa me r x hpop hprog

/-- the measure: number of fringe entries per (clamped) depth, shallow first -/
def mu (nbVars : Nat) (s : SeqSt S) : Nat → Nat := cnt (nbVars + 1) s.fringe

/-- **the measure decreases at every step** (lexicographically, on the `nbVars + 2` coordinates) -/
theorem step_measure_lt {nbVars : Nat} {dedup : Bool} {s t : SeqSt S} (h : Step nbVars dedup s t) :
    LexLT (nbVars + 2) (mu nbVars t) (mu nbVars s) := by
  cases h with
  | pop N rest fa me r x hpop hprog =>
    have hle : ∀ e, e ≤ cdepth (nbVars + 1) N →
        mu nbVars ((({ s with fringe := rest, firstActive := fa }).afterPop N).process dedup N me r x).1 e
          ≤ cnt (nbVars + 1) rest e := by
      intro e he
      have := process_cnt_le (nbVars + 1) dedup (({ s with fringe := rest, firstActive := fa }).afterPop N) N me r x e
        (by
          intro o ho c hc
          obtain ⟨h1, h2⟩ := hprog o ho c hc
          unfold cdepth at he ⊢
          omega)
      rw [afterPop_fringe] at this
      exact this
    have hs : ∀ e, mu nbVars s e = cnt (nbVars + 1) rest e + if cdepth (nbVars + 1) N = e then 1 else 0 := by
      intro e
      unfold mu
      rw [cnt_perm _ hpop, cnt_cons]
    refine lexLT_of_le (cdepth (nbVars + 1) N) (by unfold cdepth; omega) ?_ ?_
    · have := hle _ (Nat.le_refl _)
      rw [hs, if_pos rfl]; omega
    · intro e he
      have := hle e (by omega)
      rw [hs]; omega

/-- **`seq_terminates`**: the loop relation is well-founded — from *any* state, with either fringe,
    whatever the diagrams, the cache and the pop order answer, there is no infinite run -/
theorem seq_terminates (nbVars : Nat) (dedup : Bool) :
    WellFounded (fun t s : SeqSt S => Step nbVars dedup s t) :=
  Subrelation.wf (r := InvImage (LexLT (nbVars + 2)) (mu nbVars))
    (fun {_ _} h => step_measure_lt h) (InvImage.wf _ (lexLT_wf _))

theorem seq_terminates_max (nbVars : Nat) (dedup : Bool) :
    WellFounded (fun t s : SeqSt S => StepMax nbVars dedup s t) :=
  Subrelation.wf (fun {_ _} h => h.step) (seq_terminates nbVars dedup)

/-- every state is accessible -/
theorem seq_acc (nbVars : Nat) (dedup : Bool) (s : SeqSt S) :
    Acc (fun t s : SeqSt S => Step nbVars dedup s t) s := (seq_terminates nbVars dedup).apply s

/-- there is no infinite run -/
theorem no_infinite_run (nbVars : Nat) (dedup : Bool) (run : Nat → SeqSt S) :
    ¬ ∀ n, Step nbVars dedup (run n) (run (n + 1)) :=
  no_infinite_chain (seq_terminates nbVars dedup) run

/-- a step is possible only from a non-empty fringe: `get_workload` returns `Complete` otherwise,
    and after an abort (`fringe = []`) the loop is over -/
theorem step_fringe_ne_nil {nbVars : Nat} {dedup : Bool} {s t : SeqSt S} (h : Step nbVars dedup s t) :
    s.fringe ≠ [] := by
  cases h with
  | pop N rest fa me r x hpop _ =>
    intro hnil; rw [hnil] at hpop
    exact absurd hpop.length_eq (by simp)

/-! ## partial + total correctness of the loop, both fringes (no cache, no cutoff)

Putting `C01b.process_inv_any` and `seq_terminates` together: a `GoodStep` is a `Step` whose two
compilations answer under the contracts of C06–C08; the coverage invariant is a loop invariant
(`goodStep_inv`, `run_inv`), a run that reaches the empty fringe holds the optimum
(`run_end_optimal`), and there is no infinite run (`good_terminates`). -/
section
variable (Phi : SubP S → EInt) (opt : Int) (Sol : List Dec → Int → Prop)

theorem afterPop_lb_sol (st : SeqSt S) (N : SubP S) :
    (st.afterPop N).bestLb = st.bestLb ∧ (st.afterPop N).bestSol = st.bestSol := by
  unfold SeqSt.afterPop
  split <;> exact ⟨rfl, rfl⟩

/-- the invariant reads the open list only through membership -/
theorem inv_of_mem {L L' : List (SubP S)} {lb : Int} {sol : Option (List Dec)}
    (h : ∀ c, c ∈ L' → c ∈ L) (h' : ∀ c, c ∈ L → c ∈ L')
    (hinv : Inv Phi opt Sol L lb sol) : Inv Phi opt Sol L' lb sol :=
  ⟨fun c hc => hinv.good c (h c hc), fun c hc => hinv.ubOk c (h c hc), hinv.lbOk, hinv.solOk,
    fun hgt => by obtain ⟨c, hc, h1, h2⟩ := hinv.cover hgt; exact ⟨c, h' c hc, h1, h2⟩⟩

/-- a turn of the loop whose compilations meet their contracts (the state `st'` in hand is the one
    after `get_workload`: popped, `afterPop` applied) -/
inductive GoodStep (nbVars : Nat) (dedup : Bool) : SeqSt S → SeqSt S → Prop
  | pop (s : SeqSt S) (N : SubP S) (rest : List (SubP S)) (fa : Nat) (r x : DDOut S)
      (hpop : s.fringe.Perm (N :: rest))
      (hprog : ∀ c ∈ x.cutset, N.depth < c.depth ∧ c.depth ≤ nbVars)
      (hr : CompileOk Phi opt Sol N (({ s with fringe := rest, firstActive := fa }).afterPop N).bestLb r)
      (hx : CompileOk Phi opt Sol N
        ((({ s with fringe := rest, firstActive := fa }).afterPop N).updateBest r).bestLb x)
      (hcut : x.isExact = false → CutsetOk Phi opt N
        ((({ s with fringe := rest, firstActive := fa }).afterPop N).updateBest r).bestLb x) :
      GoodStep nbVars dedup s
        ((({ s with fringe := rest, firstActive := fa }).afterPop N).process dedup N true (.ok r) (.ok x)).1

theorem GoodStep.step {nbVars : Nat} {dedup : Bool} {s t : SeqSt S}
    (h : GoodStep Phi opt Sol nbVars dedup s t) : Step nbVars dedup s t := by
  cases h with
  | pop N rest fa r x hpop hprog _ _ _ =>
    exact Step.pop s N rest fa true (.ok r) (.ok x) hpop
      (fun o ho => by injection ho with ho; subst ho; exact hprog)

/-- **the coverage invariant is a loop invariant**, for either fringe -/
theorem goodStep_inv (hmono : PhiMono Phi) {nbVars : Nat} {dedup : Bool} {s t : SeqSt S}
    (h : GoodStep Phi opt Sol nbVars dedup s t) (hinv : Inv Phi opt Sol s.fringe s.bestLb s.bestSol) :
    Inv Phi opt Sol t.fringe t.bestLb t.bestSol := by
  cases h with
  | pop N rest fa r x hpop _ hr hx hcut =>
    refine C01b.process_inv_any Phi opt Sol dedup hmono _ N r x ?_ hr hx hcut
    rw [afterPop_fringe, (afterPop_lb_sol _ N).1, (afterPop_lb_sol _ N).2]
    exact inv_of_mem Phi opt Sol (fun c hc => hpop.mem_iff.mpr hc) (fun c hc => hpop.mem_iff.mp hc) hinv

/-- finite runs -/
inductive Run (nbVars : Nat) (dedup : Bool) : SeqSt S → SeqSt S → Prop
  | refl (s : SeqSt S) : Run nbVars dedup s s
  | tail {s t u : SeqSt S} : Run nbVars dedup s t → GoodStep Phi opt Sol nbVars dedup t u → Run nbVars dedup s u

theorem run_inv (hmono : PhiMono Phi) {nbVars : Nat} {dedup : Bool} {s t : SeqSt S}
    (h : Run Phi opt Sol nbVars dedup s t) (hinv : Inv Phi opt Sol s.fringe s.bestLb s.bestSol) :
    Inv Phi opt Sol t.fringe t.bestLb t.bestSol := by
  induction h with
  | refl => exact hinv
  | tail _ hstep ih => exact goodStep_inv Phi opt Sol hmono hstep ih

/-- **partial correctness**: a run that started under the invariant and reached the empty fringe
    (`get_workload` answers `Complete`) holds the optimum and a feasible solution of that value -/
theorem run_end_optimal (hmono : PhiMono Phi) {nbVars : Nat} {dedup : Bool} {s t : SeqSt S}
    (h : Run Phi opt Sol nbVars dedup s t) (hinv : Inv Phi opt Sol s.fringe s.bestLb s.bestSol)
    (hend : t.fringe = []) : t.bestLb = opt ∧ ∀ p, t.bestSol = some p → Sol p opt := by
  have := run_inv Phi opt Sol hmono h hinv
  rw [hend] at this
  exact C01.complete_optimal Phi opt Sol t.bestLb t.bestSol this

/-- **termination** of the contract-abiding loop -/
theorem good_terminates (nbVars : Nat) (dedup : Bool) :
    WellFounded (fun t s : SeqSt S => GoodStep Phi opt Sol nbVars dedup s t) :=
  Subrelation.wf (fun {_ _} h => h.step) (seq_terminates nbVars dedup)

end

end Ddo.C01t
