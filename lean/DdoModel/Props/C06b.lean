import DdoModel.Proofs.MddTruth
import DdoModel.Props.C06
/-! # C06, second sentence — a relaxed diagram that declares itself exact is truthful

`Ddo.C06.relaxed_exact_truthful`: a relaxed compilation in isolation (no cache, no dominance checker), width ≥ 1, any
incumbent `lb`; `r` is **either** admissible result of `compile` (the `must` result `.2.1`, or the `may` result `.2.2.1`
that exists when `has_exact_best_path` depends on the hash order).  If `r.isExact = true` and the optimum `o` of the root
sub-problem beats `lb`, then

* `r.bestValue = r.bestExactValue = some o`, and `o` is the value of a complete feasible path `p0 ++ q` of the model
  through the root sub-problem (`Ddo.Truth.TruthfulVal`);
* if moreover `r` is the `must` result, or no merge happened at all (`lel` unset), the reported `bestSol` and `bestExactSol`
  are such a path: `root.path ++ q.reverse` (`Ddo.Truth.Truthful`).

`is_exact()` is `lel.is_none() || has_exact_best_path` (`clean.rs`, `_finalize_exact`):

* `lel.is_none()`: no merge happened; `Ddo.Truth.compile_unsquashed` — the coverage invariant survives un-squashed steps,
  every terminal node is exact.  Only `Potential` + `RubOk` are used (`relaxed_nomerge_truthful`: no `MergeOk`, no `AttMerge`,
  any width).
* `has_exact_best_path`: upper direction = `relaxed_ub` (C06, first sentence: needs `MergeOk`, `AttMerge`, width ≥ 1); lower
  direction = a new invariant `Ddo.Truth.G2` of the top-down build: every inbound arc of a node that is **not flagged
  relaxed** is a genuine transition of the model (`ArcGen`: decision in the domain, `trans`, `cost`), from a parent whose
  state belongs to the list handed to `nextVar` (unless the parent is flagged relaxed), and the `best` arc attains the
  node's value.  Hence a best terminal node with `ebpSome` (`ebpAll`) is `Reach`ed with its value by some chain of arg-max
  arcs (by its `best` chain): `Ddo.Truth.ebpSome_reach` / `ebpAll_reach`; a reached complete path is `≤ o` (`reach_le`).

**Finding (model, not implementation)** — `Tie.finding` below, machine-checked: for the `may` result the model's `bestSol` /
`bestExactSol` follow the *model's* resolution of the ties (`best` = the arc appended last among the arg-max arcs), which
need not be the resolution that makes `has_exact_best_path` true.  On the model `Tie.prob 3` (every hypothesis of the theorem
holds, `o = 5`), the `may` result has `isExact = true`, `bestExactValue = some 5` — truthful — but its `bestExactSol`
`[⟨2,0⟩, ⟨1,1⟩, ⟨0,0⟩]` runs through the merged node and is **not** a path of the model (`evalFrom` fails); in the Rust run whose
hash order yields `has_exact_best_path = true` the reported solution is `[⟨2,0⟩, ⟨1,0⟩, ⟨0,0⟩]`.  So the `Truthful` clause
cannot be proved for the `may` result, and a checker must not replay the model's `bestExactSol` of a `may` result against
the implementation's `is_exact = true` (DESIGN.md §4 already says paths are validated by replay of the *implementation's*
answer, never compared; this example shows the model's own answer may even be infeasible). -/
namespace Ddo.C06
open Ddo Ddo.Cover Ddo.Truth

/-- `is_exact` without `lel.is_none()` means `has_exact_best_path` -/
theorem hasEBP_of_isExact {S K : Type} [DecidableEq S] [DecidableEq K] (cfg : Cfg S K) (dd : DD S K) (e : Bool)
    (hl : dd.lel ≠ none) (h : (finalize cfg (finalizeLayers dd) e).1.isExact = true) : e = true := by
  rw [finalize_isExact] at h
  have : (finalizeLayers dd).isExactField = false := by
    show Option.isNone _ = false
    cases hd : dd.lel with
    | none => exact absurd hd hl
    | some _ => rfl
  rw [this] at h
  simpa using h

/-- **relativised form** (`WfRel` as in `relaxed_ub_rel`, plus `LowRel` = `Potential.le` / `Potential.term` on valid states) -/
theorem relaxed_exact_truthful_rel {S K : Type} [DecidableEq S] [DecidableEq K]
    (cfg : Cfg S K) (H : Nat → S → EInt) (V : Nat → S → Prop) (B o : Int) (p0 : List Dec)
    (cache : Cache S) (store : DomStore S K) (polls : Nat)
    (hrel : cfg.ctype = .relaxed) (hcache : cfg.useCache = false) (hdom : cfg.dom = none) (hW : 1 ≤ cfg.width)
    (hwf : WfRel cfg.P cfg.R H V) (hL : LowRel cfg.P H V) (hV : V cfg.root.depth cfg.root.state)
    (hB : NoClamp cfg.P cfg.R cfg.root.value B) (hlb : InI cfg.lb)
    (hroot : Reach cfg.P cfg.root.depth cfg.root.state cfg.root.value p0)
    (ho : optOf H cfg.root = some o) (hgt : o > cfg.lb) (hO : o ≤ iMax ∨ cfg.lb < iMax)
    (hok : (compile cfg cache store polls none).1 = .ok) (r : Result S)
    (hr : r = (compile cfg cache store polls none).2.1 ∨ (compile cfg cache store polls none).2.2.1 = some r)
    (hex : r.isExact = true) :
    TruthfulVal cfg p0 o r ∧
    ((r = (compile cfg cache store polls none).2.1 ∨ (compile cfg cache store polls none).2.2.2.lel = none) →
      Truthful cfg p0 o r) := by
  by_cases hl : (compile cfg cache store polls none).2.2.2.lel = none
  · have := (compile_unsquashed cfg H V B o p0 cache store polls hcache hdom (WfX.of_rel hwf) hL hV hB hlb hroot ho hgt hO
      hok hl r hr).2
    exact ⟨this.toVal, fun _ => this⟩
  · obtain ⟨hbl, hdd, e, he, hre⟩ := compile_results' cfg cache store polls none hok r hr
    obtain ⟨_, _, hmust⟩ := Ddo.compile_ok cfg cache store polls none hok
    rw [hdd] at hl
    have e2 : (cfg.ctype == CompType.relaxed) = true := by rw [hrel]; decide
    rw [e2] at he hmust
    have hy : Hyp cfg H V B o := ⟨hrel, hcache, hdom, hW, hwf, hB.toDom, clamp_gt hlb hgt hO⟩
    obtain ⟨h1, h2⟩ := ebp_truthful cfg H V B o p0 hy hL hV hB hroot ho cache store polls hbl
    have het : e = true := hasEBP_of_isExact cfg _ e hl (hre ▸ hex)
    refine ⟨?_, fun h => ?_⟩
    · rcases he with he | he
      · rw [hre, het]; exact (h1 (he ▸ het)).toVal
      · rw [hre, het]; exact h2 (he ▸ het)
    · rcases h with h | h
      · rw [h, hmust] at hex
        have hm := hasEBP_of_isExact cfg _ _ hl hex
        rw [h, hmust, hm]
        exact h1 hm
      · rw [hdd] at h; exact absurd h hl

/-- **C06, second sentence**: `Potential`, `RubOk`, `MergeOk`, `AttMerge` (the hypotheses of `relaxed_ub`) and a reachable
    root sub-problem -/
theorem relaxed_exact_truthful {S K : Type} [DecidableEq S] [DecidableEq K]
    (cfg : Cfg S K) (H : Nat → S → EInt) (B o : Int) (p0 : List Dec)
    (cache : Cache S) (store : DomStore S K) (polls : Nat)
    (hrel : cfg.ctype = .relaxed) (hcache : cfg.useCache = false) (hdom : cfg.dom = none) (hW : 1 ≤ cfg.width)
    (hP : Potential cfg.P H) (hR : RubOk cfg.R H) (hM : MergeOk cfg.R H) (hAM : AttMerge cfg.P cfg.R H)
    (hB : NoClamp cfg.P cfg.R cfg.root.value B) (hlb : InI cfg.lb)
    (hroot : Reach cfg.P cfg.root.depth cfg.root.state cfg.root.value p0)
    (ho : optOf H cfg.root = some o) (hgt : o > cfg.lb) (hO : o ≤ iMax ∨ cfg.lb < iMax)
    (hok : (compile cfg cache store polls none).1 = .ok) (r : Result S)
    (hr : r = (compile cfg cache store polls none).2.1 ∨ (compile cfg cache store polls none).2.2.1 = some r)
    (hex : r.isExact = true) :
    TruthfulVal cfg p0 o r ∧
    ((r = (compile cfg cache store polls none).2.1 ∨ (compile cfg cache store polls none).2.2.2.lel = none) →
      Truthful cfg p0 o r) :=
  relaxed_exact_truthful_rel cfg H (fun _ _ => True) B o p0 cache store polls hrel hcache hdom hW
    (wfRel_of_global hP hR hM hAM) (lowRel_of_potential hP) trivial hB hlb hroot ho hgt hO hok r hr hex

/-- the headline, for either result: the best exact value (and the best value) is the optimum -/
theorem relaxed_exact_value {S K : Type} [DecidableEq S] [DecidableEq K]
    (cfg : Cfg S K) (H : Nat → S → EInt) (B o : Int) (p0 : List Dec)
    (cache : Cache S) (store : DomStore S K) (polls : Nat)
    (hrel : cfg.ctype = .relaxed) (hcache : cfg.useCache = false) (hdom : cfg.dom = none) (hW : 1 ≤ cfg.width)
    (hP : Potential cfg.P H) (hR : RubOk cfg.R H) (hM : MergeOk cfg.R H) (hAM : AttMerge cfg.P cfg.R H)
    (hB : NoClamp cfg.P cfg.R cfg.root.value B) (hlb : InI cfg.lb)
    (hroot : Reach cfg.P cfg.root.depth cfg.root.state cfg.root.value p0)
    (ho : optOf H cfg.root = some o) (hgt : o > cfg.lb) (hO : o ≤ iMax ∨ cfg.lb < iMax)
    (hok : (compile cfg cache store polls none).1 = .ok) (r : Result S)
    (hr : r = (compile cfg cache store polls none).2.1 ∨ (compile cfg cache store polls none).2.2.1 = some r)
    (hex : r.isExact = true) : r.bestExactValue = some o ∧ r.bestValue = some o :=
  have h := (relaxed_exact_truthful cfg H B o p0 cache store polls hrel hcache hdom hW hP hR hM hAM hB hlb hroot ho hgt hO
    hok r hr hex).1
  ⟨h.bestExactValue, h.bestValue⟩

/-- the `must` result: the reported best exact solution is a feasible complete solution of value `o` -/
theorem relaxed_exact_solution {S K : Type} [DecidableEq S] [DecidableEq K]
    (cfg : Cfg S K) (H : Nat → S → EInt) (B o : Int) (p0 : List Dec)
    (cache : Cache S) (store : DomStore S K) (polls : Nat)
    (hrel : cfg.ctype = .relaxed) (hcache : cfg.useCache = false) (hdom : cfg.dom = none) (hW : 1 ≤ cfg.width)
    (hP : Potential cfg.P H) (hR : RubOk cfg.R H) (hM : MergeOk cfg.R H) (hAM : AttMerge cfg.P cfg.R H)
    (hB : NoClamp cfg.P cfg.R cfg.root.value B) (hlb : InI cfg.lb)
    (hroot : Reach cfg.P cfg.root.depth cfg.root.state cfg.root.value p0)
    (ho : optOf H cfg.root = some o) (hgt : o > cfg.lb) (hO : o ≤ iMax ∨ cfg.lb < iMax)
    (hok : (compile cfg cache store polls none).1 = .ok)
    (hex : (compile cfg cache store polls none).2.1.isExact = true) :
    ∃ (k : Nat) (s : S) (q : List Dec) (L : List S),
      Reach cfg.P k s o (p0 ++ q) ∧ s ∈ L ∧ cfg.P.nextVar k L = none ∧
      (compile cfg cache store polls none).2.1.bestExactSol = some (cfg.root.path ++ q.reverse) :=
  ((relaxed_exact_truthful cfg H B o p0 cache store polls hrel hcache hdom hW hP hR hM hAM hB hlb hroot ho hgt hO
    hok _ (.inl rfl) hex).2 (.inl rfl)).exactSol

/-- a relaxed compilation in which no merge happened (`lel` unset): only `Potential` + `RubOk`, any width -/
theorem relaxed_nomerge_truthful {S K : Type} [DecidableEq S] [DecidableEq K]
    (cfg : Cfg S K) (H : Nat → S → EInt) (B o : Int) (p0 : List Dec)
    (cache : Cache S) (store : DomStore S K) (polls : Nat)
    (hcache : cfg.useCache = false) (hdom : cfg.dom = none)
    (hP : Potential cfg.P H) (hR : RubOk cfg.R H)
    (hB : NoClamp cfg.P cfg.R cfg.root.value B) (hlb : InI cfg.lb)
    (hroot : Reach cfg.P cfg.root.depth cfg.root.state cfg.root.value p0)
    (ho : optOf H cfg.root = some o) (hgt : o > cfg.lb) (hO : o ≤ iMax ∨ cfg.lb < iMax)
    (hok : (compile cfg cache store polls none).1 = .ok)
    (hlel : (compile cfg cache store polls none).2.2.2.lel = none) (r : Result S)
    (hr : r = (compile cfg cache store polls none).2.1 ∨ (compile cfg cache store polls none).2.2.1 = some r) :
    r.isExact = true ∧ Truthful cfg p0 o r :=
  compile_unsquashed cfg H (fun _ _ => True) B o p0 cache store polls hcache hdom (wfX_of_potential hP hR)
    (lowRel_of_potential hP) trivial hB hlb hroot ho hgt hO hok hlel r hr

/-! ## non-vacuity: the tiny model of `Props/C06.lean` with width 2 — a merge happens (`lel = some 1`) and the best path is exact -/
namespace Tiny

def cfg2 : Cfg Int Unit := { cfg with width := 2 }

example : (compile cfg2 (Cache.init 3) (DomStore.init 3) 0 none).2.2.2.lel = some 1 := by decide

example : (compile cfg2 (Cache.init 3) (DomStore.init 3) 0 none).2.1.bestExactValue = some 3 ∧
    (compile cfg2 (Cache.init 3) (DomStore.init 3) 0 none).2.1.bestValue = some 3 :=
  relaxed_exact_value cfg2 H 1 3 [] (Cache.init 3) (DomStore.init 3) 0 rfl rfl rfl (by decide)
    potential rubOk mergeOk (attMerge_of_static potential (fun _ _ _ _ _ => rfl)) noClamp (by decide) .root rfl (by decide)
    (Or.inl (by decide)) (by decide) _ (.inl rfl) (by decide)

/-- with width 1 the same compilation merges the best path away and says so: `is_exact = false` -/
example : (compile cfg (Cache.init 3) (DomStore.init 3) 0 none).2.1.isExact = false := by decide

end Tiny

/-! ## ties: a best terminal node that is *not* flagged exact, reached from an exact node and from the merged node

The family `Tie.prob a` (`0 ≤ a ≤ 3`): with `a = 2` the arc from the merged node loses (value 4 < 5), the best path is exact for
every resolution (`must`): non-vacuity of the `has_exact_best_path` case on a terminal node that is not exact.  With `a = 3`
the two arcs tie (5 = 5): `must` fails, `may` holds — the finding described in the header. -/
namespace Tie

def cost1 (a v : Int) : Int := if v = 0 then 5 else if v = 1 then a else if v = 2 then 1 else 0
def cost2 (s : Int) : Int := if s = 99 then 2 else if s = 11 ∨ s = 12 then 1 else 0

/-- variable 0: one value, to state 1.  Variable 1: values 0/1/2 with costs 5/`a`/1, to states 10/11/12.  Variable 2: one value
    per state (1 for the states 11 and 12, 0 otherwise) of cost `cost2 state`, to state 100 (value 0) or 101. -/
def prob (a : Int) : Problem Int :=
  { nbVars := 3, init := 0, initVal := 0,
    trans := fun _ d => if d.var = 0 then 1 else if d.var = 1 then 10 + d.val else (if d.val = 0 then 100 else 101),
    cost := fun s _ d => if d.var = 0 then 0 else if d.var = 1 then cost1 a d.val else cost2 s,
    nextVar := fun k _ => if k < 3 then some k else none,
    domain := fun x s => if x = 0 then [0] else if x = 1 then [0, 1, 2] else (if s = 11 ∨ s = 12 then [1] else [0]),
    impacted := fun _ _ => true }

/-- everything merges into state 99 (whose only decision costs 2) -/
def rlx : Relax Int := { merge := fun _ => 99, relax := fun _ _ _ _ c => c, rub := fun _ => 10 }

def cfg (a : Int) : Cfg Int Unit :=
  { P := prob a, R := rlx, rank := ⟨fun a b => icmp a b⟩, dom := none, useCache := false, kind := .lel,
    ctype := .relaxed, width := 2, root := ⟨0, 0, [], iMax, 0⟩, lb := 0 }

/-- the true value-to-go -/
def H (k : Nat) (s : Int) : EInt := if k < 2 then some 5 else if k = 2 then some (cost2 s) else some 0

theorem cost1_le {a : Int} (ha : 0 ≤ a ∧ a ≤ 3) (v : Int) : 0 ≤ cost1 a v ∧ cost1 a v ≤ 5 := by
  unfold cost1; split <;> (try split) <;> (try split) <;> omega
theorem cost2_le (s : Int) : 0 ≤ cost2 s ∧ cost2 s ≤ 2 := by unfold cost2; split <;> (try split) <;> omega

theorem nv_some {a : Int} {k : Nat} {L : List Int} {x : Nat} (h : (prob a).nextVar k L = some x) : k < 3 ∧ x = k := by
  simp only [prob] at h
  split at h
  · next hk => cases h; exact ⟨hk, rfl⟩
  · cases h

theorem potential {a : Int} (ha : 0 ≤ a ∧ a ≤ 3) : Potential (prob a) H := by
  constructor
  · intro k L x s h hnv _ hH
    obtain ⟨hk, hx⟩ := nv_some hnv; subst x
    have hk' : k = 0 ∨ k = 1 ∨ k = 2 := by omega
    rcases hk' with rfl | rfl | rfl
    · simp only [H, Nat.zero_lt_succ, if_true, Option.some.injEq] at hH
      exact ⟨0, by simp [prob], 5, by simp [H], by simp only [prob]; simp; omega⟩
    · simp only [H, Nat.one_lt_two, if_true, Option.some.injEq] at hH
      refine ⟨0, by simp [prob], 0, by simp [H, prob, cost2], ?_⟩
      simp only [prob]; simp [cost1]; omega
    · simp only [H, Nat.lt_irrefl, if_false, if_true, Option.some.injEq] at hH
      by_cases hs : s = 11 ∨ s = 12
      · exact ⟨1, by simp [prob, hs], 0, by simp [H], by simp only [prob]; simp; omega⟩
      · exact ⟨0, by simp [prob, hs], 0, by simp [H], by simp only [prob]; simp; omega⟩
  · intro k L x s v p d _ hnv _ hd
    obtain ⟨hk, hx⟩ := nv_some hnv; subst x
    have hk' : k = 0 ∨ k = 1 ∨ k = 2 := by omega
    rcases hk' with rfl | rfl | rfl
    · simp [H, EInt.addI, prob]
    · simp only [prob] at hd
      simp at hd
      rcases hd with rfl | rfl | rfl <;> simp [H, EInt.addI, prob, cost1, cost2] <;> omega
    · simp [H, EInt.addI, prob]
  · intro k L s hnv _
    simp only [prob] at hnv
    split at hnv
    · cases hnv
    · next hk =>
      have h1 : ¬ k < 2 := by omega
      have h2 : ¬ k = 2 := by omega
      simp [H, h1, h2]

theorem rubOk : RubOk rlx H := by
  intro k s h hH
  have := cost2_le s
  simp only [H] at hH
  split at hH
  · simp only [Option.some.injEq] at hH; simp only [rlx]; omega
  · split at hH <;> (simp only [Option.some.injEq] at hH; simp only [rlx]; omega)

theorem mergeOk : MergeOk rlx H := by
  intro k X u src d c h _ hH
  have := cost2_le u
  simp only [H] at hH ⊢
  split at hH
  · next hk => simp only [Option.some.injEq] at hH; exact ⟨5, by simp [hk], by simp only [rlx]; omega⟩
  · next hk =>
    split at hH
    · next hk2 =>
      simp only [Option.some.injEq] at hH
      exact ⟨2, by simp [hk2, rlx, cost2], by simp only [rlx]; omega⟩
    · next hk2 =>
      simp only [Option.some.injEq] at hH
      exact ⟨0, by simp [hk, hk2], by simp only [rlx]; omega⟩

theorem noClamp {a : Int} (ha : 0 ≤ a ∧ a ≤ 3) : NoClamp (prob a) rlx (cfg a).root.value 5 := by
  constructor
  · decide
  · show -5 ≤ (0 : Int) ∧ (0 : Int) ≤ 5; decide
  · intro s s' d
    have := cost1_le ha d.val
    have := cost2_le s
    simp only [prob]
    split
    · omega
    · split <;> omega
  · intro s u m d c hc; exact hc
  · show (((3 : Nat) : Int) + 2) * 5 ≤ 4611686018427387904; decide

theorem attMerge {a : Int} (ha : 0 ≤ a ∧ a ≤ 3) : AttMerge (prob a) rlx H :=
  attMerge_of_static (potential ha) (fun _ _ _ _ _ => rfl)

/-- `a = 2`: a merge happens, no terminal node is flagged exact, the best terminal node has an exact best path for every
    resolution of the ties: the `must` result declares itself exact, and `relaxed_exact_solution` applies -/
theorem must_example :
    (compile (cfg 2) (Cache.init 3) (DomStore.init 3) 0 none).2.2.2.lel = some 1 ∧
    (compile (cfg 2) (Cache.init 3) (DomStore.init 3) 0 none).2.2.2.next.all (fun n => !n.isExact) = true ∧
    (compile (cfg 2) (Cache.init 3) (DomStore.init 3) 0 none).2.1.isExact = true ∧
    (compile (cfg 2) (Cache.init 3) (DomStore.init 3) 0 none).2.1.bestExactSol = some [⟨2, 0⟩, ⟨1, 0⟩, ⟨0, 0⟩] ∧
    ∃ (k : Nat) (s : Int) (q : List Dec) (L : List Int),
      Reach (prob 2) k s 5 ([] ++ q) ∧ s ∈ L ∧ (prob 2).nextVar k L = none ∧
      (compile (cfg 2) (Cache.init 3) (DomStore.init 3) 0 none).2.1.bestExactSol = some ((cfg 2).root.path ++ q.reverse) :=
  ⟨by decide, by decide, by decide, by decide,
   relaxed_exact_solution (cfg 2) H 5 5 [] (Cache.init 3) (DomStore.init 3) 0 rfl rfl rfl (by decide)
    (potential (by decide)) rubOk mergeOk (attMerge (by decide)) (noClamp (by decide)) (by decide) .root rfl (by decide)
    (Or.inl (by decide)) (by decide) (by decide)⟩

/-- **the finding**, `a = 3`: every hypothesis of `relaxed_exact_truthful` holds with `o = 5 > lb = 0`; the `may` result exists,
    declares itself exact, reports the optimum — and a `bestExactSol` whose replay fails: decision `⟨2, 0⟩` is not in the
    domain of variable 2 in state 11 (the path runs through the merged node).  The replay of the path through the exact
    node (the one the implementation reports when its hash order gives `has_exact_best_path = true`) succeeds with value 5. -/
theorem finding :
    (cfg 3).ctype = .relaxed ∧ (cfg 3).useCache = false ∧ (cfg 3).dom = none ∧ 1 ≤ (cfg 3).width ∧
    Potential (cfg 3).P H ∧ RubOk (cfg 3).R H ∧ MergeOk (cfg 3).R H ∧ AttMerge (cfg 3).P (cfg 3).R H ∧
    NoClamp (cfg 3).P (cfg 3).R (cfg 3).root.value 5 ∧ InI (cfg 3).lb ∧
    Reach (cfg 3).P (cfg 3).root.depth (cfg 3).root.state (cfg 3).root.value [] ∧ optOf H (cfg 3).root = some 5 ∧
    5 > (cfg 3).lb ∧
    (compile (cfg 3) (Cache.init 3) (DomStore.init 3) 0 none).1 = .ok ∧
    (compile (cfg 3) (Cache.init 3) (DomStore.init 3) 0 none).2.1.isExact = false ∧
    (compile (cfg 3) (Cache.init 3) (DomStore.init 3) 0 none).2.2.1.map (·.isExact) = some true ∧
    (compile (cfg 3) (Cache.init 3) (DomStore.init 3) 0 none).2.2.1.map (·.bestExactValue) = some (some 5) ∧
    (compile (cfg 3) (Cache.init 3) (DomStore.init 3) 0 none).2.2.1.map (·.bestExactSol) =
      some (some [⟨2, 0⟩, ⟨1, 1⟩, ⟨0, 0⟩]) ∧
    evalFrom (prob 3) 0 0 0 [⟨0, 0⟩, ⟨1, 1⟩, ⟨2, 0⟩] = none ∧
    evalFrom (prob 3) 0 0 0 [⟨0, 0⟩, ⟨1, 0⟩, ⟨2, 0⟩] = some (100, 5, 3) :=
  ⟨rfl, rfl, rfl, by decide, potential (by decide), rubOk, mergeOk, attMerge (by decide), noClamp (by decide), by decide,
   .root, rfl, by decide, by decide, by decide, by decide, by decide, by decide, by decide, by decide⟩

/-- … while the value clause of the theorem applies to that `may` result -/
example (r : Result Int) (hr : (compile (cfg 3) (Cache.init 3) (DomStore.init 3) 0 none).2.2.1 = some r)
    (hex : r.isExact = true) : r.bestExactValue = some 5 ∧ r.bestValue = some 5 :=
  relaxed_exact_value (cfg 3) H 5 5 [] (Cache.init 3) (DomStore.init 3) 0 rfl rfl rfl (by decide)
    (potential (by decide)) rubOk mergeOk (attMerge (by decide)) (noClamp (by decide)) (by decide) .root rfl (by decide)
    (Or.inl (by decide)) (by decide) r (.inr hr) hex

end Tie

end Ddo.C06

#print axioms Ddo.C06.relaxed_exact_truthful_rel
#print axioms Ddo.C06.relaxed_exact_truthful
#print axioms Ddo.C06.relaxed_exact_value
#print axioms Ddo.C06.relaxed_exact_solution
#print axioms Ddo.C06.relaxed_nomerge_truthful
#print axioms Ddo.C06.Tie.finding
#print axioms Ddo.C06.Tie.must_example
