import DdoModel.Width
/-! # C13 (part 1) — the width-heuristic combinators never yield a width of zero

`WExpr.eval` models arbitrarily nested `Times` / `DivBy` / `FixedWidth` / `NbUnassignedWidth`
(`implementation/heuristics/width.rs`); `none` = the Rust call panics (division by zero, checked
`usize` overflow / underflow).  Whenever a combinator returns, it returns at least 1. -/
namespace Ddo.C13

theorem times_pos (k : Nat) (i : Option Nat) (r : Nat) (h : times k i = some r) : 1 ≤ r := by
  unfold times at h
  split at h
  · cases h
  · split at h
    · injection h with h; omega
    · cases h

theorem divBy_pos (k : Nat) (i : Option Nat) (r : Nat) (h : divBy k i = some r) : 1 ≤ r := by
  unfold divBy at h
  split at h
  · cases h
  · split at h
    · cases h
    · injection h with h; omega

/-- the property's last sentence, for every nesting and every sub-problem (path length) -/
theorem combinator_never_zero (e : WExpr) (pathLen r : Nat) (hc : e.isCombinator = true)
    (h : e.eval pathLen = some r) : 1 ≤ r := by
  cases e with
  | fixed w => cases hc
  | nbUnassigned n => cases hc
  | times k e => exact times_pos k _ r h
  | divBy k e => exact divBy_pos k _ r h

/-- `DivBy(0, _)` is rejected (panics) rather than totalised -/
theorem divBy_zero_crashes (i : Option Nat) : divBy 0 i = none := by
  unfold divBy; split <;> simp

/-- results fit in a `usize` when the inner width does -/
theorem times_le_uMax (k : Nat) (i : Option Nat) (r : Nat) (h : times k i = some r) : r ≤ uMax := by
  unfold times at h
  split at h
  · cases h
  · split at h
    · injection h with h; unfold uMax at *; omega
    · cases h

example : (WExpr.times 0 (.fixed 5)).eval 0 = some 1 := by decide
example : (WExpr.divBy 7 (.nbUnassigned 3)).eval 1 = some 1 := by decide
example : (WExpr.divBy 0 (.fixed 3)).eval 0 = none := by decide

end Ddo.C13
