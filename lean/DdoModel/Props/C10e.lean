import DdoModel.Props.C10d
import DdoModel.Proofs.CompatProcessPot
import DdoModel.Proofs.CompatProcessAbs
import DdoModel.Proofs.CompatProcessGlue
import DdoModel.Proofs.CompatProcess
import DdoModel.Proofs.CompatProcessEasy
import DdoModel.Proofs.CompatAnyOrder
import DdoModel.Proofs.CompatProcessRel
import DdoModel.Proofs.CompatProcessFresh
import DdoModel.Proofs.CompatThetaX
import DdoModel.Proofs.CompatThetaRoot
import DdoModel.Proofs.CompatThetaUb
import DdoModel.Proofs.CompatBuiltQ
import DdoModel.Proofs.CompatBuiltK2
import DdoModel.Proofs.CompatContractTest
/-! # C09 + C10 together, repaired statement — **closed**: `caching_dominance_solver_correct_mono`

`Props/C10d.lean` refuted `CachingDominanceCompat` as stated (`Shadow`: the rough upper bound of a never-reached state) and reduced the
repaired joint statement `CachingDominanceCompatMono` (cache **and** dominance checker; `SimAll` rule, static order, rule-maximal merge,
potential monotone in the rule's order — `PotMono`) to `CompatProcessME`: the clauses *main* and *entries* of the joint invariant
`CompatInv` survive a turn that compiles the popped node.  This file closes it:

* **`caching_dominance_solver_correct_mono : CachingDominanceCompatMono`** — for every `WellFormed` model, every `SimAll` rule with a
  static order, a rule-maximal merge operator and a potential that is monotone in the rule's order, the sequential solver with
  `SimpleCache` **and** `SimpleDominanceChecker` over the diagram model, popping best-first, both cut-set kinds, both fringes,
  terminates, never panics, and ends with the optimum, a feasible stored solution and `is_exact = true`;
* **`caching_dominance_solver_correct_mono_anyorder`** — the same for **every pop order** (`KDStepAny`: a custom ranking, the parallel
  solver processing out of order — the situation of finding D14);
* `kdsolveLoop_computes_opt_mono` — the executable-loop form; `Kp.correct` — the knapsack model of the `ddo` documentation, every width
  `≥ 1`, both fringes, both cut-set kinds (non-vacuity; the value is also `decide`d for widths 1 – 3: `Ddo.C10c.Kp.joint_value`);
* `jointContract : JointContract`, `compatProcessME : CompatProcessME`, `compatTurn : CompatTurn` — the named obligations of
  `Props/C10d.lean` and of this development, all theorems now.

## the pieces

* **The pseudo-potential** (`Proofs/CompatProcessPot.lean`).  `gpot k s = opt − (least v with GAbove k s v)`: "`(s, v)` is `GAbove`" ⟺
  "`v + gpot k s ≥ opt`" (`gpot_spec`).  It has the potential properties the single-compilation machinery of C09 consumes — `att` on
  **every** state (`gpot_att_L`), `MergeOk` (`gpot_MergeOk`, from `MergeCompat`), `RubOk` (`gpot_RubOk`, from `PotMono`: the step
  `Shadow` breaks), `0` at the terminal depth when defined (`gpot_term_L`), `≤ opt` on exactly reached items (`gpot_reach_le`) — and
  the one property that makes the checker harmless: **a dominated item is not hot** (`gpot_dominated`: `v + gpot ≤ opt − 1`).  It does
  *not* satisfy `Potential.le`; nothing below needs it.
* **The abstract step** (`Proofs/CompatProcessAbs.lean`, `step_me`): the step `step_generic` of the caching solver
  (`Proofs/SeqCache.lean`) read at the single level `opt` of an abstract potential, for both fringes (a new fringe that *dominates*
  the old one and the cut-set nodes worth enqueuing), **any popped node**, from the contract `JCompC` of one compilation: `exact` /
  `cover`, `theta`, `ub`, `fresh`, `exactCut`, `rng`, `deeper`.
* **The glue** (`Proofs/CompatProcessGlue.lean`): `kdprocess_shape` (what a compiled turn computes, with the views of the caches),
  `processME_of_contract` (restricted compilation exact: one step with its contract; otherwise it records no threshold —
  `restricted_inexact_no_ups` — and one step with the contract of the relaxed compilation; `must_explore`, `clear_layer`, the two
  `maybe_update_best`, `enqueue_cutset` of either fringe).
* **The reduction** (`Proofs/CompatProcess.lean`): `compatProcessME_of_jointContract : JointContract → CompatProcessME`,
  `cachingDominanceCompatMono_of_jointContract`, and the split of the contract into fields (`jointContract_of_fields`).
* **The easy fields** (`Proofs/CompatProcessEasy.lean`, `jcEasy : JCEasy`): for any cache and checker the cut-set of an exact relaxed
  diagram holds nothing whose bound reaches `opt` while the incumbent is below `opt` (`exactCut_any`, `cutset_ub_le_bestValue`), an
  exact restricted diagram has an empty cut-set, cut-set nodes are exactly reached, in range and strictly deeper than the root.

* **Every pop order** (`Proofs/CompatAnyOrder.lean`): no step above uses a best-first pop (`compatInv_turn`: one turn, any popped node,
  preserves `CompatInv`); `KDStepAny`, `KDRunAny`, `JointCorrectAny`, `jointCorrectAny_of_jointContract` — the situation of finding D14
  (a custom ranking, the parallel solver processing out of order) is covered by the same four statements.

* **Relaxed compilations only** (`Proofs/CompatProcessRel.lean`): an exact restricted compilation is the relaxed compilation of the same
  input (`restricted_exact_as_relaxed`, any cache and checker), so each remaining field is needed for `ctype = .relaxed` only
  (`fieldHolds_of_relaxed`; `JCThetaX`, `JCRootX`, `JCUbX`, `JCFreshX`).
* **`JCFresh`** (`Proofs/CompatProcessFreshA.lean`, `Proofs/CompatProcessFresh.lean`, `jcFresh`): a cut-set node whose bound reaches
  `opt` is accepted by `must_explore` after the updates of its own compilation — for ANY cache, ANY checker and store
  (`fresh_contract_joint`).  New joint loop invariant `KJ` (`buildLoop_kj`).  `built_distinct` of the single-mechanism proof is
  **false** with the checker on (the merged node of `_relax` may carry the state of a node the checker dropped, which is neither
  deleted nor pruned); it is replaced by `DistX`: the nodes of a layer that are not flagged relaxed have pairwise distinct states.
* **The core of `JCTheta`, `JCRoot`, `JCUb`** (`Proofs/CompatThetaCore.lean`, `CompatTheta.lean`, `CompatThetaX.lean`,
  `CompatThetaRoot.lean`, `CompatThetaUb.lean`): the downward induction of `Proofs/ThetaCore.lean` with one more class of nodes —
  `Drop`: dropped by the checker, not deleted, not flagged `cache`, never expanded, keeping the threshold of the verdict, below which
  nothing is hot (`gpot_dominated`) — for the pseudo-potential at the level `opt − 1`, and its reading on `compile`:
  `jcTheta_of`, `jcRoot_of : BuiltOkJoint → …`, `jcUb_of : BuiltOkJointK → JCUb`.

* **The top-down invariant with both filters** (`Proofs/CompatBuiltA … CompatBuiltK2.lean`, `builtOkJoint`, `builtOkJointK`):
  `Ddo.Theta.compile_doneT` + `builtOk_of_done` (`Proofs/ThetaBuild.lean`, `HypT.dom : cfg.dom = none`, `Potential`) redone with
  `_filter_with_dominance` in the loop and the pseudo-potential: one layer step = cache filter (`sqpostJ_fc`), checker filter
  (`sqpostJ_drop`, from a node-level description of the fold that `filterDom_spec` does not give — `filterDom_desc`, `query_thr`: the
  node dropped keeps exactly the verdict's threshold `t`, `value ≤ t`, and nothing `≤ t` is hot), `_relax` (`sqpostJ_relax`), expansion
  (`expand_tinvJ`); the side invariant `KArcM` (nothing marked, inbound arcs from alive positions) with the same classification.
  (A second, independent proof of `BuiltOkJoint` by stages — `StageFilterJ`, `StageRelaxJ`, `StageExpandJ` — was produced in parallel
  and is not included: same names.)

Hence `jointContract`, and through `Proofs/CompatProcess.lean`, `Proofs/CompatStore.lean`, `Proofs/CompatTurn.lean`,
`Proofs/CompatOrder.lean` and `Ddo.C10c.jointSound` the headline.  The conditional forms (`…_of : BuiltOkJointK → …`) are kept.
Unconditionally for ANY rule: `kdsolveLoop_total` / `kdsolveLoop_sound` — with cache and checker the loop reaches the empty fringe, does
not panic, and holds the value of a feasible solution.

## the shape of the argument, in one paragraph

Cache-only correctness (C09) is an invariant about *potentials*: what the cache prunes is carried by an open node.  With the checker on
that invariant is false (`Carrier`, `Twin`, `Shadow`): the carrier may be dropped.  The joint invariant keeps ONE level of it — "hot"
= at least as good, in the rule's order, as a protected item (`GAbove`), encoded as `v + gpot ≥ opt` — and at that level the checker is
a rough-bound test: what it drops is not hot (`gpot_dominated`), so its verdicts, and the thresholds derived from them, are sound for
the pseudo-incumbent `opt − 1`.  `MergeCompat` makes relaxed images of protected paths hot (`gpot_MergeOk`), `SimAll` makes hotness
propagate along a decision (`gpot_att_L`), `PotMono` keeps the rough upper bound from cutting a hot node (`gpot_RubOk` — the hypothesis
`Shadow` shows to be necessary).  Everything else is the C09 development replayed with a potential that is not a `Potential`.

**Evidence** (`Proofs/CompatContractTest.lean`, native, driver `/tmp/agent_compat/search`): the five fields of the contract are
evaluated, with the pseudo-potential computed from the protected family of the model, on every compilation that counts of every run —
see the session report for the counts; no field is ever violated on models inside the hypotheses (random models, arbitrary pop orders,
mutants of `Shadow` with the bound repaired), and `JCTheta` / `JCRoot` are violated on `Shadow`, as they must. -/
set_option linter.unusedSectionVars false
set_option linter.unusedVariables false
namespace Ddo.C10e
open Ddo Ddo.C01 Ddo.Closed Ddo.C09 Ddo.C10 Ddo.C10c Ddo.C10d

section loop
variable {S K : Type} [DecidableEq S] [DecidableEq K]

/-- with cache and checker, **any rule**: from any state that satisfies the soundness invariant, enough fuel brings the loop to the
    empty fringe -/
theorem kdsolveLoop_total {dv : DSolverCfg S K} {H : Nat → S → EInt} {B0 B : Int} (hwf : WellFormed dv.sv H B0 B) (s : KDSt S K) :
    JSInv dv H s → ∃ n, (dv.kdsolveLoop n s).st.fringe = [] := by
  refine (kdstep_terminates hwf).induction (C := fun s => JSInv dv H s → ∃ n, (dv.kdsolveLoop n s).st.fringe = []) s ?_
  intro s ih hI
  by_cases hne : s.st.fringe = []
  · exact ⟨0, hne⟩
  · obtain ⟨N, rest, hp⟩ := popMax_some s.st.fringe hne
    obtain ⟨hpop, hmax⟩ := popMax_spec s.st.fringe N rest hp
    obtain ⟨t, ht, hT, _⟩ := kdturn_inv hwf s N rest hpop hI
    obtain ⟨n, hn⟩ := ih t ⟨hI, KDStep.pop s t N rest hpop hmax ht⟩ hT
    refine ⟨n + 1, ?_⟩
    rw [DSolverCfg.kdsolveLoop]
    simp only [hp, ht]
    exact hn

/-- **the solver with cache and checker, as a function, any rule**: the loop reaches the empty fringe without panic and holds the
    value of a feasible solution, at most the optimum -/
theorem kdsolveLoop_sound (dv : DSolverCfg S K) (H : Nat → S → EInt) (B0 B : Int) (hwf : WellFormed dv.sv H B0 B) :
    ∃ n, (dv.kdsolveLoop n (KDSt.init dv)).st.fringe = [] ∧ (dv.kdsolveLoop n (KDSt.init dv)).st.crashed = false ∧
      (dv.kdsolveLoop n (KDSt.init dv)).st.abort = false ∧
      ∀ opt, (H 0 dv.sv.P.init).addI dv.sv.P.initVal = some opt →
        (dv.kdsolveLoop n (KDSt.init dv)).st.bestLb ≤ opt ∧
        ∀ p, (dv.kdsolveLoop n (KDSt.init dv)).st.bestSol = some p → SolOf dv.sv.P p (dv.kdsolveLoop n (KDSt.init dv)).st.bestLb := by
  obtain ⟨n, hn⟩ := kdsolveLoop_total hwf _ (init_jsinv hwf)
  have hI := kdrun_inv hwf (kdsolveLoop_run dv n _) (init_jsinv hwf)
  exact ⟨n, hn, hI.lay.2, hI.noAbort, hI.snd⟩

end loop

/-- **the repaired joint statement, from the four statements about one compilation that are left** -/
theorem caching_dominance_solver_correct_mono_of (hB : BuiltOkJointK) :
    CachingDominanceCompatMono :=
  cachingDominanceCompatMono_of_jointContract
    (jointContract_of_fields jcEasy (jcTheta_of (builtOkJoint_of_K hB)) (jcRoot_of (builtOkJoint_of_K hB)) (jcUb_of hB) jcFresh)

/-- the same **for every pop order** (`KDStepAny`: any entry of the fringe is popped) -/
theorem caching_dominance_solver_correct_mono_anyorder_of (hB : BuiltOkJointK)
    {S K : Type} [DecidableEq S] [DecidableEq K] (dv : DSolverCfg S K) (H : Nat → S → EInt) (B0 B opt : Int) (n : Nat)
    (hM : MonoHyp dv H B0 B opt n) : JointCorrectAny dv opt :=
  jointCorrectAny_of_jointContract
    (jointContract_of_fields jcEasy (jcTheta_of (builtOkJoint_of_K hB)) (jcRoot_of (builtOkJoint_of_K hB)) (jcUb_of hB) jcFresh) hM

/-- its executable-loop form: with enough fuel the loop ends with the empty fringe, no panic, `is_exact = true`, the optimum and a
    stored optimal solution -/
theorem kdsolveLoop_computes_opt_mono_of (hB : BuiltOkJointK)
    {S K : Type} [DecidableEq S] [DecidableEq K] (dv : DSolverCfg S K) (H : Nat → S → EInt) (B0 B opt : Int) (n : Nat)
    (hM : MonoHyp dv H B0 B opt n) :
    ∃ m, (dv.kdsolveLoop m (KDSt.init dv)).st.fringe = [] ∧ (dv.kdsolveLoop m (KDSt.init dv)).st.crashed = false ∧
      (dv.kdsolveLoop m (KDSt.init dv)).st.completion = (true, some opt) ∧
      ∃ p, (dv.kdsolveLoop m (KDSt.init dv)).st.bestSol = some p ∧ SolOf dv.sv.P p opt := by
  obtain ⟨m, hm⟩ := kdsolveLoop_total hM.wf _ (init_jsinv hM.wf)
  have hJC := caching_dominance_solver_correct_mono_of hB S K dv H B0 B opt n hM.wf hM.opt hM.dim hM.stat hM.sim hM.mc hM.mono
  obtain ⟨_, hc, hend⟩ := hJC.2.2 _ (kdsolveLoop_run dv m _)
  obtain ⟨_, hsol, hcomp⟩ := hend hm
  exact ⟨m, hm, hc, hcomp, hsol⟩

/-! ## the closed statements -/

/-- the contract of a single compilation with cache and checker holds -/
theorem jointContract : JointContract :=
  jointContract_of_fields jcEasy (jcTheta_of (builtOkJoint_of_K builtOkJointK)) (jcRoot_of (builtOkJoint_of_K builtOkJointK))
    (jcUb_of builtOkJointK) jcFresh

/-- the named obligations of `Props/C10d.lean` are theorems -/
theorem compatProcessME : CompatProcessME := compatProcessME_of_jointContract jointContract
theorem compatProcess : CompatProcess := compatProcess_of_me compatProcessME
theorem compatTurn : CompatTurn := compatTurn_of_process compatProcess

/-- **`caching_dominance_solver_correct_mono`** — the joint statement for the threshold cache and the dominance checker together:
    `WellFormed` model, static variable order, a rule that satisfies the simulation condition for all pairs (`SimAll`), a merge operator
    that is maximal for the rule (`MergeCompat`) and a potential that is monotone in the rule's order (`PotMono`: the rough upper bound
    is valid on every state the rule ranks above an exactly reached one).  The sequential solver with `SimpleCache` **and**
    `SimpleDominanceChecker`, best-first pops, both cut-set kinds, both fringes: the step relation is well-founded, there is no infinite
    run, a turn is always possible while the fringe is not empty, nothing panics, and at the empty fringe the solver holds the optimum,
    a feasible stored solution of that value and `is_exact = true`. -/
theorem caching_dominance_solver_correct_mono : CachingDominanceCompatMono :=
  caching_dominance_solver_correct_mono_of builtOkJointK

/-- **for every pop order** -/
theorem caching_dominance_solver_correct_mono_anyorder {S K : Type} [DecidableEq S] [DecidableEq K] (dv : DSolverCfg S K)
    (H : Nat → S → EInt) (B0 B opt : Int) (n : Nat) (hM : MonoHyp dv H B0 B opt n) : JointCorrectAny dv opt :=
  caching_dominance_solver_correct_mono_anyorder_of builtOkJointK dv H B0 B opt n hM

/-- **the solver with cache and checker, as a function, computes the optimum** -/
theorem kdsolveLoop_computes_opt_mono {S K : Type} [DecidableEq S] [DecidableEq K] (dv : DSolverCfg S K) (H : Nat → S → EInt)
    (B0 B opt : Int) (n : Nat) (hM : MonoHyp dv H B0 B opt n) :
    ∃ m, (dv.kdsolveLoop m (KDSt.init dv)).st.fringe = [] ∧ (dv.kdsolveLoop m (KDSt.init dv)).st.crashed = false ∧
      (dv.kdsolveLoop m (KDSt.init dv)).st.completion = (true, some opt) ∧
      ∃ p, (dv.kdsolveLoop m (KDSt.init dv)).st.bestSol = some p ∧ SolOf dv.sv.P p opt :=
  kdsolveLoop_computes_opt_mono_of builtOkJointK dv H B0 B opt n hM

/-- the hypothesis `PotMono` may be replaced by "`Potential.le` holds on every state" (the potential is the value-to-go of every
    state, reached or not: `Ddo.C10d.potMono_of_leAll`) -/
theorem caching_dominance_solver_correct_leAll {S K : Type} [DecidableEq S] [DecidableEq K] (dv : DSolverCfg S K) (H : Nat → S → EInt)
    (B0 B opt : Int) (n : Nat) (hwf : WellFormed dv.sv H B0 B) (hopt : (H 0 dv.sv.P.init).addI dv.sv.P.initVal = some opt)
    (hdim : ∀ s, dv.D.dims s = n) (hstat : StaticOrder dv.sv.P) (hsim : SimAll dv.D dv.sv.P n) (hmc : MergeCompat dv.D dv.sv.R n)
    (hle : PotLeAll dv.sv.P H) : JointCorrect dv opt :=
  caching_dominance_solver_correct_mono S K dv H B0 B opt n hwf hopt hdim hstat hsim hmc
    (potMono_of_leAll hwf.pot hle hwf.nv hstat hsim)

/-! ## non-vacuity: the knapsack model of the `ddo` documentation -/

namespace Kp
open Ddo.C10.Kp

/-- the hypotheses of the statement hold of the knapsack model, every width `≥ 1`, both fringes, both cut-set kinds -/
theorem monoHyp (w : Nat) (hw : 1 ≤ w) (dedup : Bool) (kind : CutsetKind) : MonoHyp (dv w dedup kind) H 5 20 6 1 := by
  obtain ⟨h1, h2, h3, h4, h5, h6, h7⟩ := Ddo.C10d.Kp.hypotheses w hw dedup kind
  exact ⟨h1, h2, h3, h4, h5, h6, h7⟩

/-- the instance of the conditional headline: the solver with cache and checker is correct on the knapsack model (optimum 6) for every
    width, as soon as the four single-compilation statements hold -/
theorem correct_of (hB : BuiltOkJointK) (w : Nat) (hw : 1 ≤ w) (dedup : Bool) (kind : CutsetKind) :
    JointCorrect (dv w dedup kind) 6 :=
  let h := monoHyp w hw dedup kind
  caching_dominance_solver_correct_mono_of hB Int Unit (dv w dedup kind) H 5 20 6 1 h.wf h.opt h.dim h.stat h.sim h.mc h.mono

/-- **the solver with cache and checker is correct on the knapsack model** (optimum 6), every width `≥ 1`, both fringes, both cut-set
    kinds -/
theorem correct (w : Nat) (hw : 1 ≤ w) (dedup : Bool) (kind : CutsetKind) : JointCorrect (dv w dedup kind) 6 :=
  correct_of builtOkJointK w hw dedup kind

/-- every best-first run on the knapsack model that reaches the empty fringe reports `is_exact = true`, `Some(6)` -/
theorem correct_run (w : Nat) (hw : 1 ≤ w) (dedup : Bool) (kind : CutsetKind) (t : KDSt Int Unit)
    (ht : KDRun (dv w dedup kind) (KDSt.init (dv w dedup kind)) t) (hend : t.st.fringe = []) :
    t.st.completion = (true, some 6) :=
  (((correct w hw dedup kind).2.2 t ht).2.2 hend).2.2

/-- unconditionally, any width `≥ 1`: the loop ends, does not panic and holds the value of a feasible packing, at most 6 -/
theorem sound (w : Nat) (hw : 1 ≤ w) (dedup : Bool) (kind : CutsetKind) :
    ∃ m, ((dv w dedup kind).kdsolveLoop m (KDSt.init (dv w dedup kind))).st.fringe = [] ∧
      ((dv w dedup kind).kdsolveLoop m (KDSt.init (dv w dedup kind))).st.crashed = false ∧
      ((dv w dedup kind).kdsolveLoop m (KDSt.init (dv w dedup kind))).st.bestLb ≤ 6 := by
  obtain ⟨m, h1, h2, _, h4⟩ := kdsolveLoop_sound (dv w dedup kind) H 5 20 (monoHyp w hw dedup kind).wf
  exact ⟨m, h1, h2, (h4 6 (monoHyp w hw dedup kind).opt).1⟩

end Kp

end Ddo.C10e

#print axioms Ddo.C10d.gpot_spec
#print axioms Ddo.C10d.gpot_att_L
#print axioms Ddo.C10d.gpot_MergeOk
#print axioms Ddo.C10d.gpot_RubOk
#print axioms Ddo.C10d.gpot_term_L
#print axioms Ddo.C10d.gpot_reach_le
#print axioms Ddo.C10d.gpot_dominated
#print axioms Ddo.C10d.step_me
#print axioms Ddo.C10d.kdprocess_shape
#print axioms Ddo.C10d.processME_of_contract
#print axioms Ddo.C10d.compatProcessME_of_jointContract
#print axioms Ddo.C10d.cachingDominanceCompatMono_of_jointContract
#print axioms Ddo.C10d.jointContract_of_fields
#print axioms Ddo.C10d.cutset_ub_le_bestValue
#print axioms Ddo.C10d.exactCut_any
#print axioms Ddo.C10d.jcEasy
#print axioms Ddo.C10d.fieldHolds_of_relaxed
#print axioms Ddo.C10d.jcTheta_of_relaxed
#print axioms Ddo.C10d.buildLoop_kj
#print axioms Ddo.C10d.fresh_contract_joint
#print axioms Ddo.C10d.jcFresh
#print axioms Ddo.C10d.jcTheta_of
#print axioms Ddo.C10d.jcRoot_of
#print axioms Ddo.C10d.jcUb_of
#print axioms Ddo.C10e.kdsolveLoop_total
#print axioms Ddo.C10e.kdsolveLoop_sound
#print axioms Ddo.C10e.caching_dominance_solver_correct_mono_of
#print axioms Ddo.C10d.compatInv_turn
#print axioms Ddo.C10d.jointCorrectAny_of_jointContract
#print axioms Ddo.C10e.caching_dominance_solver_correct_mono_anyorder_of
#print axioms Ddo.C10e.kdsolveLoop_computes_opt_mono_of
#print axioms Ddo.C10d.builtOkJoint
#print axioms Ddo.C10d.builtOkJointK
#print axioms Ddo.C10e.jointContract
#print axioms Ddo.C10e.compatProcessME
#print axioms Ddo.C10e.compatTurn
#print axioms Ddo.C10e.caching_dominance_solver_correct_mono
#print axioms Ddo.C10e.caching_dominance_solver_correct_mono_anyorder
#print axioms Ddo.C10e.kdsolveLoop_computes_opt_mono
#print axioms Ddo.C10e.caching_dominance_solver_correct_leAll
#print axioms Ddo.C10e.Kp.monoHyp
#print axioms Ddo.C10e.Kp.correct
#print axioms Ddo.C10e.Kp.correct_run
#print axioms Ddo.C10e.Kp.correct_of
#print axioms Ddo.C10e.Kp.sound
