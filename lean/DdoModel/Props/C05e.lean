import DdoModel.Proofs.ParCacheCutTerm
import DdoModel.Proofs.ParCacheCutProg
import DdoModel.Proofs.ParCacheCutWitness
import DdoModel.Props.C09e
/-! # C05 (parallel solver WITH the threshold cache) — the cut-off

`Ddo.C09e.parallel_caching_solver_correct` closes the parallel solver with `SimpleCache` for every interleaving **without**
cut-off.  Here the cut-off is added to that system (`Proofs/ParCacheCutSys.lean`: `KStepC` = the 21 steps of `KStep` + `abortR`
/ `abortX` (`Err(reason)` from a compilation at any poll, then `abort_search(reason, node.ub)` **with** `shared.cache.clear()`
and `fringe.clear()`) + `gwAborted` (`get_workload` answers `Aborted` after its cleaning loop, before every other test) +
`notifyExit` (the aborting worker `break`s after its `notify_node_finished`)).

## proved, for every `WellFormed` model, `U ≥ 0` workers, every interleaving (single cache reads / writes included), every
## number of cut-offs at every position (`parallel_caching_cutoff_sound`)
* **termination**: the step relation is well-founded on the reachable states, there is no infinite run
  (`Proofs/ParCacheCutTerm.lean`: lexicographic `(flag, stages left once the flag is up, muK)`);
* **never panics, never deadlocks**, before and after an abort (`Proofs/ParCacheCutLay.lean`: `LayC`, the `ongoing` half of
  `LayInvK` + the cache shape + "nobody is in the pop loop" — `abort_search` clears the fringe WITHOUT touching
  `open_by_layer`, so the other half of `LayInvK` is false after an abort, and is not needed: `kstepC_layC`, `no_panicsC`;
  `Proofs/ParCacheCutProg.lean`: `kstepC_progress_after`); every run can be completed (`kpC_run_to_end`);
* in every reachable state, before and after any number of aborts (`KInvC`, `Proofs/ParCacheCutInv.lean`):
  `best_lb ≤ opt`, the stored solution is a feasible complete path of value `best_lb` (infeasible problem: nothing stored,
  no value reported), every compilation that ENDS after the abort is still the sound answer of the diagram model (`PCK`);
* `is_exact = true` is reported only if no abort happened, and then the state is a reachable state of the system WITHOUT
  cut-off, to which the whole of `parallel_caching_solver_correct` applies (optimum at `Complete` / at the return of
  `maximize()`, no panic, progress);
* **the cache after an abort**: `cache.clear()` empties it while other workers are compiling and WRITE thresholds afterwards.
  Harmless: no clause of `KInvC` mentions the cache or the fringe (the justification clauses of `KPInv` are dropped for good at
  the first abort — `reach` is all that is kept of them, guarded by the flag), the ghost log only grows, and the only steps
  that take a decision from the cache (`gwDrop` / `gwKeep`) sit behind `gwToPop`, which `gwAborted` pre-empts.

## `opt ≤ best_ub` after an abort is FALSE — finding, `parallel_caching_cutoff_ub_false`
Later aborts (`abort_proof.is_some()` accumulation) and every other step keep or raise the recorded bound
(`KStepC.flag`, `abortSearch_facts`, `krunC_flag_up`), so `opt ≤ best_ub` reduces to the FIRST abort, i.e. to a statement about the
reachable states of the system WITHOUT cut-off: `AbortBoundOk` (`parallel_caching_cutoff_bounds` is the conditional theorem).
**`AbortBoundOk` is false** (`abortBoundOk_false`), and so are both `opt ≤ best_ub` and `best_lb ≤ best_ub`
(`parallel_caching_cutoff_ub_false`): `Proofs/ParCacheCutWitness.lean` evaluates (`decide`) a run of a well-formed layered model
(a point mutant of `Layered.Hand.T`, optimum 6) with TWO workers in which every compilation reads the newest content of the
cache, to a state where worker 1 holds a node of bound 4 below which its restricted compilation has found the value 6 (not yet
published), worker 0 is compiling a node of bound 3, the fringe is empty and `best_lb = 2`.  Cut-off of worker 0:
`best_ub = max(3, upper_bounds = [3, 4], best_lb = 2) = 4 < 6`; worker 1 then publishes: `best_lb = 6 > best_ub = 4`; the run
is evaluated to the return of `maximize()`: `Completion (false, Some(6))`, `best_lb = 6`, `best_ub = 4`
(`CutWitness.complete_cutoff_run`).

Mechanism.  With the cache, the bound of a sub-problem is computed in a diagram **cut by the cache**: `CompC.ub` only gives
`pot(c) ≤ c.ub ∨ CacheCov …` (what was pruned below `c` is carried elsewhere, strictly deeper), and the invariant keeps even that
only for nodes the cache can still refuse or that were just popped (`KPInv.ub`: `Prunable ∨ Fresh`).  `abort_search` however takes
`upper_bounds[j] = n_j.ub` of every node in a hand **as a valid bound of everything below `n_j`**.  It is not: the worker that
compiles `n_j` can find more below it than `n_j.ub` (here 6 > 4), and the "elsewhere" that justified the cut can have been
closed since by this very worker's thresholds (they are justified by its pending value / pending cut-set).  Two shapes:
 (a) the optimum is an exact value in a worker's hand, not yet published (`pendVal`; the evaluated run);
 (b) the optimum is carried only by a node of a worker's pending cut-set (`c.ub ≥ opt` but `n_j.ub < opt`; since the repair of
     D14 `enqueue_cutset` does not cap `c.ub` by `n_j.ub`, and the enqueue happens after the abort) — seen by the search driver
     (`tags = [0, 8, 13]`, bound 5 < 6), not turned into a theorem.
Found by a schedule search over mutants of the D14 tables (scratch driver on top of `ParCache.Search`: the bound an `abort_search`
would record is checked at every state; 15 violating runs in ≈ 110 000, U = 2 and U = 3, both fringes, both cut-set kinds).
The sequential caching solver is immune (its bound is the popped maximum of the fringe, `C05.RepOk`); the cache-less parallel
solver too (`UbOk` is unconditional there: `sys_cutoff_bounds`).  NOT reproduced on the Rust code (the window is between the
return of `compile` and `maybe_update_best` of one thread, during which another thread must call `abort_search`).
A repair has to make the recorded bound cover what is found or enqueued after the abort (e.g. `best_ub = max(best_ub, best_lb)`
in `maybe_update_best` and `best_ub = max(best_ub, node.ub)` in `enqueue_cutset` once `abort_proof` is set) — not attempted. -/
set_option linter.unusedSectionVars false
set_option linter.unusedVariables false
namespace Ddo.C05e
open Ddo Ddo.Truth Ddo.Closed Ddo.ParSys Ddo.ParClosed Ddo.ParCache Ddo.C09
open Ddo.C01 (SolverCfg WellFormed toOut SolOf)
variable {S : Type} [DecidableEq S]

/-- `KInvC` holds in every reachable state of the system with cut-off -/
theorem kprunC_inv {sv : SolverCfg S} {H : Nat → S → EInt} {B0 B : Int} (hwf : WellFormed sv H B0 B) (U : Nat) {t : KSysC S}
    (ht : KPRunC sv (KSysC.init sv.P sv.dedup U) t) : KInvC sv H B U t := by
  induction ht with
  | refl => exact init_kinvC hwf U
  | tail _ hst ih => exact kpstepC_kinvC hwf hst ih

/-- **termination**: the step relation of the parallel caching solver with cut-off, on the reachable states, is well-founded -/
theorem kpC_terminates {sv : SolverCfg S} {H : Nat → S → EInt} {B0 B : Int} (hwf : WellFormed sv H B0 B) (U : Nat) :
    WellFounded (fun t s : KSysC S => KPRunC sv (KSysC.init sv.P sv.dedup U) s ∧ KPStepC sv s t) :=
  Subrelation.wf
    (fun {_ _} h => ⟨h.2, C09e.pck_progOkK hwf (kprunC_inv hwf U h.1).pck, (kprunC_inv hwf U h.1).exitsUp⟩)
    (ksysC_terminates' sv.P.nbVars sv.dedup (okRk sv) (okXk sv))

/-- … there is no infinite run (any interleaving, any number of cut-offs at any position) -/
theorem kpC_no_infinite_run {sv : SolverCfg S} {H : Nat → S → EInt} {B0 B : Int} (hwf : WellFormed sv H B0 B) (U : Nat)
    (run : Nat → KSysC S) (h0 : run 0 = KSysC.init sv.P sv.dedup U) : ¬ ∀ k, KPStepC sv (run k) (run (k + 1)) := by
  intro hrun
  have hreach : ∀ k, KPRunC sv (KSysC.init sv.P sv.dedup U) (run k) := by
    intro k
    induction k with
    | zero => rw [h0]; exact KRunC.refl _
    | succ k ih => exact KRunC.tail ih (hrun k)
  exact no_infinite_chain (kpC_terminates hwf U) run (fun k => ⟨hreach k, hrun k⟩)

/-! ## never panics, never deadlocks — before and after an abort -/

/-- as long as the flag is down (then `exits` is empty) a step of the system without cut-off is a step of the system with -/
theorem KStep.toC {nbVars : Nat} {dedup : Bool} {okR okX : SubP S → Int → Cache S → DDOut S → List (Up S) → Prop}
    {s t : KSys S} (h : KStep nbVars dedup okR okX s t) (ha : s.crit.base.abort = false) (e : List Nat)
    (he : ∀ i, i ∉ e) : KStepC nbVars dedup okR okX ⟨s, e⟩ ⟨t, e⟩ := by
  cases h with
  | gwEnter i hw hl => exact .gwEnter s e i hw hl
  | gwClear i c' hw hc hcl => exact .gwClear s e i c' hw hc hcl
  | gwComplete i hw hc ho hf => exact .gwComplete s e i hw hc ha ho hf
  | gwWait i hw hc ho hf => exact .gwWait s e i hw hc ha ho hf
  | gwToPop i hw hc hf => exact .gwToPop s e i hw hc ha hf
  | gwEmpty i hw hf => exact .gwEmpty s e i hw hf
  | gwStarve i N rest hw hp hub => exact .gwStarve s e i N rest hw hp hub
  | gwDrop i N rest c' hw hp hub hme hd => exact .gwDrop s e i N rest c' hw hp hub hme hd
  | gwKeep i N rest hw hp hub hme => exact .gwKeep s e i N rest hw hp hub hme
  | gwTake i n c' crit' hw hu ht => exact .gwTake s e i n c' crit' hw hu ht
  | readLbR i n hw hl => exact .readLbR s e i n hw hl
  | compileR i n lb k0 cv o ups hw hcv hok => exact .compileR s e i n lb k0 cv o ups hw hcv hok
  | writeR i n lb o cv ups u todo c' hw hu => exact .writeR s e i n lb o cv ups u todo c' hw hu
  | updateR i n lb o cv ups hw hl => exact .updateR s e i n lb o cv ups hw hl
  | readLbX i n hw hl => exact .readLbX s e i n hw hl
  | compileX i n lb k0 cv o ups hw hcv hok => exact .compileX s e i n lb k0 cv o ups hw hcv hok
  | writeX i n lb o cv ups u todo c' hw hu => exact .writeX s e i n lb o cv ups u todo c' hw hu
  | updateX i n lb o cv ups hw hl => exact .updateX s e i n lb o cv ups hw hl
  | enqueue i n lb o cv ups hw hl => exact .enqueue s e i n lb o cv ups hw hl
  | notify i n c' hw hl hn => exact .notify s e i n c' hw hl (he i) hn
  | crash i w hw hp => exact .crash s e i w hw hp

/-- **the bookkeeping after an abort**: `LayC` holds in every reachable state in which the flag is up -/
theorem kprunC_layC {sv : SolverCfg S} {H : Nat → S → EInt} {B0 B : Int} (hwf : WellFormed sv H B0 B) (U : Nat) {t : KSysC S}
    (ht : KPRunC sv (KSysC.init sv.P sv.dedup U) t) : t.k.crit.base.abort = true → LayC sv.P.nbVars t.k := by
  induction ht with
  | refl => intro ha; cases ha
  | @tail s t hr hst ih =>
    have hI := kprunC_inv hwf U hr
    have hD := pck_depthOk hwf hI.pck
    intro ha
    cases hab : s.k.crit.base.abort with
    | true => exact kstepC_layC hst (ih hab) hD hab
    | false =>
      rcases hst.flag with ⟨h1, _⟩ | ⟨i, n, top, hw, hl, htop, e⟩
      · rw [h1, hab] at ha; cases ha
      · rw [e]
        have hL := layC_of_lay (kprun_inv hwf U (hI.reach hab)).lay hl
        obtain ⟨lb, k0, hw | hw⟩ := hw
        · exact abort_layC hL hw rfl top
        · exact abort_layC hL hw rfl top

/-- **never panics**: in every reachable state nobody has panicked and the next operation of no worker panics -/
theorem kpC_noPanic {sv : SolverCfg S} {H : Nat → S → EInt} {B0 B : Int} (hwf : WellFormed sv H B0 B) (U : Nat) {t : KSysC S}
    (ht : KPRunC sv (KSysC.init sv.P sv.dedup U) t) :
    NoPanic t.k ∧ ∀ (i : Nat) (w : KW S), t.k.ws[i]? = some w → ¬ Panics sv.P.nbVars t.k i w := by
  have hI := kprunC_inv hwf U ht
  have hD := pck_depthOk hwf hI.pck
  cases hab : t.k.crit.base.abort with
  | true =>
    have hL := kprunC_layC hwf U ht hab
    exact ⟨layC_noPanic hL, fun i w hw => no_panicsC hL hD hw⟩
  | false =>
    have hL := (kprun_inv hwf U (hI.reach hab)).lay
    exact ⟨layInvK_noPanic hL, fun i w hw => no_panics hL hD hw⟩

/-- **never deadlocks** (no lost wake-up, no panic ahead): in every reachable state in which some worker has not left its
    loop, some step that is not a panic is enabled -/
theorem kpC_progress {sv : SolverCfg S} {H : Nat → S → EInt} {B0 B : Int} (hwf : WellFormed sv H B0 B) (U : Nat) {t : KSysC S}
    (ht : KPRunC sv (KSysC.init sv.P sv.dedup U) t) (hlive : ¬ AllDone t.k) : ∃ u, KPStepC sv t u ∧ NoPanic u.k := by
  have hI := kprunC_inv hwf U ht
  have hD := pck_depthOk hwf hI.pck
  cases hab : t.k.crit.base.abort with
  | true =>
    obtain ⟨u, hu, hLu⟩ := kstepC_progress_after hwf (kprunC_layC hwf U ht hab) hD hab hlive
    exact ⟨u, hu, layC_noPanic hLu⟩
  | false =>
    obtain ⟨u0, hu0, hn⟩ := C09e.kp_progress hwf U (hI.reach hab) hlive
    obtain ⟨s, e⟩ := t
    refine ⟨⟨u0, e⟩, KStep.toC hu0 hab e (fun i hi => ?_), hn⟩
    have := hI.exitsUp i hi
    rw [hab] at this; cases this

/-- every run can be continued until every worker has left (termination + progress) -/
theorem kpC_run_to_end {sv : SolverCfg S} {H : Nat → S → EInt} {B0 B : Int} (hwf : WellFormed sv H B0 B) (U : Nat)
    {s : KSysC S} (hs : KPRunC sv (KSysC.init sv.P sv.dedup U) s) :
    ∃ t, KPRunC sv (KSysC.init sv.P sv.dedup U) t ∧ KPRunC sv s t ∧ AllDone t.k := by
  refine (kpC_terminates hwf U).induction
    (C := fun s => KPRunC sv (KSysC.init sv.P sv.dedup U) s →
      ∃ t, KPRunC sv (KSysC.init sv.P sv.dedup U) t ∧ KPRunC sv s t ∧ AllDone t.k) s ?_ hs
  intro s ih hs
  by_cases hd : AllDone s.k
  · exact ⟨s, hs, KRunC.refl _, hd⟩
  · obtain ⟨u, hu, _⟩ := kpC_progress hwf U hs hd
    obtain ⟨t, h1, h2, h3⟩ := ih u ⟨hs, hu⟩ (KRunC.tail hs hu)
    refine ⟨t, h1, ?_, h3⟩
    clear h1 h3 ih
    induction h2 with
    | refl => exact KRunC.tail (KRunC.refl _) hu
    | tail _ hst ih' => exact KRunC.tail ih' hst

/-- once the flag is up it stays up and the recorded bound never decreases -/
theorem krunC_flag_up {nbVars : Nat} {dedup : Bool} {okR okX : SubP S → Int → Cache S → DDOut S → List (Up S) → Prop}
    {s t : KSysC S} (h : KRunC nbVars dedup okR okX s t) (ha : s.k.crit.base.abort = true) :
    t.k.crit.base.abort = true ∧ s.k.crit.base.bestUb ≤ t.k.crit.base.bestUb := by
  induction h with
  | refl => exact ⟨ha, Int.le_refl _⟩
  | @tail t u _ hst ih =>
    obtain ⟨h1, h2⟩ := ih
    rcases hst.flag with ⟨f1, f2⟩ | ⟨i, n, top, _, _, _, e⟩
    · exact ⟨by rw [f1]; exact h1, by rw [f2 h1]; exact h2⟩
    · rw [e]
      have := (abortSearch_facts t.k.crit n.ub top).2.2.2.2.2 h1
      exact ⟨rfl, by show s.k.crit.base.bestUb ≤ (t.k.crit.abortSearch n.ub top).base.bestUb; omega⟩

/-- a run of the system without cut-off is a run of the system with cut-off in which no cut-off happens -/
theorem kprun_toC {sv : SolverCfg S} {H : Nat → S → EInt} {B0 B : Int} (hwf : WellFormed sv H B0 B) (U : Nat) {s : KSys S}
    (hs : KPRun sv (KSys.init sv.P sv.dedup U) s) : KPRunC sv (KSysC.init sv.P sv.dedup U) ⟨s, []⟩ := by
  induction hs with
  | refl => exact KRunC.refl _
  | tail hr hst ih =>
    exact KRunC.tail ih (KStep.toC hst (kprun_inv hwf U hr).lay.opn.noAbort [] (fun i hi => by cases hi))

/-- **`parallel_caching_cutoff_sound`** — the unconditional part of C05 for the parallel solver with the cache: for every
    well-formed model, every number of workers, every interleaving of the critical sections, of the steps inside
    `get_workload` and of the single cache reads / writes, and **cut-offs at any polls of any compilations**:

    * the system terminates (well-founded step relation on the reachable states; no infinite run);
    * in every reachable state `t` (`t.k` the solver, `t.exits` the workers that ran `abort_search`):
      - `KInvC` holds;
      - nothing has panicked, the next operation of no worker panics (`Panics`: every index in range, no `usize` underflow —
        also for the `open_by_layer[depth] += …` of an `enqueue_cutset` that runs after the abort and for the threshold
        writes into the cleared cache), and — no deadlock, no lost wake-up — some step that is not a panic is enabled unless
        every worker has left; after an abort the bookkeeping invariant `LayC` holds;
      - feasible problem, optimum `opt`: `best_lb ≤ opt` and the stored solution is a feasible complete path of value `best_lb`;
      - infeasible problem: nothing is stored, no value is reported;
      - `is_exact` (first component of `completion`) is `true` **iff** no abort happened; in that case `t.k` is a reachable
        state of the system WITHOUT cut-off — `parallel_caching_solver_correct` applies — and when `maximize()` returns
        (`AllDone`) the report is `(true, Some(opt))` with a feasible solution of value `opt` (`U ≥ 1`). -/
theorem parallel_caching_cutoff_sound (sv : SolverCfg S) (H : Nat → S → EInt) (B0 B : Int) (hwf : WellFormed sv H B0 B)
    (U : Nat) :
    WellFounded (fun t s : KSysC S => KPRunC sv (KSysC.init sv.P sv.dedup U) s ∧ KPStepC sv s t) ∧
    (∀ run : Nat → KSysC S, run 0 = KSysC.init sv.P sv.dedup U → ¬ ∀ k, KPStepC sv (run k) (run (k + 1))) ∧
    ∀ t, KPRunC sv (KSysC.init sv.P sv.dedup U) t →
      KInvC sv H B U t ∧
      (NoPanic t.k ∧ (∀ (i : Nat) (w : KW S), t.k.ws[i]? = some w → ¬ Panics sv.P.nbVars t.k i w) ∧
        (¬ AllDone t.k → ∃ u, KPStepC sv t u ∧ NoPanic u.k)) ∧
      (t.k.crit.base.abort = true → LayC sv.P.nbVars t.k) ∧
      (∀ opt, (H 0 sv.P.init).addI sv.P.initVal = some opt →
        t.k.crit.base.bestLb ≤ opt ∧ (∀ p, t.k.crit.base.bestSol = some p → SolOf sv.P p t.k.crit.base.bestLb)) ∧
      ((H 0 sv.P.init).addI sv.P.initVal = none → t.k.crit.base.bestSol = none ∧ t.k.crit.base.completion.2 = none) ∧
      (t.k.crit.base.completion.1 = true ↔ t.k.crit.base.abort = false) ∧
      (t.k.crit.base.abort = false → KPRun sv (KSys.init sv.P sv.dedup U) t.k) ∧
      (t.k.crit.base.completion.1 = true → 1 ≤ U → AllDone t.k →
        ∀ opt, (H 0 sv.P.init).addI sv.P.initVal = some opt →
          t.k.crit.base.completion = (true, some opt) ∧ t.k.crit.base.bestLb = opt ∧
          ∃ p, t.k.crit.base.bestSol = some p ∧ SolOf sv.P p opt) := by
  refine ⟨kpC_terminates hwf U, kpC_no_infinite_run hwf U, fun t ht => ?_⟩
  have hI := kprunC_inv hwf U ht
  have hex : t.k.crit.base.completion.1 = true ↔ t.k.crit.base.abort = false := by
    show (!t.k.crit.base.abort) = true ↔ _
    cases t.k.crit.base.abort <;> simp
  refine ⟨hI, ⟨(kpC_noPanic hwf U ht).1, (kpC_noPanic hwf U ht).2, kpC_progress hwf U ht⟩, kprunC_layC hwf U ht,
    fun opt hopt => ⟨(hI.snd opt hopt).lbOk, (hI.snd opt hopt).solOk⟩, fun hinf => ?_, hex, hI.reach, ?_⟩
  · have h2 := (hI.pck.base.infeas hinf).2
    refine ⟨h2, ?_⟩
    show t.k.crit.base.bestSol.map (fun _ => t.k.crit.base.bestLb) = none
    rw [h2]; rfl
  · intro hc hU hd opt hopt
    obtain ⟨h1, h2, h3⟩ := C09e.kp_final hwf hopt U hU (hI.reach (hex.mp hc)) hd
    exact ⟨h3, h1, h2⟩

/-! ## the content of the cache after an abort is irrelevant

`abortK` models `shared.cache.clear()` as ONE atomic step.  In the code it is a loop of per-layer `DashMap::clear()`s executed
under the mutex, with which the lock-free threshold writes of the other workers interleave (an entry written into a layer
already cleared survives, one written into a layer not yet cleared does not).  No clause proved here can tell the difference:
once the flag is up, the invariants `KInvC` and `LayC` survive the replacement of the shared cache by ANY cache of the same
shape (and the termination measure does not mention the cache). -/

/-- once the flag is up, `KInvC` and `LayC` are insensitive to the content of the shared cache -/
theorem cache_content_irrelevant {sv : SolverCfg S} {H : Nat → S → EInt} {B : Int} {U : Nat} {s : KSys S} {e : List Nat}
    (ha : s.crit.base.abort = true) (c' : Cache S) (hc : c'.layers.length = sv.P.nbVars + 1)
    (hI : KInvC sv H B U ⟨s, e⟩) (hL : LayC sv.P.nbVars s) :
    KInvC sv H B U ⟨{ s with cache := c', log := c' :: s.log }, e⟩ ∧
    LayC sv.P.nbVars { s with cache := c', log := c' :: s.log } :=
  ⟨⟨⟨hI.pck.base, hI.pck.ws⟩, (fun h => by have h : s.crit.base.abort = false := h; rw [ha] at h; cases h),
      (fun opt hopt => ⟨(hI.snd opt hopt).lbOk, (hI.snd opt hopt).solOk, (hI.snd opt hopt).ws⟩), hI.lbUb0, hI.exitsUp⟩,
    ⟨hL.hand, logK_push hL.lg hc, hL.openLen, hL.noPanic, hL.noPop⟩⟩

/-! ## the recorded bound -/

/-- **the remaining obligation for `opt ≤ best_ub`** — a statement about the reachable states of the system WITHOUT cut-off
    (`KPRun`, the system of `parallel_caching_solver_correct`): whenever a worker is compiling `n` and nobody is inside
    `get_workload`, the bound `abort_search(_, n.ub)` would record — `max` of `n.ub`, of `upper_bounds`, of the best bound of
    the fringe and of `best_lb` — is at least the optimum.  **False**: `abortBoundOk_false`. -/
def AbortBoundOk (sv : SolverCfg S) (H : Nat → S → EInt) (U : Nat) : Prop :=
  ∀ s, KPRun sv (KSys.init sv.P sv.dedup U) s → ∀ opt, (H 0 sv.P.init).addI sv.P.initVal = some opt →
    ∀ (i : Nat) (n : SubP S) (top : Option Int),
      (∃ lb k0, s.ws[i]? = some (.compR n lb k0) ∨ s.ws[i]? = some (.compX n lb k0)) → LockFree s →
      AbortTop s.crit.base.fringe top → opt ≤ (s.crit.abortSearch n.ub top).base.bestUb

/-- given the first-abort obligation, the recorded bound covers the optimum in every reachable state after an abort: later
    aborts accumulate (`abort_proof.is_some()`), no other step touches `best_ub` once the flag is up -/
theorem kprunC_ub {sv : SolverCfg S} {H : Nat → S → EInt} {B0 B : Int} (hwf : WellFormed sv H B0 B) (U : Nat)
    (hAB : AbortBoundOk sv H U) {t : KSysC S} (ht : KPRunC sv (KSysC.init sv.P sv.dedup U) t) :
    t.k.crit.base.abort = true → ∀ opt, (H 0 sv.P.init).addI sv.P.initVal = some opt → opt ≤ t.k.crit.base.bestUb := by
  induction ht with
  | refl => intro ha; cases ha
  | @tail s t hr hst ih =>
    have hI := kprunC_inv hwf U hr
    intro ha opt hopt
    rcases hst.flag with ⟨h1, h2⟩ | ⟨i, n, top, hw, hl, htop, e⟩
    · have ha' : s.k.crit.base.abort = true := by rw [← h1]; exact ha
      rw [h2 ha']; exact ih ha' opt hopt
    · rw [e]
      show opt ≤ (s.k.crit.abortSearch n.ub top).base.bestUb
      cases hab : s.k.crit.base.abort with
      | false => exact hAB _ (hI.reach hab) opt hopt i n top hw hl htop
      | true =>
        have h3 := (abortSearch_facts s.k.crit n.ub top).2.2.2.2.2 hab
        have h4 := ih hab opt hopt
        omega

/-- **`parallel_caching_cutoff_bounds`** (conditional on `AbortBoundOk`): at every reachable state with `abort = true` — in
    particular when `maximize()` returns after a cut-off — `best_lb ≤ best_ub`, and for a feasible problem
    `best_lb ≤ opt ≤ best_ub` with a feasible stored solution of value `best_lb`; `is_exact = false` is reported -/
theorem parallel_caching_cutoff_bounds (sv : SolverCfg S) (H : Nat → S → EInt) (B0 B : Int) (hwf : WellFormed sv H B0 B)
    (U : Nat) (hAB : AbortBoundOk sv H U) :
    ∀ t, KPRunC sv (KSysC.init sv.P sv.dedup U) t → t.k.crit.base.abort = true →
      t.k.crit.base.bestLb ≤ t.k.crit.base.bestUb ∧ t.k.crit.base.completion.1 = false ∧
      ∀ opt, (H 0 sv.P.init).addI sv.P.initVal = some opt →
        t.k.crit.base.bestLb ≤ opt ∧ opt ≤ t.k.crit.base.bestUb ∧
        ∀ p, t.k.crit.base.bestSol = some p → SolOf sv.P p t.k.crit.base.bestLb := by
  intro t ht ha
  have hI := kprunC_inv hwf U ht
  have hub := kprunC_ub hwf U hAB ht ha
  refine ⟨?_, by show (!t.k.crit.base.abort) = false; rw [ha]; rfl, fun opt hopt =>
    ⟨(hI.snd opt hopt).lbOk, hub opt hopt, (hI.snd opt hopt).solOk⟩⟩
  cases hf : (H 0 sv.P.init).addI sv.P.initVal with
  | none => exact hI.lbUb0 ha hf
  | some opt =>
    have h1 := (hI.snd opt hf).lbOk
    have h2 := hub opt hf
    omega

/-! ## … which does not hold: the finding -/

/-- **`AbortBoundOk` is false** for the well-formed model `CutWitness.sv` and two workers -/
theorem abortBoundOk_false : ¬ AbortBoundOk CutWitness.sv (Layered.H CutWitness.T) 2 := by
  intro h
  obtain ⟨s, i, n, lb, k0, hs, hw, hl, htop, hub⟩ := CutWitness.abort_bound_below_opt
  have := h s hs 6 CutWitness.opt6 i n none ⟨lb, k0, .inl hw⟩ hl htop
  omega

/-- **`parallel_caching_cutoff_ub_false`** — the bound clauses of C05 that mention `best_ub` FAIL for the parallel solver with
    the cache: there are a well-formed model (optimum 6), two workers and a run with ONE cut-off (every cache read fresh) that
    reaches a state with `abort_proof` set and `best_ub = 4 < opt`, one step later `best_ub = 4 < 6 ≤ best_lb`, and **returns**
    (every worker gone, nothing panicked) with `Completion { is_exact: false, best_value: Some(6) }`, `best_lb = 6`,
    `best_ub = 4` -/
theorem parallel_caching_cutoff_ub_false :
    ∃ (sv : SolverCfg Int) (H : Nat → Int → EInt) (B0 B : Int), WellFormed sv H B0 B ∧
      (H 0 sv.P.init).addI sv.P.initVal = some 6 ∧
      (∃ t, KPRunC sv (KSysC.init sv.P sv.dedup 2) t ∧ t.k.crit.base.abort = true ∧ t.k.crit.base.bestUb < 6) ∧
      (∃ t, KPRunC sv (KSysC.init sv.P sv.dedup 2) t ∧ t.k.crit.base.abort = true ∧
        t.k.crit.base.bestUb < t.k.crit.base.bestLb) ∧
      (∃ t, KPRunC sv (KSysC.init sv.P sv.dedup 2) t ∧ AllDone t.k ∧ NoPanic t.k ∧
        t.k.crit.base.completion = (false, some 6) ∧ t.k.crit.base.bestLb = 6 ∧ t.k.crit.base.bestUb = 4) := by
  obtain ⟨s1, s2, h1, h2, a1, u1, _, a2, u2, l2⟩ := CutWitness.cutoff_run
  obtain ⟨t, ht, hd, _, hc, hl, hu⟩ := CutWitness.complete_cutoff_run
  refine ⟨CutWitness.sv, Layered.H CutWitness.T, 5, 40, CutWitness.wellFormed, CutWitness.opt6,
    ⟨s1, h1, a1, by omega⟩, ⟨s2, KRunC.tail h1 h2, a2, by omega⟩,
    ⟨t, ht, hd, (kpC_noPanic CutWitness.wellFormed 2 ht).1, hc, hl, hu⟩⟩

/-! ## non-vacuity: a cut-off on `Trap` with two workers

The run `ParCache.TrapK` (`Proofs/ParCacheExec.lean`) up to step 32: worker 0 has processed the root and one cut-set node and is
idle, worker 1 is **inside its restricted compilation** of the node of bound 4 (`compR`), the fringe is empty, the incumbent is 1
(the optimum is 4).  The compilation is cut off there: `abortR` records `best_ub = 4`, clears the cache; every continuation
(`kpC_run_to_end`) ends with every worker gone, the flag up, `is_exact = false`, `1 ≤ best_lb ≤ 4 ≤ best_ub`. -/
namespace Trap2KC
open Ddo.C01.Trap

/-- the state in which the cut-off happens, and the bound `abort_search` records there -/
theorem cut_obs : lockFreeB (TrapK.at_ 32) = true ∧ (TrapK.at_ 32).crit.base.fringe = [] ∧
    (TrapK.at_ 32).crit.base.bestLb = 1 ∧
    (compRAt (TrapK.at_ 32) 1).map (fun x => (x.1.ub, ((TrapK.at_ 32).crit.abortSearch x.1.ub none).base.bestUb)) =
      some (4, 4) := by decide

/-- **a run with a cut-off exists, can be completed, and every completion of it reports sound bounds** -/
theorem cutoff_run :
    ∃ s, KPRunC (sv false .lel) (KSysC.init prob false 2) s ∧ s.k.crit.base.abort = true ∧ s.k.crit.base.bestUb = 4 ∧
      (∃ t, KPRunC (sv false .lel) s t ∧ AllDone t.k) ∧
      ∀ t, KPRunC (sv false .lel) (KSysC.init prob false 2) t → KPRunC (sv false .lel) s t →
        NoPanic t.k ∧ t.k.crit.base.completion.1 = false ∧ t.k.crit.base.bestLb ≤ 4 ∧ 4 ≤ t.k.crit.base.bestUb := by
  obtain ⟨h1, h2, _, h4⟩ := cut_obs
  cases hx : compRAt (TrapK.at_ 32) 1 with
  | none => rw [hx] at h4; cases h4
  | some x =>
    rw [hx] at h4
    have hub : ((TrapK.at_ 32).crit.abortSearch x.1.ub none).base.bestUb = 4 := by
      have := Option.some.inj h4
      exact (Prod.mk.inj this).2
    have hw := compRAt_sound hx
    have hl : LockFree (TrapK.at_ 32) := (lockFreeB_iff _).mp h1
    have hpre : KPRunC (sv false .lel) (KSysC.init prob false 2) ⟨TrapK.at_ 32, []⟩ :=
      kprun_toC (wellFormed false .lel) 2 (TrapK.reach 32)
    have hstep : KPStepC (sv false .lel) ⟨TrapK.at_ 32, []⟩ ⟨abortK (TrapK.at_ 32) 1 x.1 none, [1]⟩ :=
      KStepC.abortR (TrapK.at_ 32) [] 1 x.1 x.2.1 x.2.2 none hw hl (.inl ⟨h2, rfl⟩)
    have hs := KRunC.tail hpre hstep
    refine ⟨_, hs, rfl, hub, ?_, fun t ht hst => ?_⟩
    · obtain ⟨t, _, ht2, ht3⟩ := kpC_run_to_end (wellFormed false .lel) 2 hs
      exact ⟨t, ht2, ht3⟩
    · obtain ⟨f1, f2⟩ := krunC_flag_up hst rfl
      have f2 : ((TrapK.at_ 32).crit.abortSearch x.1.ub none).base.bestUb ≤ t.k.crit.base.bestUb := f2
      obtain ⟨_, ⟨np, _, _⟩, _, hf, _⟩ := (parallel_caching_cutoff_sound (sv false .lel) H 2 8 (wellFormed false .lel) 2).2.2 t ht
      refine ⟨np, ?_, (hf 4 rfl).1, by omega⟩
      show (!t.k.crit.base.abort) = false
      rw [f1]; rfl

end Trap2KC

end Ddo.C05e

#print axioms Ddo.ParCache.KStepC.toBase
#print axioms Ddo.ParCache.KStepC.flag
#print axioms Ddo.ParCache.kpstep_snd
#print axioms Ddo.ParCache.kpstepC_kinvC
#print axioms Ddo.ParCache.ksysC_terminates'
#print axioms Ddo.C05e.kprunC_inv
#print axioms Ddo.C05e.kpC_terminates
#print axioms Ddo.C05e.kpC_no_infinite_run
#print axioms Ddo.C05e.parallel_caching_cutoff_sound
#print axioms Ddo.C05e.kprunC_layC
#print axioms Ddo.C05e.kpC_noPanic
#print axioms Ddo.C05e.kpC_progress
#print axioms Ddo.C05e.kpC_run_to_end
#print axioms Ddo.C05e.krunC_flag_up
#print axioms Ddo.C05e.kprun_toC
#print axioms Ddo.C05e.Trap2KC.cutoff_run
#print axioms Ddo.C05e.cache_content_irrelevant
#print axioms Ddo.C05e.abortBoundOk_false
#print axioms Ddo.C05e.parallel_caching_cutoff_ub_false
#print axioms Ddo.C05e.kprunC_ub
#print axioms Ddo.C05e.parallel_caching_cutoff_bounds
