import DdoModel.Proofs.PooledInv
import DdoModel.Props.C12b
/-! # C12 over whole compilations of the pooled diagram — the callback protocol as a theorem

`ProtocolOkP P R rootDepth log` (`Proofs/PooledInv.lean`, §3) is the protocol of `Pooled<T>` as a predicate on the
chronological log of one compilation; `buildLoopP_protocol` / `compileP_protocol` prove it for **every** compilation of
the model `DdoModel/Pooled.lean` (any problem, relaxation, ranking, compilation type, width, cache, dominance rule,
cutoff, fuel).  No hypothesis.

The log is a sequence of layer blocks (`BlocksP`).  Block `j`
* opens with `next_variable (rootDepth + j, pool states)` (`nextVar_depths_pooled`), answer recorded faithfully;
* if the compilation goes on, continues with **one `is_impacted_by (var, s)` call per pool state `s`**, in pool order, for
  the variable `var` just selected — these are the only `is_impacted_by` calls (`protocolOkP_impacted`);
* then the body (`BodyOkP`, every call judged against its predecessors in the body by `CallOkP`): `fast_upper_bound`,
  `for_each_in_domain`, `transition`, `transition_cost` only for `var` and only on **states of the layer = pool states
  impacted by `var`** (or the state `merge` returned in this block) (`InLayerP`), `dst = transition (src, d)`,
  `d ∈ domain`, `transition` after the domain enumeration of its state, `transition_cost` right after its `transition`;
  `merge` — first call of the body, hence at most one per block — over at least two impacted pool states; every `relax`
  after the `merge` that produced its `merged` argument, with `dst` among the merged states, and for an **available arc**
  (`ArcAvail`).

**Differences with the clean protocol (`Ddo.C12.ProtocolOk`).**
1. `is_impacted_by` calls exist (`CallOk` forbids them), exactly as described above.
2. "States of the layer" are the *impacted* pool states, not all the states handed to `next_variable`.
3. `relax (src, dst, merged, d, c)`: in `Mdd` the arc `(src, dst, d, c)` was created by the *previous* block.  In
   `Pooled` it was created by *some* earlier block `j'`, and `dst` was in the pool of, and not impacted by the variable
   of, every block strictly between `j'` and the current one (`ArcAvail`, `arcAvail_iff`): a long arc.  `WitnessP`
   shows a `relax` call on an arc created two blocks earlier.
4. `StatesOkP`: a pool state handed to `next_variable` is the destination of a `transition_cost` call of the previous
   block **or** a pool state of the previous block not impacted by its variable (in `Mdd`: always the former).
5. `BlocksP.cut`: a compilation may stop right after a `next_variable` call that answered `some var` (cutoff, empty pool,
   crash) — no `is_impacted_by` call then (in `Mdd` this is a `block` with an empty body).
The depth clause is unchanged: block `j` is at depth `rootDepth + j` whether or not it materialises a layer. -/
set_option linter.unusedSectionVars false
set_option linter.unusedVariables false
namespace Ddo.C12
open Ddo Ddo.Pooled
variable {S K : Type} [DecidableEq S] [DecidableEq K]

/-! ## the theorem -/

/-- **C12 (whole compilation, pooled diagram), loop form.** -/
theorem buildLoopP_protocol (cfg : Cfg S K) (cache : Cache S) (store : DomStore S K) (polls : Nat)
    (stopAt : Option Nat) (fuel : Nat) :
    ProtocolOkP cfg.P cfg.R cfg.root.depth
      (buildLoopP cfg stopAt fuel (initPD cfg cache store polls)).1.log.reverse := by
  obtain ⟨tail, h1, h2, _⟩ := buildLoopP_blocks cfg stopAt fuel _ [] (initPD_loopInvP cfg cache store polls)
  rw [h1]
  exact h2

/-- the first call of a pooled compilation is `next_variable` on the root state alone, at the root depth -/
theorem buildLoopP_first_call (cfg : Cfg S K) (cache : Cache S) (store : DomStore S K) (polls : Nat)
    (stopAt : Option Nat) (fuel : Nat) :
    ∃ ans rest, (buildLoopP cfg stopAt (fuel + 1) (initPD cfg cache store polls)).1.log.reverse =
      Call.nextVar cfg.root.depth [cfg.root.state] ans :: rest := by
  obtain ⟨tail, h1, _, h3⟩ := buildLoopP_blocks cfg stopAt (fuel + 1) _ [] (initPD_loopInvP cfg cache store polls)
  obtain ⟨ans, rest, h4⟩ := h3 (Nat.succ_ne_zero _)
  exact ⟨ans, rest, by rw [h1, h4]; rfl⟩

/-- **C12 (whole compilation, pooled diagram).**  The chronological log of `compileP` — whatever its outcome —
    satisfies the pooled callback protocol. -/
theorem compileP_protocol (cfg : Cfg S K) (cache : Cache S) (store : DomStore S K) (polls : Nat) (stopAt : Option Nat) :
    ProtocolOkP cfg.P cfg.R cfg.root.depth (compileP cfg cache store polls stopAt).2.2.2.log.reverse := by
  rw [compileP_pd]
  exact buildLoopP_protocol cfg cache store polls stopAt _

/-! ## what `ProtocolOkP` says -/

theorem bodyOkP_iff (P : Problem S) (R : Relax S) (var : Nat) (states : List S) (prevs : List (Blk S))
    (body : List (Call S)) :
    BodyOkP P R var states prevs body ↔
      ∀ pre c post, body = pre ++ c :: post → CallOkP P R var states prevs pre c := by
  unfold BodyOkP LogOk
  simp only [List.nil_append]

theorem bodyOkP_mem {P : Problem S} {R : Relax S} {var : Nat} {states : List S} {prevs : List (Blk S)}
    {body : List (Call S)} (h : BodyOkP P R var states prevs body) {c : Call S} (hc : c ∈ body) :
    ∃ pre post, body = pre ++ c :: post ∧ CallOkP P R var states prevs pre c := by
  obtain ⟨pre, post, hb, hq⟩ := LogOk.mem h hc
  exact ⟨pre, post, hb, by rwa [List.nil_append] at hq⟩

/-- an available arc, unfolded: it was created by an earlier block `b` (`ArcFrom`), and its destination was in the pool
    of, and not impacted by the variable of, every block `b'` more recent than `b` -/
theorem arcAvail_iff (P : Problem S) (prevs : List (Blk S)) (src dst : S) (d : Dec) (c : Int) :
    ArcAvail P prevs src dst d c ↔
      ∃ pre b post, prevs = pre ++ b :: post ∧ ArcFrom P b.2.2 src dst d c ∧
        ∀ b' ∈ pre, dst ∈ b'.2.1 ∧ P.impacted b'.1 dst = false := by
  induction prevs with
  | nil =>
    refine ⟨fun h => False.elim h, ?_⟩
    rintro ⟨pre, b, post, h, _⟩
    cases pre <;> cases h
  | cons b0 more ih =>
    constructor
    · rintro (h | ⟨h1, h2, h3⟩)
      · exact ⟨[], b0, more, rfl, h, fun _ hb => by cases hb⟩
      · obtain ⟨pre, b, post, hp, ha, hs⟩ := ih.1 h3
        refine ⟨b0 :: pre, b, post, by rw [hp]; rfl, ha, fun b' hb' => ?_⟩
        rcases List.mem_cons.1 hb' with rfl | hb'
        · exact ⟨h1, h2⟩
        · exact hs b' hb'
    · rintro ⟨pre, b, post, hp, ha, hs⟩
      cases pre with
      | nil =>
        simp only [List.nil_append, List.cons.injEq] at hp
        exact .inl (hp.1 ▸ ha)
      | cons b1 pre' =>
        simp only [List.cons_append, List.cons.injEq] at hp
        obtain ⟨rfl, hp⟩ := hp
        exact .inr ⟨(hs _ List.mem_cons_self).1, (hs _ List.mem_cons_self).2,
          ih.2 ⟨pre', b, post, hp, ha, fun b' hb' => hs b' (List.mem_cons_of_mem _ hb')⟩⟩

/-- a non-empty conforming log starts with the `next_variable` call at the root depth, and records its answer -/
theorem protocolOkP_head {P : Problem S} {R : Relax S} {rootDepth : Nat} {c : Call S} {rest : List (Call S)}
    (h : ProtocolOkP P R rootDepth (c :: rest)) :
    ∃ states, c = Call.nextVar rootDepth states (P.nextVar rootDepth states) := by
  unfold ProtocolOkP at h
  generalize hl : c :: rest = log at h
  cases h with
  | done => cases hl
  | last _ _ states hnv _ =>
    simp only [List.cons.injEq] at hl
    exact ⟨states, by rw [hl.1, hnv]⟩
  | cut _ _ states var hnv _ =>
    simp only [List.cons.injEq] at hl
    exact ⟨states, by rw [hl.1, hnv]⟩
  | block _ _ states var body rest' hnv _ _ _ =>
    simp only [List.cons.injEq] at hl
    exact ⟨states, by rw [hl.1, hnv]⟩

theorem nextVarDepths_bodyP {P : Problem S} {R : Relax S} {var : Nat} {states : List S} {prevs : List (Blk S)}
    {body : List (Call S)} (h : BodyOkP P R var states prevs body) : nextVarDepths body = [] := by
  unfold nextVarDepths
  rw [List.filterMap_eq_nil_iff]
  intro c hc
  obtain ⟨pre, post, _, hq⟩ := LogOk.mem h hc
  cases c with
  | nextVar _ _ _ => exact False.elim hq
  | _ => rfl

theorem nextVarDepths_impacted (var : Nat) (states : List S) :
    nextVarDepths (states.map (Call.impacted var)) = [] := by
  unfold nextVarDepths
  rw [List.filterMap_eq_nil_iff]
  intro c hc
  obtain ⟨s, _, rfl⟩ := List.mem_map.1 hc
  rfl

theorem BlocksP.depths {P : Problem S} {R : Relax S} {k : Nat} {prevs : List (Blk S)} {log : List (Call S)}
    (h : BlocksP P R k prevs log) : ∃ n, nextVarDepths log = List.range' k n := by
  induction h with
  | done k prevs => exact ⟨0, rfl⟩
  | last k prevs states _ _ => exact ⟨1, rfl⟩
  | cut k prevs states var _ _ => exact ⟨1, rfl⟩
  | block k prevs states var body rest _ _ hb _ ih =>
    obtain ⟨n, hn⟩ := ih
    refine ⟨n + 1, ?_⟩
    have : nextVarDepths (Call.nextVar k states (some var) :: (states.map (Call.impacted var) ++ (body ++ rest))) =
        k :: (nextVarDepths (states.map (Call.impacted var)) ++ (nextVarDepths body ++ nextVarDepths rest)) := by
      unfold nextVarDepths
      rw [List.filterMap_cons, List.filterMap_append, List.filterMap_append]
    rw [this, nextVarDepths_bodyP hb, nextVarDepths_impacted, hn, List.nil_append, List.nil_append, List.range'_succ]

/-- **the depth clause**: the depths handed to `next_variable` during one pooled compilation are
    `rootDepth, rootDepth + 1, rootDepth + 2, …` — one per loop iteration, whether or not a layer is materialised -/
theorem nextVar_depths_pooled {P : Problem S} {R : Relax S} {rootDepth : Nat} {log : List (Call S)}
    (h : ProtocolOkP P R rootDepth log) : ∃ n, nextVarDepths log = List.range' rootDepth n :=
  BlocksP.depths h

/-- the `j`-th `next_variable` call receives the depth `rootDepth + j` -/
theorem nextVar_depth_at_pooled {P : Problem S} {R : Relax S} {rootDepth : Nat} {log : List (Call S)}
    (h : ProtocolOkP P R rootDepth log) (j d : Nat) (hj : (nextVarDepths log)[j]? = some d) : d = rootDepth + j := by
  obtain ⟨n, hn⟩ := nextVar_depths_pooled h
  rw [hn] at hj
  have hjn : j < n := by
    have := Cover.lt_of_getElem?_some hj
    simpa only [List.length_range'] using this
  rw [List.getElem?_range' hjn] at hj
  simp only [Option.some.injEq] at hj
  omega

/-- every earlier block known to a block of the log is itself part of the log (or of the `prevs` parameter) -/
def PrevsIn (log : List (Call S)) (prevs0 prevs : List (Blk S)) : Prop :=
  ∀ b ∈ prevs, b ∈ prevs0 ∨ ∃ k, Call.nextVar k b.2.1 (some b.1) ∈ log ∧ ∀ x ∈ b.2.2, x ∈ log

/-- every call of a conforming log is a `next_variable` call, one of the `is_impacted_by` calls that open a block, or
    belongs to the body of a block; the earlier blocks that block knows about are part of the log too -/
theorem BlocksP.mem_cases {P : Problem S} {R : Relax S} {k : Nat} {prevs : List (Blk S)} {log : List (Call S)}
    (h : BlocksP P R k prevs log) {c : Call S} (hc : c ∈ log) :
    (∃ d sts ans, c = Call.nextVar d sts ans) ∨
    ∃ k' var states prevs' body, Call.nextVar k' states (some var) ∈ log ∧ P.nextVar k' states = some var ∧
      BodyOkP P R var states prevs' body ∧ (∀ x ∈ body, x ∈ log) ∧ PrevsIn log prevs prevs' ∧
      ((∃ s ∈ states, c = Call.impacted var s) ∨ c ∈ body) := by
  induction h with
  | done k prevs => cases hc
  | last k prevs states _ _ =>
    rw [List.mem_singleton] at hc
    exact .inl ⟨_, _, _, hc⟩
  | cut k prevs states var _ _ =>
    rw [List.mem_singleton] at hc
    exact .inl ⟨_, _, _, hc⟩
  | block k prevs states var body rest hnv _ hb hrest ih =>
    have himp : ∀ x ∈ states.map (Call.impacted var),
        x ∈ Call.nextVar k states (some var) :: (states.map (Call.impacted var) ++ (body ++ rest)) :=
      fun x hx => List.mem_cons_of_mem _ (List.mem_append_left _ hx)
    have hbody : ∀ x ∈ body, x ∈ Call.nextVar k states (some var) :: (states.map (Call.impacted var) ++ (body ++ rest)) :=
      fun x hx => List.mem_cons_of_mem _ (List.mem_append_right _ (List.mem_append_left _ hx))
    have hrst : ∀ x ∈ rest, x ∈ Call.nextVar k states (some var) :: (states.map (Call.impacted var) ++ (body ++ rest)) :=
      fun x hx => List.mem_cons_of_mem _ (List.mem_append_right _ (List.mem_append_right _ hx))
    have hself : PrevsIn (Call.nextVar k states (some var) :: (states.map (Call.impacted var) ++ (body ++ rest)))
        prevs prevs := fun b hb => .inl hb
    rcases List.mem_cons.1 hc with hc | hc
    · exact .inl ⟨_, _, _, hc⟩
    · rcases List.mem_append.1 hc with hc | hc
      · obtain ⟨s, hs, rfl⟩ := List.mem_map.1 hc
        exact .inr ⟨k, var, states, prevs, body, List.mem_cons_self, hnv, hb, hbody, hself, .inl ⟨s, hs, rfl⟩⟩
      · rcases List.mem_append.1 hc with hc | hc
        · exact .inr ⟨k, var, states, prevs, body, List.mem_cons_self, hnv, hb, hbody, hself, .inr hc⟩
        · rcases ih hc with h1 | ⟨k', var', states', prevs', body', h1, h2, h3, h5, h6, h7⟩
          · exact .inl h1
          · refine .inr ⟨k', var', states', prevs', body', hrst _ h1, h2, h3, fun x hx => hrst x (h5 x hx), ?_, h7⟩
            intro b hbm
            rcases h6 b hbm with h8 | ⟨k'', h8, h9⟩
            · rcases List.mem_cons.1 h8 with rfl | h8
              · exact .inr ⟨k, List.mem_cons_self, hbody⟩
              · exact .inl h8
            · exact .inr ⟨k'', hrst _ h8, fun x hx => hrst x (h9 x hx)⟩

/-- **`is_impacted_by`**: only for the variable just selected by `next_variable`, only on the pool states handed to that
    call -/
theorem protocolOkP_impacted {P : Problem S} {R : Relax S} {rootDepth : Nat} {log : List (Call S)}
    (h : ProtocolOkP P R rootDepth log) {v : Nat} {s : S} (hc : Call.impacted v s ∈ log) :
    ∃ k states, Call.nextVar k states (some v) ∈ log ∧ P.nextVar k states = some v ∧ s ∈ states := by
  rcases BlocksP.mem_cases h hc with ⟨_, _, _, h1⟩ | ⟨k', var, states, prevs', body, h1, h2, h3, _, _, h7⟩
  · cases h1
  · rcases h7 with ⟨s', hs', he⟩ | h7
    · cases he
      exact ⟨k', states, h1, h2, hs'⟩
    · obtain ⟨_, _, _, hq⟩ := bodyOkP_mem h3 h7
      exact False.elim hq

/-- a state of the layer, on the whole log: an impacted pool state, or the result of the `merge` of the block over
    impacted pool states -/
def InLayerLog (P : Problem S) (R : Relax S) (log : List (Call S)) (var : Nat) (states : List S) (s : S) : Prop :=
  (s ∈ states ∧ P.impacted var s = true) ∨
    ∃ sts, Call.merge sts s ∈ log ∧ s = R.merge sts ∧ ∀ u ∈ sts, u ∈ states ∧ P.impacted var u = true

theorem inLayerLog_of {P : Problem S} {R : Relax S} {log : List (Call S)} {var : Nat} {states : List S}
    {prevs : List (Blk S)} {body pre post : List (Call S)} {c : Call S} {s : S}
    (h3 : BodyOkP P R var states prevs body) (h5 : ∀ x ∈ body, x ∈ log) (hb : body = pre ++ c :: post)
    (hin : InLayerP P var states pre s) : InLayerLog P R log var states s := by
  rcases hin with hin | ⟨sts, hm⟩
  · exact .inl hin
  · have hmb : Call.merge sts s ∈ body := by rw [hb]; exact List.mem_append_left _ hm
    obtain ⟨_, _, _, hq⟩ := bodyOkP_mem h3 hmb
    exact .inr ⟨sts, h5 _ hmb, hq.2.1, hq.2.2.2⟩

/-- **`for_each_in_domain`**: only for the variable selected by `next_variable` for the current block, only for states of
    the layer — pool states *impacted by that variable*, or the merged state -/
theorem protocolOkP_domain {P : Problem S} {R : Relax S} {rootDepth : Nat} {log : List (Call S)}
    (h : ProtocolOkP P R rootDepth log) {v : Nat} {s : S} (hc : Call.domain v s ∈ log) :
    ∃ k states, Call.nextVar k states (some v) ∈ log ∧ P.nextVar k states = some v ∧ InLayerLog P R log v states s := by
  rcases BlocksP.mem_cases h hc with ⟨_, _, _, h1⟩ | ⟨k', var, states, prevs', body, h1, h2, h3, h5, _, h7⟩
  · cases h1
  · rcases h7 with ⟨s', _, he⟩ | h7
    · cases he
    · obtain ⟨pre, post, hb, hv, hin⟩ := bodyOkP_mem h3 h7
      subst hv
      exact ⟨k', states, h1, h2, inLayerLog_of h3 h5 hb hin⟩

/-- **`transition_cost`**: `dst = transition (src, d)`, `d` in the domain of its variable at `src`, that variable is the
    one selected for a block of which `src` is a layer state -/
theorem protocolOkP_cost {P : Problem S} {R : Relax S} {rootDepth : Nat} {log : List (Call S)}
    (h : ProtocolOkP P R rootDepth log) {s t : S} {d : Dec} (hc : Call.cost s t d ∈ log) :
    t = P.trans s d ∧ d.val ∈ P.domain d.var s ∧
    ∃ k states, Call.nextVar k states (some d.var) ∈ log ∧ P.nextVar k states = some d.var ∧
      InLayerLog P R log d.var states s := by
  rcases BlocksP.mem_cases h hc with ⟨_, _, _, h1⟩ | ⟨k', var, states, prevs', body, h1, h2, h3, h5, _, h7⟩
  · cases h1
  · rcases h7 with ⟨s', _, he⟩ | h7
    · cases he
    · obtain ⟨pre, post, hb, hv, hd, ht, hin, _⟩ := bodyOkP_mem h3 h7
      exact ⟨ht, hv ▸ hd, k', states, hv ▸ h1, hv ▸ h2, hv ▸ inLayerLog_of h3 h5 hb hin⟩

/-- **`merge`**: over at least two pool states impacted by the variable of the block -/
theorem protocolOkP_merge {P : Problem S} {R : Relax S} {rootDepth : Nat} {log : List (Call S)}
    (h : ProtocolOkP P R rootDepth log) {sts : List S} {res : S} (hc : Call.merge sts res ∈ log) :
    res = R.merge sts ∧ 2 ≤ sts.length ∧
    ∃ k states var, Call.nextVar k states (some var) ∈ log ∧ ∀ u ∈ sts, u ∈ states ∧ P.impacted var u = true := by
  rcases BlocksP.mem_cases h hc with ⟨_, _, _, h1⟩ | ⟨k', var, states, prevs', body, h1, _, h3, _, _, h7⟩
  · cases h1
  · rcases h7 with ⟨s', _, he⟩ | h7
    · cases he
    · obtain ⟨_, _, _, hq⟩ := bodyOkP_mem h3 h7
      exact ⟨hq.2.1, hq.2.2.1, k', states, var, h1, hq.2.2.2⟩

/-- **`relax`**: `merged` is the state returned by an earlier `merge` of the log over at least two states, one of which is
    `dst`; `(src, dst, d, c)` is an arc of the diagram as `branchOn` created it in **some earlier block**:
    `transition_cost (src, dst, d)` was called, `dst = transition (src, d)`, `d ∈ domain`, `c` is the cost of that arc -/
theorem protocolOkP_relax {P : Problem S} {R : Relax S} {rootDepth : Nat} {log : List (Call S)}
    (h : ProtocolOkP P R rootDepth log) {src dst merged : S} {d : Dec} {c : Int}
    (hc : Call.relax src dst merged d c ∈ log) :
    dst = P.trans src d ∧ d.val ∈ P.domain d.var src ∧ c = P.cost src dst d ∧ Call.cost src dst d ∈ log ∧
    ∃ sts, Call.merge sts merged ∈ log ∧ merged = R.merge sts ∧ 2 ≤ sts.length ∧ dst ∈ sts := by
  rcases BlocksP.mem_cases h hc with ⟨_, _, _, h1⟩ | ⟨k', var, states, prevs', body, _, _, h3, h5, h6, h7⟩
  · cases h1
  · rcases h7 with ⟨s', _, he⟩ | h7
    · cases he
    · obtain ⟨pre, post, hb, ⟨sts, hm, hdst⟩, hav⟩ := bodyOkP_mem h3 h7
      have hmb : Call.merge sts merged ∈ body := by rw [hb]; exact List.mem_append_left _ hm
      obtain ⟨_, _, _, hq⟩ := bodyOkP_mem h3 hmb
      obtain ⟨pre', b, post', hp, ⟨ha1, ha2, ha3, ha4⟩, _⟩ := (arcAvail_iff P prevs' src dst d c).1 hav
      have hbm : b ∈ prevs' := by rw [hp]; exact List.mem_append_right _ List.mem_cons_self
      have hbl : ∀ x ∈ b.2.2, x ∈ log := by
        rcases h6 b hbm with h8 | ⟨_, _, h9⟩
        · cases h8
        · exact h9
      exact ⟨ha2, ha3, ha4, hbl _ ha1, sts, h5 _ hmb, hq.2.1, hq.2.2.1, hdst⟩

/-! ## non-vacuity: a relaxed pooled compilation with a long arc that gets relaxed

Three variables, `width = 1`.  Block 0 expands the root (state `0`) into `1, 2, 3`.  State `3` is **not impacted by
variable 1**: block 1 expands `1, 2` into `4, 5` while `3` stays in the pool.  Block 2 merges `3, 4, 5` into `9`: the
`relax` calls concern the arcs `1→4, 2→4, 1→5, 2→5` created in block 1 **and the arc `0→3` created in block 0**. -/
namespace WitnessP

def P : Problem Int :=
  { nbVars := 3, init := 0, initVal := 0, trans := fun _ d => d.val, cost := fun s t _ => s + t,
    nextVar := fun k _ => if k < 3 then some k else none,
    domain := fun v _ => if v = 0 then [1, 2, 3] else if v = 1 then [4, 5] else [6],
    impacted := fun v s => !(v == 1 && s == 3) }
def R : Relax Int := { merge := fun _ => 9, relax := fun _ _ _ _ c => c, rub := fun _ => 100 }
def cfg : Cfg Int Unit :=
  { P := P, R := R, rank := ⟨fun a b => compare a b⟩, dom := none, useCache := false, kind := .frontier,
    ctype := .relaxed, width := 1, root := { state := 0, value := 0, path := [], ub := 100, depth := 0 }, lb := -1 }

/-- a readable code for a call: `(kind, a, b)` -/
def code : Call Int → Int × Int × Int
  | .nextVar k sts _ => (0, k, sts.length)
  | .impacted v s => (1, v, s)
  | .rub s => (2, s, 0)
  | .domain v s => (3, v, s)
  | .trans s d => (4, s, d.val)
  | .cost s t _ => (5, s, t)
  | .merge sts res => (6, sts.length, res)
  | .relax src dst _ _ _ => (7, src, dst)

def log : List (Call Int) := (compileP cfg (Cache.init 3) (DomStore.init 3) 0 none).2.2.2.log.reverse

/-- the theorem applies … -/
example : ProtocolOkP P R 0 log := compileP_protocol cfg (Cache.init 3) (DomStore.init 3) 0 none

/-- … to this log: block 0 `(0,0,1) …`, block 1 `(0,1,3) …` in which `is_impacted_by (1, 3)` is asked but `3` is not
    expanded, block 2 `(0,2,3) …` with the `merge` of three states and the `relax (0, 3, …)` of the long arc -/
example : log.map code =
    [(0, 0, 1), (1, 0, 0), (2, 0, 0), (3, 0, 0), (4, 0, 1), (5, 0, 1), (4, 0, 2), (5, 0, 2), (4, 0, 3), (5, 0, 3),
     (0, 1, 3), (1, 1, 1), (1, 1, 2), (1, 1, 3), (2, 1, 0), (3, 1, 1), (4, 1, 4), (5, 1, 4), (4, 1, 5), (5, 1, 5),
       (2, 2, 0), (3, 1, 2), (4, 2, 4), (5, 2, 4), (4, 2, 5), (5, 2, 5),
     (0, 2, 3), (1, 2, 3), (1, 2, 4), (1, 2, 5), (6, 3, 9), (7, 2, 5), (7, 1, 5), (7, 2, 4), (7, 1, 4), (7, 0, 3),
       (2, 9, 0), (3, 2, 9), (4, 9, 6), (5, 9, 6),
     (0, 3, 1)] := by decide

end WitnessP

end Ddo.C12

#print axioms Ddo.C12.buildLoopP_protocol
#print axioms Ddo.C12.compileP_protocol
#print axioms Ddo.C12.arcAvail_iff
#print axioms Ddo.C12.nextVar_depth_at_pooled
#print axioms Ddo.C12.protocolOkP_impacted
#print axioms Ddo.C12.protocolOkP_domain
#print axioms Ddo.C12.protocolOkP_cost
#print axioms Ddo.C12.protocolOkP_merge
#print axioms Ddo.C12.protocolOkP_relax
