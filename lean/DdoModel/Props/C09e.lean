import DdoModel.Proofs.ParCacheClosed
import DdoModel.Proofs.ParCacheOracle
import DdoModel.Proofs.ParCacheExec
import DdoModel.Proofs.ParCacheWeak
/-! # C09 / C03 (closed) — the PARALLEL solver WITH the threshold cache returns the optimum, for every interleaving of the
critical sections **and of the individual cache reads / writes**

`Ddo.C03c.parallel_solver_correct` is the cache-less parallel solver; `Ddo.C09.caching_solver_correct` the sequential solver
with `SimpleCache` (any pop order since the repair of D14).  The parallel solver with the cache had no theorem — before the
repair it was false (finding D14, parallel form: a worker delayed between its pop and its compilation).  Here it is closed.

## 1. the system (`Proofs/ParCacheSys.lean`, `Proofs/ParCacheModel.lean`)
`KPStep sv` / `KPRun sv`: shared `Critical` record (`ParCrit`, evolved by the functions of `ParSolver.lean`), the shared cache,
one worker-local state per thread; 21 kinds of steps.  What is **atomic** is what is atomic in the code and nothing more:
* a critical section other than `get_workload` (they do not touch the cache) — one step, enabled when nobody is inside
  `get_workload` (`LockFree`);
* `get_workload` holds the mutex over **several** steps — `gwEnter`, one `clear_layer` per `gwClear` (condition of the code:
  `open_by_layer[fa] + ongoing_by_layer[fa] == 0`), `gwComplete` / `gwWait` / `gwToPop`, then per popped node (best-first pop
  `PopMax`) `gwStarve` / `gwDrop` (`must_explore` = ONE atomic read) / `gwKeep`, and separately `gwTake` = the pop-time write
  `update_threshold(nn.state, nn.depth, nn.value, explored = true)` + the bookkeeping + unlock — so that the lock-free cache
  accesses of the other workers interleave with every one of its cache accesses;
* the end of a compilation (`compileR` / `compileX`, lock-free): the worker presents the **virtual cache** `cv` its reads
  assembled — every entry of `cv` was an entry of the shared cache at some moment between the worker's `best_lb()` and now
  (`FromLog`, over the ghost history `log`); the answer is that of the diagram model run against `cv` (`okRk`, `okXk`).
  *Why this is all a compilation can observe:* it issues at most one `get_threshold` per `(state, depth)`
  (`Ddo.ParCache.compileReads_ok`: the cells read by one compilation are pairwise distinct), and a compilation whose `j`-th read
  is answered by the `j`-th element of an ARBITRARY sequence of caches is the compilation against a virtual cache each of whose
  entries is an entry of one of them (`Ddo.ParCache.compileO_sim`, `Proofs/ParCacheOracle.lean`: `compileO` = `compile` with
  the cache a function of the read index).  Reads need not even be consistent in time;
* every `update_threshold` of a finished compilation is a step of its own (`writeR` / `writeX`, lock-free, in call order),
  **before** the worker's `maybe_update_best` (as in the code: `_compute_thresholds` runs inside `compile`);
* `enqueue_cutset` without cap (repair of D14); no cut-off (`NoCutoff`, as for `caching_solver_correct`);
* panics are explicit (`crash`, enabled exactly when the next operation of the worker would panic: `Panics`).

## 2. the invariant, in words (`Proofs/ParCacheInvA.lean`: `KPInv`)
`x` **beats** when it exceeds the incumbent *and every exact value a worker has found but not yet published*.  `x` is **live at
depth `d`** when a sub-problem of depth `≥ d` and potential `≥ x` is (i) in the fringe and accepted by `must_explore` now, or
(ii) in the hand of a worker (popped and kept, not yet closed — whatever the cache says: its own pop-time write refuses it), or
(iii) in the cut-set of a finished relaxed compilation not yet enqueued, and accepted by `must_explore` now.  Then:
* if the optimum beats, it is live at depth 0;
* **every entry `(s, d) ↦ θ` that the shared cache has EVER held is justified NOW**: whatever it prunes (`v ≤ θ`) and beats is
  live at depth `≥ d`.  Justification is *monotone in time* (`tp_of_local`, the transfer principle: every step maps live facts to
  live facts — a witness that disappears is dominated by a witness strictly deeper, induction on the bounded depth); that is
  exactly why a read of an old value, of a value written meanwhile, or of a value cleared since, is equally sound, and why
  `clear_layer` needs no safety condition at all for correctness;
* every node the cache can refuse (fringe, pending cut-sets) and every node just popped has a bound that dominates its
  potential, or its potential is live *strictly deeper* (bounds computed in diagrams cut by the cache);
* a worker past a compilation carries the contract of that compilation relative to ITS virtual cache and ITS stale incumbent
  (`CompK`: the sequential contract `CompC` + the strict threshold contract + `fresh1`), and the entries of its virtual cache are
  in the log; between `gwKeep` and `gwTake` the kept node has the largest bound of the fringe.
`kstep_kpinv`: preserved by each of the 21 steps.  `KInvAll` adds the side conditions of the diagram theorems (`PCK`) and the
bookkeeping (`LayInvK`: counters, `ongoing`, mutual exclusion, cache shape — hence no panic).

## 3. finding (proof structure, not code): the sequential threshold contract is too weak for the parallel system
`CompC.theta` justifies a recorded threshold `(s, d, θ)` by a cut-set node of the same diagram **not shallower than `d`**.  In the
sequential proof that is enough because a later compilation *reads* the earlier thresholds.  Concurrently it is not: two workers
whose cut-set nodes `c₁`, `c₂` sit at the same depth with equal potentials could each record a threshold on the *other's* state
"justified" by their own node — every field of `CompC` holds, both nodes are then refused at pop, the optimum is lost.  The real
diagram cannot do that: a threshold of a node that is not itself handed out is justified **strictly deeper**
(`Ddo.Theta.gt_all_s`, `Ddo.C09.ThetaStrict`, `Proofs/ParCacheTheta.lean`: same layer ⇒ same node), and that strict form is what
the parallel invariant uses (`kpinv_write`).  **This is a theorem, not a remark**: `Ddo.ParCache.Weak.compC_alone_insufficient`
(`Proofs/ParCacheWeak.lean`) — a 49-step run of the abstract system with two workers, every compilation of which satisfies
`CompC` (the weak contracts are exactly `OkRc` / `OkXc` minus `ThetaStrict` and `fresh1`), from an initial state that satisfies
`KPInv`, reaches `Complete` with `best_lb = isize::MIN` although the optimum is 10 (`not_thetaStrict_xA`: the answers violate
the strict form, as they must).  Nothing false was found about the code: no counter can underflow
(`Ddo.ParCache.no_panics`), the mutex held across the whole pop loop is what makes `gwStarve`'s zeroing of `open_by_layer`
exact; the best-first pop (`PopMax`) is used in exactly one place, `gwStarve` (`nn.ub <= best_lb` ⇒ the whole fringe is
cleared) — the pop-time write, `must_explore` and everything about the cache hold for any pop order (the clause `popmax` of
`KPInv` is recorded but not used).

## 4. the headline `parallel_caching_solver_correct` — hypotheses: `WellFormed sv H B0 B` exactly as `C01d` / `C03c` / `C09c`,
`U ≥ 1` workers.  Nothing else. -/
set_option linter.unusedSectionVars false
set_option linter.unusedVariables false
namespace Ddo.C09e
open Ddo Ddo.Truth Ddo.Closed Ddo.ParSys Ddo.ParClosed Ddo.ParCache Ddo.C09
open Ddo.C01 (SolverCfg WellFormed toOut SolOf)
variable {S : Type} [DecidableEq S]

/-- the pending cut-sets make progress in every state that satisfies the side conditions -/
theorem pck_progOkK {sv : SolverCfg S} {H : Nat → S → EInt} {B0 B : Int} (hwf : WellFormed sv H B0 B) {s : KSys S}
    (hI : PCK sv H B s) : ProgOkK sv.P.nbVars s := by
  intro w hw
  cases w with
  | wrX n lb o cv ups todo =>
    obtain ⟨_, h2, _⟩ : (iMin ≤ lb ∧ lb ≤ B) ∧ okXk sv n lb cv o ups ∧ ∀ u' ∈ todo, u' ∈ ups := (hI.ws _ hw).stage
    exact fun c hc => ((okXk_facts hwf ((hI.ws _ hw).node n (.inl rfl)) h2).2.2.2 c hc).2
  | enq n lb o cv ups =>
    obtain ⟨_, h2⟩ : (iMin ≤ lb ∧ lb ≤ B) ∧ okXk sv n lb cv o ups := (hI.ws _ hw).stage
    exact fun c hc => ((okXk_facts hwf ((hI.ws _ hw).node n (.inl rfl)) h2).2.2.2 c hc).2
  | _ => trivial

/-- **(b) termination**: the step relation of the parallel caching solver, on the reachable states, is well-founded -/
theorem kp_terminates {sv : SolverCfg S} {H : Nat → S → EInt} {B0 B : Int} (hwf : WellFormed sv H B0 B) (U : Nat) :
    WellFounded (fun t s : KSys S => KPRun sv (KSys.init sv.P sv.dedup U) s ∧ KPStep sv s t) :=
  Subrelation.wf (fun {_ _} h => ⟨h.2, pck_progOkK hwf (kprun_inv hwf U h.1).pck⟩)
    (ksys_terminates' sv.P.nbVars sv.dedup (okRk sv) (okXk sv))

/-- … there is no infinite run (any interleaving; wait steps, steps inside `get_workload`, single cache writes counted) -/
theorem kp_no_infinite_run {sv : SolverCfg S} {H : Nat → S → EInt} {B0 B : Int} (hwf : WellFormed sv H B0 B) (U : Nat)
    (run : Nat → KSys S) (h0 : run 0 = KSys.init sv.P sv.dedup U) : ¬ ∀ k, KPStep sv (run k) (run (k + 1)) := by
  intro hrun
  have hreach : ∀ k, KPRun sv (KSys.init sv.P sv.dedup U) (run k) := by
    intro k
    induction k with
    | zero => rw [h0]; exact KRun.refl _
    | succ k ih => exact KRun.tail ih (hrun k)
  exact no_infinite_chain (kp_terminates hwf U) run (fun k => ⟨hreach k, hrun k⟩)

/-- compilations of nodes in range always answer (`compile_no_crash_cached`) -/
theorem comp_answers {sv : SolverCfg S} {H : Nat → S → EInt} {B0 B : Int} (hwf : WellFormed sv H B0 B) :
    (∀ n lb cv, ∃ o ups, n.depth ≤ sv.P.nbVars → okRk sv n lb cv o ups) ∧
    (∀ n lb cv, ∃ o ups, n.depth ≤ sv.P.nbVars → okXk sv n lb cv o ups) :=
  ⟨fun n lb cv => ⟨_, _, fun hd => ⟨CacheClosed.compile_no_crash_cached _ cv _ 0 rfl (hwf.width n) hwf.nv hd, rfl, rfl⟩⟩,
   fun n lb cv => ⟨_, _, fun hd => ⟨CacheClosed.compile_no_crash_cached _ cv _ 0 rfl (hwf.width n) hwf.nv hd, rfl, rfl⟩⟩⟩

/-- **no deadlock, no lost wake-up, no panic ahead**: in every reachable state in which some worker has not left its loop, some
    step that is not a panic is enabled -/
theorem kp_progress {sv : SolverCfg S} {H : Nat → S → EInt} {B0 B : Int} (hwf : WellFormed sv H B0 B) (U : Nat) {t : KSys S}
    (ht : KPRun sv (KSys.init sv.P sv.dedup U) t) (hlive : ¬ AllDone t) : ∃ u, KPStep sv t u ∧ NoPanic u := by
  have hI := kprun_inv hwf U ht
  have hD := pck_depthOk hwf hI.pck
  obtain ⟨hR, hX⟩ := comp_answers hwf
  obtain ⟨u, hu, hL, _⟩ := kstep_progress (dedup := sv.dedup)
    (okR := fun n lb cv o ups => n.depth ≤ sv.P.nbVars → okRk sv n lb cv o ups)
    (okX := fun n lb cv o ups => n.depth ≤ sv.P.nbVars → okXk sv n lb cv o ups) hI.lay hD hlive hR hX
  refine ⟨u, hu.mono (fun i n lb k0 cv o ups hw _ hok => hok ?_) (fun i n lb k0 cv o ups hw _ hok => hok ?_), layInvK_noPanic hL⟩
  · exact hD.held _ (List.mem_of_getElem? hw) n (.inl rfl)
  · exact hD.held _ (List.mem_of_getElem? hw) n (.inl rfl)

/-- the number of workers never changes -/
theorem kprun_len {sv : SolverCfg S} {s u : KSys S} (h : KPRun sv s u) : u.ws.length = s.ws.length := by
  induction h with
  | refl => rfl
  | tail _ hst ih =>
    rw [← ih]
    cases hst <;> simp [List.length_set, List.length_map]

/-- a stored solution exists once the incumbent is the optimum -/
theorem sol_some {sv : SolverCfg S} {H : Nat → S → EInt} {B0 B : Int} (hwf : WellFormed sv H B0 B) {opt : Int}
    (hopt : (H 0 sv.P.init).addI sv.P.initVal = some opt) {t : KSys S} (hI : PCK sv H B t)
    (hlb : t.crit.base.bestLb = opt) : ∃ p, t.crit.base.bestSol = some p := by
  have hb := opt_bound hwf.pot hwf.nv hwf.bound hopt
  have hBs := hwf.bound.B_small
  cases hs : t.crit.base.bestSol with
  | none =>
    have := hI.base.solLb hs
    simp only [iMin] at this
    omega
  | some p => exact ⟨p, rfl⟩

/-- **(c) at `Complete`**: the incumbent is the optimum, the stored solution is a feasible complete path of that value,
    `best_ub := opt`, `Completion { is_exact: true, best_value: Some(opt) }` -/
theorem kp_complete_optimal {sv : SolverCfg S} {H : Nat → S → EInt} {B0 B : Int} (hwf : WellFormed sv H B0 B) {opt : Int}
    (hopt : (H 0 sv.P.init).addI sv.P.initVal = some opt) (U : Nat) {t : KSys S}
    (ht : KPRun sv (KSys.init sv.P sv.dedup U) t) {i : Nat} (hc : CompletesAt sv.P.nbVars t i) :
    t.crit.base.bestLb = opt ∧ (∃ p, t.crit.base.bestSol = some p ∧ SolOf sv.P p opt) ∧
    t.crit.complete.base.bestUb = opt ∧ t.crit.complete.base.completion = (true, some opt) := by
  have hI := kprun_inv hwf U ht
  obtain ⟨h1, h2⟩ := complete_opt H opt (SolOf sv.P) (RgB B) (hI.cov opt hopt) hc (completes_nothing_open hI.lay hc)
  obtain ⟨p, hs⟩ := sol_some hwf hopt hI.pck h1
  refine ⟨h1, ⟨p, hs, h2 p hs⟩, h1, ?_⟩
  show (!t.crit.base.abort, t.crit.base.bestSol.map (fun _ => t.crit.base.bestLb)) = _
  rw [hI.lay.opn.noAbort, hs, h1]; rfl

/-- **(d) when `maximize()` returns** (every worker has left, `U ≥ 1`): the optimum, a feasible solution of that value,
    `is_exact = true` -/
theorem kp_final {sv : SolverCfg S} {H : Nat → S → EInt} {B0 B : Int} (hwf : WellFormed sv H B0 B) {opt : Int}
    (hopt : (H 0 sv.P.init).addI sv.P.initVal = some opt) (U : Nat) (hU : 1 ≤ U) {t : KSys S}
    (ht : KPRun sv (KSys.init sv.P sv.dedup U) t) (hd : AllDone t) :
    t.crit.base.bestLb = opt ∧ (∃ p, t.crit.base.bestSol = some p ∧ SolOf sv.P p opt) ∧
    t.crit.base.completion = (true, some opt) := by
  have hI := kprun_inv hwf U ht
  have hlen : t.ws.length = U := by rw [kprun_len ht]; simp [KSys.init]
  have h0 : ∃ w, t.ws[0]? = some w := by
    cases hws : t.ws with
    | nil => rw [hws] at hlen; simp at hlen; omega
    | cons w _ => exact ⟨w, rfl⟩
  obtain ⟨w, hw⟩ := h0
  have hwd : w = .done := hd w (List.mem_of_getElem? hw)
  have h1 := (hI.cov opt hopt).doneOk ⟨0, by rw [hw, hwd]⟩
  obtain ⟨p, hs⟩ := sol_some hwf hopt hI.pck h1
  refine ⟨h1, ⟨p, hs, h1 ▸ (hI.cov opt hopt).solOk p hs⟩, ?_⟩
  show (!t.crit.base.abort, t.crit.base.bestSol.map (fun _ => t.crit.base.bestLb)) = _
  rw [hI.lay.opn.noAbort, hs, h1]; rfl

/-- infeasible problem: nothing is ever stored; at `Complete`, `is_exact = true` and no value -/
theorem kp_infeasible {sv : SolverCfg S} {H : Nat → S → EInt} {B0 B : Int} (hwf : WellFormed sv H B0 B)
    (hinf : (H 0 sv.P.init).addI sv.P.initVal = none) (U : Nat) {t : KSys S}
    (ht : KPRun sv (KSys.init sv.P sv.dedup U) t) :
    t.crit.base.bestSol = none ∧ t.crit.base.completion.2 = none ∧
    (∀ i, CompletesAt sv.P.nbVars t i → t.crit.complete.base.completion = (true, none)) := by
  have hI := kprun_inv hwf U ht
  obtain ⟨_, h2⟩ := hI.pck.base.infeas hinf
  refine ⟨h2, ?_, fun i hc => ?_⟩
  · show t.crit.base.bestSol.map (fun _ => t.crit.base.bestLb) = none
    rw [h2]; rfl
  · show (!t.crit.base.abort, t.crit.base.bestSol.map (fun _ => t.crit.base.bestLb)) = _
    rw [h2, hI.lay.opn.noAbort]; rfl

/-! ## the headline -/

/-- **`parallel_caching_solver_correct`**: for every well-formed model (`WellFormed`: `Potential`, `RubOk`, `MergeOk`,
    `AttMerge`, `RunBound`, `NvBound`, widths ≥ 1), every ranking of the states, width function, cut-set kind, either fringe and
    **every number of workers `U ≥ 1`**, the parallel solver with `SimpleCache` over the diagram model (best-first pops, no
    dominance, no cut-off), from `KSys.init sv.P sv.dedup U`, in **every interleaving of the critical sections, of the steps
    inside `get_workload`, and of the individual cache reads and writes** (each compilation reading, per cell, any content the
    shared cache had while it ran):

    * terminates: the step relation is well-founded on the reachable states; there is no infinite run;
    * in every reachable state `t`:
      - the whole invariant `KInvAll` (side conditions `PCK`, bookkeeping `LayInvK`, coverage `KPInv`);
      - nothing has panicked, the next operation of no worker panics (`Panics`: every index in range, no `usize` underflow),
        and — no deadlock, no lost wake-up — some step that is not a panic is enabled unless every worker has left;
      - feasible problem, optimum `opt`: whenever a worker's `get_workload` answers `Complete`, `best_lb = opt`, the stored
        solution is a genuinely feasible complete path of value `opt`, `best_ub := opt`,
        `Completion = (true, Some(opt))`; when `maximize()` returns (every worker gone) the same; always `best_lb ≤ opt` and the
        stored solution is feasible with value `best_lb`;
      - infeasible problem: no solution is ever stored, `Complete` reports `(true, None)`. -/
theorem parallel_caching_solver_correct (sv : SolverCfg S) (H : Nat → S → EInt) (B0 B : Int) (hwf : WellFormed sv H B0 B)
    (U : Nat) (hU : 1 ≤ U) :
    WellFounded (fun t s : KSys S => KPRun sv (KSys.init sv.P sv.dedup U) s ∧ KPStep sv s t) ∧
    (∀ run : Nat → KSys S, run 0 = KSys.init sv.P sv.dedup U → ¬ ∀ k, KPStep sv (run k) (run (k + 1))) ∧
    ∀ t, KPRun sv (KSys.init sv.P sv.dedup U) t →
      KInvAll sv H B t ∧
      (NoPanic t ∧ (∀ (i : Nat) (w : KW S), t.ws[i]? = some w → ¬ Panics sv.P.nbVars t i w) ∧
        (¬ AllDone t → ∃ u, KPStep sv t u ∧ NoPanic u)) ∧
      (∀ opt, (H 0 sv.P.init).addI sv.P.initVal = some opt →
        (∀ i, CompletesAt sv.P.nbVars t i →
          t.crit.base.bestLb = opt ∧ (∃ p, t.crit.base.bestSol = some p ∧ SolOf sv.P p opt) ∧
          t.crit.complete.base.bestUb = opt ∧ t.crit.complete.base.completion = (true, some opt)) ∧
        (AllDone t →
          t.crit.base.bestLb = opt ∧ (∃ p, t.crit.base.bestSol = some p ∧ SolOf sv.P p opt) ∧
          t.crit.base.completion = (true, some opt)) ∧
        t.crit.base.bestLb ≤ opt ∧ (∀ p, t.crit.base.bestSol = some p → SolOf sv.P p t.crit.base.bestLb)) ∧
      ((H 0 sv.P.init).addI sv.P.initVal = none →
        t.crit.base.bestSol = none ∧ t.crit.base.completion.2 = none ∧
        (∀ i, CompletesAt sv.P.nbVars t i → t.crit.complete.base.completion = (true, none))) := by
  refine ⟨kp_terminates hwf U, kp_no_infinite_run hwf U, fun t ht => ?_⟩
  have hI := kprun_inv hwf U ht
  have hD := pck_depthOk hwf hI.pck
  exact ⟨hI, ⟨layInvK_noPanic hI.lay, fun i w hw => no_panics hI.lay hD hw, kp_progress hwf U ht⟩,
    fun opt hopt => ⟨fun i hc => kp_complete_optimal hwf hopt U ht hc, fun hd => kp_final hwf hopt U hU ht hd,
      (hI.cov opt hopt).lbOk, (hI.cov opt hopt).solOk⟩,
    fun hinf => kp_infeasible hwf hinf U ht⟩

/-! ## the reads of a compilation, one by one

The step `compileR` / `compileX` of the system takes a virtual cache.  These two theorems say that this covers a compilation
whose **individual reads** are answered, one after the other, by arbitrary (possibly different, not even chronologically
ordered) contents the shared cache had while the compilation ran: `compileO cfg cs …` is the compilation of the diagram model
in which the `j`-th `get_threshold` is answered by the cache `cs j` (`Proofs/ParCacheOracle.lean`). -/

theorem view_of_get {c : Cache S} {st : S} {d : Nat} {t : Thr} (h : c.get st d = some (some t)) : viewOf c st d = some t := by
  unfold viewOf; rw [h]; rfl

theorem get_of_view {c : Cache S} {st : S} {d : Nat} {t : Thr} (h : viewOf c st d = some t) : c.get st d = some (some t) := by
  unfold viewOf at h
  cases hg : c.get st d with
  | none => rw [hg] at h; cases h
  | some x => rw [hg, Option.getD_some] at h; rw [h]

/-- a restricted compilation whose `j`-th read is answered by `cs j`, every `cs j` being a content the shared cache had since
    the worker entered the stage `compR`, **is a step of the system** -/
theorem oracle_compileR {sv : SolverCfg S} {s : KSys S} {i : Nat} {n : SubP S} {lb : Int} {k0 : Nat}
    (hw : s.ws[i]? = some (.compR n lb k0)) (cs : Nat → Cache S)
    (hcs : ∀ j, cs j ∈ s.log.take (s.log.length + 1 - k0))
    (hok : (compileO (sv.ccfg .restricted n lb) cs (DomStore.init sv.P.nbVars) 0 none).1 = .ok) :
    ∃ cv, KPStep sv s { s with ws := s.ws.set i (.wrR n lb
      (toOut (compileO (sv.ccfg .restricted n lb) cs (DomStore.init sv.P.nbVars) 0 none).2.1) cv
      (compileO (sv.ccfg .restricted n lb) cs (DomStore.init sv.P.nbVars) 0 none).2.1.cacheUpdates.reverse
      (compileO (sv.ccfg .restricted n lb) cs (DomStore.init sv.P.nbVars) 0 none).2.1.cacheUpdates.reverse) } := by
  obtain ⟨cv, _, hent, heq⟩ := compileO_sim (sv.ccfg .restricted n lb) cs (DomStore.init sv.P.nbVars) 0 none
    ((sv.ccfg .restricted n lb).root.depth + (sv.ccfg .restricted n lb).P.nbVars + 2) (.inr (Nat.le_refl _))
  refine ⟨cv, ?_⟩
  rw [heq] at hok ⊢
  refine KStep.compileR s i n lb k0 cv _ _ hw (fun st d t ht => ?_) ⟨hok, rfl, rfl⟩
  obtain ⟨j, hj⟩ := hent st d t (get_of_view ht)
  exact ⟨cs j, hcs j, view_of_get hj⟩

/-- the same for the relaxed compilation -/
theorem oracle_compileX {sv : SolverCfg S} {s : KSys S} {i : Nat} {n : SubP S} {lb : Int} {k0 : Nat}
    (hw : s.ws[i]? = some (.compX n lb k0)) (cs : Nat → Cache S)
    (hcs : ∀ j, cs j ∈ s.log.take (s.log.length + 1 - k0))
    (hok : (compileO (sv.ccfg .relaxed n lb) cs (DomStore.init sv.P.nbVars) 0 none).1 = .ok) :
    ∃ cv, KPStep sv s { s with ws := s.ws.set i (.wrX n lb
      (toOut (compileO (sv.ccfg .relaxed n lb) cs (DomStore.init sv.P.nbVars) 0 none).2.1) cv
      (compileO (sv.ccfg .relaxed n lb) cs (DomStore.init sv.P.nbVars) 0 none).2.1.cacheUpdates.reverse
      (compileO (sv.ccfg .relaxed n lb) cs (DomStore.init sv.P.nbVars) 0 none).2.1.cacheUpdates.reverse) } := by
  obtain ⟨cv, _, hent, heq⟩ := compileO_sim (sv.ccfg .relaxed n lb) cs (DomStore.init sv.P.nbVars) 0 none
    ((sv.ccfg .relaxed n lb).root.depth + (sv.ccfg .relaxed n lb).P.nbVars + 2) (.inr (Nat.le_refl _))
  refine ⟨cv, ?_⟩
  rw [heq] at hok ⊢
  refine KStep.compileX s i n lb k0 cv _ _ hw (fun st d t ht => ?_) ⟨hok, rfl, rfl⟩
  obtain ⟨j, hj⟩ := hent st d t (get_of_view ht)
  exact ⟨cs j, hcs j, view_of_get hj⟩

/-! ## total correctness -/

/-- every run can be continued until every worker has left (termination + progress) -/
theorem kp_run_to_end {sv : SolverCfg S} {H : Nat → S → EInt} {B0 B : Int} (hwf : WellFormed sv H B0 B) (U : Nat) {s : KSys S}
    (hs : KPRun sv (KSys.init sv.P sv.dedup U) s) :
    ∃ t, KPRun sv (KSys.init sv.P sv.dedup U) t ∧ KPRun sv s t ∧ AllDone t := by
  refine (kp_terminates hwf U).induction
    (C := fun s => KPRun sv (KSys.init sv.P sv.dedup U) s →
      ∃ t, KPRun sv (KSys.init sv.P sv.dedup U) t ∧ KPRun sv s t ∧ AllDone t) s ?_ hs
  intro s ih hs
  by_cases hd : AllDone s
  · exact ⟨s, hs, KRun.refl _, hd⟩
  · obtain ⟨u, hu, _⟩ := kp_progress hwf U hs hd
    obtain ⟨t, h1, h2, h3⟩ := ih u ⟨hs, hu⟩ (KRun.tail hs hu)
    exact ⟨t, h1, KRun.head hu h2, h3⟩

/-- **`parallel_caching_solver_total`**: the parallel caching solver has a run from `initialize()` to the return of
    `maximize()`, every run can be completed to one, and **every** such run — every interleaving — reports `is_exact = true`
    with the optimum and a feasible solution of that value, or no value iff the problem is infeasible -/
theorem parallel_caching_solver_total (sv : SolverCfg S) (H : Nat → S → EInt) (B0 B : Int) (hwf : WellFormed sv H B0 B)
    (U : Nat) (hU : 1 ≤ U) :
    (∃ t, KPRun sv (KSys.init sv.P sv.dedup U) t ∧ AllDone t) ∧
    ∀ t, KPRun sv (KSys.init sv.P sv.dedup U) t → AllDone t →
      (∀ opt, (H 0 sv.P.init).addI sv.P.initVal = some opt →
        t.crit.base.completion = (true, some opt) ∧ t.crit.base.bestLb = opt ∧
        ∃ p, t.crit.base.bestSol = some p ∧ SolOf sv.P p opt) ∧
      ((H 0 sv.P.init).addI sv.P.initVal = none → t.crit.base.completion = (true, none)) := by
  refine ⟨?_, fun t ht hd => ⟨fun opt hopt => ?_, fun hinf => ?_⟩⟩
  · obtain ⟨t, h1, _, h3⟩ := kp_run_to_end hwf U (KRun.refl _)
    exact ⟨t, h1, h3⟩
  · obtain ⟨h1, h2, h3⟩ := kp_final hwf hopt U hU ht hd
    exact ⟨h3, h1, h2⟩
  · obtain ⟨h1, _, _⟩ := kp_infeasible hwf hinf U ht
    show (!t.crit.base.abort, t.crit.base.bestSol.map (fun _ => t.crit.base.bestLb)) = _
    rw [h1, (kprun_inv hwf U ht).lay.opn.noAbort]; rfl

/-! ## 5. non-vacuity, and the former D14 counter-example in its parallel form

`Proofs/ParCacheExec.lean`: a deterministic scheduler `nextK` (`nextK_step`: it only takes steps of `KPStep`; the compile steps
read the `pick`-th admissible snapshot of the log — `pick ≥ 1`: a STALE content) and two runs evaluated by `decide`:
`TrapK` (2 workers on `C01.Trap`, thread 1 compiles against the oldest of its 5 admissible snapshots: `TrapK.stale_obs`,
`TrapK.end_obs`) and `CounterK` — **the D14 scenario on `Layered.Counter`**: thread 1 pops the best node and is frozen inside
`compR`, thread 0 alone processes four nodes (incumbent 3 → 4 → 10) and parks, thread 1 then compiles with the stale incumbent
3 against the oldest of its 19 snapshots; the run ends `Completion (true, Some(10))` (`CounterK.end_obs`).  The same file holds a
search driver (evidence, not proof): 2 236 640 complete runs of the 2- and 3-worker system (delayed-worker and pseudo-random
schedules, stale and fresh snapshot reads) over 823 tables of the D14 family, 324 of them D14-sensitive — every run ended
`AllDone` with the optimum, none stuck, none panicked; with the pre-fix capped `enqueue_cutset` substituted in the driver the
same search loses the optimum on every D14-sensitive table (e.g. `Counter`: 4 instead of 10). -/

namespace Trap2K
open Ddo.C01.Trap

/-- the headline on `Trap` with two workers: every reachable state of every interleaving; what the evaluated run
    `ParCache.TrapK.end_obs` shows (incumbent 4) is what the theorem predicts -/
theorem correct (dedup : Bool) (kind : CutsetKind) (t : KSys Int) (ht : KPRun (sv dedup kind) (KSys.init prob dedup 2) t) :
    NoPanic t ∧ (¬ AllDone t → ∃ u, KPStep (sv dedup kind) t u ∧ NoPanic u) ∧
    (∀ i, CompletesAt 3 t i → t.crit.base.bestLb = 4 ∧ t.crit.complete.base.completion = (true, some 4)) ∧
    (AllDone t → t.crit.base.completion = (true, some 4)) := by
  obtain ⟨_, ⟨a1, _, a3⟩, hf, _⟩ := (parallel_caching_solver_correct (sv dedup kind) H 2 8 (wellFormed dedup kind) 2 (by decide)).2.2 t ht
  obtain ⟨b1, b2, _⟩ := hf 4 rfl
  exact ⟨a1, a3, fun i hc => ⟨(b1 i hc).1, (b1 i hc).2.2.2⟩, fun hd => (b2 hd).2.2⟩

theorem terminates (dedup : Bool) (kind : CutsetKind) (run : Nat → KSys Int) (h0 : run 0 = KSys.init prob dedup 2) :
    ¬ ∀ k, KPStep (sv dedup kind) (run k) (run (k + 1)) :=
  (parallel_caching_solver_correct (sv dedup kind) H 2 8 (wellFormed dedup kind) 2 (by decide)).2.1 run h0

/-- a complete two-worker run with a stale snapshot read exists and ends with the optimum -/
example : ∃ t, KPRun (sv false .lel) (KSys.init prob false 2) t ∧ AllDone t ∧ NoPanic t ∧ t.crit.base.bestLb = 4 :=
  ParCache.TrapK.complete_run.2

end Trap2K

namespace Counter2K
open Ddo.C09.Layered

/-- **the former counter-example of finding D14, in its parallel form, is now a theorem**: on `Layered.Counter` (optimum 10;
    the pre-fix solver returned 4 when a worker was delayed between its pop and its compilation), for every number of workers
    `U ≥ 1`, either fringe, either cut-set kind, **every** interleaving — delayed workers, stale reads — that reaches `Complete`
    or the return of `maximize()` reports 10 -/
theorem counter_is_ten (dedup : Bool) (kind : CutsetKind) (U : Nat) (hU : 1 ≤ U) (t : KSys Int)
    (ht : KPRun (Counter.sv dedup kind) (KSys.init (Counter.sv dedup kind).P (Counter.sv dedup kind).dedup U) t) :
    NoPanic t ∧ (∀ i, CompletesAt (Counter.sv dedup kind).P.nbVars t i → t.crit.base.bestLb = 10) ∧
    (AllDone t → t.crit.base.completion = (true, some 10)) := by
  obtain ⟨_, ⟨a1, _, _⟩, hf, _⟩ :=
    (parallel_caching_solver_correct (Counter.sv dedup kind) (H Counter.T) 10 80 (Counter.wellFormed dedup kind) U hU).2.2 t ht
  obtain ⟨b1, b2, _⟩ := hf 10 Counter.opt10
  exact ⟨a1, fun i hc => (b1 i hc).1, fun hd => (b2 hd).2.2⟩

end Counter2K

end Ddo.C09e

#print axioms Ddo.C09e.kp_terminates
#print axioms Ddo.C09e.kp_no_infinite_run
#print axioms Ddo.C09e.kp_progress
#print axioms Ddo.C09e.kp_complete_optimal
#print axioms Ddo.C09e.kp_final
#print axioms Ddo.C09e.kp_infeasible
#print axioms Ddo.C09e.parallel_caching_solver_correct
#print axioms Ddo.C09e.oracle_compileR
#print axioms Ddo.C09e.oracle_compileX
#print axioms Ddo.C09e.Trap2K.correct
#print axioms Ddo.C09e.Trap2K.terminates
#print axioms Ddo.C09e.Counter2K.counter_is_ten
#print axioms Ddo.ParCache.nextK_step
#print axioms Ddo.ParCache.TrapK.end_obs
#print axioms Ddo.ParCache.TrapK.complete_run
#print axioms Ddo.ParCache.CounterK.end_obs
#print axioms Ddo.ParCache.Weak.compC_alone_insufficient
#print axioms Ddo.C09e.kp_run_to_end
#print axioms Ddo.C09e.parallel_caching_solver_total
#print axioms Ddo.ParCache.kstep_kpinv
#print axioms Ddo.ParCache.okRk_contract
#print axioms Ddo.ParCache.okXk_contract
#print axioms Ddo.ParCache.kprun_inv
#print axioms Ddo.ParCache.no_panics
#print axioms Ddo.ParCache.kstep_progress
#print axioms Ddo.ParCache.ksys_terminates'
#print axioms Ddo.ParCache.compileO_sim
#print axioms Ddo.ParCache.compileReads_ok
#print axioms Ddo.C09.thetaStrict_relaxed_of_model
