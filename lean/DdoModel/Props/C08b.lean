import DdoModel.Proofs.MddBounds
import DdoModel.Props.C06
/-! C08 — the cut-set of a compiled diagram, clauses (iii) and (iv): relaxed compilation in isolation
    (`cfg.useCache = false`, `cfg.dom = none`), width `≥ 1`, outcome `.ok`, both cut-set kinds, both results of
    `compile`, any `stopAt`.  `Φ c := (H c.depth c.state).addI c.value` is the potential (optimum) of a sub-problem.

* `Ddo.C08.cutset_ub_valid` (iii): the upper bound `c.ub = min (min (value ⊕ rub) (value ⊕ vbot)) bestValue` attached to
  a sub-problem of the cut-set dominates its potential whenever that potential beats the incumbent `lb`
  (all three terms: rough upper bound, local bound, best value of the diagram).
* `Ddo.C08.cutset_cover` (iv): if the potential `o` of the root sub-problem beats `lb` and the best exact value of the
  diagram, some sub-problem of the cut-set has potential `≥ o`.

Hypotheses: those of `Ddo.C06.relaxed_ub` (`Potential`, `RubOk`, `MergeOk`, `AttMerge`, `NoClamp`, `InI cfg.lb`), plus
* `hroot : Reach … p0` — the root sub-problem is exact (as in C08 (i)); it is what gives `c.depth = cfg.root.depth + `
  (index of the layer) for the (exact) nodes of the cut-set, hence the depth at which `H` is evaluated;
* (iv) `hO : o ≤ iMax ∨ cfg.lb < iMax` — as in C06: the rough-upper-bound test `satAdd rub value > lb` is computed
  with saturation, with `lb = isize::MAX` it prunes everything.  (iii) needs no such hypothesis: with `lb = isize::MAX`
  the cut-set is empty (`Ddo.Bounds.compile_lbmax_cutset`).

Proofs: `DdoModel/Proofs/MddBounds.lean`. -/
namespace Ddo.C08
open Ddo Ddo.Bounds

/-- **C08 (iii)**: the upper bound of a cut-set sub-problem is valid. -/
theorem cutset_ub_valid {S K : Type} [DecidableEq S] [DecidableEq K]
    (cfg : Cfg S K) (H : Nat → S → EInt) (B : Int) (p0 : List Dec) (cache : Cache S) (store : DomStore S K)
    (polls : Nat) (stopAt : Option Nat)
    (hrel : cfg.ctype = .relaxed) (hcache : cfg.useCache = false) (hdom : cfg.dom = none) (hW : 1 ≤ cfg.width)
    (hP : Potential cfg.P H) (hR : RubOk cfg.R H) (hM : MergeOk cfg.R H) (hAM : Cover.AttMerge cfg.P cfg.R H)
    (hB : NoClamp cfg.P cfg.R cfg.root.value B) (hlb : InI cfg.lb)
    (hroot : Reach cfg.P cfg.root.depth cfg.root.state cfg.root.value p0)
    (hok : (compile cfg cache store polls stopAt).1 = .ok) (r : Result S)
    (hr : r = (compile cfg cache store polls stopAt).2.1 ∨ (compile cfg cache store polls stopAt).2.2.1 = some r) :
    ∀ c ∈ r.cutset, ∀ x, (H c.depth c.state).addI c.value = some x → x > cfg.lb → x ≤ c.ub := by
  intro c hc x hΦ hx
  -- with `lb = isize::MAX` every node is pruned and the cut-set is empty
  by_cases hlbmax : cfg.lb < iMax
  case neg =>
    exfalso
    have hlbeq : cfg.lb = iMax := by unfold InI at hlb; omega
    obtain ⟨_, e, rfl⟩ := compile_results cfg cache store polls stopAt hok r hr
    rw [compile_lbmax_cutset cfg B p0 hlbeq hrel hW hcache hdom hB hroot cache store polls stopAt hok e] at hc
    cases hc
  have hclamp : ∀ y, x ≤ y → clamp y > cfg.lb := by
    intro y hy
    unfold InI at hlb
    unfold clamp
    simp only [iMin, iMax] at *
    omega
  have hy : HypB cfg H B x := ⟨hrel, hcache, hdom, hW, hP, hR, hM, hAM, hB, hclamp⟩
  obtain ⟨_, e, rfl⟩ := compile_results cfg cache store polls stopAt hok r hr
  have hwf := compile_wf cfg B p0 hB hroot cache store polls stopAt
  have hdone := compile_done cfg H B x hy cache store polls stopAt hok
  generalize (buildLoop cfg stopAt (cfg.P.nbVars + 2) (initDD cfg cache store polls)).1 = fin at hc hwf hdone
  cases hdone with
  | brk Live dd0 _ _ hn => rw [finalize_cutset_of_empty cfg fin e hn] at hc; cases hc
  | term Live hI hnone hlen =>
    by_cases hn : fin.next = []
    · rw [finalize_cutset_of_empty cfg fin e hn] at hc; cases hc
    · exact Fin.cutset_ub ⟨hI, hnone, hlen, hn⟩ hy hlb p0 hwf e c hc x hΦ (Int.le_refl _) hx

/-- **C08 (iv)**: the cut-set covers the root sub-problem, in potential form. -/
theorem cutset_cover {S K : Type} [DecidableEq S] [DecidableEq K]
    (cfg : Cfg S K) (H : Nat → S → EInt) (B : Int) (p0 : List Dec) (cache : Cache S) (store : DomStore S K)
    (polls : Nat) (stopAt : Option Nat)
    (hrel : cfg.ctype = .relaxed) (hcache : cfg.useCache = false) (hdom : cfg.dom = none) (hW : 1 ≤ cfg.width)
    (hP : Potential cfg.P H) (hR : RubOk cfg.R H) (hM : MergeOk cfg.R H) (hAM : Cover.AttMerge cfg.P cfg.R H)
    (hB : NoClamp cfg.P cfg.R cfg.root.value B) (hlb : InI cfg.lb)
    (hroot : Reach cfg.P cfg.root.depth cfg.root.state cfg.root.value p0)
    (o : Int) (ho : optOf H cfg.root = some o) (hgt : o > cfg.lb) (hO : o ≤ iMax ∨ cfg.lb < iMax)
    (hok : (compile cfg cache store polls stopAt).1 = .ok) (r : Result S)
    (hr : r = (compile cfg cache store polls stopAt).2.1 ∨ (compile cfg cache store polls stopAt).2.2.1 = some r)
    (hbe : ∀ be, r.bestExactValue = some be → be < o) :
    ∃ c ∈ r.cutset, ∃ y, (H c.depth c.state).addI c.value = some y ∧ o ≤ y := by
  have hclamp : ∀ y, o ≤ y → clamp y > cfg.lb := by
    intro y hy
    unfold InI at hlb
    unfold clamp
    simp only [iMin, iMax] at *
    omega
  have hy : HypB cfg H B o := ⟨hrel, hcache, hdom, hW, hP, hR, hM, hAM, hB, hclamp⟩
  obtain ⟨h0, hH0, ho0⟩ := addI_some ho
  have ht : o ≤ cfg.root.value + h0 := by omega
  obtain ⟨_, e, rfl⟩ := compile_results cfg cache store polls stopAt hok r hr
  have hwf := compile_wf cfg B p0 hB hroot cache store polls stopAt
  have hdone := compile_done cfg H B o hy cache store polls stopAt hok
  generalize (buildLoop cfg stopAt (cfg.P.nbVars + 2) (initDD cfg cache store polls)).1 = fin at hbe hwf hdone ⊢
  cases hdone with
  | brk Live dd0 hI0 hn0 _ => exact absurd hn0 (hI0.next_ne h0 hH0 ht)
  | term Live hI hnone hlen =>
    exact Fin.cutset_cover ⟨hI, hnone, hlen, hI.next_ne h0 hH0 ht⟩ hy p0 hwf e h0 hH0 ht hbe

/-! ## non-vacuity: the tiny model of C06 (three binary variables, width 1, a merge on the third layer), both kinds -/
namespace TinyCut
open Ddo.C06

/-- the frontier variant of `Ddo.C06.Tiny.cfg` -/
def cfgF : Cfg Int Unit := { Tiny.cfg with kind := .frontier }

theorem attMerge : Cover.AttMerge Tiny.prob Tiny.rlx Tiny.H :=
  Cover.attMerge_of_static Tiny.potential (fun _ _ _ _ _ => rfl)

/-- last-exact-layer cut-set: two sub-problems, `(state, value, ub, depth) = (0, 0, 2, 1)` and `(1, 1, 3, 1)`;
    their potentials are `2` and `3`: the bounds are tight -/
example : ((compile Tiny.cfg (Cache.init 3) (DomStore.init 3) 0 none).2.1.cutset.map
    (fun c => (c.state, c.value, c.ub, c.depth))) = [(0, 0, 2, 1), (1, 1, 3, 1)] := by decide

example : ∀ c ∈ (compile Tiny.cfg (Cache.init 3) (DomStore.init 3) 0 none).2.1.cutset, ∀ x,
    (Tiny.H c.depth c.state).addI c.value = some x → x > Tiny.cfg.lb → x ≤ c.ub :=
  cutset_ub_valid Tiny.cfg Tiny.H 1 [] (Cache.init 3) (DomStore.init 3) 0 none rfl rfl rfl (by decide)
    Tiny.potential Tiny.rubOk Tiny.mergeOk attMerge Tiny.noClamp (by decide) Reach.root (by decide) _ (.inl rfl)

example : ∃ c ∈ (compile Tiny.cfg (Cache.init 3) (DomStore.init 3) 0 none).2.1.cutset, ∃ y,
    (Tiny.H c.depth c.state).addI c.value = some y ∧ 3 ≤ y :=
  cutset_cover Tiny.cfg Tiny.H 1 [] (Cache.init 3) (DomStore.init 3) 0 none rfl rfl rfl (by decide)
    Tiny.potential Tiny.rubOk Tiny.mergeOk attMerge Tiny.noClamp (by decide) Reach.root 3 rfl (by decide)
    (.inl (by decide)) (by decide) _ (.inl rfl)
    (by
      have h : (compile Tiny.cfg (Cache.init 3) (DomStore.init 3) 0 none).2.1.bestExactValue = none := by decide
      intro be hbe; rw [h] at hbe; cases hbe)

/-- frontier cut-set of the same model -/
example : ((compile cfgF (Cache.init 3) (DomStore.init 3) 0 none).2.1.cutset.map
    (fun c => (c.state, c.value, c.ub, c.depth))) = [(0, 0, 2, 1), (1, 1, 3, 1)] := by decide

example : ∀ c ∈ (compile cfgF (Cache.init 3) (DomStore.init 3) 0 none).2.1.cutset, ∀ x,
    (Tiny.H c.depth c.state).addI c.value = some x → x > cfgF.lb → x ≤ c.ub :=
  cutset_ub_valid cfgF Tiny.H 1 [] (Cache.init 3) (DomStore.init 3) 0 none rfl rfl rfl (by decide)
    Tiny.potential Tiny.rubOk Tiny.mergeOk attMerge Tiny.noClamp (by decide) Reach.root (by decide) _ (.inl rfl)

example : ∃ c ∈ (compile cfgF (Cache.init 3) (DomStore.init 3) 0 none).2.1.cutset, ∃ y,
    (Tiny.H c.depth c.state).addI c.value = some y ∧ 3 ≤ y :=
  cutset_cover cfgF Tiny.H 1 [] (Cache.init 3) (DomStore.init 3) 0 none rfl rfl rfl (by decide)
    Tiny.potential Tiny.rubOk Tiny.mergeOk attMerge Tiny.noClamp (by decide) Reach.root 3 rfl (by decide)
    (.inl (by decide)) (by decide) _ (.inl rfl)
    (by
      have h : (compile cfgF (Cache.init 3) (DomStore.init 3) 0 none).2.1.bestExactValue = none := by decide
      intro be hbe; rw [h] at hbe; cases hbe)

end TinyCut

end Ddo.C08
